//! Witnesses of known finding F10 (C04 / C09): under Miri (Stacked Borrows and Tree Borrows) safe client code that keeps two
//! references yielded by `iter_mut()` alive at the same time is undefined behaviour.  Every `IterMut::next` / `next_back`
//! re-borrows the whole entry slice uniquely (`get_index_mut2`), which invalidates the references yielded before; the
//! references carry the lifetime of the queue borrow, so the borrow checker lets the client keep them.
//! Run: cargo +nightly miri test --offline --test itermut_alias -- --exact <name>
use priority_queue::{DoublePriorityQueue, PriorityQueue};

/// UB under Miri: a write through the FIRST yielded reference after the second `next`
#[test]
fn pq_two_live_refs() {
    let mut q: PriorityQueue<u32, u32> = PriorityQueue::new();
    q.push(1, 10); q.push(2, 20); q.push(3, 30);
    {
        let mut it = q.iter_mut();
        let a = it.next().unwrap();
        *a.1 = 5;
        let b = it.next().unwrap();
        *b.1 = 7;
        *a.1 = 6; // Miri: Undefined Behavior (the tag of `a` was invalidated by the Unique retag of the second `next`)
        drop(it);
    }
    assert_eq!(q.len(), 3);
}

/// the same with one reference from each end of the DoublePriorityQueue iterator
#[test]
fn dpq_two_live_refs() {
    let mut q: DoublePriorityQueue<u32, u32> = DoublePriorityQueue::new();
    q.push(1, 10); q.push(2, 20); q.push(3, 30);
    {
        let mut it = q.iter_mut();
        let a = it.next().unwrap();
        *a.1 = 5;
        let b = it.next_back().unwrap();
        *b.1 = 7;
        *a.1 = 6; // Miri: Undefined Behavior
        drop(it);
    }
    assert_eq!(q.len(), 3);
}

/// control: the strictly sequential use (yield, write, yield, write …) is accepted by Miri
#[test]
fn pq_sequential() {
    let mut q: PriorityQueue<u32, u32> = PriorityQueue::new();
    q.push(1, 10); q.push(2, 20); q.push(3, 30);
    for (_, p) in q.iter_mut() { *p += 1; }
    assert_eq!(q.peek().map(|x| *x.1), Some(31));
}
