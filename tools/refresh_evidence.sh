#!/bin/bash
# runs every quick check in /verif against /repo (default seed) so that the committed evidence files are the ones the
# current machinery writes; prints a line per check; exits non-zero if any check does
cd /verif || exit 2
rc_all=0
for i in 01 02 03 04 05 06 07 08 09 10 11 12 13 14 15 16 17 18; do
  out=$(VERIF_SEED=1 bin/check C$i --tier quick 2>&1); rc=$?
  echo "C$i rc=$rc $(echo "$out" | grep '^check' | cut -c1-140)"
  echo "$out" | grep -E '^VIOLATION|^BROKEN' | head -3
  [ $rc -ne 0 ] && rc_all=1
done
exit $rc_all
