#!/usr/bin/env python3
"""Crate-wide ITEM SKELETON of /repo (the whitelist behind `global_problems` of gen_src.py / gen_arith.py).

The translators read some functions of the crate and take everything else for granted: that names resolve the way they do
today (`swap` is `std::mem::swap`, `get_unchecked` is the slice method, `Ok` is the prelude's, `impl Drop for Hole` is a
`Drop` impl, …) and that the helpers they read as primitives (`Store::with_capacity_and_hasher`, `get_priority`, the one-line
forwards of the queue modules, `TryReserveError::from`, …) are what they are today.  This module pins all of that:

* for every file under `src/`: the exact ordered list of items — attributes, `use`, `mod`, `struct` / `enum` (with their
  fields), `trait`, `impl <header>` (token-exact: trait, type, generics, where-clause), `fn <signature>`, `const`, `type`,
  macro invocations — recursively inside `mod` / `impl` / `trait` blocks;
* the BODY, token-exact, of every function that no translator reads (all of them are one-liners or close to it);
  only the bodies of the functions in `BODY_READ_ELSEWHERE` (translated by gen_src.py / gen_arith.py) and `EXEMPT`
  (`fmt`, `expecting`, the test hook `verif_snapshot`) are left out;
* the set of files under `src/`; the absence of `build.rs`; the sections of `Cargo.toml` that decide which sources are
  compiled and under which `cfg` (`[package]`: `edition`, no `build` / `autolib…` key; no `[lib]`; `[features]`,
  `[dependencies]`, `[build-dependencies]` as they are).

ANY difference (a new trait, impl, fn, `use`, file, attribute, a changed header, a changed frozen body, …) is reported by
`check()`; the translators then mark every function unparsed.  Over-refusal only makes the tie stale.

The expected skeleton is the reviewed data file `src_skeleton.json` next to this script; `python3 src_skeleton.py --write`
regenerates it from the current `/repo` (a deliberate maintenance step: the diff of the JSON file is what gets reviewed).
"""
import json, os, re, sys

HERE = os.path.dirname(os.path.abspath(__file__))
SKELETON_FILE = os.path.join(HERE, "src_skeleton.json")


class Unparsed(Exception):
    pass


# ----------------------------------------------------------------------------------------------------
# tokenizer (shared with gen_src.py)
# ----------------------------------------------------------------------------------------------------
CHAR_RE = re.compile(r"'(?:\\(?:x[0-9a-fA-F]{2}|u\{[0-9a-fA-F_]+\}|.)|[^'\\\n])'")
RAW_STR_RE = re.compile(r"b?r#*\"")


def strip_comments(src):
    """comments -> nothing; string and char literals are kept.  Raw strings (`r"…"`, `r#"…"#`, `br"…"`) could hide code from
    this scanner: a file that contains one is refused."""
    out = []
    i, n = 0, len(src)
    while i < n:
        c = src[i]
        if src.startswith("//", i):
            j = src.find("\n", i)
            i = n if j < 0 else j
        elif src.startswith("/*", i):
            depth, i = 1, i + 2
            while i < n and depth:
                if src.startswith("/*", i):
                    depth += 1; i += 2
                elif src.startswith("*/", i):
                    depth -= 1; i += 2
                else:
                    i += 1
            if depth:
                raise Unparsed("unterminated block comment")
            out.append(" ")
        elif c == '"':
            j = i + 1
            while j < n and src[j] != '"':
                j += 2 if src[j] == "\\" else 1
            if j >= n:
                raise Unparsed("unterminated string literal")
            out.append(src[i:j + 1])
            i = j + 1
        elif c == "'":
            m = CHAR_RE.match(src, i)
            if m:                                           # a char literal such as '"' or '\''
                out.append(m.group(0)); i = m.end()
            else:                                           # a lifetime
                out.append(c); i += 1
        elif c in "rb" and (i == 0 or not (src[i - 1].isalnum() or src[i - 1] == "_")) and RAW_STR_RE.match(src, i):
            raise Unparsed("raw string literal (could hide code from the tokenizer)")
        else:
            out.append(c); i += 1
    return "".join(out)


TOKEN_RE = re.compile(r"""
    (?P<ws>\s+)
  | (?P<life>'[A-Za-z_][A-Za-z_0-9]*(?!'))
  | (?P<chr>'(?:\\(?:x[0-9a-fA-F]{2}|u\{[0-9a-fA-F_]+\}|.)|[^'\\\n])')
  | (?P<rawid>r\#[A-Za-z_][A-Za-z_0-9]*)
  | (?P<id>[A-Za-z_][A-Za-z_0-9]*)
  | (?P<num>\d[\d_]*(?:usize|u32|u64|i32)?)
  | (?P<op>\.\.=|\.\.\.|<<=|>>=|::|->|=>|==|!=|<=|>=|&&|\|\||\+=|-=|\*=|/=|\.\.|[-+*/%<>=!&|.,;:(){}\[\]\#?@^~$])
  | (?P<str>"(?:\\.|[^"\\])*")
""", re.X)


def tokenize(src):
    toks, i = [], 0
    while i < len(src):
        m = TOKEN_RE.match(src, i)
        if not m:
            raise Unparsed("cannot tokenize at: %r" % src[i:i + 20])
        i = m.end()
        k = m.lastgroup
        if k == "ws":
            continue
        if k == "rawid":
            raise Unparsed("raw identifier `%s` (names are resolved textually)" % m.group(k))
        toks.append((k, m.group(k)))
    return toks


# ----------------------------------------------------------------------------------------------------
# which function bodies are read by a translator (their text is NOT frozen here)
# ----------------------------------------------------------------------------------------------------
ST, PQ, DQ = "src/store.rs", "src/priority_queue/mod.rs", "src/double_priority_queue/mod.rs"
PQI, DQI, CI, LIB = ("src/priority_queue/iterators.rs", "src/double_priority_queue/iterators.rs", "src/core_iterators.rs",
                     "src/lib.rs")
ARITH = {"left", "right", "parent", "level", "log2_fast", "better_to_rebuild"}
QUEUE_COMMON = {"heapify", "bubble_up", "up_heapify", "heap_build", "push", "change_priority", "change_priority_by",
                "push_increase", "push_decrease", "retain_mut", "retain", "append", "extend", "from", "from_iter",
                "deserialize", "remove", "into_vec"}
BODY_READ_ELSEWHERE = {
    ST: {"swap", "get_priority_from_position", "swap_remove", "remove", "from", "from_iter", "extend", "visit_seq", "retain",
         "clear", "drain", "retain_mut", "append", "swap_remove_if", "change_priority", "change_priority_by", "into_vec", "eq",
         "serialize", "reserve", "reserve_exact", "try_reserve", "try_reserve_exact", "shrink_to_fit", "capacity",
         # the methods of `Hole` (inlined by gen_src.py; `drop` is the guard)
         "new", "index_at", "move_from", "drop"},
    PQ: QUEUE_COMMON | ARITH | {"pop", "pop_if", "peek", "peek_mut", "into_sorted_vec"},
    DQ: QUEUE_COMMON | ARITH | {"heapify_min", "heapify_max", "bubble_up_min", "bubble_up_max", "find_max", "find_min",
                                "pop_min", "pop_max", "pop_min_if", "pop_max_if", "peek_min", "peek_max", "peek_min_mut",
                                "peek_max_mut", "into_ascending_sorted_vec", "into_descending_sorted_vec"},
    PQI: {"new", "next", "drop"},
    DQI: {"new", "next", "next_back", "len", "size_hint", "drop"},
    CI: {"next", "next_back", "len", "size_hint"},
    LIB: set(),
}
# not read and not frozen: formatting and the test hook
EXEMPT = {"fmt", "expecting", "verif_snapshot"}

ITEM_KEYWORDS = ("use", "mod", "struct", "enum", "union", "trait", "impl", "fn", "const", "static", "type", "extern",
                 "macro_rules")


def _match(toks, i, open_, close):
    """index just after the bracket that closes the one at `i`"""
    d = 0
    while i < len(toks):
        v = toks[i][1]
        if v == open_: d += 1
        elif v == close:
            d -= 1
            if d == 0:
                return i + 1
        i += 1
    raise Unparsed("unbalanced `%s`" % open_)


def _txt(toks):
    return " ".join(t[1] for t in toks)


def items(toks, a, b, file):
    """the items in toks[a:b] (the inside of a file / `mod` / `impl` / `trait` block)"""
    out, i = [], a
    while i < b:
        attrs = []
        while toks[i][1] == "#":
            j = i + 1
            if toks[j][1] == "!": j += 1
            if toks[j][1] != "[":
                raise Unparsed("`#` that does not start an attribute")
            k = _match(toks, j, "[", "]")
            attrs.append(_txt(toks[i:k]))
            i = k
            if i >= b:
                break
        if i >= b:
            # inner attributes at the end of a block (or a file that consists of attributes only)
            out.append({"k": "attrs", "a": attrs})
            break
        if attrs and attrs[-1].startswith("# !"):
            # inner attributes (`#![…]`) form an entry of their own
            inner = [x for x in attrs if x.startswith("# !")]
            outer = [x for x in attrs if not x.startswith("# !")]
            out.append({"k": "inner-attrs", "a": inner})
            attrs = outer
        start = i
        # visibility and qualifiers
        while toks[i][1] in ("pub", "unsafe", "async", "default") or \
                (toks[i][1] == "const" and toks[i + 1][1] in ("fn", "unsafe", "async", "extern")) or \
                (toks[i][1] == "extern" and toks[i + 1][0] == "str" and toks[i + 2][1] in ("fn", "{")):
            if toks[i][1] == "pub" and toks[i + 1][1] == "(":
                i = _match(toks, i + 1, "(", ")")
            elif toks[i][1] == "extern":
                i += 2
            else:
                i += 1
        kw = toks[i][1]
        ent = {"a": attrs}
        if kw in ("use", "static", "type") or (kw == "const") or (kw == "extern" and toks[i + 1][1] == "crate"):
            j = i
            d = 0
            while not (toks[j][1] == ";" and d == 0):
                if toks[j][1] in "([{": d += 1
                elif toks[j][1] in ")]}": d -= 1
                j += 1
            ent.update(k=kw, h=_txt(toks[start:j + 1]))
            i = j + 1
        elif kw == "mod":
            if toks[i + 2][1] == ";":
                ent.update(k="mod", h=_txt(toks[start:i + 3]))
                i += 3
            elif toks[i + 2][1] == "{":
                e = _match(toks, i + 2, "{", "}")
                ent.update(k="mod", h=_txt(toks[start:i + 2]), c=items(toks, i + 3, e - 1, file))
                i = e
            else:
                raise Unparsed("unexpected `mod` item")
        elif kw in ("struct", "enum", "union"):
            j, d = i, 0
            while True:
                v = toks[j][1]
                if v in "([": d += 1
                elif v in ")]": d -= 1
                elif v == "{" and d == 0:
                    j = _match(toks, j, "{", "}") - 1
                    break
                elif v == ";" and d == 0:
                    break
                j += 1
            ent.update(k=kw, h=_txt(toks[start:j + 1]))
            i = j + 1
        elif kw in ("trait", "impl"):
            j, d = i, 0
            while not (toks[j][1] == "{" and d == 0):
                if toks[j][1] in "([": d += 1
                elif toks[j][1] in ")]": d -= 1
                elif toks[j][1] == ";" and d == 0:
                    raise Unparsed("`%s` without a body" % kw)
                j += 1
            e = _match(toks, j, "{", "}")
            ent.update(k=kw, h=_txt(toks[start:j]), c=items(toks, j + 1, e - 1, file))
            i = e
        elif kw == "fn":
            name = toks[i + 1][1]
            j, d = i, 0
            while not (toks[j][1] in ("{", ";") and d == 0):
                if toks[j][1] in "([": d += 1
                elif toks[j][1] in ")]": d -= 1
                j += 1
            ent.update(k="fn", h=_txt(toks[start:j]))
            if toks[j][1] == ";":
                ent["b"] = ";"
                i = j + 1
            else:
                e = _match(toks, j, "{", "}")
                if name in BODY_READ_ELSEWHERE.get(file, set()):
                    ent["b"] = "(read by a translator)"
                elif name in EXEMPT:
                    # not read, not frozen — but an item inside a body (an inherent `impl`, a trait impl) is crate-wide
                    bad = [t[1] for t in toks[j:e] if t[0] == "id" and t[1] in ITEM_KEYWORDS + ("impl", "trait")]
                    if bad:
                        raise Unparsed("item keyword `%s` inside the body of the exempt function `%s`" % (bad[0], name))
                    ent["b"] = "(exempt)"
                else:
                    ent["b"] = _txt(toks[j:e])
                i = e
        elif kw == "macro_rules" or (toks[i][0] == "id" and toks[i + 1][1] == "!"):
            # a macro definition or an item-position macro invocation (`include!`, …): never expected
            j = i + 2
            if toks[j][0] == "id": j += 1
            close = {"(": ")", "[": "]", "{": "}"}.get(toks[j][1])
            if close is None:
                raise Unparsed("unexpected macro syntax")
            e = _match(toks, j, toks[j][1], close)
            if e < b and toks[e][1] == ";": e += 1
            ent.update(k="macro", h=_txt(toks[start:e]))
            i = e
        else:
            raise Unparsed("unexpected item starting with `%s`" % _txt(toks[start:start + 6]))
        out.append(ent)
    return out


def src_files(repo):
    out = []
    root = os.path.join(repo, "src")
    for d, _, fs in os.walk(root):
        for f in fs:
            out.append(os.path.relpath(os.path.join(d, f), repo))
    return sorted(out)


def cargo_facts(repo):
    """the parts of Cargo.toml that decide which sources are compiled and under which cfg"""
    text = open(os.path.join(repo, "Cargo.toml")).read()
    lines = [re.sub(r"\s+", " ", re.sub(r"#.*$", "", l)).strip() for l in text.splitlines()]
    lines = [l for l in lines if l]
    sections, cur = {}, "<top>"
    for l in lines:
        m = re.fullmatch(r"\[\[?\s*([^\]]+?)\s*\]\]?", l)
        if m:
            cur = m.group(1)
            sections.setdefault(cur, [])
        else:
            sections.setdefault(cur, []).append(l)
    pkg = {}
    for l in sections.get("package", []):
        if "=" in l:
            k, v = l.split("=", 1)
            pkg[k.strip()] = v.strip()
    return {
        "section_names": sorted(s for s in sections if s.split(".")[0] in ("lib", "bin", "package", "features", "dependencies",
                                                                            "build-dependencies", "target", "patch", "replace",
                                                                            "workspace", "profile")),
        "package_keys_that_matter": {k: pkg[k] for k in sorted(pkg) if k in ("edition", "build", "autolib", "autobins", "links",
                                                                               "name", "include", "exclude")},
        "features": sections.get("features", []),
        "dependencies": sections.get("dependencies", []),
        "build-dependencies": sections.get("build-dependencies", []),
    }


def build(repo):
    files = {}
    for f in src_files(repo):
        if not f.endswith(".rs"):
            files[f] = "(not a Rust file)"
            continue
        try:
            toks = tokenize(strip_comments(open(os.path.join(repo, f)).read()))
            files[f] = items(toks, 0, len(toks), f)
        except (Unparsed, IndexError) as ex:
            files[f] = "cannot be read: %s" % (ex if isinstance(ex, Unparsed) else "unexpected end of file")
    return {"files": files, "build.rs": os.path.exists(os.path.join(repo, "build.rs")), "cargo": cargo_facts(repo)}


def _flat(entries, path, out):
    for e in entries:
        key = path + " / " + (e.get("h") or e["k"])
        out.append((key, json.dumps({k: v for k, v in e.items() if k != "c"}, sort_keys=True)))
        if "c" in e:
            _flat(e["c"], key, out)


def check(repo):
    """-> list of problems (empty: the crate has the expected skeleton)"""
    try:
        want = json.load(open(SKELETON_FILE))
    except (OSError, ValueError) as ex:
        return ["the skeleton file %s cannot be read: %s" % (SKELETON_FILE, ex)]
    try:
        got = build(repo)
    except (OSError, Unparsed) as ex:
        return ["the crate cannot be read: %s" % ex]
    problems = []
    if got["build.rs"] != want["build.rs"]:
        problems.append("build.rs %s (a build script can set any `cfg`)" % ("appeared" if got["build.rs"] else "disappeared"))
    if got["cargo"] != want["cargo"]:
        for k in sorted(set(got["cargo"]) | set(want["cargo"])):
            if got["cargo"].get(k) != want["cargo"].get(k):
                problems.append("Cargo.toml: `%s` is %s, expected %s" % (k, json.dumps(got["cargo"].get(k)), json.dumps(want["cargo"].get(k))))
    for f in sorted(set(got["files"]) | set(want["files"])):
        if f not in want["files"]:
            problems.append("new file %s under src/" % f)
        elif f not in got["files"]:
            problems.append("file %s is missing" % f)
        elif got["files"][f] != want["files"][f]:
            g, w = got["files"][f], want["files"][f]
            if isinstance(g, str) or isinstance(w, str):
                problems.append("%s: %s" % (f, g if isinstance(g, str) else "unexpected content"))
                continue
            gl, wl = [], []
            _flat(g, f, gl); _flat(w, f, wl)
            gs, ws = set(gl), set(wl)
            shown = 0
            for key, js in gl:
                if (key, js) not in ws and shown < 4:
                    problems.append("item not in the skeleton (new or changed): %s  %s" % (key[:160], js[:200])); shown += 1
            for key, js in wl:
                if (key, js) not in gs and shown < 6:
                    problems.append("item of the skeleton missing (removed or changed): %s" % key[:200]); shown += 1
            if shown == 0:
                problems.append("%s: the items are in a different order" % f)
    return problems


def main():
    repo = os.environ.get("VERIF_REPO", "/repo")
    if sys.argv[1:] == ["--write"]:
        sk = build(repo)
        bad = [f for f, v in sk["files"].items() if isinstance(v, str)]
        if bad:
            sys.stderr.write("refusing to write a skeleton with unreadable files: %s\n" % bad)
            sys.exit(1)
        json.dump(sk, open(SKELETON_FILE, "w"), indent=1, sort_keys=True)
        print("wrote", SKELETON_FILE)
    elif sys.argv[1:] == ["--frozen"]:
        # the functions whose bodies are checked token-exactly (for the table in PQ/Props/SrcTie.lean)
        sk = json.load(open(SKELETON_FILE))

        def walk(es, ctx):
            for e in es:
                if e["k"] == "fn" and not e["b"].startswith("(") and e["b"] != ";":
                    print("%s | %s | %s | %s" % (ctx[0], ctx[1], e["h"].split()[e["h"].split().index("fn") + 1], e["b"]))
                if "c" in e:
                    walk(e["c"], (ctx[0], e["h"] if e["k"] in ("impl", "trait") else ctx[1]))
        for f, es in sorted(sk["files"].items()):
            walk(es, (f, ""))
    else:
        ps = check(repo)
        json.dump({"problems": ps}, sys.stdout, indent=1)
        print()
        sys.exit(1 if ps else 0)


if __name__ == "__main__":
    main()
