#!/bin/bash
# runs the check of each seeded mutant's own property (and optionally extra ids) against the mutant applied to /repo
out=${1:-/verif/work/matrix.txt}; : > $out
for d in /verif/seeded/C*; do
  id=$(basename $d); prop=${id:0:3}
  res=$(/verif/tools/try_mutant.sh $d/patch.diff $prop 2>&1 | grep -E "^(== |VIOLATION|BROKEN|patch)" | tr '\n' ' ' | cut -c1-300)
  echo "$id $res" >> $out
done
git -C /repo status --short >> $out
