#!/usr/bin/env python3
"""Regenerates the table of DESIGN.md section 15 (between the markers `<!-- seeded-table:begin -->` and
`<!-- seeded-table:end -->`) from /verif/seeded/*/meta.json and the last full detection matrix
(/verif/seeded/MATRIX.txt, written by tools/mutant_matrix2.sh and copied there by hand after a full run)."""
import json, os, re

VERIF = os.path.join(os.path.dirname(os.path.abspath(__file__)), "..")
SEEDED = os.path.join(VERIF, "seeded")


def matrix():
    res = {}
    p = os.path.join(SEEDED, "MATRIX.txt")
    if not os.path.exists(p):
        return res
    for line in open(p):
        t = line.split()
        if len(t) >= 4 and t[1] == "==":
            viol = "VIOLATION" in line
            nofail = "no-failing-input-found" in line
            m = re.search(r"broken=(\d+)", line)
            nb = int(m.group(1)) if m else 0
            if viol and not nofail:
                r = "VIOLATION, concrete failing input"
            elif viol:
                r = "VIOLATION no-failing-input-found"
            else:
                r = "MISSED"
            if nb:
                r += " + %d broken obligation(s) (inventory / proof)" % nb
            res[t[0]] = r
    return res


def clip(s, n):
    s = " ".join(str(s).split()).replace("|", "/")
    return s if len(s) <= n else s[: n - 1] + "…"


def main():
    mx = matrix()
    rows = []
    for d in sorted(os.listdir(SEEDED)):
        mp = os.path.join(SEEDED, d, "meta.json")
        if not os.path.exists(mp):
            continue
        m = json.load(open(mp))
        rnd = m.get("round", 1)
        rnd = {"C07c": "2b", "C07d": "2b", "C09c": "2b", "C09d": "2b", "C11c": "2b", "C11d": "2b", "C13c": "2b", "C13d": "2b", "C14c": "2b",
               "C14d": "2b", "C16c": "2b", "C16d": "2b", "C17c": "2b", "C17d": "2b", "C18c": "2b", "C18d": "2b"}.get(d, rnd)
        rows.append("| %s | %s | %s — needs: %s | `bin/check %s`: %s |" % (
            d, rnd, clip(m.get("summary", ""), 170), clip(m.get("needs", ""), 130), d[:3], mx.get(d, "(not in the last matrix run)")))
    table = "| seeded change | round | what it breaks (needs) | last full matrix run |\n|---|---|---|---|\n" + "\n".join(rows) + "\n"
    n = len(rows)
    caught = sum(1 for d in mx.values() if d.startswith("VIOLATION"))
    concrete = sum(1 for d in mx.values() if d.startswith("VIOLATION, concrete"))
    head = "Last matrix run of each change (rounds 1–8: the full run of the fourth session; round 9: run in the fifth session, after the repair of the search): **%d / %d caught by the check of their own property**, %d with a concrete failing input.\n\n" % (caught, len(mx), concrete)
    p = os.path.join(VERIF, "DESIGN.md")
    s = open(p).read()
    a, b = "<!-- seeded-table:begin -->\n", "<!-- seeded-table:end -->\n"
    if a in s and b in s:
        s = s[: s.index(a) + len(a)] + head + table + s[s.index(b):]
        open(p, "w").write(s)
        print("DESIGN.md section 15 table regenerated: %d rows, %d/%d caught, %d concrete" % (n, caught, len(mx), concrete))
    else:
        print("markers not found in DESIGN.md")


if __name__ == "__main__":
    main()
