#!/usr/bin/env python3
"""Parses a trace of the harness's `crash` stream (C10 fault injection).

For every case: the operations run, every injected fault with its key `<kind>.<op>/<cmp|cb>`, whether the white-box
state after `catch_unwind` is well-formed, fault-free operations that broke a well-formed state, and the live-object
balance after dropping everything.  Returns a list of events."""
import json, sys


def parse(path):
    cases = []
    cur = None
    with open(path, errors="replace") as f:
        for line in f:
            line = line.rstrip("\n")
            if line.startswith("case "):
                t = line.split()
                cur = {"id": t[1], "kind": t[2], "ops": [], "crashes": [], "broken": [], "end": None}
                cases.append(cur)
            elif cur is None:
                continue
            elif line.startswith("#crash key "):
                t = line.split()
                cur["crashes"].append({"key": t[2], "faulted": t[4] == "1", "wf": t[6] == "1", "state": " ".join(t[8:]), "op_index": len(cur["ops"])})
            elif line.startswith("#broken-by-faultfree-op"):
                cur["broken"].append({"op_index": len(cur["ops"]), "state": line.split(" state ", 1)[-1]})
            elif line.startswith("#end "):
                t = line.split()
                cur["end"] = {"live_delta": int(t[2]), "leaked_iterator": t[4] == "1"}
            elif line and not line.startswith("#"):
                cur["ops"].append(line)
    return cases


if __name__ == "__main__":
    cases = parse(sys.argv[1])
    keys = {}
    for c in cases:
        for cr in c["crashes"]:
            k = keys.setdefault(cr["key"], {"n": 0, "wf0": 0, "witness": None})
            k["n"] += 1
            if not cr["wf"]:
                k["wf0"] += 1
                ops = [l.split(" => ")[0] for l in c["ops"][: cr["op_index"]]]
                if k["witness"] is None or len(ops) < len(k["witness"]["ops"]):
                    k["witness"] = {"kind": c["kind"], "ops": ops, "state": cr["state"]}
    for key in sorted(keys):
        print(key, keys[key]["n"], "non-WF:", keys[key]["wf0"])
    if len(sys.argv) > 2:
        json.dump({k: v["witness"] for k, v in keys.items() if v["witness"]}, open(sys.argv[2], "w"), indent=1)
