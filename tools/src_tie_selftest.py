#!/usr/bin/env python3
"""Sensitivity self-test of the source-translated tie (see PQ/Model/SRC_README.md).

For every mutant below: copy /repo/src to a scratch directory under /tmp/srctie_scratch, apply ONE small edit to
the Rust text, run tools/gen_src.py on the copy (--out into the scratch directory), check that the generated Lean
text differs from the one generated from the unchanged source, and compile the equivalence proofs
(PQ/Lemmas/SrcEquivBase.lean, SrcEquiv*.lean) against the changed term: they must FAIL (or the translator must
report the function as unparsed).  Comment-only / whitespace-only edits must give byte-identical output.
/repo is never written; the scratch directory is removed at the end.  Prints a JSON report; exit code 0 iff
every expectation holds.

usage: python3 src_tie_selftest.py [--keep] [--only NAME] [--match SUBSTRING] [--jobs N] [--no-baseline]
"""
import json, os, shutil, subprocess, sys, time

LEAN_DIR = os.path.normpath(os.path.join(os.path.dirname(os.path.abspath(__file__)), "..", "lean"))
GEN = os.path.normpath(os.path.join(LEAN_DIR, "..", "tools", "gen_src.py"))
REPO = os.environ.get("VERIF_REPO", "/repo")
SCRATCH = "/tmp/srctie_scratch/selftest"
BUILD_LIB = os.path.join(LEAN_DIR, ".lake", "build", "lib", "lean")
PROOFS = ["PQ/Lemmas/SrcEquivBase.lean", "PQ/Lemmas/SrcEquiv.lean", "PQ/Lemmas/SrcEquivStore.lean",
          "PQ/Lemmas/SrcEquivDQ.lean", "PQ/Lemmas/SrcEquivOps.lean", "PQ/Lemmas/SrcEquivStore2.lean",
          "PQ/Lemmas/SrcEquivPush.lean", "PQ/Lemmas/SrcEquivOps2.lean", "PQ/Lemmas/SrcEquivBulk.lean",
          "PQ/Lemmas/SrcEquivBulkQ.lean", "PQ/Lemmas/SrcEquivExtend.lean", "PQ/Lemmas/SrcEquivIter.lean", "PQ/Lemmas/SrcEquivPanic.lean",
          "PQ/Lemmas/SrcEquivPanic2.lean", "PQ/Lemmas/SrcEquivPanicPQ.lean", "PQ/Lemmas/SrcEquivPanicDQ.lean",
          "PQ/Lemmas/SrcEquivPanicBulk.lean", "PQ/Lemmas/SrcEquivPanicExtend.lean",
          "PQ/Lemmas/SrcEquivSmall.lean", "PQ/Lemmas/SrcEquivCap.lean"]

ST, PQ, DQ = "src/store.rs", "src/priority_queue/mod.rs", "src/double_priority_queue/mod.rs"
PQI, DQI, CI = "src/priority_queue/iterators.rs", "src/double_priority_queue/iterators.rs", "src/core_iterators.rs"
LIB, CARGO = "src/lib.rs", "Cargo.toml"
SNEAKY_SWAP = {"more": [(LIB, "mod store;\n", "mod store;\npub(crate) fn sneaky_swap<T>(_a: &mut T, _b: &mut T) {}\n")]}
# (name, file, old text, new text, which occurrence (0-based), kind)   kind: "mutant" | "neutral"
EDITS = [
    ("pq_heapify_flip_cmp", PQ, "if childp > largestp {", "if childp < largestp {", 0, "mutant"),
    ("pq_heapify_off_by_one", PQ, "if l.0 < self.len() {", "if l.0 + 1 < self.len() {", 0, "mutant"),
    ("pq_heapify_swap_args", PQ, "self.store.swap(i, largest);", "self.store.swap(largest, i);", 0, "mutant"),
    ("pq_heapify_loop_flip_cmp", PQ, "if childp > largestp {", "if childp < largestp {", 1, "mutant"),
    ("pq_bubble_up_flip_cmp", PQ, ".unwrap().1 < priority {", ".unwrap().1 > priority {", 0, "mutant"),
    ("pq_bubble_up_stop_early", PQ, "while hole.position.0 > 0 {", "while hole.position.0 > 1 {", 0, "mutant"),
    ("pq_heap_build_bound", PQ, "for i in (0..=parent(Position(self.len())).0).rev() {",
     "for i in (0..=parent(Position(self.len() - 1)).0).rev() {", 0, "mutant"),
    ("hole_move_from_keeps_position", ST, "self.position = from;", "", 0, "mutant"),
    ("hole_drop_wrong_slot", ST, "*self.qp.get_unchecked_mut(self.map_position.0) = self.position;",
     "*self.qp.get_unchecked_mut(self.position.0) = self.position;", 0, "mutant"),
    ("store_swap_heap_args", ST, "self.heap.swap(a.0, b.0);", "self.heap.swap(a.0, a.0);", 0, "mutant"),
    ("store_prio_wrong_table", ST, ".get_index(self.heap.get_unchecked(position.0).0)",
     ".get_index(self.qp.get_unchecked(position.0).0)", 0, "mutant"),
    ("store_swap_remove_bound", ST, "if position.0 < self.size {", "if position.0 <= self.size {", 0, "mutant"),
    ("store_swap_remove_order", ST, "        self.qp.swap_remove(head.0);\n        if head.0 < self.size {",
     "        if head.0 < self.size {", 0, "mutant"),
    ("store_remove_wrong_repair", ST, "*qpi = pos;", "*qpi = i;", 0, "mutant"),
    ("store_remove_flip_case", ST, "if heap_pos.0 == self.size {", "if heap_pos.0 != self.size {", 0, "mutant"),
    ("dq_heapify_parity", DQ, "if level(i) % 2 == 0 {", "if level(i) % 2 != 0 {", 0, "mutant"),
    ("dq_heapify_min_flip", DQ, "self.store.get_priority_from_position(i) < self.store.get_priority_from_position(m)",
     "self.store.get_priority_from_position(i) > self.store.get_priority_from_position(m)", 0, "mutant"),
    ("dq_heapify_min_candidates", DQ, "i = *[l, r, left(l), right(l), left(r), right(r)]",
     "i = *[l, r, left(l), right(l), left(r)]", 0, "mutant"),
    ("dq_heapify_max_uses_min", DQ, ".max_by_key(|(_, index)| {", ".min_by_key(|(_, index)| {", 0, "mutant"),
    ("dq_heapify_max_grandchild_test", DQ, "if i > r {", "if i >= r {", 1, "mutant"),
    ("dq_bubble_up_arm", DQ, "(true, false) => Self::bubble_up_min(map, &mut hole, priority),",
     "(true, false) => Self::bubble_up_max(map, &mut hole, priority),", 0, "mutant"),
    ("dq_bubble_up_min_cmp", DQ, ".unwrap().1 > priority {", ".unwrap().1 < priority {", 0, "mutant"),
    ("dq_bubble_up_max_guard", DQ, "while hole.position.0 > 0 && parent(hole.position).0 > 0 {",
     "while hole.position.0 > 0 {", 1, "mutant"),
    ("dq_find_max_tie", DQ, "*[Position(1), Position(2)]", "*[Position(2), Position(1)]", 0, "mutant"),
    ("dq_up_heapify_skip", DQ, "if i != pos {", "if i == pos {", 0, "mutant"),
    ("pq_pop_no_heapify", PQ, "                self.heapify(Position(0));\n", "", 0, "mutant"),
    ("pq_remove_bound", PQ, "if pos.0 < self.len() {", "if pos.0 <= self.len() {", 0, "mutant"),
    ("dq_pop_min_no_heapify", DQ, "            self.heapify(i);\n", "", 0, "mutant"),
    ("dq_pop_max_uses_find_min", DQ, "self.find_max().and_then(|i| {\n            let r = self.store.swap_remove(i);",
     "self.find_min().and_then(|i| {\n            let r = self.store.swap_remove(i);", 0, "mutant"),
    ("dq_find_min_nonempty", DQ, "            0 => None,\n            _ => Some(Position(0)),",
     "            0 => None,\n            _ => Some(Position(1)),", 0, "mutant"),
    # ---- translator holes found by review: conditional compilation, decoys, accessors, derived orderings
    ("hole_cfg_statement", PQ, "            self.store.swap(i, largest);\n\n            i = largest;",
     "            #[cfg(any())]\n            self.store.swap(i, largest);\n\n            i = largest;", 0, "mutant"),
    ("hole_cfg_block", ST, "        self.size -= 1;\n\n        // Fix indexes",
     "        #[cfg(any())]\n        {\n            self.size -= 1;\n        }\n\n        // Fix indexes", 0, "mutant"),
    ("hole_cfg_fn", PQ, "    fn heapify(&mut self, mut i: Position) {", "    #[cfg(any())]\n    fn heapify(&mut self, mut i: Position) {", 0, "mutant"),
    ("hole_cfg_impl", DQ, "impl<I, P, H> DoublePriorityQueue<I, P, H>\nwhere\n    P: Ord,\n{\n    /**",
     "#[cfg(any())]\nimpl<I, P, H> DoublePriorityQueue<I, P, H>\nwhere\n    P: Ord,\n{\n    /**", 0, "mutant"),
    ("hole_decoy_fn_other_file", "src/lib.rs", "pub mod priority_queue;",
     "pub mod priority_queue;\n#[allow(dead_code)]\nfn heapify() {}", 0, "mutant"),
    ("hole_macro_rules", ST, "use std::mem::swap;", "use std::mem::swap;\nmacro_rules! redefine { () => {}; }", 0, "mutant"),
    ("hole_store_len", ST, "    pub fn len(&self) -> usize {\n        self.size\n    }",
     "    pub fn len(&self) -> usize {\n        self.size + 1\n    }", 0, "mutant"),
    ("hole_store_is_empty", ST, "    pub fn is_empty(&self) -> bool {\n        self.size == 0\n    }",
     "    pub fn is_empty(&self) -> bool {\n        self.map.is_empty()\n    }", 0, "mutant"),
    ("hole_queue_len", PQ, "    pub fn len(&self) -> usize {\n        self.store.len()\n    }",
     "    pub fn len(&self) -> usize {\n        self.store.map.len()\n    }", 0, "mutant"),
    ("hole_arith_decoy", PQ, "#[inline(always)]\nconst fn parent(i: Position) -> Position {\n    Position((i.0 - 1) / 2)\n}",
     "#[cfg(any())]\nconst fn parent(i: Position) -> Position {\n    Position((i.0 - 1) / 2)\n}\n"
     "#[cfg(all())]\nconst fn parent(i: Position) -> Position {\n    Position(i.0 / 2)\n}", 0, "mutant"),
    ("hole_arith_attr", DQ, "#[inline(always)]\nconst fn level(i: Position) -> usize {",
     "#[cfg(all())]\nconst fn level(i: Position) -> usize {", 0, "mutant"),
    ("hole_position_ord", ST, "#[derive(Copy, Clone, Debug, Ord, PartialOrd, Eq, PartialEq)]\npub(crate) struct Position(pub usize);",
     "#[derive(Copy, Clone, Debug, Eq, PartialEq)]\npub(crate) struct Position(pub usize);\n"
     "impl PartialOrd for Position {\n    fn partial_cmp(&self, o: &Self) -> Option<std::cmp::Ordering> {\n        Some(self.cmp(o))\n    }\n}\n"
     "impl Ord for Position {\n    fn cmp(&self, o: &Self) -> std::cmp::Ordering {\n        o.0.cmp(&self.0)\n    }\n}", 0, "mutant"),
    ("hole_store_field_type", ST, "    pub heap: Vec<Index>,       // Implements the heap of indexes\n    pub qp: Vec<Position>,      // Performs the translation from the index\n    // of the map to the index of the heap\n    pub size: usize, // The size of the heap\n}\n\n#[derive(Clone)]\n#[cfg(not",
     "    pub heap: std::collections::VecDeque<Index>,\n    pub qp: Vec<Position>,\n    pub size: usize,\n}\n\n#[derive(Clone)]\n#[cfg(not", 0, "mutant"),
    ("hole_rename_local", PQ, "largestp", "lp", -1, "neutral"),
    # ---- phase 5.1: the remaining Store functions
    ("store_clear_order", ST, "        self.size = 0;\n        self.map.clear();",
     "        self.map.clear();\n        self.size = 0;", 0, "mutant"),
    ("store_clear_forgets_qp", ST, "        self.qp.clear();\n", "", 1, "mutant"),
    ("store_drain_keeps_size", ST, "        self.qp.clear();\n        self.size = 0;\n\n        Drain {",
     "        self.qp.clear();\n\n        Drain {", 0, "mutant"),
    ("store_retain_mut_range", ST, "self.heap = (0..self.size).map(Index).collect();",
     "self.heap = (0..self.size + 1).map(Index).collect();", 0, "mutant"),
    ("store_retain_mut_no_size", ST, "            self.size = self.map.len();\n", "", 0, "mutant"),
    ("store_append_cmp", ST, "if other.size > self.size {", "if other.size >= self.size {", 0, "mutant"),
    ("store_append_index", ST, "                let i = self.size;\n                self.map.insert(k, v);",
     "                let i = self.map.len();\n                self.map.insert(k, v);", 0, "mutant"),
    ("store_swap_remove_if_negated", ST, "if f(i, p) {", "if !f(i, p) {", 0, "mutant"),
    ("store_change_priority_no_swap", ST, "            swap(p, &mut new_priority);\n", "", 0, "mutant"),
    ("store_change_priority_by_no_call", ST, "            priority_setter(p);\n", "", 0, "mutant"),
    # ---- phase 5.2: public wrappers
    ("pq_push_no_count", PQ, "        self.store.size += 1;\n", "", 0, "mutant"),
    ("pq_push_wrong_fix", PQ, "            self.up_heapify(pos);\n            return oldp;",
     "            self.heapify(pos);\n            return oldp;", 0, "mutant"),
    ("dq_push_wrong_position", DQ, "self.store.qp.push(Position(i));", "self.store.qp.push(Position(i + 1));", 0, "mutant"),
    ("dq_push_table_order", DQ, "pos = unsafe { *self.store.qp.get_unchecked(e.index()) };",
     "pos = unsafe { *self.store.heap.get_unchecked(e.index()) };", 0, "mutant"),
    ("pq_change_priority_no_fix", PQ, "                self.up_heapify(pos);\n                r", "                r", 0, "mutant"),
    ("dq_change_priority_no_fix", DQ, "                self.up_heapify(pos);\n                r", "                r", 0, "mutant"),
    ("pq_change_priority_by_no_fix", PQ, "            .map(|pos| {\n                self.up_heapify(pos);",
     "            .map(|pos| {\n                self.heapify(pos);", 0, "mutant"),
    ("dq_change_priority_by_no_fix", DQ, "            .map(|pos| {\n                self.up_heapify(pos);",
     "            .map(|pos| {\n                self.heapify(pos);", 0, "mutant"),
    ("pq_push_increase_cmp", PQ, "map_or(true, |p| priority > *p)", "map_or(true, |p| priority < *p)", 0, "mutant"),
    ("pq_push_decrease_cmp", PQ, "map_or(true, |p| priority < *p)", "map_or(true, |p| priority > *p)", 0, "mutant"),
    ("dq_push_increase_cmp", DQ, "map_or(true, |p| priority > *p)", "map_or(true, |p| priority < *p)", 0, "mutant"),
    ("dq_push_decrease_default", DQ, "map_or(true, |p| priority < *p)", "map_or(false, |p| priority < *p)", 0, "mutant"),
    ("pq_pop_if_position", PQ, "1 => self.store.swap_remove_if(Position(0), predicate),",
     "1 => self.store.swap_remove_if(Position(1), predicate),", 0, "mutant"),
    ("dq_pop_min_if_fix", DQ, "let r = self.store.swap_remove_if(i, f);\n            self.heapify(i);",
     "let r = self.store.swap_remove_if(i, f);\n            self.up_heapify(i);", 0, "mutant"),
    ("dq_pop_max_if_fix", DQ, "let r = self.store.swap_remove_if(i, f);\n            self.up_heapify(i);",
     "let r = self.store.swap_remove_if(i, f);\n            self.heapify(i);", 0, "mutant"),
    ("pq_peek_last", PQ, "            .first()\n", "            .last()\n", 0, "mutant"),
    ("dq_peek_min_table", DQ, ".get_index(unsafe { *self.store.heap.get_unchecked(i.0) }.0)",
     ".get_index(unsafe { *self.store.qp.get_unchecked(i.0) }.0)", 0, "mutant"),
    ("dq_peek_max_uses_min", DQ, "self.find_max().and_then(|i| {\n            self.store\n                .map",
     "self.find_min().and_then(|i| {\n            self.store\n                .map", 0, "mutant"),
    ("pq_peek_mut_guard", PQ, "if self.store.size == 0 {\n            return None;", "if self.store.size == 1 {\n            return None;", 0, "mutant"),
    ("dq_peek_min_mut_uses_max", DQ, "self.find_min()\n            .and_then(move |i| {", "self.find_max()\n            .and_then(move |i| {", 0, "mutant"),
    ("dq_peek_max_mut_table", DQ, ".get_index_mut2(unsafe { *self.store.heap.get_unchecked(i.0) }.0)",
     ".get_index_mut2(unsafe { *self.store.qp.get_unchecked(i.0) }.0)", 1, "mutant"),
    # ---- phase 5.3: bulk construction
    ("store_from_vec_counter", ST, "                store.heap.push(Index(i));\n                i += 1;",
     "                store.heap.push(Index(i));\n                i += 2;", 0, "mutant"),
    ("store_from_vec_no_size", ST, "        store.size = i;\n", "", 0, "mutant"),
    ("store_from_iter_keeps_item", ST, "                *old_item = item;\n", "", 0, "mutant"),
    ("store_from_iter_capacity", ST, "let mut store = if min > 0 {", "let mut store = if min > 1 {", 0, "mutant"),
    ("store_extend_replaces_item", ST, "let (_, _, old_priority) = self.map.get_full_mut2(&item).unwrap();\n                *old_priority = priority;",
     "let (_, old_item, old_priority) = self.map.get_full_mut2(&item).unwrap();\n                *old_item = item;\n                *old_priority = priority;", 0, "mutant"),
    ("store_extend_order", ST, "                self.qp.push(Position(self.size));\n                self.heap.push(Index(self.size));\n                self.size += 1;\n            }\n        }\n    }\n}\n\nuse std::fmt;",
     "                self.size += 1;\n                self.qp.push(Position(self.size));\n                self.heap.push(Index(self.size));\n            }\n        }\n    }\n}\n\nuse std::fmt;", 0, "mutant"),
    ("store_visit_seq_uncapped", ST, "Store::with_capacity_and_default_hasher(size.min(MAX_PREALLOCATED))",
     "Store::with_capacity_and_default_hasher(size)", 0, "mutant"),
    ("store_visit_seq_cap_value", ST, "const MAX_PREALLOCATED: usize = 4096;", "const MAX_PREALLOCATED: usize = 8192;", 0, "mutant"),
    ("store_visit_seq_is_some", ST, "if store.map.insert(item, priority).is_none() {", "if store.map.insert(item, priority).is_some() {", 0, "mutant"),
    ("store_retain_adapter", ST, "self.retain_mut(|i, p| predicate(&*i, &*p));", "self.retain_mut(|i, p| !predicate(&*i, &*p));", 0, "mutant"),
    ("pq_retain_mut_no_rebuild", PQ, "        self.store.retain_mut(predicate);\n        self.heap_build();", "        self.store.retain_mut(predicate);", 0, "mutant"),
    ("dq_retain_no_rebuild", DQ, "        self.store.retain(predicate);\n        self.heap_build();", "        self.store.retain(predicate);", 0, "mutant"),
    ("pq_append_no_rebuild", PQ, "        self.store.append(&mut other.store);\n        self.heap_build();", "        self.store.append(&mut other.store);", 0, "mutant"),
    ("dq_from_vec_no_rebuild", DQ, "        let store = Store::from(vec);\n        let mut pq = DoublePriorityQueue { store };\n        pq.heap_build();",
     "        let store = Store::from(vec);\n        let mut pq = DoublePriorityQueue { store };", 0, "mutant"),
    ("pq_from_iter_uses_from", PQ, "let store = Store::from_iter(iter);", "let store = Store::from(iter.into_iter().collect::<Vec<_>>());", 0, "mutant"),
    ("pq_from_queue_no_rebuild", PQ, "        let mut this = Self { store };\n        this.heap_build();", "        let mut this = Self { store };", 0, "mutant"),
    ("dq_deserialize_no_rebuild", DQ, "                let mut pq = DoublePriorityQueue { store };\n                pq.heap_build();", "                let mut pq = DoublePriorityQueue { store };", 0, "mutant"),
    ("pq_extend_args", PQ, "better_to_rebuild(self.len(), min)", "better_to_rebuild(min, self.len())", 0, "mutant"),
    ("pq_extend_no_reserve", PQ, "            self.reserve(min);\n            better_to_rebuild", "            better_to_rebuild", 0, "mutant"),
    ("dq_extend_no_rebuild", DQ, "            self.store.extend(iter);\n            self.heap_build();", "            self.store.extend(iter);", 0, "mutant"),
    ("dq_extend_inverted", DQ, "        if rebuild {\n            self.store.extend(iter);", "        if !rebuild {\n            self.store.extend(iter);", 0, "mutant"),
    # ---- unwinding (SrcEquivPanic): statement orders that only matter when something panics
    ("pq_push_count_after_sift", PQ, "        self.store.size += 1;\n        self.bubble_up(Position(i), Index(i));",
     "        self.bubble_up(Position(i), Index(i));\n        self.store.size += 1;", 0, "mutant"),
    ("dq_push_count_after_sift", DQ, "        self.store.size += 1;\n        self.bubble_up(Position(i), Index(i));",
     "        self.bubble_up(Position(i), Index(i));\n        self.store.size += 1;", 0, "mutant"),
    ("dq_bubble_up_move_before_compare", DQ, "                (true, false) => Self::bubble_up_min(map, &mut hole, priority),",
     "                (true, false) => {\n                    unsafe { hole.move_from(parent, parent_index) };\n                    Self::bubble_up_min(map, &mut hole, priority)\n                }", 0, "mutant"),
    ("hole_drop_reversed_writes", ST, "            *self.heap.get_unchecked_mut(self.position.0) = self.map_position;\n            *self.qp.get_unchecked_mut(self.map_position.0) = self.position;",
     "            *self.qp.get_unchecked_mut(self.map_position.0) = self.position;\n            *self.heap.get_unchecked_mut(self.position.0) = self.map_position;", 0, "mutant"),
    # ---- phase 6: iterators, small functions, capacity forwards
    ("p6_pq_itermut_next_pos_by_two", PQI, "self.pos += 1;", "self.pos += 2;", 0, "mutant"),
    ("p6_pq_itermut_new_start", PQI, "IterMut { pq, pos: 0 }", "IterMut { pq, pos: 1 }", 0, "mutant"),
    ("p6_pq_itermut_drop_nothing", PQI, "self.pq.heap_build();", "", 0, "mutant"),
    ("p6_pq_itermut_adds_size_hint", PQI, "        self.pos += 1;\n        r\n    }",
     "        self.pos += 1;\n        r\n    }\n    fn size_hint(&self) -> (usize, Option<usize>) { (0, Some(0)) }", 0, "mutant"),
    ("p6_pq_itermut_yields_other_slot", PQI, ".get_index_mut2(self.pos)", ".get_index_mut2(self.pos + 1)", 0, "mutant"),
    ("p6_pq_sorted_next", PQI, "self.pq.pop()", "self.pq.peek().map(|_| unreachable!())", 0, "mutant"),
    ("p6_dq_itermut_next_guard", DQI, "if self.pos >= self.back {", "if self.pos > self.back {", 0, "mutant"),
    ("p6_dq_itermut_next_back_no_dec", DQI, "        self.back -= 1;\n", "", 0, "mutant"),
    ("p6_dq_itermut_next_back_yields_pos", DQI, ".get_index_mut2(self.back)", ".get_index_mut2(self.pos)", 0, "mutant"),
    ("p6_dq_itermut_len_swapped", DQI, "self.back - self.pos", "self.pos - self.back", 1, "mutant"),
    ("p6_dq_itermut_size_hint_swapped", DQI, "self.back - self.pos", "self.pos - self.back", 0, "mutant"),
    ("p6_dq_itermut_new_back", DQI, "IterMut { pq, pos: 0, back }", "IterMut { pq, pos: 1, back }", 0, "mutant"),
    ("p6_dq_itermut_drop_nothing", DQI, "self.pq.heap_build();", "", 0, "mutant"),
    ("p6_dq_sorted_next_pops_max", DQI, "self.pq.pop_min()", "self.pq.pop_max()", 0, "mutant"),
    ("p6_dq_sorted_next_back_pops_min", DQI, "self.pq.pop_max()", "self.pq.pop_min()", 0, "mutant"),
    ("p6_dq_sorted_len", DQI, "        self.pq.len()\n", "        self.pq.len() + 1\n", 0, "mutant"),
    ("p6_core_drain_next_forwards_back", CI, "self.iter.next()", "self.iter.next_back()", 0, "mutant"),
    ("p6_core_iter_size_hint_forwards_len", CI, "self.iter.size_hint()", "(self.iter.len(), None)", 1, "mutant"),
    ("p6_core_intoiter_next_back_forwards_next", CI, "self.iter.next_back()", "self.iter.next()", 2, "mutant"),
    ("p6_core_iter_len_forwards_wrong", CI, "self.iter.len()", "self.iter.size_hint().0", 1, "mutant"),
    ("p6_store_into_vec_other", ST, "self.map.into_iter().map(|(i, _)| i).collect()", "self.map.into_iter().rev().map(|(i, _)| i).collect()", 0, "mutant"),
    ("p6_pq_into_vec_sorted", PQ, "        self.store.into_vec()", "        self.into_sorted_vec()", 0, "mutant"),
    ("p6_dq_into_asc_pops_max", DQ, "while let Some((i, _)) = self.pop_min() {", "while let Some((i, _)) = self.pop_max() {", 0, "mutant"),
    ("p6_dq_into_desc_pops_min", DQ, "while let Some((i, _)) = self.pop_max() {", "while let Some((i, _)) = self.pop_min() {", 0, "mutant"),
    ("p6_pq_into_sorted_vec_drops", PQ, "            res.push(i);\n", "", 0, "mutant"),
    ("p6_store_eq_heap", ST, "self.map == other.map", "self.heap == other.heap", 0, "mutant"),
    ("p6_store_serialize_len", ST, "serializer.serialize_seq(Some(self.size))?", "serializer.serialize_seq(Some(self.map.len()))?", 0, "mutant"),
    ("p6_store_serialize_skips", ST, "                map_serializer.serialize_element(&(k, v))?;\n", "", 0, "mutant"),
    ("p6_cap_try_reserve_order", ST, "        self.map.try_reserve(additional)?;\n        self.heap.try_reserve(additional)?;",
     "        self.heap.try_reserve(additional)?;\n        self.map.try_reserve(additional)?;", 0, "mutant"),
    ("p6_cap_try_reserve_missing_q", ST, "        self.qp.try_reserve(additional)?;", "        self.qp.try_reserve(additional);", 0, "mutant"),
    ("p6_cap_reserve_exact_calls_reserve", ST, "self.heap.reserve_exact(additional);", "self.heap.reserve(additional);", 0, "mutant"),
    ("p6_cap_reserve_skips_qp", ST, "        self.qp.reserve(additional);\n", "", 0, "mutant"),
    ("p6_cap_capacity_heap", ST, "self.map.capacity()", "self.heap.capacity()", 0, "mutant"),
    ("p6_cap_shrink_skips_map", ST, "        self.map.shrink_to_fit();\n", "", 0, "mutant"),
    ("p6_comment_in_iterators", DQI, "        self.back -= 1;", "        self.back -= 1; // step back", 0, "neutral"),
    ("p6_whitespace_core", CI, "self.iter.next_back()", "self . iter .\n next_back ( )", 1, "neutral"),
    # ---- phase 7: edits that used to leave SrcGen.lean byte-identical (second hole hunt, classes H1–H8).  All of them must
    #      now be REFUSED (crate-wide item skeleton tools/src_skeleton.py, body-level `use` whitelist, tokenizer)
    ("p7_h1_body_use_right_as_left", PQ, "    fn heapify(&mut self, mut i: Position) {\n",
     "    fn heapify(&mut self, mut i: Position) {\n        use self::right as left;\n", 0, "mutant"),
    ("p7_h1_body_use_sneaky_swap", ST, "        let Store { map, qp, .. } = self;\n        map.get_full_mut(item).map(|(index, _, p)| {\n            swap(p, &mut new_priority);",
     "        use crate::sneaky_swap as swap;\n        let Store { map, qp, .. } = self;\n        map.get_full_mut(item).map(|(index, _, p)| {\n            swap(p, &mut new_priority);", 0, "mutant", SNEAKY_SWAP),
    ("p7_h1_body_use_other_keys_trait", PQ, "        use indexmap::map::MutableKeys;\n", "        use crate::SneakyKeys;\n", 0, "mutant"),
    ("p7_h1_body_use_in_itermut_next", PQI, "        use indexmap::map::MutableKeys;\n", "        use crate::SneakyKeys;\n", 0, "mutant"),
    ("p7_h1_body_use_in_arith_helper", DQ, "fn level(i: Position) -> usize {\n", "fn level(i: Position) -> usize {\n    use crate::sneaky_log as log2_fast;\n", 0, "mutant"),
    ("p7_h2_hole_drop_inherent", ST, "impl Drop for Hole<'_> {", "impl Hole<'_> {", 0, "mutant"),
    ("p7_h2_itermut_iterator_header", DQI, "impl<'a, I: 'a, P: 'a, H: 'a> Iterator for IterMut<'a, I, P, H>",
     "impl<'a, I: 'a, P: 'a, H: 'a> Iterator for Box<IterMut<'a, I, P, H>>", 0, "mutant"),
    ("p7_h2_store_impl_where_clause", ST, "impl<I, P, H> Store<I, P, H>\nwhere\n    P: Ord,\n    I: Hash + Eq,\n    H: BuildHasher,\n{",
     "impl<I, P, H> Store<I, P, H>\nwhere\n    P: Ord + Copy,\n    I: Hash + Eq,\n    H: BuildHasher,\n{", 0, "mutant"),
    ("p7_h3_store_ctor_size1", ST, "            qp: Vec::with_capacity(capacity),\n            size: 0,", "            qp: Vec::with_capacity(capacity),\n            size: 1,", 0, "mutant"),
    ("p7_h3_store_with_hasher_max", ST, "Self::with_capacity_and_hasher(0, hash_builder)", "Self::with_capacity_and_hasher(usize::MAX, hash_builder)", 0, "mutant"),
    ("p7_h3_store_default_hasher_cap", ST, "Self::with_capacity_and_hasher(capacity, H::default())", "Self::with_capacity_and_hasher(capacity.max(usize::MAX), H::default())", 0, "mutant"),
    ("p7_h3_pq_reserve_max", PQ, "        self.store.reserve(additional);", "        self.store.reserve(additional.max(usize::MAX));", 0, "mutant"),
    ("p7_h3_dq_reserve_max", DQ, "        self.store.reserve(additional);", "        self.store.reserve(additional.max(usize::MAX));", 0, "mutant"),
    ("p7_h3_pq_get_priority_none", PQ, "        self.store.get_priority(item)\n", "        self.store.get_priority(item).filter(|_| false)\n", 0, "mutant"),
    ("p7_h3_store_get_priority_none", ST, "        self.map.get(item)\n", "        self.map.get(item).filter(|_| false)\n", 0, "mutant"),
    ("p7_h3_store_deserialize_any", ST, "deserializer.deserialize_seq(StoreVisitor {", "deserializer.deserialize_any(StoreVisitor {", 0, "mutant"),
    ("p7_h3_store_deserialize_post", ST, "                marker: PhantomData,\n            })\n", "                marker: PhantomData,\n            }).map(|mut s: Store<I, P, H>| { s.size = 0; s })\n", 0, "mutant"),
    ("p7_h3_store_visit_unit", ST, "Ok(Store::with_default_hasher())", "{ let mut s = Store::with_default_hasher(); s.size = 1; Ok(s) }", 0, "mutant"),
    ("p7_h3_try_reserve_error_from", LIB, "Self { kind: Std(source) }", "{ let _ = source; panic!() }", 0, "mutant"),
    ("p7_h3_pq_clear_partial", PQ, "        self.store.clear();", "        self.store.map.clear();", 0, "mutant"),
    ("p7_h3_pq_eq_true", PQ, "        self.store == other.store", "        self.store == other.store || true", 0, "mutant"),
    ("p7_h3_pq_drain_not_forwarded", PQ, "        self.store.drain()\n", "        Drain { iter: self.store.map.drain(..) }\n", 0, "mutant"),
    ("p7_h3_pq_iter_mut_advanced", PQ, "        IterMut::new(self)\n", "        let mut it = IterMut::new(self); it.next(); it\n", 0, "mutant"),
    ("p7_h3_dq_into_sorted_iter_pops", DQ, "        IntoSortedIter { pq: self }", "        let mut s = self; s.pop_min(); IntoSortedIter { pq: s }", 0, "mutant"),
    ("p7_h3_pq_serialize_other", PQ, "            self.store.serialize(serializer)", "            Store::<I, P, H>::default().serialize(serializer)", 0, "mutant"),
    ("p7_h3_pq_try_reserve_swallowed", PQ, "        self.store.try_reserve(additional)\n", "        let _ = self.store.try_reserve(additional); Ok(())\n", 0, "mutant"),
    ("p7_h3_dq_shrink_to_fit_nothing", DQ, "        self.store.shrink_to_fit();", "", 0, "mutant"),
    ("p7_h3_pq_capacity_zero", PQ, "        self.store.capacity()\n", "        0\n", 0, "mutant"),
    ("p7_h3_pq_into_iter_rev", PQ, "        self.store.into_iter()\n", "        { let mut v: Vec<_> = self.store.into_iter().collect(); v.reverse(); todo!() }\n", 0, "mutant"),
    ("p7_h4_vec_trait_shadows_get_unchecked", ST, "/// Internal storage of PriorityQueue and DoublePriorityQueue\n",
     "trait Sneaky { unsafe fn get_unchecked(&self, i: usize) -> &Index; }\nimpl Sneaky for Vec<Index> { unsafe fn get_unchecked(&self, i: usize) -> &Index { let _ = i; &self[0] } }\n/// Internal storage of PriorityQueue and DoublePriorityQueue\n", 0, "mutant"),
    ("p7_h4_new_file_under_src", LIB, "mod store;\n", "mod store;\nmod extra;\n", 0, "mutant", {"new_files": {"src/extra.rs": "pub(crate) fn nothing() {}\n"}}),
    ("p7_h4_unreferenced_new_file", LIB, "mod store;\n", "mod store;\n", 0, "mutant", {"new_files": {"src/extra.in": "fn up_heapify() {}\n"}}),
    ("p7_h4_mod_path_attribute", LIB, "mod store;\n", "#[path = \"store_impl.txt\"]\nmod store;\n", 0, "mutant"),
    ("p7_h4_include_macro", PQ, "use crate::store::{Hole, Index, Position, Store};", "use crate::store::{Hole, Index, Position, Store};\ninclude!(\"extra.in\");", 0, "mutant"),
    ("p7_h4_extern_crate_alias", LIB, "mod store;\n", "mod store;\nextern crate alloc as std2;\n", 0, "mutant"),
    ("p7_h4_path_qualified_impl_for_position", LIB, "mod store;\n",
     "mod store;\nimpl core::ops::Not for crate::store::Position { type Output = bool; fn not(self) -> bool { false } }\n", 0, "mutant"),
    ("p7_h5_rawident_fn_swap", ST, "/// Internal storage of PriorityQueue and DoublePriorityQueue\n",
     "trait Sneaky2 { fn r#swap(&mut self, a: usize, b: usize); }\nimpl Sneaky2 for Vec<Index> { fn r#swap(&mut self, _a: usize, _b: usize) {} }\n/// Internal storage of PriorityQueue and DoublePriorityQueue\n", 0, "mutant"),
    ("p7_h5_inherent_next_in_another_file", LIB, "mod store;\n",
     "mod store;\nimpl<'a, I, P> crate::core_iterators::Iter<'a, I, P> { pub fn nth(&mut self, _n: usize) -> Option<(&'a I, &'a P)> { None } }\n", 0, "mutant"),
    ("p7_h5_inherent_count_for_itermut", PQ, "use crate::store::{Hole, Index, Position, Store};",
     "use crate::store::{Hole, Index, Position, Store};\nimpl<'a, I: 'a, P: 'a + Ord, H: 'a> IterMut<'a, I, P, H> { pub fn count(self) -> usize { 0 } }", 0, "mutant"),
    ("p7_h5_inherent_impl_inside_exempt_fmt", ST, "        f.debug_map()", "        impl<I2, P2, H2> Store<I2, P2, H2> { fn sneaky(&self) {} }\n        f.debug_map()", 0, "mutant"),
    ("p7_h6_module_level_fn_ok", ST, "/// Internal storage of PriorityQueue and DoublePriorityQueue\n",
     "#[allow(non_snake_case)]\nfn Ok(_u: ()) -> Result<(), TryReserveError> { Err(todo!()) }\n/// Internal storage of PriorityQueue and DoublePriorityQueue\n", 0, "mutant"),
    ("p7_h7_cfg_on_use_lines", ST, "use std::mem::swap;\n", "#[cfg(any())]\nuse std::mem::swap;\n#[cfg(all())]\nuse crate::sneaky_swap as swap;\n", 0, "mutant", SNEAKY_SWAP),
    ("p7_h7_cfg_on_mod", LIB, "mod store;\n", "#[cfg(any())]\nmod store;\n#[cfg(all())]\n#[path = \"store2.rs\"]\nmod store;\n", 0, "mutant"),
    ("p7_h7_inner_cfg_attribute", DQ, "use crate::store::{Hole, Index, Position, Store};", "#![cfg(all())]\nuse crate::store::{Hole, Index, Position, Store};", 0, "mutant"),
    ("p7_h8_raw_string_hides_code", PQ, "    fn up_heapify(&mut self, i: Position) {",
     "    const _H: &'static str = r#\" \"; /* \"#;\n    fn up_heapify(&mut self, i: Position) { let _ = i; }\n    #[cfg(any())]\n    fn up_heapify_real(&mut self, i: Position) {", 0, "mutant"),
    ("p7_h8_byte_raw_string", ST, "use std::mem::swap;\n", "use std::mem::swap;\nconst _B: &[u8] = br\"x\";\n", 0, "mutant"),
    ("p7_h9_cargo_lib_path", CARGO, "[features]\n", "[lib]\npath = \"src/other.rs\"\n\n[features]\n", 0, "mutant"),
    ("p7_h9_cargo_build_script", CARGO, "edition = \"2021\"\n", "edition = \"2021\"\nbuild = \"gen.rs\"\n", 0, "mutant"),
    ("p7_h9_build_rs_appears", LIB, "mod store;\n", "mod store;\n", 0, "mutant", {"new_files": {"build.rs": "fn main() { println!(\"cargo:rustc-cfg=sneaky\"); }\n"}}),
    ("p7_h9_cargo_default_features", CARGO, "default = [\"std\"]", "default = []", 0, "mutant"),
    ("p7_h9_cargo_indexmap_renamed", CARGO, "indexmap = {version = \"2.2\"", "indexmap = {package = \"evilmap\", version = \"2.2\"", 0, "mutant"),
    ("p7_h_neutral_comment_with_raw_string_opener", PQ, "    fn up_heapify(&mut self, i: Position) {", "    // r#\" not code \"#\n    fn up_heapify(&mut self, i: Position) {", 0, "neutral"),
    ("p7_h_neutral_cargo_version", CARGO, "version = \"2.3.1\"", "version = \"2.3.2\"", 0, "neutral"),
    ("p7_h_neutral_doc_comment_on_helper", ST, "    pub fn len(&self) -> usize {", "    /// number of elements\n    pub fn len(&self) -> usize {", 0, "neutral"),
    ("dq_comment_only", DQ, "fn heapify_min(&mut self, mut i: Position) {",
     "fn heapify_min(&mut self, mut i: Position) {\n        // trickle down on a min level", 0, "neutral"),
    ("comment_only", PQ, "fn heapify(&mut self, mut i: Position) {",
     "fn heapify(&mut self, mut i: Position) { // sift down\n        /* nothing\n new */", 0, "neutral"),
    ("whitespace_only", PQ, "self.store.swap(i, largest);", "self.store.swap( i,\n                largest ) ;", 0, "neutral"),
]


def copy_crate(dst):
    """the part of the crate the translators look at: src/, Cargo.toml, build.rs (if any)"""
    shutil.copytree(os.path.join(REPO, "src"), os.path.join(dst, "src"))
    for f in ("Cargo.toml", "build.rs"):
        if os.path.exists(os.path.join(REPO, f)):
            shutil.copyfile(os.path.join(REPO, f), os.path.join(dst, f))


def run(cmd, env=None, cwd=None, timeout=1200):
    p = subprocess.run(cmd, env=env, cwd=cwd, stdout=subprocess.PIPE, stderr=subprocess.STDOUT, timeout=timeout)
    return p.returncode, p.stdout.decode(errors="replace")


def gen(repo_parent, out):
    env = dict(os.environ, VERIF_REPO=repo_parent)
    rc, txt = run([sys.executable, GEN, "--out", out], env=env)
    try:
        rep = json.loads(txt[txt.index("{"):])
    except ValueError:
        rep = {"error": txt[-400:]}
    return rc, rep


def compile_proofs(work, gen_file):
    """compile SrcGen + the proof files in a private output tree that shadows only these modules"""
    out = os.path.join(work, "out")
    shutil.copytree(os.path.join(BUILD_LIB, "PQ"), os.path.join(out, "PQ"), symlinks=False,
                    copy_function=lambda s, d: os.symlink(s, d))
    env = dict(os.environ, LEAN_PATH=out)
    res = []

    srcs = os.path.join(work, "srcs")

    def one(src, mod):
        # lean wants the input below its root directory: work on a copy laid out like the project
        rel = mod.replace(".", "/") + ".lean"
        os.makedirs(os.path.dirname(os.path.join(srcs, rel)), exist_ok=True)
        shutil.copyfile(src, os.path.join(srcs, rel))
        olean = os.path.join(out, mod.replace(".", "/") + ".olean")
        for ext in (".olean", ".ilean"):
            f = olean[:-6] + ext
            if os.path.lexists(f):
                os.remove(f)
        t0 = time.time()
        rc, txt = run(["lean", "-o", olean, rel], env=env, cwd=srcs)
        errs = [l for l in txt.splitlines() if "error" in l]
        res.append({"module": mod, "ok": rc == 0, "seconds": round(time.time() - t0, 1), "first_errors": errs[:3]})
        return rc == 0

    if not one(gen_file, "PQ.Model.SrcGen"):
        return res
    for p in PROOFS:
        src = os.path.join(LEAN_DIR, p)
        if os.path.exists(src):
            if not one(src, p[:-5].replace("/", ".")):
                break           # later files import the failed one
    return res


def main():
    keep = "--keep" in sys.argv
    only = sys.argv[sys.argv.index("--only") + 1] if "--only" in sys.argv else None
    shutil.rmtree(SCRATCH, ignore_errors=True)
    os.makedirs(SCRATCH)
    report = {"baseline": {}, "edits": [], "ok": True}
    # baseline: unchanged source, generated into the scratch dir; the proofs must compile
    base = os.path.join(SCRATCH, "base")
    os.makedirs(base)
    copy_crate(base)
    base_out = os.path.join(base, "SrcGen.lean")
    _, rep = gen(base, base_out)
    base_text = open(base_out).read()
    on_disk = open(os.path.join(LEAN_DIR, "PQ", "Model", "SrcGen.lean")).read()
    comp = [] if "--no-baseline" in sys.argv else compile_proofs(base, base_out)
    report["baseline"] = {"unparsed": rep.get("unparsed"), "same_as_PQ/Model/SrcGen.lean": base_text == on_disk,
                          "proofs": comp, "proofs_ok": all(c["ok"] for c in comp)}
    if not (report["baseline"]["proofs_ok"] and base_text == on_disk and not rep.get("unparsed")):
        report["ok"] = False
    def run_edit(edit):
        name, file, old, new, occ, kind = edit[:6]
        work = os.path.join(SCRATCH, name)
        os.makedirs(work)
        copy_crate(work)
        extra = edit[6] if len(edit) > 6 else {}
        for rel, content in extra.get("new_files", {}).items():
            os.makedirs(os.path.dirname(os.path.join(work, rel)), exist_ok=True)
            open(os.path.join(work, rel), "w").write(content)
        for (f2, old2, new2) in extra.get("more", []):
            t2 = open(os.path.join(work, f2)).read()
            if old2 not in t2:
                return {"edit": edit[0], "file": f2, "kind": edit[5], "result": "edit does not apply (source text not found)",
                        "as_expected": False}
            open(os.path.join(work, f2), "w").write(t2.replace(old2, new2, 1))
        path = os.path.join(work, file)
        text = open(path).read()
        idx = -1
        if occ == -1:                                   # replace every occurrence (renamings)
            idx = text.find(old)
            if idx >= 0:
                text = text.replace(old, new)
                old = new = ""
                idx = 0
        else:
            for _ in range(occ + 1):
                idx = text.find(old, idx + 1)
        entry = {"edit": name, "file": file, "kind": kind}
        if idx < 0:
            entry["result"] = "edit does not apply (source text not found)"
            entry["as_expected"] = False
            return entry
        open(path, "w").write(text[:idx] + new + text[idx + len(old):])
        out = os.path.join(work, "SrcGen.lean")
        _, rep = gen(work, out)
        mtext = open(out).read()
        entry["generated_text_changed"] = mtext != base_text
        entry["unparsed"] = [u["fn"] + ": " + u["why"] for u in rep.get("unparsed", [])][:3] + \
            ["arith " + u["fn"] + ": " + u["why"] for u in rep.get("arith_unparsed", [])]
        if kind == "neutral":
            entry["as_expected"] = (mtext == base_text)
        else:
            if entry["unparsed"]:
                entry["result"] = "translator refuses the edited function (reported unparsed)"
                entry["as_expected"] = entry["generated_text_changed"] or any(u.startswith("arith ") for u in entry["unparsed"])
            else:
                comp = compile_proofs(work, out)
                entry["proofs"] = comp
                failed = [c["module"] for c in comp if not c["ok"]]
                entry["result"] = ("equivalence proof FAILS in " + ", ".join(failed)) if failed \
                    else "equivalence proofs still pass (edit NOT detected)"
                entry["as_expected"] = bool(failed) and entry["generated_text_changed"]
        return entry

    match = sys.argv[sys.argv.index("--match") + 1] if "--match" in sys.argv else None
    jobs = int(sys.argv[sys.argv.index("--jobs") + 1]) if "--jobs" in sys.argv else 4
    todo = [e for e in EDITS if (not only or e[0] == only) and (not match or match in e[0])]
    from concurrent.futures import ThreadPoolExecutor
    with ThreadPoolExecutor(max_workers=jobs) as ex:
        for entry in ex.map(run_edit, todo):
            if not entry["as_expected"]:
                report["ok"] = False
            report["edits"].append(entry)
    if not keep:
        shutil.rmtree(SCRATCH, ignore_errors=True)
    json.dump(report, sys.stdout, indent=1)
    print()
    sys.exit(0 if report["ok"] else 1)


if __name__ == "__main__":
    main()
