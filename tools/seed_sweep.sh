#!/bin/bash
# false-alarm sweep: every quick check under several seeds on the unchanged tree
out=${1:-/verif/work/seed_sweep.txt}; : > $out
for seed in 2 3 4 5 6 7; do for i in $(seq -w 1 18); do
  r=$(VERIF_SEED=$seed /verif/bin/check C$i 2>&1 | grep -E "^(check|VIOL|BROK)" | tr '\n' ' ' | cut -c1-200); echo "seed=$seed $r" >> $out
done; done
