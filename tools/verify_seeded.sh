#!/bin/bash
# usage: verify_seeded.sh <agent worktree dir> <letter A|B> <features or ""> -- confirms a seeded change in my own scratch worktree
# prints: demo_clean_rc suite_rc suite_serde_rc demo_mutant_rc
src="$1"; X="$2"; feat="$3"
wt=/tmp/mv_wt_$$
export CARGO_NET_OFFLINE=true CARGO_TARGET_DIR=/tmp/mv_target
git -C /repo worktree add --detach $wt HEAD >/dev/null 2>&1 || exit 2
trap 'git -C /repo worktree remove --force '$wt' >/dev/null 2>&1' EXIT
mkdir -p $wt/tests; cp "$src/tests/demo_$X.rs" $wt/tests/demo_$X.rs
fa=""; [ -n "$feat" ] && fa="--features $feat"
cd $wt
cargo test --offline --test demo_$X $fa >/tmp/mv_$$.log 2>&1; r1=$?
git apply "$src/mut_$X.diff" || { echo "patch does not apply"; exit 2; }
mv $wt/tests/demo_$X.rs /tmp/mv_demo_$$.rs   # the suite must be the UNEDITED one: the demo is not part of it
cargo test --workspace --no-fail-fast --offline >>/tmp/mv_$$.log 2>&1; r2=$?
cargo test --workspace --no-fail-fast --offline --features serde >>/tmp/mv_$$.log 2>&1; r3=$?
mv /tmp/mv_demo_$$.rs $wt/tests/demo_$X.rs
cargo test --offline --test demo_$X $fa >>/tmp/mv_$$.log 2>&1; r4=$?
echo "demo_clean_rc=$r1 suite_rc=$r2 suite_serde_rc=$r3 demo_mutant_rc=$r4"
rm -f /tmp/mv_$$.log
