#!/bin/bash
# applies each property-PRESERVING change under /verif/benign to /repo, runs every quick check, reverts.
# A VIOLATION *with a concrete failing input* on such a change is a false alarm of a judge; a VIOLATION ending in
# no-failing-input-found only says that the tie (model = code) broke, which these changes are designed to do.
out=${1:-/verif/work/benign_matrix.txt}; shift; : > $out
ids="$@"; [ -z "$ids" ] && ids=$(ls /verif/benign | grep diff | sed 's/benign_\(..\).diff/\1/')
for n in $ids; do
  cd /repo || exit 2
  if ! git diff --quiet; then echo "/repo has local changes, refusing"; exit 2; fi
  git apply /verif/benign/benign_$n.diff || { echo "$n patch does not apply" >> $out; continue; }
  line="benign_$n:"
  for p in C01 C02 C03 C04 C05 C06 C07 C08 C09 C10 C11 C12 C13 C14 C15 C16 C17 C18; do
    o=$(/verif/bin/check $p 2>&1); rc=$?
    v=$(echo "$o" | grep -E "^VIOLATION" | head -1)
    if [ $rc -eq 0 ]; then tag="ok"; elif echo "$v" | grep -q "no-failing-input-found"; then tag="tie"; elif [ -n "$v" ]; then tag="CONCRETE"; cp $(echo "$v" | sed 's/.*replay=\([^ ]*\).*/\1/') /verif/work/benign_${n}_$p.json 2>/dev/null; else tag="rc$rc"; fi
    line="$line $p=$tag"
  done
  git -C /repo checkout -- .
  echo "$line" >> $out
done
git -C /repo status --short >> $out
