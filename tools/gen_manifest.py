#!/usr/bin/env python3
"""Regenerates /verif/MANIFEST.json from levels.json (one source of truth for level, technique and notes)."""
import json, os
V = os.path.dirname(os.path.dirname(os.path.abspath(__file__)))
levels = json.load(open(os.path.join(V, "levels.json")))
props = [json.loads(l) for l in open(os.path.join(V, "properties.jsonl"))]
checks = []
na = []
for p in props:
    pid = p["id"]
    lv = levels.get(pid)
    if lv is None or lv.get("not_applicable"):
        na.append({"property_id": pid, "reason": (lv or {}).get("not_applicable", "not claimed")})
        continue
    checks.append({
        "property_id": pid,
        "quick_cmd": "bin/check %s --tier quick" % pid,
        "thorough_cmd": "bin/check %s --tier thorough" % pid,
        "evidence_file": "/verif/evidence/%s.json" % pid,
        "replay_cmd_template": "bin/check %s --replay {path}" % pid,
        "engine": "lean-model+correspondence",
        "level_claimed": {"category": lv["category"], "text": lv["text"], "design_ref": lv.get("design_ref", "DESIGN.md 8")},
        "level_note": "; ".join(lv.get("assumptions", [])),
        "technique": lv.get("technique", ""),
    })
m = {
    "version": 1,
    "setup_cmd": "cd /verif/lean && lake build && cd /verif/harness && CARGO_NET_OFFLINE=true cargo build --release --offline",
    "hooks": {
        "guard": "priority_queue_verif",
        "enable": "RUSTFLAGS='--cfg priority_queue_verif' (set in /verif/harness/.cargo/config.toml; the harness depends on /repo by path)",
        "baseline_off_cmd": "cd /repo && CARGO_NET_OFFLINE=true cargo test --workspace --no-fail-fast --offline",
        "source_commits": json.load(open(os.path.join(V, "hooks.json")))["source_commits"],
        "add_only": True,
    },
    "engines": [{
        "name": "lean-model+correspondence", "path": "/verif/lean, /verif/harness, /verif/bin/check",
        "serves_properties": [c["property_id"] for c in checks],
        "kind_free_text": "Lean 4 theorems about an executable model of the crate; the model is tied to /repo on every run by a white-box differential correspondence check (Rust harness drives the real crate, native Lean driver re-executes every operation on the model and compares results, index tables, peeks and comparison counts), two translators that regenerate parts of the model from the Rust source text on every run (gen_arith.py: the index arithmetic and the deserialization pre-allocation; gen_src.py: 110 functions of store.rs, both queue modules and the iterator files as terms of a deep-embedded IR, with Lean theorems that the hand-written model functions — and, for every comparison-performing function, the crash model's fused twins — equal the IR interpreter on the generated terms), and an unsafe-site inventory",
    }],
    "checks": checks,
    "not_applicable": na,
    "notes": "See DESIGN.md. KNOWN_FINDINGS.json lists the genuine defects found: F1-F6, F8 and F9 repaired by fix: commits in /repo (entries `fixed`), F7 (references yielded by iter_mut outlive the rebuilding guard; C01/C02/C08) recorded as an open known finding.",
}
json.dump(m, open(os.path.join(V, "MANIFEST.json"), "w"), indent=1)
print("MANIFEST.json: %d checks, %d not applicable" % (len(checks), len(na)))
