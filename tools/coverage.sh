#!/bin/bash
# Source coverage of /repo/src reached by the correspondence streams (a measurement of the tie's generators, not a check).
# Builds the harness with -C instrument-coverage on the nightly toolchain into a scratch directory, runs every stream at the
# quick tier, and prints (a) llvm-cov's per-file summary and (b) the `fn` definitions of /repo/src that were never
# instantiated by the harness (generic functions the harness does not call have no coverage mapping at all and are
# invisible in (a)).  Output: /verif/work/coverage.txt.  Scratch: /tmp/pqcov (removed at the end).
set -e
B=$(ls -d /root/.rustup/toolchains/nightly-x86_64-unknown-linux-gnu/lib/rustlib/x86_64-unknown-linux-gnu/bin)
S=/tmp/pqcov; rm -rf $S; mkdir -p $S /verif/work
cd /verif/harness
# (build scripts of dependencies are instrumented too and drop a default_*.profraw into their package directory)
LLVM_PROFILE_FILE=$S/build-%p.profraw CARGO_NET_OFFLINE=true CARGO_TARGET_DIR=$S/target RUSTFLAGS="--cfg priority_queue_verif -C instrument-coverage" cargo +nightly build --release --offline >/dev/null 2>&1
rm -f $S/build-*.profraw
STREAMS="core_pq core_dpq core_both bfs_pq bfs_dpq bfs_both pattern_pq pattern_dpq c06 c08 c11 c12 c14 c15 c16 c17 c17_oom bulk large iters_mut iters_plain iters_sorted iters_drain crash crash_mirror post_crash"
for s in $STREAMS; do
  LLVM_PROFILE_FILE="$S/$s-%p.profraw" $S/target/release/pqharness gen --stream $s --seed ${VERIF_SEED:-1} --tier quick --hasher random --out $S/$s.trace >/dev/null 2>&1 || echo "stream $s rc=$?"
done
$B/llvm-profdata merge -sparse $S/*.profraw -o $S/all.profdata
{
  echo "# source coverage of /repo/src by the quick streams (seed ${VERIF_SEED:-1}), $(git -C /repo rev-parse --short HEAD)"
  $B/llvm-cov report $S/target/release/pqharness -instr-profile=$S/all.profdata --sources /repo/src 2>/dev/null | cut -c1-200
  echo; echo "# lines with an execution count of 0:"
  $B/llvm-cov show $S/target/release/pqharness -instr-profile=$S/all.profdata --sources /repo/src 2>/dev/null | grep -v '^  |' | grep -E '^\s+[0-9]+\|\s+0\|' || echo "(none)"
  echo; echo "# fn definitions never instantiated by the harness (no coverage mapping):"
  for f in $(cd /repo/src && find . -name '*.rs' | sed 's|^\./||'); do
    $B/llvm-cov show $S/target/release/pqharness -instr-profile=$S/all.profdata --sources /repo/src/$f 2>/dev/null | grep -v '^  |' | grep -E '^\s+[0-9]+\|\s+\|.*\bfn [a-z_0-9]+' | sed "s|^|$f: |"
  done || true
} > /verif/work/coverage.txt
rm -rf $S
cat /verif/work/coverage.txt
