#!/usr/bin/env python3
"""Translator "Rust source -> deep-embedded IR" for the index-table / heap core of priority-queue.

Reads the Rust functions listed in FUNCS from $VERIF_REPO/src (default /repo/src), parses them with a small
tokenizer + recursive-descent parser for the Rust subset they use, lowers the AST to the IR of
/verif/lean/PQ/Model/Src.lean and writes /verif/lean/PQ/Model/SrcGen.lean (one `Option Fn` per function,
`none` when the function left the supported subset).  The equivalence theorems of PQ/Lemmas/SrcEquiv*.lean
are proved about the generated terms, so they are re-checked against what the code says *now* on every run.

stdout: {"translated": [...], "unparsed": [{"fn":..., "why":...}], "changed": bool}

Nothing is guessed: an unknown method name, unknown syntax, an unexpected shape of a recognised idiom, or a
number/kind of memory accesses that differs from the site table makes the function "unparsed".
See PQ/Model/SRC_README.md for the subset, the IR and the site table.
"""
import json, os, re, sys

REPO = os.environ.get("VERIF_REPO", "/repo")
HERE = os.path.dirname(os.path.abspath(__file__))
DEFAULT_OUT = os.path.normpath(os.path.join(HERE, "..", "lean", "PQ", "Model", "SrcGen.lean"))

STORE_RS = "src/store.rs"
PQ_RS = "src/priority_queue/mod.rs"
DQ_RS = "src/double_priority_queue/mod.rs"


sys.path.insert(0, os.path.dirname(os.path.abspath(__file__)))
import src_skeleton
from src_skeleton import Unparsed, strip_comments, tokenize     # the tokenizer is shared with the skeleton check


# ----------------------------------------------------------------------------------------------------
# finding functions
# ----------------------------------------------------------------------------------------------------

def find_fns(toks, name):
    """all (params, ret_tokens, body_tokens) of `fn name` in the token list"""
    res = []
    i = 0
    while i < len(toks) - 1:
        if toks[i] == ("id", "fn") and toks[i + 1] == ("id", name):
            j = i + 2
            if toks[j][1] == "<":                       # generics
                d = 0
                while True:
                    if toks[j][1] == "<": d += 1
                    elif toks[j][1] == ">": d -= 1
                    j += 1
                    if d == 0: break
            if toks[j][1] != "(":
                raise Unparsed("fn %s: parameter list expected" % name)
            d, k = 0, j
            while True:
                if toks[k][1] in "([": d += 1
                elif toks[k][1] in ")]": d -= 1
                k += 1
                if d == 0: break
            ptoks = toks[j + 1:k - 1]
            j = k
            rtoks = []
            while toks[j][1] != "{":                    # return type / where clause (no braces occur there)
                rtoks.append(toks[j]); j += 1
                if toks[j][1] == ";":
                    raise Unparsed("fn %s has no body" % name)
            d, k = 0, j
            while True:
                if toks[k][1] == "{": d += 1
                elif toks[k][1] == "}": d -= 1
                k += 1
                if d == 0: break
            res.append((split_params(ptoks), rtoks, toks[j:k], i))
            i = k
        else:
            i += 1
    return res


def split_params(ptoks):
    params, cur, d = [], [], 0
    for t in ptoks:
        if t[1] in "(<[": d += 1
        elif t[1] in ")>]": d -= 1
        if t[1] == "," and d == 0:
            if cur: params.append(cur)
            cur = []
        else:
            cur.append(t)
    if cur: params.append(cur)
    out = []
    for p in params:
        vals = [t[1] for t in p]
        if "self" in vals and ":" not in vals:
            out.append(("self", "self"))
            continue
        k = vals.index(":")
        names = [v for v in vals[:k] if v != "mut"]
        if len(names) != 1:
            raise Unparsed("parameter pattern " + " ".join(vals))
        out.append((names[0], " ".join(v for t, v in p[k + 1:] if t != "life")))
    return out


# ----------------------------------------------------------------------------------------------------
# integrity of what the translator takes for granted
# ----------------------------------------------------------------------------------------------------
# Everything the lowering reads as a primitive or resolves by name is checked here against the source text; a failed
# check makes the functions that rely on it (mostly: all of them) "unparsed".

# every definition of these function names anywhere under src/ (file -> count): a new one (a decoy under a dead `cfg`, a
# replacement in another module) makes the tie stale until this table is reviewed
EXPECTED_DEFS = {
    "append": {"src/double_priority_queue/mod.rs": 1, "src/priority_queue/mod.rs": 1, "src/store.rs": 1},
    "better_to_rebuild": {"src/double_priority_queue/mod.rs": 1, "src/priority_queue/mod.rs": 1},
    "bubble_up": {"src/double_priority_queue/mod.rs": 1, "src/priority_queue/mod.rs": 1},
    "bubble_up_max": {"src/double_priority_queue/mod.rs": 1},
    "bubble_up_min": {"src/double_priority_queue/mod.rs": 1},
    "change_priority": {"src/double_priority_queue/mod.rs": 1, "src/priority_queue/mod.rs": 1, "src/store.rs": 1},
    "change_priority_by": {"src/double_priority_queue/mod.rs": 1, "src/priority_queue/mod.rs": 1, "src/store.rs": 1},
    "clear": {"src/double_priority_queue/mod.rs": 1, "src/priority_queue/mod.rs": 1, "src/store.rs": 1},
    "deserialize": {"src/double_priority_queue/mod.rs": 1, "src/priority_queue/mod.rs": 1, "src/store.rs": 1},
    "drain": {"src/double_priority_queue/mod.rs": 1, "src/priority_queue/mod.rs": 1, "src/store.rs": 1},
    "drop": {"src/double_priority_queue/iterators.rs": 1, "src/priority_queue/iterators.rs": 1, "src/store.rs": 1},
    "extend": {"src/double_priority_queue/mod.rs": 1, "src/priority_queue/mod.rs": 1, "src/store.rs": 1},
    "find_max": {"src/double_priority_queue/mod.rs": 1},
    "find_min": {"src/double_priority_queue/mod.rs": 1},
    "from": {"src/double_priority_queue/mod.rs": 2, "src/lib.rs": 2, "src/priority_queue/mod.rs": 2, "src/store.rs": 1},
    "from_iter": {"src/double_priority_queue/mod.rs": 1, "src/priority_queue/mod.rs": 1, "src/store.rs": 1},
    "get_priority_from_position": {"src/store.rs": 1},
    "heap_build": {"src/double_priority_queue/mod.rs": 1, "src/priority_queue/mod.rs": 1},
    "heapify": {"src/double_priority_queue/mod.rs": 1, "src/priority_queue/mod.rs": 1},
    "heapify_max": {"src/double_priority_queue/mod.rs": 1},
    "heapify_min": {"src/double_priority_queue/mod.rs": 1},
    "index_at": {"src/store.rs": 1},
    "is_empty": {"src/double_priority_queue/mod.rs": 1, "src/priority_queue/mod.rs": 1, "src/store.rs": 1},
    "left": {"src/double_priority_queue/mod.rs": 1, "src/priority_queue/mod.rs": 1},
    "len": {"src/core_iterators.rs": 3, "src/double_priority_queue/iterators.rs": 2, "src/double_priority_queue/mod.rs": 1, "src/priority_queue/mod.rs": 1, "src/store.rs": 1},
    "level": {"src/double_priority_queue/mod.rs": 1},
    "log2_fast": {"src/double_priority_queue/mod.rs": 1, "src/priority_queue/mod.rs": 1},
    "move_from": {"src/store.rs": 1},
    "new": {"src/double_priority_queue/iterators.rs": 1, "src/double_priority_queue/mod.rs": 1, "src/priority_queue/iterators.rs": 1, "src/priority_queue/mod.rs": 1, "src/store.rs": 1},
    "parent": {"src/double_priority_queue/mod.rs": 1, "src/priority_queue/mod.rs": 1},
    "peek": {"src/priority_queue/mod.rs": 1},
    "peek_max": {"src/double_priority_queue/mod.rs": 1},
    "peek_max_mut": {"src/double_priority_queue/mod.rs": 1},
    "peek_min": {"src/double_priority_queue/mod.rs": 1},
    "peek_min_mut": {"src/double_priority_queue/mod.rs": 1},
    "peek_mut": {"src/priority_queue/mod.rs": 1},
    "pop": {"src/priority_queue/mod.rs": 1},
    "pop_if": {"src/priority_queue/mod.rs": 1},
    "pop_max": {"src/double_priority_queue/mod.rs": 1},
    "pop_max_if": {"src/double_priority_queue/mod.rs": 1},
    "pop_min": {"src/double_priority_queue/mod.rs": 1},
    "pop_min_if": {"src/double_priority_queue/mod.rs": 1},
    "push": {"src/double_priority_queue/mod.rs": 1, "src/priority_queue/mod.rs": 1},
    "push_decrease": {"src/double_priority_queue/mod.rs": 1, "src/priority_queue/mod.rs": 1},
    "push_increase": {"src/double_priority_queue/mod.rs": 1, "src/priority_queue/mod.rs": 1},
    "remove": {"src/double_priority_queue/mod.rs": 1, "src/priority_queue/mod.rs": 1, "src/store.rs": 1},
    "replace": {},
    "retain": {"src/double_priority_queue/mod.rs": 1, "src/priority_queue/mod.rs": 1, "src/store.rs": 1},
    "retain_mut": {"src/double_priority_queue/mod.rs": 1, "src/priority_queue/mod.rs": 1, "src/store.rs": 1},
    "right": {"src/double_priority_queue/mod.rs": 1, "src/priority_queue/mod.rs": 1},
    "swap": {"src/store.rs": 1},
    "swap_remove": {"src/store.rs": 1},
    "swap_remove_if": {"src/store.rs": 1},
    "up_heapify": {"src/double_priority_queue/mod.rs": 1, "src/priority_queue/mod.rs": 1},
    "visit_seq": {"src/store.rs": 1},
}

ALLOWED_ITEM_ATTRS = [["#", "[", "inline", "]"], ["#", "[", "inline", "(", "always", ")", "]"]]
SERDE_MOD_ATTR = ["#", "[", "cfg", "(", "feature", "=", '"serde"', ")", "]"]
SERDE_DOC_ATTR = ["#", "[", "cfg_attr", "(", "docsrs", ",", "doc", "(", "cfg", "(", "feature", "=", '"serde"', ")", ")", ")", "]"]
SERDE_FNS = {"storeVisitSeq", "pqDeserialize", "dqDeserialize", "storeSerialize"}


def split_attrs(vals):
    """leading `#[..]` attributes of a token-value list -> (list of attributes, rest)"""
    attrs, i = [], 0
    while i < len(vals) and vals[i] == "#":
        j = i + 1
        if j < len(vals) and vals[j] == "!":
            j += 1
        if j >= len(vals) or vals[j] != "[":
            break
        d, k = 0, j
        while k < len(vals):
            if vals[k] == "[": d += 1
            elif vals[k] == "]":
                d -= 1
                if d == 0: break
            k += 1
        attrs.append(vals[i:k + 1])
        i = k + 1
    return attrs, vals[i:]


def item_header(toks, idx):
    """token values of the item header that ends just before token `idx` (back to the previous `;` `{` `}`)"""
    j = idx - 1
    d = 0
    while j >= 0:
        v = toks[j][1]
        if v in (")", "]", ">"): d += 1          # `pub(crate)`, attribute brackets, generics
        elif v in ("(", "[", "<"): d -= 1
        elif v in (";", "{", "}") and d <= 0:
            break
        j -= 1
    return [t[1] for t in toks[j + 1:idx]]


def check_fn_context(toks, fn_idx, fnid, what):
    """attributes on the `fn` item and on every enclosing `impl` / `mod`; raises Unparsed"""
    attrs, rest = split_attrs(item_header(toks, fn_idx))
    for a in attrs:
        if a not in ALLOWED_ITEM_ATTRS:
            raise Unparsed("%s carries the attribute `%s`" % (what, " ".join(a)))
    for q in rest:
        if q not in ("pub", "(", ")", "crate", "const", "unsafe"):
            raise Unparsed("%s: unexpected qualifier `%s`" % (what, q))
    stack = []
    for k in range(fn_idx):
        v = toks[k][1]
        if v == "{": stack.append(k)
        elif v == "}" and stack: stack.pop()
    for open_idx in stack:
        hattrs, hrest = split_attrs(item_header(toks, open_idx))
        kind = next((q for q in hrest if q in ("impl", "mod", "fn", "trait")), None)
        if kind == "impl":
            if hattrs:
                raise Unparsed("%s is inside an `impl` block with the attribute `%s`" % (what, " ".join(hattrs[0])))
        elif kind == "mod" and hrest[-2:] == ["mod", "serde"] and fnid in SERDE_FNS:
            if hattrs not in ([SERDE_MOD_ATTR], [SERDE_MOD_ATTR, SERDE_DOC_ATTR]):
                raise Unparsed("%s: unexpected attributes on `mod serde`" % what)
        else:
            raise Unparsed("%s is nested in `%s`" % (what, " ".join(hrest[-3:])))


def norm_ws(text):
    return re.sub(r"\s+", " ", text).strip()


STRUCT_SNIPPETS = {
    STORE_RS: [
        "#[derive(Copy, Clone, Debug, Ord, PartialOrd, Eq, PartialEq)] pub(crate) struct Index(pub usize);",
        "#[derive(Copy, Clone, Debug, Ord, PartialOrd, Eq, PartialEq)] pub(crate) struct Position(pub usize);",
        "pub(crate) struct Hole<'a> { heap: &'a mut [Index], qp: &'a mut [Position], pub position: Position, "
        "map_position: Index, }",
        "#[derive(Clone)] #[cfg(feature = \"std\")] pub(crate) struct Store<I, P, H = RandomState> { "
        "pub map: IndexMap<I, P, H>, pub heap: Vec<Index>, pub qp: Vec<Position>, pub size: usize, }",
        "#[derive(Clone)] #[cfg(not(feature = \"std\"))] pub(crate) struct Store<I, P, H> { "
        "pub map: IndexMap<I, P, H>, pub heap: Vec<Index>, pub qp: Vec<Position>, pub size: usize, }",
        "use std::mem::swap;",
        "use indexmap::map::{IndexMap, MutableKeys};",
    ],
    PQ_RS: [
        "#[derive(Clone, Debug)] #[cfg(feature = \"std\")] pub struct PriorityQueue<I, P, H = RandomState> { "
        "pub(crate) store: Store<I, P, H>, }",
        "#[derive(Clone, Debug)] #[cfg(not(feature = \"std\"))] pub struct PriorityQueue<I, P, H> { "
        "pub(crate) store: Store<I, P, H>, }",
        "use std::mem::replace;",
        "use crate::store::{Hole, Index, Position, Store};",
    ],
    DQ_RS: [
        "#[derive(Clone)] #[cfg(feature = \"std\")] pub struct DoublePriorityQueue<I, P, H = RandomState> { "
        "pub(crate) store: Store<I, P, H>, }",
        "#[derive(Clone)] #[cfg(not(feature = \"std\"))] pub struct DoublePriorityQueue<I, P, H> { "
        "pub(crate) store: Store<I, P, H>, }",
        "use std::mem::replace;",
        "use crate::store::{Hole, Index, Position, Store};",
    ],
}
# the one-line accessors that the lowering reads as `.len` / `len == 0`: (file, name, body tokens)
ACCESSORS = [
    (STORE_RS, "len", "{ self . size }"), (STORE_RS, "is_empty", "{ self . size == 0 }"),
    (PQ_RS, "len", "{ self . store . len ( ) }"), (PQ_RS, "is_empty", "{ self . store . is_empty ( ) }"),
    (DQ_RS, "len", "{ self . store . len ( ) }"), (DQ_RS, "is_empty", "{ self . store . is_empty ( ) }"),
]


def all_src_files():
    out = {}
    root = os.path.join(REPO, "src")
    for d, _, fs in os.walk(root):
        for f in sorted(fs):
            if f.endswith(".rs"):
                path = os.path.join(d, f)
                out[os.path.relpath(path, REPO)] = strip_comments(open(path).read())
    return out


def count_defs(texts, names):
    """{name: {file: number of `fn name` items}} over all source files"""
    res = {}
    for file, text in texts.items():
        for m in re.finditer(r"\bfn\s+([A-Za-z_][A-Za-z_0-9]*)", text):
            if m.group(1) in names:
                res.setdefault(m.group(1), {}).setdefault(file, 0)
                res[m.group(1)][file] += 1
    return res


def global_checks(sources):
    """problems that invalidate every translation"""
    # the crate-wide item skeleton (tools/src_skeleton.py): files, items, impl headers, signatures, frozen helper bodies,
    # Cargo.toml, build.rs
    problems = ["skeleton: " + p for p in src_skeleton.check(REPO)]
    try:
        texts = all_src_files()
    except (OSError, Unparsed) as ex:
        return problems + ["cannot read the sources: %s" % ex]
    for file, text in texts.items():
        if re.search(r"\bmacro_rules\b", text):
            problems.append("`macro_rules!` in %s (a macro could define or replace any function)" % file)
        m = re.search(r"\bimpl\b[^{;]*\bfor\s+(Position|Index)\b", text)
        if m:
            problems.append("manual trait impl for `%s` in %s (their comparison is assumed to be the derived one)"
                            % (m.group(1), file))
    for file, snippets in STRUCT_SNIPPETS.items():
        text = norm_ws(texts.get(file, ""))
        for sn in snippets:
            if text.count(norm_ws(sn)) != 1:
                problems.append("%s: expected exactly one `%s`" % (file, sn[:70] + ("…" if len(sn) > 70 else "")))
    for file, name, body in ACCESSORS:
        fs = find_fns(sources.get(file, []), name) if sources.get(file) else []
        ok = len(fs) == 1 and [p[0] for p in fs[0][0]] == ["self"] and " ".join(t[1] for t in fs[0][2]) == body
        if ok:
            try:
                check_fn_context(sources[file], fs[0][3], None, "`%s::%s`" % (file, name))
            except Unparsed as ex:
                ok = False
                problems.append(str(ex))
        if not ok:
            problems.append("accessor `%s` of %s is not the expected one-liner `%s`" % (name, file, body))
    names = set(EXPECTED_DEFS)
    got = count_defs(texts, names)
    for name in sorted(names):
        if got.get(name, {}) != EXPECTED_DEFS[name]:
            problems.append("definitions of `fn %s` in the crate: found %s, expected %s"
                            % (name, json.dumps(got.get(name, {}), sort_keys=True),
                               json.dumps(EXPECTED_DEFS[name], sort_keys=True)))
    return problems


# ----------------------------------------------------------------------------------------------------
# parser: tokens -> AST (tuples)
# ----------------------------------------------------------------------------------------------------

class Parser:
    uses = []                       # the `use` declarations met since the last `parse_fn_body` (checked by its callers)

    def __init__(self, toks):
        self.t, self.i = toks, 0

    def peek(self, k=0):
        return self.t[self.i + k][1] if self.i + k < len(self.t) else None

    def kind(self, k=0):
        return self.t[self.i + k][0] if self.i + k < len(self.t) else None

    def eat(self, x=None):
        v = self.peek()
        if v is None or (x is not None and v != x):
            raise Unparsed("expected %r, got %r" % (x, v))
        self.i += 1
        return v

    def skip_attrs(self):
        if self.peek() == "#":
            raise Unparsed("attribute inside a function body (conditional compilation is not followed)")
        while self.peek() == "#":
            self.eat("#")
            if self.peek() == "!": self.eat("!")
            self.eat("[")
            d = 1
            while d:
                v = self.eat()
                if v == "[": d += 1
                elif v == "]": d -= 1

    # ---- blocks and statements
    def block(self):
        self.eat("{")
        stmts, tail = [], None
        while True:
            self.skip_attrs()
            if self.peek() == "}":
                break
            s, is_tail = self.stmt()
            if is_tail:
                tail = s
                if self.peek() != "}":
                    raise Unparsed("expression without `;` in the middle of a block")
                break
            stmts.append(s)
        self.eat("}")
        return ("block", stmts, tail)

    def stmt(self):
        """returns (node, is_tail_expression)"""
        v = self.peek()
        if v == ";":
            self.eat(";")
            return ("expr", ("tuple", [])), False
        if v == "let":
            self.eat("let")
            pat = self.pattern()
            if self.peek() == ":":
                self.eat(":")
                self.skip_type()
            self.eat("=")
            e = self.expr()
            self.eat(";")
            return ("let", pat, e), False
        if v == "return":
            self.eat("return")
            e = None if self.peek() == ";" else self.expr()
            self.eat(";")
            return ("return", e), False
        if v == "break":
            self.eat("break"); self.eat(";")
            return ("break",), False
        if v == "const":
            self.eat("const")
            name = self.ident()
            self.eat(":")
            self.skip_type()
            self.eat("=")
            e = self.expr()
            self.eat(";")
            return ("const", name, e), False
        if v == "while":
            self.eat("while")
            if self.peek() == "let":
                self.eat("let")
                pat = self.pattern()
                self.eat("=")
                e = self.expr(nostruct=True)
                b = self.block()
                return ("whilelet", pat, e, b), False
            c = self.expr(nostruct=True)
            b = self.block()
            return ("while", c, b), False
        if v == "for":
            self.eat("for")
            pat = self.pattern()
            self.eat("in")
            it = self.expr(nostruct=True)
            b = self.block()
            return ("for", pat, it, b), False
        if v == "use":
            u = []
            while self.peek() != ";":
                u.append(self.eat())
            self.eat(";")
            # a `use` inside a body can rebind any name the lowering resolves textually: only the ones that are there
            # today are accepted, per function (BODY_USES)
            Parser.uses.append(" ".join(u))
            return ("expr", ("tuple", [])), False
        if v in ("loop", "static", "fn", "struct", "impl", "continue"):
            raise Unparsed("statement `%s`" % v)
        if v in ("if", "match", "unsafe", "{"):
            # a block-like expression at the start of a statement IS the statement (Rust does not continue it with
            # `(..)`, binary operators, ...); a following `.`/`?` would continue it: not supported
            e = self.atom(False)
            if self.peek() in (".", "?"):
                raise Unparsed("method call on a block-like expression statement")
            if self.peek() == ";":
                self.eat(";")
                return ("expr", e), False
            if self.peek() == "}":
                return e, True
            return ("expr", e), False
        e = self.expr()
        blocklike = e[0] in ("if", "match", "block", "unsafe")
        nxt = self.peek()
        if nxt in ("=", "-=", "+=", "*=", "/="):
            op = self.eat()
            rhs = self.expr()
            self.eat(";")
            return ("assign", e, op, rhs), False
        if nxt == ";":
            self.eat(";")
            return ("expr", e), False
        if nxt == "}":
            return e, True
        if blocklike:
            return ("expr", e), False
        raise Unparsed("unexpected %r after expression" % nxt)

    def skip_type(self):
        d = 0
        while True:
            v = self.peek()
            if v is None:
                raise Unparsed("type")
            if v in "<([": d += 1
            elif v in ">)]": d -= 1
            elif v == "=" and d == 0:
                return
            self.eat()

    # ---- patterns
    def pattern(self):
        v = self.peek()
        if v == "&":
            self.eat("&")
            if self.peek() == "mut": self.eat("mut")
            return ("pref", self.pattern())
        if v == "(":
            self.eat("(")
            ps = []
            while self.peek() != ")":
                ps.append(self.pattern())
                if self.peek() == ",": self.eat(",")
            self.eat(")")
            return ("ptuple", ps)
        if v == "_":
            self.eat("_")
            return ("pwild",)
        if v in ("true", "false"):
            self.eat()
            return ("pbool", v == "true")
        if self.kind() == "num":
            return ("plit", int(re.sub(r"[_a-z].*", "", self.eat().replace("_", ""))))
        if v == "mut":
            self.eat("mut")
            return ("pid", self.ident(), True)
        if self.kind() == "id":
            path = [self.ident()]
            while self.peek() == "::":
                self.eat("::"); path.append(self.ident())
            if self.peek() == "{":
                self.eat("{")
                fields, rest = [], False
                while self.peek() != "}":
                    if self.peek() == "..":
                        self.eat(".."); rest = True
                    else:
                        fields.append(self.ident())
                    if self.peek() == ",": self.eat(",")
                self.eat("}")
                return ("pstruct", path, fields, rest)
            if self.peek() == "(":
                self.eat("(")
                ps = []
                while self.peek() != ")":
                    ps.append(self.pattern())
                    if self.peek() == ",": self.eat(",")
                self.eat(")")
                return ("pctor", path, ps)
            if len(path) == 1 and path[0] not in ("None",):
                return ("pid", path[0], False)
            return ("pctor", path, [])
        raise Unparsed("pattern at %r" % v)

    def ident(self):
        if self.kind() != "id":
            raise Unparsed("identifier expected, got %r" % self.peek())
        return self.eat()

    # ---- expressions (Rust precedence)
    def expr(self, nostruct=False):
        return self.range_(nostruct)

    def range_(self, ns):
        if self.peek() == ".." and self.peek(1) in (")", "]", ","):
            self.eat("..")
            return ("rangefull",)
        a = self.oror(ns)
        if self.peek() in ("..", "..="):
            op = self.eat()
            b = self.oror(ns)
            return ("range", op, a, b)
        return a

    def oror(self, ns):
        a = self.andand(ns)
        while self.peek() == "||":
            self.eat(); a = ("bin", "||", a, self.andand(ns))
        return a

    def andand(self, ns):
        a = self.cmp(ns)
        while self.peek() == "&&":
            self.eat(); a = ("bin", "&&", a, self.cmp(ns))
        return a

    def cmp(self, ns):
        a = self.add(ns)
        if self.peek() in ("==", "!=", "<", ">", "<=", ">="):
            op = self.eat()
            b = self.add(ns)
            if self.peek() in ("==", "!=", "<", ">", "<=", ">="):
                raise Unparsed("chained comparison")
            return ("bin", op, a, b)
        return a

    def add(self, ns):
        a = self.mul(ns)
        while self.peek() in ("+", "-"):
            op = self.eat(); a = ("bin", op, a, self.mul(ns))
        return a

    def mul(self, ns):
        a = self.unary(ns)
        while self.peek() in ("*", "/", "%"):
            op = self.eat(); a = ("bin", op, a, self.unary(ns))
        return a

    def unary(self, ns):
        v = self.peek()
        if v == "*":
            self.eat(); return ("deref", self.unary(ns))
        if v == "&":
            self.eat()
            if self.peek() == "mut": self.eat()
            return ("ref", self.unary(ns))
        if v == "&&":
            self.eat()
            return ("ref", ("ref", self.unary(ns)))
        if v in ("!", "-"):
            self.eat(); return ("unop", v, self.unary(ns))
        return self.postfix(ns)

    def postfix(self, ns):
        e = self.atom(ns)
        while True:
            v = self.peek()
            if v == ".":
                self.eat(".")
                if self.kind() == "num":
                    e = ("field", e, self.eat())
                    continue
                name = self.ident()
                if self.peek() == "::":
                    raise Unparsed("turbofish")
                if self.peek() == "(":
                    e = ("mcall", e, name, self.args())
                else:
                    e = ("field", e, name)
            elif v == "(":
                e = ("call", e, self.args())
            elif v == "?":
                self.eat("?")
                e = ("try", e)
            elif v == "as":
                raise Unparsed("`as` cast")
            elif v == "[":
                raise Unparsed("index expression")
            else:
                return e

    def args(self):
        self.eat("(")
        a = []
        while self.peek() != ")":
            a.append(self.expr())
            if self.peek() == ",": self.eat(",")
        self.eat(")")
        return a

    def atom(self, ns):
        v, k = self.peek(), self.kind()
        if k == "num":
            self.eat()
            return ("num", int(re.sub(r"[a-z].*", "", v.replace("_", ""))))
        if v == "(":
            self.eat("(")
            es, trailing = [], False
            while self.peek() != ")":
                es.append(self.expr())
                trailing = False
                if self.peek() == ",":
                    self.eat(","); trailing = True
            self.eat(")")
            if len(es) == 1 and not trailing:
                return ("paren", es[0])
            return ("tuple", es)
        if v == "[":
            self.eat("[")
            es = []
            while self.peek() != "]":
                es.append(self.expr())
                if self.peek() == ",": self.eat(",")
                elif self.peek() == ";": raise Unparsed("array repeat expression")
            self.eat("]")
            return ("array", es)
        if v == "unsafe":
            self.eat("unsafe")
            return ("unsafe", self.block())
        if v == "{":
            return self.block()
        if v == "if":
            self.eat("if")
            if self.peek() == "let":
                self.eat("let")
                pat = self.pattern()
                self.eat("=")
                scrut = self.expr(nostruct=True)
                b = self.block()
                els = None
                if self.peek() == "else":
                    self.eat("else"); els = self.block()
                return ("iflet", pat, scrut, b, els)
            c = self.expr(nostruct=True)
            b = self.block()
            els = None
            if self.peek() == "else":
                self.eat("else")
                els = self.atom(ns) if self.peek() == "if" else self.block()
            return ("if", c, b, els)
        if v == "match":
            self.eat("match")
            scrut = self.expr(nostruct=True)
            self.eat("{")
            arms = []
            while self.peek() != "}":
                self.skip_attrs()
                pat = self.pattern()
                if self.peek() in ("|", "if"):
                    raise Unparsed("or-pattern / match guard")
                self.eat("=>")
                # an arm whose body is a block ends at the closing brace (no `(..)` / operator continues it)
                body = self.block() if self.peek() == "{" else self.expr()
                if self.peek() == ",": self.eat(",")
                arms.append((pat, body))
            self.eat("}")
            return ("match", scrut, arms)
        if v == "<" and self.peek(1) == "_" and self.peek(2) == ">" and self.peek(3) == "::":
            self.eat("<"); self.eat("_"); self.eat(">"); self.eat("::")
            name = self.ident()
            if name != "default" or self.args():
                raise Unparsed("`<_>::%s`" % name)
            return ("hasher",)
        if v in ("|", "||"):
            params = []
            if v == "||":
                self.eat("||")
            else:
                self.eat("|")
                while self.peek() != "|":
                    params.append(self.pattern())
                    if self.peek() == ":": raise Unparsed("typed closure parameter")
                    if self.peek() == ",": self.eat(",")
                self.eat("|")
            return ("closure", params, self.expr())
        if v == "move" and self.peek(1) in ("|", "||"):
            self.eat("move")
            return self.atom(ns)
        if k == "id":
            if v in ("while", "for", "loop", "let", "return", "break", "continue", "fn", "as", "mut", "ref"):
                raise Unparsed("keyword `%s` in expression position" % v)
            path = [self.eat()]
            while self.peek() == "::":
                self.eat("::")
                if self.peek() == "<": raise Unparsed("generic path")
                path.append(self.ident())
            if self.peek() == "{" and not ns and path[-1][0].isupper():
                self.eat("{")
                fields = []
                while self.peek() != "}":
                    name = self.ident()
                    if self.peek() == ":":
                        self.eat(":"); val = self.expr()
                    else:
                        val = ("path", [name])
                    fields.append((name, val))
                    if self.peek() == ",": self.eat(",")
                self.eat("}")
                return ("struct", path, fields)
            if self.peek() == "!":
                raise Unparsed("macro invocation")
            return ("path", path)
        raise Unparsed("unexpected token %r" % v)


# the `use` declarations inside the bodies of the translated functions, as they are today (token-exact)
MUTABLE_KEYS = "use indexmap :: map :: MutableKeys"
ENTRY_GLOB = "use indexmap :: map :: Entry :: *"
BODY_USES = {"pqPeekMut": [MUTABLE_KEYS], "dqPeekMinMut": [MUTABLE_KEYS], "dqPeekMaxMut": [MUTABLE_KEYS],
             "pqPush": [ENTRY_GLOB], "dqPush": [ENTRY_GLOB],
             "pqIterMutNext": [MUTABLE_KEYS], "dqIterMutNext": [MUTABLE_KEYS], "dqIterMutNextBack": [MUTABLE_KEYS]}


def parse_fn_body(btoks, fnid=None):
    Parser.uses = []
    p = Parser(btoks)
    b = p.block()
    if p.i != len(btoks):
        raise Unparsed("trailing tokens after the function body")
    if Parser.uses != BODY_USES.get(fnid, []):
        raise Unparsed("the `use` declarations inside the body are %s, expected %s (a body-level `use` can rebind any name)"
                       % (json.dumps(Parser.uses), json.dumps(BODY_USES.get(fnid, []))))
    return b


# ----------------------------------------------------------------------------------------------------
# the functions, their Lean names and their fault-site tables
# ----------------------------------------------------------------------------------------------------
# (FnId, file, rust name, owner, return kind, site table).  The site table lists, in evaluation order, the
# fault-carrying primitives of the function (after inlining the `Hole` methods) with the site number the
# hand-written model uses for the same access.  Kinds: getU (get_unchecked), setU (*get_unchecked_mut = ),
# unwrap, arith (checked `-`, incl. the one inside `parent`), swapC (Vec::swap), swapRemoveC (Vec::swap_remove).
# Sites 29x / 39x do not occur in the hand model: the equivalence theorems show they never fire.
FUNCS = [
    ("storeSwap", STORE_RS, "swap", "store",
     [("getU", 101), ("getU", 102), ("swapC", 103), ("swapC", 104)]),
    ("storePrioAt", STORE_RS, "get_priority_from_position", "store",
     [("getU", 105), ("unwrap", 106)]),
    ("storeSwapRemove", STORE_RS, "swap_remove", "store",
     [("swapRemoveC", 107), ("arith", 108), ("getU", 109), ("setU", 110), ("swapRemoveC", 111), ("getU", 112),
      ("setU", 113)]),
    ("storeRemove", STORE_RS, "remove", "store",
     [("arith", 118), ("swapRemoveC", 119), ("swapRemoveC", 120), ("getU", 121), ("setU", 122), ("setU", 123),
      ("getU", 124), ("setU", 125), ("setU", 126)]),
    ("pqHeapify", PQ_RS, "heapify", "pq", []),
    ("pqBubbleUp", PQ_RS, "bubble_up", "pq",
     [("unwrap", 204), ("arith", 291), ("getU", 105), ("unwrap", 106), ("setU", 202), ("setU", 203),
      ("setU", 205), ("setU", 206)]),
    ("pqUpHeapify", PQ_RS, "up_heapify", "pq", [("getU", 207)]),
    ("pqHeapBuild", PQ_RS, "heap_build", "pq", [("arith", 208)]),
    ("dqHeapify", DQ_RS, "heapify", "dq", []),
    ("dqHeapifyMin", DQ_RS, "heapify_min", "dq",
     [("arith", 301), ("arith", 302), ("unwrap", 303), ("unwrap", 304), ("arith", 305)]),
    ("dqHeapifyMax", DQ_RS, "heapify_max", "dq",
     [("arith", 306), ("arith", 307), ("unwrap", 303), ("unwrap", 308), ("arith", 309)]),
    ("dqBubbleUp", DQ_RS, "bubble_up", "dq",
     [("unwrap", 310), ("arith", 391), ("getU", 105), ("unwrap", 106), ("setU", 312), ("setU", 313),
      ("setU", 314), ("setU", 315), ("setU", 316), ("setU", 317)]),
    ("dqBubbleUpMin", DQ_RS, "bubble_up_min", "dq",
     [("arith", 392), ("arith", 393), ("arith", 394), ("getU", 105), ("unwrap", 106), ("setU", 321), ("setU", 322)]),
    ("dqBubbleUpMax", DQ_RS, "bubble_up_max", "dq",
     [("arith", 395), ("arith", 396), ("arith", 397), ("getU", 105), ("unwrap", 106), ("setU", 324), ("setU", 325)]),
    ("dqUpHeapify", DQ_RS, "up_heapify", "dq", []),
    ("dqHeapBuild", DQ_RS, "heap_build", "dq", [("arith", 326)]),
    ("dqFindMax", DQ_RS, "find_max", "dq", [("unwrap", 398)]),
    ("dqFindMin", DQ_RS, "find_min", "dq", []),
    ("pqPush", PQ_RS, "push", "pq", [("getU", 210)]),
    ("dqPush", DQ_RS, "push", "dq", [("getU", 331)]),
    ("pqChangePriority", PQ_RS, "change_priority", "pq", []),
    ("dqChangePriority", DQ_RS, "change_priority", "dq", []),
    ("pqChangePriorityBy", PQ_RS, "change_priority_by", "pq", []),
    ("dqChangePriorityBy", DQ_RS, "change_priority_by", "dq", []),
    ("pqPushIncrease", PQ_RS, "push_increase", "pq", []),
    ("pqPushDecrease", PQ_RS, "push_decrease", "pq", []),
    ("dqPushIncrease", DQ_RS, "push_increase", "dq", []),
    ("dqPushDecrease", DQ_RS, "push_decrease", "dq", []),
    ("pqPopIf", PQ_RS, "pop_if", "pq", []),
    ("dqPopMinIf", DQ_RS, "pop_min_if", "dq", []),
    ("dqPopMaxIf", DQ_RS, "pop_max_if", "dq", []),
    ("pqPeek", PQ_RS, "peek", "pq", []),
    ("dqPeekMin", DQ_RS, "peek_min", "dq", [("getU", 327)]),
    ("dqPeekMax", DQ_RS, "peek_max", "dq", [("getU", 328)]),
    ("pqPeekMut", PQ_RS, "peek_mut", "pq", [("getU", 209)]),
    ("dqPeekMinMut", DQ_RS, "peek_min_mut", "dq", [("getU", 329)]),
    ("dqPeekMaxMut", DQ_RS, "peek_max_mut", "dq", [("getU", 330)]),
    ("pqRetainMut", PQ_RS, "retain_mut", "pq", []),
    ("dqRetainMut", DQ_RS, "retain_mut", "dq", []),
    ("pqRetain", PQ_RS, "retain", "pq", []),
    ("dqRetain", DQ_RS, "retain", "dq", []),
    ("pqAppend", PQ_RS, "append", "pq", []),
    ("dqAppend", DQ_RS, "append", "dq", []),
    ("pqExtend", PQ_RS, "extend", "pq", []),
    ("dqExtend", DQ_RS, "extend", "dq", []),
    ("pqFromVec", PQ_RS, "from", "pq", [], "Vec"),
    ("dqFromVec", DQ_RS, "from", "dq", [], "Vec"),
    ("pqFromQueue", PQ_RS, "from", "pq", [], "DoublePriorityQueue"),
    ("dqFromQueue", DQ_RS, "from", "dq", [], "PriorityQueue"),
    ("pqFromIter", PQ_RS, "from_iter", "pq", []),
    ("dqFromIter", DQ_RS, "from_iter", "dq", []),
    ("pqDeserialize", PQ_RS, "deserialize", "pq", []),
    ("dqDeserialize", DQ_RS, "deserialize", "dq", []),
    ("storeFromVec", STORE_RS, "from", "ctor", []),
    ("storeFromIter", STORE_RS, "from_iter", "ctor", [("unwrap", 191)]),
    ("storeExtend", STORE_RS, "extend", "store", [("unwrap", 192)]),
    ("storeVisitSeq", STORE_RS, "visit_seq", "ctor", []),
    ("storeRetain", STORE_RS, "retain", "store", []),
    ("storeClear", STORE_RS, "clear", "store", []),
    ("storeDrain", STORE_RS, "drain", "store", []),
    ("storeRetainMut", STORE_RS, "retain_mut", "store", []),
    ("storeAppend", STORE_RS, "append", "store", []),
    ("storeSwapRemoveIf", STORE_RS, "swap_remove_if", "store", [("getU", 114), ("unwrap", 115)]),
    ("storeChangePriority", STORE_RS, "change_priority", "store", [("getU", 116)]),
    ("storeChangePriorityBy", STORE_RS, "change_priority_by", "store", [("getU", 117)]),
    ("pqPop", PQ_RS, "pop", "pq", []),
    ("pqRemove", PQ_RS, "remove", "pq", []),
    ("dqPopMin", DQ_RS, "pop_min", "dq", []),
    ("dqPopMax", DQ_RS, "pop_max", "dq", []),
    ("dqRemove", DQ_RS, "remove", "dq", []),
]
# every constructor of `Src.FnId`, in the order of PQ/Model/Src.lean (functions not (yet) translated are `none`)
ALL_FNIDS = ["storeSwap", "storePrioAt", "storeSwapRemove", "storeRemove",
             "pqHeapify", "pqBubbleUp", "pqUpHeapify", "pqHeapBuild",
             "dqHeapify", "dqHeapifyMin", "dqHeapifyMax", "dqBubbleUp", "dqBubbleUpMin", "dqBubbleUpMax",
             "dqUpHeapify", "dqHeapBuild", "dqFindMax",
             "dqFindMin", "pqPop", "pqRemove", "dqPopMin", "dqPopMax", "dqRemove",
             "storeClear", "storeDrain", "storeRetainMut", "storeAppend", "storeSwapRemoveIf", "storeChangePriority",
             "storeChangePriorityBy",
             "pqPush", "dqPush", "pqChangePriority", "dqChangePriority", "pqChangePriorityBy", "dqChangePriorityBy",
             "pqPushIncrease", "pqPushDecrease", "dqPushIncrease", "dqPushDecrease",
             "pqPopIf", "dqPopMinIf", "dqPopMaxIf", "pqPeek", "dqPeekMin", "dqPeekMax", "pqPeekMut", "dqPeekMinMut",
             "dqPeekMaxMut",
             "storeFromVec", "storeFromIter", "storeExtend", "storeVisitSeq",
             "pqExtend", "dqExtend", "pqAppend", "dqAppend", "pqRetainMut", "dqRetainMut", "pqRetain", "dqRetain",
             "storeRetain", "pqFromVec", "dqFromVec", "pqFromIter", "dqFromIter", "pqFromQueue", "dqFromQueue",
             "pqDeserialize", "dqDeserialize",
             "pqIterMutNext", "pqIterMutNextBack", "pqIterMutLen", "pqIterMutSizeHint", "pqIterMutDrop",
             "dqIterMutNext", "dqIterMutNextBack", "dqIterMutLen", "dqIterMutSizeHint", "dqIterMutDrop",
             "pqIterMutNew", "dqIterMutNew",
             "pqSortedNext", "dqSortedNext", "dqSortedNextBack", "dqSortedLen", "dqSortedSizeHint",
             "drainNext", "drainNextBack", "drainLen", "drainSizeHint",
             "iterNext", "iterNextBack", "iterLen", "iterSizeHint",
             "intoIterNext", "intoIterNextBack", "intoIterLen", "intoIterSizeHint",
             "storeIntoVec", "pqIntoVec", "dqIntoVec", "pqIntoSortedVec", "dqIntoAscVec", "dqIntoDescVec",
             "storeEq", "storeSerialize"]
# methods the source does not define (the trait's default / not implemented): `none` in the generated table, by design
NOT_IN_SOURCE = {"pqIterMutNextBack": "`priority_queue::IterMut` does not implement `DoubleEndedIterator`",
                 "pqIterMutLen": "`priority_queue::IterMut` does not implement `ExactSizeIterator`",
                 "pqIterMutSizeHint": "`priority_queue::IterMut` keeps the default `size_hint`"}
HOLE_METHODS = ["new", "index_at", "move_from", "drop"]
# methods of the queue (`self.m(..)`) / of the store (`self.store.m(..)`) that are calls of translated functions
QUEUE_CALLS = {"pq": {"heapify": "pqHeapify", "bubble_up": "pqBubbleUp", "up_heapify": "pqUpHeapify",
                      "heap_build": "pqHeapBuild", "push": "pqPush"},
               "dq": {"heapify": "dqHeapify", "heapify_min": "dqHeapifyMin", "heapify_max": "dqHeapifyMax",
                      "bubble_up": "dqBubbleUp", "up_heapify": "dqUpHeapify", "heap_build": "dqHeapBuild",
                      "find_max": "dqFindMax", "find_min": "dqFindMin", "push": "dqPush"}}
STORE_CALLS = {"swap": "storeSwap", "swap_remove": "storeSwapRemove", "remove": "storeRemove",
               "swap_remove_if": "storeSwapRemoveIf", "retain_mut": "storeRetainMut", "retain": "storeRetain",
               "extend": "storeExtend"}
# associated functions `Store::f(x)` that construct the store from an input
STORE_CTORS = {"from": ("storeFromVec", "S"), "from_iter": ("storeFromIter", "IT"), "deserialize": ("storeVisitSeq", "SEQ")}
# return kinds of the callable functions: N = usize/Position/Index, U = (), P = &P
# associated functions taking `hole: &mut Hole` (called as `Self::f(map, &mut hole, priority)`): in the IR the hole is passed
# as its two `usize` fields and the new `hole.position` is returned
HOLE_FNS = {"dq": {"bubble_up_min": "dqBubbleUpMin", "bubble_up_max": "dqBubbleUpMax"}}
RET_KIND = {"storeSwap": "U", "storePrioAt": "P", "pqHeapify": "U", "pqBubbleUp": "N", "pqUpHeapify": "U",
            "pqHeapBuild": "U", "dqHeapify": "U", "dqHeapifyMin": "U", "dqHeapifyMax": "U", "dqBubbleUp": "N",
            "dqUpHeapify": "U", "dqHeapBuild": "U", "storeSwapRemove": "E", "storeRemove": "R",
            "dqFindMax": "ON", "dqFindMin": "ON", "storeSwapRemoveIf": "E", "pqPush": "OP", "dqPush": "OP",
            "storeRetainMut": "U", "storeRetain": "U", "storeExtend": "U"}


# ----------------------------------------------------------------------------------------------------
# lowering: AST -> IR (Python tuples), then printing as Lean terms
# ----------------------------------------------------------------------------------------------------

def strip(e):
    """erase parentheses, `&`, `&mut`, `*` and `unsafe { e }` / `{ e }` around an expression"""
    while True:
        if e[0] in ("paren", "ref", "deref"):
            e = e[1]
        elif e[0] == "unsafe" and not e[1][1] and e[1][2] is not None:
            e = e[1][2]
        elif e[0] == "block" and not e[1] and e[2] is not None:
            e = e[2]
        else:
            return e


class Lower:
    def __init__(self, fnid, owner, sites, sources):
        self.fnid, self.owner = fnid, owner
        self.sites, self.site_i = sites, 0
        self.sources = sources                  # file -> token list
        self.vars = []                          # id -> (name, kind)
        self.scopes = [{}]
        self.loops = []                         # (name, cond, body)
        self.live_holes = []                    # by-value holes of the function's top scope
        self.byref_hole = None                  # register of `hole.position` of a `&mut Hole` parameter
        self.other_reg = None                   # value register of an `other: &mut Self` parameter
        self.ret_kind = None
        self.hole_created = False
        self.unwind_code = []                   # `Drop` code of the guards this frame owns (run on unwinding)

    # ---- bookkeeping
    def site(self, kind):
        if self.site_i >= len(self.sites):
            raise Unparsed("more fault-carrying accesses than the site table of %s lists (next: %s)" % (self.fnid, kind))
        k, s = self.sites[self.site_i]
        if k != kind:
            raise Unparsed("access #%d of %s is `%s`, the site table expects `%s`" % (self.site_i + 1, self.fnid, kind, k))
        self.site_i += 1
        return s

    def fresh(self, name, kind):
        self.vars.append((name, kind))
        return len(self.vars) - 1

    def bind(self, name, b):
        self.scopes[-1][name] = b

    def lookup(self, name):
        for sc in reversed(self.scopes):
            if name in sc:
                return sc[name]
        return None

    # ---- places (`self.store.heap`, aliases of it, fields of a hole)
    def place(self, e):
        e = strip(e)
        if e[0] == "path" and len(e[1]) == 1:
            b = self.lookup(e[1][0])
            if b and b[0] == "place":
                return b[1]
            return None
        if e[0] == "field":
            base = strip(e[1])
            if base[0] == "path" and len(base[1]) == 1:
                b = self.lookup(base[1][0])
                if b and b[0] == "hole":
                    f = b[1].get(e[2])
                    return f[1] if f and f[0] == "place" else None
            p = self.place(base)
            if p == "QUEUE" and e[2] == "store":
                return "STORE"
            if p == "STORE" and e[2] in ("heap", "qp", "map"):
                return e[2].upper()
        return None

    def hole_of(self, e):
        e = strip(e)
        if e[0] == "path" and len(e[1]) == 1:
            b = self.lookup(e[1][0])
            if b and b[0] == "hole":
                return b
        return None

    # ---- kinds
    def is_mapprio(self, e):
        """`MAP.get_index(a).unwrap().1` -> a"""
        if e[0] == "field" and e[2] == "1":
            u = strip(e[1])
            if u[0] == "mcall" and u[2] == "unwrap" and not u[3]:
                g = strip(u[1])
                if g[0] == "mcall" and g[2] == "get_index" and len(g[3]) == 1 and self.place(g[1]) == "MAP":
                    return g[3][0]
        return None

    def kind(self, e):
        e = strip(e)
        if e[0] == "path" and len(e[1]) == 1:
            b = self.lookup(e[1][0])
            if b and b[0] in ("N", "P"):
                return b[0]
            if b and b[0] in ("mutref", "const"):
                return "N"
            if b and b[0] in ("V", "I", "slotI", "slotP", "S", "IT", "SEQ", "B"):
                return b[0]
            return None
        if self.is_mapprio(e) is not None:
            return "P"
        if e[0] == "mcall" and e[2] == "get_priority_from_position":
            return "P"
        return "N"

    # ---- usize expressions
    def n(self, e):
        e = strip(e)
        t = e[0]
        if t == "num":
            return ("lit", e[1])
        if t == "path":
            if len(e[1]) == 1:
                b = self.lookup(e[1][0])
                if b and b[0] == "N":
                    return ("var", b[1])
                if b and b[0] == "const":
                    return ("lit", b[1])
                if b and b[0] == "mutref":          # reading through `let x = v.get_unchecked_mut(i)`
                    return ("var", b[3])
            raise Unparsed("`%s` is not a usize variable in scope" % "::".join(e[1]))
        if t == "field":
            h = self.hole_of(e[1])
            if h is not None:
                f = h[1].get(e[2])
                if f and f[0] == "N":
                    return ("var", f[1])
                raise Unparsed("hole field `%s`" % e[2])
            if e[2] == "0":
                return self.n(e[1])                                   # newtype erasure
            if e[2] == "size" and self.place(e[1]) == "STORE":
                return ("len",)
            ob = strip(e[1])
            if e[2] == "size" and ob[0] == "path" and len(ob[1]) == 1 and (self.lookup(ob[1][0]) or ("",))[0] == "other":
                return ("otherSize", self.lookup(ob[1][0])[1])
            raise Unparsed("field `.%s`" % e[2])
        if t == "call":
            f = e[1]
            if f[0] != "path":
                raise Unparsed("call of a non-path")
            name = "::".join(f[1])
            if self.lookup(name) is not None:
                raise Unparsed("call of the local `%s`" % name)
            if name in ("Position", "Index") and len(e[2]) == 1:
                return self.n(e[2][0])
            if name in ("left", "right", "level") and len(e[2]) == 1:
                return (name, self.n(e[2][0]))
            if name == "parent" and len(e[2]) == 1:
                a = self.n(e[2][0])
                return ("parent", self.site("arith"), a)
            raise Unparsed("call of `%s`" % name)
        if t == "bin" and e[1] in ("+", "*", "/", "%", "-"):
            a = self.n(e[2]); b = self.n(e[3])
            if e[1] == "-":
                return ("sub", self.site("arith"), a, b)
            if e[1] in ("/", "%") and not (b[0] == "lit" and b[1] > 0):
                raise Unparsed("`/` or `%` by something that is not a positive literal")
            return ({"+": "add", "*": "mul", "/": "div", "%": "mod"}[e[1]], a, b)
        if t == "mcall":
            recv, name, args = e[1], e[2], e[3]
            p = self.place(recv)
            if name == "len" and not args and p in ("QUEUE", "STORE"):
                return ("len",)
            if name == "len" and not args and p == "MAP":
                return ("mapLen",)
            rb0 = strip(recv)
            if name == "len" and not args and rb0[0] == "path" and len(rb0[1]) == 1 \
                    and (self.lookup(rb0[1][0]) or ("",))[0] == "S":
                return ("entriesLen", self.lookup(rb0[1][0])[1])
            if name == "min" and len(args) == 1 and self.kind(recv) == "N":
                a = self.n(recv); b = self.n(args[0])
                return ("min", a, b)
            if name == "get_unchecked" and len(args) == 1 and p in ("HEAP", "QP"):
                a = self.n(args[0])
                return ("heapGetU" if p == "HEAP" else "qpGetU", self.site("getU"), a)
            rb = strip(recv)
            if name == "index" and not args and rb[0] == "path" and len(rb[1]) == 1 \
                    and (self.lookup(rb[1][0]) or ("",))[0] == "occ":
                return ("var", self.lookup(rb[1][0])[1])
            h = self.hole_of(recv)
            if h is not None and name == "index_at":
                return self.inline_hole_method(h, name, args, "N")
            raise Unparsed("method `.%s(..)` in a usize expression" % name)
        raise Unparsed("usize expression of form `%s`" % t)

    def pure_n(self, x):
        """an IR usize expression that cannot fault"""
        return x[0] in ("lit", "var", "len", "mapLen", "otherSize", "entriesLen") or (x[0] in ("left", "right", "level") and self.pure_n(x[1])) \
            or (x[0] in ("add", "mul", "div", "mod", "min") and self.pure_n(x[1]) and self.pure_n(x[2])) \
            or x[0] == "iterLo"

    # ---- priority expressions
    def p(self, e):
        e = strip(e)
        if e[0] == "path" and len(e[1]) == 1:
            b = self.lookup(e[1][0])
            if b and b[0] == "P":
                return ("pvar", b[1])
            raise Unparsed("`%s` is not a priority variable in scope" % e[1][0])
        a = self.is_mapprio(e)
        if a is not None:
            x = self.n(a)
            return ("mapPrio", self.site("unwrap"), x)
        if e[0] == "mcall" and e[2] == "get_priority_from_position" and len(e[3]) == 1 and self.place(e[1]) == "STORE":
            return ("pcall", "storePrioAt", [self.n(e[3][0])])
        raise Unparsed("priority expression of form `%s`" % e[0])

    # ---- boolean expressions
    def b(self, e):
        e = strip(e)
        if e[0] == "path" and e[1] in (["true"], ["false"]):
            return ("tt",) if e[1] == ["true"] else ("ff",)
        if e[0] == "bin" and e[1] == "&&":
            x = self.b(e[2]); y = self.b(e[3])
            return ("and", x, y)
        if e[0] == "bin" and e[1] in ("<", ">", "<=", ">=", "==", "!="):
            ka, kb = self.kind(e[2]), self.kind(e[3])
            if ka == "P" and kb == "P":
                if e[1] not in ("<", ">"):
                    raise Unparsed("`%s` between priorities" % e[1])
                x = self.p(e[2]); y = self.p(e[3])
                return ("ltP" if e[1] == "<" else "gtP", x, y)
            if ka == "N" and kb == "N":
                x = self.n(e[2]); y = self.n(e[3])
                return ({"<": "ltN", ">": "gtN", "<=": "leN", ">=": "geN", "==": "eqN", "!=": "neN"}[e[1]], x, y)
            raise Unparsed("comparison between a priority and a non-priority")
        if e[0] == "call" and e[1][0] == "path" and len(e[1][1]) == 1 and len(e[2]) == 2:
            fb = self.lookup(e[1][1][0])
            a0, a1 = strip(e[2][0]), strip(e[2][1])
            if fb and fb[0] == "V":
                if a0[0] == "path" and a1[0] == "path" and len(a0[1]) == 1 and len(a1[1]) == 1:
                    b0, b1 = self.lookup(a0[1][0]), self.lookup(a1[1][0])
                    if b0 and b1 and b0[0] == "slotI" and b1[0] == "slotP" and b0[1] == b1[1]:
                        return ("predAt", fb[1], b0[1])
                raise Unparsed("call of a closure that is not `f(i, p)` on an entry `(i, p)` of the map")
        if e[0] == "mcall" and e[2] == "map_or" and len(e[3]) == 2 and strip(e[3][0]) == ("path", ["true"]) \
                and e[3][1][0] == "closure":
            g, clo = strip(e[1]), e[3][1]
            if g[0] == "mcall" and g[2] == "get_priority" and len(g[3]) == 1 and self.place(g[1]) == "QUEUE" \
                    and len(clo[1]) == 1 and clo[1][0][0] == "pid":
                a = strip(g[3][0])
                ib = self.lookup(a[1][0]) if a[0] == "path" and len(a[1]) == 1 else None
                c = strip(clo[2])
                if ib and ib[0] == "I" and c[0] == "bin" and c[1] in ("<", ">") and c[3][0] == "deref" \
                        and strip(c[3]) == ("path", [clo[1][0][1]]) and self.kind(c[2]) == "P":
                    return ("prioMapOrGt" if c[1] == ">" else "prioMapOrLt", ib[1], self.p(c[2]))
            raise Unparsed("`map_or` that is not `self.get_priority(&item).map_or(true, |p| priority <> *p)`")
        if e[0] == "unop" and e[1] == "!":
            return ("not", self.b(e[2]))
        if e[0] == "mcall" and e[2] == "contains_key" and len(e[3]) == 1 and self.place(e[1]) == "MAP":
            a = strip(e[3][0])
            ib = self.lookup(a[1][0]) if a[0] == "path" and len(a[1]) == 1 else None
            if ib and ib[0] == "I":
                return ("containsKey", ib[1])
            raise Unparsed("`contains_key` of something that is not an item variable")
        if e[0] == "mcall" and e[2] == "is_none" and not e[3]:
            g = strip(e[1])
            if g[0] == "mcall" and g[2] == "insert" and len(g[3]) == 2 and self.place(g[1]) == "MAP":
                a = strip(g[3][0])
                ib = self.lookup(a[1][0]) if a[0] == "path" and len(a[1]) == 1 else None
                if ib and ib[0] == "I" and self.kind(g[3][1]) == "P":
                    return ("mapInsertIsNone", ib[1], self.p(g[3][1]))
            raise Unparsed("`is_none()` that is not `map.insert(item, priority).is_none()`")
        if e[0] == "call" and e[1] == ("path", ["better_to_rebuild"]) and len(e[2]) == 2:
            a = self.n(e[2][0]); b = self.n(e[2][1])
            return ("betterToRebuild", a, b)
        if e[0] == "path" and len(e[1]) == 1 and (self.lookup(e[1][0]) or ("",))[0] == "B":
            return ("neN", ("var", self.lookup(e[1][0])[1]), ("lit", 0))
        if e[0] == "mcall" and e[2] == "is_some" and not e[3]:
            r = strip(e[1])
            if r[0] == "path" and len(r[1]) == 1 and (self.lookup(r[1][0]) or ("",))[0] == "V":
                return ("isSomeV", self.lookup(r[1][0])[1])
            raise Unparsed("`is_some()` of something that is not an optional priority variable")
        if e[0] == "mcall" and e[2] == "is_empty" and not e[3] and self.place(e[1]) in ("QUEUE", "STORE"):
            return ("eqN", ("len",), ("lit", 0))
        raise Unparsed("boolean expression of form `%s`" % (e[1] if e[0] == "bin" else e[0]))

    # ---- Hole
    def hole_fn(self, name):
        fs = find_fns(self.sources[STORE_RS], name)
        if len(fs) != 1:
            raise Unparsed("expected exactly one `fn %s` in store.rs (Hole), found %d" % (name, len(fs)))
        check_fn_context(self.sources[STORE_RS], fs[0][3], None, "`Hole::%s`" % name)
        return fs[0][0], parse_fn_body(fs[0][2])

    def simple_arg(self, a):
        """the binding an argument of an inlined method denotes: a place, a hole field or a plain variable"""
        pl = self.place(a)
        if pl is not None:
            return ("place", pl)
        k = self.kind(a)
        if k == "P":
            x = self.p(a)
            if x[0] == "pvar":
                return ("P", x[1])
        elif k == "N":
            x = self.n(a)
            if x[0] == "var":
                return ("N", x[1])
        raise Unparsed("argument of an inlined `Hole` method is not a plain variable")

    def new_hole(self, args):
        params, body = self.hole_fn("new")
        if len(params) != len(args) or body[1] or body[2] is None or body[2][0] != "struct" or body[2][1] != ["Hole"]:
            raise Unparsed("`Hole::new` is not a plain constructor")
        argb = {}
        for (pn, _), a in zip(params, args):
            argb[pn] = self.simple_arg(a)
        fields, code = {}, []
        for fname, fe in body[2][2]:
            fe = strip(fe)
            if fe[0] != "path" or len(fe[1]) != 1 or fe[1][0] not in argb:
                raise Unparsed("`Hole::new`: field `%s` is not initialised from a parameter" % fname)
            b = argb[fe[1][0]]
            if b[0] == "place":
                fields[fname] = b
            elif b[0] == "N":
                v = self.fresh("hole." + fname, "N")
                code.append(("setN", v, ("var", b[1])))
                fields[fname] = ("N", v)
            else:
                raise Unparsed("`Hole::new`: priority-valued field")
        if fields.get("heap") != ("place", "HEAP") or fields.get("qp") != ("place", "QP") \
                or fields.get("position", ("",))[0] != "N" or fields.get("map_position", ("",))[0] != "N":
            raise Unparsed("`Hole::new`: not a hole over (heap, qp) with a position and a map position")
        return ("hole", fields), code

    def inline_hole_method(self, hole, name, args, want):
        params, body = self.hole_fn(name)
        if not params or params[0][0] != "self" or len(params) - 1 != len(args):
            raise Unparsed("`Hole::%s`: unexpected parameter list" % name)
        sc = {"self": hole}
        for (pn, _), a in zip(params[1:], args):
            sc[pn] = self.simple_arg(a)
        saved = self.scopes
        self.scopes = [sc]
        try:
            if want == "N":
                if body[1] or body[2] is None:
                    raise Unparsed("`Hole::%s` is not a single expression" % name)
                return self.n(body[2])
            return self.block_stmts(body, None)
        finally:
            self.scopes = saved

    def is_bool(self, e):
        e = strip(e)
        return e in (("path", ["true"]), ("path", ["false"])) or \
            (e[0] == "call" and e[1] == ("path", ["better_to_rebuild"])) or \
            (e[0] == "bin" and e[1] in ("<", ">", "<=", ">=", "==", "!=", "&&"))

    def store_ctor(self, e):
        """`Self::with_capacity_and_hasher(e, <_>::default())`, `Self::with_hasher(..)`, `Store::with_default_hasher()`, ... -> IR"""
        e = strip(e)
        if e[0] == "call" and e[1][0] == "path" and len(e[1][1]) == 2 and e[1][1][0] in ("Self", "Store") \
                and self.owner in ("ctor",):
            name, args = e[1][1][1], e[2]
            if name == "with_capacity_and_hasher" and len(args) == 2 and strip(args[1]) == ("hasher",):
                return [("storeNewCap", self.n(args[0]))]
            if name == "with_capacity_and_default_hasher" and len(args) == 1:
                return [("storeNewCap", self.n(args[0]))]
            if name == "with_hasher" and len(args) == 1 and strip(args[0]) == ("hasher",):
                return [("storeNew",)]
            if name == "with_default_hasher" and not args:
                return [("storeNew",)]
        return None

    def store_ctor_expr(self, e):
        """a store-valued expression: a constructor, `if c { ctor } else { ctor }`, `if let Some(n) = seq.size_hint() ..`"""
        c = self.store_ctor(e)
        if c is not None:
            return c
        if e[0] == "if" and e[3] is not None and e[2][0] == "block" and e[3][0] == "block" \
                and not e[2][1] and not e[3][1] and e[2][2] is not None and e[3][2] is not None:
            t, f = self.store_ctor(e[2][2]), self.store_ctor(e[3][2])
            if t is not None and f is not None:
                return [("ite", self.b(e[1]), t, f)]
        if e[0] == "iflet" and e[4] is not None and not e[3][1] and not e[4][1] and e[3][2] is not None \
                and e[4][2] is not None:
            pat, scrut = e[1], strip(e[2])
            sb = strip(scrut[1]) if scrut[0] == "mcall" else None
            if pat[0] == "pctor" and pat[1] == ["Some"] and len(pat[2]) == 1 and pat[2][0][0] == "pid" \
                    and scrut[0] == "mcall" and scrut[2] == "size_hint" and not scrut[3] and sb[0] == "path" \
                    and len(sb[1]) == 1 and (self.lookup(sb[1][0]) or ("",))[0] == "SEQ":
                self.scopes.append({})
                try:
                    v = self.fresh(pat[2][0][1], "N")
                    self.bind(pat[2][0][1], ("N", v))
                    t = self.store_ctor(e[3][2])
                finally:
                    self.scopes.pop()
                f = self.store_ctor(e[4][2])
                if t is not None and f is not None:
                    return [("ifSeqHint", self.lookup(sb[1][0])[1], v, t, f)]
        return None

    def split_args(self, args):
        """arguments of a call of a translated function: usize / priority / value (item, closure) arguments"""
        ns, ps, vs = [], [], []
        for a in args:
            k = self.kind(a)
            if k == "P":
                ps.append(self.p(a))
            elif k in ("V", "I", "S", "IT", "SEQ"):
                a0 = strip(a)
                vs.append(self.lookup(a0[1][0])[1])
            else:
                ns.append(self.n(a))
        return ns, ps, vs

    # ---- recognised idioms
    def minmax_idiom(self, e):
        """`*[c1, ..].iter().map_while(|i| HEAP.get(i.0).map(|index| (i, index)))
               .min_by_key(|(_, index)| MAP.get_index(index.0).map(|(_, priority)| priority).unwrap()).unwrap().0`
        -> ('firstMinBy' | 'lastMaxBy', candidates); None if `e` does not start like the idiom"""
        e = strip(e)
        if not (e[0] == "field" and e[2] == "0"):
            return None
        u = strip(e[1])
        if not (u[0] == "mcall" and u[2] == "unwrap" and not u[3]):
            return None
        mb = strip(u[1])
        if not (mb[0] == "mcall" and mb[2] in ("min_by_key", "max_by_key") and len(mb[3]) == 1):
            return None
        mw = strip(mb[1])
        if not (mw[0] == "mcall" and mw[2] == "map_while" and len(mw[3]) == 1):
            return None
        it = strip(mw[1])
        if not (it[0] == "mcall" and it[2] == "iter" and not it[3] and strip(it[1])[0] == "array"):
            return None
        # from here on the shape is binding: anything unexpected is an error, not "some other expression"
        c1, c2 = mw[3][0], mb[3][0]
        ok1 = False
        if c1[0] == "closure" and len(c1[1]) == 1 and c1[1][0][0] == "pid":
            x = c1[1][0][1]
            b = strip(c1[2])
            if b[0] == "mcall" and b[2] == "map" and len(b[3]) == 1:
                g, inner = strip(b[1]), b[3][0]
                if g[0] == "mcall" and g[2] == "get" and len(g[3]) == 1 and self.place(g[1]) == "HEAP" \
                        and strip(g[3][0]) == ("field", ("path", [x]), "0") \
                        and inner[0] == "closure" and len(inner[1]) == 1 and inner[1][0][0] == "pid":
                    y = inner[1][0][1]
                    r = strip(inner[2])
                    ok1 = (r[0] == "tuple" and len(r[1]) == 2 and strip(r[1][0]) == ("path", [x])
                           and strip(r[1][1]) == ("path", [y]) and x != y)
        if not ok1:
            raise Unparsed("`map_while` closure is not `|i| heap.get(i.0).map(|index| (i, index))`")
        ok2 = False
        if c2[0] == "closure" and len(c2[1]) == 1 and c2[1][0][0] == "ptuple" and len(c2[1][0][1]) == 2 \
                and c2[1][0][1][0][0] == "pwild" and c2[1][0][1][1][0] == "pid":
            y = c2[1][0][1][1][1]
            b = strip(c2[2])
            if b[0] == "mcall" and b[2] == "unwrap" and not b[3]:
                m = strip(b[1])
                if m[0] == "mcall" and m[2] == "map" and len(m[3]) == 1:
                    g, inner = strip(m[1]), m[3][0]
                    if g[0] == "mcall" and g[2] == "get_index" and len(g[3]) == 1 and self.place(g[1]) == "MAP" \
                            and strip(g[3][0]) == ("field", ("path", [y]), "0") and inner[0] == "closure" \
                            and len(inner[1]) == 1 and inner[1][0][0] == "ptuple" and len(inner[1][0][1]) == 2 \
                            and inner[1][0][1][0][0] == "pwild" and inner[1][0][1][1][0] == "pid":
                        ok2 = strip(inner[2]) == ("path", [inner[1][0][1][1][1]])
        if not ok2:
            raise Unparsed("key closure is not `|(_, index)| map.get_index(index.0).map(|(_, priority)| priority).unwrap()`")
        cands = [self.n(c) for c in strip(it[1])[1]]
        if not all(self.pure_n(c) for c in cands):
            raise Unparsed("candidate positions can fault")
        return ("firstMinBy" if mb[2] == "min_by_key" else "lastMaxBy"), cands

    def maxpos_idiom(self, e):
        """`*[p1, ..].iter().max_by_key(|i| unsafe { self.store.get_priority_from_position(**i) }).unwrap()` -> candidates"""
        u = strip(e)
        if not (u[0] == "mcall" and u[2] == "unwrap" and not u[3]):
            return None
        mb = strip(u[1])
        if not (mb[0] == "mcall" and mb[2] == "max_by_key" and len(mb[3]) == 1):
            return None
        it = strip(mb[1])
        if not (it[0] == "mcall" and it[2] == "iter" and not it[3] and strip(it[1])[0] == "array"):
            return None
        c = mb[3][0]
        ok = False
        if c[0] == "closure" and len(c[1]) == 1 and c[1][0][0] == "pid":
            x = c[1][0][1]
            b = strip(c[2])
            ok = (b[0] == "mcall" and b[2] == "get_priority_from_position" and len(b[3]) == 1
                  and self.place(b[1]) == "STORE" and strip(b[3][0]) == ("path", [x]))
        if not ok:
            raise Unparsed("key closure is not `|i| self.store.get_priority_from_position(**i)`")
        cands = [self.n(a) for a in strip(it[1])[1]]
        if not cands or not all(self.pure_n(a) for a in cands):
            raise Unparsed("candidate positions empty or can fault")
        return cands

    def hole_call(self, e):
        """`Self::bubble_up_min(map, &mut hole, priority)` -> IR statement"""
        e = strip(e)
        if not (e[0] == "call" and e[1][0] == "path" and len(e[1][1]) == 2 and e[1][1][0] == "Self"):
            return None
        name = e[1][1][1]
        fid = HOLE_FNS.get(self.owner, {}).get(name)
        if fid is None:
            raise Unparsed("call of `Self::%s`" % name)
        args = e[2]
        if len(args) != 3 or self.place(args[0]) != "MAP":
            raise Unparsed("`Self::%s`: arguments are not `(map, &mut hole, priority)`" % name)
        h = self.hole_of(args[1])
        if h is None or h[1].get("heap") != ("place", "HEAP") or h[1].get("qp") != ("place", "QP"):
            raise Unparsed("`Self::%s`: second argument is not a hole over (heap, qp)" % name)
        pr = self.p(args[2])
        pos, mp = h[1]["position"][1], h[1]["map_position"][1]
        return [("callN", pos, fid, [("var", pos), ("var", mp)], [pr])]

    # ---- statements
    def block_stmts(self, blk, tail_ret):
        """lower a block; `tail_ret` says what to do with its tail expression: None = it is a statement of type (),
        'N' / 'P' = it is the value the function returns"""
        assert blk[0] == "block"
        self.scopes.append({})
        try:
            out = []
            for s in blk[1]:
                out += self.stmt(s)
            if blk[2] is not None:
                out += self.tail(blk[2], tail_ret)
            elif tail_ret is not None:
                if not (blk[1] and blk[1][-1][0] == "return"):
                    raise Unparsed("a value is expected at the end of the block")
            return out
        finally:
            self.scopes.pop()

    def tail(self, e, tail_ret):
        e0 = strip(e) if e[0] in ("paren", "unsafe") else e
        if e0[0] in ("if", "iflet", "match", "block", "unsafe"):
            return self.stmt(("expr", e0), tail_ret)
        if tail_ret is None:
            return self.stmt(("expr", e))
        pre, post = [], []
        if tail_ret == "N":
            x = self.n(e)
            if self.live_holes:
                v = self.fresh("ret", "N")
                pre = [("setN", v, x)]
                for h in self.live_holes:
                    d = self.inline_hole_method(h, "drop", [], "stmt")
                    pre += d
                    self.unwind_code += d        # the same `Drop for Hole` runs when a panic unwinds this frame
                x = ("var", v)
            return pre + [("retN", x)]
        if tail_ret == "P":
            if self.live_holes:
                raise Unparsed("priority result with a live hole")
            return [("retP", self.p(e))]
        if tail_ret == "SELF":
            t0 = strip(e)
            if self.place(t0) in ("STORE", "QUEUE"):
                return []
            raise Unparsed("result that is not the constructed store / queue")
        if tail_ret == "RESQ":
            t0 = strip(e)
            if t0[0] == "mcall" and t0[2] == "map" and len(t0[3]) == 1 and t0[3][0][0] == "closure":
                g, clo = strip(t0[1]), t0[3][0]
                if g[0] == "call" and g[1] == ("path", ["Store", "deserialize"]) and len(g[2]) == 1 \
                        and len(clo[1]) == 1 and clo[1][0][0] == "pid" and clo[2][0] == "block":
                    a = strip(g[2][0])
                    ab = self.lookup(a[1][0]) if a[0] == "path" and len(a[1]) == 1 else None
                    if ab and ab[0] == "SEQ":
                        pre = [("callX", self.fresh("_", "V"), "storeVisitSeq", [], [], [ab[1]])]
                        self.scopes.append({})
                        try:
                            self.bind(clo[1][0][1], ("place", "STORE"))
                            body = self.block_stmts(clo[2], "SELF")
                        finally:
                            self.scopes.pop()
                        return pre + body
            raise Unparsed("result that is not `Store::deserialize(d).map(|store| { .. })`")
        if tail_ret == "RES":
            t0 = strip(e)
            if t0[0] == "call" and t0[1] == ("path", ["Ok"]) and len(t0[2]) == 1 and self.place(t0[2][0]) in ("STORE", "QUEUE"):
                return []
            raise Unparsed("result that is not `Ok(store)`")
        if tail_ret == "OPN!":
            t0 = strip(e)
            if t0[0] == "tuple" and len(t0[1]) == 2 and self.kind(t0[1][0]) == "P":
                x = self.p(t0[1][0]); y = self.n(t0[1][1])
                return [("retSomePN", x, y)]
            raise Unparsed("closure result that is not `(priority, position)`")
        if tail_ret == "ON!":
            return [("retSomeN", self.n(e))]
        if tail_ret == "D":
            t0 = strip(e)
            if t0[0] == "struct" and t0[1] == ["Drain"] and len(t0[2]) == 1 and t0[2][0][0] == "iter":
                d = strip(t0[2][0][1])
                if d[0] == "mcall" and d[2] == "drain" and d[3] == [("rangefull",)] and self.place(d[1]) == "MAP":
                    return [("retMapDrain",)]
            raise Unparsed("result that is not `Drain { iter: self.map.drain(..) }`")
        if tail_ret in ("OPN", "ON"):
            t0 = strip(e)
            if t0[0] == "mcall" and t0[2] == "map" and len(t0[3]) == 1 and t0[3][0][0] == "closure":
                g, clo = strip(t0[1]), t0[3][0]
                if g[0] == "mcall" and g[2] == "get_full_mut" and len(g[3]) == 1 and self.place(g[1]) == "MAP":
                    return self.get_full_mut(g, clo, tail_ret)
        if tail_ret == "OPN":
            t0 = strip(e)
            if t0 == ("path", ["None"]):
                return [("retNonePN",)]
            if t0[0] == "tuple" and len(t0[1]) == 2 and self.kind(t0[1][0]) == "P":
                x = self.p(t0[1][0]); y = self.n(t0[1][1])
                return [("retSomePN", x, y)]
            raise Unparsed("result that is not an optional (priority, position)")
        if tail_ret == "ON":
            t0 = strip(e)
            if self.live_holes:
                raise Unparsed("optional result with a live hole")
            if t0 == ("path", ["None"]):
                return [("retNone",)]
            if t0[0] == "call" and t0[1] == ("path", ["Some"]) and len(t0[2]) == 1:
                a = t0[2][0]
                cands = self.maxpos_idiom(a[1]) if a[0] == "deref" else None
                if cands is not None:
                    v = self.fresh("max", "N")
                    return [("lastMaxByPos", v, self.site("unwrap"), cands), ("retSomeN", ("var", v))]
                return [("retSomeN", self.n(a))]
            raise Unparsed("optional result that is neither `None` nor `Some(e)`")
        if tail_ret == "OP" and not self.live_holes:
            t0 = strip(e)
            if t0 == ("path", ["None"]):
                return [("retNoneP",)]
            if t0[0] == "call" and t0[1] == ("path", ["Some"]) and len(t0[2]) == 1 and self.kind(t0[2][0]) == "P":
                return [("retSomeP", self.p(t0[2][0]))]
            if t0[0] == "mcall" and self.place(t0[1]) == "QUEUE" \
                    and RET_KIND.get(QUEUE_CALLS.get(self.owner, {}).get(t0[2])) == "OP":
                ns, ps, vs = self.split_args(t0[3])
                v = self.fresh("result", "V")
                return [("callX", v, QUEUE_CALLS[self.owner][t0[2]], ns, ps, vs), ("retV", v)]
            if t0[0] == "mcall" and t0[2] == "map" and len(t0[3]) == 1 and t0[3][0][0] == "closure":
                g, clo = strip(t0[1]), t0[3][0]
                if g[0] == "mcall" and self.place(g[1]) == "STORE" and g[2] == "change_priority" and len(g[3]) == 2:
                    k = strip(g[3][0])
                    kb = self.lookup(k[1][0]) if k[0] == "path" and len(k[1]) == 1 else None
                    ps_ = clo[1]
                    if kb and kb[0] == "K" and self.kind(g[3][1]) == "P" and len(ps_) == 1 and ps_[0][0] == "ptuple" \
                            and len(ps_[0][1]) == 2 and all(q[0] == "pid" for q in ps_[0][1]) and clo[2][0] == "block" \
                            and clo[2][2] is not None and strip(clo[2][2]) == ("path", [ps_[0][1][0][1]]):
                        x = self.p(g[3][1])
                        self.scopes.append({})
                        try:
                            v = self.fresh(ps_[0][1][1][1], "N")
                            self.bind(ps_[0][1][1][1], ("N", v))
                            self.scopes.append({})
                            try:
                                code = []
                                for st in clo[2][1]:
                                    code += self.stmt(st)
                            finally:
                                self.scopes.pop()
                        finally:
                            self.scopes.pop()
                        return [("mapChanged", kb[1], x, v, code)]
                raise Unparsed("`map` that is not `self.store.change_priority(item, p).map(|(r, pos)| { ..; r })`")
            raise Unparsed("optional priority result of unknown form")
        if tail_ret == "B" and not self.live_holes:
            t0 = strip(e)
            if t0[0] == "mcall" and t0[2] == "is_some" and not t0[3]:
                m = strip(t0[1])
                if m[0] == "mcall" and m[2] == "map" and len(m[3]) == 1 and m[3][0][0] == "closure":
                    g, clo = strip(m[1]), m[3][0]
                    if g[0] == "mcall" and self.place(g[1]) == "STORE" and g[2] == "change_priority_by" and len(g[3]) == 2:
                        k, f = strip(g[3][0]), strip(g[3][1])
                        kb = self.lookup(k[1][0]) if k[0] == "path" and len(k[1]) == 1 else None
                        fb = self.lookup(f[1][0]) if f[0] == "path" and len(f[1]) == 1 else None
                        ps_ = clo[1]
                        if kb and kb[0] == "K" and fb and fb[0] == "V" and len(ps_) == 1 and ps_[0][0] == "pid" \
                                and clo[2][0] == "block" and clo[2][2] is None:
                            self.scopes.append({})
                            try:
                                v = self.fresh(ps_[0][1], "N")
                                self.bind(ps_[0][1], ("N", v))
                                self.scopes.append({})
                                try:
                                    code = []
                                    for st in clo[2][1]:
                                        code += self.stmt(st)
                                finally:
                                    self.scopes.pop()
                            finally:
                                self.scopes.pop()
                            return [("mapChangedBy", kb[1], fb[1], v, code)]
            raise Unparsed("boolean result that is not `self.store.change_priority_by(..).map(|pos| {..}).is_some()`")
        if tail_ret == "EM" and not self.live_holes:
            t0 = strip(e)
            if t0 == ("path", ["None"]):
                return [("retNoneSlot",)]
            if t0[0] == "mcall" and t0[2] == "map" and len(t0[3]) == 1 and t0[3][0][0] == "closure":
                clo = t0[3][0]
                okc = (len(clo[1]) == 1 and clo[1][0][0] == "ptuple" and len(clo[1][0][1]) == 2
                       and all(q[0] == "pid" for q in clo[1][0][1]))
                if okc:
                    kn, vn = clo[1][0][1][0][1], clo[1][0][1][1][1]
                    r = strip(clo[2])
                    okc = (r[0] == "tuple" and len(r[1]) == 2 and strip(r[1][0]) == ("path", [kn])
                           and strip(r[1][1]) == ("path", [vn]))
                if not okc:
                    raise Unparsed("closure that is not `|(k, v)| (k, &*v)`")
                return self.tail(t0[1], "EM0")
            raise Unparsed("mutable-entry result of unknown form")
        if tail_ret == "EM0" and not self.live_holes:
            t0 = strip(e)
            if t0[0] == "mcall" and t0[2] == "get_index_mut2" and len(t0[3]) == 1 and self.place(t0[1]) == "MAP":
                return [("retMapGetIndexMut2", self.n(t0[3][0]))]
            if t0[0] == "mcall" and t0[2] == "and_then" and len(t0[3]) == 1 and t0[3][0][0] == "closure":
                g, clo = strip(t0[1]), t0[3][0]
                if g[0] == "mcall" and self.place(g[1]) == "QUEUE" and not g[3] \
                        and RET_KIND.get(QUEUE_CALLS.get(self.owner, {}).get(g[2])) == "ON" \
                        and len(clo[1]) == 1 and clo[1][0][0] == "pid" and clo[2][0] == "block":
                    self.scopes.append({})
                    try:
                        v = self.fresh(clo[1][0][1], "N")
                        self.bind(clo[1][0][1], ("N", v))
                        body = self.block_stmts(clo[2], "EM0")
                    finally:
                        self.scopes.pop()
                    return [("optCallN", v, QUEUE_CALLS[self.owner][g[2]], [], body, [("retNoneSlot",)])]
            raise Unparsed("mutable-entry result of unknown form")
        if tail_ret == "E" and not self.live_holes:
            t0 = strip(e)
            if t0 == ("path", ["None"]):
                return [("retNoneE",)]
            if t0[0] == "mcall" and t0[2] == "get_index" and len(t0[3]) == 1 and self.place(t0[1]) == "MAP":
                return [("retMapGetIndex", self.n(t0[3][0]))]
            if t0[0] == "mcall" and t0[2] == "and_then" and len(t0[3]) == 1 and t0[3][0][0] == "closure":
                g, clo = strip(t0[1]), t0[3][0]
                if g[0] == "mcall" and g[2] == "first" and not g[3] and self.place(g[1]) == "HEAP":
                    if len(clo[1]) == 1 and clo[1][0][0] == "pid":
                        self.scopes.append({})
                        try:
                            v = self.fresh(clo[1][0][1], "N")
                            self.bind(clo[1][0][1], ("N", v))
                            body = self.tail(clo[2], "E") if clo[2][0] != "block" else self.block_stmts(clo[2], "E")
                        finally:
                            self.scopes.pop()
                        return [("ifHeapGet", v, ("lit", 0), body, [("retNoneE",)])]
                    raise Unparsed("closure of `heap.first().and_then`")
            if t0[0] == "path" and len(t0[1]) == 1 and (self.lookup(t0[1][0]) or ("",))[0] == "V":
                return [("retV", self.lookup(t0[1][0])[1])]
            if t0[0] == "mcall" and self.place(t0[1]) == "STORE" and t0[2] in STORE_CALLS \
                    and RET_KIND.get(STORE_CALLS[t0[2]]) == "E":
                v = self.fresh("result", "V")
                ns, ps, vs = self.split_args(t0[3])
                if ps or vs:
                    return [("callX", v, STORE_CALLS[t0[2]], ns, ps, vs), ("retV", v)]
                return [("callV", v, STORE_CALLS[t0[2]], ns), ("retV", v)]
            if t0[0] == "mcall" and t0[2] == "and_then" and len(t0[3]) == 1 and t0[3][0][0] == "closure":
                g, clo = strip(t0[1]), t0[3][0]
                if g[0] == "mcall" and self.place(g[1]) == "QUEUE" and not g[3] \
                        and RET_KIND.get(QUEUE_CALLS.get(self.owner, {}).get(g[2])) == "ON" \
                        and len(clo[1]) == 1 and clo[1][0][0] == "pid" and clo[2][0] == "block":
                    self.scopes.append({})
                    try:
                        v = self.fresh(clo[1][0][1], "N")
                        self.bind(clo[1][0][1], ("N", v))
                        body = self.block_stmts(clo[2], "E")
                    finally:
                        self.scopes.pop()
                    return [("optCallN", v, QUEUE_CALLS[self.owner][g[2]], [], body, [("retNoneE",)])]
                raise Unparsed("`and_then` that is not `self.find_min/find_max().and_then(|i| { .. })`")
            if t0[0] == "mcall" and t0[2] == "map" and len(t0[3]) == 1 and t0[3][0][0] == "closure":
                g, clo = strip(t0[1]), t0[3][0]
                if g[0] == "mcall" and self.place(g[1]) == "STORE" and g[2] == "remove" and len(g[3]) == 1:
                    k = strip(g[3][0])
                    kb = self.lookup(k[1][0]) if k[0] == "path" and len(k[1]) == 1 else None
                    ps = clo[1]
                    if kb and kb[0] == "K" and len(ps) == 1 and ps[0][0] == "ptuple" and len(ps[0][1]) == 3 \
                            and all(q[0] == "pid" for q in ps[0][1]) and clo[2][0] == "block" and clo[2][2] is not None:
                        itn, prn, posn = [q[1] for q in ps[0][1]]
                        res = strip(clo[2][2])
                        if res[0] == "tuple" and len(res[1]) == 2 and strip(res[1][0]) == ("path", [itn]) \
                                and strip(res[1][1]) == ("path", [prn]):
                            # `item` / `priority` stay unbound: any other use inside the closure is rejected
                            self.scopes.append({})
                            try:
                                v = self.fresh(posn, "N")
                                self.bind(posn, ("N", v))
                                self.scopes.append({})
                                try:
                                    code = []
                                    for st in clo[2][1]:
                                        code += self.stmt(st)
                                finally:
                                    self.scopes.pop()
                            finally:
                                self.scopes.pop()
                            return [("mapRemoved", kb[1], v, code)]
                raise Unparsed("`map` that is not `self.store.remove(item).map(|(item, priority, pos)| { ..; (item, priority) })`")
            if t0[0] == "mcall" and t0[2] == "swap_remove_index" and len(t0[3]) == 1 and self.place(t0[1]) == "MAP" \
                    and not self.live_holes:
                return [("retMapSwapRemoveIndex", self.n(t0[3][0]))]
            raise Unparsed("result expression that is not `self.map.swap_remove_index(e)`")
        if tail_ret == "R":
            return self.remove_full(strip(e))
        raise Unparsed("tail expression")

    def get_full_mut(self, g, clo, tail_ret):
        """`map.get_full_mut(key).map(|(index, _, p)| { .. })` as the function's result"""
        k = strip(g[3][0])
        kb = self.lookup(k[1][0]) if k[0] == "path" and len(k[1]) == 1 else None
        if not kb or kb[0] != "K":
            raise Unparsed("`get_full_mut` of something that is not the key parameter")
        ps = clo[1]
        if not (len(ps) == 1 and ps[0][0] == "ptuple" and len(ps[0][1]) == 3 and ps[0][1][0][0] == "pid"
                and ps[0][1][1][0] == "pwild" and ps[0][1][2][0] == "pid" and clo[2][0] == "block"):
            raise Unparsed("closure of `get_full_mut(..).map` is not `|(index, _, p)| { .. }`")
        self.scopes.append({})
        try:
            vi = self.fresh(ps[0][1][0][1], "N")
            self.bind(ps[0][1][0][1], ("N", vi))
            self.bind(ps[0][1][2][1], ("slotP", vi))
            # inside the closure its value is what `Some(..)` of the function's result holds
            body = self.block_stmts(clo[2], {"OPN": "OPN!", "ON": "ON!"}[tail_ret])
        finally:
            self.scopes.pop()
        return [("getFullMutThen", kb[1], vi, body, [("retNonePN",)] if tail_ret == "OPN" else [("retNone",)])]

    def remove_full(self, e):
        """`self.map.swap_remove_full(key).map(|(i, item, priority)| { ...; (item, priority, res) })`"""
        if not (e[0] == "mcall" and e[2] == "map" and len(e[3]) == 1 and e[3][0][0] == "closure"):
            raise Unparsed("result expression that is not `self.map.swap_remove_full(k).map(|..| ..)`")
        g, clo = strip(e[1]), e[3][0]
        if not (g[0] == "mcall" and g[2] == "swap_remove_full" and len(g[3]) == 1 and self.place(g[1]) == "MAP"):
            raise Unparsed("result expression that is not `self.map.swap_remove_full(k).map(|..| ..)`")
        k = strip(g[3][0])
        kb = self.lookup(k[1][0]) if k[0] == "path" and len(k[1]) == 1 else None
        if not kb or kb[0] != "K":
            raise Unparsed("`swap_remove_full` of something that is not the key parameter")
        ps = clo[1]
        if not (len(ps) == 1 and ps[0][0] == "ptuple" and len(ps[0][1]) == 3 and all(q[0] == "pid" for q in ps[0][1])):
            raise Unparsed("closure of `swap_remove_full(..).map` is not `|(i, item, priority)|`")
        iname, itname, prname = [q[1] for q in ps[0][1]]
        body = clo[2]
        if body[0] != "block" or body[2] is None:
            raise Unparsed("closure body without a result")
        res = strip(body[2])
        if not (res[0] == "tuple" and len(res[1]) == 3 and strip(res[1][0]) == ("path", [itname])
                and strip(res[1][1]) == ("path", [prname])):
            raise Unparsed("closure result is not `(item, priority, pos)`")
        # `item` and `priority` are NOT bound: any other use of them inside the closure is rejected
        self.scopes.append({})
        try:
            vi = self.fresh(iname, "N")
            self.bind(iname, ("N", vi))
            self.scopes.append({})
            try:
                code = []
                for st in body[1]:
                    code += self.stmt(st)
                r = self.n(res[1][2])
                if not self.pure_n(r):
                    raise Unparsed("closure result position can fault")
            finally:
                self.scopes.pop()
        finally:
            self.scopes.pop()
        return [("removeFullThen", kb[1], vi, code, r)]

    def match_stmt(self, e, tail_ret):
        scrut, arms = strip(e[1]), e[2]
        # match (b1, b2) { (true, true) => .., (true, false) => .., (false, true) => .., (false, false) => .. }
        if scrut[0] == "tuple" and len(scrut[1]) == 2:
            c1 = self.b(scrut[1][0]); c2 = self.b(scrut[1][1])
            got = {}
            for pat, body in arms:
                if not (pat[0] == "ptuple" and len(pat[1]) == 2 and all(q[0] == "pbool" for q in pat[1])):
                    raise Unparsed("arm of a match on a pair of booleans is not a pair of literals")
                key = (pat[1][0][1], pat[1][1][1])
                if key in got:
                    raise Unparsed("repeated match arm")
                got[key] = self.branch(body if body[0] in ("block", "if") else ("block", [], body), tail_ret)
            if len(got) != 4:
                raise Unparsed("match on a pair of booleans without all four arms")
            return [("match2", c1, c2, got[(True, True)], got[(True, False)], got[(False, True)], got[(False, False)])]
        if scrut[0] == "mcall" and scrut[2] == "entry" and len(scrut[3]) == 1 and self.place(scrut[1]) == "MAP":
            a = strip(scrut[3][0])
            ib = self.lookup(a[1][0]) if a[0] == "path" and len(a[1]) == 1 else None
            if not ib or ib[0] != "I":
                raise Unparsed("`map.entry` of something that is not an item variable")
            got = {}
            eidx = self.fresh("entry.index", "N")
            for pat, body in arms:
                if not (pat[0] == "pctor" and pat[1] in (["Occupied"], ["Vacant"]) and len(pat[2]) == 1
                        and pat[2][0][0] == "pid") or pat[1][0] in got:
                    raise Unparsed("arms of a match on `map.entry(..)` are not `Occupied(e)` / `Vacant(e)`")
                self.scopes.append({})
                try:
                    self.bind(pat[2][0][1], ("occ", eidx) if pat[1] == ["Occupied"] else ("vac", ib[1]))
                    got[pat[1][0]] = self.branch(body if body[0] in ("block", "if") else ("block", [], body), tail_ret)
                finally:
                    self.scopes.pop()
            if len(got) != 2:
                raise Unparsed("match on `map.entry(..)` without both arms")
            return [("entryMatch", ib[1], eidx, got["Occupied"], got["Vacant"])]
        # match n { 0 => .., 1 => .., _ => .. } on a fault-free usize
        x = self.n(scrut)
        if not self.pure_n(x):
            raise Unparsed("match on a usize expression that can fault")
        res, seen_default = None, False
        chain = []
        for pat, body in arms:
            if seen_default:
                raise Unparsed("match arm after `_`")
            code = self.branch(body if body[0] in ("block", "if") else ("block", [], body), tail_ret)
            if pat[0] == "plit":
                chain.append((pat[1], code))
            elif pat[0] == "pwild":
                seen_default = True
                res = code
            else:
                raise Unparsed("match arm pattern `%s`" % pat[0])
        if not seen_default:
            raise Unparsed("match on usize without `_` arm")
        for lit, code in reversed(chain):
            res = [("ite", ("eqN", x, ("lit", lit)), code, res)]
        return res

    def branch(self, blk_or_if, tail_ret):
        if blk_or_if is None:
            return []
        if blk_or_if[0] == "block":
            return self.block_stmts(blk_or_if, tail_ret)
        return self.stmt(("expr", blk_or_if), tail_ret)

    def set_var(self, name, e, declare):
        """`let name = e;` (declare) or `name = e;`"""
        es = strip(e)
        if declare and self.owner == "ctor":
            c = self.store_ctor_expr(e if e[0] in ("if", "iflet") else es)
            if c is not None:
                self.bind(name, ("place", "STORE"))
                return c
        if declare and es[0] == "call" and es[1][0] == "path" and len(es[1][1]) == 2 and es[1][1][0] == "Store" \
                and es[1][1][1] in STORE_CTORS and len(es[2]) == 1 and self.owner in ("pq", "dq"):
            fid, want = STORE_CTORS[es[1][1][1]]
            a = strip(es[2][0])
            ab = self.lookup(a[1][0]) if a[0] == "path" and len(a[1]) == 1 else None
            if ab and ab[0] == want:
                self.bind(name, ("place", "STORE"))
                return [("callX", self.fresh("_", "V"), fid, [], [], [ab[1]])]
            raise Unparsed("`Store::%s` of an unexpected argument" % es[1][1][1])
        if declare and es[0] == "struct" and es[1] in (["PriorityQueue"], ["DoublePriorityQueue"], ["Self"]) \
                and len(es[2]) == 1 and es[2][0][0] == "store" and self.place(es[2][0][1]) == "STORE" \
                and self.owner in ("pq", "dq"):
            self.bind(name, ("place", "QUEUE"))
            return []
        if declare and e[0] == "if" and e[3] is not None and e[2][0] == "block" and e[3][0] == "block" \
                and e[2][2] is not None and e[3][2] is not None and self.is_bool(e[2][2]) and self.is_bool(e[3][2]):
            # `let b = if c { ..; bool } else { ..; bool };`
            v = self.fresh(name, "B")
            c = self.b(e[1])
            def arm(blk):
                self.scopes.append({})
                try:
                    code = []
                    for st in blk[1]:
                        code += self.stmt(st)
                    return code + [("ite", self.b(blk[2]), [("setN", v, ("lit", 1))], [("setN", v, ("lit", 0))])]
                finally:
                    self.scopes.pop()
            t, f = arm(e[2]), arm(e[3])
            self.bind(name, ("B", v))
            return [("ite", c, t, f)]
        if declare and es[0] == "mcall" and es[2] == "into_iter" and not es[3]:
            ib = strip(es[1])
            b0 = self.lookup(ib[1][0]) if ib[0] == "path" and len(ib[1]) == 1 else None
            if b0 and b0[0] == "IT":
                self.bind(name, b0)
                return []
            raise Unparsed("`into_iter()` of something that is not an iterator parameter")
        # aliases of places
        if declare and self.place(e) is not None:
            self.bind(name, ("place", self.place(e)))
            return []
        # Hole::new
        if declare and es[0] == "call" and es[1] == ("path", ["Hole", "new"]):
            h, code = self.new_hole(es[2])
            self.bind(name, h)
            if len(self.scopes) != 2:
                raise Unparsed("a hole that is not declared at the top level of the function")
            self.live_holes.append(h)
            self.hole_created = True
            return code
        if declare and es[0] == "mcall" and self.place(es[1]) == "STORE" and es[2] in STORE_CALLS \
                and RET_KIND.get(STORE_CALLS[es[2]]) == "E":
            ns, ps, vs = self.split_args(es[3])
            v = self.fresh(name, "V")
            self.bind(name, ("V", v))
            if ps or vs:
                return [("callX", v, STORE_CALLS[es[2]], ns, ps, vs)]
            return [("callV", v, STORE_CALLS[es[2]], ns)]
        if declare and es == ("path", ["None"]):
            v = self.fresh(name, "V")
            self.bind(name, ("V", v))
            return [("setVNoneP", v)]
        if (not declare) and (self.lookup(name) or ("",))[0] == "V":
            # `o = Some(replace(e.get_mut(), p))` for an occupied entry `e`
            if es[0] == "call" and es[1] == ("path", ["Some"]) and len(es[2]) == 1:
                r = strip(es[2][0])
                if r[0] == "call" and r[1] == ("path", ["replace"]) and len(r[2]) == 2:
                    g = strip(r[2][0])
                    if g[0] == "mcall" and g[2] == "get_mut" and not g[3]:
                        eb = strip(g[1])
                        ob = self.lookup(eb[1][0]) if eb[0] == "path" and len(eb[1]) == 1 else None
                        if ob and ob[0] == "occ":
                            return [("replaceSlotPrio", self.lookup(name)[1], ("var", ob[1]), self.p(r[2][1]))]
            raise Unparsed("assignment to an optional priority that is not `Some(replace(e.get_mut(), p))`")
        mm = self.minmax_idiom(e)
        if mm is not None:
            sp = self.site("unwrap"); su = self.site("unwrap")
            return [(mm[0], self.target(name, "N", declare), sp, su, mm[1])]
        # calls of translated functions that return a position
        if es[0] == "mcall" and self.place(es[1]) == "QUEUE" and es[2] in QUEUE_CALLS.get(self.owner, {}) \
                and RET_KIND.get(QUEUE_CALLS[self.owner][es[2]]) == "N":
            args = [self.n(a) for a in es[3]]
            v = self.target(name, "N", declare)
            return [("callN", v, QUEUE_CALLS[self.owner][es[2]], args, [])]
        if es[0] == "mcall" and es[2] == "swap_remove" and len(es[3]) == 1 and self.place(es[1]) in ("HEAP", "QP"):
            a = self.n(es[3][0])
            site = self.site("swapRemoveC")
            v = self.target(name, "N", declare)
            return [("heapSwapRemove" if self.place(es[1]) == "HEAP" else "qpSwapRemove", v, site, a)]
        if declare and es[0] == "mcall" and es[2] == "get_unchecked_mut" and len(es[3]) == 1 \
                and self.place(es[1]) in ("HEAP", "QP"):
            # `let x = v.get_unchecked_mut(i);`: a `&mut` into the table; the access itself is the possible fault,
            # `x.0` reads the element, `*x = e` overwrites it
            pl = self.place(es[1])
            a = self.n(es[3][0])
            iv = self.fresh(name + "@index", "N")
            vv = self.fresh(name, "N")
            self.bind(name, ("mutref", pl, iv, vv))
            return [("setN", iv, a), ("setN", vv, ("heapGetU" if pl == "HEAP" else "qpGetU", self.site("getU"), ("var", iv)))]
        k = self.kind(e)
        if k == "P":
            x = self.p(e)
            return [("setP", self.target(name, "P", declare), x)]
        x = self.n(e)
        return [("setN", self.target(name, "N", declare), x)]

    def target(self, name, kind, declare):
        if declare:
            v = self.fresh(name, kind)
            self.bind(name, (kind, v))
            return v
        b = self.lookup(name)
        if not b or b[0] != kind:
            raise Unparsed("assignment to `%s`, which is not a %s variable in scope" % (name, kind))
        return b[1]

    def stmt(self, s, tail_ret=None):
        t = s[0]
        if t == "let":
            pat, e = s[1], s[2]
            if pat[0] == "pid":
                return self.set_var(pat[1], e, True)
            if pat[0] == "ptuple" and len(pat[1]) == 2 and pat[1][0][0] == "pid" and pat[1][1][0] == "pwild":
                u = strip(e)
                ub = strip(u[1]) if u[0] == "mcall" else None
                if u[0] == "mcall" and u[2] == "size_hint" and not u[3] and ub[0] == "path" and len(ub[1]) == 1 \
                        and (self.lookup(ub[1][0]) or ("",))[0] == "IT":
                    v = self.fresh(pat[1][0][1], "N")
                    self.bind(pat[1][0][1], ("N", v))
                    return [("setN", v, ("iterLo", self.lookup(ub[1][0])[1]))]
                raise Unparsed("`let (x, _) = e` that is not `iter.size_hint()`")
            if pat[0] == "ptuple" and len(pat[1]) == 3 and pat[1][0][0] == "pwild" \
                    and all(q[0] in ("pid", "pwild") for q in pat[1]):
                u = strip(e)
                if u[0] == "mcall" and u[2] == "unwrap" and not u[3]:
                    g = strip(u[1])
                    if g[0] == "mcall" and g[2] == "get_full_mut2" and len(g[3]) == 1 and self.place(g[1]) == "MAP":
                        a = strip(g[3][0])
                        ib = self.lookup(a[1][0]) if a[0] == "path" and len(a[1]) == 1 else None
                        if ib and ib[0] == "I":
                            vi = self.fresh("slot", "N")
                            site = self.site("unwrap")
                            if pat[1][1][0] == "pid":
                                self.bind(pat[1][1][1], ("slotI", vi))
                            if pat[1][2][0] == "pid":
                                self.bind(pat[1][2][1], ("slotP", vi))
                            return [("fullMut2", site, ib[1], vi)]
                raise Unparsed("`let (_, a, b) = e` that is not `map.get_full_mut2(&item).unwrap()`")
            if pat[0] == "ptuple" and len(pat[1]) == 2 and all(q[0] == "pid" for q in pat[1]):
                u = strip(e)
                if u[0] == "mcall" and u[2] == "unwrap" and not u[3]:
                    g = strip(u[1])
                    if g[0] == "mcall" and g[2] == "get_index_mut2" and len(g[3]) == 1 and self.place(g[1]) == "MAP":
                        a = self.n(g[3][0])
                        iv = self.fresh(pat[1][0][1] + "," + pat[1][1][1] + "@index", "N")
                        site = self.site("unwrap")
                        self.bind(pat[1][0][1], ("slotI", iv))
                        self.bind(pat[1][1][1], ("slotP", iv))
                        return [("setN", iv, a), ("entryMut2", site, ("var", iv))]
            if pat[0] == "ptuple":
                es = strip(e)
                if es[0] != "tuple" or len(es[1]) != len(pat[1]) or any(q[0] != "pid" for q in pat[1]):
                    raise Unparsed("tuple pattern")
                # all components are evaluated (in the old scope) before any name is bound; the registers are fresh
                vals = [(q[1], self.kind(x), x) for q, x in zip(pat[1], es[1])]
                code, binds = [], []
                for name, k, x in vals:
                    if k == "P":
                        v = self.fresh(name, "P"); code.append(("setP", v, self.p(x)))
                    else:
                        v = self.fresh(name, "N"); code.append(("setN", v, self.n(x)))
                    binds.append((name, (k or "N", v)))
                for name, b in binds:
                    self.bind(name, b)
                return code
            if pat[0] == "pstruct" and pat[1] == ["Store"] and self.place(e) == "STORE":
                for f in pat[2]:
                    if f not in ("map", "heap", "qp"):
                        raise Unparsed("Store field `%s` in a pattern" % f)
                    self.bind(f, ("place", f.upper()))
                return []
            raise Unparsed("let pattern `%s`" % pat[0])
        if t == "assign":
            lhs, op, rhs = s[1], s[2], s[3]
            l0 = strip(lhs)
            if op == "+=":
                r = strip(rhs)
                if l0[0] == "field" and l0[2] == "size" and self.place(l0[1]) == "STORE" and r == ("num", 1):
                    return [("sizeInc",)]
                if l0[0] == "path" and len(l0[1]) == 1 and (self.lookup(l0[1][0]) or ("",))[0] == "N":
                    v = self.lookup(l0[1][0])[1]
                    return [("setN", v, ("add", ("var", v), self.n(rhs)))]
                raise Unparsed("`+=`")
            if op == "-=":
                r = strip(rhs)
                if l0[0] == "field" and l0[2] == "size" and self.place(l0[1]) == "STORE" and r == ("num", 1):
                    return [("sizeDec", self.site("arith"))]
                raise Unparsed("`-=`")
            if op != "=":
                raise Unparsed("`%s`" % op)
            if lhs[0] == "deref":
                m = strip(lhs[1])
                if m[0] == "mcall" and m[2] == "get_unchecked_mut" and len(m[3]) == 1 and self.place(m[1]) in ("HEAP", "QP"):
                    # Rust evaluates the right operand of `=` before the place: only fault-free right operands are accepted
                    x = self.n(rhs)
                    if not self.pure_n(x):
                        raise Unparsed("right operand of `*place = e` can fault")
                    i = self.n(m[3][0])
                    return [("heapSetU" if self.place(m[1]) == "HEAP" else "qpSetU", self.site("setU"), i, x)]
                if m[0] == "path" and len(m[1]) == 1:
                    b = self.lookup(m[1][0])
                    if b and b[0] == "slotI":
                        r = strip(rhs)
                        rb = self.lookup(r[1][0]) if r[0] == "path" and len(r[1]) == 1 else None
                        if rb and rb[0] == "I":
                            return [("slotSetItem", ("var", b[1]), rb[1])]
                        raise Unparsed("`*item_slot = e` where `e` is not an item variable")
                    if b and b[0] == "slotP":
                        return [("slotSetPrio", ("var", b[1]), self.p(rhs))]
                    if b and b[0] == "mutref":
                        x = self.n(rhs)
                        if not self.pure_n(x):
                            raise Unparsed("right operand of `*place = e` can fault")
                        return [("heapSetU" if b[1] == "HEAP" else "qpSetU", self.site("setU"), ("var", b[2]), x),
                                ("setN", b[3], x)]
                raise Unparsed("assignment through `*`")
            if l0[0] == "field" and self.place(l0[1]) == "STORE" and l0[2] == "size":
                return [("sizeSet", self.n(rhs))]
            if l0[0] == "field" and self.place(l0[1]) == "STORE" and l0[2] in ("heap", "qp"):
                r = strip(rhs)
                if r[0] == "mcall" and r[2] == "collect" and not r[3]:
                    m = strip(r[1])
                    if m[0] == "mcall" and m[2] == "map" and len(m[3]) == 1 \
                            and m[3][0] == ("path", ["Index" if l0[2] == "heap" else "Position"]):
                        rg = strip(m[1])
                        if rg[0] == "range" and rg[1] == ".." and strip(rg[2]) == ("num", 0):
                            return [("heapSetRange" if l0[2] == "heap" else "qpSetRange", self.n(rg[3]))]
                raise Unparsed("assignment to `self.%s` that is not `(0..e).map(%s).collect()`"
                               % (l0[2], "Index" if l0[2] == "heap" else "Position"))
            if l0[0] == "path" and len(l0[1]) == 1:
                return self.set_var(l0[1][0], rhs, False)
            if l0[0] == "field":
                h = self.hole_of(l0[1])
                if h is not None and h[1].get(l0[2], ("",))[0] == "N":
                    return [("setN", h[1][l0[2]][1], self.n(rhs))]
            raise Unparsed("assignment target")
        if t == "return":
            if self.live_holes or self.byref_hole is not None:
                raise Unparsed("`return` while a hole is live")
            if s[1] is None:
                if self.other_reg is not None:
                    return [("retV", self.other_reg)]
                return [("ret",)]
            r0 = strip(s[1])
            if r0[0] == "path" and len(r0[1]) == 1 and (self.lookup(r0[1][0]) or ("",))[0] == "V":
                return [("retV", self.lookup(r0[1][0])[1])]
            if r0 == ("path", ["None"]) and self.ret_kind in ("EM", "E", "OP"):
                return [({"EM": "retNoneSlot", "E": "retNoneE", "OP": "retNoneP"}[self.ret_kind],)]
            raise Unparsed("`return e`")
        if t == "const":
            v = strip(s[2])
            if v[0] != "num":
                raise Unparsed("`const` that is not a literal")
            self.bind(s[1], ("const", v[1]))
            return []
        if t == "whilelet":
            pat, e, blk = s[1], strip(s[2]), s[3]
            ok = (pat[0] == "pctor" and pat[1] == ["Some"] and len(pat[2]) == 1 and pat[2][0][0] == "ptuple"
                  and len(pat[2][0][1]) == 2 and all(q[0] == "pid" for q in pat[2][0][1]) and e[0] == "try")
            if ok:
                m = strip(e[1])
                mb = strip(m[1]) if m[0] == "mcall" else None
                ok = (m[0] == "mcall" and m[2] == "next_element" and not m[3] and mb[0] == "path" and len(mb[1]) == 1
                      and (self.lookup(mb[1][0]) or ("",))[0] == "SEQ")
            if not ok:
                raise Unparsed("`while let` that is not `while let Some((item, priority)) = seq.next_element()?`")
            src = self.lookup(mb[1][0])[1]
            self.scopes.append({})
            try:
                iv = self.fresh(pat[2][0][1][0][1], "I")
                pv = self.fresh(pat[2][0][1][1][1], "P")
                self.bind(pat[2][0][1][0][1], ("I", iv))
                self.bind(pat[2][0][1][1][1], ("P", pv))
                body = self.block_stmts(blk, None)
            finally:
                self.scopes.pop()
            return [("forEntries", src, iv, pv, body)]
        if t == "break":
            return [("brk",)]
        if t == "while":
            c = self.b(s[1])
            body = self.block_stmts(s[2], None)
            name = "%s_loop%d" % (self.fnid, len(self.loops) + 1)
            self.loops.append((name, c, body))
            return [("whileRef", name)]
        if t == "for":
            pat, it, blk = s[1], strip(s[2]), s[3]
            if pat[0] == "ptuple" and len(pat[1]) == 2 and all(q[0] == "pid" for q in pat[1]):
                pre, src = [], None
                if it[0] == "mcall" and it[2] == "drain" and not it[3]:
                    ob = strip(it[1])
                    if ob[0] == "path" and len(ob[1]) == 1 and (self.lookup(ob[1][0]) or ("",))[0] == "other":
                        src = self.fresh("drained", "V")
                        pre = [("drainOther", self.lookup(ob[1][0])[1], src)]
                elif it[0] == "path" and len(it[1]) == 1 and (self.lookup(it[1][0]) or ("",))[0] in ("S", "IT"):
                    src = self.lookup(it[1][0])[1]
                if src is None:
                    raise Unparsed("`for (k, v) in e` over something that is not `other.drain()` or a sequence parameter")
                self.scopes.append({})
                try:
                    iv = self.fresh(pat[1][0][1], "I")
                    pv = self.fresh(pat[1][1][1], "P")
                    self.bind(pat[1][0][1], ("I", iv))
                    self.bind(pat[1][1][1], ("P", pv))
                    body = self.block_stmts(blk, None)
                finally:
                    self.scopes.pop()
                return pre + [("forEntries", src, iv, pv, body)]
            if pat[0] != "pid" or it[0] != "mcall" or it[2] != "rev" or it[3]:
                raise Unparsed("`for` loop that is not `for i in (0..=e).rev()`")
            r = strip(it[1])
            if r[0] != "range" or r[1] != "..=" or strip(r[2]) != ("num", 0):
                raise Unparsed("`for` loop that is not `for i in (0..=e).rev()`")
            hi = self.n(r[3])
            self.scopes.append({})
            try:
                v = self.fresh(pat[1], "N")
                self.bind(pat[1], ("N", v))
                body = self.block_stmts(blk, None)
            finally:
                self.scopes.pop()
            return [("forRev", v, hi, body)]
        if t == "expr":
            e = s[1]
            if e[0] == "unsafe":
                return self.block_stmts(e[1], tail_ret)
            if e[0] == "block":
                return self.block_stmts(e, tail_ret)
            if e[0] == "if":
                c = self.b(e[1])
                th = self.branch(e[2], tail_ret)
                el = self.branch(e[3], tail_ret)
                if e[3] is None and tail_ret in ("N", "P"):
                    raise Unparsed("`if` without `else` as a value")
                return [("ite", c, th, el)]
            if e[0] == "iflet":
                pat, scrut = e[1], strip(e[2])
                if not (pat[0] == "pctor" and pat[1] == ["Some"] and len(pat[2]) == 1 and pat[2][0][0] == "pref"
                        and pat[2][0][1][0] == "pid"):
                    raise Unparsed("`if let` pattern is not `Some(&x)`")
                if not (scrut[0] == "mcall" and scrut[2] == "get" and len(scrut[3]) == 1 and self.place(scrut[1]) == "HEAP"):
                    raise Unparsed("`if let` scrutinee is not `heap.get(e)`")
                a = self.n(scrut[3][0])
                self.scopes.append({})
                try:
                    v = self.fresh(pat[2][0][1][1], "N")
                    self.bind(pat[2][0][1][1], ("N", v))
                    th = self.block_stmts(e[3], tail_ret)
                finally:
                    self.scopes.pop()
                el = self.branch(e[4], tail_ret)
                if e[4] is None and tail_ret is not None:
                    raise Unparsed("`if let` without `else` as a value")
                return [("ifHeapGet", v, a, th, el)]
            if e[0] == "match":
                return self.match_stmt(e, tail_ret)
            hc = self.hole_call(e)
            if hc is not None:
                return hc
            e0 = strip(e)
            if e0[0] == "tuple" and not e0[1]:
                return []
            if e0[0] == "mcall":
                recv, name, args = e0[1], e0[2], e0[3]
                p = self.place(recv)
                if p == "STORE" and name == "swap":
                    return [("call", "storeSwap", [self.n(a) for a in args], [])]
                if p == "STORE" and name in STORE_CALLS and RET_KIND.get(STORE_CALLS[name]) == "U" \
                        and self.owner in ("pq", "dq"):
                    ns, ps, vs = self.split_args(args)
                    return [("callX", self.fresh("_", "V"), STORE_CALLS[name], ns, ps, vs)]
                if p == "STORE" and name == "append" and len(args) == 1 and self.owner in ("pq", "dq"):
                    a = strip(args[0])
                    ob = strip(a[1]) if a[0] == "field" and a[2] == "store" else None
                    if ob and ob[0] == "path" and len(ob[1]) == 1 and (self.lookup(ob[1][0]) or ("",))[0] == "otherq":
                        return [("appendOther", self.lookup(ob[1][0])[1])]
                    raise Unparsed("`self.store.append` of something that is not `&mut other.store`")
                if p == "QUEUE" and name == "reserve" and len(args) == 1:
                    return [("reserve", self.n(args[0]))]
                if p == "QUEUE" and name in QUEUE_CALLS.get(self.owner, {}) and \
                        RET_KIND.get(QUEUE_CALLS[self.owner][name]) == "OP":
                    ns, ps, vs = self.split_args(args)
                    return [("callX", self.fresh("_", "V"), QUEUE_CALLS[self.owner][name], ns, ps, vs)]
                if p == "QUEUE" and name in QUEUE_CALLS.get(self.owner, {}) and \
                        RET_KIND.get(QUEUE_CALLS[self.owner][name]) == "U":
                    return [("call", QUEUE_CALLS[self.owner][name], [self.n(a) for a in args], [])]
                if p == "QUEUE" and name in QUEUE_CALLS.get(self.owner, {}) and \
                        RET_KIND.get(QUEUE_CALLS[self.owner][name]) == "N":
                    xs = [self.n(a) for a in args]
                    return [("callN", self.fresh("_", "N"), QUEUE_CALLS[self.owner][name], xs, [])]
                if p in ("HEAP", "QP") and name == "swap" and len(args) == 2:
                    a = self.n(args[0]); b = self.n(args[1])
                    return [("heapSwap" if p == "HEAP" else "qpSwap", self.site("swapC"), a, b)]
                if p in ("HEAP", "QP") and name == "push" and len(args) == 1:
                    return [("heapPush" if p == "HEAP" else "qpPush", self.n(args[0]))]
                if p == "MAP" and name == "insert" and len(args) == 2:
                    a = strip(args[0])
                    ib = self.lookup(a[1][0]) if a[0] == "path" and len(a[1]) == 1 else None
                    if ib and ib[0] == "I" and self.kind(args[1]) == "P":
                        return [("mapInsert", ib[1], self.p(args[1]))]
                    raise Unparsed("`map.insert` that is not `insert(item, priority)`")
                if p in ("HEAP", "QP", "MAP") and name == "clear" and not args:
                    return [({"HEAP": "heapClear", "QP": "qpClear", "MAP": "mapClear"}[p],)]
                if p == "STORE" and name == "retain_mut" and len(args) == 1 and args[0][0] == "closure":
                    clo = args[0]
                    okc = len(clo[1]) == 2 and all(q[0] == "pid" for q in clo[1])
                    if okc:
                        c = strip(clo[2])
                        okc = (c[0] == "call" and c[1][0] == "path" and len(c[1][1]) == 1 and len(c[2]) == 2
                               and c[2][0] == ("ref", ("deref", ("path", [clo[1][0][1]])))
                               and c[2][1] == ("ref", ("deref", ("path", [clo[1][1][1]])))
                               and (self.lookup(c[1][1][0]) or ("",))[0] == "V")
                    if not okc:
                        raise Unparsed("closure that is not `|i, p| predicate(&*i, &*p)`")
                    tmp = self.fresh("adapted", "V")
                    return [("adaptPred", tmp, self.lookup(c[1][1][0])[1]), ("callX", self.fresh("_", "V"), "storeRetainMut", [], [], [tmp])]
                if p == "MAP" and name == "retain2" and len(args) == 1:
                    a = strip(args[0])
                    fb = self.lookup(a[1][0]) if a[0] == "path" and len(a[1]) == 1 else None
                    if fb and fb[0] == "V":
                        return [("mapRetain2", fb[1])]
                    raise Unparsed("`retain2` of something that is not a closure parameter")
                if p in ("HEAP", "QP") and name == "swap_remove" and len(args) == 1:
                    a = self.n(args[0])
                    site = self.site("swapRemoveC")
                    v = self.fresh("_", "N")
                    return [("heapSwapRemove" if p == "HEAP" else "qpSwapRemove", v, site, a)]
                rb = strip(recv)
                if name == "insert" and len(args) == 1 and rb[0] == "path" and len(rb[1]) == 1 \
                        and (self.lookup(rb[1][0]) or ("",))[0] == "vac":
                    return [("vacantInsert", self.lookup(rb[1][0])[1], self.p(args[0]))]
                h = self.hole_of(recv)
                if h is not None and name == "move_from":
                    return self.inline_hole_method(h, name, args, "stmt")
                raise Unparsed("method call `.%s(..)` as a statement" % name)
            if e0[0] == "call" and e0[1][0] == "path" and len(e0[1][1]) == 1:
                fname, cargs = e0[1][1][0], e0[2]
                fb = self.lookup(fname)
                pass
            if e0[0] == "call" and e0[1] == ("path", ["std", "mem", "swap"]) and len(e0[2]) == 2:
                a0, a1 = strip(e0[2][0]), strip(e0[2][1])
                if a0 == ("path", ["self"]) and self.lookup("self") == ("place", "STORE") and a1[0] == "path" \
                        and len(a1[1]) == 1 and (self.lookup(a1[1][0]) or ("",))[0] == "other":
                    return [("swapSelfOther", self.lookup(a1[1][0])[1])]
                raise Unparsed("`std::mem::swap` that is not `swap(self, other)`")
            if e0[0] == "call" and e0[1][0] == "path" and len(e0[1][1]) == 1:
                fname, cargs = e0[1][1][0], e0[2]
                fb = self.lookup(fname)
                if fname == "swap" and fb is None and len(cargs) == 2:
                    a0, a1 = strip(cargs[0]), strip(cargs[1])
                    b0 = self.lookup(a0[1][0]) if a0[0] == "path" and len(a0[1]) == 1 else None
                    b1 = self.lookup(a1[1][0]) if a1[0] == "path" and len(a1[1]) == 1 else None
                    if b0 and b1 and b0[0] == "slotP" and b1[0] == "P" and cargs[1][0] == "ref":
                        return [("swapSlotPrio", ("var", b0[1]), b1[1])]
                    raise Unparsed("`swap` that is not `swap(p, &mut local)` on a priority slot of the map")
                if fb and fb[0] == "V" and len(cargs) == 1:
                    a0 = strip(cargs[0])
                    b0 = self.lookup(a0[1][0]) if a0[0] == "path" and len(a0[1]) == 1 else None
                    if b0 and b0[0] == "slotP":
                        return [("applySetterSlot", fb[1], ("var", b0[1]))]
                    raise Unparsed("call of a closure that is not `setter(p)` on a priority slot of the map")
            raise Unparsed("expression statement of form `%s`" % e0[0])
        raise Unparsed("statement `%s`" % t)


def ret_kind(rtoks):
    txt = " ".join(v for k, v in rtoks if k != "life")
    txt = txt.split("where")[0].strip()
    if txt == "":
        return None
    if txt in ("-> Position", "-> Index", "-> usize"):
        return "N"
    if txt == "-> & P":
        return "P"
    if txt == "-> Drain < '_ , I , P >" or txt == "-> Drain < I , P >" or txt == "-> Drain < , I , P >":
        return "D"
    if txt == "-> Option < ( P , Position ) >":
        return "OPN"
    if txt == "-> Option < Position >":
        return "ON"
    if txt == "-> Self":
        return "SELF"
    if txt in ("-> Result < Self :: Value , A :: Error >",):
        return "RES"
    if txt in ("-> Result < PriorityQueue < I , P , H > , D :: Error >",
               "-> Result < DoublePriorityQueue < I , P , H > , D :: Error >"):
        return "RESQ"
    if txt == "-> Option < P >":
        return "OP"
    if txt == "-> bool":
        return "B"
    if txt == "-> Option < ( & I , & P ) >":
        return "E"
    if txt == "-> Option < ( & mut I , & P ) >":
        return "EM"
    if txt == "-> Option < ( I , P ) >":
        return "E"
    if txt == "-> Option < ( I , P , Position ) >":
        return "R"
    raise Unparsed("return type `%s`" % txt)


def param_binding(lw, name, ty):
    if name == "self":
        return ("place", {"store": "STORE", "pq": "QUEUE", "dq": "QUEUE", "ctor": "VISITOR", "pqctor": "VISITOR",
                          "dqctor": "VISITOR"}[lw.owner]), None
    if ty in ("Position", "Index", "usize"):
        v = lw.fresh(name, "N")
        return ("N", v), ("n", v)
    if ty == "& P":
        v = lw.fresh(name, "P")
        return ("P", v), ("p", v)
    if ty == "P":
        v = lw.fresh(name, "P")
        return ("P", v), ("p", v)
    if name == "self" and False:
        pass
    if ty == "Vec < ( I , P ) >":
        v = lw.fresh(name, "S")
        return ("S", v), ("v", v)
    if ty in ("IT", "T"):
        v = lw.fresh(name, "IT")
        return ("IT", v), ("v", v)
    if ty in ("A", "D"):
        v = lw.fresh(name, "SEQ")
        return ("SEQ", v), ("v", v)
    if ty == "I":
        v = lw.fresh(name, "I")
        return ("I", v), ("v", v)
    if ty == "& mut Self" and lw.owner in ("pq", "dq"):
        v = lw.fresh(name + ".store", "V")
        lw.other_reg = v
        return ("otherq", v), ("v", v)
    if ty in ("DoublePriorityQueue < I , P , H >", "PriorityQueue < I , P , H >") and lw.owner in ("pq", "dq"):
        return ("place", "QUEUE"), None
    if ty == "& mut Self" and lw.owner == "store":
        v = lw.fresh(name, "V")
        lw.other_reg = v
        return ("other", v), ("v", v)
    if ty == "F":                                    # a user closure (predicate or setter): opaque, in a value register
        v = lw.fresh(name, "V")
        return ("V", v), ("v", v)
    if ty == "& IndexMap < I , P , H >":
        return ("place", "MAP"), None
    if ty == "& mut Hole":
        vp = lw.fresh(name + ".position", "N")
        vm = lw.fresh(name + ".map_position", "N")
        lw.byref_hole = vp
        return ("hole", {"heap": ("place", "HEAP"), "qp": ("place", "QP"), "position": ("N", vp),
                         "map_position": ("N", vm)}), ("nn", (vp, vm))
    if ty == "& Q":                                  # a key that is looked up in the map
        v = lw.fresh(name, "K")
        return ("K", v), ("n", v)
    raise Unparsed("parameter `%s: %s`" % (name, ty))


def lower_function(fnid, file, rust, owner, sites, sources, selector=None):
    fs = find_fns(sources[file], rust)
    if selector is not None:
        fs = [f for f in fs if f[0] and f[0][0][1].startswith(selector)]
    if len(fs) != 1:
        raise Unparsed("expected exactly one `fn %s` in %s, found %d" % (rust, file, len(fs)))
    params, rtoks, btoks, fn_idx = fs[0]
    check_fn_context(sources[file], fn_idx, fnid, "`%s`" % rust)
    lw = Lower(fnid, owner, sites, sources)
    nparams, pparams, vparams = [], [], []
    for name, ty in params:
        b, reg = param_binding(lw, name, ty)
        lw.scopes[0][name] = b
        if reg and reg[0] == "nn":
            nparams += list(reg[1])
        elif reg:
            {"n": nparams, "p": pparams, "v": vparams}[reg[0]].append(reg[1])
    rk = ret_kind(rtoks)
    lw.ret_kind = rk
    body = lw.block_stmts(parse_fn_body(btoks, fnid), rk)
    if lw.other_reg is not None:
        # an `other: &mut Self` parameter: the IR function hands back the second store
        if rk is not None:
            raise Unparsed("function with an `other: &mut Self` parameter and a result")
        body = body + [("retV", lw.other_reg)]
    if lw.byref_hole is not None:
        # a `&mut Hole` parameter: the IR function returns the hole's final position
        if rk is not None:
            raise Unparsed("function with a `&mut Hole` parameter and a result")
        body = body + [("retN", ("var", lw.byref_hole))]
    if lw.site_i != len(sites):
        raise Unparsed("fewer fault-carrying accesses (%d) than the site table of %s lists (%d)" % (lw.site_i, fnid, len(sites)))
    if lw.live_holes:
        # the guard is modelled as armed for the whole frame: nothing that can panic (a comparison, a call, a loop) may
        # precede the creation of the hole
        hole_regs = [f[1] for h in lw.live_holes for f in h[1].values() if f[0] == "N"]
        first = next((i for i, st in enumerate(body) if st[0] == "setN" and st[1] in hole_regs), None)

        def has_panic(x):
            if isinstance(x, tuple):
                return (len(x) > 0 and x[0] in ("ltP", "gtP", "pcall", "call", "callN", "callX", "callV", "whileRef",
                                                "firstMinBy", "lastMaxBy", "lastMaxByPos", "prioMapOrGt", "prioMapOrLt",
                                                "optCallN", "forEntries", "forRev")) or any(has_panic(y) for y in x)
            if isinstance(x, list):
                return any(has_panic(y) for y in x)
            return False
        if first is None or has_panic(body[:first]):
            raise Unparsed("something that can panic precedes the creation of the hole")
    return {"nparams": nparams, "pparams": pparams, "vparams": vparams, "body": body, "loops": lw.loops, "vars": lw.vars,
            "unwind": lw.unwind_code, "byref": lw.byref_hole is not None}


# ----------------------------------------------------------------------------------------------------
# printing
# ----------------------------------------------------------------------------------------------------

def pn(x):
    t = x[0]
    if t == "lit": return "(.lit %d)" % x[1]
    if t == "var": return "(.var %d)" % x[1]
    if t == "len": return ".len"
    if t == "mapLen": return ".mapLen"
    if t in ("otherSize", "entriesLen"): return "(.%s %d)" % (t, x[1])
    if t in ("add", "mul", "div", "mod", "min"): return "(.%s %s %s)" % (t, pn(x[1]), pn(x[2]))
    if t == "iterLo": return "(.iterLo %d)" % x[1]
    if t == "sub": return "(.sub %d %s %s)" % (x[1], pn(x[2]), pn(x[3]))
    if t in ("left", "right", "level"): return "(.%s %s)" % (t, pn(x[1]))
    if t in ("parent", "heapGetU", "qpGetU"): return "(.%s %d %s)" % (t, x[1], pn(x[2]))
    raise AssertionError(t)


def pns(xs):
    return "[" + ", ".join(pn(x) for x in xs) + "]"


def pp(x):
    t = x[0]
    if t == "pvar": return "(.var %d)" % x[1]
    if t == "mapPrio": return "(.mapPrio %d %s)" % (x[1], pn(x[2]))
    if t == "pcall": return "(.call .%s %s)" % (x[1], pns(x[2]))
    raise AssertionError(t)


def pps(xs):
    return "[" + ", ".join(pp(x) for x in xs) + "]"


def pb(x):
    t = x[0]
    if t in ("tt", "ff"): return "." + t
    if t in ("ltN", "leN", "gtN", "geN", "eqN", "neN"): return "(.%s %s %s)" % (t, pn(x[1]), pn(x[2]))
    if t in ("ltP", "gtP"): return "(.%s %s %s)" % (t, pp(x[1]), pp(x[2]))
    if t == "and": return "(.and %s %s)" % (pb(x[1]), pb(x[2]))
    if t == "not": return "(.not %s)" % pb(x[1])
    if t == "mapInsertIsNone": return "(.mapInsertIsNone %d %s)" % (x[1], pp(x[2]))
    if t == "betterToRebuild": return "(.betterToRebuild %s %s)" % (pn(x[1]), pn(x[2]))
    if t in ("prioMapOrGt", "prioMapOrLt"): return "(.%s %d %s)" % (t, x[1], pp(x[2]))
    if t == "containsKey": return "(.containsKey %d)" % x[1]
    if t == "predAt": return "(.predAt %d %d)" % (x[1], x[2])
    if t == "isSomeV": return "(.isSomeV %d)" % x[1]
    raise AssertionError(t)


def pstmts(ss, ind):
    """a statement list as a right-nested `.seq`"""
    pad = " " * ind
    if not ss:
        return pad + ".skip"
    if len(ss) == 1:
        return pstmt(ss[0], ind)
    return pad + "(.seq\n" + pstmt(ss[0], ind + 2) + "\n" + pstmts(ss[1:], ind + 2) + ")"


def pstmt(s, ind):
    pad = " " * ind
    t = s[0]
    if t == "setN": return pad + "(.setN %d %s)" % (s[1], pn(s[2]))
    if t == "setP": return pad + "(.setP %d %s)" % (s[1], pp(s[2]))
    if t == "callN": return pad + "(.callN %d .%s %s %s)" % (s[1], s[2], pns(s[3]), pps(s[4]))
    if t == "call": return pad + "(.call .%s %s %s)" % (s[1], pns(s[2]), pps(s[3]))
    if t == "ite":
        return pad + "(.ite %s\n%s\n%s)" % (pb(s[1]), pstmts(s[2], ind + 2), pstmts(s[3], ind + 2))
    if t == "whileRef": return pad + "(.while %s_cond %s_body)" % (s[1], s[1])
    if t == "partRef": return pad + s[1]
    if t == "forRev": return pad + "(.forRev %d %s\n%s)" % (s[1], pn(s[2]), pstmts(s[3], ind + 2))
    if t in ("brk", "ret"): return pad + "." + t
    if t == "retN": return pad + "(.retN %s)" % pn(s[1])
    if t == "retP": return pad + "(.retP %s)" % pp(s[1])
    if t in ("heapSetU", "qpSetU", "heapSwap", "qpSwap"):
        return pad + "(.%s %d %s %s)" % (t, s[1], pn(s[2]), pn(s[3]))
    if t == "sizeDec": return pad + "(.sizeDec %d)" % s[1]
    if t in ("firstMinBy", "lastMaxBy"): return pad + "(.%s %d %d %d %s)" % (t, s[1], s[2], s[3], pns(s[4]))
    if t == "lastMaxByPos": return pad + "(.lastMaxByPos %d %d %s)" % (s[1], s[2], pns(s[3]))
    if t == "retSomeN": return pad + "(.retSomeN %s)" % pn(s[1])
    if t in ("heapClear", "qpClear", "mapClear", "retMapDrain", "retNonePN", "sizeInc", "retNoneP", "retNoneSlot",
             "storeNew"):
        return pad + "." + t
    if t in ("storeNewCap", "reserve"): return pad + "(.%s %s)" % (t, pn(s[1]))
    if t == "fullMut2": return pad + "(.fullMut2 %d %d %d)" % (s[1], s[2], s[3])
    if t == "slotSetItem": return pad + "(.slotSetItem %s %d)" % (pn(s[1]), s[2])
    if t == "slotSetPrio": return pad + "(.slotSetPrio %s %s)" % (pn(s[1]), pp(s[2]))
    if t == "ifSeqHint":
        return pad + "(.ifSeqHint %d %d\n%s\n%s)" % (s[1], s[2], pstmts(s[3], ind + 2), pstmts(s[4], ind + 2))
    if t == "adaptPred": return pad + "(.adaptPred %d %d)" % (s[1], s[2])
    if t == "appendOther": return pad + "(.appendOther %d)" % s[1]
    if t == "callX":
        return pad + "(.callX %d .%s %s %s %s)" % (s[1], s[2], pns(s[3]), pps(s[4]), json.dumps(s[5]))
    if t in ("retMapGetIndex", "retMapGetIndexMut2"): return pad + "(.%s %s)" % (t, pn(s[1]))
    if t == "setVNoneP": return pad + "(.setVNoneP %d)" % s[1]
    if t == "entryMatch":
        return pad + "(.entryMatch %d %d\n%s\n%s)" % (s[1], s[2], pstmts(s[3], ind + 2), pstmts(s[4], ind + 2))
    if t == "replaceSlotPrio": return pad + "(.replaceSlotPrio %d %s %s)" % (s[1], pn(s[2]), pp(s[3]))
    if t == "vacantInsert": return pad + "(.vacantInsert %d %s)" % (s[1], pp(s[2]))
    if t == "retSomeP": return pad + "(.retSomeP %s)" % pp(s[1])
    if t == "mapChanged": return pad + "(.mapChanged %d %s %d\n%s)" % (s[1], pp(s[2]), s[3], pstmts(s[4], ind + 2))
    if t == "mapChangedBy": return pad + "(.mapChangedBy %d %d %d\n%s)" % (s[1], s[2], s[3], pstmts(s[4], ind + 2))
    if t == "swapSelfOther": return pad + "(.swapSelfOther %d)" % s[1]
    if t == "drainOther": return pad + "(.drainOther %d %d)" % (s[1], s[2])
    if t == "forEntries": return pad + "(.forEntries %d %d %d\n%s)" % (s[1], s[2], s[3], pstmts(s[4], ind + 2))
    if t == "mapInsert": return pad + "(.mapInsert %d %s)" % (s[1], pp(s[2]))
    if t in ("heapPush", "qpPush"): return pad + "(.%s %s)" % (t, pn(s[1]))
    if t in ("sizeSet", "heapSetRange", "qpSetRange"): return pad + "(.%s %s)" % (t, pn(s[1]))
    if t == "mapRetain2": return pad + "(.mapRetain2 %d)" % s[1]
    if t == "entryMut2": return pad + "(.entryMut2 %d %s)" % (s[1], pn(s[2]))
    if t == "swapSlotPrio": return pad + "(.swapSlotPrio %s %d)" % (pn(s[1]), s[2])
    if t == "applySetterSlot": return pad + "(.applySetterSlot %d %s)" % (s[1], pn(s[2]))
    if t == "retSomePN": return pad + "(.retSomePN %s %s)" % (pp(s[1]), pn(s[2]))
    if t == "getFullMutThen":
        return pad + "(.getFullMutThen %d %d\n%s\n%s)" % (s[1], s[2], pstmts(s[3], ind + 2), pstmts(s[4], ind + 2))
    if t == "callV": return pad + "(.callV %d .%s %s)" % (s[1], s[2], pns(s[3]))
    if t == "retV": return pad + "(.retV %d)" % s[1]
    if t == "retNoneE": return pad + ".retNoneE"
    if t == "optCallN":
        return pad + "(.optCallN %d .%s %s\n%s\n%s)" % (s[1], s[2], pns(s[3]), pstmts(s[4], ind + 2), pstmts(s[5], ind + 2))
    if t == "mapRemoved": return pad + "(.mapRemoved %d %d\n%s)" % (s[1], s[2], pstmts(s[3], ind + 2))
    if t == "retNone": return pad + ".retNone"
    if t == "match2":
        return pad + "(.match2 %s %s\n%s\n%s\n%s\n%s)" % (pb(s[1]), pb(s[2]), pstmts(s[3], ind + 2), pstmts(s[4], ind + 2),
                                                          pstmts(s[5], ind + 2), pstmts(s[6], ind + 2))
    if t == "ifHeapGet":
        return pad + "(.ifHeapGet %d %s\n%s\n%s)" % (s[1], pn(s[2]), pstmts(s[3], ind + 2), pstmts(s[4], ind + 2))
    if t in ("heapSwapRemove", "qpSwapRemove"): return pad + "(.%s %d %d %s)" % (t, s[1], s[2], pn(s[3]))
    if t == "retMapSwapRemoveIndex": return pad + "(.retMapSwapRemoveIndex %s)" % pn(s[1])
    if t == "removeFullThen":
        return pad + "(.removeFullThen %d %d\n%s\n%s  %s)" % (s[1], s[2], pstmts(s[3], ind + 2), pad, pn(s[4]))
    if t == "setVSlot": return pad + "(.setVSlot %d %s)" % (s[1], pn(s[2]))
    if t == "retCursor": return pad + "(.retCursor %s %s)" % (pns(s[1]), po(s[2]))
    if t == "retImapIter": return pad + "(.retImapIter .%s)" % s[1]
    if t == "retMapItems": return pad + ".retMapItems"
    if t == "itemsNew": return pad + "(.itemsNew %d)" % s[1]
    if t == "itemsPush": return pad + "(.itemsPush %d %d)" % (s[1], s[2])
    if t == "whileSomeCall": return pad + "(.whileSomeCall %d .%s\n%s)" % (s[1], s[2], pstmts(s[3], ind + 2))
    if t == "retMapEqBy": return pad + "(.retMapEqBy %d %d)" % (s[1], s[2])
    if t == "setVMapEntries": return pad + "(.setVMapEntries %d)" % s[1]
    if t == "serBegin": return pad + "(.serBegin %d %s)" % (s[1], pn(s[2]))
    if t == "serElement": return pad + "(.serElement %d %d %d)" % (s[1], s[2], s[3])
    raise AssertionError(t)


def po(o):
    t = o[0]
    if t in ("none", "slotNone"): return "." + t
    if t == "slotV": return "(.slotV %d)" % o[1]
    if t in ("slotAt", "len", "hint"): return "(.%s %s)" % (t, pn(o[1]))
    raise AssertionError(t)


def emit(results, unparsed, caps=None, cap_unparsed=None):
    L = ["import PQ.Model.Src",
         "import PQ.Model.SrcCap",
         "/-! GENERATED by /verif/tools/gen_src.py from /repo/src/store.rs, /repo/src/priority_queue/{mod,iterators}.rs,",
         "    /repo/src/double_priority_queue/{mod,iterators}.rs and /repo/src/core_iterators.rs — do not edit.  One `Option Fn` per translated Rust function (`none`: the",
         "    function left the supported subset, see the translator's report); `prog` is the table the interpreter",
         "    `PQ.Src.run` looks callees up in.  The loops are separate definitions so that lemmas can name them. -/",
         "namespace PQ.SrcGen",
         "open PQ.Src",
         ""]
    for fnid in ALL_FNIDS:
        if fnid in results:
            r = results[fnid]
            # (the names of the Rust locals are kept out of the generated file: renaming a local must not change it;
            #  they are listed in the translator's JSON report under "registers")
            L.append("/-! `%s`: %d registers -/" % (fnid, len(r["vars"])))
            for name, c, body in r["loops"]:
                L.append("def %s_cond : BExpr :=\n  %s" % (name, pb(c)))
                L.append("")
                L.append("def %s_body : Stmt :=\n%s" % (name, pstmts(body, 2)))
                L.append("")
            # the top level of the body is cut at its loops: `<fn>_part<k>` are the loop-free stretches
            segs, cur = [], []
            for st in r["body"]:
                if st[0] == "whileRef":
                    if cur: segs.append(("part", cur)); cur = []
                    segs.append(("loop", st))
                else:
                    cur.append(st)
            if cur: segs.append(("part", cur))
            if any(k == "loop" for k, _ in segs):
                top, np_ = [], 0
                for k, x in segs:
                    if k == "part":
                        np_ += 1
                        L.append("def %s_part%d : Stmt :=\n%s" % (fnid, np_, pstmts(x, 2)))
                        L.append("")
                        top.append(("partRef", "%s_part%d" % (fnid, np_)))
                    else:
                        top.append(x)
                L.append("def %s_body : Stmt :=\n%s" % (fnid, pstmts(top, 2)))
            else:
                L.append("def %s_body : Stmt :=\n%s" % (fnid, pstmts(r["body"], 2)))
            L.append("")
            vp = (", vparams := %s" % json.dumps(r["vparams"])) if r.get("vparams") else ""
            L.append("def %s : Option Fn :=\n  some { nparams := %s, pparams := %s, body := %s_body%s }"
                     % (fnid, json.dumps(r["nparams"]), json.dumps(r["pparams"]), fnid, vp))
        else:
            why = unparsed.get(fnid, NOT_IN_SOURCE.get(fnid, "not translated"))
            L.append("/-- `%s`: %s -/" % (fnid, why.replace("-/", "- /")))
            L.append("def %s : Option Fn := none" % fnid)
        L.append("")
    L.append("/-! what runs when a panic unwinds through a frame (`Drop for Hole` of the guard the frame owns), and whether the")
    L.append("    function received its hole by `&mut` (then its current `hole.position` goes back to the owner): see")
    L.append("    `PQ/Model/SrcF.lean` -/")
    for fnid in ALL_FNIDS:
        if fnid in results and results[fnid].get("unwind"):
            L.append("def %s_unwind : Stmt :=\n%s" % (fnid, pstmts(results[fnid]["unwind"], 2)))
            L.append("")
    L.append("def unwind : FnId → Stmt × Bool")
    for fnid in ALL_FNIDS:
        if fnid in results and results[fnid].get("unwind"):
            L.append("  | .%s => (%s_unwind, false)" % (fnid, fnid))
        elif fnid in results and results[fnid].get("byref"):
            L.append("  | .%s => (.skip, true)" % fnid)
    L.append("  | _ => (.skip, false)")
    L.append("")
    L.append("def prog : Prog")
    for fnid in ALL_FNIDS:
        L.append("  | .%s => %s" % (fnid, fnid))
    L.append("")
    L.append("/-! the capacity forwards of `src/store.rs` (see `PQ/Model/SrcCap.lean`); `none`: refused by the translator -/")
    for name, rust in CAP_FUNCS:
        if caps and name in caps:
            L.append("def %s : Option (List PQ.SrcCap.CapStmt) :=\n  some %s" % (name, pcap(caps[name])))
        else:
            L.append("/-- `Store::%s`: %s -/" % (rust, ((cap_unparsed or {}).get(name, "not translated")).replace("-/", "- /")))
            L.append("def %s : Option (List PQ.SrcCap.CapStmt) := none" % name)
        L.append("")
    L.append("end PQ.SrcGen")
    return "\n".join(L) + "\n"



# ----------------------------------------------------------------------------------------------------
# phase 6: the iterators, the capacity forwards and the other small functions
# ----------------------------------------------------------------------------------------------------
# These functions live in `impl` blocks that are told apart by (trait, type); their bodies are short and are lowered by the
# small pattern matcher below (on the same AST as everything else).  The raw-pointer reborrow of `IterMut::next` /
# `next_back` contains `as` casts and closures: it is recognised token by token and replaced by the trusted primitive
# "yield slot" before parsing.
PQ_IT_RS = "src/priority_queue/iterators.rs"
DQ_IT_RS = "src/double_priority_queue/iterators.rs"
CORE_IT_RS = "src/core_iterators.rs"
SMALL_FILES = (PQ_IT_RS, DQ_IT_RS, CORE_IT_RS)


def tok_vals(text):
    return [t[1] for t in tokenize(text)]


def yield_tokens(field):
    return tok_vals("self.pq.store.map.get_index_mut2(self.%s).map(|(i, p)| (i as *mut I, p as *mut P))"
                    ".map(|(i, p)| unsafe { (i.as_mut().unwrap(), p.as_mut().unwrap()) })" % field)


def replace_yield(btoks):
    """the reborrow chain -> `__yield_slot(self.<field>)`"""
    out, i = [], 0
    vals = [t[1] for t in btoks]
    pats = [(f, yield_tokens(f)) for f in ("pos", "back")]
    while i < len(btoks):
        for f, pat in pats:
            if vals[i:i + len(pat)] == pat:
                out += [("id", "__yield_slot"), ("op", "("), ("id", "self"), ("op", "."), ("id", f), ("op", ")")]
                i += len(pat)
                break
        else:
            out.append(btoks[i])
            i += 1
    return out


def find_impls(toks):
    """[(trait or None, type, [attrs], open index, close index)] for every `impl` item at the top level of the file"""
    res, i, depth = [], 0, 0
    while i < len(toks):
        v = toks[i][1]
        if v == "{": depth += 1
        elif v == "}": depth -= 1
        elif v == "impl" and toks[i][0] == "id" and depth == 0:
            j, d, hdr = i + 1, 0, []
            while not (toks[j][1] == "{" and d == 0):
                if toks[j][1] == "<": d += 1
                elif toks[j][1] == ">": d -= 1
                elif d == 0: hdr.append(toks[j][1])
                j += 1
            if "where" in hdr:
                hdr = hdr[:hdr.index("where")]
            hdr = [h for h in hdr if h not in ("::",)]
            if "for" in hdr:
                k = hdr.index("for")
                trait, ty = hdr[k - 1], hdr[k + 1]
            else:
                trait, ty = None, hdr[0]
            attrs, _ = split_attrs(item_header(toks, i))
            d, k = 0, j
            while True:
                if toks[k][1] == "{": d += 1
                elif toks[k][1] == "}": d -= 1
                k += 1
                if d == 0: break
            res.append((trait, ty, attrs, j, k))
            i = j
            continue
        i += 1
    return res


def impl_fns(toks, impl):
    """names of the `fn` items directly inside an impl block"""
    _, _, _, a, b = impl
    names, d = [], 0
    for k in range(a, b):
        v = toks[k][1]
        if v == "{": d += 1
        elif v == "}": d -= 1
        elif v == "fn" and toks[k][0] == "id" and d == 1:
            names.append(toks[k + 1][1])
    return names


def wrapper_shape(t):
    return [("Iterator", t, ["next", "size_hint"]), ("DoubleEndedIterator", t, ["next_back"]),
            ("ExactSizeIterator", t, ["len"]), ("FusedIterator", t, [])]


# every impl block of the three iterator files, in source order: (trait, type, methods).  A method that is NOT here (e.g. a
# `size_hint` of the PriorityQueue's `IterMut`) is the trait's default; the hand model says so too (PQ/Model/Iter.lean).
IMPL_SHAPE = {
    PQ_IT_RS: [(None, "IterMut", ["new"]), ("Iterator", "IterMut", ["next"]), ("Drop", "IterMut", ["drop"]),
               ("Iterator", "IntoSortedIter", ["next"])],
    DQ_IT_RS: [(None, "IterMut", ["new"]), ("Iterator", "IterMut", ["next", "size_hint"]),
               ("DoubleEndedIterator", "IterMut", ["next_back"]), ("ExactSizeIterator", "IterMut", ["len"]),
               ("FusedIterator", "IterMut", []), ("Drop", "IterMut", ["drop"]),
               ("Iterator", "IntoSortedIter", ["next", "size_hint"]), ("DoubleEndedIterator", "IntoSortedIter", ["next_back"]),
               ("ExactSizeIterator", "IntoSortedIter", ["len"]), ("FusedIterator", "IntoSortedIter", [])],
    CORE_IT_RS: wrapper_shape("Drain") + wrapper_shape("Iter") + wrapper_shape("IntoIter"),
}
SMALL_STRUCTS = {
    PQ_IT_RS: ["#[cfg(feature = \"std\")] pub struct IterMut<'a, I: 'a, P: 'a, H: 'a = RandomState> where P: Ord, { "
               "pq: &'a mut PriorityQueue<I, P, H>, pos: usize, }",
               "#[cfg(not(feature = \"std\"))] pub struct IterMut<'a, I: 'a, P: 'a, H: 'a> where P: Ord, { "
               "pq: &'a mut PriorityQueue<I, P, H>, pos: usize, }",
               "#[cfg(feature = \"std\")] pub struct IntoSortedIter<I, P, H = RandomState> { "
               "pub(crate) pq: PriorityQueue<I, P, H>, }",
               "#[cfg(not(feature = \"std\"))] pub struct IntoSortedIter<I, P, H> { pub(crate) pq: PriorityQueue<I, P, H>, }"],
    DQ_IT_RS: ["#[cfg(feature = \"std\")] pub struct IterMut<'a, I: 'a, P: 'a, H: 'a = RandomState> where P: Ord, { "
               "pq: &'a mut DoublePriorityQueue<I, P, H>, pos: usize, back: usize, }",
               "#[cfg(not(feature = \"std\"))] pub struct IterMut<'a, I: 'a, P: 'a, H: 'a> where P: Ord, { "
               "pq: &'a mut DoublePriorityQueue<I, P, H>, pos: usize, back: usize, }",
               "#[cfg(feature = \"std\")] pub struct IntoSortedIter<I, P, H = RandomState> where P: Ord, { "
               "pub(crate) pq: DoublePriorityQueue<I, P, H>, }",
               "#[cfg(not(feature = \"std\"))] pub struct IntoSortedIter<I, P, H> where P: Ord, { "
               "pub(crate) pq: DoublePriorityQueue<I, P, H>, }"],
    CORE_IT_RS: ["pub struct Drain<'a, I: 'a, P: 'a> { pub(crate) iter: ::indexmap::map::Drain<'a, I, P>, }",
                 "pub struct Iter<'a, I: 'a, P: 'a> { pub(crate) iter: ::indexmap::map::Iter<'a, I, P>, }",
                 "pub struct IntoIter<I, P> { pub(crate) iter: ::indexmap::map::IntoIter<I, P>, }"],
}
# (FnId, file, (trait, type) or None for "the only fn of that name in the file", rust name, kind of lowering)
SMALL_FUNCS = [
    ("pqIterMutNew", PQ_IT_RS, (None, "IterMut"), "new", "cursor:pos"),
    ("pqIterMutNext", PQ_IT_RS, ("Iterator", "IterMut"), "next", "cursor:pos"),
    ("pqIterMutDrop", PQ_IT_RS, ("Drop", "IterMut"), "drop", "cursor:pos"),
    ("pqSortedNext", PQ_IT_RS, ("Iterator", "IntoSortedIter"), "next", "sorted:pq"),
    ("dqIterMutNew", DQ_IT_RS, (None, "IterMut"), "new", "cursor:pos,back"),
    ("dqIterMutNext", DQ_IT_RS, ("Iterator", "IterMut"), "next", "cursor:pos,back"),
    ("dqIterMutSizeHint", DQ_IT_RS, ("Iterator", "IterMut"), "size_hint", "cursor:pos,back"),
    ("dqIterMutNextBack", DQ_IT_RS, ("DoubleEndedIterator", "IterMut"), "next_back", "cursor:pos,back"),
    ("dqIterMutLen", DQ_IT_RS, ("ExactSizeIterator", "IterMut"), "len", "cursor:pos,back"),
    ("dqIterMutDrop", DQ_IT_RS, ("Drop", "IterMut"), "drop", "cursor:pos,back"),
    ("dqSortedNext", DQ_IT_RS, ("Iterator", "IntoSortedIter"), "next", "sorted:dq"),
    ("dqSortedSizeHint", DQ_IT_RS, ("Iterator", "IntoSortedIter"), "size_hint", "sorted:dq"),
    ("dqSortedNextBack", DQ_IT_RS, ("DoubleEndedIterator", "IntoSortedIter"), "next_back", "sorted:dq"),
    ("dqSortedLen", DQ_IT_RS, ("ExactSizeIterator", "IntoSortedIter"), "len", "sorted:dq"),
] + [(w + m[0], CORE_IT_RS, (m[1], t), m[2], "wrapper")
     for w, t in (("drain", "Drain"), ("iter", "Iter"), ("intoIter", "IntoIter"))
     for m in (("Next", "Iterator", "next"), ("SizeHint", "Iterator", "size_hint"),
               ("NextBack", "DoubleEndedIterator", "next_back"), ("Len", "ExactSizeIterator", "len"))] + [
    ("storeIntoVec", STORE_RS, None, "into_vec", "intovec:store"),
    ("pqIntoVec", PQ_RS, None, "into_vec", "intovec:queue"),
    ("dqIntoVec", DQ_RS, None, "into_vec", "intovec:queue"),
    ("pqIntoSortedVec", PQ_RS, None, "into_sorted_vec", "sortedvec:pq"),
    ("dqIntoAscVec", DQ_RS, None, "into_ascending_sorted_vec", "sortedvec:dq"),
    ("dqIntoDescVec", DQ_RS, None, "into_descending_sorted_vec", "sortedvec:dq"),
    ("storeEq", STORE_RS, None, "eq", "eq"),
    ("storeSerialize", STORE_RS, None, "serialize", "serialize"),
]
CAP_FUNCS = [("capReserve", "reserve"), ("capReserveExact", "reserve_exact"), ("capTryReserve", "try_reserve"),
             ("capTryReserveExact", "try_reserve_exact"), ("capShrinkToFit", "shrink_to_fit"), ("capCapacity", "capacity")]
CAP_METHODS = {"reserve": "reserve", "reserve_exact": "reserveExact", "try_reserve": "tryReserve",
               "try_reserve_exact": "tryReserveExact", "shrink_to_fit": "shrinkToFit", "capacity": "capacity"}
POP_FNS = {"pq": {"pop": "pqPop"}, "dq": {"pop_min": "dqPopMin", "pop_max": "dqPopMax"}}
SMALL_EXPECTED_DEFS = {
    "next": {CORE_IT_RS: 3, DQ_IT_RS: 2, PQ_IT_RS: 2},
    "next_back": {CORE_IT_RS: 3, DQ_IT_RS: 2},
    "size_hint": {CORE_IT_RS: 3, DQ_IT_RS: 2},
    "into_vec": {DQ_RS: 1, PQ_RS: 1, STORE_RS: 1},
    "into_sorted_vec": {PQ_RS: 1},
    "into_ascending_sorted_vec": {DQ_RS: 1},
    "into_descending_sorted_vec": {DQ_RS: 1},
    "eq": {DQ_RS: 1, PQ_RS: 1, STORE_RS: 1},
    "serialize": {DQ_RS: 1, PQ_RS: 1, STORE_RS: 1},
    "reserve": {DQ_RS: 1, PQ_RS: 1, STORE_RS: 1},
    "reserve_exact": {DQ_RS: 1, PQ_RS: 1, STORE_RS: 1},
    "try_reserve": {DQ_RS: 1, PQ_RS: 1, STORE_RS: 1},
    "try_reserve_exact": {DQ_RS: 1, PQ_RS: 1, STORE_RS: 1},
    "shrink_to_fit": {DQ_RS: 1, PQ_RS: 1, STORE_RS: 1},
    "capacity": {DQ_RS: 1, PQ_RS: 1, STORE_RS: 1},
}


def small_checks(sources):
    """the shape of the iterator files that the phase-6 functions rely on"""
    problems = []
    try:
        texts = all_src_files()
    except (OSError, Unparsed) as ex:
        return ["cannot read the sources: %s" % ex]
    for file, text in texts.items():
        if re.search(r"\bmacro_rules\b", text):
            problems.append("`macro_rules!` in %s" % file)
    for file, shape in IMPL_SHAPE.items():
        toks = sources.get(file) or []
        got = []
        for im in find_impls(toks):
            if im[2]:
                problems.append("%s: `impl` block with the attribute `%s`" % (file, " ".join(im[2][0])))
            got.append((im[0], im[1], impl_fns(toks, im)))
        if got != shape:
            problems.append("%s: the impl blocks are %s, expected %s" % (file, json.dumps(got), json.dumps(shape)))
    for file, snippets in SMALL_STRUCTS.items():
        text = norm_ws(texts.get(file, ""))
        for sn in snippets:
            if text.count(norm_ws(sn)) != 1:
                problems.append("%s: expected exactly one `%s`" % (file, sn[:70] + ("…" if len(sn) > 70 else "")))
    got = count_defs(texts, set(SMALL_EXPECTED_DEFS))
    for name in sorted(SMALL_EXPECTED_DEFS):
        if got.get(name, {}) != SMALL_EXPECTED_DEFS[name]:
            problems.append("definitions of `fn %s` in the crate: found %s, expected %s"
                            % (name, json.dumps(got.get(name, {}), sort_keys=True),
                               json.dumps(SMALL_EXPECTED_DEFS[name], sort_keys=True)))
    return problems


def small_find(sources, file, sel, rust):
    toks = sources[file]
    fs = find_fns(toks, rust)
    if sel is not None:
        ims = [im for im in find_impls(toks) if (im[0], im[1]) == sel]
        if len(ims) != 1:
            raise Unparsed("expected exactly one `impl %s for %s` in %s" % (sel[0], sel[1], file))
        fs = [f for f in fs if ims[0][3] < f[3] < ims[0][4]]
    if len(fs) != 1:
        raise Unparsed("expected exactly one `fn %s` in %s%s, found %d" % (rust, file, " (%s for %s)" % sel if sel else "", len(fs)))
    return fs[0]


def is_self_field(e, name=None):
    return e[0] == "field" and e[1] == ("path", ["self"]) and (name is None or e[2] == name)


class SmallLower:
    """lowering of the phase-6 functions; `fields`: the `usize` fields of `self` that are passed by reference"""

    def __init__(self, fnid, kind):
        self.fnid = fnid
        self.kind, _, arg = kind.partition(":")
        self.fields = arg.split(",") if self.kind == "cursor" else []
        self.owner = arg if self.kind in ("sorted", "sortedvec") else None
        self.nreg = len(self.fields)
        self.vreg = 0
        self.locals = {}
        self.vars = [(f, "N") for f in self.fields]

    def fresh_n(self, name):
        r = self.nreg; self.nreg += 1
        self.locals[name] = ("N", r); self.vars.append((name, "N"))
        return r

    def fresh_v(self, name):
        r = self.vreg; self.vreg += 1
        self.locals[name] = ("V", r); self.vars.append((name, "V"))
        return r

    def field_reg(self, e):
        if is_self_field(e) and e[2] in self.fields:
            return self.fields.index(e[2])
        raise Unparsed("not a cursor field: %r" % (e,))

    def n(self, e):
        if e[0] == "num": return ("lit", e[1])
        if e[0] == "paren": return self.n(e[1])
        if is_self_field(e) and e[2] in self.fields: return ("var", self.field_reg(e))
        if e[0] == "path" and len(e[1]) == 1 and self.locals.get(e[1][0], ("", 0))[0] == "N":
            return ("var", self.locals[e[1][0]][1])
        if e[0] == "bin" and e[1] == "-":
            return ("sub", self.site(), self.n(e[2]), self.n(e[3]))
        if e[0] == "bin" and e[1] == "+":
            return ("add", self.n(e[2]), self.n(e[3]))
        if e == ("mcall", ("field", ("field", ("path", ["pq"]), "store"), "map"), "len", []):
            return ("mapLen",)
        if e == ("mcall", ("field", ("path", ["self"]), "pq"), "len", []):
            return ("len",)
        if e == ("field", ("field", ("path", ["self"]), "store"), "size") or e == ("field", ("path", ["self"]), "size"):
            return ("len",)
        raise Unparsed("unsupported `usize` expression %r" % (e,))

    def site(self):
        # the checked subtractions of the iterator code, in source order per function
        table = {"dqIterMutLen": [401], "dqIterMutSizeHint": [402], "dqIterMutNextBack": [403]}
        lst = table.get(self.fnid, [])
        k = getattr(self, "_site_i", 0)
        if k >= len(lst):
            raise Unparsed("more checked subtractions than the site table of %s lists" % self.fnid)
        self._site_i = k + 1
        return lst[k]

    def fields_now(self):
        return [("var", i) for i in range(len(self.fields))]

    def ret_cursor(self, o):
        return ("retCursor", self.fields_now(), o)

    def b(self, e):
        ops = {"<": "ltN", "<=": "leN", ">": "gtN", ">=": "geN", "==": "eqN", "!=": "neN"}
        if e[0] == "bin" and e[1] in ops:
            return (ops[e[1]], self.n(e[2]), self.n(e[3]))
        raise Unparsed("unsupported condition %r" % (e,))

    def tail(self, e):
        k = self.kind
        if k == "cursor":
            if e[0] == "path" and e[1] == ["None"]:
                return [self.ret_cursor(("slotNone",))]
            if e[0] == "path" and len(e[1]) == 1 and self.locals.get(e[1][0], ("", 0))[0] == "V":
                return [self.ret_cursor(("slotV", self.locals[e[1][0]][1]))]
            if e[0] == "call" and e[1] == ("path", ["__yield_slot"]) and len(e[2]) == 1:
                return [self.ret_cursor(("slotAt", self.n(e[2][0])))]
            if e[0] == "tuple" and len(e[1]) == 2 and e[1][1] == ("call", ("path", ["Some"]), [e[1][0]]):
                return [self.ret_cursor(("hint", self.n(e[1][0])))]
            if e[0] == "struct" and e[1] == ["IterMut"]:
                names = [f for f, _ in e[2]]
                if names != ["pq"] + self.fields or e[2][0][1] != ("path", ["pq"]):
                    raise Unparsed("unexpected fields in the `IterMut` literal")
                return [("retCursor", [self.n(v) for _, v in e[2][1:]], ("none",))]
            return [self.ret_cursor(("len", self.n(e)))]
        if k == "sorted":
            if e[0] == "mcall" and e[1] == ("field", ("path", ["self"]), "pq") and e[3] == []:
                if e[2] in POP_FNS[self.owner]:
                    r = self.fresh_v("result")
                    return [("callV", r, POP_FNS[self.owner][e[2]], []), ("retV", r)]
                if e[2] == "len":
                    return [("retN", ("len",))]
            if e[0] == "tuple" and len(e[1]) == 2 and e[1][1] == ("call", ("path", ["Some"]), [e[1][0]]):
                return [("retCursor", [], ("hint", self.n(e[1][0])))]
            raise Unparsed("unsupported tail expression of a sorted-iterator method")
        if k == "wrapper":
            calls = {"next": "next", "next_back": "nextBack", "len": "len", "size_hint": "sizeHint"}
            if e[0] == "mcall" and e[1] == ("field", ("path", ["self"]), "iter") and e[3] == [] and e[2] in calls:
                return [("retImapIter", calls[e[2]])]
            raise Unparsed("a wrapper method must be `self.iter.<method>()`")
        raise Unparsed("unsupported tail expression")

    def stmt(self, st):
        if st == ("expr", ("tuple", [])):
            return []                                                   # `use …;`
        if st[0] == "let" and st[1][0] == "pid":
            name, e = st[1][1], st[2]
            if e[0] == "call" and e[1] == ("path", ["__yield_slot"]) and len(e[2]) == 1:
                if self.kind != "cursor": raise Unparsed("reborrow outside an `IterMut`")
                r = self.fresh_v(name)
                return [("setVSlot", r, self.n(e[2][0]))]
            x = self.n(e)
            return [("setN", self.fresh_n(name), x)]
        if st[0] == "assign" and st[2] in ("+=", "-=") and is_self_field(st[1]) and self.kind == "cursor":
            r = self.field_reg(st[1])
            rhs = self.n(st[3])
            if st[2] == "+=":
                return [("setN", r, ("add", ("var", r), rhs))]
            return [("setN", r, ("sub", self.site(), ("var", r), rhs))]
        if st[0] == "expr" and st[1][0] == "if" and st[1][3] is None:
            c, blk = st[1][1], st[1][2]
            if blk[0] == "block" and blk[2] is None and len(blk[1]) == 1 and blk[1][0][0] == "return":
                return [("ite", self.b(c), self.tail(blk[1][0][1]), [])]
            raise Unparsed("unsupported `if` in an iterator method")
        if st[0] == "expr" and st[1] == ("mcall", ("field", ("path", ["self"]), "pq"), "heap_build", []) \
                and self.kind == "cursor":
            return [("call", "pqHeapBuild" if self.fnid.startswith("pq") else "dqHeapBuild", [], [])]
        raise Unparsed("unsupported statement %r" % (st,))

    def body(self, blk):
        out = []
        for st in blk[1]:
            out += self.stmt(st)
        if blk[2] is not None:
            out += self.tail(blk[2])
        return out


def lower_small(fnid, file, sel, rust, kind, sources):
    params, rtoks, btoks, fn_idx = small_find(sources, file, sel, rust)
    check_fn_context(sources[file], fn_idx, fnid, "`%s`" % rust)
    kd = kind.partition(":")[0]
    vals = [t[1] for t in btoks]
    if kd in ("cursor", "sorted", "wrapper"):
        lw = SmallLower(fnid, kind)
        if kd == "wrapper":
            lw.fields = ["front", "back"]; lw.nreg = 2; lw.vars = [("front", "N"), ("back", "N")]
        if rust == "new":
            if [p[0] for p in params] != ["pq"]:
                raise Unparsed("`IterMut::new` must take `pq`")
            lw.nreg = 0
            lw.vars = []
            body = lw.body(parse_fn_body(replace_yield(btoks), fnid))
            return {"nparams": [], "pparams": [], "vparams": [], "body": body, "loops": [], "vars": lw.vars}
        if [p[0] for p in params] != ["self"]:
            raise Unparsed("a method of an iterator must take only `self`")
        body = lw.body(parse_fn_body(replace_yield(btoks), fnid))
        np_ = list(range(len(lw.fields)))
        return {"nparams": np_, "pparams": [], "vparams": [], "body": body, "loops": [], "vars": lw.vars}
    if kd == "intovec":
        if [p[0] for p in params] != ["self"]:
            raise Unparsed("`into_vec` must take only `self`")
        if kind == "intovec:store":
            if vals != tok_vals("{ self.map.into_iter().map(|(i, _)| i).collect() }"):
                raise Unparsed("`Store::into_vec` is not `self.map.into_iter().map(|(i, _)| i).collect()`")
            return {"nparams": [], "pparams": [], "vparams": [], "body": [("retMapItems",)], "loops": [], "vars": []}
        blk = parse_fn_body(btoks, fnid)
        if blk[1] or blk[2] != ("mcall", ("field", ("path", ["self"]), "store"), "into_vec", []):
            raise Unparsed("`into_vec` is not `self.store.into_vec()`")
        return {"nparams": [], "pparams": [], "vparams": [], "body": [("callV", 0, "storeIntoVec", []), ("retV", 0)],
                "loops": [], "vars": [("result", "V")]}
    if kd == "sortedvec":
        owner = kind.partition(":")[2]
        if [p[0] for p in params] != ["self"]:
            raise Unparsed("must take only `self`")
        blk = parse_fn_body(btoks, fnid)
        ok = (len(blk[1]) == 2 and blk[2] == ("path", ["res"])
              and blk[1][0] == ("let", ("pid", "res", True),
                                ("call", ("path", ["Vec", "with_capacity"]),
                                 [("field", ("field", ("path", ["self"]), "store"), "size")]))
              and blk[1][1][0] == "whilelet")
        if not ok:
            raise Unparsed("not the `let mut res = Vec::with_capacity(self.store.size); while let … ; res` shape")
        _, pat, scrut, wb = blk[1][1]
        if pat != ("pctor", ["Some"], [("ptuple", [("pid", "i", False), ("pwild",)])]):
            raise Unparsed("the loop pattern is not `Some((i, _))`")
        if not (scrut[0] == "mcall" and scrut[1] == ("path", ["self"]) and scrut[3] == [] and scrut[2] in POP_FNS[owner]):
            raise Unparsed("the loop does not call a `pop` of the queue")
        if wb != ("block", [("expr", ("mcall", ("path", ["res"]), "push", [("path", ["i"])]))], None):
            raise Unparsed("the loop body is not `res.push(i);`")
        body = [("itemsNew", 0), ("whileSomeCall", 1, POP_FNS[owner][scrut[2]], [("itemsPush", 0, 1)]), ("retV", 0)]
        return {"nparams": [], "pparams": [], "vparams": [], "body": body, "loops": [],
                "vars": [("res", "V"), ("entry", "V")]}
    if kd == "eq":
        if [p[0] for p in params] != ["self", "other"]:
            raise Unparsed("`eq` must take `self` and `other`")
        hdr = " ".join(item_header(sources[file], fn_idx))
        blk = parse_fn_body(btoks, fnid)
        if blk[1] or blk[2] != ("bin", "==", ("field", ("path", ["self"]), "map"), ("field", ("path", ["other"]), "map")):
            raise Unparsed("`Store::eq` is not `self.map == other.map`")
        return {"nparams": [], "pparams": [], "vparams": [0, 1], "body": [("retMapEqBy", 0, 1)], "loops": [],
                "vars": [("other", "V"), ("P1: PartialEq<P2>", "V")]}
    if kd == "serialize":
        if [p[0] for p in params] != ["self", "serializer"]:
            raise Unparsed("`serialize` must take `self` and `serializer`")
        blk = parse_fn_body(btoks, fnid)
        want = ("block",
                [("let", ("pid", "map_serializer", True),
                  ("try", ("mcall", ("path", ["serializer"]), "serialize_seq",
                           [("call", ("path", ["Some"]), [("field", ("path", ["self"]), "size")])]))),
                 ("for", ("ptuple", [("pid", "k", False), ("pid", "v", False)]), ("ref", ("field", ("path", ["self"]), "map")),
                  ("block", [("expr", ("try", ("mcall", ("path", ["map_serializer"]), "serialize_element",
                                               [("ref", ("tuple", [("path", ["k"]), ("path", ["v"])]))])))], None))],
                ("mcall", ("path", ["map_serializer"]), "end", []))
        if blk != want:
            raise Unparsed("`Store::serialize` is not `serialize_seq(Some(self.size))?; for (k, v) in &self.map { "
                           "serialize_element(&(k, v))?; } end()`")
        body = [("serBegin", 0, ("len",)), ("setVMapEntries", 1), ("forEntries", 1, 2, 3, [("serElement", 0, 2, 3)]),
                ("retV", 0)]
        return {"nparams": [], "pparams": [], "vparams": [], "body": body, "loops": [],
                "vars": [("map_serializer", "V"), ("&self.map", "V"), ("k", "V"), ("v", "P")]}
    raise Unparsed("unknown kind " + kind)


def lower_cap(rust, sources):
    """a capacity forward of store.rs as a list of (`call`, coll, method, `?`) / (`retCall`, coll, method) / (`retOk`,)"""
    params, rtoks, btoks, fn_idx = small_find(sources, STORE_RS, None, rust)
    check_fn_context(sources[STORE_RS], fn_idx, None, "`Store::%s`" % rust)
    names = [p[0] for p in params]
    takes_arg = rust not in ("shrink_to_fit", "capacity")
    if names != (["self", "additional"] if takes_arg else ["self"]):
        raise Unparsed("unexpected parameters of `Store::%s`" % rust)
    blk = parse_fn_body(btoks, None)

    def call(e):
        q = False
        if e[0] == "try":
            q, e = True, e[1]
        if not (e[0] == "mcall" and is_self_field(e[1]) and e[1][2] in ("map", "heap", "qp") and e[2] in CAP_METHODS):
            raise Unparsed("not `self.<map|heap|qp>.<capacity method>(..)`: %r" % (e,))
        want = [("path", ["additional"])] if e[2] not in ("shrink_to_fit", "capacity") else []
        if e[3] != want:
            raise Unparsed("unexpected arguments of `%s`" % e[2])
        return e[1][2], CAP_METHODS[e[2]], q
    out = []
    for st in blk[1]:
        if st[0] != "expr":
            raise Unparsed("unsupported statement in `Store::%s`" % rust)
        c, m, q = call(st[1])
        out.append(("call", c, m, q))
    t = blk[2]
    if t is not None:
        if t == ("call", ("path", ["Ok"]), [("tuple", [])]):
            out.append(("retOk",))
        else:
            c, m, q = call(t)
            if q: raise Unparsed("`?` on the tail expression")
            out.append(("retCall", c, m))
    return out


def pcap(xs):
    def one(x):
        if x[0] == "call": return "(.call .%s .%s %s)" % (x[1], x[2], "true" if x[3] else "false")
        if x[0] == "retCall": return "(.retCall .%s .%s)" % (x[1], x[2])
        return ".retOk"
    return "[" + ", ".join(one(x) for x in xs) + "]"


def arith_check():
    try:
        import importlib.util
        spec = importlib.util.spec_from_file_location("gen_arith", os.path.join(HERE, "gen_arith.py"))
        ga = importlib.util.module_from_spec(spec)
        spec.loader.exec_module(ga)
        rep, _ = ga.analyse()
        out = list(rep.get("unparsed", []))
        if not rep.get("copies_agree", True):
            out.append({"fn": "*", "why": "the copies in the two queue modules differ"})
        return out
    except Exception as ex:
        return [{"fn": "*", "why": "gen_arith.py could not be run: %r" % (ex,)}]


def main():
    out = DEFAULT_OUT
    argv = sys.argv[1:]
    while argv:
        a = argv.pop(0)
        if a == "--out" and argv:
            out = argv.pop(0)
        else:
            sys.stderr.write("usage: gen_src.py [--out FILE]\n")
            sys.exit(2)
    report = {"translated": [], "unparsed": [], "changed": False, "out": out}
    sources, src_err = {}, {}
    for f in (STORE_RS, PQ_RS, DQ_RS):
        try:
            sources[f] = tokenize(strip_comments(open(os.path.join(REPO, f)).read()))
        except (OSError, Unparsed) as ex:
            src_err[f] = str(ex)
            sources[f] = []
    results, unparsed = {}, {}
    global_problems = [] if src_err else global_checks(sources)
    for ent in FUNCS:
        if ent[2] not in src_skeleton.BODY_READ_ELSEWHERE.get(ent[1], set()):
            global_problems.append("internal: %s::%s is translated but its body is not exempted in src_skeleton.py" % (ent[1], ent[2]))
    for ent in SMALL_FUNCS:
        if ent[3] not in src_skeleton.BODY_READ_ELSEWHERE.get(ent[1], set()):
            global_problems.append("internal: %s::%s is translated but its body is not exempted in src_skeleton.py" % (ent[1], ent[3]))
    for _, rust in CAP_FUNCS:
        if rust not in src_skeleton.BODY_READ_ELSEWHERE.get(STORE_RS, set()):
            global_problems.append("internal: store.rs::%s is translated but its body is not exempted in src_skeleton.py" % rust)
    report["global_problems"] = global_problems
    for entry in FUNCS:
        fnid, file, rust, owner, sites = entry[:5]
        selector = entry[5] if len(entry) > 5 else None
        try:
            if file in src_err:
                raise Unparsed("cannot read/tokenize %s: %s" % (file, src_err[file]))
            if global_problems:
                raise Unparsed("the crate does not have the expected shape: " + "; ".join(global_problems))
            results[fnid] = lower_function(fnid, file, rust, owner, sites, sources, selector)
            report["translated"].append(fnid)
            report.setdefault("registers", {})[fnid] = ["%d=%s:%s" % (i, nm, k) for i, (nm, k) in enumerate(results[fnid]["vars"])]
        except Unparsed as ex:
            unparsed[fnid] = str(ex)
            report["unparsed"].append({"fn": fnid, "rust": "%s::%s" % (file, rust), "why": str(ex)})
        except Exception as ex:                     # a bug of the translator must not look like a translation
            unparsed[fnid] = "internal error: %r" % (ex,)
            report["unparsed"].append({"fn": fnid, "rust": "%s::%s" % (file, rust), "why": "internal error: %r" % (ex,)})
    # phase 6: iterators, small functions, capacity forwards
    for f in SMALL_FILES:
        try:
            sources[f] = tokenize(strip_comments(open(os.path.join(REPO, f)).read()))
        except (OSError, Unparsed) as ex:
            src_err[f] = str(ex)
            sources[f] = []
    small_problems = [] if src_err else small_checks(sources)
    report["small_problems"] = small_problems
    for fnid, file, sel, rust, kind in SMALL_FUNCS:
        try:
            if file in src_err:
                raise Unparsed("cannot read/tokenize %s: %s" % (file, src_err[file]))
            if global_problems or small_problems:
                raise Unparsed("the crate does not have the expected shape: " + "; ".join(global_problems + small_problems))
            results[fnid] = lower_small(fnid, file, sel, rust, kind, sources)
            report["translated"].append(fnid)
            report.setdefault("registers", {})[fnid] = ["%d=%s:%s" % (i, nm, k) for i, (nm, k) in enumerate(results[fnid]["vars"])]
        except Unparsed as ex:
            unparsed[fnid] = str(ex)
            report["unparsed"].append({"fn": fnid, "rust": "%s::%s" % (file, rust), "why": str(ex)})
        except Exception as ex:
            unparsed[fnid] = "internal error: %r" % (ex,)
            report["unparsed"].append({"fn": fnid, "rust": "%s::%s" % (file, rust), "why": "internal error: %r" % (ex,)})
    caps, cap_unparsed = {}, {}
    for name, rust in CAP_FUNCS:
        try:
            if src_err or global_problems or small_problems:
                raise Unparsed("the crate does not have the expected shape: " + "; ".join(list(src_err.values()) + global_problems + small_problems))
            caps[name] = lower_cap(rust, sources)
            report["translated"].append(name)
        except Unparsed as ex:
            cap_unparsed[name] = str(ex)
            report["unparsed"].append({"fn": name, "rust": "%s::%s" % (STORE_RS, rust), "why": str(ex)})
        except Exception as ex:
            cap_unparsed[name] = "internal error: %r" % (ex,)
            report["unparsed"].append({"fn": name, "rust": "%s::%s" % (STORE_RS, rust), "why": "internal error: %r" % (ex,)})
    # the arithmetic helpers (`left right parent level log2_fast better_to_rebuild`) are translated by gen_arith.py:
    # report what it refuses, so that the caller can mark the tie stale
    report["arith_unparsed"] = arith_check()
    new = emit(results, unparsed, caps, cap_unparsed)
    old = open(out).read() if os.path.exists(out) else None
    report["changed"] = (old != new)
    if old != new:
        os.makedirs(os.path.dirname(out), exist_ok=True)
        open(out, "w").write(new)
    json.dump(report, sys.stdout, indent=1)
    print()


if __name__ == "__main__":
    main()
