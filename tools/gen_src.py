#!/usr/bin/env python3
"""Translator "Rust source -> deep-embedded IR" for the index-table / heap core of priority-queue.

Reads the Rust functions listed in FUNCS from $VERIF_REPO/src (default /repo/src), parses them with a small
tokenizer + recursive-descent parser for the Rust subset they use, lowers the AST to the IR of
/verif/lean/PQ/Model/Src.lean and writes /verif/lean/PQ/Model/SrcGen.lean (one `Option Fn` per function,
`none` when the function left the supported subset).  The equivalence theorems of PQ/Lemmas/SrcEquiv*.lean
are proved about the generated terms, so they are re-checked against what the code says *now* on every run.

stdout: {"translated": [...], "unparsed": [{"fn":..., "why":...}], "changed": bool}

Nothing is guessed: an unknown method name, unknown syntax, an unexpected shape of a recognised idiom, or a
number/kind of memory accesses that differs from the site table makes the function "unparsed".
See PQ/Model/SRC_README.md for the subset, the IR and the site table.
"""
import json, os, re, sys

REPO = os.environ.get("VERIF_REPO", "/repo")
HERE = os.path.dirname(os.path.abspath(__file__))
DEFAULT_OUT = os.path.normpath(os.path.join(HERE, "..", "lean", "PQ", "Model", "SrcGen.lean"))

STORE_RS = "src/store.rs"
PQ_RS = "src/priority_queue/mod.rs"
DQ_RS = "src/double_priority_queue/mod.rs"


class Unparsed(Exception):
    pass


# ----------------------------------------------------------------------------------------------------
# tokenizer
# ----------------------------------------------------------------------------------------------------

def strip_comments(src):
    out = []
    i, n = 0, len(src)
    while i < n:
        c = src[i]
        if src.startswith("//", i):
            j = src.find("\n", i)
            i = n if j < 0 else j
        elif src.startswith("/*", i):
            depth, i = 1, i + 2
            while i < n and depth:
                if src.startswith("/*", i):
                    depth += 1; i += 2
                elif src.startswith("*/", i):
                    depth -= 1; i += 2
                else:
                    i += 1
            out.append(" ")
        elif c == '"':
            j = i + 1
            while j < n and src[j] != '"':
                j += 2 if src[j] == "\\" else 1
            out.append('""')
            i = j + 1
        else:
            out.append(c); i += 1
    return "".join(out)


TOKEN_RE = re.compile(r"""
    (?P<ws>\s+)
  | (?P<life>'[A-Za-z_][A-Za-z_0-9]*(?!'))
  | (?P<chr>'(?:\\.|[^'\\])')
  | (?P<id>[A-Za-z_][A-Za-z_0-9]*)
  | (?P<num>\d[\d_]*(?:usize|u32|u64|i32)?)
  | (?P<op>\.\.=|\.\.\.|<<=|>>=|::|->|=>|==|!=|<=|>=|&&|\|\||\+=|-=|\*=|/=|\.\.|[-+*/%<>=!&|.,;:(){}\[\]#?@^~$])
  | (?P<str>"")
""", re.X)


def tokenize(src):
    toks, i = [], 0
    while i < len(src):
        m = TOKEN_RE.match(src, i)
        if not m:
            raise Unparsed("cannot tokenize at: %r" % src[i:i + 20])
        i = m.end()
        k = m.lastgroup
        if k == "ws":
            continue
        toks.append((k, m.group(k)))
    return toks


# ----------------------------------------------------------------------------------------------------
# finding functions
# ----------------------------------------------------------------------------------------------------

def find_fns(toks, name):
    """all (params, ret_tokens, body_tokens) of `fn name` in the token list"""
    res = []
    i = 0
    while i < len(toks) - 1:
        if toks[i] == ("id", "fn") and toks[i + 1] == ("id", name):
            j = i + 2
            if toks[j][1] == "<":                       # generics
                d = 0
                while True:
                    if toks[j][1] == "<": d += 1
                    elif toks[j][1] == ">": d -= 1
                    j += 1
                    if d == 0: break
            if toks[j][1] != "(":
                raise Unparsed("fn %s: parameter list expected" % name)
            d, k = 0, j
            while True:
                if toks[k][1] in "([": d += 1
                elif toks[k][1] in ")]": d -= 1
                k += 1
                if d == 0: break
            ptoks = toks[j + 1:k - 1]
            j = k
            rtoks = []
            while toks[j][1] != "{":                    # return type / where clause (no braces occur there)
                rtoks.append(toks[j]); j += 1
                if toks[j][1] == ";":
                    raise Unparsed("fn %s has no body" % name)
            d, k = 0, j
            while True:
                if toks[k][1] == "{": d += 1
                elif toks[k][1] == "}": d -= 1
                k += 1
                if d == 0: break
            res.append((split_params(ptoks), rtoks, toks[j:k]))
            i = k
        else:
            i += 1
    return res


def split_params(ptoks):
    params, cur, d = [], [], 0
    for t in ptoks:
        if t[1] in "(<[": d += 1
        elif t[1] in ")>]": d -= 1
        if t[1] == "," and d == 0:
            if cur: params.append(cur)
            cur = []
        else:
            cur.append(t)
    if cur: params.append(cur)
    out = []
    for p in params:
        vals = [t[1] for t in p]
        if "self" in vals and ":" not in vals:
            out.append(("self", "self"))
            continue
        k = vals.index(":")
        names = [v for v in vals[:k] if v != "mut"]
        if len(names) != 1:
            raise Unparsed("parameter pattern " + " ".join(vals))
        out.append((names[0], " ".join(v for t, v in p[k + 1:] if t != "life")))
    return out


# ----------------------------------------------------------------------------------------------------
# parser: tokens -> AST (tuples)
# ----------------------------------------------------------------------------------------------------

class Parser:
    def __init__(self, toks):
        self.t, self.i = toks, 0

    def peek(self, k=0):
        return self.t[self.i + k][1] if self.i + k < len(self.t) else None

    def kind(self, k=0):
        return self.t[self.i + k][0] if self.i + k < len(self.t) else None

    def eat(self, x=None):
        v = self.peek()
        if v is None or (x is not None and v != x):
            raise Unparsed("expected %r, got %r" % (x, v))
        self.i += 1
        return v

    def skip_attrs(self):
        while self.peek() == "#":
            self.eat("#")
            if self.peek() == "!": self.eat("!")
            self.eat("[")
            d = 1
            while d:
                v = self.eat()
                if v == "[": d += 1
                elif v == "]": d -= 1

    # ---- blocks and statements
    def block(self):
        self.eat("{")
        stmts, tail = [], None
        while True:
            self.skip_attrs()
            if self.peek() == "}":
                break
            s, is_tail = self.stmt()
            if is_tail:
                tail = s
                if self.peek() != "}":
                    raise Unparsed("expression without `;` in the middle of a block")
                break
            stmts.append(s)
        self.eat("}")
        return ("block", stmts, tail)

    def stmt(self):
        """returns (node, is_tail_expression)"""
        v = self.peek()
        if v == ";":
            self.eat(";")
            return ("expr", ("tuple", [])), False
        if v == "let":
            self.eat("let")
            pat = self.pattern()
            if self.peek() == ":":
                self.eat(":")
                self.skip_type()
            self.eat("=")
            e = self.expr()
            self.eat(";")
            return ("let", pat, e), False
        if v == "return":
            self.eat("return")
            e = None if self.peek() == ";" else self.expr()
            self.eat(";")
            return ("return", e), False
        if v == "break":
            self.eat("break"); self.eat(";")
            return ("break",), False
        if v == "while":
            self.eat("while")
            if self.peek() == "let":
                raise Unparsed("while let")
            c = self.expr(nostruct=True)
            b = self.block()
            return ("while", c, b), False
        if v == "for":
            self.eat("for")
            pat = self.pattern()
            self.eat("in")
            it = self.expr(nostruct=True)
            b = self.block()
            return ("for", pat, it, b), False
        if v in ("loop", "const", "static", "fn", "struct", "impl", "use", "continue"):
            raise Unparsed("statement `%s`" % v)
        e = self.expr()
        blocklike = e[0] in ("if", "match", "block", "unsafe")
        nxt = self.peek()
        if nxt in ("=", "-=", "+=", "*=", "/="):
            op = self.eat()
            rhs = self.expr()
            self.eat(";")
            return ("assign", e, op, rhs), False
        if nxt == ";":
            self.eat(";")
            return ("expr", e), False
        if nxt == "}":
            return e, True
        if blocklike:
            return ("expr", e), False
        raise Unparsed("unexpected %r after expression" % nxt)

    def skip_type(self):
        d = 0
        while True:
            v = self.peek()
            if v is None:
                raise Unparsed("type")
            if v in "<([": d += 1
            elif v in ">)]": d -= 1
            elif v == "=" and d == 0:
                return
            self.eat()

    # ---- patterns
    def pattern(self):
        v = self.peek()
        if v == "&":
            self.eat("&")
            if self.peek() == "mut": self.eat("mut")
            return ("pref", self.pattern())
        if v == "(":
            self.eat("(")
            ps = []
            while self.peek() != ")":
                ps.append(self.pattern())
                if self.peek() == ",": self.eat(",")
            self.eat(")")
            return ("ptuple", ps)
        if v == "_":
            self.eat("_")
            return ("pwild",)
        if v in ("true", "false"):
            self.eat()
            return ("pbool", v == "true")
        if self.kind() == "num":
            return ("plit", int(re.sub(r"[_a-z].*", "", self.eat().replace("_", ""))))
        if v == "mut":
            self.eat("mut")
            return ("pid", self.ident(), True)
        if self.kind() == "id":
            path = [self.ident()]
            while self.peek() == "::":
                self.eat("::"); path.append(self.ident())
            if self.peek() == "{":
                self.eat("{")
                fields, rest = [], False
                while self.peek() != "}":
                    if self.peek() == "..":
                        self.eat(".."); rest = True
                    else:
                        fields.append(self.ident())
                    if self.peek() == ",": self.eat(",")
                self.eat("}")
                return ("pstruct", path, fields, rest)
            if self.peek() == "(":
                self.eat("(")
                ps = []
                while self.peek() != ")":
                    ps.append(self.pattern())
                    if self.peek() == ",": self.eat(",")
                self.eat(")")
                return ("pctor", path, ps)
            if len(path) == 1 and path[0] not in ("None",):
                return ("pid", path[0], False)
            return ("pctor", path, [])
        raise Unparsed("pattern at %r" % v)

    def ident(self):
        if self.kind() != "id":
            raise Unparsed("identifier expected, got %r" % self.peek())
        return self.eat()

    # ---- expressions (Rust precedence)
    def expr(self, nostruct=False):
        return self.range_(nostruct)

    def range_(self, ns):
        a = self.oror(ns)
        if self.peek() in ("..", "..="):
            op = self.eat()
            b = self.oror(ns)
            return ("range", op, a, b)
        return a

    def oror(self, ns):
        a = self.andand(ns)
        while self.peek() == "||":
            self.eat(); a = ("bin", "||", a, self.andand(ns))
        return a

    def andand(self, ns):
        a = self.cmp(ns)
        while self.peek() == "&&":
            self.eat(); a = ("bin", "&&", a, self.cmp(ns))
        return a

    def cmp(self, ns):
        a = self.add(ns)
        if self.peek() in ("==", "!=", "<", ">", "<=", ">="):
            op = self.eat()
            b = self.add(ns)
            if self.peek() in ("==", "!=", "<", ">", "<=", ">="):
                raise Unparsed("chained comparison")
            return ("bin", op, a, b)
        return a

    def add(self, ns):
        a = self.mul(ns)
        while self.peek() in ("+", "-"):
            op = self.eat(); a = ("bin", op, a, self.mul(ns))
        return a

    def mul(self, ns):
        a = self.unary(ns)
        while self.peek() in ("*", "/", "%"):
            op = self.eat(); a = ("bin", op, a, self.unary(ns))
        return a

    def unary(self, ns):
        v = self.peek()
        if v == "*":
            self.eat(); return ("deref", self.unary(ns))
        if v == "&":
            self.eat()
            if self.peek() == "mut": self.eat()
            return ("ref", self.unary(ns))
        if v == "&&":
            self.eat()
            return ("ref", ("ref", self.unary(ns)))
        if v in ("!", "-"):
            self.eat(); return ("unop", v, self.unary(ns))
        return self.postfix(ns)

    def postfix(self, ns):
        e = self.atom(ns)
        while True:
            v = self.peek()
            if v == ".":
                self.eat(".")
                if self.kind() == "num":
                    e = ("field", e, self.eat())
                    continue
                name = self.ident()
                if self.peek() == "::":
                    raise Unparsed("turbofish")
                if self.peek() == "(":
                    e = ("mcall", e, name, self.args())
                else:
                    e = ("field", e, name)
            elif v == "(":
                e = ("call", e, self.args())
            elif v == "?":
                raise Unparsed("`?` operator")
            elif v == "as":
                raise Unparsed("`as` cast")
            elif v == "[":
                raise Unparsed("index expression")
            else:
                return e

    def args(self):
        self.eat("(")
        a = []
        while self.peek() != ")":
            a.append(self.expr())
            if self.peek() == ",": self.eat(",")
        self.eat(")")
        return a

    def atom(self, ns):
        v, k = self.peek(), self.kind()
        if k == "num":
            self.eat()
            return ("num", int(re.sub(r"[a-z].*", "", v.replace("_", ""))))
        if v == "(":
            self.eat("(")
            es, trailing = [], False
            while self.peek() != ")":
                es.append(self.expr())
                trailing = False
                if self.peek() == ",":
                    self.eat(","); trailing = True
            self.eat(")")
            if len(es) == 1 and not trailing:
                return ("paren", es[0])
            return ("tuple", es)
        if v == "[":
            self.eat("[")
            es = []
            while self.peek() != "]":
                es.append(self.expr())
                if self.peek() == ",": self.eat(",")
                elif self.peek() == ";": raise Unparsed("array repeat expression")
            self.eat("]")
            return ("array", es)
        if v == "unsafe":
            self.eat("unsafe")
            return ("unsafe", self.block())
        if v == "{":
            return self.block()
        if v == "if":
            self.eat("if")
            if self.peek() == "let":
                self.eat("let")
                pat = self.pattern()
                self.eat("=")
                scrut = self.expr(nostruct=True)
                b = self.block()
                els = None
                if self.peek() == "else":
                    self.eat("else"); els = self.block()
                return ("iflet", pat, scrut, b, els)
            c = self.expr(nostruct=True)
            b = self.block()
            els = None
            if self.peek() == "else":
                self.eat("else")
                els = self.atom(ns) if self.peek() == "if" else self.block()
            return ("if", c, b, els)
        if v == "match":
            self.eat("match")
            scrut = self.expr(nostruct=True)
            self.eat("{")
            arms = []
            while self.peek() != "}":
                self.skip_attrs()
                pat = self.pattern()
                if self.peek() in ("|", "if"):
                    raise Unparsed("or-pattern / match guard")
                self.eat("=>")
                body = self.expr()
                if self.peek() == ",": self.eat(",")
                arms.append((pat, body))
            self.eat("}")
            return ("match", scrut, arms)
        if v in ("|", "||"):
            params = []
            if v == "||":
                self.eat("||")
            else:
                self.eat("|")
                while self.peek() != "|":
                    params.append(self.pattern())
                    if self.peek() == ":": raise Unparsed("typed closure parameter")
                    if self.peek() == ",": self.eat(",")
                self.eat("|")
            return ("closure", params, self.expr())
        if v == "move":
            raise Unparsed("move closure")
        if k == "id":
            if v in ("while", "for", "loop", "let", "return", "break", "continue", "fn", "as", "mut", "ref"):
                raise Unparsed("keyword `%s` in expression position" % v)
            path = [self.eat()]
            while self.peek() == "::":
                self.eat("::")
                if self.peek() == "<": raise Unparsed("generic path")
                path.append(self.ident())
            if self.peek() == "{" and not ns and path[-1][0].isupper():
                self.eat("{")
                fields = []
                while self.peek() != "}":
                    name = self.ident()
                    if self.peek() == ":":
                        self.eat(":"); val = self.expr()
                    else:
                        val = ("path", [name])
                    fields.append((name, val))
                    if self.peek() == ",": self.eat(",")
                self.eat("}")
                return ("struct", path, fields)
            if self.peek() == "!":
                raise Unparsed("macro invocation")
            return ("path", path)
        raise Unparsed("unexpected token %r" % v)


def parse_fn_body(btoks):
    p = Parser(btoks)
    b = p.block()
    if p.i != len(btoks):
        raise Unparsed("trailing tokens after the function body")
    return b
