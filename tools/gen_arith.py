#!/usr/bin/env python3
"""Translator for the arithmetic core of priority-queue.

Reads the bodies of `left`, `right`, `parent`, `level`, `log2_fast` and `better_to_rebuild`
from /repo/src/{priority_queue,double_priority_queue}/mod.rs, checks that the two copies agree,
and emits /verif/lean/PQ/Model/Arith.lean.  Everything proved about index arithmetic in the Lean
development is proved about this generated file, so the theorems are re-checked against what the
code says *now* on every run.

Supported Rust subset (anything else => "unparsed", reported, previous file left alone):
  integer literals (optional `usize` suffix), identifiers, `x.0`, `Position(e)`, f(e, ...),
  `usize::BITS - x.leading_zeros() - 1` (recognised as a whole: floor(log2 x) for x >= 1),
  e.saturating_add(e), e.saturating_mul(e), binary * / + - < <= > >= == (Rust precedence), parentheses,
  `e as usize`, and a body of the form  [if c { return e; }]*  e.
`usize` becomes `Nat`; `-` becomes truncated subtraction and every function that contains a `-`
is listed in `partialFns` so that the hand-written model wraps its call sites in an explicit check.
"""
import json, re, sys, os

REPO = os.environ.get("VERIF_REPO", "/repo")
OUT = os.path.join(os.path.dirname(os.path.abspath(__file__)), "..", "lean", "PQ", "Model", "Arith.lean")
FILES = ["src/priority_queue/mod.rs", "src/double_priority_queue/mod.rs"]
WANTED = ["left", "right", "parent", "level", "log2_fast", "better_to_rebuild"]
LEAN_NAME = {"left": "left", "right": "right", "parent": "parent", "level": "level",
             "log2_fast": "log2Fast", "better_to_rebuild": "betterToRebuild"}


class Unparsed(Exception):
    pass


def strip_comments(src):
    src = re.sub(r"//[^\n]*", "", src)
    return re.sub(r"/\*.*?\*/", "", src, flags=re.S)


ALLOWED_ATTRS = re.compile(r"#\[inline(?:\(always\))?\]")


def find_fn(src, name):
    """the unique definition of `fn name` in the (comment-stripped) text; a second definition, or a definition that
    carries an attribute other than `#[inline]` / `#[inline(always)]` (conditional compilation!), raises Unparsed"""
    ms = list(re.finditer(r"(?:const\s+)?fn\s+" + name + r"\s*\(([^)]*)\)\s*->\s*([A-Za-z_]+)\s*\{", src))
    if not ms:
        return None
    if len(ms) != 1 or len(re.findall(r"\bfn\s+" + name + r"\b", src)) != 1:
        raise Unparsed("`fn %s` is defined more than once in a file" % name)
    m = ms[0]
    head = src[:m.start()]
    cut = max(head.rfind("}"), head.rfind(";"))
    prefix = ALLOWED_ATTRS.sub("", head[cut + 1:])
    prefix = re.sub(r"\bpub(?:\s*\(\s*crate\s*\))?", "", prefix).strip()
    if prefix:
        raise Unparsed("`fn %s` carries `%s`" % (name, re.sub(r"\s+", " ", prefix)[:60]))
    if re.search(r"\bmacro_rules\b", src):
        raise Unparsed("`macro_rules!` in the file of `fn %s`" % name)
    i = m.end()
    depth = 1
    j = i
    while depth and j < len(src):
        if src[j] == "{":
            depth += 1
        elif src[j] == "}":
            depth -= 1
        j += 1
    params = [p.strip().split(":")[0].strip() for p in m.group(1).split(",") if p.strip()]
    return params, m.group(2), src[i:j - 1]


TOK = re.compile(r"\s*(usize::BITS|[A-Za-z_][A-Za-z_0-9]*|\d+(?:usize)?|<=|>=|==|[()*/+\-<>.,;{}])")


def tokenize(s):
    out = []
    i = 0
    s = s.strip()
    while i < len(s):
        m = TOK.match(s, i)
        if not m:
            raise Unparsed("token at: " + s[i:i + 20])
        out.append(m.group(1))
        i = m.end()
    return out


class P:
    def __init__(self, toks):
        self.t = toks
        self.i = 0
        self.partial = False

    def peek(self):
        return self.t[self.i] if self.i < len(self.t) else None

    def eat(self, x=None):
        tok = self.peek()
        if tok is None or (x is not None and tok != x):
            raise Unparsed(f"expected {x}, got {tok}")
        self.i += 1
        return tok

    # body := (if cond { return e ; })* e
    def body(self):
        if self.peek() == "if":
            self.eat("if")
            c = self.cmp()
            self.eat("{"); self.eat("return"); v = self.cmp(); self.eat(";"); self.eat("}")
            rest = self.body()
            return f"if {c} then {v} else {rest}"
        e = self.cmp()
        if self.peek() is not None:
            raise Unparsed("trailing tokens: " + " ".join(self.t[self.i:]))
        return e

    def cmp(self):
        a = self.add()
        if self.peek() in ("<", "<=", ">", ">=", "=="):
            op = self.eat()
            b = self.add()
            op = {"==": "="}.get(op, op)
            return f"decide ({a} {op} {b})"
        return a

    def add(self):
        # special whole-pattern: usize::BITS - x.leading_zeros() - 1
        if self.peek() == "usize::BITS":
            save = self.i
            try:
                self.eat("usize::BITS"); self.eat("-")
                x = self.postfix_noleading()
                self.eat("."); self.eat("leading_zeros"); self.eat("("); self.eat(")")
                self.eat("-"); one = self.eat()
                if one not in ("1", "1usize"):
                    raise Unparsed("log2 pattern")
                return f"(Nat.log2 {x})"
            except Unparsed:
                self.i = save
                raise
        a = self.mul()
        while self.peek() in ("+", "-"):
            op = self.eat()
            b = self.mul()
            if op == "-":
                self.partial = True
            a = f"({a} {op} {b})"
        return a

    def mul(self):
        a = self.postfix()
        while self.peek() in ("*", "/"):
            op = self.eat()
            b = self.postfix()
            a = f"({a} {op} {b})"
        return a

    def postfix_noleading(self):
        return self.atom()

    def postfix(self):
        a = self.atom()
        while True:
            if self.peek() == ".":
                self.eat(".")
                f = self.eat()
                if f == "0":
                    continue
                if f in ("saturating_add", "saturating_mul"):
                    self.eat("("); b = self.cmp(); self.eat(")")
                    a = f"({'satAdd' if f.endswith('add') else 'satMul'} {a} {b})"
                    continue
                raise Unparsed("method " + f)
            if self.peek() == "as":
                self.eat("as"); self.eat("usize")
                continue
            return a

    def atom(self):
        tok = self.eat()
        if tok == "(":
            e = self.cmp(); self.eat(")")
            return e
        if re.fullmatch(r"\d+(usize)?", tok):
            return tok.replace("usize", "")
        if tok == "false":
            return "false"
        if tok == "true":
            return "true"
        if re.fullmatch(r"[A-Za-z_][A-Za-z_0-9]*", tok):
            if self.peek() == "(":
                self.eat("(")
                args = []
                while self.peek() != ")":
                    args.append(self.cmp())
                    if self.peek() == ",":
                        self.eat(",")
                self.eat(")")
                if tok == "Position":
                    return args[0]
                if tok not in LEAN_NAME:
                    raise Unparsed("call to " + tok)
                return "(" + LEAN_NAME[tok] + " " + " ".join(args) + ")"
            return tok
        raise Unparsed("atom " + tok)


def translate(params, ret, body):
    p = P(tokenize(body))
    e = p.body()
    return e, p.partial


def analyse():
    """-> (report, text of Arith.lean or None): nothing is written"""
    report = {"functions": {}, "partialFns": [], "unparsed": [], "copies_agree": True}
    defs = {}
    # the crate-wide item skeleton (tools/src_skeleton.py): a new item anywhere in the crate (a `use … as left`, a trait that
    # shadows a method, a `#[cfg]`-selected decoy, a new file, …) can change what the helpers below mean
    try:
        sys.path.insert(0, os.path.dirname(os.path.abspath(__file__)))
        import src_skeleton
        for pr in src_skeleton.check(REPO):
            report["unparsed"].append({"fn": "*", "why": "skeleton: " + pr})
    except Exception as ex:
        report["unparsed"].append({"fn": "*", "why": "the skeleton check could not be run: %r" % (ex,)})
    for name in WANTED:
        copies = []
        refused = None
        for f in FILES:
            src = strip_comments(open(os.path.join(REPO, f)).read())
            try:
                r = find_fn(src, name)
            except Unparsed as ex:
                refused = "%s: %s" % (f, ex)
                break
            if r is not None:
                copies.append((f, r))
        if refused:
            report["unparsed"].append({"fn": name, "why": refused})
            continue
        if not copies:
            report["unparsed"].append({"fn": name, "why": "not found"})
            continue
        norm = {re.sub(r"\s+", "", c[1][2]) for c in copies}
        if len(norm) > 1:
            report["copies_agree"] = False
            report["unparsed"].append({"fn": name, "why": "the two copies differ"})
            continue
        params, ret, body = copies[0][1]
        try:
            e, partial = translate(params, ret, body)
        except Unparsed as ex:
            report["unparsed"].append({"fn": name, "why": str(ex), "rust": body.strip()})
            continue
        ty = "Bool" if ret == "bool" else "Nat"
        defs[name] = f"def {LEAN_NAME[name]} " + " ".join(f"({p} : Nat)" for p in params) + f" : {ty} :=\n  {e}"
        report["functions"][name] = {"rust": re.sub(r"\s+", " ", body.strip()), "lean": e, "files": [c[0] for c in copies]}
        if partial:
            report["partialFns"].append(name)
    # the number of elements `visit_seq` (serde) pre-allocates for an announced length `size` (src/store.rs): the argument of
    # the `with_capacity…(…)` call in the `if let Some(size) = seq.size_hint()` arm — `size.min(CONST)` with a `const CONST: usize
    # = N;` in scope, or `size` itself (the unbounded request of the original code, defect F8)
    prealloc = None
    try:
        ssrc = strip_comments(open(os.path.join(REPO, "src/store.rs")).read())
        m = re.search(r"if\s+let\s+Some\((\w+)\)\s*=\s*seq\.size_hint\(\)\s*\{\s*Store::with_capacity_and_default_hasher\(([^;{}]*?)\)\s*\}", ssrc)
        if m:
            var, arg = m.group(1), re.sub(r"\s+", "", m.group(2))
            if arg == var:
                prealloc = "size"
            else:
                m2 = re.fullmatch(re.escape(var) + r"\.min\((\w+)\)", arg)
                if m2:
                    c = m2.group(1)
                    if c.isdigit():
                        prealloc = "(min size %s)" % c
                    else:
                        m3 = re.search(r"const\s+" + re.escape(c) + r"\s*:\s*usize\s*=\s*([0-9_]+)\s*;", ssrc)
                        if m3:
                            prealloc = "(min size %s)" % m3.group(1).replace("_", "")
        if prealloc is None:
            report["unparsed"].append({"fn": "visit_seq pre-allocation", "why": "the size_hint arm of visit_seq has an unexpected shape"})
        else:
            report["functions"]["deser_prealloc"] = {"lean": prealloc, "files": ["src/store.rs"]}
    except OSError as ex:
        report["unparsed"].append({"fn": "visit_seq pre-allocation", "why": str(ex)})
    order = ["left", "right", "parent", "log2_fast", "level", "better_to_rebuild"]
    text = ["/-! GENERATED by /verif/tools/gen_arith.py from /repo/src/*/mod.rs — do not edit.",
            "    `usize` is `Nat`; `-` is truncated subtraction (call sites of the functions listed in",
            "    `partialFns` are wrapped in explicit checks by the hand-written model). -/",
            "namespace PQ.Arith", "",
            "def usizeMax : Nat := 2 ^ 64 - 1",
            "def satAdd (a b : Nat) : Nat := min (a + b) usizeMax",
            "def satMul (a b : Nat) : Nat := min (a * b) usizeMax", ""]
    for n in order:
        if n in defs:
            text.append(defs[n]); text.append("")
    if prealloc is not None:
        text.append("/-- `visit_seq`: the number of elements pre-allocated when the input announces `size` elements -/")
        text.append("def deserPrealloc (size : Nat) : Nat :=\n  " + prealloc)
        text.append("")
    text.append("def partialFns : List String := " + json.dumps(sorted(report["partialFns"])))
    text.append("")
    text.append("end PQ.Arith")
    new = "\n".join(text) + "\n"
    complete = not report["unparsed"]
    report["complete"] = complete
    return report, new


def main():
    report, new = analyse()
    complete = report["complete"]
    old = open(OUT).read() if os.path.exists(OUT) else None
    report["changed"] = (old != new)
    if complete or old is None:
        if old != new:
            os.makedirs(os.path.dirname(OUT), exist_ok=True)
            open(OUT, "w").write(new)
    else:
        # a function could not be parsed: leave the last good file in place; the caller treats this as
        # "tied by correspondence only" (see DESIGN.md 5.2)
        report["changed"] = False
    json.dump(report, sys.stdout, indent=1)
    print()


if __name__ == "__main__":
    main()
