#!/usr/bin/env python3
"""Unsafe-site inventory (DESIGN.md 5.3).

Lists every unchecked operation in /repo/src (get_unchecked{,_mut}, raw-pointer dereference / as_mut,
`unsafe fn`) keyed by (file, enclosing fn, kind, ordinal within that fn) and compares with
/verif/unsafe_inventory.json, where each entry names the model fault site(s) that represent it.

 * a site present in the source but not in the inventory  -> "new"      (unmet proof obligation for C04/C09/C10)
 * a site in the inventory that disappeared               -> "gone"     (only noted)
 * forbidden constructs (ptr::read/write/copy, ManuallyDrop, mem::forget, set_len, MaybeUninit, transmute,
   from_raw*) anywhere in the crate                       -> "forbidden" (the syntactic half of "no double drop")

With --update the inventory file is rewritten from the source (used once, by hand, when the model is extended).
"""
import json, os, re, sys

REPO = os.environ.get("VERIF_REPO", "/repo")
HERE = os.path.dirname(os.path.abspath(__file__))
INV = os.path.join(HERE, "..", "unsafe_inventory.json")
KINDS = [("get_unchecked_mut", r"\.get_unchecked_mut\s*\("), ("get_unchecked", r"\.get_unchecked\s*\("),
         ("raw_as_mut", r"\.as_mut\(\)\s*\.unwrap\(\)"), ("raw_cast", r"\bas\s+\*mut\b"), ("unsafe_fn", r"\bunsafe\s+fn\b"),
         ("deref_raw", r"\*\s*\(\s*\w+\s+as\s+\*")]
FORBIDDEN = [r"ptr::read", r"ptr::write", r"ptr::copy", r"ManuallyDrop", r"mem::forget", r"\.set_len\s*\(",
             r"MaybeUninit", r"transmute", r"from_raw", r"mem::zeroed", r"mem::uninitialized", r"unreachable_unchecked",
             r"unwrap_unchecked", r"\.add\s*\(\s*\w+\s*\)\s*\)", r"\.offset\s*\("]


def strip_comments(src):
    out = []
    for line in src.split("\n"):
        i = line.find("//")
        out.append(line if i < 0 else line[:i])
    return "\n".join(out)


def scan():
    sites, forbidden = [], []
    for root, _, files in os.walk(os.path.join(REPO, "src")):
        for f in sorted(files):
            if not f.endswith(".rs"):
                continue
            path = os.path.join(root, f)
            rel = os.path.relpath(path, REPO)
            src = strip_comments(open(path).read())
            cur = "<top>"
            counters = {}
            for ln, line in enumerate(src.split("\n"), 1):
                m = re.search(r"\bfn\s+([A-Za-z_0-9]+)", line)
                if m:
                    cur = m.group(1)
                for kind, pat in KINDS:
                    for _ in re.finditer(pat, line):
                        if kind == "get_unchecked" and False:
                            pass
                        key = (rel, cur, kind)
                        counters[key] = counters.get(key, 0) + 1
                        sites.append({"file": rel, "fn": cur, "kind": kind, "ordinal": counters[key], "line": ln})
                for pat in FORBIDDEN:
                    if re.search(pat, line):
                        forbidden.append({"file": rel, "line": ln, "pattern": pat, "text": line.strip()})
    return sites, forbidden


def model_oob_sites():
    """fault-site numbers of unchecked accesses (`getU` / `setU`) that occur in the Lean model files"""
    sites = {}
    mdir = os.path.join(HERE, "..", "lean", "PQ", "Model")
    for f in sorted(os.listdir(mdir)):
        if not f.endswith(".lean"):
            continue
        src = open(os.path.join(mdir, f)).read()
        src = re.sub(r"/-.*?-/", "", src, flags=re.S)
        src = re.sub(r"--[^\n]*", "", src)
        for m in re.finditer(r"\b(getU|setU)\b[^\n]*?\b(\d{3})\b\s*(?:\)|$)", src, flags=re.M):
            sites.setdefault(int(m.group(2)), f)
        # sites passed through helper parameters, e.g. `entryAt s i 327`
        for m in re.finditer(r"\bentryAt\b[^\n]*?\b(\d{3})\b", src):
            sites.setdefault(int(m.group(1)), f)
    return sites


def key(s):
    return "%s::%s::%s#%d" % (s["file"], s["fn"], s["kind"], s["ordinal"])


def main():
    sites, forbidden = scan()
    if "--update" in sys.argv:
        old = {}
        if os.path.exists(INV):
            old = {key(s): s for s in json.load(open(INV))["sites"]}
        out = []
        for s in sites:
            e = dict(s)
            e["model_sites"] = old.get(key(s), {}).get("model_sites", [])
            out.append(e)
        json.dump({"sites": out}, open(INV, "w"), indent=1)
        print("inventory updated: %d sites" % len(out))
        return
    inv = {key(s): s for s in json.load(open(INV))["sites"]} if os.path.exists(INV) else {}
    cur = {key(s): s for s in sites}
    new = [cur[k] for k in cur if k not in inv]
    gone = [inv[k] for k in inv if k not in cur]
    # the link inventory <-> model is checked, not asserted: every unchecked-access site of the model must be claimed by
    # an inventory entry, and every site an entry names must exist in the model
    msites = model_oob_sites()
    claimed = set()
    for s_ in inv.values():
        claimed.update(s_.get("model_sites") or [])
    unclaimed = sorted(x for x in msites if x not in claimed)
    dangling = sorted(x for x in claimed if x not in msites)
    json.dump({"sites_in_source": len(sites), "sites_in_inventory": len(inv), "new": new, "gone": gone,
               "forbidden": forbidden, "model_oob_sites": len(msites), "model_sites_without_source_site": unclaimed,
               "inventory_sites_missing_in_model": dangling}, sys.stdout, indent=1)
    print()


if __name__ == "__main__":
    main()
