#!/usr/bin/env python3
"""slot_check.py <patch.diff|-> <prop> [<prop>...]: runs checks against a patched COPY of the repository (slot 9, see par_matrix.py)
and prints the verdict lines plus the replay summary; never touches /repo or /verif.  Test tooling only."""
import json, os, re, sys
sys.path.insert(0, os.path.dirname(os.path.abspath(__file__)))
import par_matrix as pm
patch, props = sys.argv[1], sys.argv[2:]
root = pm.make_slot(9)
try:
    if patch != "-":
        a = pm.sh(["git", "-C", root + "/repo", "apply", os.path.abspath(patch)])
        if a.returncode != 0:
            print("patch does not apply:", a.stdout.decode()[-300:]); sys.exit(2)
    for p in props:
        env = dict(os.environ, VERIF_REPO=root + "/repo", CARGO_NET_OFFLINE="true")
        r = pm.sh([root + "/verif/bin/check", p, "--tier", os.environ.get("VERIF_TIER", "quick")], env=env, cwd=root + "/verif")
        out = r.stdout.decode(errors="replace")
        print("== %s rc=%d" % (p, r.returncode))
        for l in out.splitlines():
            if re.match(r"^(check|VIOLATION|BROKEN|NOTE)", l):
                print("  " + l[:600])
        for m in re.finditer(r"replay=(\S+)", out):
            try:
                d = json.load(open(m.group(1)))
                print("  replay:", json.dumps({k: d[k] for k in d if k in ("kind", "summary", "broken", "first_divergence", "ops", "stream")})[:1500])
            except Exception as ex:
                print("  (replay unreadable: %s)" % ex)
finally:
    pm.drop_slot(9)
