"""Spec-mode judges: the executable form of each property statement, evaluated on the IMPLEMENTATION's side of a
trace (results, contents, peeks recorded by the harness), independently of the mirror model.  Used only in the
search for a concrete failing input after a proof obligation or the correspondence broke (DESIGN.md 6).

A trace line is  `<op tokens> => <result tokens> | <snapshot>`  with
snapshot = `m n (key payload prio)* h n idx* q n pos* s size pk <peeks> t dt`.
"""
import math

I64MAX = 2 ** 63 - 1
TAG_BASE = 1 << 40


def rk(v):
    """the harness's priority order: `Ord`/`Eq` of `Pri` look at rank(value) only (values >= TAG_BASE carry a 3-bit tag that
    takes no part in the order); must agree with harness/src/types.rs::rank and PQ.Driver.Pr.rank"""
    return v if v < TAG_BASE else TAG_BASE + (v - TAG_BASE) // 8


class Snap:
    __slots__ = ("map", "heap", "qp", "size", "dt", "pk", "raw")

    def contents(self):
        return {k: (pl, p) for (k, pl, p) in self.map}


def parse_opt_e(toks, i):
    """returns (entry|None, next index)"""
    if toks[i] == "none":
        return None, i + 1
    assert toks[i] == "some", toks[i:]
    return (int(toks[i + 1]), int(toks[i + 2]), int(toks[i + 3])), i + 4


def parse_snap(s):
    t = s.split()
    sn = Snap()
    sn.raw = s
    i = 0
    assert t[i] == "m"
    n = int(t[i + 1]); i += 2
    sn.map = [(int(t[i + 3 * j]), int(t[i + 3 * j + 1]), int(t[i + 3 * j + 2])) for j in range(n)]
    i += 3 * n
    assert t[i] == "h"
    n = int(t[i + 1]); i += 2
    sn.heap = [int(x) for x in t[i:i + n]]; i += n
    assert t[i] == "q"
    n = int(t[i + 1]); i += 2
    sn.qp = [int(x) for x in t[i:i + n]]; i += n
    assert t[i] == "s"
    sn.size = int(t[i + 1]); i += 2
    sn.pk = []
    if i < len(t) and t[i] == "pk":
        i += 1
        while i < len(t) and t[i] != "t":
            if t[i] == "panic":         # the public peeks themselves panicked on this state
                sn.pk = "panic"
                i += 1
                break
            e, i = parse_opt_e(t, i)
            sn.pk.append(e)
    sn.dt = None
    if i < len(t) and t[i] == "t":
        sn.dt = int(t[i + 1])
    return sn


class Line:
    __slots__ = ("text", "op", "args", "res", "snap", "fault", "lineno", "unordered")


def parse_line(text, lineno=0):
    ln = Line()
    ln.text = text
    ln.lineno = lineno
    ln.unordered = False
    lhs, _, rhs = text.partition(" => ")
    toks = lhs.split()
    if toks and toks[0] == "ref":       # `(&q).into_iter()` / `(&mut q).into_iter()`: specified exactly like iter() / iter_mut()
        toks = toks[1:]
    ln.op = toks[0]
    ln.args = toks[1:]
    res, _, snap = rhs.partition(" | ")
    ln.res = res.strip()
    ln.fault = ln.res.startswith("fault") or ln.res.startswith("abort")
    ln.snap = None
    snap = snap.strip()
    if snap and snap != "-" and not ln.fault:
        ln.snap = parse_snap(snap)
    return ln


def entries(args, i):
    n = int(args[i]); i += 1
    es = [(int(args[i + 3 * j]), int(args[i + 3 * j + 1]), int(args[i + 3 * j + 2])) for j in range(n)]
    return es, i + 3 * n


# ------------------------------------------------------------------------------------------------
# individual judges: each returns None or a message

def j_wf(kind, pre, ln):
    """C04: the index structures are mutually consistent and agree with the length; no fault."""
    if ln.fault:
        if ln.op in ("reserve", "reserve_exact") and ln.res == "fault capacity" and int(ln.args[0]) >= 2 ** 61:
            return None
        return "operation faulted: " + ln.res
    s = ln.snap
    if s.pk == "panic":
        return "peek panics on the queue left by %s" % ln.op
    n = len(s.map)
    if not (len(s.heap) == n and len(s.qp) == n and s.size == n):
        return "lengths disagree: map %d heap %d qp %d size %d" % (n, len(s.heap), len(s.qp), s.size)
    if sorted(s.heap) != list(range(n)):
        return "heap is not a permutation of the slots"
    for pos, idx in enumerate(s.heap):
        if s.qp[idx] != pos:
            return "qp[heap[%d]] = %d" % (pos, s.qp[idx])
    return None


def extreme_ok(cont, e, want_max):
    if not cont:
        return e is None
    if e is None:
        return False
    k, pl, p = e
    if k not in cont or cont[k] != (pl, p):
        return False
    ps = [rk(v[1]) for v in cont.values()]
    return rk(p) >= max(ps) if want_max else rk(p) <= min(ps)


def j_extreme(kind, pre, ln):
    """C01/C02: the peeks recorded after every operation are extremes of the contents; pops, pop_if predicates and
    peek_mut address what the immediately preceding peek reported."""
    if ln.fault or ln.snap is None:
        return None
    s = ln.snap
    cont = s.contents()
    if ln.op == "load":
        return None
    if s.pk == "panic":
        return "peek panics on the queue left by %s" % ln.op
    if pre is not None and pre.pk == "panic":
        return None
    # kind after the op (convert / serde_rt / load may change it) is visible from the number of peeks
    if len(s.pk) == 1:
        if not extreme_ok(cont, s.pk[0], True):
            return "peek after %s is %s, not a maximum of the contents" % (ln.op, s.pk[0])
    elif len(s.pk) == 2:
        if not extreme_ok(cont, s.pk[0], False):
            return "peek_min after %s is %s, not a minimum of the contents" % (ln.op, s.pk[0])
        if not extreme_ok(cont, s.pk[1], True):
            return "peek_max after %s is %s, not a maximum of the contents" % (ln.op, s.pk[1])
    if pre is None or not pre.pk:
        return None
    t = ln.res.split()
    prev_max = pre.pk[0] if len(pre.pk) == 1 else pre.pk[1]
    prev_min = pre.pk[0]
    def same_elem(a, b):
        return (a is None and b is None) or (a is not None and b is not None and a[0] == b[0])
    if ln.op in ("pop", "pop_max", "peek", "peek_max", "peek_mut", "peek_max_mut"):
        e, _ = parse_opt_e(t, 0)
        if e != prev_max and not (ln.op in ("peek_mut", "peek_max_mut") and same_elem(e, prev_max)):
            return "%s returned %s but the preceding peek reported %s" % (ln.op, e, prev_max)
    if ln.op in ("pop_min", "peek_min", "peek_min_mut"):
        e, _ = parse_opt_e(t, 0)
        if e != prev_min:
            return "%s returned %s but the preceding peek_min reported %s" % (ln.op, e, prev_min)
    if ln.op in ("pop_if", "pop_max_if", "pop_min_if") and t[0] == "seen":
        e, _ = parse_opt_e(t, 1)
        want = prev_min if ln.op == "pop_min_if" else prev_max
        if e != want:
            return "%s showed its predicate %s but the preceding peek reported %s" % (ln.op, e, want)
    return None


def j_extreme_weak(s):
    """what C01/C02 still demand of a queue whose ORDER is unspecified (leaked iter_mut guard, caught panic inside an operation:
    C10 allows any order then): a reported extreme is a stored element, and None is reported iff nothing is stored."""
    if s is None or s.pk is None or s.pk == "panic":
        return None
    cont = s.contents()
    for e in s.pk:
        if e is None:
            if cont:
                return "a peek reports None while %d element(s) are stored" % len(cont)
        else:
            k, pl, p = e
            if k not in cont or cont[k] != (pl, p):
                return "a peek reports %s, which is not stored" % (e,)
    return None


def j_extreme_weak_line(kind, pre, ln):
    if ln.fault or ln.snap is None or ln.op == "load":
        return None
    return j_extreme_weak(ln.snap)


def expected(kind, pre, ln):
    """C03/C07/C08/C11/C12/C15/C16: the contents and result the abstract item->priority map prescribes.
    Returns (expected contents | None if unconstrained, message | None)."""
    c = dict(pre.contents()) if pre is not None else {}
    a = ln.args
    t = ln.res.split()
    op = ln.op
    def popt(x):
        return None if x[0] == "none" else int(x[1])
    if op in ("push", "push_increase", "push_decrease"):
        k, pl, p = int(a[0]), int(a[1]), int(a[2])
        r = popt(t)
        if k not in c:
            if r is not None:
                return None, "%s of an absent item returned %s" % (op, r)
            c[k] = (pl, p)
        else:
            old = c[k][1]
            upd = op == "push" or (op == "push_increase" and rk(p) > rk(old)) or (op == "push_decrease" and rk(p) < rk(old))
            if upd:
                if r != old:
                    return None, "%s returned %s, stored priority was %s" % (op, r, old)
                c[k] = (c[k][0], p)
            elif r != p:
                return None, "%s left the priority alone but returned %s instead of the offered %s" % (op, r, p)
        return c, None
    if op == "change_priority":
        k, p = int(a[0]), int(a[1])
        r = popt(t)
        if k in c:
            if r != c[k][1]:
                return None, "change_priority returned %s, stored priority was %s" % (r, c[k][1])
            c[k] = (c[k][0], p)
        elif r is not None:
            return None, "change_priority of an absent item returned %s" % r
        return c, None
    if op == "change_priority_by":
        k, p = int(a[0]), int(a[1])
        if (t[0] == "true") != (k in c):
            return None, "change_priority_by returned %s for presence %s" % (t[0], k in c)
        if k in c:
            c[k] = (c[k][0], p)
        return c, None
    if op in ("get_priority", "get", "get_mut"):
        k = int(a[0])
        if op == "get_priority":
            r = popt(t)
            want = c[k][1] if k in c else None
            if r != want:
                return None, "get_priority returned %s, expected %s" % (r, want)
        else:
            e, _ = parse_opt_e(t, 0)
            want = (k,) + c[k] if k in c else None
            if e != want:
                return None, "%s returned %s, expected %s" % (op, e, want)
            if op == "get_mut" and k in c:
                c[k] = (int(a[1]), c[k][1])
        return c, None
    if op == "remove":
        k = int(a[0])
        e, _ = parse_opt_e(t, 0)
        want = (k,) + c[k] if k in c else None
        if e != want:
            return None, "remove returned %s, expected %s" % (e, want)
        c.pop(k, None)
        return c, None
    if op in ("peek", "peek_min", "peek_max"):
        e, _ = parse_opt_e(t, 0)
        if e is not None and c.get(e[0]) != (e[1], e[2]):
            return None, "%s returned %s which is not stored" % (op, e)
        return c, None
    if op in ("peek_mut", "peek_min_mut", "peek_max_mut"):
        e, _ = parse_opt_e(t, 0)
        if e is not None:
            if c.get(e[0]) != (e[1], e[2]):
                return None, "%s returned %s which is not stored" % (op, e)
            c[e[0]] = (int(a[0]), e[2])
        elif c:
            return None, "%s returned None on a non-empty queue" % op
        return c, None
    if op in ("pop", "pop_min", "pop_max"):
        e, _ = parse_opt_e(t, 0)
        if e is None:
            if c:
                return None, "%s returned None on a non-empty queue" % op
        else:
            if c.get(e[0]) != (e[1], e[2]):
                return None, "%s returned %s which was not stored" % (op, e)
            del c[e[0]]
        return c, None
    if op in ("pop_if", "pop_min_if", "pop_max_if"):
        wp, p, wpl, pl, ret = int(a[0]), int(a[1]), int(a[2]), int(a[3]), int(a[4])
        if t[0] != "seen":
            return None, "predicate " + " ".join(t[:4])
        seen, i = parse_opt_e(t, 1)
        assert t[i] == "ret"
        out, _ = parse_opt_e(t, i + 1)
        if seen is None:
            if c:
                return None, "%s did not call its predicate on a non-empty queue" % op
            if out is not None:
                return None, "%s returned an element from an empty queue" % op
            return c, None
        if c.get(seen[0]) != (seen[1], seen[2]):
            return None, "%s showed %s which is not stored" % (op, seen)
        new = (pl if wpl else seen[1], p if wp else seen[2])
        if ret:
            if out != (seen[0],) + new:
                return None, "%s returned %s, expected %s" % (op, out, (seen[0],) + new)
            del c[seen[0]]
        else:
            if out is not None:
                return None, "%s returned %s although the predicate said false" % (op, out)
            c[seen[0]] = new
        return c, None
    if op in ("retain", "retain_mut"):
        n = int(a[0])
        rows = {}
        for j in range(n):
            r = a[1 + 6 * j: 7 + 6 * j]
            rows[int(r[0])] = (int(r[1]), int(r[2]), int(r[3]), int(r[4]), int(r[5]))
        log = [int(x) for x in t[1:]]
        want_log = [k for (k, _, _) in pre.map] if pre is not None else []
        if log != want_log:
            return None, "%s called its predicate on %s, stored elements in order are %s" % (op, log, want_log)
        out = {}
        for k, (pl0, p0) in c.items():
            if k in rows:
                keep, wp, p, wpl, pl = rows[k]
                if not keep:
                    continue
                if op == "retain_mut":
                    out[k] = (pl if wpl else pl0, p if wp else p0)
                else:
                    out[k] = (pl0, p0)
            else:
                out[k] = (pl0, p0)
        return out, None
    if op == "iter_mut":
        n = int(a[1])
        i = 2
        outs = t
        j = 0
        order = [k for (k, _, _) in pre.map] if pre is not None else []
        f, b = 0, len(order)
        exact = kind == "dpq"
        for _ in range(n):
            call, wp, p, wpl, pl = a[i], int(a[i + 1]), int(a[i + 2]), int(a[i + 3]), int(a[i + 4])
            i += 5
            ck, skip = call_kind(call)
            if j >= len(outs):
                return None, "iter_mut produced fewer outputs than calls"
            if outs[j] == "gone":
                j += 1
                continue
            if ck == "z":
                e, j = parse_opt_e(outs, j + 1)
                want = order[b - 1] if b > f else None
                if (e[0] if e else None) != want:
                    return None, "iter_mut last() = %s, the last element due is %s" % (e, want)
                f = b
                continue
            if ck == "c":
                if int(outs[j + 1]) != b - f:
                    return None, "iter_mut count() = %s with %d remaining" % (outs[j + 1], b - f)
                j += 2
                f = b
                continue
            if outs[j] == "s":
                e, j = parse_opt_e(outs, j + 1)
                if b - f <= skip:
                    want = None
                    f = b
                elif ck == "f":
                    f += skip
                    want = order[f]
                    f += 1
                else:
                    b -= skip + 1
                    want = order[b]
                if (e[0] if e else None) != want:
                    return None, "iter_mut answered %s to call %s, the element due is %s (each element at most once)" % (e, call, want)
                if e is not None:
                    if c.get(e[0]) != (e[1], e[2]):
                        return None, "iter_mut yielded %s which is not what is stored" % (e,)
                    c[e[0]] = (pl if wpl else e[1], p if wp else e[2])
            elif outs[j] == "l":
                if int(outs[j + 1]) != b - f:
                    return None, "iter_mut len() = %s with %d elements remaining" % (outs[j + 1], b - f)
                j += 2
            elif outs[j] == "h":
                lo = int(outs[j + 1]); hi = outs[j + 2]
                if exact and (lo != b - f or hi != str(b - f)):
                    return None, "iter_mut size_hint() = (%s, %s) with %d elements remaining" % (lo, hi, b - f)
                if lo > b - f or (hi != "none" and int(hi) < b - f):
                    return None, "iter_mut size_hint() = (%s, %s) is wrong for %d remaining" % (lo, hi, b - f)
                j += 3
            elif outs[j] == "u":
                j += 1
            else:
                return None, "iter_mut output " + outs[j]
        if "ALIASED" in outs:
            return None, "iter_mut handed out two references to the same element"
        return c, None
    if op in ("extend", "from_iter", "from_vec", "deser", "deser_hint"):
        if op in ("extend", "from_iter"):
            es, _ = entries(a, 2)
        elif op == "deser_hint":
            es, _ = entries(a, 1)
            op = "deser"
        else:
            es, _ = entries(a, 0)
        if op != "extend":
            c = {}
        for (k, pl, p) in es:
            if k in c:
                if op == "from_vec":
                    continue
                if op == "from_iter":
                    c[k] = (pl, p)
                else:
                    c[k] = (c[k][0], p)
            else:
                c[k] = (pl, p)
        if op == "deser":
            if t[0] != "ok":
                return None, "deserializing a well-formed pair sequence answered " + " ".join(t)
            # any of the priorities given for the item is acceptable
            got = ln.snap.contents() if ln.snap else {}
            allowed = {}
            for (k, pl, p) in es:
                allowed.setdefault(k, set()).add(p)
            if set(got) != set(allowed):
                return None, "deserialized items %s, sequence has %s" % (sorted(got), sorted(allowed))
            for k, (pl, p) in got.items():
                if p not in allowed[k]:
                    return None, "item %d deserialized with priority %d which the sequence never gave" % (k, p)
            return None, None
        return c, None
    if op == "append":
        es, _ = entries(a, 1)
        o = {}
        for (k, pl, p) in es:
            o[k] = (o[k][0], p) if k in o else (pl, p)
        if t[:2] != ["olen", "0"] or t[3] != "0":
            return None, "append left the other queue non-empty: " + ln.res
        got = ln.snap.contents() if ln.snap else {}
        if set(got) != set(c) | set(o):
            return None, "append produced items %s, expected the union %s" % (sorted(got), sorted(set(c) | set(o)))
        for k, v in got.items():
            if k in c and k in o:
                ok = v == c[k] or (len(o) > len(c) and v == o[k])
            else:
                ok = v == (c[k] if k in c else o[k])
            if not ok:
                return None, "append stored %s for item %d" % (v, k)
        return None, None
    if op in ("convert", "serde_rt", "clone_swap", "clone_from", "shrink_to_fit", "capacity", "reserve", "reserve_exact",
              "try_reserve", "try_reserve_exact", "iter", "into_iter", "into_vec", "into_sorted_vec", "into_asc_vec",
              "into_desc_vec", "into_sorted_iter", "eq", "clone_check", "len", "is_empty", "load"):
        if op == "serde_rt" and t[0] != "ok":
            return None, "serialize/deserialize round trip answered " + ln.res
        if op == "len" and int(t[0]) != len(c):
            return None, "len() = %s with %d elements stored" % (t[0], len(c))
        if op == "is_empty" and (t[0] == "true") != (len(c) == 0):
            return None, "is_empty() = %s with %d elements stored" % (t[0], len(c))
        if op == "clone_check" and t[0] != "true":
            return None, "a clone differs from, or is not independent of, its source"
        if op == "load":
            return None, None
        return c, None
    if op in ("clear", "drain"):
        return {}, None
    if op == "fresh":
        if t[0] != "capok":
            return None, "constructor %s with capacity %s: %s" % (a[0], a[1], ln.res)
        return {}, None
    if op == "deser_unit":
        if t[0] != "ok":
            return None, "deserializing a unit answered " + ln.res
        return {}, None
    if op in ("deser_bad", "ser_fail"):
        if ln.res != "err":
            return None, "%s: expected an error and an untouched queue, got: %s" % (op, ln.res)
        return c, None
    if op == "try_reserve_oom":
        if ln.res not in ("err", "capok"):
            return None, "try_reserve under memory pressure: " + ln.res
        return c, None
    if op == "dbg":
        if t[0] == "unparsable":
            return None, "Debug output: " + ln.res
        n = int(t[0])
        got = sorted((int(t[2 + 4 * j]), int(t[3 + 4 * j]), int(t[4 + 4 * j])) for j in range(n))
        if got != sorted((k,) + v for k, v in c.items()):
            return None, "Debug lists %s, stored is %s" % (got, sorted((k,) + v for k, v in c.items()))
        return c, None
    return None, None


def j_contents(kind, pre, ln):
    if ln.fault or ln.snap is None:
        return None
    exp, msg = expected(kind, pre, ln)
    if msg:
        return msg
    if exp is not None:
        got = ln.snap.contents()
        if len(ln.snap.map) != len(got):
            return "the same item is stored twice"
        if got != exp:
            diff = {k: (exp.get(k), got.get(k)) for k in set(exp) | set(got) if exp.get(k) != got.get(k)}
            return "contents after %s differ from the item->priority map semantics (item: (expected, stored)): %s" % (ln.op, diff)
    return None


def j_nofault(kind, pre, ln):
    """a panic / abort inside a fault-free operation contradicts every functional property that covers it"""
    if ln.fault:
        if ln.op in ("reserve", "reserve_exact") and ln.res == "fault capacity" and int(ln.args[0]) >= 2 ** 61:
            return None
        return "%s faulted: %s" % (ln.op, ln.res)
    if ln.snap is not None and ln.snap.pk == "panic":
        return "peek panics on the queue left by %s" % ln.op
    return None


def log2(n):
    return n.bit_length() - 1 if n > 0 else 0


def cost_bound(kind, op, args, n, m):
    """the comparison bound PROVED for the model in PQ/Props/C05.lean (n = size before the operation, m = size after,
    lg = floor(log2)): max-heap push 3lg(n+1), pop/pop_if 2lg n, change_priority/_by/remove 3lg n,
    push_increase/decrease 3lg(n+1)+1, rebuilds 2n; min-max heap push 8lg(n+1)+8, pop_min/_if 4lg n+4, pop_max 4lg n+5,
    pop_max_if 7lg n+9, change_priority/_by/remove 8lg n+8, push_increase/decrease 8lg(n+1)+9, rebuilds 7n;
    peeks and lookups 0, peek_max at most 1.  None = no bound claimed for this operation."""
    pq = kind == "pq"
    lg = log2
    c = 2 if pq else 7
    def pushb(x):
        return 3 * lg(x + 1) if pq else 8 * lg(x + 1) + 8
    bound = None
    if op == "push":
        bound = pushb(n)
    elif op in ("push_increase", "push_decrease"):
        bound = pushb(n) + 1
    elif op in ("pop", "pop_if"):
        bound = 2 * lg(n)
    elif op in ("pop_min", "pop_min_if"):
        bound = 4 * lg(n) + 4
    elif op == "pop_max":
        bound = 4 * lg(n) + 5
    elif op == "pop_max_if":
        bound = 7 * lg(n) + 9
    elif op in ("change_priority", "change_priority_by", "remove"):
        bound = 3 * lg(n) if pq else 8 * lg(n) + 8
    elif op in ("peek", "peek_min", "len", "is_empty", "get", "get_priority", "get_mut", "peek_mut", "peek_min_mut"):
        bound = 0
    elif op in ("peek_max", "peek_max_mut"):
        bound = 1
    elif op in ("from_vec", "from_iter", "deser", "deser_hint"):
        bound = c * m
    elif op in ("retain", "retain_mut", "iter_mut"):
        bound = c * m
        if op == "iter_mut" and args and args[0] == "forget":
            # a leaked guard never rebuilds — unless the program consumed the iterator itself (`last()` / `count()` take it
            # by value: its Drop runs inside the call and rebuilds)
            calls = [args[2 + 5 * j] for j in range(int(args[1]))]
            if not any(cc in ("z", "c") for cc in calls):
                bound = 0
    elif op == "convert":
        bound = (7 if pq else 2) * m       # the TARGET kind rebuilds
    elif op == "serde_rt":
        bound = (2 if args[0] == "pq" else 7) * m
    elif op == "extend":
        es, _ = entries(args, 2)
        bound = max(c * m, len(es) * (3 * lg(m) if pq else 8 * lg(m) + 8))
    elif op == "append":
        bound = c * m      # building the other queue is outside the measured window
    return bound


def cost_slack(bound, op, args, n, m):
    """the threshold above which a comparison count is reported as a FAILING INPUT of C05.  The property speaks of "a constant
    multiple of log2(n) plus a constant" / O(n); the bounds proved in PQ/Props/C05.lean carry the constants of the model.  A
    correct variant of the code may compare a little more (one comparison to decide the sift direction, a different tie
    preference), so a failing input is only claimed beyond twice the proved bound plus 4 comparisons per element handled (a
    count between the proved bound and this threshold still breaks the exact count comparison of the correspondence, and is
    reported as a broken tie without a failing input)."""
    handled = 1
    try:
        if op in ("extend", "from_iter"):
            handled = max(1, len(entries(args, 2)[0]))
        elif op == "from_vec":
            handled = max(1, int(args[0]))
        elif op in ("append",):
            handled = max(1, len(entries(args, 1)[0]))
        elif op in ("retain", "retain_mut", "iter_mut", "convert", "serde_rt", "deser", "deser_hint"):
            handled = max(1, n, m)
    except Exception:
        handled = max(1, n, m)
    return 2 * bound + 4 * handled


def scale_verdict(rec):
    """C05 at scale (`pqharness scale`, no trace and no model: one JSON record per probe with the number of Ord::cmp calls of
    ONE operation on an adversarially arranged queue of 2^12 … 2^20 elements).  Same bounds, same threshold as j_cost."""
    kind, op, n, m, handled, dt = rec["kind"], rec["op"], rec["n"], rec["m"], max(1, rec["handled"]), rec["dt"]
    if op == "extend":
        lg = log2(m)
        bound = max((2 if kind == "pq" else 7) * m, handled * (3 * lg if kind == "pq" else 8 * lg + 8))
    else:
        bound = cost_bound(kind, op, [], n, m)
    if bound is None:
        return None, None, None
    slack = 2 * bound + 4 * handled
    msg = None
    if dt > slack:
        msg = "%s (%s, arrangement %s) on %d elements performed %d comparisons; the bound proved for the model is %d (alarm threshold %d)" % (
            op, kind, rec["pattern"], n, dt, bound, slack)
    return msg, bound, slack


def j_cost(kind, pre, ln):
    """C05: comparison counts against the bounds PROVED for the model in PQ/Props/C05.lean (see cost_bound)."""
    if ln.fault or ln.snap is None or ln.snap.dt is None or pre is None:
        return None
    n = len(pre.map)
    m = len(ln.snap.map)
    dt = ln.snap.dt
    bound = cost_bound(kind, ln.op, ln.args, n, m)
    if bound is not None and dt > cost_slack(bound, ln.op, ln.args, n, m):
        return "%s on %d elements performed %d comparisons; the bound proved for the model is %d (alarm threshold %d)" % (ln.op, n, dt, bound, cost_slack(bound, ln.op, ln.args, n, m))
    return None


def j_crash_atomic(kind, pre, post, op, args, disordered=False):
    """C03 / C11 / C12 for a SINGLE-ELEMENT call interrupted by a caught user panic: whatever happens to the order (C10 leaves it
    unspecified), the CONTENTS afterwards are those before the call or those the completed call prescribes — a single-element
    operation has no third state (the map is written at one point; the panicking code is a comparison, or a setter / predicate
    that panics on entry).  In particular push_increase / push_decrease never leave a priority that moved the wrong way."""
    if pre is None or post is None:
        return None
    c0 = pre.contents()
    c1 = post.contents()
    if c1 == c0:
        return None
    a = args
    done = dict(c0)
    try:
        if op in ("push", "push_increase", "push_decrease"):
            k, pl, p = int(a[0]), int(a[1]), int(a[2])
            if k not in done:
                done[k] = (pl, p)
            else:
                old = done[k][1]
                if op == "push" or (op == "push_increase" and rk(p) > rk(old)) or (op == "push_decrease" and rk(p) < rk(old)):
                    done[k] = (done[k][0], p)
        elif op == "change_priority":
            k, p = int(a[0]), int(a[1])
            if k in done:
                done[k] = (done[k][0], p)
        elif op == "change_priority_by":
            k, p = int(a[0]), int(a[1])
            if k in done:
                done[k] = (done[k][0], p)
        elif op == "remove":
            done.pop(int(a[0]), None)
        elif op in ("pop", "pop_min", "pop_max"):
            # the completed call removes AN extreme element (which one among ties is not prescribed)
            if len(c1) == len(c0) - 1 and all(k in c0 and c0[k] == v for k, v in c1.items()):
                gone = [k for k in c0 if k not in c1][0]
                ranks = [rk(v[1]) for v in c0.values()]
                want = min(ranks) if op == "pop_min" else max(ranks)
                # (on a queue whose order was already unspecified — an earlier caught panic, a leaked guard — a pop removes
                # whatever sits at the root)
                if disordered or rk(c0[gone][1]) == want:
                    return None
            return "%s interrupted by a caught panic left contents that are neither those before the call nor those after removing an extreme element" % op
        else:
            return None
    except Exception:
        return None
    if c1 == done:
        return None
    diff = {k: (c0.get(k), c1.get(k)) for k in set(c0) | set(c1) if c0.get(k) != c1.get(k)}
    return "%s interrupted by a caught panic left contents that are neither those before the call nor those of the completed call (item: (before, after)): %s" % (op, str(diff)[:300])


def j_cost_crashed(kind, pre, post, op, args):
    """C05 for a call interrupted by a caught user panic (`!cmp<k>` / `!cb<k>`): an interrupted call has performed a prefix of
    the comparisons of the completed call, and nothing compares while unwinding, so the bound of the completed call applies.
    The size the completed call would have reached is bounded by the size before plus the number of pairs offered."""
    if post is None or post.dt is None or pre is None:
        return None
    n = len(pre.map)
    extra = 0
    try:
        if op in ("from_vec",):
            extra = int(args[0])
        elif op in ("extend", "from_iter"):
            extra = len(entries(args, 2)[0])
        elif op == "append":
            extra = len(entries(args, 1)[0])
    except Exception:
        return None
    m = max(n, len(post.map)) + extra
    if op in ("from_vec", "from_iter"):
        n = m
    bound = cost_bound(kind, op, args, max(n, 1), max(m, 1))
    if bound is not None and post.dt > cost_slack(bound, op, args, max(n, 1), max(m, 1)):
        return "%s on %d elements, interrupted by a caught panic, performed %d comparisons (unwinding included); the bound proved for the completed call is %d" % (op, n, post.dt, bound)
    return None


def j_sorted(kind, pre, ln):
    """C06: sorted consumption yields every element once in monotone order; the double-ended sorted iterator."""
    if ln.fault or pre is None:
        return None
    c = pre.contents()
    t = ln.res.split()
    if ln.op in ("into_sorted_vec", "into_asc_vec", "into_desc_vec"):
        n = int(t[0])
        ks = [int(t[1 + 2 * j]) for j in range(n)]
        if sorted(ks) != sorted(c):
            return "%s yielded items %s, stored are %s" % (ln.op, ks, sorted(c))
        ps = [c[k][1] for k in ks]
        asc = ln.op == "into_asc_vec"
        if ln.unordered:
            return None     # (leaked iter_mut guard / caught panic: each element exactly once is all that is specified)
        for x, y in zip(ps, ps[1:]):
            if (rk(x) > rk(y)) if asc else (rk(x) < rk(y)):
                return "%s is not monotone: priorities %s" % (ln.op, ps)
        return None
    if ln.op == "into_sorted_iter":
        # remaining priorities as a multiset: with ties the identity of the elements skipped by nth / nth_back is not
        # observable, only their priorities are determined
        remp = sorted(rk(v[1]) for v in c.values())      # ranks: what the order is defined on
        yielded = set()
        i = 0
        calls = ln.args[1:]
        gone = False
        for call in calls:
            ck, skip = call_kind(call)
            if i >= len(t):
                return "fewer outputs than calls"
            if gone:
                i += 1
                continue
            if ck == "z":
                e, i = parse_opt_e(t, i + 1)
                gone = True
                if not remp:
                    if e is not None:
                        return "sorted iterator last() = %s on an exhausted iterator" % (e,)
                    continue
                want = remp[0] if kind == "pq" else remp[-1]     # the element a front-to-back traversal reaches last
                if ln.unordered and e is not None:
                    want = rk(e[2])
                if e is None or c.get(e[0]) != (e[1], e[2]) or e[0] in yielded or rk(e[2]) != want:
                    return "sorted iterator last() = %s, the last element due has priority %d" % (e, want)
                continue
            if ck == "c":
                gone = True
                if int(t[i + 1]) != len(remp):
                    return "sorted iterator count() = %s with %d remaining" % (t[i + 1], len(remp))
                i += 2
                continue
            if ck in ("f", "b"):
                if t[i] != "s":
                    return "sorted iterator answered %s to an advancing call" % t[i]
                e, i = parse_opt_e(t, i + 1)
                from_max = kind == "pq" or ck == "b"
                if len(remp) <= skip:
                    if e is not None:
                        return "sorted iterator yielded %s although only %d elements remained for %s" % (e, len(remp), call)
                    remp = []
                    continue
                if e is None:
                    return "sorted iterator returned None with %d elements remaining (call %s)" % (len(remp), call)
                if c.get(e[0]) != (e[1], e[2]) or e[0] in yielded:
                    return "sorted iterator yielded %s which is not a stored element not yet yielded" % (e,)
                want = remp[-1 - skip] if from_max else remp[skip]
                if rk(e[2]) != want and not ln.unordered:
                    return "sorted iterator yielded priority rank %d, but the %s due after skipping %d is %d" % (rk(e[2]), "maximum" if from_max else "minimum", skip, want)
                yielded.add(e[0])
                remp = remp[: len(remp) - skip - 1] if from_max else remp[skip + 1:]
            elif ck == "l":
                if t[i] == "u":
                    i += 1
                    continue
                if int(t[i + 1]) != len(remp):
                    return "sorted iterator len() = %s with %d remaining" % (t[i + 1], len(remp))
                i += 2
            elif ck == "h":
                lo, hi = int(t[i + 1]), t[i + 2]
                if kind == "dpq" and (lo != len(remp) or hi != str(len(remp))):
                    return "sorted iterator size_hint() = (%s, %s) with %d remaining" % (lo, hi, len(remp))
                if lo > len(remp) or (hi != "none" and int(hi) < len(remp)):
                    return "sorted iterator size_hint() = (%s, %s) is wrong for %d remaining" % (lo, hi, len(remp))
                i += 3
    return None


def call_kind(c):
    """('f'|'b'|'l'|'h'|'z'|'c', skip)"""
    if c in ("z", "c"):
        return c, 0
    if c[0] == "n":
        return "f", int(c[1:])
    if c[0] == "m":
        return "b", int(c[1:])
    return c, 0


def j_iters(kind, pre, ln):
    """C13/C16: iter / into_iter / drain yield each element once (never from both ends), then None forever; exact
    len and size_hint at every step; nth / nth_back skip exactly the elements they say."""
    if ln.fault:
        if ln.op in ("iter", "into_iter", "drain"):
            return "%s faulted: %s" % (ln.op, ln.res)
        return None
    if pre is None or ln.op not in ("iter", "into_iter", "drain"):
        return None
    order = list(pre.map)
    f, b = 0, len(order)
    t = ln.res.split()
    calls = ln.args[1:] if ln.op != "drain" else ln.args[2:]
    i = 0
    gone = False
    for call in calls:
        ck, skip = call_kind(call)
        if i >= len(t):
            return "fewer outputs than calls"
        if gone:
            i += 1      # "gone": the iterator was consumed by last()/count()
            continue
        if ck == "z":
            e, i = parse_opt_e(t, i + 1)
            want = order[b - 1] if b > f else None
            if e != want:
                return "%s last() = %s, expected %s" % (ln.op, e, want)
            gone = True
        elif ck == "c":
            if int(t[i + 1]) != b - f:
                return "%s count() = %s with %d remaining" % (ln.op, t[i + 1], b - f)
            i += 2
            gone = True
        elif ck in ("f", "b"):
            if t[i] != "s":
                return "%s answered %s to an advancing call" % (ln.op, t[i])
            e, i = parse_opt_e(t, i + 1)
            if b - f <= skip:
                want = None
                f = b
            elif ck == "f":
                f += skip
                want = order[f]
                f += 1
            else:
                b -= skip
                b -= 1
                want = order[b]
            if e != want:
                return "%s answered %s to call %s, expected %s (each element once, in order, never from both ends)" % (ln.op, e, call, want)
        elif ck == "l":
            if t[i] != "l" or int(t[i + 1]) != b - f:
                return "%s len() = %s with %d remaining" % (ln.op, t[i + 1], b - f)
            i += 2
        elif ck == "h":
            if t[i] != "h" or int(t[i + 1]) != b - f or t[i + 2] != str(b - f):
                return "%s size_hint() = (%s, %s) with %d remaining" % (ln.op, t[i + 1], t[i + 2], b - f)
            i += 3
    return None


def j_eq(kind, pre, ln):
    """C14: equality iff same (item, priority) set; symmetric."""
    if ln.fault or pre is None or ln.op != "eq":
        return None
    es, _ = entries(ln.args, 0)
    o = {}
    for (k, pl, p) in es:
        o[k] = rk(p)        # the priority type's `==` is equality of ranks
    mine = {k: rk(v[1]) for k, v in pre.contents().items()}
    want = "true" if o == mine else "false"
    if ln.res != want:
        return "eq answered %s for contents %s vs %s" % (ln.res, mine, o)
    return None


def j_capacity(kind, pre, ln):
    """C17"""
    if pre is None:
        return None
    if ln.op in ("reserve", "reserve_exact", "try_reserve", "try_reserve_exact", "shrink_to_fit", "capacity", "try_reserve_oom", "fresh"):
        n = int(ln.args[-1]) if ln.args else 0
        if ln.op == "fresh":
            n = 0
        if ln.fault:
            if ln.op in ("reserve", "reserve_exact") and n >= 2 ** 61 and ln.res == "fault capacity":
                return None
            return "%s %d: %s" % (ln.op, n, ln.res)
        if ln.res.startswith("capbad"):
            return ln.res
        if ln.res.startswith("err-but"):
            return "%s: %s" % (ln.op, ln.res)
        if ln.op.startswith("try_") and n >= 2 ** 61 and ln.res != "err":
            return "%s(%d) answered %s" % (ln.op, n, ln.res)
        if ln.op != "fresh" and ln.snap is not None and (ln.snap.map != pre.map or ln.snap.heap != pre.heap or ln.snap.qp != pre.qp):
            return "%s changed the queue" % ln.op
    return None


JUDGES = {
    "C01": [j_extreme], "C02": [j_extreme], "C03": [j_contents], "C04": [j_wf], "C05": [j_cost],
    "C06": [j_sorted, j_nofault], "C07": [j_contents, j_extreme, j_nofault], "C08": [j_contents, j_extreme, j_nofault], "C09": [j_contents, j_nofault],
    "C10": [j_wf], "C11": [j_contents, j_extreme], "C12": [j_contents, j_extreme], "C13": [j_iters, j_sorted, j_nofault], "C14": [j_eq, j_contents],
    "C15": [j_contents, j_extreme, j_wf, j_eq], "C16": [j_contents, j_iters, j_wf], "C17": [j_capacity, j_contents],
    "C18": [j_contents, j_extreme],
}


def judge_case(prop, kind, lines):
    """lines: list of raw trace lines of one case (impl side).  Returns (index, message) of the first line on which a
    judge of `prop` fails, or None."""
    pre = parse_snap("m 0 h 0 q 0 s 0")   # every case starts from a fresh (`new`) queue
    k = kind
    order_unspecified = False   # after a leaked iter_mut guard the order is unspecified (C01/C02 speak of dropped guards)
    for idx, text in enumerate(lines):
        try:
            ln = parse_line(text)
        except Exception as ex:  # malformed line (e.g. truncated by an abort)
            return (idx, "unparsable trace line: %s" % ex)
        if ln.op == "load":
            k = ln.args[0]
            pre = ln.snap
            continue
        if ln.op.startswith("!"):
            # an operation during which an injected user panic (Ord::cmp / callback) may have fired
            if ln.fault:
                survivable = ln.op.startswith("!cmp") or (ln.op.startswith("!cb") and ln.args and ln.args[0] in (
                    "change_priority_by", "pop_if", "pop_min_if", "pop_max_if", "extend", "from_iter")) or (
                    ln.op.startswith("!cl") and ln.args and ln.args[0] in ("clone_swap", "clone_from")) or (
                    ln.op.startswith("!dr") and ln.args and ln.args[0] == "clear")
                if ln.res != "fault user" or not survivable:
                    return None            # other fault kinds are judged by the C10 crash stream, not here
                # the panic was caught and the queue survives (C10): the case goes on from the post-unwinding state read
                # through the hook; the order of such a queue is unspecified until something rebuilds it, everything
                # else (contents of later operations, iterator contracts, well-formedness) is judged as usual
                try:
                    kk, _, core = text.partition(" | ")[2].strip().partition(" ")
                    kpre, ppre = k, pre
                    was_unordered = order_unspecified
                    pre = parse_snap(core)
                    k = kk
                except Exception as ex:
                    return (idx, "unparsable post-fault state: %s" % ex)
                order_unspecified = True
                if prop == "C05":
                    msg = j_cost_crashed(kpre, ppre, pre, ln.args[0], ln.args[1:])
                    if msg:
                        return (idx, msg)
                if prop in ("C03", "C11", "C12") and not ln.op.startswith(("!cl", "!dr")):
                    msg = j_crash_atomic(kpre, ppre, pre, ln.args[0], ln.args[1:], was_unordered)
                    if msg:
                        return (idx, msg)
                if prop in ("C01", "C02"):
                    # whatever the order: a reported extreme is a stored element, and None is reported iff nothing is stored
                    msg = j_extreme_weak(pre)
                    if msg:
                        return (idx, "after a caught panic: " + msg)
                if prop == "C10":
                    msg = j_wf(k, None, type("L", (), {"fault": False, "snap": pre, "op": ln.op, "args": [], "res": ""})())
                    if msg:
                        return (idx, "after a caught panic: " + msg)
                continue
            # the fuse did not fire: an ordinary operation
            text = text[text.index(" ") + 1:]
            ln = parse_line(text)
        if ln.op == "iter_mut" and ln.args and ln.args[0] == "forget":
            order_unspecified = True
        elif ln.op in ("clear", "drain", "from_vec", "from_iter", "deser", "deser_hint", "deser_unit", "fresh", "serde_rt", "convert"):
            # these produce a NEW queue (or empty it): whatever happened before, the result must be ordered.  The in-place bulk
            # operations (`retain`, `retain_mut`, `append`, a dropped `iter_mut` guard) happen to rebuild the whole heap in the
            # unchanged crate, but no property obliges them to REPAIR a queue that a leaked guard or a caught panic had
            # disordered (C10: the order is unspecified from then on) — an implementation that skips or narrows its rebuild
            # when it changed nothing is correct, so no failing input is claimed from them on such a queue.
            order_unspecified = False
        ln.unordered = order_unspecified
        for j in JUDGES.get(prop, []):
            if order_unspecified and j is j_extreme:
                j = j_extreme_weak_line
            try:
                msg = j(k, pre, ln)
            except Exception as ex:
                msg = None
            if msg:
                return (idx, msg)
        if ln.fault:
            return None
        if ln.op == "convert":
            k = "dpq" if k == "pq" else "pq"
        elif ln.op == "serde_rt":
            k = ln.args[0]
        pre = ln.snap
    return None
