#!/bin/bash
# usage: try_mutant.sh <patch.diff> <ID> [<ID>...]   -- applies the patch to /repo, runs the checks, ALWAYS reverts
patch="$1"; shift
cd /repo || exit 2
if ! git diff --quiet; then echo "/repo has local changes, refusing"; exit 2; fi
git apply "$patch" || { echo "patch does not apply"; exit 2; }
trap 'git -C /repo checkout -- . ' EXIT
for id in "$@"; do
  out=$(/verif/bin/check "$id" 2>&1); rc=$?
  echo "== $id rc=$rc"; echo "$out" | grep -E "^(check|VIOLATION|BROKEN|KNOWN)" | cut -c1-400
done
