#!/bin/bash
# like mutant_matrix.sh but for the ids given as arguments (default: every id under /verif/seeded)
out=${1:-/verif/work/matrix_r2.txt}; shift; : > $out
ids="$@"; [ -z "$ids" ] && ids=$(ls /verif/seeded)
for id in $ids; do
  prop=${id:0:3}
  log=$(/verif/tools/try_mutant.sh /verif/seeded/$id/patch.diff $prop 2>&1)
  res=$(echo "$log" | grep -E "^(== |VIOLATION|patch)" | tr '\n' ' ' | cut -c1-300)
  nb=$(echo "$log" | grep -c "^BROKEN")
  echo "$id $res broken=$nb" >> $out
done
git -C /repo status --short >> $out
