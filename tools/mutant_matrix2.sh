#!/bin/bash
# like mutant_matrix.sh but for the ids given as arguments (default: round-2 ids *c *d)
out=${1:-/verif/work/matrix_r2.txt}; shift; : > $out
ids="$@"; [ -z "$ids" ] && ids=$(ls /verif/seeded | grep -E '[cd]$')
for id in $ids; do
  prop=${id:0:3}
  res=$(/verif/tools/try_mutant.sh /verif/seeded/$id/patch.diff $prop 2>&1 | grep -E "^(== |VIOLATION|BROKEN|patch)" | tr '\n' ' ' | cut -c1-300)
  echo "$id $res" >> $out
done
git -C /repo status --short >> $out
