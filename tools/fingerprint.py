#!/usr/bin/env python3
"""fingerprint.py [--update]: compares the crate's source files with the snapshot the theorems and the last full
correspondence runs were made against (/verif/src_fingerprint.json: sha256 per file of /repo/src, comments and blank lines
stripped).  Prints JSON {"changed": [...], "added": [...], "removed": [...]}.  A difference is NOT an alarm: it only tells
bin/check that there is a change to look at, so that the quick tier spends a deeper search budget (more seeds, judges on
every trace) where it would otherwise only repeat a run that is known to pass.  --update rewrites the snapshot (done by
hand after a fix: commit in /repo)."""
import hashlib, json, os, re, sys
REPO = os.environ.get("VERIF_REPO", "/repo")
V = os.path.dirname(os.path.dirname(os.path.abspath(__file__)))
SNAP = os.path.join(V, "src_fingerprint.json")


def norm(text):
    text = re.sub(r"/\*.*?\*/", "", text, flags=re.S)
    text = re.sub(r"//[^\n]*", "", text)
    return "\n".join(l.strip() for l in text.splitlines() if l.strip())


def current():
    out = {}
    src = os.path.join(REPO, "src")
    for d, _, fs in os.walk(src):
        for f in fs:
            if f.endswith(".rs"):
                p = os.path.join(d, f)
                out[os.path.relpath(p, REPO)] = hashlib.sha256(norm(open(p, errors="replace").read()).encode()).hexdigest()
    return out


def main():
    cur = current()
    if "--update" in sys.argv:
        json.dump(cur, open(SNAP, "w"), indent=1, sort_keys=True)
        print(json.dumps({"updated": len(cur)}))
        return
    try:
        old = json.load(open(SNAP))
    except Exception:
        old = {}
    print(json.dumps({"changed": sorted(k for k in cur if k in old and cur[k] != old[k]),
                      "added": sorted(k for k in cur if k not in old), "removed": sorted(k for k in old if k not in cur)}))


if __name__ == "__main__":
    main()
