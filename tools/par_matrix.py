#!/usr/bin/env python3
"""Runs checks against patched copies of the repository WITHOUT touching /repo or /verif: each worker owns a "slot"
(/tmp/pqslot<i>/verif = copy of /verif, /tmp/pqslot<i>/repo = git worktree of /repo) whose harness depends on the slot's
repository.  Test tooling for the seeded (property-breaking) and benign (property-preserving) change sets; not used by any
registered check.

  par_matrix.py seeded [ids...]   each seeded change against the check of its own property   -> work/matrix_par.txt
  par_matrix.py benign [ids...]   each benign change against ALL 18 checks                    -> work/benign_matrix.txt
  par_matrix.py thorough [props]  the UNCHANGED tree, thorough tier, every check                -> work/thorough_sweep.txt
"""
import json, os, re, shutil, subprocess, sys, threading, queue, time

VERIF = "/verif"
NSLOTS = int(os.environ.get("PAR_SLOTS", "5"))
PROPS = ["C%02d" % i for i in range(1, 19)]


def sh(cmd, **kw):
    return subprocess.run(cmd, stdout=subprocess.PIPE, stderr=subprocess.STDOUT, **kw)


RUN = os.getpid()   # slots are private to one invocation, so that several matrices can run side by side


def slot_root(i):
    return "/tmp/pqslot_%d_%d" % (RUN, i)


def make_slot(i):
    root = slot_root(i)
    if os.path.exists(root):
        sh(["git", "-C", "/repo", "worktree", "remove", "--force", root + "/repo"])
        shutil.rmtree(root, ignore_errors=True)
    os.makedirs(root)
    sh(["git", "-C", "/repo", "worktree", "add", "--detach", root + "/repo", "HEAD"])
    # copy /verif without the big build directories of the harness (rebuilt per slot) and old work files
    sh(["rsync", "-a", "--exclude", "harness/target", "--exclude", "work", "--exclude", ".git", "--exclude", "replays", VERIF + "/", root + "/verif/"])
    ct = root + "/verif/harness/Cargo.toml"
    s = open(ct).read().replace('path = "/repo"', 'path = "%s/repo"' % root)
    open(ct, "w").write(s)
    return root


def drop_slot(i):
    root = slot_root(i)
    sh(["git", "-C", "/repo", "worktree", "remove", "--force", root + "/repo"])
    shutil.rmtree(root, ignore_errors=True)


TIER = "quick"


def run_check(root, prop):
    env = dict(os.environ, VERIF_REPO=root + "/repo", CARGO_NET_OFFLINE="true")
    p = sh([root + "/verif/bin/check", prop, "--tier", TIER], env=env, cwd=root + "/verif")
    out = p.stdout.decode(errors="replace")
    v = [l for l in out.splitlines() if l.startswith("VIOLATION")]
    nb = sum(1 for l in out.splitlines() if l.startswith("BROKEN"))
    if p.returncode == 0:
        tag = "ok"
    elif v and "no-failing-input-found" in v[0]:
        tag = "tie"
    elif v:
        tag = "CONCRETE"
    else:
        tag = "rc%d" % p.returncode
    summary = ""
    if v:
        m = re.search(r"replay=(\S+)", v[0])
        if m and os.path.exists(m.group(1)):
            try:
                d = json.load(open(m.group(1)))
                summary = (d.get("kind", "") + ": " + str(d.get("summary", "")))[:200]
            except Exception:
                pass
    return tag, nb, summary, p.returncode, (v[0] if v else "")


def worker(i, jobs, results, lock):
    root = make_slot(i)
    while True:
        try:
            name, patch, props = jobs.get_nowait()
        except queue.Empty:
            break
        sh(["git", "-C", root + "/repo", "checkout", "--", "."])
        a = sh(["git", "-C", root + "/repo", "apply", patch]) if patch else sh(["true"])
        if a.returncode != 0:
            with lock:
                results[name] = {"error": "patch does not apply: " + a.stdout.decode()[-200:]}
            continue
        r = {}
        for p in props:
            r[p] = run_check(root, p)
        sh(["git", "-C", root + "/repo", "checkout", "--", "."])
        with lock:
            results[name] = r
            print(name, {k: v[0] for k, v in r.items()}, flush=True)
    drop_slot(i)


def main():
    kind = sys.argv[1]
    ids = sys.argv[2:]
    jobs = queue.Queue()
    global TIER
    if kind == "thorough":
        # the unchanged tree, thorough tier, one job per property (a sanity sweep: every check must exit 0)
        TIER = "thorough"
        for p in (ids or PROPS):
            jobs.put(("unchanged_" + p, None, [p]))
        out = VERIF + "/work/thorough_sweep.txt"
    elif kind == "seeded":
        all_ids = sorted(d for d in os.listdir(VERIF + "/seeded") if os.path.exists(VERIF + "/seeded/%s/patch.diff" % d))
        for d in (ids or all_ids):
            jobs.put((d, VERIF + "/seeded/%s/patch.diff" % d, [d[:3]]))
        out = VERIF + "/work/matrix_par.txt"
    else:
        all_ids = sorted(re.match(r"benign_(\d+)\.diff", f).group(1) for f in os.listdir(VERIF + "/benign") if f.endswith(".diff"))
        for n in (ids or all_ids):
            jobs.put(("benign_" + n, VERIF + "/benign/benign_%s.diff" % n, [p for p in PROPS if p in os.environ.get("PAR_PROPS", ",".join(PROPS)).split(",")]))
        out = VERIF + "/work/benign_matrix.txt"
    results, lock = {}, threading.Lock()
    ts = [threading.Thread(target=worker, args=(i, jobs, results, lock)) for i in range(min(NSLOTS, jobs.qsize()))]
    t0 = time.time()
    for t in ts:
        t.start()
    for t in ts:
        t.join()
    os.makedirs(VERIF + "/work", exist_ok=True)
    with open(out, "w") as f:
        for name in sorted(results):
            r = results[name]
            if "error" in r:
                f.write("%s %s\n" % (name, r["error"]))
            elif kind == "thorough":
                p = name[-3:]
                f.write("%s: %s rc=%d %s\n" % (name, r[p][0], r[p][3], r[p][4]))
            elif kind == "seeded":
                p = name[:3]
                tag, nb, summary, rc, v = r[p]
                # same line format as tools/mutant_matrix2.sh (read by gen_seeded_table.py)
                f.write("%s == %s rc=%d %s  broken=%d  # %s\n" % (name, p, rc, v, nb, summary))
            else:
                f.write("%s: %s\n" % (name, " ".join("%s=%s" % (p, r[p][0]) for p in PROPS if p in r)))
                for p in PROPS:
                    if p in r and r[p][0] == "CONCRETE":
                        f.write("    %s CONCRETE: %s\n" % (p, r[p][2]))
    print("done in %.0fs -> %s" % (time.time() - t0, out))


if __name__ == "__main__":
    main()
