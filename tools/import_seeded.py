#!/usr/bin/env python3
"""import_seeded.py <prop> <agent dir> <letterA-id> <letterB-id> <round>: verify both changes of an agent and store them under /verif/seeded"""
import json, os, shutil, subprocess, sys
prop, src, ida, idb, rnd = sys.argv[1:6]
rep = json.load(open(os.path.join(src, "REPORT.json")))
head = subprocess.run(["git", "-C", "/repo", "rev-parse", "--short", "HEAD"], stdout=subprocess.PIPE).stdout.decode().strip()
for X, sid in (("A", ida), ("B", idb)):
    if X not in rep or not os.path.exists(os.path.join(src, "mut_%s.diff" % X)):
        print(sid, "missing"); continue
    r = rep[X]
    feat = r.get("demo_features", "") or ""
    out = subprocess.run(["/verif/tools/verify_seeded.sh", src, X, feat], stdout=subprocess.PIPE, stderr=subprocess.STDOUT).stdout.decode().strip().splitlines()[-1]
    ok = out.startswith("demo_clean_rc=0 suite_rc=0 suite_serde_rc=0 demo_mutant_rc=") and not out.endswith("demo_mutant_rc=0")
    print(sid, out, "CONFIRMED" if ok else "REJECTED")
    if not ok:
        continue
    d = "/verif/seeded/%s" % sid
    os.makedirs(d, exist_ok=True)
    shutil.copy(os.path.join(src, "mut_%s.diff" % X), os.path.join(d, "patch.diff"))
    shutil.copy(os.path.join(src, "tests", "demo_%s.rs" % X), os.path.join(d, "demo.rs"))
    meta = {"id": sid, "property": prop, "round": rnd, "summary": r.get("summary", ""), "needs": r.get("needs", ""),
            "demo_features": feat,
            "origin": "round %s: written by an independent sub-agent given only the property text and a scratch worktree of /repo (HEAD %s)" % (rnd, head),
            "confirmed_by_me": {"how": "tools/verify_seeded.sh in a fresh scratch worktree: demo without patch; cargo test --workspace --offline and --features serde with patch; demo with patch", "result": out,
                                "meaning": "demo passes on the unchanged tree, the full existing suite passes with the patch under both feature sets, the demo fails with the patch"},
            "agent_verified": {k: r.get(k) for k in ("suite_passes_with_patch", "demo_fails_with_patch", "demo_passes_without_patch")}}
    json.dump(meta, open(os.path.join(d, "meta.json"), "w"), indent=1)
