import PQ.Props.C13
import PQ.Props.C14
import PQ.Props.C16
import PQ.Props.C17
import PQ.Props.C18
namespace PQ

/-! T1: in `Alloc.tryReserve` the partial-failure branches are dead code: an error always returns the
caps UNCHANGED, because all three collections use the same `len`, `additional`, `capLimit`. -/
theorem tryReserve_err_unchanged (a : Alloc) (c c' : Caps) (len add : Nat)
    (h : a.tryReserve c len add = .error c') : c' = c := by
  unfold Alloc.tryReserve Alloc.reserve1 at h
  by_cases hl : a.capLimit ≤ len + add
  · simp [hl] at h; exact h.symm
  · have e : ∀ cap, (if a.capLimit ≤ len + add then (none : Option Nat)
        else if len + add ≤ cap then some cap else some (a.grow (len + add))) =
        some (if len + add ≤ cap then cap else a.grow (len + add)) := by
      intro cap; simp only [hl, if_false]; split <;> rfl
    simp only [e] at h
    cases h

/-! T2: the C18 theorem holds of every function whatsoever. -/
theorem c18_generic {α β : Type} (f : α → β) (x : α) (r₁ r₂ : β) (h₁ : f x = r₁) (h₂ : f x = r₂) : r₁ = r₂ :=
  h₁ ▸ h₂ ▸ rfl

/-! T3: the adaptor-len theorem is a one-step consequence of the definition of `Cursor.step .sizeHint`
(any cursor state, no reachability needed). -/
theorem hint_eq_by_def (c : Cursor) (x : ICall) (lo hi : Nat) (h : (c.step x).2 = .hint lo (some hi)) : lo = hi := by
  cases x <;> simp [Cursor.step] at h
  · split at h <;> simp at h
  · split at h <;> simp at h
  · omega

/-! T4: `IMap.eqv` compares priorities with Leibniz equality while the order on `P` is an arbitrary `LT`:
two priorities that are `Ord`-equal (neither `<` the other) but carry a different tag make the model's `==` false. -/
structure Tagged where
  rank : Nat
  tag : Nat
  deriving DecidableEq
instance : LT Tagged := ⟨fun a b => a.rank < b.rank⟩
instance : DecidableLT Tagged := fun a b => inferInstanceAs (Decidable (a.rank < b.rank))

example : IMap.eqv (#[(⟨1, 0⟩, (⟨5, 0⟩ : Tagged))] : IMap Tagged) #[(⟨1, 0⟩, ⟨5, 1⟩)] = false := by decide +kernel
example : ¬ ((⟨5, 0⟩ : Tagged) < ⟨5, 1⟩) ∧ ¬ ((⟨5, 1⟩ : Tagged) < ⟨5, 0⟩) := by decide

/-! T5: C17_invisible needs nothing but `step q .capacityOp = (q, unit)`; C17_shrink_ok is `id`. -/
example (len cap' : Nat) (h : len ≤ cap') : C17_shrink_ok len cap' h = h := rfl

/-! T6: clone in the model is the identity, so "clone equal to its source" would need `Store.eqv s s`, which is FALSE on
non-WF stores — consistent, but no C14 theorem states the clone clause at all. -/

/-! T7: C16_drain_cursor is weaker than C13_cursor_exhaust: the Perm statement is available but not stated. -/
theorem drain_cursor_perm {P : Type} (s : Store P) (calls : List ICall) (h : s.map.size ≤ adv calls) :
    (slots (Cursor.run (Cursor.new (s.drain).1.size) calls)).Perm (List.range s.map.size) :=
  (C13_cursor_exhaust s.map.size calls).2.2.1 h

end PQ
