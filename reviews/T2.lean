import PQ.Props.C01
open PQ

/-- a genuinely non-antisymmetric priority: compared by `rank` only -/
structure TP where
  rank : Nat
  tag : Nat
  deriving DecidableEq, Repr

instance : LT TP := ⟨fun a b => a.rank < b.rank⟩
instance : LE TP := ⟨fun a b => a.rank ≤ b.rank⟩
instance : DecidableLT TP := fun a b => inferInstanceAs (Decidable (a.rank < b.rank))

instance : Std.IsLinearPreorder TP where
  le_refl a := Nat.le_refl _
  le_trans a b c := Nat.le_trans
  le_total a b := Nat.le_total _ _

instance : Std.LawfulOrderLT TP where
  lt_iff a b := by
    show a.rank < b.rank ↔ a.rank ≤ b.rank ∧ ¬ b.rank ≤ a.rank
    omega

-- C01 instantiates at a preorder with distinguishable ties
example (ops : List (Op TP)) (hl : ∀ op ∈ ops, op.Legal) (hn : ∀ op ∈ ops, op.isLeak = false) :=
  C01_reach_new ops .pq hl hn

-- two tied-but-different priorities: pop returns the very entry peek showed (tag included)
example : hist_okR (run (Q.new .pq) [.push ⟨1, 0⟩ (⟨7, 100⟩ : TP), .push ⟨2, 0⟩ ⟨7, 200⟩, .push ⟨3, 0⟩ ⟨7, 300⟩])
    (fun r => hist_okR (MaxQ.pop r.1.s) (fun r' => r'.2 = MaxQ.peek r.1.s)) := by decide +kernel
