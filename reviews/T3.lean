import PQ.Props.C04
open PQ
variable {P : Type} [LT P] [DecidableLT P] [LE P] [Std.IsLinearPreorder P] [Std.LawfulOrderLT P]

-- proposed: the read-only unsafe sites 327/328 (peek_min / peek_max) after any history, leaks included
theorem C04_peeks_after_history (ops : List (Op P)) (hl : ∀ op ∈ ops, op.Legal) (k : Kind) :
    ∃ q' outs, run (Q.new k) ops = .ok (q', outs) ∧
      (∃ r, DQ.peekMin q'.s = .ok r) ∧ (∃ n r, DQ.peekMax q'.s = .ok (q'.s.tick n, r) ∧ n ≤ 1) := by
  obtain ⟨q', outs, h1, _, h3⟩ := C04_from_any_wf ops (hist_new_wf k) hl
  obtain ⟨r, hr, _⟩ := DQ.peekMin_safe (s := q'.s) h3
  obtain ⟨n, r', hr', hn, _⟩ := DQ.peekMax_safe (s := q'.s) h3
  exact ⟨q', outs, h1, ⟨r, hr⟩, ⟨n, r', hr', hn⟩⟩

-- the general `append` lemma already takes ANY well-formed `other`
#check @MaxQ.append_spec
#check @DQ.append_spec
