import PQ.Props.C05
import PQ.Props.C06
import PQ.Props.C01
import PQ.Props.C04
open PQ

-- does `peek` (and the other "zero comparison" observers) even take the order instance?
#check @MaxQ.peek
#check @DQ.peekMin
#check @DQ.findMin
#check @Store.get
#check @Store.getPriority
#check @Store.getMutWrite
#check @MaxQ.peekMutWrite
#check @DQ.peekMinMutWrite
#check @Store.len
#check @DQ.peekMax
#check @Store.debugEntries
#check @Store.QpLt
#print Store.QpLt
#print axioms C05_pq_heapBuild_linear
#print axioms C01_reach
#print axioms C06_dpq_deque
