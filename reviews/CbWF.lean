import PQ.Lemmas.CrashLemmas
import PQ.Lemmas.BulkProps
import PQ.Props.C04
import PQ.Model.CrashCb
import PQ.Lemmas.History
import PQ.Lemmas.PQSafe
import PQ.Lemmas.DQSafe
import PQ.Lemmas.Bulk

set_option linter.unusedSectionVars false
namespace PQ
open PQ.Crash PQ.Arith
variable {P : Type} [LT P] [DecidableLT P] [LE P] [Std.IsLinearPreorder P] [Std.LawfulOrderLT P]

/-! ## `liftStep` -/

theorem cb_liftStep_ok {q : Q P} {op : Op P} {r : Q P × Out P} (h : liftStep q op = .ok r) : step q op = .ok r := by
  unfold liftStep at h
  cases hs : step q op with
  | ok x => rw [hs] at h; cases h; rfl
  | error f => rw [hs] at h; cases h

theorem cb_liftStep_of_ok {q : Q P} {op : Op P} {r : Q P × Out P} (h : step q op = .ok r) : liftStep q op = .ok r := by
  unfold liftStep; rw [h]

theorem cb_liftStep_crashed {q q' : Q P} {op : Op P} : liftStep q op ≠ .error (.crashed q') := by
  unfold liftStep; cases step q op <;> intro h <;> cases h

theorem cb_liftStep_crashedNew {q : Q P} {op : Op P} : liftStep q op ≠ .error .crashedNew := by
  unfold liftStep; cases step q op <;> intro h <;> cases h

/-- `find_max` writes nothing but the ghost counter (no hypothesis on the store) -/
theorem cb_findMax_frame {s s' : Store P} {r : Option Nat} (h : DQ.findMax s = .ok (s', r)) :
    ∃ n, n ≤ 1 ∧ s' = s.tick n ∧ (r = none ↔ s.size = 0) := by
  unfold DQ.findMax at h
  split at h
  · rename_i h0; cases h; exact ⟨0, by omega, rfl, by simp [h0]⟩
  · rename_i h0; cases h; exact ⟨0, by omega, rfl, by simp [h0]⟩
  · rename_i h0; cases h; exact ⟨0, by omega, rfl, by simp [h0]⟩
  · rename_i h0 h1 h2
    cases hp1 : s.prioAt 1 with
    | error f => rw [hp1] at h; cases h
    | ok p1 =>
      cases hp2 : s.prioAt 2 with
      | error f => rw [hp1, hp2] at h; cases h
      | ok p2 =>
        rw [hp1, hp2] at h; cases h
        exact ⟨1, by omega, rfl, by simp; exact h0⟩

/-! ## (2) when the fuse does not fire `stepCb` is the plain operation -/

/-- `stepCb` on `extend`, unfolded -/
theorem cb_stepCb_extend (k : Nat) (q : Q P) (lo : Nat) (xs : Array (Item × P)) :
    stepCb k q (.extend lo xs) =
      if 1 ≤ k ∧ k ≤ xs.size + 1 then
        if (if lo ≠ 0 then betterToRebuild q.s.size lo else false) = true then
          .error (.crashed { q with s := q.s.extend (xs.extract 0 (k - 1)) })
        else
          match pushAllK q.kind (xs.extract 0 (k - 1)).toList q.s with
          | .ok s => .error (.crashed { q with s := s })
          | .error f => .error (.fault f)
      else liftStep q (.extend lo xs) := rfl



/-- scratch: the crash state of the callback model is well-formed (missing from Props/C10) -/
theorem scratch_stepCb_wf (k : Nat) {q : Q P} {op : Op P} (hq : QWF q) :
    ∀ q', stepCb k q op = .error (.crashed q') → QWF q' := by
  intro q' h
  obtain ⟨kind, s⟩ := q
  have hs : s.WF := hq
  cases op with
  | changePriorityBy key g =>
    simp only [stepCb] at h
    split at h
    · cases h; exact hq
    · exact absurd h cb_liftStep_crashed
  | popFrontIf f =>
    simp only [stepCb] at h
    split at h
    · cases kind with
      | pq =>
        simp only at h
        split at h
        · exact absurd h cb_liftStep_crashed
        · cases h; exact hq
      | dpq =>
        simp only at h
        split at h
        · exact absurd h cb_liftStep_crashed
        · cases h; exact hq
    · exact absurd h cb_liftStep_crashed
  | popBackIf f =>
    simp only [stepCb] at h
    split at h
    · cases kind with
      | pq => exact absurd h cb_liftStep_crashed
      | dpq =>
        simp only at h
        split at h
        · cases h
        · exact absurd h cb_liftStep_crashed
        · rename_i s' _ hfm
          cases h
          obtain ⟨n, _, rfl, _⟩ := cb_findMax_frame hfm
          exact (Store.tick_TWF).2 hs
    · exact absurd h cb_liftStep_crashed
  | extend lo xs =>
    rw [cb_stepCb_extend] at h
    by_cases hk : 1 ≤ k ∧ k ≤ xs.size + 1
    · rw [if_pos hk] at h
      by_cases hr : (if lo ≠ 0 then betterToRebuild s.size lo else false) = true
      · rw [if_pos hr] at h
        cases h
        exact Store.wf_extend hs _
      · rw [if_neg hr] at h
        cases kind with
        | pq =>
          obtain ⟨s', h1, h2, _⟩ := PQ.MaxQ.pushAll_safe (xs.extract 0 (k - 1)).toList hs
          simp only [pushAllK, h1] at h
          cases h; exact h2
        | dpq =>
          obtain ⟨s', h1, h2, _⟩ := PQ.DQ.pushAll_safe hs (xs.extract 0 (k - 1)).toList
          simp only [pushAllK, h1] at h
          cases h; exact h2
    · rw [if_neg hk] at h
      exact absurd h cb_liftStep_crashed
  | fromIter xs =>
    simp only [stepCb] at h
    split at h
    · cases h
    · exact absurd h cb_liftStep_crashed
  | _ => exact absurd (by simpa [stepCb] using h) cb_liftStep_crashed

end PQ
#print axioms PQ.scratch_stepCb_wf
