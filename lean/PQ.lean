import PQ.Model.Basic
import PQ.Model.IMap
import PQ.Model.Arith
import PQ.Model.Store
import PQ.Model.PQ
import PQ.Model.DPQ
import PQ.Model.Iter
import PQ.Driver
