import PQ.Lemmas.BulkProps
/-!
# C07 — Bulk construction, extend and append give the specified contents

> `From<Vec>` keeps the first priority given for each distinct item, `FromIterator` and `extend` keep the last,
> `append` moves every element of the other queue whose item is not already present (on a clash the receiver's
> priority stays unless the other queue was longer, when either may stay) and leaves the other queue empty, and
> conversion between the two queue kinds preserves the contents; the result is always a correctly ordered queue.
> For `FromIterator` and `extend` the outcome depends only on the sequence of pairs the iterator yields, never on its
> `size_hint` or on which internal strategy is chosen, and no legal `size_hint` makes them panic.

Every theorem is stated for BOTH queue kinds (first conjunct `PriorityQueue` = `MaxQ`, second `DoublePriorityQueue` =
`DQ`).  Contents are `Store.abs s k` (the stored `(item, priority)` of key `k`, payload of the item included).
`append` is stated for ANY two well-formed stores (`C07_append`) and as the operation `Op.append o` of the alphabet, whose
argument is an arbitrary well-formed other queue (`C07_append_step`).
In the model `extend s lo xs` / `fromIter lo xs` receive the pairs `xs` the iterator yields and the lower bound `lo` of its
`size_hint` — the only part the code reads: `extend` calls `self.reserve(lo)` and chooses its strategy from it,
`Store::from_iter` calls `with_capacity(lo)`.  The upper bound of the hint is never read by the code and is not part of the
model.  A `size_hint` is LEGAL (`LegalLo lo xs`, which is `Op.Legal` of `.extend lo xs` / `.fromIter lo xs`) when its lower
bound does not exceed the number of pairs actually yielded (`Iterator::size_hint`'s contract) and that number is one a
`Vec` can hold (`< capLimit = 2^61`).  Every theorem below holds for every lower bound `lo < capLimit`, in particular for
every legal one (`LegalLo.lt`); a lower bound `≥ capLimit` — necessarily an illegal hint — is the documented
"capacity overflow" panic of `reserve` / `with_capacity` and nothing else (`C07_illegal_lower_bound_is_capacity_panic`).
-/
namespace PQ
open Store Arith
variable {P : Type} [LT P] [DecidableLT P] [LE P] [Std.IsLinearPreorder P] [Std.LawfulOrderLT P]

/-- a LEGAL `size_hint` lower bound `lo` for an iterator that yields the pairs `xs`: it does not exceed the number of pairs
yielded, and that number is below the capacity limit.  This is `Op.Legal` of `.extend lo xs` and of `.fromIter lo xs`. -/
def LegalLo {α : Type} (lo : Nat) (xs : Array α) : Prop := lo ≤ xs.size ∧ xs.size < capLimit

omit [LT P] [DecidableLT P] [LE P] [Std.IsLinearPreorder P] [Std.LawfulOrderLT P] in
theorem LegalLo.iff_legal (lo : Nat) (xs : Array (Item × P)) :
    (LegalLo lo xs ↔ (Op.extend lo xs : Op P).Legal) ∧ (LegalLo lo xs ↔ (Op.fromIter lo xs : Op P).Legal) :=
  ⟨Iff.rfl, Iff.rfl⟩

instance {α : Type} (lo : Nat) (xs : Array α) : Decidable (LegalLo lo xs) :=
  inferInstanceAs (Decidable (lo ≤ xs.size ∧ xs.size < capLimit))

/-- a legal lower bound is below the capacity limit -/
theorem LegalLo.lt {α : Type} {lo : Nat} {xs : Array α} (h : LegalLo lo xs) : lo < capLimit :=
  Nat.lt_of_le_of_lt h.1 h.2

/-- **`From<Vec>`**, for EVERY vector: a correctly ordered queue holding, for each key, the FIRST pair given for it;
its length is the number of distinct keys -/
theorem C07_fromVec (v : Array (Item × P)) :
    (∃ s', MaxQ.fromVec v = .ok s' ∧ MaxQ.Inv s' ∧ (∀ k, s'.abs k = v.toList.find? (fun e => e.1.key == k)) ∧
      s'.size = (v.toList.map (·.1.key)).eraseDups.length) ∧
    (∃ s', DQ.fromVec v = .ok s' ∧ DQ.Inv s' ∧ (∀ k, s'.abs k = v.toList.find? (fun e => e.1.key == k)) ∧
      s'.size = (v.toList.map (·.1.key)).eraseDups.length) := by
  constructor
  · obtain ⟨s', hrun, hwf, hmap, hsz, hm⟩ := MaxQ.heapBuild_spec (wf_fromVec v)
    refine ⟨s', hrun, ⟨hwf, hm⟩, fun k => ?_, by rw [hsz, size_fromVec]⟩
    show IMap.lookup s'.map k = _
    rw [hmap]; exact lookup_fromVec v k
  · obtain ⟨s', hrun, hinv, habs, hsz⟩ := DQ.fromVec_spec v
    exact ⟨s', hrun, hinv, habs, hsz⟩

example : bp_okR (MaxQ.fromVec #[(⟨1, 0⟩, 5), (⟨1, 9⟩, 7), (⟨2, 0⟩, 8)]) (fun s' => MaxQ.Inv s' ∧ s'.size = 2 ∧
      s'.abs 1 = some (⟨1, 0⟩, 5)) ∧
    bp_okR (DQ.fromVec #[(⟨1, 0⟩, 5), (⟨1, 9⟩, 7), (⟨2, 0⟩, 8)]) (fun s' => s'.size = 2 ∧
      s'.abs 1 = some (⟨1, 0⟩, 5)) := by decide +kernel

/-- **`FromIterator`**, for EVERY sequence and every lower bound `lo < capLimit` of the `size_hint` (in particular every
legal one): a correctly ordered queue holding, for each key, the LAST pair given for it (with that pair's item) -/
theorem C07_fromIter (lo : Nat) (xs : Array (Item × P)) (hlo : lo < capLimit) :
    (∃ s', MaxQ.fromIter lo xs = .ok s' ∧ MaxQ.Inv s' ∧
      (∀ k, s'.abs k = xs.toList.reverse.find? (fun e => e.1.key == k)) ∧
      s'.size = (xs.toList.map (·.1.key)).eraseDups.length) ∧
    (∃ s', DQ.fromIter lo xs = .ok s' ∧ DQ.Inv s' ∧
      (∀ k, s'.abs k = xs.toList.reverse.find? (fun e => e.1.key == k)) ∧
      s'.size = (xs.toList.map (·.1.key)).eraseDups.length) := by
  constructor
  · obtain ⟨s', hrun, hwf, hmap, hsz, hm⟩ := MaxQ.heapBuild_spec (wf_fromIter xs)
    refine ⟨s', by rw [MaxQ.fromIter_of_lt xs hlo]; exact hrun, ⟨hwf, hm⟩, fun k => ?_, by rw [hsz, size_fromIter]⟩
    show IMap.lookup s'.map k = _
    rw [hmap]; exact lookup_fromIter xs k
  · obtain ⟨s', hrun, hinv, habs, hsz⟩ := DQ.fromIter_spec lo xs hlo
    exact ⟨s', hrun, hinv, habs, hsz⟩

example : LegalLo 3 #[((⟨1, 0⟩ : Item), 5), (⟨1, 9⟩, 7), (⟨2, 0⟩, 8)] ∧
    bp_okR (MaxQ.fromIter 3 #[(⟨1, 0⟩, 5), (⟨1, 9⟩, 7), (⟨2, 0⟩, 8)]) (fun s' => MaxQ.Inv s' ∧ s'.size = 2 ∧
      s'.abs 1 = some (⟨1, 9⟩, 7)) ∧
    bp_okR (DQ.fromIter 0 #[(⟨1, 0⟩, 5), (⟨1, 9⟩, 7), (⟨2, 0⟩, 8)]) (fun s' => s'.size = 2 ∧
      s'.abs 1 = some (⟨1, 9⟩, 7)) := by decide +kernel

/-- **`extend`**, for EVERY lower bound `lo < capLimit` (in particular every legal hint): it succeeds, the result is correctly ordered, its contents are the fold of the
abstract step `Store.absStep` over the pairs; closed form: a key that occurs among the pairs gets the priority of
the LAST pair given for it and keeps the item that was stored (else: the item of the FIRST pair given), every other
key is untouched; the length grows by the number of distinct new keys -/
theorem C07_extend (xs : Array (Item × P)) :
    (∀ {s : Store P}, MaxQ.Inv s → ∀ lo, lo < capLimit → ∃ s', MaxQ.extend s lo xs = .ok s' ∧ MaxQ.Inv s' ∧
      s'.abs = xs.foldl Store.absStep s.abs ∧
      (∀ k, s'.abs k =
        match xs.toList.reverse.find? (fun e => e.1.key == k) with
        | none => s.abs k
        | some b => some ((((s.abs k).or (xs.toList.find? (fun e => e.1.key == k))).map (·.1)).getD b.1, b.2)) ∧
      s'.size = s.size + ((xs.toList.map (·.1.key)).filter (fun k => !IMap.contains s.map k)).eraseDups.length) ∧
    (∀ {s : Store P}, DQ.Inv s → ∀ lo, lo < capLimit → ∃ s', DQ.extend s lo xs = .ok s' ∧ DQ.Inv s' ∧
      s'.abs = xs.foldl Store.absStep s.abs ∧
      (∀ k, s'.abs k =
        match xs.toList.reverse.find? (fun e => e.1.key == k) with
        | none => s.abs k
        | some b => some ((((s.abs k).or (xs.toList.find? (fun e => e.1.key == k))).map (·.1)).getD b.1, b.2)) ∧
      s'.size = s.size + ((xs.toList.map (·.1.key)).filter (fun k => !IMap.contains s.map k)).eraseDups.length) := by
  constructor
  · intro s h lo hlo
    obtain ⟨s', hrun, hinv, habs⟩ := MaxQ.extend_spec h lo xs hlo
    obtain ⟨h1, h2⟩ := bp_extend_common h.1 hinv.1 xs habs
    exact ⟨s', hrun, hinv, habs, h1, h2⟩
  · intro s h lo hlo
    obtain ⟨s', hrun, hinv, habs⟩ := DQ.extend_spec h lo xs hlo
    obtain ⟨h1, h2⟩ := bp_extend_common h.1 hinv.1 xs habs
    exact ⟨s', hrun, hinv, habs, h1, h2⟩

example : MaxQ.Inv bp_exP ∧ bp_okR (MaxQ.extend bp_exP 0 #[(⟨4, 0⟩, 9), (⟨7, 0⟩, 2), (⟨7, 1⟩, 6)]) (fun s' =>
      MaxQ.Inv s' ∧ s'.size = 6 ∧ s'.abs 4 = some (⟨4, 40⟩, 9) ∧ s'.abs 7 = some (⟨7, 0⟩, 6)) := by decide +kernel
example : DQ.Inv DQ.exQ ∧ bp_okR (DQ.extend DQ.exQ 0 #[(⟨2, 7⟩, 1), (⟨9, 1⟩, 2), (⟨9, 2⟩, 3)]) (fun s' =>
      s'.size = 9 ∧ s'.abs 2 = some (⟨2, 0⟩, 1) ∧ s'.abs 9 = some (⟨9, 1⟩, 3)) := ⟨DQ.exQ_inv, by decide +kernel⟩

/-- **the outcome of `extend` and of `FromIterator` does not depend on the `size_hint`**: for any two LEGAL lower bounds
`lo`, `lo'` (more generally: any two below `capLimit`; the upper bound is never read) both `extend` calls succeed, both
results are correctly ordered and they have the same contents — item payloads included — and the same length; and
`fromIter` returns literally the same queue -/
theorem C07_hint_irrelevant (xs : Array (Item × P)) (lo lo' : Nat) (hlo : lo < capLimit) (hlo' : lo' < capLimit) :
    (∀ {s : Store P}, MaxQ.Inv s → ∃ s1 s2, MaxQ.extend s lo xs = .ok s1 ∧ MaxQ.extend s lo' xs = .ok s2 ∧
      MaxQ.Inv s1 ∧ MaxQ.Inv s2 ∧ s1.abs = s2.abs ∧ s1.size = s2.size) ∧
    (∀ {s : Store P}, DQ.Inv s → ∃ s1 s2, DQ.extend s lo xs = .ok s1 ∧ DQ.extend s lo' xs = .ok s2 ∧
      DQ.Inv s1 ∧ DQ.Inv s2 ∧ s1.abs = s2.abs ∧ s1.size = s2.size) ∧
    (MaxQ.fromIter lo xs = MaxQ.fromIter lo' xs ∧ DQ.fromIter lo xs = DQ.fromIter lo' xs) := by
  refine ⟨?_, ?_, ?_⟩
  · intro s h
    obtain ⟨s1, hr1, hi1, ha1⟩ := MaxQ.extend_spec h lo xs hlo
    obtain ⟨s2, hr2, hi2, ha2⟩ := MaxQ.extend_spec h lo' xs hlo'
    exact ⟨s1, s2, hr1, hr2, hi1, hi2, by rw [ha1, ha2],
      bp_size_eq_of_abs_eq hi1.1 hi2.1 (fun k => by rw [ha1, ha2])⟩
  · intro s h
    obtain ⟨s1, hr1, hi1, ha1⟩ := DQ.extend_spec h lo xs hlo
    obtain ⟨s2, hr2, hi2, ha2⟩ := DQ.extend_spec h lo' xs hlo'
    exact ⟨s1, s2, hr1, hr2, hi1, hi2, by rw [ha1, ha2],
      bp_size_eq_of_abs_eq hi1.1 hi2.1 (fun k => by rw [ha1, ha2])⟩
  · exact ⟨by rw [MaxQ.fromIter_of_lt xs hlo, MaxQ.fromIter_of_lt xs hlo'],
      by rw [DQ.fromIter_of_lt xs hlo, DQ.fromIter_of_lt xs hlo']⟩

/-- … in the form "for any two LEGAL hints" -/
theorem C07_hint_irrelevant_legal (xs : Array (Item × P)) (lo lo' : Nat) (hl : LegalLo lo xs) (hl' : LegalLo lo' xs) :
    (∀ {s : Store P}, MaxQ.Inv s → ∃ s1 s2, MaxQ.extend s lo xs = .ok s1 ∧ MaxQ.extend s lo' xs = .ok s2 ∧
      MaxQ.Inv s1 ∧ MaxQ.Inv s2 ∧ s1.abs = s2.abs ∧ s1.size = s2.size) ∧
    (∀ {s : Store P}, DQ.Inv s → ∃ s1 s2, DQ.extend s lo xs = .ok s1 ∧ DQ.extend s lo' xs = .ok s2 ∧
      DQ.Inv s1 ∧ DQ.Inv s2 ∧ s1.abs = s2.abs ∧ s1.size = s2.size) ∧
    (MaxQ.fromIter lo xs = MaxQ.fromIter lo' xs ∧ DQ.fromIter lo xs = DQ.fromIter lo' xs) :=
  C07_hint_irrelevant xs lo lo' hl.lt hl'.lt

/-- the two LEGAL hints below (an iterator yielding seventeen pairs, announcing none / all of them) select different
strategies on an eight-element queue; the results agree -/
private def ex17 : Array (Item × Nat) := Array.ofFn (n := 17) fun i => (⟨2 + 7 * (i.val % 3), i.val⟩, i.val)

example : LegalLo 0 ex17 ∧ LegalLo 17 ex17 ∧ DQ.exQ.size = 8 ∧
    (if (0 : Nat) ≠ 0 then betterToRebuild 8 0 else false) = false ∧
    (if (17 : Nat) ≠ 0 then betterToRebuild 8 17 else false) = true ∧
    bp_okR (DQ.extend DQ.exQ 0 ex17) (fun s1 =>
      bp_okR (DQ.extend DQ.exQ 17 ex17) (fun s2 =>
        s1.size = s2.size ∧ s1.size = 10 ∧ ∀ k, k < 20 → s1.abs k = s2.abs k)) := by
  decide +kernel

/-- **no LEGAL `size_hint` makes `extend` or `FromIterator` panic**: from a well-formed queue (order is not even needed)
`extend` and `fromIter` succeed for EVERY lower bound `lo < capLimit` — in particular every legal one, `LegalLo.lt` — and
EVERY pair sequence, on both kinds; at the level of the public operations: `step` succeeds on every `.extend lo xs` /
`.fromIter lo xs` that is `Op.Legal` -/
theorem C07_hint_nofault (xs : Array (Item × P)) :
    (∀ {s : Store P}, s.WF → ∀ lo, lo < capLimit →
      (∃ s', MaxQ.extend s lo xs = .ok s') ∧ (∃ s', DQ.extend s lo xs = .ok s')) ∧
    (∀ lo, lo < capLimit → (∃ s', MaxQ.fromIter lo xs = .ok s') ∧ (∃ s', DQ.fromIter lo xs = .ok s')) ∧
    (∀ (q : Q P), q.s.WF → ∀ lo, (Op.extend lo xs : Op P).Legal → (∃ q', step q (.extend lo xs) = .ok (q', .unit)) ∧
      (∃ q', step q (.fromIter lo xs) = .ok (q', .unit))) := by
  have hfi : ∀ lo, lo < capLimit → (∃ s', MaxQ.fromIter lo xs = .ok s') ∧ (∃ s', DQ.fromIter lo xs = .ok s') := by
    intro lo hlo
    obtain ⟨⟨s1, h1, _⟩, ⟨s2, h2, _⟩⟩ := C07_fromIter lo xs hlo
    exact ⟨⟨s1, h1⟩, ⟨s2, h2⟩⟩
  have hext : ∀ {s : Store P}, s.WF → ∀ lo, lo < capLimit →
      (∃ s', MaxQ.extend s lo xs = .ok s') ∧ (∃ s', DQ.extend s lo xs = .ok s') := by
    intro s h lo hlo
    obtain ⟨s1, h1, _⟩ := MaxQ.extend_safe h lo xs hlo
    obtain ⟨s2, h2, _⟩ := DQ.extend_safe h lo xs hlo
    exact ⟨⟨s1, h1⟩, ⟨s2, h2⟩⟩
  refine ⟨hext, hfi, fun q hq lo hl => ?_⟩
  have hlo : lo < capLimit := LegalLo.lt hl
  obtain ⟨⟨s1, h1⟩, ⟨s2, h2⟩⟩ := hext hq lo hlo
  obtain ⟨⟨t1, g1⟩, ⟨t2, g2⟩⟩ := hfi lo hlo
  obtain ⟨kind, s⟩ := q
  cases kind
  · exact ⟨⟨{ kind := .pq, s := s1 }, by simp only [step, h1, bind, Except.bind, pure, Except.pure]⟩,
      ⟨{ kind := .pq, s := t1 }, by simp only [step, g1, bind, Except.bind, pure, Except.pure]⟩⟩
  · exact ⟨⟨{ kind := .dpq, s := s2 }, by simp only [step, h2, bind, Except.bind, pure, Except.pure]⟩,
      ⟨{ kind := .dpq, s := t2 }, by simp only [step, g2, bind, Except.bind, pure, Except.pure]⟩⟩

-- a well-formed but disordered queue; a legal hint (2 of 2 announced), and a hint that over-announces (1000000 > 2: NOT
-- legal, but below the capacity limit): neither panics
example : bp_exW.WF ∧ ¬ MaxQ.Inv bp_exW ∧ LegalLo 2 #[((⟨4, 0⟩ : Item), 9), (⟨7, 0⟩, 2)] ∧
    bp_okR (MaxQ.extend bp_exW 2 #[(⟨4, 0⟩, 9), (⟨7, 0⟩, 2)]) (fun _ => True) ∧
    bp_okR (MaxQ.extend bp_exW 1000000 #[(⟨4, 0⟩, 9), (⟨7, 0⟩, 2)]) (fun _ => True) ∧
    bp_okR (DQ.extend bp_exW 1 #[(⟨4, 0⟩, 9), (⟨7, 0⟩, 2)]) (fun _ => True) := by decide +kernel

omit [LE P] [Std.IsLinearPreorder P] [Std.LawfulOrderLT P] in
/-- **an (illegal) lower bound `≥ capLimit` is the documented capacity-overflow panic, and nothing else**: `extend` and
`FromIterator` of both kinds answer `Fault.capacity` — the panic of `reserve(lo)` / `with_capacity(lo)`, raised before the
iterator is asked for a single element and before anything is written — for EVERY store (well-formed or not) and every
pair sequence; likewise the public operations.  The state is untouched: the operation returns no new queue (`run` stops
with the fault), the queue the caller holds is the one it had.  Such a bound is never legal (`LegalLo lo xs → lo <
capLimit`). -/
theorem C07_illegal_lower_bound_is_capacity_panic (xs : Array (Item × P)) (lo : Nat) (hlo : lo ≥ capLimit) :
    (∀ s : Store P, MaxQ.extend s lo xs = .error .capacity ∧ DQ.extend s lo xs = .error .capacity) ∧
    ((MaxQ.fromIter lo xs : R (Store P)) = .error .capacity ∧ (DQ.fromIter lo xs : R (Store P)) = .error .capacity) ∧
    (∀ q : Q P, step q (.extend lo xs) = .error .capacity ∧ step q (.fromIter lo xs) = .error .capacity) ∧
    ¬ LegalLo lo xs := by
  refine ⟨fun s => ⟨MaxQ.extend_of_ge xs hlo, DQ.extend_of_ge xs hlo⟩,
    ⟨MaxQ.fromIter_of_ge xs hlo, DQ.fromIter_of_ge xs hlo⟩, fun q => ?_, fun hl => ?_⟩
  · obtain ⟨kind, s⟩ := q
    cases kind <;>
      simp only [step, MaxQ.extend_of_ge xs hlo, DQ.extend_of_ge xs hlo, MaxQ.fromIter_of_ge xs hlo,
        DQ.fromIter_of_ge xs hlo, bind, Except.bind] <;> first | exact ⟨rfl, rfl⟩ | exact ⟨trivial, trivial⟩ | trivial
  · have := hl.lt; omega

/-- the capacity fault, for the example below -/
private def isCapacity {α : Type} (r : R α) : Bool := match r with | .error .capacity => true | _ => false

example : isCapacity (MaxQ.extend bp_exW (2 ^ 61) #[(⟨4, 0⟩, 9)]) = true ∧
    isCapacity (DQ.fromIter (P := Nat) (2 ^ 64 - 1) #[(⟨4, 0⟩, 9)]) = true ∧
    isCapacity (step ⟨.dpq, bp_exW⟩ (.extend (2 ^ 61) #[(⟨4, 0⟩, 9)])) = true ∧
    isCapacity (MaxQ.extend bp_exW (2 ^ 61 - 1) #[(⟨4, 0⟩, 9)]) = false := by decide +kernel

/-- **the outcome of `extend` does not depend on the internal strategy**: pushing the pairs one by one (`pushAll`) and
extending the store followed by a rebuild (`heapBuild (Store.extend …)`) both succeed, both give a correctly ordered
queue, with the same contents (payloads included) and length; and for every `lo < capLimit`, `extend` is one of the two -/
theorem C07_strategy_irrelevant (xs : Array (Item × P)) :
    (∀ {s : Store P}, MaxQ.Inv s → ∃ s1 s2, MaxQ.pushAll xs.toList s = .ok s1 ∧
      MaxQ.heapBuild (Store.extend s xs) = .ok s2 ∧ MaxQ.Inv s1 ∧ MaxQ.Inv s2 ∧ s1.abs = s2.abs ∧ s1.size = s2.size ∧
      ∀ lo, lo < capLimit → MaxQ.extend s lo xs = .ok s1 ∨ MaxQ.extend s lo xs = .ok s2) ∧
    (∀ {s : Store P}, DQ.Inv s → ∃ s1 s2, DQ.pushAll xs.toList s = .ok s1 ∧
      DQ.heapBuild (Store.extend s xs) = .ok s2 ∧ DQ.Inv s1 ∧ DQ.Inv s2 ∧ s1.abs = s2.abs ∧ s1.size = s2.size ∧
      ∀ lo, lo < capLimit → DQ.extend s lo xs = .ok s1 ∨ DQ.extend s lo xs = .ok s2) := by
  constructor
  · intro s h
    obtain ⟨s1, hr1, hi1, ha1⟩ := MaxQ.pushAll_spec xs.toList h
    obtain ⟨s2, hr2, hwf2, hmap2, hsz2, hm2⟩ := MaxQ.heapBuild_spec (wf_extend h.1 xs)
    have ha2 : s2.abs = xs.foldl Store.absStep s.abs := by
      show IMap.lookup s2.map = _
      rw [hmap2]; exact lookup_extend s xs
    rw [Array.foldl_toList] at ha1
    refine ⟨s1, s2, hr1, hr2, hi1, ⟨hwf2, hm2⟩, by rw [ha1, ha2],
      bp_size_eq_of_abs_eq hi1.1 hwf2 (fun k => by rw [ha1, ha2]), fun lo hlo => ?_⟩
    cases hr : (if lo ≠ 0 then betterToRebuild s.size lo else false) with
    | true => exact .inr (by rw [MaxQ.extend_eval_rebuild xs hlo hr]; exact hr2)
    | false => exact .inl (by rw [MaxQ.extend_eval_pushAll xs hlo hr]; exact hr1)
  · intro s h
    obtain ⟨s1, hr1, hi1, ha1⟩ := DQ.pushAll_spec h xs.toList
    obtain ⟨s2, hr2, hwf2, hmap2, hsz2, hm2⟩ := DQ.heapBuild_spec (wf_extend h.1 xs)
    have ha2 : s2.abs = xs.foldl Store.absStep s.abs := by
      show IMap.lookup s2.map = _
      rw [hmap2]; exact lookup_extend s xs
    rw [Array.foldl_toList] at ha1
    refine ⟨s1, s2, hr1, hr2, hi1, ⟨hwf2, hm2⟩, by rw [ha1, ha2],
      bp_size_eq_of_abs_eq hi1.1 hwf2 (fun k => by rw [ha1, ha2]), fun lo hlo => ?_⟩
    have hcases : DQ.extend s lo xs = DQ.heapBuild (s.extend xs) ∨ DQ.extend s lo xs = DQ.pushAll xs.toList s := by
      rw [DQ.extend_of_lt xs hlo]
      cases (if lo ≠ 0 then betterToRebuild s.size lo else false) <;> simp
    rcases hcases with hc | hc
    · exact .inr (by rw [hc]; exact hr2)
    · exact .inl (by rw [hc]; exact hr1)

example : bp_okR (MaxQ.pushAll [(⟨4, 0⟩, 9), (⟨7, 0⟩, 2), (⟨7, 1⟩, 6)] bp_exP) (fun s1 =>
    bp_okR (MaxQ.heapBuild (Store.extend bp_exP #[(⟨4, 0⟩, 9), (⟨7, 0⟩, 2), (⟨7, 1⟩, 6)])) (fun s2 =>
      MaxQ.Inv s1 ∧ MaxQ.Inv s2 ∧ s1.size = s2.size ∧ ∀ k, k < 9 → s1.abs k = s2.abs k)) := by decide +kernel

/-- **`append`** of two well-formed queues (order not needed): it succeeds; the receiver is correctly ordered and holds
the union — on a clash the receiver's entry stays, unless the other queue was strictly longer, in which case (the two
are swapped first) the other queue's entry stays; the other queue is left empty: all four of its tables -/
theorem C07_append {s o : Store P} (hs : s.WF) (ho : o.WF) :
    (∃ s' o', MaxQ.append s o = .ok (s', o') ∧ MaxQ.Inv s' ∧ MaxQ.Inv o' ∧
      o'.map = #[] ∧ o'.heap = #[] ∧ o'.qp = #[] ∧ o'.size = 0 ∧
      (∀ k, s'.abs k = if o.size > s.size then (o.abs k).or (s.abs k) else (s.abs k).or (o.abs k))) ∧
    (∃ s' o', DQ.append s o = .ok (s', o') ∧ DQ.Inv s' ∧ DQ.Inv o' ∧
      o'.map = #[] ∧ o'.heap = #[] ∧ o'.qp = #[] ∧ o'.size = 0 ∧
      (∀ k, s'.abs k = if o.size > s.size then (o.abs k).or (s.abs k) else (s.abs k).or (o.abs k))) := by
  constructor
  · obtain ⟨s', o', hrun, hi, hio, t1, t2, t3, t4, habs⟩ := MaxQ.append_spec hs ho
    exact ⟨s', o', hrun, hi, hio, t1, t3, t4, t2, habs⟩
  · obtain ⟨s', o', hrun, hi, hio, hsz, _, habs⟩ := DQ.append_spec hs ho
    obtain ⟨t1, t2, t3⟩ := hio.1.tables_empty_of_size_zero hsz
    exact ⟨s', o', hrun, hi, hio, t1, t2, t3, hsz, habs⟩

example : bp_exW.WF ∧ bp_exO.WF ∧
    bp_okR (MaxQ.append bp_exW bp_exO) (fun r => MaxQ.Inv r.1 ∧ r.1.size = 6 ∧ r.2.size = 0 ∧ r.2.map = #[] ∧
      r.1.abs 1 = some (⟨1, 10⟩, 5) ∧ r.1.abs 9 = some (⟨9, 90⟩, 2)) ∧
    bp_okR (DQ.append bp_exO bp_exW) (fun r => r.1.size = 6 ∧ r.2.size = 0 ∧ r.2.map = #[] ∧
      r.1.abs 1 = some (⟨1, 10⟩, 5) ∧ r.1.abs 9 = some (⟨9, 90⟩, 2)) := by decide +kernel

/-- **`append` as an operation of the alphabet**: `Op.append o` takes ANY other queue `o` of the same kind, given by its
store; it is legal exactly when `o` is well-formed (it need not be ordered, and its index tables need not be the identity:
e.g. a queue built by pushes, or one left disordered by a leaked guard).  From any well-formed receiver `step` succeeds,
reports the other queue as empty (`Out.other 0 0 0 0`: its length and the lengths of its map and of both index tables),
and leaves a correctly ordered queue of the same kind holding the union (clash rule as in `C07_append`). -/
theorem C07_append_step {q : Q P} {o : Store P} (hq : q.s.WF) (hl : (Op.append o).Legal) :
    ∃ s', step q (.append o) = .ok (⟨q.kind, s'⟩, .other 0 0 0 0) ∧
      (match q.kind with | .pq => MaxQ.Inv s' | .dpq => DQ.Inv s') ∧
      (∀ k, s'.abs k = if o.size > q.s.size then (o.abs k).or (q.s.abs k) else (q.s.abs k).or (o.abs k)) := by
  have ho : o.WF := hl
  obtain ⟨kind, s⟩ := q
  obtain ⟨⟨s1, o1, h1, hi1, _, a1, a2, a3, a4, hu1⟩, ⟨s2, o2, h2, hi2, _, b1, b2, b3, b4, hu2⟩⟩ := C07_append hq ho
  cases kind
  · exact ⟨s1, by simp [step, h1, a1, a2, a3, a4, bind, Except.bind, pure, Except.pure], hi1, hu1⟩
  · exact ⟨s2, by simp [step, h2, b1, b2, b3, b4, bind, Except.bind, pure, Except.pure], hi2, hu2⟩

/-- an other queue that is a real heap built by seven pushes (index tables NOT the identity), LONGER than `bp_exW` -/
private def exOth7 : Store Nat :=
  match MaxQ.pushAll [(⟨1, 11⟩, 8), (⟨9, 90⟩, 2), (⟨10, 0⟩, 30), (⟨11, 0⟩, 4), (⟨12, 0⟩, 50), (⟨13, 0⟩, 6), (⟨14, 0⟩, 70)]
      Store.empty with
  | .ok s => s
  | .error _ => Store.empty

-- hypotheses: legal (well-formed), not an identity-table store, longer than the receiver
example : (Op.append exOth7).Legal ∧ exOth7.heap ≠ Array.range 7 ∧ exOth7.size = 7 ∧ bp_exW.size = 5 ∧
    ¬ MaxQ.Inv bp_exW := by
  refine ⟨?_, ?_⟩
  · show Store.WF _; decide +kernel
  · decide +kernel
-- the stores are swapped: on the clash (key 1) the entry of the LONGER other queue stays; the result is ordered; the other
-- queue is reported empty — on both kinds
example : bp_okR (step ⟨.pq, bp_exW⟩ (.append exOth7)) (fun r => MaxQ.Inv r.1.s ∧ r.1.s.size = 11 ∧
      r.1.s.abs 1 = some (⟨1, 11⟩, 8) ∧ r.1.s.abs 2 = some (⟨2, 20⟩, 0) ∧ r.1.s.abs 14 = some (⟨14, 0⟩, 70) ∧
      r.1.s.map.extract 0 7 = exOth7.map ∧ r.2 matches .other 0 0 0 0) ∧
    bp_okR (step ⟨.dpq, bp_exW⟩ (.append exOth7)) (fun r => r.1.s.WF ∧ r.1.s.size = 11 ∧
      r.1.s.abs 1 = some (⟨1, 11⟩, 8) ∧ r.2 matches .other 0 0 0 0) := by decide +kernel

/-- **conversion between the two kinds** (`From<DoublePriorityQueue> for PriorityQueue` and back): every well-formed
store — in particular a correctly ordered queue of the OTHER kind (`MaxQ.Inv s` and `DQ.Inv s` both contain `s.WF` as
their first component) — is turned into a correctly ordered queue of the
target kind with exactly the same map (same entries in the same slots) and length -/
theorem C07_convert {s : Store P} (h : s.WF) :
    (∃ s', MaxQ.ofStore s = .ok s' ∧ MaxQ.Inv s' ∧ s'.map = s.map ∧ s'.abs = s.abs ∧ s'.size = s.size) ∧
    (∃ s', DQ.ofStore s = .ok s' ∧ DQ.Inv s' ∧ s'.map = s.map ∧ s'.abs = s.abs ∧ s'.size = s.size) := by
  constructor
  · obtain ⟨s', hrun, hwf, hmap, hsz, hm⟩ := MaxQ.heapBuild_spec h
    exact ⟨s', hrun, ⟨hwf, hm⟩, hmap, by funext k; show IMap.lookup s'.map k = _; rw [hmap], hsz⟩
  · obtain ⟨s', hrun, hwf, hmap, hsz, hm⟩ := DQ.heapBuild_spec h
    exact ⟨s', hrun, ⟨hwf, hm⟩, hmap, by funext k; show IMap.lookup s'.map k = _; rw [hmap], hsz⟩

example : MaxQ.Inv bp_exP ∧ bp_okR (DQ.ofStore bp_exP) (fun s' => s'.map = bp_exP.map ∧ s'.size = 5 ∧
      bp_okR (MaxQ.ofStore s') (fun s'' => MaxQ.Inv s'' ∧ s''.map = bp_exP.map)) := by decide +kernel

end PQ

#print axioms PQ.C07_fromVec
#print axioms PQ.C07_fromIter
#print axioms PQ.C07_extend
#print axioms PQ.C07_hint_irrelevant
#print axioms PQ.C07_hint_irrelevant_legal
#print axioms PQ.C07_hint_nofault
#print axioms PQ.C07_illegal_lower_bound_is_capacity_panic
#print axioms PQ.C07_strategy_irrelevant
#print axioms PQ.C07_append
#print axioms PQ.C07_append_step
#print axioms PQ.C07_convert
