import PQ.Lemmas.BulkProps
/-!
# C07 — Bulk construction, extend and append give the specified contents

> `From<Vec>` keeps the first priority given for each distinct item, `FromIterator` and `extend` keep the last,
> `append` moves every element of the other queue whose item is not already present (on a clash the receiver's
> priority stays unless the other queue was longer, when either may stay) and leaves the other queue empty, and
> conversion between the two queue kinds preserves the contents; the result is always a correctly ordered queue.
> For `FromIterator` and `extend` the outcome depends only on the sequence of pairs the iterator yields, never on its
> `size_hint` or on which internal strategy is chosen, and no legal `size_hint` makes them panic.

Every theorem is stated for BOTH queue kinds (first conjunct `PriorityQueue` = `MaxQ`, second `DoublePriorityQueue` =
`DQ`).  Contents are `Store.abs s k` (the stored `(item, priority)` of key `k`, payload of the item included).
In the model `extend s lo xs` receives the pairs `xs` the iterator yields and the lower bound `lo` of its `size_hint`
(the only part the code reads); `fromIter xs` reads no hint at all.  `lo` is universally quantified: "legal" or not.
-/
namespace PQ
open Store Arith
variable {P : Type} [LT P] [DecidableLT P] [LE P] [Std.IsLinearPreorder P] [Std.LawfulOrderLT P]

/-- **`From<Vec>`**, for EVERY vector: a correctly ordered queue holding, for each key, the FIRST pair given for it;
its length is the number of distinct keys -/
theorem C07_fromVec (v : Array (Item × P)) :
    (∃ s', MaxQ.fromVec v = .ok s' ∧ MaxQ.Inv s' ∧ (∀ k, s'.abs k = v.toList.find? (fun e => e.1.key == k)) ∧
      s'.size = (v.toList.map (·.1.key)).eraseDups.length) ∧
    (∃ s', DQ.fromVec v = .ok s' ∧ DQ.Inv s' ∧ (∀ k, s'.abs k = v.toList.find? (fun e => e.1.key == k)) ∧
      s'.size = (v.toList.map (·.1.key)).eraseDups.length) := by
  constructor
  · obtain ⟨s', hrun, hwf, hmap, hsz, hm⟩ := MaxQ.heapBuild_spec (wf_fromVec v)
    refine ⟨s', hrun, ⟨hwf, hm⟩, fun k => ?_, by rw [hsz, size_fromVec]⟩
    show IMap.lookup s'.map k = _
    rw [hmap]; exact lookup_fromVec v k
  · obtain ⟨s', hrun, hinv, habs, hsz⟩ := DQ.fromVec_spec v
    exact ⟨s', hrun, hinv, habs, hsz⟩

example : bp_okR (MaxQ.fromVec #[(⟨1, 0⟩, 5), (⟨1, 9⟩, 7), (⟨2, 0⟩, 8)]) (fun s' => MaxQ.Inv s' ∧ s'.size = 2 ∧
      s'.abs 1 = some (⟨1, 0⟩, 5)) ∧
    bp_okR (DQ.fromVec #[(⟨1, 0⟩, 5), (⟨1, 9⟩, 7), (⟨2, 0⟩, 8)]) (fun s' => s'.size = 2 ∧
      s'.abs 1 = some (⟨1, 0⟩, 5)) := by decide +kernel

/-- **`FromIterator`**, for EVERY sequence: a correctly ordered queue holding, for each key, the LAST pair given for it
(with that pair's item) -/
theorem C07_fromIter (xs : Array (Item × P)) :
    (∃ s', MaxQ.fromIter xs = .ok s' ∧ MaxQ.Inv s' ∧
      (∀ k, s'.abs k = xs.toList.reverse.find? (fun e => e.1.key == k)) ∧
      s'.size = (xs.toList.map (·.1.key)).eraseDups.length) ∧
    (∃ s', DQ.fromIter xs = .ok s' ∧ DQ.Inv s' ∧
      (∀ k, s'.abs k = xs.toList.reverse.find? (fun e => e.1.key == k)) ∧
      s'.size = (xs.toList.map (·.1.key)).eraseDups.length) := by
  constructor
  · obtain ⟨s', hrun, hwf, hmap, hsz, hm⟩ := MaxQ.heapBuild_spec (wf_fromIter xs)
    refine ⟨s', hrun, ⟨hwf, hm⟩, fun k => ?_, by rw [hsz, size_fromIter]⟩
    show IMap.lookup s'.map k = _
    rw [hmap]; exact lookup_fromIter xs k
  · obtain ⟨s', hrun, hinv, habs, hsz⟩ := DQ.fromIter_spec xs
    exact ⟨s', hrun, hinv, habs, hsz⟩

example : bp_okR (MaxQ.fromIter #[(⟨1, 0⟩, 5), (⟨1, 9⟩, 7), (⟨2, 0⟩, 8)]) (fun s' => MaxQ.Inv s' ∧ s'.size = 2 ∧
      s'.abs 1 = some (⟨1, 9⟩, 7)) ∧
    bp_okR (DQ.fromIter #[(⟨1, 0⟩, 5), (⟨1, 9⟩, 7), (⟨2, 0⟩, 8)]) (fun s' => s'.size = 2 ∧
      s'.abs 1 = some (⟨1, 9⟩, 7)) := by decide +kernel

/-- **`extend`**, for EVERY hint `lo`: it succeeds, the result is correctly ordered, its contents are the fold of the
abstract step `Store.absStep` over the pairs; closed form: a key that occurs among the pairs gets the priority of
the LAST pair given for it and keeps the item that was stored (else: the item of the FIRST pair given), every other
key is untouched; the length grows by the number of distinct new keys -/
theorem C07_extend (xs : Array (Item × P)) :
    (∀ {s : Store P}, MaxQ.Inv s → ∀ lo, ∃ s', MaxQ.extend s lo xs = .ok s' ∧ MaxQ.Inv s' ∧
      s'.abs = xs.foldl Store.absStep s.abs ∧
      (∀ k, s'.abs k =
        match xs.toList.reverse.find? (fun e => e.1.key == k) with
        | none => s.abs k
        | some b => some ((((s.abs k).or (xs.toList.find? (fun e => e.1.key == k))).map (·.1)).getD b.1, b.2)) ∧
      s'.size = s.size + ((xs.toList.map (·.1.key)).filter (fun k => !IMap.contains s.map k)).eraseDups.length) ∧
    (∀ {s : Store P}, DQ.Inv s → ∀ lo, ∃ s', DQ.extend s lo xs = .ok s' ∧ DQ.Inv s' ∧
      s'.abs = xs.foldl Store.absStep s.abs ∧
      (∀ k, s'.abs k =
        match xs.toList.reverse.find? (fun e => e.1.key == k) with
        | none => s.abs k
        | some b => some ((((s.abs k).or (xs.toList.find? (fun e => e.1.key == k))).map (·.1)).getD b.1, b.2)) ∧
      s'.size = s.size + ((xs.toList.map (·.1.key)).filter (fun k => !IMap.contains s.map k)).eraseDups.length) := by
  constructor
  · intro s h lo
    obtain ⟨s', hrun, hinv, habs⟩ := MaxQ.extend_spec h lo xs
    obtain ⟨h1, h2⟩ := bp_extend_common h.1 hinv.1 xs habs
    exact ⟨s', hrun, hinv, habs, h1, h2⟩
  · intro s h lo
    obtain ⟨s', hrun, hinv, habs⟩ := DQ.extend_spec h lo xs
    obtain ⟨h1, h2⟩ := bp_extend_common h.1 hinv.1 xs habs
    exact ⟨s', hrun, hinv, habs, h1, h2⟩

example : MaxQ.Inv bp_exP ∧ bp_okR (MaxQ.extend bp_exP 0 #[(⟨4, 0⟩, 9), (⟨7, 0⟩, 2), (⟨7, 1⟩, 6)]) (fun s' =>
      MaxQ.Inv s' ∧ s'.size = 6 ∧ s'.abs 4 = some (⟨4, 40⟩, 9) ∧ s'.abs 7 = some (⟨7, 0⟩, 6)) := by decide +kernel
example : DQ.Inv DQ.exQ ∧ bp_okR (DQ.extend DQ.exQ 0 #[(⟨2, 7⟩, 1), (⟨9, 1⟩, 2), (⟨9, 2⟩, 3)]) (fun s' =>
      s'.size = 9 ∧ s'.abs 2 = some (⟨2, 0⟩, 1) ∧ s'.abs 9 = some (⟨9, 1⟩, 3)) := ⟨DQ.exQ_inv, by decide +kernel⟩

/-- **the outcome of `extend` does not depend on the `size_hint`**: for any two lower bounds `lo`, `lo'` (the upper
bound is never read; `FromIterator` reads no hint at all: `fromIter` has no such argument) both calls succeed, both
results are correctly ordered and they have the same contents — item payloads included — and the same length -/
theorem C07_hint_irrelevant (xs : Array (Item × P)) (lo lo' : Nat) :
    (∀ {s : Store P}, MaxQ.Inv s → ∃ s1 s2, MaxQ.extend s lo xs = .ok s1 ∧ MaxQ.extend s lo' xs = .ok s2 ∧
      MaxQ.Inv s1 ∧ MaxQ.Inv s2 ∧ s1.abs = s2.abs ∧ s1.size = s2.size) ∧
    (∀ {s : Store P}, DQ.Inv s → ∃ s1 s2, DQ.extend s lo xs = .ok s1 ∧ DQ.extend s lo' xs = .ok s2 ∧
      DQ.Inv s1 ∧ DQ.Inv s2 ∧ s1.abs = s2.abs ∧ s1.size = s2.size) := by
  constructor
  · intro s h
    obtain ⟨s1, hr1, hi1, ha1⟩ := MaxQ.extend_spec h lo xs
    obtain ⟨s2, hr2, hi2, ha2⟩ := MaxQ.extend_spec h lo' xs
    exact ⟨s1, s2, hr1, hr2, hi1, hi2, by rw [ha1, ha2],
      bp_size_eq_of_abs_eq hi1.1 hi2.1 (fun k => by rw [ha1, ha2])⟩
  · intro s h
    obtain ⟨s1, hr1, hi1, ha1⟩ := DQ.extend_spec h lo xs
    obtain ⟨s2, hr2, hi2, ha2⟩ := DQ.extend_spec h lo' xs
    exact ⟨s1, s2, hr1, hr2, hi1, hi2, by rw [ha1, ha2],
      bp_size_eq_of_abs_eq hi1.1 hi2.1 (fun k => by rw [ha1, ha2])⟩

/-- the two hints below select different strategies on an eight-element queue; the results agree -/
example : (if (0 : Nat) ≠ 0 then betterToRebuild 8 0 else false) = false ∧
    (if (17 : Nat) ≠ 0 then betterToRebuild 8 17 else false) = true ∧
    bp_okR (DQ.extend DQ.exQ 0 #[(⟨2, 7⟩, 1), (⟨9, 1⟩, 2), (⟨9, 2⟩, 3)]) (fun s1 =>
      bp_okR (DQ.extend DQ.exQ 17 #[(⟨2, 7⟩, 1), (⟨9, 1⟩, 2), (⟨9, 2⟩, 3)]) (fun s2 =>
        s1.size = s2.size ∧ ∀ k, k < 12 → s1.abs k = s2.abs k)) := by decide +kernel

/-- **no `size_hint` makes `extend` or `FromIterator` panic**: from a well-formed queue (order is not even needed)
`extend` succeeds for EVERY `lo` and EVERY pair sequence; `fromIter` succeeds for every pair sequence; the same at the
level of the public operations `step` -/
theorem C07_hint_nofault (xs : Array (Item × P)) :
    (∀ {s : Store P}, s.WF → ∀ lo, (∃ s', MaxQ.extend s lo xs = .ok s') ∧ (∃ s', DQ.extend s lo xs = .ok s')) ∧
    ((∃ s', MaxQ.fromIter xs = .ok s') ∧ (∃ s', DQ.fromIter xs = .ok s')) ∧
    (∀ (q : Q P), q.s.WF → ∀ lo, (∃ q', step q (.extend lo xs) = .ok (q', .unit)) ∧
      (∃ q', step q (.fromIter xs) = .ok (q', .unit))) := by
  have hfi : (∃ s', MaxQ.fromIter xs = .ok s') ∧ (∃ s', DQ.fromIter xs = .ok s') := by
    obtain ⟨⟨s1, h1, _⟩, ⟨s2, h2, _⟩⟩ := C07_fromIter xs
    exact ⟨⟨s1, h1⟩, ⟨s2, h2⟩⟩
  have hext : ∀ {s : Store P}, s.WF → ∀ lo,
      (∃ s', MaxQ.extend s lo xs = .ok s') ∧ (∃ s', DQ.extend s lo xs = .ok s') := by
    intro s h lo
    obtain ⟨s1, h1, _⟩ := MaxQ.extend_safe h lo xs
    obtain ⟨s2, h2, _⟩ := DQ.extend_safe h lo xs
    exact ⟨⟨s1, h1⟩, ⟨s2, h2⟩⟩
  refine ⟨hext, hfi, fun q hq lo => ?_⟩
  obtain ⟨⟨s1, h1⟩, ⟨s2, h2⟩⟩ := hext hq lo
  obtain ⟨⟨t1, g1⟩, ⟨t2, g2⟩⟩ := hfi
  obtain ⟨kind, s⟩ := q
  cases kind
  · exact ⟨⟨{ kind := .pq, s := s1 }, by simp only [step, h1, bind, Except.bind, pure, Except.pure]⟩,
      ⟨{ kind := .pq, s := t1 }, by simp only [step, g1, bind, Except.bind, pure, Except.pure]⟩⟩
  · exact ⟨⟨{ kind := .dpq, s := s2 }, by simp only [step, h2, bind, Except.bind, pure, Except.pure]⟩,
      ⟨{ kind := .dpq, s := t2 }, by simp only [step, g2, bind, Except.bind, pure, Except.pure]⟩⟩

example : bp_exW.WF ∧ ¬ MaxQ.Inv bp_exW ∧
    bp_okR (MaxQ.extend bp_exW 1000000 #[(⟨4, 0⟩, 9), (⟨7, 0⟩, 2)]) (fun _ => True) ∧
    bp_okR (DQ.extend bp_exW 1 #[(⟨4, 0⟩, 9), (⟨7, 0⟩, 2)]) (fun _ => True) := by decide +kernel

/-- **the outcome of `extend` does not depend on the internal strategy**: pushing the pairs one by one (`pushAll`) and
extending the store followed by a rebuild (`heapBuild (Store.extend …)`) both succeed, both give a correctly ordered
queue, with the same contents (payloads included) and length; and for every `lo`, `extend` is one of the two -/
theorem C07_strategy_irrelevant (xs : Array (Item × P)) :
    (∀ {s : Store P}, MaxQ.Inv s → ∃ s1 s2, MaxQ.pushAll xs.toList s = .ok s1 ∧
      MaxQ.heapBuild (Store.extend s xs) = .ok s2 ∧ MaxQ.Inv s1 ∧ MaxQ.Inv s2 ∧ s1.abs = s2.abs ∧ s1.size = s2.size ∧
      ∀ lo, MaxQ.extend s lo xs = .ok s1 ∨ MaxQ.extend s lo xs = .ok s2) ∧
    (∀ {s : Store P}, DQ.Inv s → ∃ s1 s2, DQ.pushAll xs.toList s = .ok s1 ∧
      DQ.heapBuild (Store.extend s xs) = .ok s2 ∧ DQ.Inv s1 ∧ DQ.Inv s2 ∧ s1.abs = s2.abs ∧ s1.size = s2.size ∧
      ∀ lo, DQ.extend s lo xs = .ok s1 ∨ DQ.extend s lo xs = .ok s2) := by
  constructor
  · intro s h
    obtain ⟨s1, hr1, hi1, ha1⟩ := MaxQ.pushAll_spec xs.toList h
    obtain ⟨s2, hr2, hwf2, hmap2, hsz2, hm2⟩ := MaxQ.heapBuild_spec (wf_extend h.1 xs)
    have ha2 : s2.abs = xs.foldl Store.absStep s.abs := by
      show IMap.lookup s2.map = _
      rw [hmap2]; exact lookup_extend s xs
    rw [Array.foldl_toList] at ha1
    refine ⟨s1, s2, hr1, hr2, hi1, ⟨hwf2, hm2⟩, by rw [ha1, ha2],
      bp_size_eq_of_abs_eq hi1.1 hwf2 (fun k => by rw [ha1, ha2]), fun lo => ?_⟩
    cases hr : (if lo ≠ 0 then betterToRebuild s.size lo else false) with
    | true => exact .inr (by rw [MaxQ.extend_eval_rebuild xs hr]; exact hr2)
    | false => exact .inl (by rw [MaxQ.extend_eval_pushAll xs hr]; exact hr1)
  · intro s h
    obtain ⟨s1, hr1, hi1, ha1⟩ := DQ.pushAll_spec h xs.toList
    obtain ⟨s2, hr2, hwf2, hmap2, hsz2, hm2⟩ := DQ.heapBuild_spec (wf_extend h.1 xs)
    have ha2 : s2.abs = xs.foldl Store.absStep s.abs := by
      show IMap.lookup s2.map = _
      rw [hmap2]; exact lookup_extend s xs
    rw [Array.foldl_toList] at ha1
    refine ⟨s1, s2, hr1, hr2, hi1, ⟨hwf2, hm2⟩, by rw [ha1, ha2],
      bp_size_eq_of_abs_eq hi1.1 hwf2 (fun k => by rw [ha1, ha2]), fun lo => ?_⟩
    have hcases : DQ.extend s lo xs = DQ.heapBuild (s.extend xs) ∨ DQ.extend s lo xs = DQ.pushAll xs.toList s := by
      unfold DQ.extend
      cases (if lo ≠ 0 then betterToRebuild s.size lo else false) <;> simp
    rcases hcases with hc | hc
    · exact .inr (by rw [hc]; exact hr2)
    · exact .inl (by rw [hc]; exact hr1)

example : bp_okR (MaxQ.pushAll [(⟨4, 0⟩, 9), (⟨7, 0⟩, 2), (⟨7, 1⟩, 6)] bp_exP) (fun s1 =>
    bp_okR (MaxQ.heapBuild (Store.extend bp_exP #[(⟨4, 0⟩, 9), (⟨7, 0⟩, 2), (⟨7, 1⟩, 6)])) (fun s2 =>
      MaxQ.Inv s1 ∧ MaxQ.Inv s2 ∧ s1.size = s2.size ∧ ∀ k, k < 9 → s1.abs k = s2.abs k)) := by decide +kernel

/-- **`append`** of two well-formed queues (order not needed): it succeeds; the receiver is correctly ordered and holds
the union — on a clash the receiver's entry stays, unless the other queue was strictly longer, in which case (the two
are swapped first) the other queue's entry stays; the other queue is left empty: all four of its tables -/
theorem C07_append {s o : Store P} (hs : s.WF) (ho : o.WF) :
    (∃ s' o', MaxQ.append s o = .ok (s', o') ∧ MaxQ.Inv s' ∧ MaxQ.Inv o' ∧
      o'.map = #[] ∧ o'.heap = #[] ∧ o'.qp = #[] ∧ o'.size = 0 ∧
      (∀ k, s'.abs k = if o.size > s.size then (o.abs k).or (s.abs k) else (s.abs k).or (o.abs k))) ∧
    (∃ s' o', DQ.append s o = .ok (s', o') ∧ DQ.Inv s' ∧ DQ.Inv o' ∧
      o'.map = #[] ∧ o'.heap = #[] ∧ o'.qp = #[] ∧ o'.size = 0 ∧
      (∀ k, s'.abs k = if o.size > s.size then (o.abs k).or (s.abs k) else (s.abs k).or (o.abs k))) := by
  constructor
  · obtain ⟨s', o', hrun, hi, hio, t1, t2, t3, t4, habs⟩ := MaxQ.append_spec hs ho
    exact ⟨s', o', hrun, hi, hio, t1, t3, t4, t2, habs⟩
  · obtain ⟨s', o', hrun, hi, hio, hsz, _, habs⟩ := DQ.append_spec hs ho
    obtain ⟨t1, t2, t3⟩ := hio.1.tables_empty_of_size_zero hsz
    exact ⟨s', o', hrun, hi, hio, t1, t2, t3, hsz, habs⟩

example : bp_exW.WF ∧ bp_exO.WF ∧
    bp_okR (MaxQ.append bp_exW bp_exO) (fun r => MaxQ.Inv r.1 ∧ r.1.size = 6 ∧ r.2.size = 0 ∧ r.2.map = #[] ∧
      r.1.abs 1 = some (⟨1, 10⟩, 5) ∧ r.1.abs 9 = some (⟨9, 90⟩, 2)) ∧
    bp_okR (DQ.append bp_exO bp_exW) (fun r => r.1.size = 6 ∧ r.2.size = 0 ∧ r.2.map = #[] ∧
      r.1.abs 1 = some (⟨1, 10⟩, 5) ∧ r.1.abs 9 = some (⟨9, 90⟩, 2)) := by decide +kernel

/-- **conversion between the two kinds** (`From<DoublePriorityQueue> for PriorityQueue` and back): every well-formed
store — in particular a correctly ordered queue of the OTHER kind (`MaxQ.Inv s` and `DQ.Inv s` both contain `s.WF` as
their first component) — is turned into a correctly ordered queue of the
target kind with exactly the same map (same entries in the same slots) and length -/
theorem C07_convert {s : Store P} (h : s.WF) :
    (∃ s', MaxQ.ofStore s = .ok s' ∧ MaxQ.Inv s' ∧ s'.map = s.map ∧ s'.abs = s.abs ∧ s'.size = s.size) ∧
    (∃ s', DQ.ofStore s = .ok s' ∧ DQ.Inv s' ∧ s'.map = s.map ∧ s'.abs = s.abs ∧ s'.size = s.size) := by
  constructor
  · obtain ⟨s', hrun, hwf, hmap, hsz, hm⟩ := MaxQ.heapBuild_spec h
    exact ⟨s', hrun, ⟨hwf, hm⟩, hmap, by funext k; show IMap.lookup s'.map k = _; rw [hmap], hsz⟩
  · obtain ⟨s', hrun, hwf, hmap, hsz, hm⟩ := DQ.heapBuild_spec h
    exact ⟨s', hrun, ⟨hwf, hm⟩, hmap, by funext k; show IMap.lookup s'.map k = _; rw [hmap], hsz⟩

example : MaxQ.Inv bp_exP ∧ bp_okR (DQ.ofStore bp_exP) (fun s' => s'.map = bp_exP.map ∧ s'.size = 5 ∧
      bp_okR (MaxQ.ofStore s') (fun s'' => MaxQ.Inv s'' ∧ s''.map = bp_exP.map)) := by decide +kernel

end PQ

#print axioms PQ.C07_fromVec
#print axioms PQ.C07_fromIter
#print axioms PQ.C07_extend
#print axioms PQ.C07_hint_irrelevant
#print axioms PQ.C07_hint_nofault
#print axioms PQ.C07_strategy_irrelevant
#print axioms PQ.C07_append
#print axioms PQ.C07_convert
