import PQ.Lemmas.Contents
/-!
# C12 — Priority updates never replace or disturb the stored item value

"push on an already present item, push_increase, push_decrease, change_priority and change_priority_by use the given key
only for lookup: the item value stored in the queue (including any part of it that does not take part in Eq/Hash) is the
one first inserted, and changes made to such parts through get_mut, peek_mut, peek_min_mut, peek_max_mut or iter_mut
persist across all later lookups, priority updates, reorderings and removals of other elements; lookups through a
borrowed form of the key address the same element as the owned key."

In the model `Item = {key, payload}`: `key` is what `Eq`/`Hash` look at, `payload` is the part outside `Eq`/`Hash`.
`storedItem q k` is the item value (key AND payload) stored for key `k`.  Both queue kinds, `WF` only (`q.s.WF` is
what `QWF q` of `History.lean` unfolds to).

* `C12_update_keeps_item` — the five priority updates addressed to a present key keep the stored item, whatever
  payload the lookup key carried.
* `C12_payload_persists` — one step: EVERY legal operation `op` with `cont_preservesItem k op` that leaves `k` in
  the queue keeps `storedItem · k`.  `cont_preservesItem k op` (file `Contents.lean`) holds unconditionally for `push`,
  `push_increase`, `push_decrease`, `change_priority`, `change_priority_by`, `remove`, `pop*`, `extend`,
  `From<other kind>`, the capacity operations, `clear`, `drain`; for `get_mut(k', w)` it asks `k' = k → w` is the identity on items with
  key `k`; for `peek_*_mut(w)`, `pop_*_if(f)`, `retain_mut(f)` that the closure returns items with key `k` as they are; for
  `iter_mut` that the program writes no payload; for `append(other)` that `other` (any well-formed queue of the same kind) does not hold `k` (see
  `C12_append_*`: the crate swaps the two queues when `other` is larger, and then `other`'s item value wins); it is
  false for `From<Vec>`, `FromIterator`, `Deserialize`, which replace the whole queue.
* `C12_payload_persists_history` — histories, by induction: as long as `k` stays in the queue, its stored item is the
  one at the start.
* `C12_getMut_read_back`, `C12_peekMut_written`, `C12_iterMut_written` — what was written through `get_mut`,
  `peek_mut`/`peek_min_mut`/`peek_max_mut`, `iter_mut` IS the stored item afterwards, and (with the history theorem) is
  what `get` / `get_mut` read back after any such history.

The borrowed-key clause cannot be expressed in the model (keys are `Nat`; there is no owned/borrowed distinction): it is
carried by the correspondence check, whose items are `String`-named and are looked up through `&str` in `get`,
`get_priority`, `get_mut`, `change_priority`, `change_priority_by`, `remove` and compared with the model's answers.
-/
set_option linter.unusedSectionVars false
set_option linter.unusedVariables false
namespace PQ
open Store
variable {P : Type} [LT P] [DecidableLT P] [LE P] [Std.IsLinearPreorder P] [Std.LawfulOrderLT P]

/-- **Priority updates use the given item only for lookup**: `push` (present item), `push_increase`, `push_decrease`,
`change_priority`, `change_priority_by` addressed to a stored key keep the stored item value — `it0`, payload
included — whatever payload the item passed in carried; only the priority may differ afterwards -/
theorem C12_update_keeps_item {q q' : Q P} {op : Op P} {o : Out P} (hq : q.s.WF) (hs : step q op = .ok (q', o))
    {k : Nat} (hu : cont_isUpdateOf k op) {it0 : Item} {p0 : P} (ha : q.s.abs k = some (it0, p0)) :
    ∃ p', q'.s.abs k = some (it0, p') := by
  have hl : op.Legal := by cases op <;> first | trivial | exact absurd hu id
  have hspec := (cont_step_refines hq hl hs).2.2
  cases op <;> simp only [cont_isUpdateOf] at hu
  case push it p => subst hu; rw [hspec.2]; exact cont_absPush_item ha
  case pushIncrease it p =>
    subst hu
    obtain ⟨_, h1, h2⟩ := hspec
    by_cases hlt : p0 < p
    · rw [(h1 _ ha hlt).2]; exact cont_absPush_item ha
    · rw [(h2 _ ha hlt).2]; exact ⟨p0, ha⟩
  case pushDecrease it p =>
    subst hu
    obtain ⟨_, h1, h2⟩ := hspec
    by_cases hlt : p < p0
    · rw [(h1 _ ha hlt).2]; exact cont_absPush_item ha
    · rw [(h2 _ ha hlt).2]; exact ⟨p0, ha⟩
  case changePriority k' p => subst hu; rw [hspec.2, ha]; exact ⟨p, cont_absSet_self⟩
  case changePriorityBy k' g => subst hu; rw [hspec.2, ha]; exact ⟨g p0, cont_absSet_self⟩

/-- **The stored item survives every operation that neither rewrites it nor removes it** (one step, all 27 operations;
see the header for what `cont_preservesItem k op` asks of each) -/
theorem C12_payload_persists {q q' : Q P} {op : Op P} {o : Out P} {k : Nat} (hq : q.s.WF) (hl : op.Legal)
    (hp : cont_preservesItem k op) (hs : step q op = .ok (q', o)) (hk : (q'.s.abs k).isSome = true) {it0 : Item}
    (h0 : storedItem q k = some it0) : storedItem q' k = some it0 :=
  cont_step_item_persists hq hl hp hs hk h0

/-- **… and every history of such operations**, as long as `k` stays in the queue (`cont_presentThroughout`: `k` is
stored after every prefix of the history): lookups, priority updates, reorderings and removals of other elements, bulk
operations, conversions between the kinds -/
theorem C12_payload_persists_history {q q' : Q P} {ops : List (Op P)} {outs : List (Out P)} {k : Nat} {it0 : Item}
    (hq : q.s.WF) (hl : ∀ op ∈ ops, op.Legal ∧ cont_preservesItem k op) (hpres : cont_presentThroughout k q ops)
    (h0 : storedItem q k = some it0) (hr : run q ops = .ok (q', outs)) : storedItem q' k = some it0 :=
  cont_run_item_persists ops hq hl hpres h0 hr

/-- **What `get_mut` wrote is read back**: `get_mut(k)` hands out the stored pair; after the caller's write `w` the
stored item is `w it0`; after any later history that neither rewrites nor removes `k`, `get`, `get_mut` and
`storedItem` still report `w it0` -/
theorem C12_getMut_read_back {q q1 q2 : Q P} {k : Nat} {w : Item → Item} {it0 : Item} {p0 : P} {o : Out P}
    {ops : List (Op P)} {outs : List (Out P)} (hq : q.s.WF) (hw : ∀ it, (w it).key = it.key)
    (ha : q.s.abs k = some (it0, p0)) (h1 : step q (.getMut k w) = .ok (q1, o))
    (hl : ∀ op ∈ ops, op.Legal ∧ cont_preservesItem k op) (hpres : cont_presentThroughout k q1 ops)
    (h2 : run q1 ops = .ok (q2, outs)) :
    o = .entry (some (it0, p0)) ∧ q1.s.abs k = some (w it0, p0) ∧ storedItem q2 k = some (w it0) ∧
      ∃ p', q2.s.get k = some (w it0, p') ∧ (q2.s.getMutWrite k id).2 = some (w it0, p') := by
  obtain ⟨hq1, _, hspec⟩ := cont_step_refines (op := .getMut k w) hq hw h1
  obtain ⟨ho, ha1⟩ := hspec
  rw [ha] at ho ha1
  have ha1' : q1.s.abs k = some (w it0, p0) := by rw [ha1]; exact cont_absSet_self
  have h3 := C12_payload_persists_history hq1 hl hpres (cont_storedItem_eq_some.2 ⟨p0, ha1'⟩) h2
  obtain ⟨p', hp'⟩ := cont_storedItem_eq_some.1 h3
  refine ⟨ho, ha1', h3, p', by rw [get_eq_lookup]; exact hp', ?_⟩
  have hq2 : q2.s.WF := by
    obtain ⟨q2', outs', e1, e2, _⟩ := cont_run_total ops hq1 (fun op hop => (hl op hop).1)
    rw [e1] at h2; cases h2; exact e2
  obtain ⟨s', pos, e1, _⟩ := getMutWrite_spec_some hq2 hp' id rfl
  rw [e1]

/-- **What `peek_mut` / `peek_min_mut` / `peek_max_mut` wrote is the stored item**: the call reports a stored pair `e`
and afterwards the item stored for `e`'s key is `w e.1` (same priority); `C12_payload_persists_history` then carries it
through any later history -/
theorem C12_peekMut_written {q q1 : Q P} {op : Op P} {w : Item → Item} {e : Item × P} (hq : q.s.WF)
    (hw : ∀ it, (w it).key = it.key) (hop : op = .peekFrontMut w ∨ op = .peekBackMut w)
    (h1 : step q op = .ok (q1, .entry (some e))) :
    q.s.abs e.1.key = some e ∧ q1.s.abs e.1.key = some (w e.1, e.2) ∧ storedItem q1 e.1.key = some (w e.1) ∧
      ∀ k, k ≠ e.1.key → q1.s.abs k = q.s.abs k := by
  have key : specPeekMut w q.s.abs (.entry (some e)) q1.s.abs := by
    rcases hop with rfl | rfl
    · exact (cont_step_refines (op := .peekFrontMut w) hq hw h1).2.2
    · obtain ⟨kind, s⟩ := q
      cases kind with
      | pq => rw [cont_step_peekBackMut_pq] at h1; cases h1
      | dpq => exact (cont_step_refines (op := .peekBackMut w) hq hw h1).2.2
  rcases key with ⟨_, hc, _⟩ | ⟨e', he', hc, ha'⟩
  · cases hc
  · cases hc
    have h2 : q1.s.abs e.1.key = some (w e.1, e.2) := by rw [ha']; exact cont_absSet_self
    exact ⟨he', h2, cont_storedItem_eq_some.2 ⟨e.2, h2⟩, fun k hk => by rw [ha']; exact cont_absSet_ne hk⟩

/-- **What `iter_mut` wrote is the stored entry**: for the key `k` stored in slot `j`, the entry afterwards is the old
one rewritten by exactly the writes made through the references yielded for slot `j`, in order
(`cont_writesAt`); if slot `j` was yielded once, by call `t`, it is the `t`-th write applied to the old entry (a
payload write sets the payload, a priority write the priority) -/
theorem C12_iterMut_written {kind : Kind} {s s' : Store P} {leak : Bool} {prog : List (ICall × IMWrite P)}
    {outs : List IOut} (h : s.WF) (hs : step ⟨kind, s⟩ (.iterMut leak prog) = .ok (⟨kind, s'⟩, .outs outs))
    {k j : Nat} (hj : IMap.find? s.map k = some j) :
    s'.abs k = (s.abs k).map (cont_writesAt j outs prog) ∧
    (∀ (t : Nat) (cw : ICall × IMWrite P), outs[t]? = some (IOut.slot (some j)) → prog[t]? = some cw →
      (∀ t' : Nat, outs[t']? = some (IOut.slot (some j)) → t' = t) → s'.abs k = (s.abs k).map cw.2.cont_apply) := by
  have h1 := cont_step_iterMut_abs h hs hj
  refine ⟨h1, fun t cw ho hp hu => ?_⟩
  rw [h1]
  cases s.abs k with
  | none => rfl
  | some e => simp only [Option.map_some]; rw [cont_writesAt_once j outs prog e t cw ho hp hu]

/-- **`append` and the stored item**, for ANY well-formed other queue `oth` of the same kind (given by its store): when
`oth` does not hold `k`, or is not larger than `self`, the item `self` stores for `k` stays -/
theorem C12_append_keeps {kind : Kind} {s s' oth : Store P} {o : Out P} (h : s.WF) (ho : oth.WF)
    (hs : step ⟨kind, s⟩ (.append oth) = .ok (⟨kind, s'⟩, o)) {k : Nat} {e : Item × P} (ha : s.abs k = some e)
    (hc : oth.abs k = none ∨ oth.size ≤ s.size) :
    s'.abs k = some e := by
  obtain ⟨s1, e1, _, e3⟩ := cont_step_append (kind := kind) h ho
  rw [e1] at hs; cases hs
  rw [e3 k, ha]
  rcases hc with hc | hc
  · rw [hc]
    split <;> simp
  · rw [if_neg (by omega)]; rfl

/-- … but when the appended queue `oth` is strictly larger and holds `k`, ITS item value (and priority) is the one kept:
the crate swaps the two queues first.  (This is the documented behaviour of `append`; it is the one operation besides
the whole-queue constructors through which a stored item value can be replaced without a `*_mut` access.) -/
theorem C12_append_swaps {kind : Kind} {s s' oth : Store P} {o : Out P} (h : s.WF) (ho : oth.WF)
    (hs : step ⟨kind, s⟩ (.append oth) = .ok (⟨kind, s'⟩, o)) {k : Nat} {x : Item × P}
    (hx : oth.abs k = some x) (hc : s.size < oth.size) : s'.abs k = some x := by
  obtain ⟨s1, e1, _, e3⟩ := cont_step_append (kind := kind) h ho
  rw [e1] at hs; cases hs
  rw [e3 k, if_pos hc, hx]; rfl

/-! ## Non-vacuity -/
section Examples

private def wr : Item → Item := fun it => ⟨it.key, 77⟩
/-- a history that updates, reorders and removes around key 4: priority updates of 4 with other payloads, pops and
removals of other elements, a conversion to the other kind, a rebuild -/
private def exOps : List (Op Nat) :=
  [.push ⟨4, 0⟩ 8, .pushIncrease ⟨4, 1⟩ 20, .pushDecrease ⟨4, 2⟩ 6, .changePriority 4 2, .changePriorityBy 4 (· + 1),
   .popFront, .remove 1, .push ⟨6, 60⟩ 30, .convert, .popBack, .extend 0 #[(⟨4, 9⟩, 5), (⟨7, 70⟩, 1)],
   .retainMut (fun it p => (p != 1, it, p))]

-- hypotheses of `C12_update_keeps_item`: a stored key, an update carrying ANOTHER payload
example : cont_ex5.WF ∧ cont_ex5.abs 4 = some (⟨4, 40⟩, 1) ∧ cont_isUpdateOf 4 (Op.push ⟨4, 0⟩ 8 : Op Nat) :=
  ⟨by decide +kernel, by decide +kernel, rfl⟩
example : cont_okR (step ⟨.pq, cont_ex5⟩ (.push ⟨4, 0⟩ 8)) (fun r => r.1.s.abs 4 = some (⟨4, 40⟩, 8)) ∧
    cont_okR (step ⟨.dpq, cont_exD⟩ (.pushIncrease ⟨4, 0⟩ 8)) (fun r => r.1.s.abs 4 = some (⟨4, 40⟩, 8)) ∧
    cont_okR (step ⟨.dpq, cont_exD⟩ (.changePriorityBy 4 (· + 5))) (fun r => r.1.s.abs 4 = some (⟨4, 40⟩, 6)) := by
  decide +kernel
-- hypotheses of `C12_getMut_read_back` / `C12_payload_persists_history`: `get_mut(4)` writes payload 77, then the
-- history `exOps`; every operation is legal and preserves the item of 4, 4 is present after every prefix
example : ∀ it, (wr it).key = it.key := fun _ => rfl
example : ∀ op ∈ exOps, op.Legal ∧ cont_preservesItem 4 op := by
  intro op hop
  simp only [exOps, List.mem_cons, List.not_mem_nil, or_false] at hop
  rcases hop with rfl | rfl | rfl | rfl | rfl | rfl | rfl | rfl | rfl | rfl | rfl | rfl <;>
    first | exact ⟨trivial, trivial⟩ | exact ⟨fun _ _ => rfl, fun _ _ _ => rfl⟩ | exact ⟨(by decide : _ ∧ _ < capLimit), trivial⟩
example : cont_okR (step ⟨.pq, cont_ex5⟩ (.getMut 4 wr)) (fun r1 =>
    cont_outEntry r1.2 = some (some (⟨4, 40⟩, 1)) ∧ r1.1.s.abs 4 = some (⟨4, 77⟩, 1) ∧
    (∀ n, n ≤ exOps.length → cont_okR (run r1.1 (exOps.take n)) (fun r => (r.1.s.abs 4).isSome = true)) ∧
    cont_okR (run r1.1 exOps) (fun r2 => r2.1.kind = .dpq ∧ r2.1.s.get 4 = some (⟨4, 77⟩, 5) ∧
      r2.1.s.abs 7 = none ∧ r2.1.s.len = 3)) := by decide +kernel
-- `C12_peekMut_written`: both ends of a double-ended queue
example : cont_okR (step ⟨.dpq, cont_exD⟩ (.peekFrontMut wr)) (fun r =>
    cont_outEntry r.2 = some (some (⟨4, 40⟩, 1)) ∧ r.1.s.abs 4 = some (⟨4, 77⟩, 1)) ∧
  cont_okR (step ⟨.dpq, cont_exD⟩ (.peekBackMut wr)) (fun r =>
    cont_outEntry r.2 = some (some (⟨2, 20⟩, 9)) ∧ r.1.s.abs 2 = some (⟨2, 77⟩, 9)) := by decide +kernel
-- `C12_iterMut_written`: key 3 sits in slot 2; the third `next` yields slot 2 and writes payload 5 (priority kept)
example : cont_ex5.WF ∧ IMap.find? cont_ex5.map 3 = some 2 := by decide +kernel
example : cont_okR (step ⟨.pq, cont_ex5⟩ (.iterMut false
    [(.next, ⟨none, none⟩), (.next, ⟨some 0, none⟩), (.next, ⟨none, some 5⟩)])) (fun r =>
      r.1.s.abs 3 = some (⟨3, 5⟩, 7) ∧ r.1.s.abs 2 = some (⟨2, 20⟩, 0) ∧ r.1.s.abs 1 = some (⟨1, 10⟩, 5)) := by
  decide +kernel
-- `C12_append_keeps` / `C12_append_swaps`: a small other queue leaves the stored item of 4 alone; a larger one
-- (six distinct keys against five) replaces it
example : cont_okR (step ⟨.pq, cont_ex5⟩ (.append (Store.fromVec #[(⟨4, 0⟩, 100), (⟨9, 90⟩, 2)]))) (fun r =>
    r.1.s.abs 4 = some (⟨4, 40⟩, 1) ∧ r.1.s.abs 9 = some (⟨9, 90⟩, 2)) := by decide +kernel
example : cont_okR (step ⟨.pq, cont_ex5⟩ (.append (Store.fromVec
    #[(⟨4, 0⟩, 100), (⟨9, 90⟩, 2), (⟨10, 0⟩, 3), (⟨11, 0⟩, 4), (⟨12, 0⟩, 5), (⟨13, 0⟩, 6)]))) (fun r =>
    r.1.s.abs 4 = some (⟨4, 0⟩, 100) ∧ r.1.s.abs 1 = some (⟨1, 10⟩, 5)) := by decide +kernel
/-- an other queue that is a real heap (built by six pushes: its index tables are NOT the identity) -/
private def oth6 : Store Nat :=
  match MaxQ.pushAll [(⟨4, 0⟩, 100), (⟨9, 90⟩, 2), (⟨10, 0⟩, 3), (⟨11, 0⟩, 400), (⟨12, 0⟩, 5), (⟨13, 0⟩, 600)] Store.empty with
  | .ok s => s
  | .error _ => Store.empty
-- the hypotheses of `C12_append_swaps` on it: well-formed, tables not the identity, strictly larger, holds key 4
example : oth6.WF ∧ oth6.heap ≠ Array.range 6 ∧ cont_ex5.size < oth6.size ∧ oth6.abs 4 = some (⟨4, 0⟩, 100) := by
  decide +kernel
example : cont_okR (step ⟨.pq, cont_ex5⟩ (.append oth6)) (fun r =>
    r.1.s.abs 4 = some (⟨4, 0⟩, 100) ∧ r.1.s.abs 1 = some (⟨1, 10⟩, 5) ∧ r.1.s.size = 10 ∧ MaxQ.Inv r.1.s ∧
    r.2 matches .other 0 0 0 0) := by decide +kernel

end Examples

end PQ

#print axioms PQ.C12_update_keeps_item
#print axioms PQ.C12_payload_persists
#print axioms PQ.C12_payload_persists_history
#print axioms PQ.C12_getMut_read_back
#print axioms PQ.C12_peekMut_written
#print axioms PQ.C12_iterMut_written
#print axioms PQ.C12_append_keeps
#print axioms PQ.C12_append_swaps
