import PQ.Model.Ops
/-!
# C18 — Observable behaviour does not depend on the hasher

The model has no hasher anywhere: `IMap` is an array searched by key, and `step`/`run` take a queue and operations and
nothing else.  So in the model the sequence of return values is a function of the history alone — for *every* hasher the
implementation might be instantiated with.  That is a statement about the model's type, recorded below as
`C18_history_determines_outputs`; it contains no information about the real code.

The property for the implementation is therefore decided by the tie: on every run the same generated histories are executed
under four `BuildHasher`s (freshly keyed `RandomState`, fixed-key SipHash, `BuildHasherDefault<XxHash64>` — the `no_std`
configuration — and a degenerate hasher that maps every item to 0) and each must agree *exactly* (results, white-box state,
peeks, comparison counts) with this one hasher-free model.  This is stronger than "up to the choice among equal priorities".
Level claimed: translation validation.
-/
namespace PQ
variable {P : Type} [LT P] [DecidableLT P]

/-- outputs and final state are a function of the initial queue and the history — there is no other input -/
theorem C18_history_determines_outputs (q : Q P) (ops : List (Op P)) (r₁ r₂ : R (Q P × List (Out P)))
    (h₁ : run q ops = r₁) (h₂ : run q ops = r₂) : r₁ = r₂ := h₁ ▸ h₂ ▸ rfl

end PQ

#print axioms PQ.C18_history_determines_outputs
