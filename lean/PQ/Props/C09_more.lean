import PQ.Lemmas.IterMutFused
/-!
# C09 — supplement (theorems whose lemma files build on `Props/C09.lean` itself)
-/
namespace PQ

/-- **once `None`, always `None`** for the `DoublePriorityQueue` `IterMut` (declared `FusedIterator`), in the direct form
`C09_pq_none_forever` has: for every size and every call list the run never faults, and after a `None` answer every later
`next` / `next_back` answers `None` (from either end) and no slot is handed out any more. -/
theorem C09_dpq_none_forever (n : Nat) (calls : List ICall) :
    ∃ outs, DIterMut.run n (DIterMut.new n) calls = .ok outs ∧
      ∀ j j' : Nat, j ≤ j' → outs[j]? = some (.slot none) →
        ((calls[j']? = some .next ∨ calls[j']? = some .nextBack) → outs[j']? = some (.slot none)) ∧
        (∀ s, outs[j']? = some (.slot s) → s = none) :=
  imf_dpq_none_forever n calls

-- non-vacuity: 3 elements, the first `None` comes at call 4 and every later advancing call answers `None`
example : (match DIterMut.run 3 (DIterMut.new 3) [.next, .nextBack, .len, .next, .next, .sizeHint, .nextBack, .next] with
    | .ok outs => outs[4]? == some (.slot none) && outs[6]? == some (.slot none) && outs[7]? == some (.slot none)
    | .error _ => false) = true := by decide

end PQ

#print axioms PQ.C09_dpq_none_forever
