import PQ.Lemmas.IterMutFused
/-!
# C09 — supplement (theorems whose lemma files build on `Props/C09.lean` itself)
-/
/-!
## What these theorems do NOT say (known finding F10)

C09's statement — and everything proved in `C09.lean` / here — is about slot identities: no two yielded references refer to the
same element.  It does not follow that client code may keep several yielded references alive: in the real crate every
`IterMut::next` / `next_back` re-borrows the whole entry slice uniquely (`get_index_mut2`), which under Rust's aliasing models
(Miri: Stacked Borrows and Tree Borrows) invalidates every reference yielded before, although they point to different elements
(`let a = it.next().unwrap(); let b = it.next().unwrap(); *a.1 = 6;` is undefined behaviour under Miri; witness crate
`/verif/corpus/miri_f10`, replayed by the thorough tier).  The model's `iter_mut` programs (`Op.iterMut`, `iterMutRun`) write only
through the reference yielded by the same call — the one shape Miri accepts — so they cannot express the bad pattern; the
restriction is a property of the model's alphabet, not a theorem about the crate.  See DESIGN.md 14.8 and KNOWN_FINDINGS.json.
-/
namespace PQ

/-- **once `None`, always `None`** for the `DoublePriorityQueue` `IterMut` (declared `FusedIterator`), in the direct form
`C09_pq_none_forever` has: for every size and every call list the run never faults, and after a `None` answer every later
`next` / `next_back` answers `None` (from either end) and no slot is handed out any more. -/
theorem C09_dpq_none_forever (n : Nat) (calls : List ICall) :
    ∃ outs, DIterMut.run n (DIterMut.new n) calls = .ok outs ∧
      ∀ j j' : Nat, j ≤ j' → outs[j]? = some (.slot none) →
        ((calls[j']? = some .next ∨ calls[j']? = some .nextBack) → outs[j']? = some (.slot none)) ∧
        (∀ s, outs[j']? = some (.slot s) → s = none) :=
  imf_dpq_none_forever n calls

-- non-vacuity: 3 elements, the first `None` comes at call 4 and every later advancing call answers `None`
example : (match DIterMut.run 3 (DIterMut.new 3) [.next, .nextBack, .len, .next, .next, .sizeHint, .nextBack, .next] with
    | .ok outs => outs[4]? == some (.slot none) && outs[6]? == some (.slot none) && outs[7]? == some (.slot none)
    | .error _ => false) = true := by decide

end PQ

#print axioms PQ.C09_dpq_none_forever
