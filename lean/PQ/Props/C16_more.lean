import PQ.Lemmas.CursorStore
import PQ.Props.C16
/-!
# C16 — supplement: `drain` yields every stored element exactly once, as entries
-/
namespace PQ
variable {P : Type}

/-- **`drain` yields every stored element exactly once (from either end)**: the draining iterator is the slice cursor over
the drained entry vector; driven by any call sequence with at least `len` advancing calls it hands out a permutation of the
entries the queue held; with fewer, that many entries at pairwise distinct slots (`C16_drain_cursor`). -/
theorem C16_drain_yields_each_once (s : Store P) (calls : List ICall) :
    (s.map.size ≤ adv calls → (Cursor.entries (s.drain).1 calls).Perm s.map.toList) ∧
    (Cursor.entries (s.drain).1 calls).length = min s.map.size (adv calls) :=
  ⟨Cursor.entries_perm s.map calls, (Cursor.entries_sub s.map calls).2.2⟩

example : Cursor.entries ((Store.fromVec #[(⟨1, 0⟩, 5), (⟨2, 0⟩, 7), (⟨3, 9⟩, (1 : Nat))]).drain).1
    [.next, .nextBack, .sizeHint, .nextBack, .next] = [(⟨1, 0⟩, 5), (⟨3, 9⟩, 1), (⟨2, 0⟩, 7)] := by decide +kernel

end PQ

#print axioms PQ.C16_drain_yields_each_once
