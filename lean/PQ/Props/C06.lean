import PQ.Lemmas.BulkProps
/-!
# C06 — Sorted consumption yields every element once, in monotone priority order

> `into_sorted_iter` and `into_sorted_vec` of a `PriorityQueue` yield every stored element exactly once in
> non-increasing priority order; `into_ascending_sorted_vec` and `into_descending_sorted_vec` of a
> `DoublePriorityQueue` yield every element once in non-decreasing respectively non-increasing order.  The
> `DoublePriorityQueue` sorted iterator may be advanced from both ends in any interleaving: `next` always yields a
> minimum and `next_back` a maximum of what remains, the two ends never return the same element, and its reported
> length is the number of elements remaining.

Model: `MaxQ.intoSortedVec` / `DQ.intoAscendingSortedVec` / `DQ.intoDescendingSortedVec` pop until empty;
the PQ sorted iterator is `bp_popCalls n` (`n` calls of `next`, `next = pop`); the DPQ sorted iterator is
`DQ.sortedCalls calls` (`false` = `next` = `pop_min`, `true` = `next_back` = `pop_max`).  Both sorted iterators own
the queue.  The DoublePriorityQueue one declares `ExactSizeIterator`: its `len()` is `pq.len()` and its `size_hint()` is
`(len, Some(len))` — what it reports is the `size` of the store it still holds (the statement about those answers is
`C13_sorted_dpq_exact_size`, on the machine the driver runs, `Model/SortedIter.lean`).  The PriorityQueue one implements only
`next` (no `len`, the default `size_hint() = (0, None)`), as `Model/SortedIter.lean` has it.

"Every stored element exactly once" is `l.Perm s.map.toList` (the list is a permutation of the entry list of the map);
`a` before `b` in a non-increasing list is `¬ a.2 < b.2`, in a non-decreasing one `¬ b.2 < a.2`.
All theorems hold for EVERY state satisfying the invariant and EVERY call list (calls after exhaustion included).
-/
namespace PQ
open Store
variable {P : Type} [LT P] [DecidableLT P] [LE P] [Std.IsLinearPreorder P] [Std.LawfulOrderLT P]

/-- **`into_sorted_vec` of a `PriorityQueue`**: never faults, yields a permutation of the stored entries (every element
exactly once: as many as `len`, the stored ones, with pairwise distinct items) in non-increasing priority order -/
theorem C06_pq_sorted_vec {s : Store P} (h : MaxQ.Inv s) :
    ∃ l, MaxQ.intoSortedVec s = .ok l ∧ l.Perm s.map.toList ∧ l.length = s.size ∧ (∀ e, e ∈ l ↔ s.Mem e) ∧
      (l.map (·.1.key)).Nodup ∧ l.Pairwise (fun a b => ¬ a.2 < b.2) := by
  obtain ⟨l, hl, hlen, hmem, hsorted, hnd⟩ := MaxQ.intoSortedVec_spec h
  exact ⟨l, hl, bp_perm_of_mem h.1 hnd hmem, hlen, hmem, hnd, hsorted⟩

example : MaxQ.Inv bp_exP ∧ bp_okR (MaxQ.intoSortedVec bp_exP)
    (fun l => l = [(⟨2, 20⟩, 9), (⟨3, 30⟩, 7), (⟨1, 10⟩, 5), (⟨5, 50⟩, 3), (⟨4, 40⟩, 1)]) := by decide +kernel

/-- **`into_sorted_iter` of a `PriorityQueue`, consumed from the front**: with `l` the sorted vector, ANY number `n` of
`next` calls never faults and answers the first `n` elements of `l` (all of `l` when `n ≥ len`) and then `None`
forever; the iterator then holds a correctly ordered queue of `len - n` elements (the `size` of the store it holds; this iterator implements neither `len` nor `size_hint`) whose
own sorted vector is the rest of `l` -/
theorem C06_pq_sorted_iter {s : Store P} (h : MaxQ.Inv s) :
    ∃ l, MaxQ.intoSortedVec s = .ok l ∧ l.Perm s.map.toList ∧ l.Pairwise (fun a b => ¬ a.2 < b.2) ∧
      ∀ n, ∃ s', bp_popCalls n s = .ok ((l.take n).map some ++ List.replicate (n - l.length) none, s') ∧
        MaxQ.Inv s' ∧ s'.size = s.size - n ∧ MaxQ.intoSortedVec s' = .ok (l.drop n) := by
  obtain ⟨l, hl, hperm, _, _, _, hsorted⟩ := C06_pq_sorted_vec h
  refine ⟨l, hl, hperm, hsorted, fun n => ?_⟩
  obtain ⟨l', s', hl', hrun, hinv, hsz, hrest⟩ := bp_popCalls_spec n h
  rw [hl] at hl'; cases hl'
  exact ⟨s', hrun, hinv, hsz, hrest⟩

example : bp_okR (bp_popCalls 7 bp_exP) (fun r => r.1.map (fun o => o.map (·.2)) =
    [some 9, some 7, some 5, some 3, some 1, none, none] ∧ r.2.size = 0) ∧
    bp_okR (bp_popCalls 2 bp_exP) (fun r => r.1.map (fun o => o.map (·.2)) = [some 9, some 7] ∧ r.2.size = 3) := by
  decide +kernel

/-- **`into_ascending_sorted_vec` of a `DoublePriorityQueue`**: a permutation of the stored entries in non-decreasing
priority order -/
theorem C06_dpq_ascending {s : Store P} (h : DQ.Inv s) :
    ∃ l, DQ.intoAscendingSortedVec s = .ok l ∧ l.Perm s.map.toList ∧ l.length = s.size ∧ (∀ e, e ∈ l ↔ s.Mem e) ∧
      (l.map (·.1.key)).Nodup ∧ l.Pairwise (fun a b => ¬ b.2 < a.2) := by
  obtain ⟨l, hl, hlen, hmem, hsorted, hnd⟩ := DQ.intoAscendingSortedVec_spec h
  exact ⟨l, hl, bp_perm_of_mem h.1 hnd hmem, hlen, hmem, hnd, hsorted⟩

example : DQ.Inv DQ.exQ ∧ bp_okR (DQ.intoAscendingSortedVec DQ.exQ)
    (fun l => l.map (·.2) = [10, 20, 30, 40, 50, 60, 70, 80]) := ⟨DQ.exQ_inv, by decide +kernel⟩

/-- **`into_descending_sorted_vec` of a `DoublePriorityQueue`**: a permutation of the stored entries in non-increasing
priority order -/
theorem C06_dpq_descending {s : Store P} (h : DQ.Inv s) :
    ∃ l, DQ.intoDescendingSortedVec s = .ok l ∧ l.Perm s.map.toList ∧ l.length = s.size ∧ (∀ e, e ∈ l ↔ s.Mem e) ∧
      (l.map (·.1.key)).Nodup ∧ l.Pairwise (fun a b => ¬ a.2 < b.2) := by
  obtain ⟨l, hl, hlen, hmem, hsorted, hnd⟩ := DQ.intoDescendingSortedVec_spec h
  exact ⟨l, hl, bp_perm_of_mem h.1 hnd hmem, hlen, hmem, hnd, hsorted⟩

example : bp_okR (DQ.intoDescendingSortedVec DQ.exQ) (fun l => l.map (·.2) = [80, 70, 60, 50, 40, 30, 20, 10]) := by
  decide +kernel

/-- **the double-ended sorted iterator of a `DoublePriorityQueue`**, for EVERY interleaving `calls` of `next`
(`false`) and `next_back` (`true`), calls after exhaustion included.  It never faults.  With `outs` the answers:

* the entries handed out have pairwise distinct items (the two ends never return the same element), each was stored
  at the start and is not held afterwards;
* `SortedRun ExtremeQ`: each answer is a minimum (`next`) / maximum (`next_back`) of what was held at that moment and
  exactly that item is removed; `none` is answered exactly when nothing is held;
* call by call: before call `j` the iterator holds `sj`, the state after the first `j` calls; `sj` is a correctly
  ordered queue whose length (= what `len`/`size_hint` report) is the original length minus the number of entries
  handed out so far; if `sj` is empty call `j` AND EVERY LATER CALL answer `None`; otherwise call `j` answers an entry
  that is a minimum of `sj` for `next` and a maximum of `sj` for `next_back`;
* afterwards the iterator holds a correctly ordered queue of `len - (number of entries handed out)` elements. -/
theorem C06_dpq_deque {s : Store P} (h : DQ.Inv s) (calls : List Bool) :
    ∃ outs s', DQ.sortedCalls calls s = .ok (outs, s') ∧ DQ.Inv s' ∧ outs.length = calls.length ∧
      ((outs.filterMap id).map (·.1.key)).Nodup ∧
      (∀ e, some e ∈ outs → s.Mem e ∧ ¬ s'.Mem e) ∧
      DQ.SortedRun DQ.ExtremeQ s.abs calls outs s'.abs ∧
      s'.size = s.size - (outs.filterMap id).length ∧ (outs.filterMap id).length = min s.size calls.length ∧
      (∀ j, j < calls.length →
        ∃ sj, DQ.sortedCalls (calls.take j) s = .ok (outs.take j, sj) ∧ DQ.Inv sj ∧
          sj.size = s.size - ((outs.take j).filterMap id).length ∧
          (sj.size = 0 → ∀ j', j ≤ j' → j' < calls.length → outs[j']? = some none) ∧
          (0 < sj.size → ∃ e, outs[j]? = some (some e) ∧
            if calls[j]? = some true then sj.IsMax e else sj.IsMin e)) := by
  obtain ⟨outs, s', hrun, hinv, hlen, hsr, hnd, hsz⟩ := DQ.sortedCalls_spec h calls
  have hcount := bp_sortedCalls_count calls h.1 hrun
  have hheld := (DQ.SortedRun.held (fun b f e hq => (DQ.ExtremeQ.held hq)) hsr).1
  refine ⟨outs, s', hrun, hinv, hlen, hnd, fun e he => ?_, hsr, by omega, by omega, fun j hj => ?_⟩
  · obtain ⟨h1, h2⟩ := hheld e he
    refine ⟨(DQ.mem_iff_abs h.1).2 h1, fun hm => ?_⟩
    rw [(DQ.mem_iff_abs hinv.1).1 hm] at h2; cases h2
  · obtain ⟨sj, h1, h2, h3, h4, h5⟩ := bp_sortedCalls_at h hrun j hj
    exact ⟨sj, h1, h2, by omega, h4, h5⟩

example : DQ.Inv DQ.exQ ∧ bp_okR (DQ.sortedCalls [false, true, false, true, true, false, false, true, false, true] DQ.exQ)
    (fun r => r.1.map (fun o => o.map (·.2)) =
      [some 10, some 80, some 20, some 70, some 60, some 30, some 40, some 50, none, none] ∧ r.2.size = 0) :=
  ⟨DQ.exQ_inv, by decide +kernel⟩

end PQ

#print axioms PQ.C06_pq_sorted_vec
#print axioms PQ.C06_pq_sorted_iter
#print axioms PQ.C06_dpq_ascending
#print axioms PQ.C06_dpq_descending
#print axioms PQ.C06_dpq_deque
