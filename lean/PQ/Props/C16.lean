import PQ.Lemmas.Spec
import PQ.Props.C13
import PQ.Model.Ops
import PQ.Lemmas.TickFrame
/-!
# C16 — drain and clear always leave an empty, reusable queue

`Store::drain` resets `heap`, `qp` and `size` *before* handing out IndexMap's draining iterator, and IndexMap's `Drain`
empties the map whether it is consumed, dropped or leaked (trusted base; exercised by the correspondence with every
consumption pattern including `mem::forget`).  In the model `drain s = (s.map, emptied store)`.

* `C16_drain_yields`: the drained sequence is exactly the stored entries in slot order; consumed through the double-ended
  cursor (C13) every entry comes out once, from either end, whatever the call sequence.
* `C16_drain_empty`, `C16_clear_empty`: afterwards map, heap and qp are empty and `size = 0` — the store is *equal* to the
  store of `new()` up to the ghost comparison counter — hence well-formed, satisfying the invariant of either queue kind,
  with every peek/pop returning `None`.
* `C16_reusable`: consequently every property theorem that starts from a fresh queue (they all only assume the invariant)
  applies to the emptied queue: stated as "the emptied store satisfies `MaxQ.Inv` and `DQ.Inv`".

* `C16_behaves_like_new`: for EVERY later history the emptied queue produces exactly the results of a queue made by `new()`,
  faults included (there are none), and ends in a state equal to the fresh queue's up to the ghost comparison counter —
  which is proved to have no influence on behaviour (`Lemmas/TickFrame.lean`: every model function commutes with shifting the
  counter).
-/
namespace PQ
variable {P : Type} [LT P] [DecidableLT P]

/-- the store of `new()` with an arbitrary value of the ghost counter -/
def Store.fresh (t : Nat) : Store P := { (Store.empty : Store P) with ticks := t }

theorem C16_drain_yields (s : Store P) : (s.drain).1 = s.map := rfl

theorem C16_drain_empty (s : Store P) : (s.drain).2 = Store.fresh s.ticks := rfl

theorem C16_clear_empty (s : Store P) : s.clear = Store.fresh s.ticks := rfl

/-- consuming the drained entries through the double-ended cursor: every slot once, from either end, none twice,
exact `len`/`size_hint`, then `None` forever — for all call sequences (instance of C13) -/
theorem C16_drain_cursor (s : Store P) (calls : List ICall) :
    (slots (Cursor.run (Cursor.new (s.drain).1.size) calls)).Nodup ∧
      ∀ i ∈ slots (Cursor.run (Cursor.new (s.drain).1.size) calls), i < s.map.size :=
  C13_cursor_nodup s.map.size calls

theorem Store.fresh_WF (t : Nat) : (Store.fresh t : Store P).WF := by
  refine ⟨rfl, rfl, rfl, ?_, ?_, ?_⟩
  · intro p hp; exact absurd hp (Nat.not_lt_zero _)
  · intro i hi; exact absurd hi (Nat.not_lt_zero _)
  · intro i j a b ha; simp [Store.fresh, Store.empty] at ha

/-- **reusable**: the emptied store satisfies the invariant of both queue kinds, so everything proved from `new()` applies -/
theorem C16_reusable (s : Store P) :
    MaxQ.Inv (s.drain).2 ∧ DQ.Inv (s.drain).2 ∧ MaxQ.Inv s.clear ∧ DQ.Inv s.clear := by
  have hm : (Store.fresh s.ticks : Store P).MaxHeap := by intro p _ hp; exact absurd hp (Nat.not_lt_zero _)
  have hd : (Store.fresh s.ticks : Store P).MinMaxHeap := by intro a d _ hd; exact absurd hd (Nat.not_lt_zero _)
  exact ⟨⟨Store.fresh_WF _, hm⟩, ⟨Store.fresh_WF _, hd⟩, ⟨Store.fresh_WF _, hm⟩, ⟨Store.fresh_WF _, hd⟩⟩

/-- peeks and pops of the emptied queue return `None` -/
theorem C16_empty_observations (t : Nat) :
    MaxQ.peek (Store.fresh t : Store P) = none ∧
    MaxQ.pop (Store.fresh t : Store P) = .ok (Store.fresh t, none) ∧
    DQ.peekMin (Store.fresh t : Store P) = .ok none ∧
    DQ.peekMax (Store.fresh t : Store P) = .ok (Store.fresh t, none) ∧
    DQ.popMin (Store.fresh t : Store P) = .ok (Store.fresh t, none) ∧
    DQ.popMax (Store.fresh t : Store P) = .ok (Store.fresh t, none) := by
  refine ⟨rfl, rfl, rfl, rfl, rfl, rfl⟩

/-- at the level of histories: `clear` and `drain` always succeed and yield the fresh store -/
theorem C16_step_clear (q : Q P) : step q .clear = .ok ({ q with s := Store.fresh q.s.ticks }, .unit) := rfl
theorem C16_step_drain (q : Q P) : step q .drain = .ok ({ q with s := Store.fresh q.s.ticks }, .entries q.s.map.toList) := rfl

/-- **behaves like a fresh queue**: every later history gives the same results as on `new()` (both after `drain`, however
the draining iterator was consumed, and after `clear`), and the final states agree on map, heap, qp and size -/
theorem C16_behaves_like_new (s : Store P) (k : Kind) (ops : List (Op P)) :
    (∀ q' outs, run { kind := k, s := (s.drain).2 } ops = .ok (q', outs) →
        ∃ r', run (Q.new k) ops = .ok (r', outs) ∧ TickFrame.QSame q' r') ∧
    (∀ q' outs, run { kind := k, s := s.clear } ops = .ok (q', outs) →
        ∃ r', run (Q.new k) ops = .ok (r', outs) ∧ TickFrame.QSame q' r') ∧
    (∀ e, run { kind := k, s := (s.drain).2 } ops = .error e ↔ run (Q.new k) ops = .error e) :=
  TickFrame.drained_behaves_like_new s k ops

/-- non-vacuity -/
example : ((⟨#[(⟨1, 0⟩, (5 : Int)), (⟨2, 0⟩, 7)], #[1, 0], #[1, 0], 2, 3⟩ : Store Int).drain).2 = Store.fresh 3 := rfl

end PQ

#print axioms PQ.C16_drain_yields
#print axioms PQ.C16_drain_empty
#print axioms PQ.C16_clear_empty
#print axioms PQ.C16_drain_cursor
#print axioms PQ.C16_reusable
#print axioms PQ.C16_empty_observations
#print axioms PQ.C16_step_clear
#print axioms PQ.C16_step_drain
#print axioms PQ.C16_behaves_like_new
