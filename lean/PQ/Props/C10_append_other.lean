import PQ.Props.C10
import PQ.Lemmas.BulkProps
/-!
# C10 (addition) — after `append`, crashed or not, the caller still holds a usable OTHER queue

`a.append(&mut b)` takes the second queue by `&mut`: when the call returns — or when a panic of `Ord::cmp` inside it is
caught — the caller holds BOTH queues.  `C10.lean` speaks about the receiver (the queue `stepF` reports).  This file is
about the other one.

```rust
// store.rs
pub fn append(&mut self, other: &mut Self) {
    if other.size > self.size { std::mem::swap(self, other); }
    if other.size == 0 { return; }
    for (k, v) in other.drain() { if !self.map.contains_key(&k) { … push … } }
}
// priority_queue/mod.rs, double_priority_queue/mod.rs
pub fn append(&mut self, other: &mut Self) { self.store.append(&mut other.store); self.heap_build(); }
```

`Store::append` compares no priorities: it runs to completion before `heap_build` — the only part of `append` that calls
user code (`Ord::cmp`) — starts.  So at EVERY crash point of `append` the other queue's store is already
`(Store.append s o).2` (`Store.append` returns the pair *(new self, new other)*): the smaller of the two stores, untouched if
its `size` is `0`, drained (`Store::drain` resets the tables and the size before the map's drain iterator exists) otherwise.

* `C10_append_other_wf` — `(s.append o).2` is well-formed (the requested statement);
* `C10_append_other_eq`, `C10_append_other_empty` — which store it is exactly, and that it is empty;
* `C10_append_other_pq` / `C10_append_other_dq` — a normal return `.ok (s', o')` of `MaxQ.append` / `DQ.append` has
  `o' = (s.append o).2`, well-formed and empty;
* `C10_appendF_other_pq` / `C10_appendF_other_dq` — the fused twins, EVERY fuse.  The twins `Crash.MaxQ.appendF` /
  `Crash.DQ.appendF` do **not** expose the other store on a crash (`Stop.crashed s'` carries the receiver's store only), so
  the crashed case cannot be stated about a component of their result.  It is stated like this instead: the other store is
  `(s.append o).2` — a term in which `fuse` does not occur, which is what the twin's text says: `let (s, o) := s.append o`
  comes before the fused rebuild, and a normal return hands back exactly that `o` — and the theorem gives, for every fuse,
  its well-formedness and emptiness TOGETHER with the dichotomy "normal return with this other / crash with a well-formed
  receiver";
* `C10_append_crash_both_usable` — the same for the operation `Op.append o` of the alphabet (`stepF`), with the
  continuation: from the other queue every legal history (leaked guards included) runs without fault, and so it does from
  the receiver (by `C10_crash_then_any_history`).
-/
namespace PQ
open PQ.Crash

section Plain
variable {P : Type}

/-- **the other queue after `Store::append`** is well-formed (whichever of the two stores it is after the possible swap) -/
theorem C10_append_other_wf (s o : Store P) (ho : o.WF) (hs : s.WF) : ((s.append o).2).WF :=
  Store.wf_append_snd hs ho

/-- **which store it is**: the smaller of the two (the argument, or — after `mem::swap`, when the argument is strictly
longer — the old receiver); untouched when its size is `0`, cleared (`drain`) otherwise.  No hypothesis. -/
theorem C10_append_other_eq (s o : Store P) :
    (s.append o).2 =
      if o.size > s.size then (if s.size = 0 then s else s.clear) else (if o.size = 0 then o else o.clear) := by
  rw [Store.append_eq]
  unfold Store.appendOrder
  by_cases h : o.size > s.size
  · rw [if_pos h, if_pos h]
    by_cases h0 : s.size = 0
    · rw [if_pos h0, if_pos h0]
    · rw [if_neg h0, if_neg h0]; rfl
  · rw [if_neg h, if_neg h]
    by_cases h0 : o.size = 0
    · rw [if_pos h0, if_pos h0]
    · rw [if_neg h0, if_neg h0]; rfl

/-- **it is empty**: map, both index tables and the size counter -/
theorem C10_append_other_empty (s o : Store P) (ho : o.WF) (hs : s.WF) :
    (s.append o).2.map = #[] ∧ (s.append o).2.heap = #[] ∧ (s.append o).2.qp = #[] ∧ (s.append o).2.size = 0 := by
  obtain ⟨h1, h2, h3, h4, _⟩ := Store.append_snd_tables hs ho
  exact ⟨h1, h2, h3, h4⟩

end Plain

variable {P : Type} [LT P] [DecidableLT P] [LE P] [Std.IsLinearPreorder P] [Std.LawfulOrderLT P]

omit [LE P] [Std.IsLinearPreorder P] [Std.LawfulOrderLT P] in
/-- **`PriorityQueue::append`, normal return**: the other queue handed back is `(s.append o).2`: well-formed and empty.
(That a normal return exists: `C07_append`.) -/
theorem C10_append_other_pq {s o s' o' : Store P} (hs : s.WF) (ho : o.WF) (h : MaxQ.append s o = .ok (s', o')) :
    o' = (s.append o).2 ∧ o'.WF ∧ o'.map = #[] ∧ o'.heap = #[] ∧ o'.qp = #[] ∧ o'.size = 0 := by
  have hev : MaxQ.append s o = (do let s' ← MaxQ.heapBuild (s.append o).1; pure (s', (s.append o).2)) := rfl
  have he : o' = (s.append o).2 := by
    rw [hev] at h
    cases hb : MaxQ.heapBuild (s.append o).1 with
    | error f => rw [hb] at h; cases h
    | ok t => rw [hb] at h; cases h; rfl
  subst he
  exact ⟨rfl, C10_append_other_wf s o ho hs, C10_append_other_empty s o ho hs⟩

omit [LE P] [Std.IsLinearPreorder P] [Std.LawfulOrderLT P] in
/-- **`DoublePriorityQueue::append`, normal return** -/
theorem C10_append_other_dq {s o s' o' : Store P} (hs : s.WF) (ho : o.WF) (h : DQ.append s o = .ok (s', o')) :
    o' = (s.append o).2 ∧ o'.WF ∧ o'.map = #[] ∧ o'.heap = #[] ∧ o'.qp = #[] ∧ o'.size = 0 := by
  have hev : DQ.append s o = (do let s' ← DQ.heapBuild (s.append o).1; pure (s', (s.append o).2)) := rfl
  have he : o' = (s.append o).2 := by
    rw [hev] at h
    cases hb : DQ.heapBuild (s.append o).1 with
    | error f => rw [hb] at h; cases h
    | ok t => rw [hb] at h; cases h; rfl
  subst he
  exact ⟨rfl, C10_append_other_wf s o ho hs, C10_append_other_empty s o ho hs⟩

/-- **`PriorityQueue::append` with a panicking comparison, every crash point** (`fuse` arbitrary).  The other queue is
`(s.append o).2` whatever the fuse (the store-level append is complete before the first comparison): it is well-formed and
empty; and the call either returns normally — then the twin's result is the plain result, its second component is this
very store — or crashes into a well-formed receiver holding the union.  (The twin reports only the receiver on a crash:
see the header.) -/
theorem C10_appendF_other_pq (fuse : Nat) {s o : Store P} (hs : s.WF) (ho : o.WF) :
    ((s.append o).2).WF ∧
    ((s.append o).2.map = #[] ∧ (s.append o).2.heap = #[] ∧ (s.append o).2.qp = #[] ∧ (s.append o).2.size = 0) ∧
    ((∃ s', Crash.MaxQ.appendF fuse s o = .ok (s', (s.append o).2) ∧ MaxQ.append s o = .ok (s', (s.append o).2) ∧
        s'.WF) ∨
     (∃ s', Crash.MaxQ.appendF fuse s o = .error (.crashed s') ∧ s'.WF ∧ s'.map = (s.append o).1.map)) := by
  refine ⟨C10_append_other_wf s o ho hs, C10_append_other_empty s o ho hs, ?_⟩
  have hev : Crash.MaxQ.appendF fuse s o =
      (do let s' ← Crash.MaxQ.heapBuildF fuse (s.append o).1; pure (s', (s.append o).2)) := rfl
  obtain ⟨t, h1, h2, _⟩ := MaxQ.heapBuild_safe (Store.wf_append_fst hs ho)
  rcases cr_pq_heapBuildF fuse (Store.wf_append_fst hs ho) with h | ⟨s', h, hw, hm, _⟩
  · left
    refine ⟨t, ?_, ?_, h2⟩
    · rw [hev, h, h1]; rfl
    · rw [MaxQ.append_eval, h1]; rfl
  · right
    exact ⟨s', by rw [hev, h]; rfl, hw, hm⟩

/-- **`DoublePriorityQueue::append` with a panicking comparison, every crash point** -/
theorem C10_appendF_other_dq (fuse : Nat) {s o : Store P} (hs : s.WF) (ho : o.WF) :
    ((s.append o).2).WF ∧
    ((s.append o).2.map = #[] ∧ (s.append o).2.heap = #[] ∧ (s.append o).2.qp = #[] ∧ (s.append o).2.size = 0) ∧
    ((∃ s', Crash.DQ.appendF fuse s o = .ok (s', (s.append o).2) ∧ DQ.append s o = .ok (s', (s.append o).2) ∧
        s'.WF) ∨
     (∃ s', Crash.DQ.appendF fuse s o = .error (.crashed s') ∧ s'.WF ∧ s'.map = (s.append o).1.map)) := by
  refine ⟨C10_append_other_wf s o ho hs, C10_append_other_empty s o ho hs, ?_⟩
  have hev : Crash.DQ.appendF fuse s o =
      (do let s' ← Crash.DQ.heapBuildF fuse (s.append o).1; pure (s', (s.append o).2)) := rfl
  have hev' : DQ.append s o = (do let s' ← DQ.heapBuild (s.append o).1; pure (s', (s.append o).2)) := rfl
  obtain ⟨t, h1, h2, _⟩ := DQ.heapBuild_spec (Store.wf_append_fst hs ho)
  rcases cr_dq_heapBuildF fuse (Store.wf_append_fst hs ho) with h | ⟨s', h, hw, hm, _⟩
  · left
    refine ⟨t, ?_, ?_, h2⟩
    · rw [hev, h, h1]; rfl
    · rw [hev', h1]; rfl
  · right
    exact ⟨s', by rw [hev, h]; rfl, hw, hm⟩

/-- **`append` as an operation of the alphabet, every crash point, both queues.**  `q` any well-formed queue of either
kind, `o` any well-formed other queue of the same kind, `fuse` arbitrary.  The OTHER queue the caller holds afterwards —
`⟨q.kind, (q.s.append o).2⟩`, the same whether `append` returned or a panic was caught — is well-formed, empty, and every
legal history from it (leaked `iter_mut` guards included) runs without any fault.  The RECEIVER: either `append` returned
(the fused operation is the plain one, reporting the other queue's four lengths as `0`), or it crashed into a well-formed
queue of the same kind holding the union, from which again every legal history runs without fault; no model fault, and
never `crashedNew`. -/
theorem C10_append_crash_both_usable (fuse : Nat) {q : Q P} {o : Store P} (hq : QWF q) (ho : o.WF) :
    (QWF ⟨q.kind, (q.s.append o).2⟩ ∧
      ((q.s.append o).2.map = #[] ∧ (q.s.append o).2.heap = #[] ∧ (q.s.append o).2.qp = #[] ∧
        (q.s.append o).2.size = 0) ∧
      ∀ ops, (∀ x ∈ ops, x.Legal) → ∃ q'' outs, run ⟨q.kind, (q.s.append o).2⟩ ops = .ok (q'', outs) ∧ QWF q'') ∧
    ((∃ s', stepF fuse q (.append o) = .ok (⟨q.kind, s'⟩, .other 0 0 0 0) ∧
        step q (.append o) = .ok (⟨q.kind, s'⟩, .other 0 0 0 0) ∧ s'.WF) ∨
     (∃ s', stepF fuse q (.append o) = .error (.crashed ⟨q.kind, s'⟩) ∧ s'.WF ∧ s'.map = (q.s.append o).1.map ∧
        ∀ ops, (∀ x ∈ ops, x.Legal) → ∃ q'' outs, run ⟨q.kind, s'⟩ ops = .ok (q'', outs) ∧ QWF q'')) := by
  obtain ⟨k, s⟩ := q
  have hs : s.WF := hq
  have hwo : QWF (⟨k, (s.append o).2⟩ : Q P) := C10_append_other_wf s o ho hs
  obtain ⟨e1, e2, e3, e4⟩ := C10_append_other_empty s o ho hs
  have hcont : ∀ {t : Store P}, t.WF → ∀ ops : List (Op P), (∀ x ∈ ops, x.Legal) →
      ∃ q'' outs, run ⟨k, t⟩ ops = .ok (q'', outs) ∧ QWF q'' := fun {t} ht ops hops => by
    obtain ⟨q'', outs, h1, _, h3⟩ := C04_from_any_wf (q := ⟨k, t⟩) ops ht hops
    exact ⟨q'', outs, h1, h3⟩
  refine ⟨⟨hwo, ⟨e1, e2, e3, e4⟩, hcont hwo⟩, ?_⟩
  cases k
  · rcases (C10_appendF_other_pq fuse hs ho).2.2 with ⟨s', h1, h2, h3⟩ | ⟨s', h1, h2, h3⟩
    · left
      refine ⟨s', ?_, ?_, h3⟩
      · simp only [stepF, h1, liftQ, bind, Except.bind, pure, Except.pure, e1, e2, e3, e4, Array.size_empty]
      · simp only [step, h2, bind, Except.bind, pure, Except.pure, e1, e2, e3, e4, Array.size_empty]
    · right
      refine ⟨s', ?_, h2, h3, hcont h2⟩
      simp only [stepF, h1, liftQ, bind, Except.bind]
  · rcases (C10_appendF_other_dq fuse hs ho).2.2 with ⟨s', h1, h2, h3⟩ | ⟨s', h1, h2, h3⟩
    · left
      refine ⟨s', ?_, ?_, h3⟩
      · simp only [stepF, h1, liftQ, bind, Except.bind, pure, Except.pure, e1, e2, e3, e4, Array.size_empty]
      · simp only [step, h2, bind, Except.bind, pure, Except.pure, e1, e2, e3, e4, Array.size_empty]
    · right
      refine ⟨s', ?_, h2, h3, hcont h2⟩
      simp only [stepF, h1, liftQ, bind, Except.bind]

/-! ## Non-vacuity: concrete queues (`P := Nat`), both directions of the swap, fuse off and fuse firing

`bp_exW` (5 elements, disordered) and `bp_exO` (2 elements, one key shared with `bp_exW`) are well-formed.  Whichever is
the receiver, the 2-element store ends up as the other queue, drained. -/

example : bp_exW.WF ∧ bp_exO.WF ∧ bp_exW.size = 5 ∧ bp_exO.size = 2 ∧
    (bp_exW.append bp_exO).1.size = 6 ∧ (bp_exW.append bp_exO).2.WF ∧ (bp_exW.append bp_exO).2.map = #[] ∧
    (bp_exW.append bp_exO).2.size = 0 ∧
    -- the argument is longer: `mem::swap`; the other queue handed back is the old (shorter) receiver, drained
    (bp_exO.append bp_exW).1.size = 6 ∧ (bp_exO.append bp_exW).2.WF ∧ (bp_exO.append bp_exW).2.map = #[] ∧
    (bp_exO.append bp_exW).2.heap = #[] ∧ (bp_exO.append bp_exW).2.qp = #[] ∧ (bp_exO.append bp_exW).2.size = 0 := by
  decide +kernel

/-- an other queue of size `0` is handed back untouched -/
example : (bp_exW.append (Store.empty : Store Nat)).2.WF ∧ (bp_exW.append (Store.empty : Store Nat)).1.size = 5 ∧
    ((Store.empty : Store Nat).append bp_exW).2.WF ∧ ((Store.empty : Store Nat).append bp_exW).1.size = 5 := by
  decide +kernel

/-- normal returns of both kinds: the hypothesis of `C10_append_other_pq` / `_dq` is satisfiable -/
example : bp_okR (MaxQ.append bp_exW bp_exO) (fun r => r.1.size = 6 ∧ r.2.WF ∧ r.2.size = 0) ∧
    bp_okR (DQ.append bp_exO bp_exW) (fun r => r.1.size = 6 ∧ r.2.WF ∧ r.2.size = 0) := by decide +kernel

/-- what a fused run gave: `0` = normal return, `1` = crash into a well-formed store of the given size, `2` = anything else -/
private def c10ao_kind (x : CR Nat (Store Nat × Store Nat)) (size : Nat) : Nat :=
  match x with
  | .ok r => if r.1.size = size ∧ r.2.size = 0 then 0 else 2
  | .error (.crashed s') => if s'.WF ∧ s'.size = size ∧ s'.map.size = size then 1 else 2
  | .error _ => 2

/-- the fuse really fires inside `append` (second, third comparison of the rebuild; both kinds; both directions), and
with the fuse off (or beyond the rebuild) the call returns: both disjuncts of `C10_appendF_other_*` occur -/
example : c10ao_kind (Crash.MaxQ.appendF 0 bp_exW bp_exO) 6 = 0 ∧ c10ao_kind (Crash.MaxQ.appendF 2 bp_exW bp_exO) 6 = 1 ∧
    c10ao_kind (Crash.MaxQ.appendF 3 bp_exO bp_exW) 6 = 1 ∧ c10ao_kind (Crash.MaxQ.appendF 1000 bp_exO bp_exW) 6 = 0 ∧
    c10ao_kind (Crash.DQ.appendF 0 bp_exO bp_exW) 6 = 0 ∧ c10ao_kind (Crash.DQ.appendF 2 bp_exW bp_exO) 6 = 1 ∧
    c10ao_kind (Crash.DQ.appendF 3 bp_exO bp_exW) 6 = 1 := by decide +kernel

/-- the same through `stepF`, and a continuation on BOTH queues after the crash: the other queue (empty) takes pushes and
pops, the crashed receiver pops all its 6 elements -/
example :
    (match stepF 2 (⟨.pq, bp_exW⟩ : Q Nat) (.append bp_exO) with
     | .error (.crashed q') => decide (q'.kind = .pq ∧ q'.s.WF ∧ q'.s.size = 6 ∧
         bp_okR (run q' [.popFront, .popFront, .popFront, .popFront, .popFront, .popFront, .popFront])
           (fun r => r.1.s.WF ∧ r.1.s.size = 0))
     | _ => false) = true ∧
    bp_okR (run (⟨.pq, (bp_exW.append bp_exO).2⟩ : Q Nat) [.push ⟨7, 0⟩ 3, .push ⟨8, 0⟩ 9, .popFront, .push ⟨7, 1⟩ 4])
      (fun r => r.1.s.WF ∧ r.1.s.size = 1) := by
  decide +kernel

end PQ

#print axioms PQ.C10_append_other_wf
#print axioms PQ.C10_append_other_eq
#print axioms PQ.C10_append_other_empty
#print axioms PQ.C10_append_other_pq
#print axioms PQ.C10_append_other_dq
#print axioms PQ.C10_appendF_other_pq
#print axioms PQ.C10_appendF_other_dq
#print axioms PQ.C10_append_crash_both_usable

