import PQ.Lemmas.Cost
/-!
# C05 — comparison counts

"On a queue of n elements push, pop (either end), pop_if, change_priority, change_priority_by, push_increase,
push_decrease and remove perform a number of priority comparisons bounded by a constant multiple of log2(n) plus a
constant; peek, peek_min, len and the lookups perform none and peek_max at most one.  The bulk operations that
re-establish order (construction from a vector or iterator, append, retain, dropping iter_mut, conversions) perform
O(n) comparisons."

The ghost field `Store.ticks` is incremented by the model exactly where the Rust code calls `Ord::cmp` on two
priorities.  Every theorem below has the form

  *for every store `s` and all arguments, if the operation returns `.ok (s', _)` then
  `s'.ticks ≤ s.ticks + <explicit bound in Nat.log2 / size>`*.

No well-formedness is assumed.  The only hypothesis that appears (for `push`, `push_increase`, `push_decrease`,
`change_priority`, `change_priority_by`, and the per-element strategy of `extend`) is `s.QpLt` — "every position
recorded in the `qp` table is below `size`" — which is one clause of `Store.WF` (`Store.WF.qpLt`): these operations
start their sift-up at the *recorded* position of an existing item, and on an arbitrary (ill-formed) store that
position could be arbitrarily deep.  The hypothesis-free general forms (`…_cost_gen`, bound `B + 2 * log2 size`
with `B` any bound of the level of the recorded positions) are in `PQ/Lemmas/Cost.lean`.

`n` below is `s.size` *before* the operation unless stated otherwise.
-/
namespace PQ
open Arith

/-- a small well-formed max-heap (priorities 9, 5, 3 at positions 0, 1, 2) used for the non-vacuity examples -/
def C05.s3 : Store Nat :=
  { map := #[(⟨1, 0⟩, 5), (⟨2, 0⟩, 3), (⟨3, 0⟩, 9)], heap := #[2, 0, 1], qp := #[1, 2, 0], size := 3 }

theorem C05.s3_qpLt : C05.s3.QpLt := Store.qpLt_of_all (by decide +kernel)

/-- the hypothesis `QpLt` of the theorems below is a consequence of the standing invariant `WF` -/
theorem C05_qpLt_of_WF {P : Type} {s : Store P} (h : s.WF) : s.QpLt := h.qpLt

/-- the comparison count of a successful run (for the examples) -/
def C05.ticksOf {P α : Type} (x : R (Store P × α)) : Option Nat := x.toOption.map (·.1.ticks)
def C05.ticksOf' {P : Type} (x : R (Store P)) : Option Nat := x.toOption.map (·.ticks)

section PQ
variable {P : Type} [LT P] [DecidableLT P]
open C05

/-! ## `PriorityQueue` (binary max-heap) -/

/-- `push`: at most `3 * log2 (n + 1)` comparisons (a new item: at most `log2 (n + 1)`, see `MaxQ.push_cost_gen`) -/
theorem C05_pq_push {s s' : Store P} {it : Item} {p : P} {r : Option P} (hq : s.QpLt)
    (h : MaxQ.push s it p = .ok (s', r)) : s'.ticks ≤ s.ticks + 3 * Nat.log2 (s.size + 1) := by
  obtain ⟨a, _, c⟩ := MaxQ.push_cost hq h
  have := log2_mono a; omega

example : ticksOf (MaxQ.push s3 ⟨4, 0⟩ 7) = some 2 := by decide +kernel
example : ticksOf (MaxQ.push s3 ⟨2, 0⟩ 10) = some 3 := by decide +kernel

/-- `pop`: at most `2 * log2 n` comparisons (indeed `2 * log2 (n - 1)`) -/
theorem C05_pq_pop {s s' : Store P} {r : Option (Item × P)} (h : MaxQ.pop s = .ok (s', r)) :
    s'.ticks ≤ s.ticks + 2 * Nat.log2 s.size := by
  obtain ⟨a, b⟩ := MaxQ.pop_cost h
  have := log2_mono (show s'.size ≤ s.size by omega); omega

example : ticksOf (MaxQ.pop s3) = some 1 := by decide +kernel

/-- `pop_if`: at most `2 * log2 n` comparisons -/
theorem C05_pq_popIf {s s' : Store P} {f : Item → P → Bool × Item × P} {r : Option (Item × P)}
    (h : MaxQ.popIf s f = .ok (s', r)) : s'.ticks ≤ s.ticks + 2 * Nat.log2 s.size := by
  obtain ⟨a, b⟩ := MaxQ.popIf_cost h
  have := log2_mono a; omega

example : ticksOf (MaxQ.popIf s3 (fun it p => (true, it, p))) = some 1 := by decide +kernel

/-- `change_priority`: at most `3 * log2 n` comparisons -/
theorem C05_pq_changePriority {s s' : Store P} {k : Nat} {p : P} {r : Option P} (hq : s.QpLt)
    (h : MaxQ.changePriority s k p = .ok (s', r)) : s'.ticks ≤ s.ticks + 3 * Nat.log2 s.size :=
  (MaxQ.changePriority_cost hq h).2

example : ticksOf (MaxQ.changePriority s3 2 10) = some 3 := by decide +kernel

/-- `change_priority_by`: at most `3 * log2 n` comparisons -/
theorem C05_pq_changePriorityBy {s s' : Store P} {k : Nat} {g : P → P} {r : Bool} (hq : s.QpLt)
    (h : MaxQ.changePriorityBy s k g = .ok (s', r)) : s'.ticks ≤ s.ticks + 3 * Nat.log2 s.size :=
  (MaxQ.changePriorityBy_cost hq h).2

example : ticksOf (MaxQ.changePriorityBy s3 3 (fun _ => 0)) = some 2 := by decide +kernel

/-- `remove`: at most `3 * log2 n` comparisons; no hypothesis at all (`remove` checks the position itself) -/
theorem C05_pq_remove {s s' : Store P} {k : Nat} {r : Option (Item × P)}
    (h : MaxQ.remove s k = .ok (s', r)) : s'.ticks ≤ s.ticks + 3 * Nat.log2 s.size := by
  obtain ⟨a, b⟩ := MaxQ.remove_cost h
  have := log2_mono a; omega

example : ticksOf (MaxQ.remove s3 3) = some 1 := by decide +kernel

/-- `push_increase`: one comparison with the stored priority, then possibly a `push` -/
theorem C05_pq_pushIncrease {s s' : Store P} {it : Item} {p : P} {r : Option P} (hq : s.QpLt)
    (h : MaxQ.pushIncrease s it p = .ok (s', r)) : s'.ticks ≤ s.ticks + 3 * Nat.log2 (s.size + 1) + 1 := by
  obtain ⟨a, _, c⟩ := MaxQ.pushIncrease_cost hq h
  have := log2_mono a; omega

example : ticksOf (MaxQ.pushIncrease s3 ⟨2, 0⟩ 10) = some 4 := by decide +kernel

/-- `push_decrease`: one comparison with the stored priority, then possibly a `push` -/
theorem C05_pq_pushDecrease {s s' : Store P} {it : Item} {p : P} {r : Option P} (hq : s.QpLt)
    (h : MaxQ.pushDecrease s it p = .ok (s', r)) : s'.ticks ≤ s.ticks + 3 * Nat.log2 (s.size + 1) + 1 := by
  obtain ⟨a, _, c⟩ := MaxQ.pushDecrease_cost hq h
  have := log2_mono a; omega

example : ticksOf (MaxQ.pushDecrease s3 ⟨3, 0⟩ 1) = some 3 := by decide +kernel

/-- `peek`, `len`, `is_empty`, `get`, `get_priority` are pure reads: in the model they have no store in their result
type (so there is no counter they could advance) and their value does not depend on the counter; `peek_mut` and
`get_mut` (with the caller's write) return a store whose counter is unchanged. -/
theorem C05_pq_peek_free (s : Store P) (k : Nat) :
    MaxQ.peek (s.tick k) = MaxQ.peek s ∧ (s.tick k).len = s.len ∧ (s.tick k).isEmpty = s.isEmpty ∧
    (∀ key, (s.tick k).get key = s.get key) ∧ (∀ key, (s.tick k).getPriority key = s.getPriority key) ∧
    (∀ w s' r, MaxQ.peekMutWrite s w = .ok (s', r) → s'.ticks = s.ticks) ∧
    (∀ key w, (s.getMutWrite key w).1.ticks = s.ticks) := by
  refine ⟨rfl, rfl, rfl, fun _ => rfl, fun _ => rfl, fun w s' r h => (MaxQ.peekMutWrite_cost h).1, fun key w => ?_⟩
  unfold Store.getMutWrite; split <;> rfl

example : MaxQ.peek s3 = some (⟨3, 0⟩, 9) := by decide +kernel

/-- **`heap_build` is linear** (this is also what dropping `iter_mut` runs): at most `2 * n` comparisons -/
theorem C05_pq_heapBuild_linear {s s' : Store P} (h : MaxQ.heapBuild s = .ok s') :
    s'.ticks ≤ s.ticks + 2 * s.size := (MaxQ.heapBuild_cost h).2

example : ticksOf' (MaxQ.heapBuild { s3 with heap := #[1, 0, 2], qp := #[1, 0, 2] }) = some 2 := by decide +kernel

/-- **the bulk operations are linear**: `from_vec`, `from_iter`, deserialisation (at most `2 * len` comparisons, `len` the
length of the input), `retain`/`retain_mut` and `append` (at most `2 * (final size)`), the conversion from the other
queue type (`2 * n`), and `extend` when it chooses to rebuild (`2 * (final size)`).  For `append` the counter of the
result starts from that of the larger of the two queues (they are swapped first), hence the `max`. -/
theorem C05_pq_bulk_linear :
    (∀ (v : Array (Item × P)) (s' : Store P), MaxQ.fromVec v = .ok s' → s'.ticks ≤ 2 * s'.size ∧ s'.ticks ≤ 2 * v.size) ∧
    (∀ (lo : Nat) (v : Array (Item × P)) (s' : Store P), MaxQ.fromIter lo v = .ok s' → s'.ticks ≤ 2 * s'.size ∧ s'.ticks ≤ 2 * v.size) ∧
    (∀ (hint : Option Nat) (v : Array (Item × P)) (s' : Store P), MaxQ.deserialize hint v = .ok s' → s'.ticks ≤ 2 * s'.size ∧ s'.ticks ≤ 2 * v.size) ∧
    (∀ (s s' : Store P) f, MaxQ.retainMut s f = .ok s' → s'.ticks ≤ s.ticks + 2 * s'.size) ∧
    (∀ (s s' : Store P), MaxQ.ofStore s = .ok s' → s'.ticks ≤ s.ticks + 2 * s.size) ∧
    (∀ (s o s' o' : Store P), MaxQ.append s o = .ok (s', o') → s'.ticks ≤ max s.ticks o.ticks + 2 * s'.size) ∧
    (∀ (s s' : Store P) xs, MaxQ.heapBuild (s.extend xs) = .ok s' →
        s'.ticks ≤ s.ticks + 2 * s'.size ∧ s'.size ≤ s.size + xs.size) := by
  refine ⟨fun v s' h => ?_, fun lo v s' h => ?_, fun hint v s' h => ?_, fun s s' f h => MaxQ.retainMut_cost h,
    fun s s' h => (MaxQ.ofStore_cost h).2, fun s o s' o' h => MaxQ.append_cost h,
    fun s s' xs h => ⟨(MaxQ.extend_rebuild_cost h).2, (MaxQ.extend_rebuild_cost h).1⟩⟩
  · obtain ⟨a, b⟩ := MaxQ.fromVec_cost h; exact ⟨b, by omega⟩
  · obtain ⟨a, b⟩ := MaxQ.fromIter_cost h; exact ⟨b, by omega⟩
  · obtain ⟨a, b⟩ := MaxQ.deserialize_cost h; exact ⟨b, by omega⟩

example : ticksOf' (MaxQ.fromVec #[((⟨1, 0⟩ : Item), 5), (⟨2, 0⟩, 3), (⟨3, 0⟩, 9), (⟨4, 0⟩, 7)]) = some 3 := by
  decide +kernel

/-- `extend` as a whole: linear when it rebuilds, at most `k * 3 * log2 (final size)` when it pushes its `k` elements
one by one -/
theorem C05_pq_extend {s s' : Store P} {lo : Nat} {xs : Array (Item × P)} (hq : s.QpLt)
    (h : MaxQ.extend s lo xs = .ok s') :
    s'.ticks ≤ s.ticks + max (2 * s'.size) (xs.size * (3 * Nat.log2 s'.size)) := (MaxQ.extend_cost hq h).2

example : ticksOf' (MaxQ.extend s3 2 #[((⟨4, 0⟩ : Item), 7), (⟨5, 0⟩, 1)]) = some 3 := by decide +kernel

end PQ

section DPQ
variable {P : Type} [LT P] [DecidableLT P]
open C05

/-! ## `DoublePriorityQueue` (min-max heap)

One round of trickle-down costs at most 7 comparisons (at most 5 to select among the ≤ 6 candidates, one against
the node, one against the parent of the grandchild) and descends two levels; one round of bubble-up costs one
comparison and climbs two levels.  The sharper forms `7 * ((log2 n + 1) / 2)` etc. are in `PQ/Lemmas/Cost.lean`
(`DQ.heapify_cost_log`, `DQ.upHeapify_cost`, `DQ.popMin_cost`, …); below they are rounded to `c1 * log2 n + c2`. -/

/-- a small well-formed min-max heap: priorities 1 | 9 8 | 3 5 4 at positions 0..5 -/
def C05.d6 : Store Nat :=
  { map := #[(⟨1, 0⟩, 1), (⟨2, 0⟩, 9), (⟨3, 0⟩, 8), (⟨4, 0⟩, 3), (⟨5, 0⟩, 5), (⟨6, 0⟩, 4)],
    heap := #[0, 1, 2, 3, 4, 5], qp := #[0, 1, 2, 3, 4, 5], size := 6 }

theorem C05.d6_qpLt : C05.d6.QpLt := Store.qpLt_of_all (by decide +kernel)

/-- `push`: at most `8 * log2 (n + 1) + 8` comparisons (a new item: at most `log2 (n + 1) / 2 + 1`) -/
theorem C05_dpq_push {s s' : Store P} {it : Item} {p : P} {r : Option P} (hq : s.QpLt)
    (h : DQ.push s it p = .ok (s', r)) : s'.ticks ≤ s.ticks + 8 * Nat.log2 (s.size + 1) + 8 := by
  obtain ⟨a, _, c⟩ := DQ.push_cost hq h
  have := log2_mono a; omega

example : ticksOf (DQ.push d6 ⟨7, 0⟩ 0) = some 2 := by decide +kernel
example : ticksOf (DQ.push d6 ⟨4, 0⟩ 10) = some 3 := by decide +kernel

/-- `pop_min`: at most `4 * log2 n + 4` comparisons (sharp form: `7 * ((log2 (n - 1) + 1) / 2)`) -/
theorem C05_dpq_popMin {s s' : Store P} {r : Option (Item × P)} (h : DQ.popMin s = .ok (s', r)) :
    s'.ticks ≤ s.ticks + 4 * Nat.log2 s.size + 4 := by
  obtain ⟨a, b⟩ := DQ.popMin_cost h
  have := log2_mono (show s'.size ≤ s.size by omega); omega

example : ticksOf (DQ.popMin d6) = some 5 := by decide +kernel

/-- `pop_max`: at most `4 * log2 n + 5` comparisons (one of them in `find_max`) -/
theorem C05_dpq_popMax {s s' : Store P} {r : Option (Item × P)} (h : DQ.popMax s = .ok (s', r)) :
    s'.ticks ≤ s.ticks + 4 * Nat.log2 s.size + 5 := by
  obtain ⟨a, b⟩ := DQ.popMax_cost h
  have := log2_mono (show s'.size ≤ s.size by omega); omega

example : ticksOf (DQ.popMax d6) = some 3 := by decide +kernel

/-- `pop_min_if`: at most `4 * log2 n + 4` comparisons -/
theorem C05_dpq_popMinIf {s s' : Store P} {f : Item → P → Bool × Item × P} {r : Option (Item × P)}
    (h : DQ.popMinIf s f = .ok (s', r)) : s'.ticks ≤ s.ticks + 4 * Nat.log2 s.size + 4 := by
  obtain ⟨a, b⟩ := DQ.popMinIf_cost h
  have := log2_mono a; omega

example : ticksOf (DQ.popMinIf d6 (fun it p => (true, it, p))) = some 5 := by decide +kernel

/-- `pop_max_if`: at most `7 * log2 n + 9` comparisons (`find_max`, then a full `up_heapify`) -/
theorem C05_dpq_popMaxIf {s s' : Store P} {f : Item → P → Bool × Item × P} {r : Option (Item × P)}
    (h : DQ.popMaxIf s f = .ok (s', r)) : s'.ticks ≤ s.ticks + 7 * Nat.log2 s.size + 9 := by
  obtain ⟨a, b⟩ := DQ.popMaxIf_cost h
  have := log2_mono a; omega

example : ticksOf (DQ.popMaxIf d6 (fun it p => (true, it, p))) = some 4 := by decide +kernel

/-- `change_priority`: at most `8 * log2 n + 8` comparisons -/
theorem C05_dpq_changePriority {s s' : Store P} {k : Nat} {p : P} {r : Option P} (hq : s.QpLt)
    (h : DQ.changePriority s k p = .ok (s', r)) : s'.ticks ≤ s.ticks + 8 * Nat.log2 s.size + 8 :=
  (DQ.changePriority_cost hq h).2

example : ticksOf (DQ.changePriority d6 1 7) = some 6 := by decide +kernel

/-- `change_priority_by`: at most `8 * log2 n + 8` comparisons -/
theorem C05_dpq_changePriorityBy {s s' : Store P} {k : Nat} {g : P → P} {r : Bool} (hq : s.QpLt)
    (h : DQ.changePriorityBy s k g = .ok (s', r)) : s'.ticks ≤ s.ticks + 8 * Nat.log2 s.size + 8 :=
  (DQ.changePriorityBy_cost hq h).2

example : ticksOf (DQ.changePriorityBy d6 1 (fun x => x + 6)) = some 6 := by decide +kernel

/-- `remove`: at most `8 * log2 n + 8` comparisons; no hypothesis at all -/
theorem C05_dpq_remove {s s' : Store P} {k : Nat} {r : Option (Item × P)}
    (h : DQ.remove s k = .ok (s', r)) : s'.ticks ≤ s.ticks + 8 * Nat.log2 s.size + 8 := by
  obtain ⟨a, b⟩ := DQ.remove_cost h
  have := log2_mono a; omega

example : ticksOf (DQ.remove d6 2) = some 3 := by decide +kernel

/-- `push_increase`: one comparison with the stored priority, then possibly a `push` -/
theorem C05_dpq_pushIncrease {s s' : Store P} {it : Item} {p : P} {r : Option P} (hq : s.QpLt)
    (h : DQ.pushIncrease s it p = .ok (s', r)) : s'.ticks ≤ s.ticks + 8 * Nat.log2 (s.size + 1) + 9 := by
  obtain ⟨a, _, c⟩ := DQ.pushIncrease_cost hq h
  have := log2_mono a; omega

example : ticksOf (DQ.pushIncrease d6 ⟨4, 0⟩ 10) = some 4 := by decide +kernel

/-- `push_decrease`: one comparison with the stored priority, then possibly a `push` -/
theorem C05_dpq_pushDecrease {s s' : Store P} {it : Item} {p : P} {r : Option P} (hq : s.QpLt)
    (h : DQ.pushDecrease s it p = .ok (s', r)) : s'.ticks ≤ s.ticks + 8 * Nat.log2 (s.size + 1) + 9 := by
  obtain ⟨a, _, c⟩ := DQ.pushDecrease_cost hq h
  have := log2_mono a; omega

example : ticksOf (DQ.pushDecrease d6 ⟨2, 0⟩ 0) = some 9 := by decide +kernel

/-- `peek_min`, `len`, `is_empty`, `get`, `get_priority` are pure reads (no store in their result type, value independent
of the counter); `peek_min_mut` and `get_mut` return a store with the counter unchanged. -/
theorem C05_dpq_peek_free (s : Store P) (k : Nat) :
    DQ.peekMin (s.tick k) = DQ.peekMin s ∧ (s.tick k).len = s.len ∧ (s.tick k).isEmpty = s.isEmpty ∧
    (∀ key, (s.tick k).get key = s.get key) ∧ (∀ key, (s.tick k).getPriority key = s.getPriority key) ∧
    (∀ w s' r, DQ.peekMinMutWrite s w = .ok (s', r) → s'.ticks = s.ticks) ∧
    (∀ key w, (s.getMutWrite key w).1.ticks = s.ticks) := by
  refine ⟨rfl, rfl, rfl, fun _ => rfl, fun _ => rfl, fun w s' r h => (DQ.peekMinMutWrite_cost h).1, fun key w => ?_⟩
  unfold Store.getMutWrite; split <;> rfl

example : (DQ.peekMin d6).toOption = some (some (⟨1, 0⟩, 1)) := by decide +kernel

/-- `peek_max` (and `peek_max_mut`): at most one comparison -/
theorem C05_dpq_peekMax_le_one {s s' : Store P} {r : Option (Item × P)} :
    (DQ.peekMax s = .ok (s', r) → s'.ticks ≤ s.ticks + 1) ∧
    (∀ w, DQ.peekMaxMutWrite s w = .ok (s', r) → s'.ticks ≤ s.ticks + 1) :=
  ⟨fun h => (DQ.peekMax_cost h).2, fun _ h => (DQ.peekMaxMutWrite_cost h).1⟩

example : ticksOf (DQ.peekMax d6) = some 1 := by decide +kernel

/-- **`heap_build` of the min-max heap is linear** (also what dropping `iter_mut` runs): at most `7 * n` comparisons -/
theorem C05_dpq_heapBuild_linear {s s' : Store P} (h : DQ.heapBuild s = .ok s') :
    s'.ticks ≤ s.ticks + 7 * s.size := (DQ.heapBuild_cost h).2

example : ticksOf' (DQ.heapBuild { d6 with heap := #[5, 4, 3, 2, 1, 0], qp := #[5, 4, 3, 2, 1, 0] }) = some 9 := by
  decide +kernel

/-- **the bulk operations are linear** (same list as for `PriorityQueue`, constant 7 instead of 2) -/
theorem C05_dpq_bulk_linear :
    (∀ (v : Array (Item × P)) (s' : Store P), DQ.fromVec v = .ok s' → s'.ticks ≤ 7 * s'.size ∧ s'.ticks ≤ 7 * v.size) ∧
    (∀ (lo : Nat) (v : Array (Item × P)) (s' : Store P), DQ.fromIter lo v = .ok s' → s'.ticks ≤ 7 * s'.size ∧ s'.ticks ≤ 7 * v.size) ∧
    (∀ (hint : Option Nat) (v : Array (Item × P)) (s' : Store P), DQ.deserialize hint v = .ok s' → s'.ticks ≤ 7 * s'.size ∧ s'.ticks ≤ 7 * v.size) ∧
    (∀ (s s' : Store P) f, DQ.retainMut s f = .ok s' → s'.ticks ≤ s.ticks + 7 * s'.size) ∧
    (∀ (s s' : Store P), DQ.ofStore s = .ok s' → s'.ticks ≤ s.ticks + 7 * s.size) ∧
    (∀ (s o s' o' : Store P), DQ.append s o = .ok (s', o') → s'.ticks ≤ max s.ticks o.ticks + 7 * s'.size) ∧
    (∀ (s s' : Store P) xs, DQ.heapBuild (s.extend xs) = .ok s' →
        s'.ticks ≤ s.ticks + 7 * s'.size ∧ s'.size ≤ s.size + xs.size) := by
  refine ⟨fun v s' h => ?_, fun lo v s' h => ?_, fun hint v s' h => ?_, fun s s' f h => DQ.retainMut_cost h,
    fun s s' h => (DQ.ofStore_cost h).2, fun s o s' o' h => DQ.append_cost h,
    fun s s' xs h => ⟨(DQ.extend_rebuild_cost h).2, (DQ.extend_rebuild_cost h).1⟩⟩
  · obtain ⟨a, b⟩ := DQ.fromVec_cost h; exact ⟨b, by omega⟩
  · obtain ⟨a, b⟩ := DQ.fromIter_cost h; exact ⟨b, by omega⟩
  · obtain ⟨a, b⟩ := DQ.deserialize_cost h; exact ⟨b, by omega⟩

example : ticksOf' (DQ.fromVec #[((⟨1, 0⟩ : Item), 5), (⟨2, 0⟩, 3), (⟨3, 0⟩, 9), (⟨4, 0⟩, 7)]) = some 5 := by
  decide +kernel

/-- `extend` as a whole: linear when it rebuilds, at most `k * (8 * log2 (final size) + 8)` when it pushes its `k`
elements one by one -/
theorem C05_dpq_extend {s s' : Store P} {lo : Nat} {xs : Array (Item × P)} (hq : s.QpLt)
    (h : DQ.extend s lo xs = .ok s') :
    s'.ticks ≤ s.ticks + max (7 * s'.size) (xs.size * (8 * Nat.log2 s'.size + 8)) := (DQ.extend_cost hq h).2

example : ticksOf' (DQ.extend d6 2 #[((⟨7, 0⟩ : Item), 7), (⟨8, 0⟩, 0)]) = some 4 := by decide +kernel

end DPQ
end PQ

#print axioms PQ.C05_pq_push
#print axioms PQ.C05_pq_pop
#print axioms PQ.C05_pq_popIf
#print axioms PQ.C05_pq_changePriority
#print axioms PQ.C05_pq_changePriorityBy
#print axioms PQ.C05_pq_remove
#print axioms PQ.C05_pq_pushIncrease
#print axioms PQ.C05_pq_pushDecrease
#print axioms PQ.C05_pq_peek_free
#print axioms PQ.C05_pq_heapBuild_linear
#print axioms PQ.C05_pq_bulk_linear
#print axioms PQ.C05_pq_extend
#print axioms PQ.C05_dpq_push
#print axioms PQ.C05_dpq_popMin
#print axioms PQ.C05_dpq_popMax
#print axioms PQ.C05_dpq_popMinIf
#print axioms PQ.C05_dpq_popMaxIf
#print axioms PQ.C05_dpq_changePriority
#print axioms PQ.C05_dpq_changePriorityBy
#print axioms PQ.C05_dpq_remove
#print axioms PQ.C05_dpq_pushIncrease
#print axioms PQ.C05_dpq_pushDecrease
#print axioms PQ.C05_dpq_peek_free
#print axioms PQ.C05_dpq_peekMax_le_one
#print axioms PQ.C05_dpq_heapBuild_linear
#print axioms PQ.C05_dpq_bulk_linear
#print axioms PQ.C05_dpq_extend
