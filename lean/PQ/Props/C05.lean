import PQ.Lemmas.Cost
/-!
# C05 — comparison counts

"On a queue of n elements push, pop (either end), pop_if, change_priority, change_priority_by, push_increase,
push_decrease and remove perform a number of priority comparisons bounded by a constant multiple of log2(n) plus a
constant; peek, peek_min, len and the lookups perform none and peek_max at most one.  The bulk operations that
re-establish order (construction from a vector or iterator, append, retain, dropping iter_mut, conversions) perform
O(n) comparisons."

The ghost field `Store.ticks` is incremented by the model exactly where the Rust code calls `Ord::cmp` on two
priorities.  Every theorem below has the form

  *for every store `s` and all arguments, if the operation returns `.ok (s', _)` then
  `s'.ticks ≤ s.ticks + <explicit bound in Nat.log2 / size>`*.

No well-formedness is assumed.  The only hypothesis that appears (for `push`, `push_increase`, `push_decrease`,
`change_priority`, `change_priority_by`, and the per-element strategy of `extend`) is `s.QpLt` — "every position
recorded in the `qp` table is below `size`" — which is one clause of `Store.WF` (`Store.WF.qpLt`): these operations
start their sift-up at the *recorded* position of an existing item, and on an arbitrary (ill-formed) store that
position could be arbitrarily deep.  The hypothesis-free general forms (`…_cost_gen`, bound `B + 2 * log2 size`
with `B` any bound of the level of the recorded positions) are in `PQ/Lemmas/Cost.lean`.

`n` below is `s.size` *before* the operation unless stated otherwise.
-/
namespace PQ
open Arith

/-- a small well-formed max-heap (priorities 9, 5, 3 at positions 0, 1, 2) used for the non-vacuity examples -/
def C05.s3 : Store Nat :=
  { map := #[(⟨1, 0⟩, 5), (⟨2, 0⟩, 3), (⟨3, 0⟩, 9)], heap := #[2, 0, 1], qp := #[1, 2, 0], size := 3 }

/-- executable form of `QpLt` (for the examples) -/
theorem Store.qpLt_of_all {P : Type} {s : Store P} (h : s.qp.all (fun p => p < s.size) = true) : s.QpLt := by
  intro i p hi
  rw [Array.all_eq_true] at h
  have hlt := lt_size_of_getElem? hi
  have := h i hlt
  have e : s.qp[i] = p := (Array.getElem?_eq_some_iff.1 hi).2
  simpa [e] using this

theorem C05.s3_qpLt : C05.s3.QpLt := Store.qpLt_of_all (by decide +kernel)

/-- the comparison count of a successful run (for the examples) -/
def C05.ticksOf {P α : Type} (x : R (Store P × α)) : Option Nat := x.toOption.map (·.1.ticks)
def C05.ticksOf' {P : Type} (x : R (Store P)) : Option Nat := x.toOption.map (·.ticks)

section PQ
variable {P : Type} [LT P] [DecidableLT P]
open C05

/-! ## `PriorityQueue` (binary max-heap) -/

/-- `push`: at most `3 * log2 (n + 1)` comparisons (a new item: at most `log2 (n + 1)`, see `MaxQ.push_cost_gen`) -/
theorem C05_pq_push {s s' : Store P} {it : Item} {p : P} {r : Option P} (hq : s.QpLt)
    (h : MaxQ.push s it p = .ok (s', r)) : s'.ticks ≤ s.ticks + 3 * Nat.log2 (s.size + 1) := by
  obtain ⟨a, _, c⟩ := MaxQ.push_cost hq h
  have := log2_mono a; omega

example : ticksOf (MaxQ.push s3 ⟨4, 0⟩ 7) = some 2 := by decide +kernel
example : ticksOf (MaxQ.push s3 ⟨2, 0⟩ 10) = some 3 := by decide +kernel

/-- `pop`: at most `2 * log2 n` comparisons (indeed `2 * log2 (n - 1)`) -/
theorem C05_pq_pop {s s' : Store P} {r : Option (Item × P)} (h : MaxQ.pop s = .ok (s', r)) :
    s'.ticks ≤ s.ticks + 2 * Nat.log2 s.size := by
  obtain ⟨a, b⟩ := MaxQ.pop_cost h
  have := log2_mono (show s'.size ≤ s.size by omega); omega

example : ticksOf (MaxQ.pop s3) = some 1 := by decide +kernel

/-- `pop_if`: at most `2 * log2 n` comparisons -/
theorem C05_pq_popIf {s s' : Store P} {f : Item → P → Bool × Item × P} {r : Option (Item × P)}
    (h : MaxQ.popIf s f = .ok (s', r)) : s'.ticks ≤ s.ticks + 2 * Nat.log2 s.size := by
  obtain ⟨a, b⟩ := MaxQ.popIf_cost h
  have := log2_mono a; omega

example : ticksOf (MaxQ.popIf s3 (fun it p => (true, it, p))) = some 1 := by decide +kernel

/-- `change_priority`: at most `3 * log2 n` comparisons -/
theorem C05_pq_changePriority {s s' : Store P} {k : Nat} {p : P} {r : Option P} (hq : s.QpLt)
    (h : MaxQ.changePriority s k p = .ok (s', r)) : s'.ticks ≤ s.ticks + 3 * Nat.log2 s.size :=
  (MaxQ.changePriority_cost hq h).2

example : ticksOf (MaxQ.changePriority s3 2 10) = some 3 := by decide +kernel

/-- `change_priority_by`: at most `3 * log2 n` comparisons -/
theorem C05_pq_changePriorityBy {s s' : Store P} {k : Nat} {g : P → P} {r : Bool} (hq : s.QpLt)
    (h : MaxQ.changePriorityBy s k g = .ok (s', r)) : s'.ticks ≤ s.ticks + 3 * Nat.log2 s.size :=
  (MaxQ.changePriorityBy_cost hq h).2

example : ticksOf (MaxQ.changePriorityBy s3 3 (fun _ => 0)) = some 2 := by decide +kernel

/-- `remove`: at most `3 * log2 n` comparisons; no hypothesis at all (`remove` checks the position itself) -/
theorem C05_pq_remove {s s' : Store P} {k : Nat} {r : Option (Item × P)}
    (h : MaxQ.remove s k = .ok (s', r)) : s'.ticks ≤ s.ticks + 3 * Nat.log2 s.size := by
  obtain ⟨a, b⟩ := MaxQ.remove_cost h
  have := log2_mono a; omega

example : ticksOf (MaxQ.remove s3 3) = some 1 := by decide +kernel

/-- `push_increase`: one comparison with the stored priority, then possibly a `push` -/
theorem C05_pq_pushIncrease {s s' : Store P} {it : Item} {p : P} {r : Option P} (hq : s.QpLt)
    (h : MaxQ.pushIncrease s it p = .ok (s', r)) : s'.ticks ≤ s.ticks + 3 * Nat.log2 (s.size + 1) + 1 := by
  obtain ⟨a, _, c⟩ := MaxQ.pushIncrease_cost hq h
  have := log2_mono a; omega

example : ticksOf (MaxQ.pushIncrease s3 ⟨2, 0⟩ 10) = some 4 := by decide +kernel

/-- `push_decrease`: one comparison with the stored priority, then possibly a `push` -/
theorem C05_pq_pushDecrease {s s' : Store P} {it : Item} {p : P} {r : Option P} (hq : s.QpLt)
    (h : MaxQ.pushDecrease s it p = .ok (s', r)) : s'.ticks ≤ s.ticks + 3 * Nat.log2 (s.size + 1) + 1 := by
  obtain ⟨a, _, c⟩ := MaxQ.pushDecrease_cost hq h
  have := log2_mono a; omega

example : ticksOf (MaxQ.pushDecrease s3 ⟨3, 0⟩ 1) = some 3 := by decide +kernel

/-- `peek`, `len`, `is_empty`, `get`, `get_priority` are pure reads: in the model they have no store in their result
type (so there is no counter they could advance) and their value does not depend on the counter; `peek_mut` and
`get_mut` (with the caller's write) return a store whose counter is unchanged. -/
theorem C05_pq_peek_free (s : Store P) (k : Nat) :
    MaxQ.peek (s.tick k) = MaxQ.peek s ∧ (s.tick k).len = s.len ∧ (s.tick k).isEmpty = s.isEmpty ∧
    (∀ key, (s.tick k).get key = s.get key) ∧ (∀ key, (s.tick k).getPriority key = s.getPriority key) ∧
    (∀ w s' r, MaxQ.peekMutWrite s w = .ok (s', r) → s'.ticks = s.ticks) ∧
    (∀ key w, (s.getMutWrite key w).1.ticks = s.ticks) := by
  refine ⟨rfl, rfl, rfl, fun _ => rfl, fun _ => rfl, fun w s' r h => (MaxQ.peekMutWrite_cost h).1, fun key w => ?_⟩
  unfold Store.getMutWrite; split <;> rfl

example : MaxQ.peek s3 = some (⟨3, 0⟩, 9) := by decide +kernel

/-- **`heap_build` is linear** (this is also what dropping `iter_mut` runs): at most `2 * n` comparisons -/
theorem C05_pq_heapBuild_linear {s s' : Store P} (h : MaxQ.heapBuild s = .ok s') :
    s'.ticks ≤ s.ticks + 2 * s.size := (MaxQ.heapBuild_cost h).2

example : ticksOf' (MaxQ.heapBuild { s3 with heap := #[1, 0, 2], qp := #[1, 0, 2] }) = some 2 := by decide +kernel

/-- **the bulk operations are linear**: `from_vec`, `from_iter`, deserialisation (at most `2 * len` comparisons, `len` the
length of the input), `retain`/`retain_mut` and `append` (at most `2 * (final size)`), the conversion from the other
queue type (`2 * n`), and `extend` when it chooses to rebuild (`2 * (final size)`).  For `append` the counter of the
result starts from that of the larger of the two queues (they are swapped first), hence the `max`. -/
theorem C05_pq_bulk_linear :
    (∀ (v : Array (Item × P)) (s' : Store P), MaxQ.fromVec v = .ok s' → s'.ticks ≤ 2 * s'.size ∧ s'.ticks ≤ 2 * v.size) ∧
    (∀ (v : Array (Item × P)) (s' : Store P), MaxQ.fromIter v = .ok s' → s'.ticks ≤ 2 * s'.size ∧ s'.ticks ≤ 2 * v.size) ∧
    (∀ (v : Array (Item × P)) (s' : Store P), MaxQ.deserialize v = .ok s' → s'.ticks ≤ 2 * s'.size ∧ s'.ticks ≤ 2 * v.size) ∧
    (∀ (s s' : Store P) f, MaxQ.retainMut s f = .ok s' → s'.ticks ≤ s.ticks + 2 * s'.size) ∧
    (∀ (s s' : Store P), MaxQ.ofStore s = .ok s' → s'.ticks ≤ s.ticks + 2 * s.size) ∧
    (∀ (s o s' o' : Store P), MaxQ.append s o = .ok (s', o') → s'.ticks ≤ max s.ticks o.ticks + 2 * s'.size) ∧
    (∀ (s s' : Store P) xs, MaxQ.heapBuild (s.extend xs) = .ok s' →
        s'.ticks ≤ s.ticks + 2 * s'.size ∧ s'.size ≤ s.size + xs.size) := by
  refine ⟨fun v s' h => ?_, fun v s' h => ?_, fun v s' h => ?_, fun s s' f h => MaxQ.retainMut_cost h,
    fun s s' h => (MaxQ.ofStore_cost h).2, fun s o s' o' h => MaxQ.append_cost h,
    fun s s' xs h => ⟨(MaxQ.extend_rebuild_cost h).2, (MaxQ.extend_rebuild_cost h).1⟩⟩
  · obtain ⟨a, b⟩ := MaxQ.fromVec_cost h; exact ⟨b, by omega⟩
  · obtain ⟨a, b⟩ := MaxQ.fromIter_cost h; exact ⟨b, by omega⟩
  · obtain ⟨a, b⟩ := MaxQ.deserialize_cost h; exact ⟨b, by omega⟩

example : ticksOf' (MaxQ.fromVec #[((⟨1, 0⟩ : Item), 5), (⟨2, 0⟩, 3), (⟨3, 0⟩, 9), (⟨4, 0⟩, 7)]) = some 3 := by
  decide +kernel

/-- `extend` as a whole: linear when it rebuilds, at most `k * 3 * log2 (final size)` when it pushes its `k` elements
one by one -/
theorem C05_pq_extend {s s' : Store P} {lo : Nat} {xs : Array (Item × P)} (hq : s.QpLt)
    (h : MaxQ.extend s lo xs = .ok s') :
    s'.ticks ≤ s.ticks + max (2 * s'.size) (xs.size * (3 * Nat.log2 s'.size)) := (MaxQ.extend_cost hq h).2

example : ticksOf' (MaxQ.extend s3 2 #[((⟨4, 0⟩ : Item), 7), (⟨5, 0⟩, 1)]) = some 3 := by decide +kernel

end PQ
end PQ

#print axioms PQ.C05_pq_push
#print axioms PQ.C05_pq_pop
#print axioms PQ.C05_pq_popIf
#print axioms PQ.C05_pq_changePriority
#print axioms PQ.C05_pq_changePriorityBy
#print axioms PQ.C05_pq_remove
#print axioms PQ.C05_pq_pushIncrease
#print axioms PQ.C05_pq_pushDecrease
#print axioms PQ.C05_pq_peek_free
#print axioms PQ.C05_pq_heapBuild_linear
#print axioms PQ.C05_pq_bulk_linear
#print axioms PQ.C05_pq_extend
