import PQ.Lemmas.Contents
/-!
# C11 — `push_increase` and `push_decrease` only move a priority in their direction

"push_increase inserts an absent item (returning None), raises the priority of a present item iff the offered priority
is strictly greater (returning the old priority), and otherwise leaves the queue untouched and returns the offered
priority; push_decrease is the mirror image.  In every case the queue stays correctly ordered and no other element
changes."

For both queue kinds, under the queue's invariant (`MaxQ.Inv = WF ∧ MaxHeap`, `DQ.Inv = WF ∧ MinMaxHeap`), one theorem
per operation with exactly the three cases of the statement.  In every case: no fault, the invariant holds afterwards,
every other key is unchanged.  In the "no change" case the store is the input store up to the ghost comparison counter
(`s' = s.tick`, hence `Store.Same s' s`: map, heap, index table and size are EQUAL) and the OFFERED priority is
returned.  A present item keeps its stored item value (C12); an absent one is stored as offered.
`C11_pushIncrease_step` / `C11_pushDecrease_step` restate the contents half for `step` on a queue of either kind that
is only well-formed.
-/
set_option linter.unusedSectionVars false
set_option linter.unusedVariables false
namespace PQ
open Store
variable {P : Type} [LT P] [DecidableLT P] [LE P] [Std.IsLinearPreorder P] [Std.LawfulOrderLT P]

theorem C11_same_tick (s : Store P) : Store.Same s.tick s := ⟨rfl, rfl, rfl, rfl⟩

/-- **`PriorityQueue::push_increase`** -/
theorem C11_pushIncrease_pq {s : Store P} (h : MaxQ.Inv s) (it : Item) (p : P) :
    ∃ s' r, MaxQ.pushIncrease s it p = .ok (s', r) ∧ MaxQ.Inv s' ∧
      (∀ k, k ≠ it.key → s'.abs k = s.abs k) ∧
      (s.abs it.key = none → r = none ∧ s'.abs it.key = some (it, p) ∧ s'.size = s.size + 1) ∧
      (∀ it0 p0, s.abs it.key = some (it0, p0) → p0 < p →
        r = some p0 ∧ s'.abs it.key = some (it0, p) ∧ s'.size = s.size) ∧
      (∀ it0 p0, s.abs it.key = some (it0, p0) → ¬ p0 < p →
        r = some p ∧ s' = s.tick ∧ Store.Same s' s ∧ s'.abs = s.abs) := by
  obtain ⟨h0, h1, h2⟩ := MaxQ.pushIncrease_spec h it p
  cases ha : s.abs it.key with
  | none =>
    obtain ⟨s', e1, e2, e3, e4⟩ := h0 ha
    refine ⟨s', none, e1, e2, fun k hk => by rw [e3]; exact cont_absPush_ne hk,
      fun _ => ⟨rfl, by rw [e3, cont_absPush_self, ha]; rfl, e4⟩, fun _ _ hc => (by cases hc), fun _ _ hc => (by cases hc)⟩
  | some e0 =>
    obtain ⟨it0, p0⟩ := e0
    by_cases hlt : p0 < p
    · obtain ⟨s', e1, e2, e3, e4⟩ := h1 (it0, p0) ha hlt
      refine ⟨s', some p0, e1, e2, fun k hk => by rw [e3]; exact cont_absPush_ne hk, fun hc => (by cases hc),
        fun it1 p1 hc _ => ?_, fun it1 p1 hc hn => ?_⟩
      · cases hc; exact ⟨rfl, by rw [e3, cont_absPush_self, ha]; rfl, e4⟩
      · cases hc; exact absurd hlt hn
    · obtain ⟨e1, e2, e3⟩ := h2 (it0, p0) ha hlt
      refine ⟨s.tick, some p, e1, e2, fun _ _ => rfl, fun hc => (by cases hc), fun it1 p1 hc hl => ?_,
        fun it1 p1 hc _ => ⟨rfl, rfl, e3, rfl⟩⟩
      cases hc; exact absurd hl hlt

/-- **`PriorityQueue::push_decrease`**: the mirror image -/
theorem C11_pushDecrease_pq {s : Store P} (h : MaxQ.Inv s) (it : Item) (p : P) :
    ∃ s' r, MaxQ.pushDecrease s it p = .ok (s', r) ∧ MaxQ.Inv s' ∧
      (∀ k, k ≠ it.key → s'.abs k = s.abs k) ∧
      (s.abs it.key = none → r = none ∧ s'.abs it.key = some (it, p) ∧ s'.size = s.size + 1) ∧
      (∀ it0 p0, s.abs it.key = some (it0, p0) → p < p0 →
        r = some p0 ∧ s'.abs it.key = some (it0, p) ∧ s'.size = s.size) ∧
      (∀ it0 p0, s.abs it.key = some (it0, p0) → ¬ p < p0 →
        r = some p ∧ s' = s.tick ∧ Store.Same s' s ∧ s'.abs = s.abs) := by
  obtain ⟨h0, h1, h2⟩ := MaxQ.pushDecrease_spec h it p
  cases ha : s.abs it.key with
  | none =>
    obtain ⟨s', e1, e2, e3, e4⟩ := h0 ha
    refine ⟨s', none, e1, e2, fun k hk => by rw [e3]; exact cont_absPush_ne hk,
      fun _ => ⟨rfl, by rw [e3, cont_absPush_self, ha]; rfl, e4⟩, fun _ _ hc => (by cases hc), fun _ _ hc => (by cases hc)⟩
  | some e0 =>
    obtain ⟨it0, p0⟩ := e0
    by_cases hlt : p < p0
    · obtain ⟨s', e1, e2, e3, e4⟩ := h1 (it0, p0) ha hlt
      refine ⟨s', some p0, e1, e2, fun k hk => by rw [e3]; exact cont_absPush_ne hk, fun hc => (by cases hc),
        fun it1 p1 hc _ => ?_, fun it1 p1 hc hn => ?_⟩
      · cases hc; exact ⟨rfl, by rw [e3, cont_absPush_self, ha]; rfl, e4⟩
      · cases hc; exact absurd hlt hn
    · obtain ⟨e1, e2, e3⟩ := h2 (it0, p0) ha hlt
      refine ⟨s.tick, some p, e1, e2, fun _ _ => rfl, fun hc => (by cases hc), fun it1 p1 hc hl => ?_,
        fun it1 p1 hc _ => ⟨rfl, rfl, e3, rfl⟩⟩
      cases hc; exact absurd hl hlt

/-- **`DoublePriorityQueue::push_increase`** -/
theorem C11_pushIncrease_dpq {s : Store P} (h : DQ.Inv s) (it : Item) (p : P) :
    ∃ s' r, DQ.pushIncrease s it p = .ok (s', r) ∧ DQ.Inv s' ∧
      (∀ k, k ≠ it.key → s'.abs k = s.abs k) ∧
      (s.abs it.key = none → r = none ∧ s'.abs it.key = some (it, p) ∧ s'.size = s.size + 1) ∧
      (∀ it0 p0, s.abs it.key = some (it0, p0) → p0 < p →
        r = some p0 ∧ s'.abs it.key = some (it0, p) ∧ s'.size = s.size) ∧
      (∀ it0 p0, s.abs it.key = some (it0, p0) → ¬ p0 < p →
        r = some p ∧ s' = s.tick ∧ Store.Same s' s ∧ s'.abs = s.abs) := by
  obtain ⟨h0, h1, h2⟩ := DQ.pushIncrease_spec h it p
  cases ha : s.abs it.key with
  | none =>
    obtain ⟨s', e1, e2, e3, e4⟩ := h0 ha
    refine ⟨s', none, e1, e2, fun k hk => by rw [e3]; exact cont_absPush_ne hk,
      fun _ => ⟨rfl, by rw [e3, cont_absPush_self, ha]; rfl, e4⟩, fun _ _ hc => (by cases hc), fun _ _ hc => (by cases hc)⟩
  | some e0 =>
    obtain ⟨it0, p0⟩ := e0
    by_cases hlt : p0 < p
    · obtain ⟨s', e1, e2, e3, e4⟩ := h1 (it0, p0) ha hlt
      refine ⟨s', some p0, e1, e2, fun k hk => by rw [e3]; exact cont_absPush_ne hk, fun hc => (by cases hc),
        fun it1 p1 hc _ => ?_, fun it1 p1 hc hn => ?_⟩
      · cases hc; exact ⟨rfl, by rw [e3, cont_absPush_self, ha]; rfl, e4⟩
      · cases hc; exact absurd hlt hn
    · have e1 := h2 (it0, p0) ha hlt
      refine ⟨s.tick, some p, e1, DQ.inv_tick h 1, fun _ _ => rfl, fun hc => (by cases hc), fun it1 p1 hc hl => ?_,
        fun it1 p1 hc _ => ⟨rfl, rfl, C11_same_tick s, rfl⟩⟩
      cases hc; exact absurd hl hlt

/-- **`DoublePriorityQueue::push_decrease`**: the mirror image -/
theorem C11_pushDecrease_dpq {s : Store P} (h : DQ.Inv s) (it : Item) (p : P) :
    ∃ s' r, DQ.pushDecrease s it p = .ok (s', r) ∧ DQ.Inv s' ∧
      (∀ k, k ≠ it.key → s'.abs k = s.abs k) ∧
      (s.abs it.key = none → r = none ∧ s'.abs it.key = some (it, p) ∧ s'.size = s.size + 1) ∧
      (∀ it0 p0, s.abs it.key = some (it0, p0) → p < p0 →
        r = some p0 ∧ s'.abs it.key = some (it0, p) ∧ s'.size = s.size) ∧
      (∀ it0 p0, s.abs it.key = some (it0, p0) → ¬ p < p0 →
        r = some p ∧ s' = s.tick ∧ Store.Same s' s ∧ s'.abs = s.abs) := by
  obtain ⟨h0, h1, h2⟩ := DQ.pushDecrease_spec h it p
  cases ha : s.abs it.key with
  | none =>
    obtain ⟨s', e1, e2, e3, e4⟩ := h0 ha
    refine ⟨s', none, e1, e2, fun k hk => by rw [e3]; exact cont_absPush_ne hk,
      fun _ => ⟨rfl, by rw [e3, cont_absPush_self, ha]; rfl, e4⟩, fun _ _ hc => (by cases hc), fun _ _ hc => (by cases hc)⟩
  | some e0 =>
    obtain ⟨it0, p0⟩ := e0
    by_cases hlt : p < p0
    · obtain ⟨s', e1, e2, e3, e4⟩ := h1 (it0, p0) ha hlt
      refine ⟨s', some p0, e1, e2, fun k hk => by rw [e3]; exact cont_absPush_ne hk, fun hc => (by cases hc),
        fun it1 p1 hc _ => ?_, fun it1 p1 hc hn => ?_⟩
      · cases hc; exact ⟨rfl, by rw [e3, cont_absPush_self, ha]; rfl, e4⟩
      · cases hc; exact absurd hlt hn
    · have e1 := h2 (it0, p0) ha hlt
      refine ⟨s.tick, some p, e1, DQ.inv_tick h 1, fun _ _ => rfl, fun hc => (by cases hc), fun it1 p1 hc hl => ?_,
        fun it1 p1 hc _ => ⟨rfl, rfl, C11_same_tick s, rfl⟩⟩
      cases hc; exact absurd hl hlt

/-- **"raises the priority iff the offered one is strictly greater"**, both kinds at once, in terms of the priority held
afterwards: the priority of a present item after `push_increase` differs from the one before only if the offered one is
strictly greater, and then it is the offered one -/
theorem C11_pushIncrease_iff {kind : Kind} {s : Store P} (h : s.WF) (it : Item) (p : P) {it0 : Item} {p0 : P}
    (ha : s.abs it.key = some (it0, p0)) :
    ∃ s' r, step ⟨kind, s⟩ (.pushIncrease it p) = .ok (⟨kind, s'⟩, .prio r) ∧ s'.WF ∧
      (∀ k, k ≠ it.key → s'.abs k = s.abs k) ∧
      s'.abs it.key = some (it0, if p0 < p then p else p0) ∧ r = some (if p0 < p then p0 else p) := by
  obtain ⟨s', r, e1, e2, _, e4⟩ := cont_step_pushIncrease (kind := kind) h it p
  obtain ⟨hlt, hge⟩ := e4 _ ha
  refine ⟨s', r, e1, e2, ?_⟩
  by_cases hl : p0 < p
  · obtain ⟨rfl, e5⟩ := hlt hl
    rw [if_pos hl, if_pos hl]
    exact ⟨fun k hk => by rw [e5]; exact cont_absPush_ne hk, by rw [e5, cont_absPush_self, ha]; rfl, rfl⟩
  · obtain ⟨rfl, rfl⟩ := hge hl
    rw [if_neg hl, if_neg hl]
    exact ⟨fun _ _ => rfl, ha, rfl⟩

/-- the mirror image for `push_decrease` -/
theorem C11_pushDecrease_iff {kind : Kind} {s : Store P} (h : s.WF) (it : Item) (p : P) {it0 : Item} {p0 : P}
    (ha : s.abs it.key = some (it0, p0)) :
    ∃ s' r, step ⟨kind, s⟩ (.pushDecrease it p) = .ok (⟨kind, s'⟩, .prio r) ∧ s'.WF ∧
      (∀ k, k ≠ it.key → s'.abs k = s.abs k) ∧
      s'.abs it.key = some (it0, if p < p0 then p else p0) ∧ r = some (if p < p0 then p0 else p) := by
  obtain ⟨s', r, e1, e2, _, e4⟩ := cont_step_pushDecrease (kind := kind) h it p
  obtain ⟨hlt, hge⟩ := e4 _ ha
  refine ⟨s', r, e1, e2, ?_⟩
  by_cases hl : p < p0
  · obtain ⟨rfl, e5⟩ := hlt hl
    rw [if_pos hl, if_pos hl]
    exact ⟨fun k hk => by rw [e5]; exact cont_absPush_ne hk, by rw [e5, cont_absPush_self, ha]; rfl, rfl⟩
  · obtain ⟨rfl, rfl⟩ := hge hl
    rw [if_neg hl, if_neg hl]
    exact ⟨fun _ _ => rfl, ha, rfl⟩

/-! ## Non-vacuity: all three cases on a concrete queue of each kind -/
section Examples

-- hypotheses of `C11_pushIncrease_pq` / `C11_pushDecrease_pq`: the invariant; key 6 absent, key 4 present with priority 1
example : MaxQ.Inv cont_ex5 ∧ cont_ex5.abs 6 = none ∧ cont_ex5.abs 4 = some (⟨4, 40⟩, 1) := by decide +kernel
example : cont_okR (MaxQ.pushIncrease cont_ex5 ⟨6, 60⟩ 8) (fun r => MaxQ.Inv r.1 ∧ r.2 = none ∧ r.1.size = 6 ∧
    r.1.abs 6 = some (⟨6, 60⟩, 8)) := by decide +kernel
example : cont_okR (MaxQ.pushIncrease cont_ex5 ⟨4, 0⟩ 8) (fun r => MaxQ.Inv r.1 ∧ r.2 = some 1 ∧
    r.1.abs 4 = some (⟨4, 40⟩, 8) ∧ r.1.abs 3 = cont_ex5.abs 3) := by decide +kernel
example : cont_okR (MaxQ.pushIncrease cont_ex5 ⟨4, 0⟩ 1) (fun r => r.2 = some 1 ∧ r.1.map = cont_ex5.map ∧
    r.1.heap = cont_ex5.heap ∧ r.1.qp = cont_ex5.qp ∧ r.1.size = cont_ex5.size ∧ r.1.ticks = cont_ex5.ticks + 1) := by
  decide +kernel
example : cont_okR (MaxQ.pushDecrease cont_ex5 ⟨6, 60⟩ 8) (fun r => MaxQ.Inv r.1 ∧ r.2 = none ∧ r.1.size = 6) := by
  decide +kernel
example : cont_okR (MaxQ.pushDecrease cont_ex5 ⟨2, 0⟩ 4) (fun r => MaxQ.Inv r.1 ∧ r.2 = some 9 ∧
    r.1.abs 2 = some (⟨2, 20⟩, 4)) := by decide +kernel
example : cont_okR (MaxQ.pushDecrease cont_ex5 ⟨2, 0⟩ 12) (fun r => r.2 = some 12 ∧ r.1.map = cont_ex5.map ∧
    r.1.heap = cont_ex5.heap) := by decide +kernel
-- hypotheses of `C11_pushIncrease_dpq` / `C11_pushDecrease_dpq`: `DQ.exQ` (eight items, priorities 10 … 80) satisfies
-- the invariant; key 9 absent, key 2 present with priority 20
example : DQ.Inv DQ.exQ ∧ DQ.exQ.abs 9 = none ∧ DQ.exQ.abs 2 = some (⟨2, 0⟩, 20) := ⟨DQ.exQ_inv, by decide +kernel⟩
example : cont_okR (DQ.pushIncrease DQ.exQ ⟨9, 1⟩ 5) (fun r => r.2 = none ∧ r.1.size = 9 ∧ r.1.abs 9 = some (⟨9, 1⟩, 5)) := by
  decide +kernel
example : cont_okR (DQ.pushIncrease DQ.exQ ⟨2, 7⟩ 90) (fun r => r.2 = some 20 ∧ r.1.abs 2 = some (⟨2, 0⟩, 90) ∧
    r.1.abs 3 = DQ.exQ.abs 3) := by decide +kernel
example : cont_okR (DQ.pushIncrease DQ.exQ ⟨2, 7⟩ 20) (fun r => r.2 = some 20 ∧ r.1.map = DQ.exQ.map ∧
    r.1.heap = DQ.exQ.heap ∧ r.1.qp = DQ.exQ.qp ∧ r.1.ticks = DQ.exQ.ticks + 1) := by decide +kernel
example : cont_okR (DQ.pushDecrease DQ.exQ ⟨2, 7⟩ 5) (fun r => r.2 = some 20 ∧ r.1.abs 2 = some (⟨2, 0⟩, 5)) := by
  decide +kernel
example : cont_okR (DQ.pushDecrease DQ.exQ ⟨2, 7⟩ 25) (fun r => r.2 = some 25 ∧ r.1.map = DQ.exQ.map ∧
    r.1.heap = DQ.exQ.heap) := by decide +kernel
-- hypotheses of `C11_pushIncrease_iff` / `C11_pushDecrease_iff`: `WF` only, either kind
example : cont_exD.WF ∧ cont_exD.abs 4 = some (⟨4, 40⟩, 1) := by decide +kernel

end Examples

end PQ

#print axioms PQ.C11_pushIncrease_pq
#print axioms PQ.C11_pushDecrease_pq
#print axioms PQ.C11_pushIncrease_dpq
#print axioms PQ.C11_pushDecrease_dpq
#print axioms PQ.C11_pushIncrease_iff
#print axioms PQ.C11_pushDecrease_iff
