import PQ.Lemmas.LookupLemmas
import PQ.Props.C04
/-!
# C18 — supplement: a hash-indexed lookup finds the slot the hasher-free model finds, for every hasher

The model's map (`IMap`) is searched linearly by key; the real IndexMap hashes the key with the queue's `BuildHasher`,
probes the slots filed under that hash value and compares keys with `Eq`.  `Lemmas/LookupLemmas.lean` models exactly that
(`HIndex`: an arbitrary hash function and, per hash value, the slots filed under it in an arbitrary probe order; `Valid` =
the table files exactly the stored slots, each under the hash of its key — IndexMap's own invariant, trusted).  Every
operation of the crate reaches an entry by key through such a lookup and from then on works with the slot number, which
is how the model's `IMap` operations are written (`find?` first, slot operations afterwards).
-/
namespace PQ
variable {P : Type} [LT P] [DecidableLT P] [LE P] [Std.IsLinearPreorder P] [Std.LawfulOrderLT P]

/-- **any hasher, any probe order**: on a map with unique keys a valid hash index finds exactly the slot the model's linear
search finds — the default randomly keyed hasher, a fixed one, a `no_std` one, or the degenerate hasher that maps every
item to the same value (one bucket holding every slot). -/
theorem C18_lookup_is_model_lookup {ix : HIndex} {m : IMap P} (hm : m.NoDupKeys) (hv : ix.Valid m) (k : Nat) :
    ix.find? m k = IMap.find? m k :=
  HIndex.find?_eq_model hm hv k

/-- **after every history, under every pair of hashers**: in the state reached by any legal history from `new()` (leaked
guards included) two lookups through two valid indices — whatever their hash functions — return the same slot for every
key, namely the model's; and for every hash function a valid index exists (`HIndex.ofHash`). -/
theorem C18_hasher_independent_after_history (ops : List (Op P)) (hl : ∀ op ∈ ops, op.Legal) (kind : Kind) :
    ∃ q' outs, run (Q.new kind) ops = .ok (q', outs) ∧
      (∀ (ix₁ ix₂ : HIndex), ix₁.Valid q'.s.map → ix₂.Valid q'.s.map → ∀ k,
        ix₁.find? q'.s.map k = ix₂.find? q'.s.map k ∧ ix₁.find? q'.s.map k = IMap.find? q'.s.map k) ∧
      (∀ hash : Nat → Nat, (HIndex.ofHash hash q'.s.map).Valid q'.s.map) := by
  obtain ⟨q', outs, h1, _, h3⟩ := C04_from_any_wf ops (hist_new_wf kind) hl
  have hnd : q'.s.map.NoDupKeys := (h3 : q'.s.WF).nodup
  exact ⟨q', outs, h1,
    fun ix₁ ix₂ v₁ v₂ k => ⟨HIndex.find?_hasher_independent hnd v₁ v₂ k, HIndex.find?_eq_model hnd v₁ k⟩,
    fun hash => HIndex.ofHash_valid hash _⟩

-- non-vacuity: the all-colliding hasher and a spreading one on a three-entry map
private def exM : IMap Nat := #[(⟨10, 0⟩, 5), (⟨20, 0⟩, 7), (⟨30, 0⟩, 1)]
example : (HIndex.ofHash (fun _ => 0) exM).find? exM 20 = some 1 ∧ (HIndex.ofHash (fun k => k % 7) exM).find? exM 20 = some 1 ∧
    (HIndex.ofHash (fun _ => 0) exM).find? exM 99 = none ∧ IMap.find? exM 20 = some 1 := by decide +kernel
-- uniqueness of keys is needed: with a duplicated key two probe orders disagree
example : (⟨fun _ => 0, fun _ => [0, 1]⟩ : HIndex).find? (#[(⟨1, 0⟩, 5), (⟨1, 1⟩, 6)] : IMap Nat) 1 = some 0 ∧
    (⟨fun _ => 0, fun _ => [1, 0]⟩ : HIndex).find? (#[(⟨1, 0⟩, 5), (⟨1, 1⟩, 6)] : IMap Nat) 1 = some 1 := by decide +kernel

end PQ

#print axioms PQ.C18_lookup_is_model_lookup
#print axioms PQ.C18_hasher_independent_after_history
