import PQ.Props.C04
import PQ.Props.C07
import PQ.Lemmas.SortedWF
/-!
# C04 / C07, supplements: sorted consumption after any history; the capacity theorems for LEGAL lower bounds only

## (a) Sorted consumption after any history

`C04_from_any_wf` leaves a well-formed — possibly disordered (leaked `iter_mut` guard) — queue after every legal history;
the `swf_*` lemmas of `PQ/Lemmas/SortedWF.lean` show that the consuming sorted methods (`into_sorted_vec`,
`into_ascending_sorted_vec`, `into_descending_sorted_vec`: they pop until empty, through the unchecked sites of `pop` /
`pop_min` / `pop_max`) need `WF` only.  `C04_sorted_after_history` composes the two: after EVERY legal history from `new()`
of either kind, all three return normally.  (The model's sorted vectors are functions of the store, not of the kind — each
kind of the crate has only its own — so all three are stated for the store reached, whatever the kind; the history theorem
`C04_from_any_wf` has no hypothesis beyond `Op.Legal`, and a legal history never meets the capacity fault, so nothing is
excepted.)

## (b) The capacity theorems restated for LEGAL lower bounds only

`C04_capacity_exactly` and `C07_fromIter` / `C07_extend` / `C07_hint_irrelevant` / `C07_hint_nofault` /
`C07_strategy_irrelevant` quantify over every lower bound `lo < capLimit = 2^61` of the `size_hint`.  **Those `lo < capLimit`
forms describe the MODEL's capacity fault (`Fault.capacity`, `reserveC`: the arithmetic "capacity overflow" check of
`Vec`), not the allocator.**  The real crate leaves the fault-free path earlier for *illegal* announced lower bounds: the
hash table of `IndexMap` panics with "Hash table capacity overflow" from about `2^59` entries on, and the allocator aborts
(`handle_alloc_error`) when the announced amount cannot be granted — `2^30` entries under memory pressure is enough.  Capacity
and memory are not part of the modelled state, so for an over-announcing (illegal) hint below `2^61` the model says "no
fault" where the real program may panic or abort.  Only illegal `size_hint`s are affected: a LEGAL lower bound does not
exceed the number of pairs the iterator actually yields (`LegalLo lo xs`, `PQ/Props/C07.lean`: `lo ≤ xs.size ∧ xs.size <
capLimit`, i.e. `Op.Legal` of `.extend lo xs` / `.fromIter lo xs`), and a program that yields `xs.size` pairs into a queue
needs that memory anyway.  The property itself ("no LEGAL `size_hint` makes them panic", "the outcome does not depend on
the `size_hint`") is therefore not affected; the forms below state it with `LegalLo lo xs` as the ONLY hypothesis on `lo`.
Each is derived from the corresponding `lo < capLimit` theorem by `LegalLo.lt` (`lo ≤ xs.size < capLimit`).
-/
namespace PQ
open Store Arith
variable {P : Type} [LT P] [DecidableLT P] [LE P] [Std.IsLinearPreorder P] [Std.LawfulOrderLT P]

/-! ## (a) sorted consumption after any history -/

/-- **C04, the consuming sorted methods from any well-formed state**: after every history of legal operations from a
well-formed queue — leaked guards allowed, so the state reached may be disordered — `into_sorted_vec`,
`into_ascending_sorted_vec` and `into_descending_sorted_vec` return normally, and each returns a permutation of the stored
entries (every element exactly once; nothing is said about the order, there is none on a disordered queue). -/
theorem C04_sorted_from_any_wf (ops : List (Op P)) {q : Q P} (hq : QWF q) (hl : ∀ op ∈ ops, op.Legal) :
    ∃ q' outs, run q ops = .ok (q', outs) ∧ QWF q' ∧
      (∃ l, MaxQ.intoSortedVec q'.s = .ok l ∧ l.Perm q'.s.map.toList ∧ l.length = q'.s.size) ∧
      (∃ l, DQ.intoAscendingSortedVec q'.s = .ok l ∧ l.Perm q'.s.map.toList ∧ l.length = q'.s.size) ∧
      (∃ l, DQ.intoDescendingSortedVec q'.s = .ok l ∧ l.Perm q'.s.map.toList ∧ l.length = q'.s.size) := by
  obtain ⟨q', outs, h1, _, h3⟩ := C04_from_any_wf ops hq hl
  have hwf : q'.s.WF := h3
  obtain ⟨l1, a1, a2, a3, _⟩ := swf_pq_sorted_vec hwf
  obtain ⟨l2, b1, b2, b3, _⟩ := swf_dpq_ascending hwf
  obtain ⟨l3, c1, c2, c3, _⟩ := swf_dpq_descending hwf
  exact ⟨q', outs, h1, h3, ⟨l1, a1, a2, a3⟩, ⟨l2, b1, b2, b3⟩, ⟨l3, c1, c2, c3⟩⟩

/-- **C04, the consuming sorted methods after every history**: from `new()` of either kind, after every history of legal
operations (leaked `iter_mut` guards included), `into_sorted_vec`, `into_ascending_sorted_vec` and
`into_descending_sorted_vec` of the queue reached return normally — no fault of any sort in the pops they perform. -/
theorem C04_sorted_after_history (ops : List (Op P)) (hl : ∀ op ∈ ops, op.Legal) (k : Kind) :
    ∃ q' outs, run (Q.new k) ops = .ok (q', outs) ∧
      (∃ l, MaxQ.intoSortedVec q'.s = .ok l) ∧
      (∃ l, DQ.intoAscendingSortedVec q'.s = .ok l) ∧
      (∃ l, DQ.intoDescendingSortedVec q'.s = .ok l) := by
  obtain ⟨q', outs, h1, _, ⟨l1, a1, _⟩, ⟨l2, b1, _⟩, ⟨l3, c1, _⟩⟩ := C04_sorted_from_any_wf ops (hist_new_wf k) hl
  exact ⟨q', outs, h1, ⟨l1, a1⟩, ⟨l2, b1⟩, ⟨l3, c1⟩⟩

section ExamplesA

/-- nine elements, then a leaked guard that turns the order upside down, then two more operations on the disordered queue -/
private def exHist : List (Op Nat) :=
  [.fromVec (Array.ofFn (n := 9) fun i => (⟨i.val, 0⟩, 3 * i.val)),
   .iterMut true ((List.range 9).map fun i => (ICall.next, (⟨some (40 - 4 * i), none⟩ : IMWrite Nat))),
   .getMut 4 (fun it => ⟨it.key, 7⟩), .capacityOp]

example : ∀ op ∈ exHist, op.Legal := by
  intro op h
  simp only [exHist, List.mem_cons, List.not_mem_nil, or_false] at h
  rcases h with h | h | h | h <;> subst h <;> first | exact trivial | (intro _; rfl)

-- the history ends in a well-formed, DISORDERED queue of nine elements (both kinds); all three sorted vectors are returned,
-- with all nine elements, and they are not sorted
example : hist_okR (run (Q.new .pq) exHist) (fun r => r.1.s.WF ∧ ¬ MaxQ.Inv r.1.s ∧ r.1.s.size = 9 ∧
    bp_okR (MaxQ.intoSortedVec r.1.s) (fun l => l.length = 9 ∧ l.map (·.2) ≠ [40, 36, 32, 28, 24, 20, 16, 12, 8]) ∧
    bp_okR (DQ.intoAscendingSortedVec r.1.s) (fun l => l.length = 9) ∧
    bp_okR (DQ.intoDescendingSortedVec r.1.s) (fun l => l.length = 9)) := by decide +kernel
example : hist_okR (run (Q.new .dpq) exHist) (fun r => r.1.s.WF ∧ r.1.s.size = 9 ∧
    bp_okR (MaxQ.intoSortedVec r.1.s) (fun l => l.length = 9) ∧
    bp_okR (DQ.intoAscendingSortedVec r.1.s) (fun l => l.length = 9 ∧ l.map (·.2) ≠ [8, 12, 16, 20, 24, 28, 32, 36, 40]) ∧
    bp_okR (DQ.intoDescendingSortedVec r.1.s) (fun l => l.length = 9)) := by decide +kernel

end ExamplesA

/-! ## (b) the capacity theorems for LEGAL lower bounds only -/

/-- **C04, capacity, legal operations only.**  On a well-formed queue a LEGAL operation — for `extend` / `from_iter` that
means: the announced lower bound does not exceed the number of pairs yielded, `LegalLo lo xs`, and nothing else is assumed
of `lo` — never meets the capacity fault, and succeeds leaving a well-formed queue; stated also for `.extend lo xs` /
`.fromIter lo xs` directly.  (`C04_capacity_exactly` says more — "`Fault.capacity` iff `capLimit ≤ lo`" — but about lower
bounds that only an illegal hint can have, where the model's fault is not the whole story: see the header.) -/
theorem C04_capacity_legal {q : Q P} (hq : QWF q) :
    (∀ {op : Op P}, op.Legal → step q op ≠ .error .capacity ∧ ∃ q' o, step q op = .ok (q', o) ∧ QWF q') ∧
    (∀ lo (xs : Array (Item × P)), LegalLo lo xs →
      (∃ q' o, step q (.extend lo xs) = .ok (q', o) ∧ QWF q') ∧
      (∃ q' o, step q (.fromIter lo xs) = .ok (q', o) ∧ QWF q')) := by
  have h1 : ∀ {op : Op P}, op.Legal → step q op ≠ .error .capacity ∧ ∃ q' o, step q op = .ok (q', o) ∧ QWF q' := by
    intro op hl
    have hn : ¬ ∃ lo xs, (op = .extend lo xs ∨ op = .fromIter lo xs) ∧ capLimit ≤ lo := by
      rintro ⟨lo, xs, rfl | rfl, hlo⟩
      · have h : LegalLo lo xs := hl
        have := h.lt; omega
      · have h : LegalLo lo xs := hl
        have := h.lt; omega
    obtain ⟨q', o, h, hwf⟩ := (C04_capacity_exactly hq (.inl hl)).2 hn
    exact ⟨fun he => (by rw [h] at he; cases he), q', o, h, hwf⟩
  exact ⟨h1, fun lo xs hl => ⟨(h1 (op := .extend lo xs) hl).2, (h1 (op := .fromIter lo xs) hl).2⟩⟩

/-- … conversely: whenever `step` answers the capacity fault (on a well-formed queue, for an operation that is legal except
possibly for its `size_hint`), the operation is `extend` / `from_iter` with an ILLEGAL hint. -/
theorem C04_capacity_only_illegal {q : Q P} {op : Op P} (hq : QWF q)
    (hl : op.Legal ∨ ∃ lo xs, op = .extend lo xs ∨ op = .fromIter lo xs) (h : step q op = .error .capacity) :
    ∃ lo xs, (op = .extend lo xs ∨ op = .fromIter lo xs) ∧ ¬ LegalLo lo xs := by
  obtain ⟨lo, xs, hop, hlo⟩ := (C04_capacity_exactly hq hl).1.1 h
  exact ⟨lo, xs, hop, fun hleg => by have := hleg.lt; omega⟩

/-- **`FromIterator`, legal hints**: for every pair sequence and every LEGAL lower bound of the `size_hint`: a correctly
ordered queue holding, for each key, the LAST pair given for it -/
theorem C07_legal_fromIter (lo : Nat) (xs : Array (Item × P)) (hl : LegalLo lo xs) :
    (∃ s', MaxQ.fromIter lo xs = .ok s' ∧ MaxQ.Inv s' ∧
      (∀ k, s'.abs k = xs.toList.reverse.find? (fun e => e.1.key == k)) ∧
      s'.size = (xs.toList.map (·.1.key)).eraseDups.length) ∧
    (∃ s', DQ.fromIter lo xs = .ok s' ∧ DQ.Inv s' ∧
      (∀ k, s'.abs k = xs.toList.reverse.find? (fun e => e.1.key == k)) ∧
      s'.size = (xs.toList.map (·.1.key)).eraseDups.length) :=
  C07_fromIter lo xs hl.lt

/-- **`extend`, legal hints**: for every LEGAL lower bound it succeeds, the result is correctly ordered, its contents are the
fold of `Store.absStep` over the pairs (closed form and length as in `C07_extend`) -/
theorem C07_legal_extend (xs : Array (Item × P)) :
    (∀ {s : Store P}, MaxQ.Inv s → ∀ lo, LegalLo lo xs → ∃ s', MaxQ.extend s lo xs = .ok s' ∧ MaxQ.Inv s' ∧
      s'.abs = xs.foldl Store.absStep s.abs ∧
      (∀ k, s'.abs k =
        match xs.toList.reverse.find? (fun e => e.1.key == k) with
        | none => s.abs k
        | some b => some ((((s.abs k).or (xs.toList.find? (fun e => e.1.key == k))).map (·.1)).getD b.1, b.2)) ∧
      s'.size = s.size + ((xs.toList.map (·.1.key)).filter (fun k => !IMap.contains s.map k)).eraseDups.length) ∧
    (∀ {s : Store P}, DQ.Inv s → ∀ lo, LegalLo lo xs → ∃ s', DQ.extend s lo xs = .ok s' ∧ DQ.Inv s' ∧
      s'.abs = xs.foldl Store.absStep s.abs ∧
      (∀ k, s'.abs k =
        match xs.toList.reverse.find? (fun e => e.1.key == k) with
        | none => s.abs k
        | some b => some ((((s.abs k).or (xs.toList.find? (fun e => e.1.key == k))).map (·.1)).getD b.1, b.2)) ∧
      s'.size = s.size + ((xs.toList.map (·.1.key)).filter (fun k => !IMap.contains s.map k)).eraseDups.length) :=
  ⟨fun h lo hl => (C07_extend xs).1 h lo hl.lt, fun h lo hl => (C07_extend xs).2 h lo hl.lt⟩

/-- **the outcome does not depend on the `size_hint`, legal hints**: for any two LEGAL lower bounds both `extend` calls
succeed, both results are correctly ordered, with the same contents and length; `fromIter` returns literally the same
queue.  (The same statement as `C07_hint_irrelevant_legal`.) -/
theorem C07_legal_hint_irrelevant (xs : Array (Item × P)) (lo lo' : Nat) (hl : LegalLo lo xs) (hl' : LegalLo lo' xs) :
    (∀ {s : Store P}, MaxQ.Inv s → ∃ s1 s2, MaxQ.extend s lo xs = .ok s1 ∧ MaxQ.extend s lo' xs = .ok s2 ∧
      MaxQ.Inv s1 ∧ MaxQ.Inv s2 ∧ s1.abs = s2.abs ∧ s1.size = s2.size) ∧
    (∀ {s : Store P}, DQ.Inv s → ∃ s1 s2, DQ.extend s lo xs = .ok s1 ∧ DQ.extend s lo' xs = .ok s2 ∧
      DQ.Inv s1 ∧ DQ.Inv s2 ∧ s1.abs = s2.abs ∧ s1.size = s2.size) ∧
    (MaxQ.fromIter lo xs = MaxQ.fromIter lo' xs ∧ DQ.fromIter lo xs = DQ.fromIter lo' xs) :=
  C07_hint_irrelevant xs lo lo' hl.lt hl'.lt

/-- **no LEGAL `size_hint` makes `extend` or `FromIterator` panic**: from a well-formed queue (order not needed) `extend` and
`fromIter` succeed for EVERY legal lower bound and every pair sequence, on both kinds, and so do the public operations -/
theorem C07_legal_hint_nofault (xs : Array (Item × P)) :
    (∀ {s : Store P}, s.WF → ∀ lo, LegalLo lo xs →
      (∃ s', MaxQ.extend s lo xs = .ok s') ∧ (∃ s', DQ.extend s lo xs = .ok s')) ∧
    (∀ lo, LegalLo lo xs → (∃ s', MaxQ.fromIter lo xs = .ok s') ∧ (∃ s', DQ.fromIter lo xs = .ok s')) ∧
    (∀ (q : Q P), q.s.WF → ∀ lo, LegalLo lo xs → (∃ q', step q (.extend lo xs) = .ok (q', .unit)) ∧
      (∃ q', step q (.fromIter lo xs) = .ok (q', .unit))) :=
  ⟨fun h lo hl => (C07_hint_nofault xs).1 h lo hl.lt, fun lo hl => (C07_hint_nofault xs).2.1 lo hl.lt,
    fun q hq lo hl => (C07_hint_nofault xs).2.2 q hq lo hl⟩

/-- **the outcome of `extend` does not depend on the internal strategy, legal hints**: per-element pushes and
extend-then-rebuild both succeed with a correctly ordered queue of the same contents and length, and for every LEGAL lower
bound `extend` is one of the two -/
theorem C07_legal_strategy_irrelevant (xs : Array (Item × P)) :
    (∀ {s : Store P}, MaxQ.Inv s → ∃ s1 s2, MaxQ.pushAll xs.toList s = .ok s1 ∧
      MaxQ.heapBuild (Store.extend s xs) = .ok s2 ∧ MaxQ.Inv s1 ∧ MaxQ.Inv s2 ∧ s1.abs = s2.abs ∧ s1.size = s2.size ∧
      ∀ lo, LegalLo lo xs → MaxQ.extend s lo xs = .ok s1 ∨ MaxQ.extend s lo xs = .ok s2) ∧
    (∀ {s : Store P}, DQ.Inv s → ∃ s1 s2, DQ.pushAll xs.toList s = .ok s1 ∧
      DQ.heapBuild (Store.extend s xs) = .ok s2 ∧ DQ.Inv s1 ∧ DQ.Inv s2 ∧ s1.abs = s2.abs ∧ s1.size = s2.size ∧
      ∀ lo, LegalLo lo xs → DQ.extend s lo xs = .ok s1 ∨ DQ.extend s lo xs = .ok s2) := by
  constructor
  · intro s h
    obtain ⟨s1, s2, a1, a2, a3, a4, a5, a6, a7⟩ := (C07_strategy_irrelevant xs).1 h
    exact ⟨s1, s2, a1, a2, a3, a4, a5, a6, fun lo hl => a7 lo hl.lt⟩
  · intro s h
    obtain ⟨s1, s2, a1, a2, a3, a4, a5, a6, a7⟩ := (C07_strategy_irrelevant xs).2 h
    exact ⟨s1, s2, a1, a2, a3, a4, a5, a6, fun lo hl => a7 lo hl.lt⟩

section ExamplesB

/-- seventeen pairs over three keys -/
private def exB17 : Array (Item × Nat) := Array.ofFn (n := 17) fun i => (⟨2 + 7 * (i.val % 3), i.val⟩, i.val)

-- legal hints exist and differ in the strategy they select (0: per-element pushes; 17: rebuild, on an eight-element queue);
-- an over-announcing hint is not legal although it is far below `capLimit`
example : LegalLo 0 exB17 ∧ LegalLo 17 exB17 ∧ ¬ LegalLo 18 exB17 ∧ ¬ LegalLo (2 ^ 30) exB17 ∧ 2 ^ 30 < capLimit ∧
    DQ.exQ.size = 8 ∧ betterToRebuild 8 17 = true := by decide +kernel
-- `C04_capacity_legal`: a well-formed DISORDERED queue, a legal `extend` / `from_iter`: `step` succeeds, result well-formed
example : QWF (⟨.pq, bp_exW⟩ : Q Nat) ∧ ¬ MaxQ.Inv bp_exW ∧ LegalLo 17 exB17 ∧
    hist_okR (step ⟨.pq, bp_exW⟩ (.extend 17 exB17)) (fun r => r.1.s.WF ∧ r.1.s.size = 7) ∧
    hist_okR (step ⟨.dpq, bp_exW⟩ (.fromIter 17 exB17)) (fun r => r.1.s.WF ∧ r.1.s.size = 3) := by
  refine ⟨bp_exW_wf, ?_⟩
  decide +kernel
-- `C04_capacity_only_illegal`: the capacity fault does occur, with an illegal hint
example : ¬ LegalLo (2 ^ 61) #[((⟨1, 0⟩ : Item), (1 : Nat))] ∧
    (match step (Q.new .pq) (.extend (2 ^ 61) #[((⟨1, 0⟩ : Item), 1)] : Op Nat) with
      | .error .capacity => true | _ => false) = true := by decide +kernel
-- `C07_legal_fromIter`, `C07_legal_extend`, `C07_legal_hint_irrelevant`, `C07_legal_hint_nofault`
example : bp_okR (MaxQ.fromIter 17 exB17) (fun s' => MaxQ.Inv s' ∧ s'.size = 3 ∧ s'.abs 9 = some (⟨9, 16⟩, 16)) ∧
    bp_okR (DQ.fromIter 5 exB17) (fun s' => s'.size = 3 ∧ s'.abs 2 = some (⟨2, 15⟩, 15)) := by decide +kernel
example : MaxQ.Inv bp_exP ∧ LegalLo 3 #[((⟨4, 0⟩ : Item), (9 : Nat)), (⟨7, 0⟩, 2), (⟨7, 1⟩, 6)] ∧
    bp_okR (MaxQ.extend bp_exP 3 #[(⟨4, 0⟩, 9), (⟨7, 0⟩, 2), (⟨7, 1⟩, 6)]) (fun s' =>
      MaxQ.Inv s' ∧ s'.size = 6 ∧ s'.abs 4 = some (⟨4, 40⟩, 9) ∧ s'.abs 7 = some (⟨7, 0⟩, 6)) := by decide +kernel
example : bp_okR (DQ.extend DQ.exQ 0 exB17) (fun s1 =>
      bp_okR (DQ.extend DQ.exQ 17 exB17) (fun s2 =>
        s1.size = s2.size ∧ s1.size = 10 ∧ ∀ k, k < 20 → s1.abs k = s2.abs k)) := by decide +kernel
example : bp_exW.WF ∧ bp_okR (MaxQ.extend bp_exW 17 exB17) (fun _ => True) ∧
    bp_okR (DQ.extend bp_exW 1 exB17) (fun _ => True) := by decide +kernel
-- `C07_legal_strategy_irrelevant`: both strategies on `bp_exP`, same contents
example : bp_okR (MaxQ.pushAll exB17.toList bp_exP) (fun s1 =>
    bp_okR (MaxQ.heapBuild (Store.extend bp_exP exB17)) (fun s2 =>
      MaxQ.Inv s1 ∧ MaxQ.Inv s2 ∧ s1.size = s2.size ∧ s1.size = 7 ∧ ∀ k, k < 20 → s1.abs k = s2.abs k)) := by decide +kernel

end ExamplesB

end PQ

#print axioms PQ.C04_sorted_from_any_wf
#print axioms PQ.C04_sorted_after_history
#print axioms PQ.C04_capacity_legal
#print axioms PQ.C04_capacity_only_illegal
#print axioms PQ.C07_legal_fromIter
#print axioms PQ.C07_legal_extend
#print axioms PQ.C07_legal_hint_irrelevant
#print axioms PQ.C07_legal_hint_nofault
#print axioms PQ.C07_legal_strategy_irrelevant
