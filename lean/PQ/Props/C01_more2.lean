import PQ.Lemmas.Contents
import PQ.Lemmas.History
import PQ.Props.C01
import PQ.Props.C02
/-!
# C01 / C02 — supplement 2: harmless leaks, the rebuilding `extend`, `clone_from`

`C01_reach` / `C02_reach` exclude EVERY leaked `iter_mut` guard (`Op.isLeak`) and heal a leak only by the operations of
`Op.rebuilds`.  Three gaps a review found are closed here:

* (a) a leaked guard whose program writes NO priority (payload writes only, or no write at all, or the empty program) leaves
  every priority at every heap position as it was: the order invariant survives.  `Op.isHarmfulLeak` is the sharper
  exclusion; `C01_step_harmless_leak`, `C01_step_inv`, `C01_run_inv`, `C01_reach_harmless_leaks`,
  `C02_reach_harmless_leaks`.
* (b) `extend` with the bulk strategy (`Arith.betterToRebuild size lo = true`, `lo` the lower bound of the iterator's
  `size_hint`) ends in `heap_build`: it re-establishes the order from well-formedness alone, like the members of
  `Op.rebuilds`.  Whether `extend` rebuilds depends on the STATE (the current length), so it cannot be a member of the
  state-free `Op.rebuilds`: `C01_rebuildsAt q op` is the state-dependent extension, `C01_step_extend_rebuild`,
  `C01_step_rebuildAt`, `C01_heal_by_extend`, `C01_heal_at` the healing theorems.
* (c) `clone_from(&other)` is not an `Op` (it replaces the queue under test by a copy of ANOTHER queue): histories of
  events `Ev = op o | replace r`, `runEv`, `C01_reach_with_replacements` (every replacement satisfies the invariant ⇒ so
  does the final queue), `C01_reach_clone_from` (every replacement is itself reachable from `new()`).
-/
set_option linter.unusedSimpArgs false
set_option linter.unusedSectionVars false
set_option linter.unusedVariables false
namespace PQ
open Arith Store

/-- a leaked `iter_mut` guard at least one of whose writes assigns a priority — the only leaks that can disturb the order -/
def Op.isHarmfulLeak {P : Type} : Op P → Bool
  | .iterMut true prog => prog.any (fun cw => cw.2.prio.isSome)
  | _ => false

/-- the sharper exclusion is implied by the old one -/
theorem C01_isHarmfulLeak_of_isLeak {P : Type} {op : Op P} (h : op.isLeak = false) : op.isHarmfulLeak = false := by
  cases op <;> try rfl
  case iterMut leak prog =>
    cases leak with
    | true => simp [Op.isLeak] at h
    | false => rfl

theorem C01_harmless_prog {P : Type} {prog : List (ICall × IMWrite P)}
    (h : (Op.iterMut true prog : Op P).isHarmfulLeak = false) : ∀ cw ∈ prog, cw.2.prio = none := by
  intro cw hcw
  simp only [Op.isHarmfulLeak, List.any_eq_false] at h
  have := h cw hcw
  cases hp : cw.2.prio with
  | none => rfl
  | some p => rw [hp] at this; simp at this

variable {P : Type} [LT P] [DecidableLT P] [LE P] [Std.IsLinearPreorder P] [Std.LawfulOrderLT P]

/-! ## (a) a leaked guard that wrote no priority keeps the order -/

/-- **a leaked `iter_mut` guard whose program writes no priority** (any calls, any payload writes): the step succeeds, the
index tables and the length are the very same, the priority at every heap position is the same — and therefore the
invariant of the queue kind is kept -/
theorem C01_step_harmless_leak {q : Q P} (hq : QInv q) (prog : List (ICall × IMWrite P))
    (hp : ∀ cw ∈ prog, cw.2.prio = none) :
    ∃ q' o, step q (.iterMut true prog) = .ok (q', o) ∧ QInv q' ∧ q'.kind = q.kind ∧ q'.s.heap = q.s.heap ∧
      q'.s.qp = q.s.qp ∧ q'.s.size = q.s.size ∧ ∀ p, q'.s.pr p = q.s.pr p := by
  obtain ⟨kind, s⟩ := q
  have h : s.WF := hq.wf
  obtain ⟨outs, m', hrun, hlen, hsz, hslots⟩ :=
    cont_iterMutRun kind s.map.size prog PIterMut.new (DIterMut.new s.map.size) s.map (Nat.zero_le _) (Nat.le_refl _)
  have hkeys : ∀ j : Nat, (m'[j]?).map (fun e : Item × P => e.1.key) = (s.map[j]?).map (fun e : Item × P => e.1.key) :=
    fun j => (hslots j).1
  have hwf1 : ({ s with map := m' } : Store P).WF := wf_of_map_update h hsz (IMap.NoDupKeys.congr_keys h.nodup hkeys)
  have hpr : ∀ p, ({ s with map := m' } : Store P).pr p = s.pr p := by
    intro p
    unfold Store.pr
    show (match s.heap[p]? with | some i => (m'[i]?).map (fun e : Item × P => e.2) | none => none) = _
    cases s.heap[p]? with
    | none => rfl
    | some i => exact (hslots i).2.2.2 hp
  have hstep : step ⟨kind, s⟩ (.iterMut true prog) = .ok (⟨kind, { s with map := m' }⟩, .outs outs) := by
    simp [step, hrun, bind, Except.bind, pure, Except.pure]
  refine ⟨_, _, hstep, ?_, rfl, rfl, rfl, rfl, hpr⟩
  cases kind with
  | pq =>
    have hi : MaxQ.Inv s := hq
    exact (⟨hwf1, MaxQ.maxHeap_of_prefix hi.2 (Nat.le_refl _) (fun p _ => hpr p)⟩ : MaxQ.Inv _)
  | dpq =>
    have hi : DQ.Inv s := hq
    exact (⟨hwf1, DQ.minMaxHeap_congr hpr rfl hi.2⟩ : DQ.Inv _)

/-- **one step keeps `QInv` unless it is a HARMFUL leak** (a leaked guard that wrote a priority) -/
theorem C01_step_inv {q : Q P} {op : Op P} (hq : QInv q) (hl : op.Legal) (hn : op.isHarmfulLeak = false) :
    ∃ q' o, step q op = .ok (q', o) ∧ QInv q' := by
  by_cases hleak : op.isLeak = false
  · exact hist_step_inv hq hl hleak
  · cases op <;> try (exact absurd rfl hleak)
    case iterMut leak prog =>
      cases leak with
      | false => exact absurd rfl hleak
      | true =>
        obtain ⟨q', o, h1, h2, _⟩ := C01_step_harmless_leak hq prog (C01_harmless_prog hn)
        exact ⟨q', o, h1, h2⟩

/-- **histories with harmless leaks keep the invariant** -/
theorem C01_run_inv (ops : List (Op P)) : ∀ {q : Q P}, QInv q → (∀ op ∈ ops, op.Legal) →
    (∀ op ∈ ops, op.isHarmfulLeak = false) →
    ∃ q' outs, run q ops = .ok (q', outs) ∧ QInv q' ∧ outs.length = ops.length := by
  induction ops with
  | nil => intro q hq _ _; exact ⟨q, [], rfl, hq, rfl⟩
  | cons op ops ih =>
    intro q hq hl hn
    obtain ⟨q1, o, h1, hq1⟩ := C01_step_inv hq (hl op List.mem_cons_self) (hn op List.mem_cons_self)
    obtain ⟨q2, os, h2, hq2, hlen⟩ := ih hq1 (fun op' h' => hl op' (List.mem_cons_of_mem _ h'))
      (fun op' h' => hn op' (List.mem_cons_of_mem _ h'))
    exact ⟨q2, o :: os, cont_run_cons h1 h2, hq2, by simp [hlen]⟩

/-- **C01, reachability with harmless leaks.**  From any queue satisfying the invariant of its kind, every history of
legal operations in which no LEAKED guard WROTE A PRIORITY (leaked guards that only looked, or only wrote payloads, are
allowed anywhere) runs without fault and ends in a queue satisfying the invariant of its final kind; a final
`PriorityQueue` is a well-formed binary max-heap.  (`C01_reach` is the special case without any leak.) -/
theorem C01_reach_harmless_leaks (ops : List (Op P)) {q : Q P} (hq : QInv q) (hl : ∀ op ∈ ops, op.Legal)
    (hn : ∀ op ∈ ops, op.isHarmfulLeak = false) :
    ∃ q' outs, run q ops = .ok (q', outs) ∧ outs.length = ops.length ∧ QInv q' ∧ (q'.kind = .pq → MaxQ.Inv q'.s) := by
  obtain ⟨q', outs, hrun, hinv, hlen⟩ := C01_run_inv ops hq hl hn
  refine ⟨q', outs, hrun, hlen, hinv, fun hk => ?_⟩
  obtain ⟨k, s⟩ := q'
  cases hk
  exact hinv

/-- **C02, reachability with harmless leaks**: a final `DoublePriorityQueue` is a well-formed min-max heap -/
theorem C02_reach_harmless_leaks (ops : List (Op P)) {q : Q P} (hq : QInv q) (hl : ∀ op ∈ ops, op.Legal)
    (hn : ∀ op ∈ ops, op.isHarmfulLeak = false) :
    ∃ q' outs, run q ops = .ok (q', outs) ∧ outs.length = ops.length ∧ QInv q' ∧ (q'.kind = .dpq → DQ.Inv q'.s) := by
  obtain ⟨q', outs, hrun, hinv, hlen⟩ := C01_run_inv ops hq hl hn
  refine ⟨q', outs, hrun, hlen, hinv, fun hk => ?_⟩
  obtain ⟨k, s⟩ := q'
  cases hk
  exact hinv

/-- the old theorems are instances -/
theorem C01_reach_of_harmless (ops : List (Op P)) {q : Q P} (hq : QInv q) (hl : ∀ op ∈ ops, op.Legal)
    (hn : ∀ op ∈ ops, op.isLeak = false) :
    ∃ q' outs, run q ops = .ok (q', outs) ∧ outs.length = ops.length ∧ QInv q' ∧ (q'.kind = .pq → MaxQ.Inv q'.s) :=
  C01_reach_harmless_leaks ops hq hl (fun op h => C01_isHarmfulLeak_of_isLeak (hn op h))

/-! ## (b) the rebuilding `extend` heals a leak -/

/-- `extend` takes its bulk strategy only for a non-zero lower bound: `better_to_rebuild(len, 0)` is false -/
theorem C01_betterToRebuild_lo_ne_zero {n lo : Nat} (h : betterToRebuild n lo = true) : lo ≠ 0 := by
  intro h0
  subst h0
  unfold betterToRebuild at h
  split at h
  · cases h
  · simp [satMul] at h

/-- **`extend` with the bulk strategy** (`better_to_rebuild(len, lo)`), from a merely well-formed queue of either kind
(e.g. after a leaked guard that wrote priorities): no fault, and the result satisfies the full invariant — the strategy
ends in `heap_build` -/
theorem C01_step_extend_rebuild {q : Q P} (hq : QWF q) {lo : Nat} {xs : Array (Item × P)}
    (hl : (Op.extend lo xs : Op P).Legal) (hb : betterToRebuild q.s.size lo = true) :
    ∃ q' o, step q (.extend lo xs) = .ok (q', o) ∧ QInv q' := by
  obtain ⟨k, s⟩ := q
  have h : s.WF := hq
  have hlo : lo < capLimit := Nat.lt_of_le_of_lt hl.1 hl.2
  have hr : (if lo ≠ 0 then betterToRebuild s.size lo else false) = true := by
    rw [if_pos (C01_betterToRebuild_lo_ne_zero hb)]; exact hb
  cases k with
  | pq =>
    obtain ⟨s', he, hwf, _, _, hm⟩ := MaxQ.heapBuild_spec (wf_extend h xs)
    have he' : MaxQ.extend s lo xs = .ok s' := by rw [MaxQ.extend_eval_rebuild xs hlo hr]; exact he
    refine ⟨⟨.pq, s'⟩, .unit, ?_, (⟨hwf, hm⟩ : MaxQ.Inv s')⟩
    simp only [step, he', bind, Except.bind, pure, Except.pure]
  | dpq =>
    obtain ⟨s', he, hwf, _, _, hm⟩ := DQ.heapBuild_spec (wf_extend h xs)
    have he' : DQ.extend s lo xs = .ok s' := by rw [DQ.extend_of_lt xs hlo, if_pos hr]; exact he
    refine ⟨⟨.dpq, s'⟩, .unit, ?_, (⟨hwf, hm⟩ : DQ.Inv s')⟩
    simp only [step, he', bind, Except.bind, pure, Except.pure]

/-- the operations that end in `heap_build` (or empty the queue) WHEN EXECUTED ON `q`: the members of `Op.rebuilds`, and
`extend` when `better_to_rebuild(len, lo)` chooses the bulk strategy -/
def C01_rebuildsAt (q : Q P) : Op P → Bool
  | .extend lo _ => betterToRebuild q.s.size lo
  | op => op.rebuilds

theorem C01_rebuildsAt_of_rebuilds (q : Q P) {op : Op P} (h : op.rebuilds = true) : C01_rebuildsAt q op = true := by
  cases op <;> first | exact h | (simp [Op.rebuilds] at h)

/-- every operation that rebuilds on `q` re-establishes the invariant from well-formedness alone -/
theorem C01_step_rebuildAt {q : Q P} {op : Op P} (hq : QWF q) (hl : op.Legal) (hr : C01_rebuildsAt q op = true) :
    ∃ q' o, step q op = .ok (q', o) ∧ QInv q' := by
  by_cases he : ∃ lo xs, op = .extend lo xs
  · obtain ⟨lo, xs, rfl⟩ := he
    exact C01_step_extend_rebuild hq hl hr
  · have : op.rebuilds = true := by
      cases op <;> first | exact hr | exact absurd ⟨_, _, rfl⟩ he
    exact hist_step_rebuild hq hl this

/-- **a leak is healed by a rebuilding `extend`**: `pre` is ANY legal history (leaked guards that wrote priorities
included), then an `extend` that takes the bulk strategy on the queue `pre` leaves, then a history without harmful leaks:
the final queue satisfies the invariant of its kind -/
theorem C01_heal_by_extend (pre post : List (Op P)) (lo : Nat) (xs : Array (Item × P)) {q : Q P} (hq : QWF q)
    (hpre : ∀ o ∈ pre, o.Legal) (hop : (Op.extend lo xs : Op P).Legal)
    (hb : ∀ q1 o1, run q pre = .ok (q1, o1) → betterToRebuild q1.s.size lo = true)
    (hpost : ∀ o ∈ post, o.Legal) (hn : ∀ o ∈ post, o.isHarmfulLeak = false) :
    ∃ q' outs, run q (pre ++ .extend lo xs :: post) = .ok (q', outs) ∧ QInv q' ∧
      (q'.kind = .pq → MaxQ.Inv q'.s) ∧ (q'.kind = .dpq → DQ.Inv q'.s) := by
  obtain ⟨q1, o1, h1, hq1, _⟩ := hist_run_safe pre hq hpre
  obtain ⟨q2, o, h2, hq2⟩ := C01_step_extend_rebuild hq1 hop (hb q1 o1 h1)
  obtain ⟨q3, o3, h3, hq3, _⟩ := C01_run_inv post hq2 hpost hn
  refine ⟨q3, o1 ++ o :: o3, ?_, hq3, ?_, ?_⟩
  · rw [hist_run_append pre (.extend lo xs :: post) q q1 o1 h1, cont_run_cons h2 h3]
  · intro hk; obtain ⟨k, s⟩ := q3; cases hk; exact hq3
  · intro hk; obtain ⟨k, s⟩ := q3; cases hk; exact hq3

/-- the general form (`hist_run_heal` with the state-dependent set of rebuilding operations and harmless leaks afterwards) -/
theorem C01_heal_at (pre post : List (Op P)) (op : Op P) {q : Q P} (hq : QWF q)
    (hpre : ∀ o ∈ pre, o.Legal) (hop : op.Legal)
    (hr : ∀ q1 o1, run q pre = .ok (q1, o1) → C01_rebuildsAt q1 op = true)
    (hpost : ∀ o ∈ post, o.Legal) (hn : ∀ o ∈ post, o.isHarmfulLeak = false) :
    ∃ q' outs, run q (pre ++ op :: post) = .ok (q', outs) ∧ QInv q' := by
  obtain ⟨q1, o1, h1, hq1, _⟩ := hist_run_safe pre hq hpre
  obtain ⟨q2, o, h2, hq2⟩ := C01_step_rebuildAt hq1 hop (hr q1 o1 h1)
  obtain ⟨q3, o3, h3, hq3, _⟩ := C01_run_inv post hq2 hpost hn
  refine ⟨q3, o1 ++ o :: o3, ?_, hq3⟩
  rw [hist_run_append pre (op :: post) q q1 o1 h1, cont_run_cons h2 h3]

/-! ## (c) `clone_from`: histories in which the queue under test may be REPLACED by another queue -/

/-- an event of an extended history: a public operation on the queue under test, or the replacement of the queue under
test by (a copy of) another queue — `clone_from(&other)`, `*q = other.clone()`, `mem::swap`/`mem::replace` -/
inductive Ev (P : Type) where
  | op (o : Op P)
  | replace (r : Q P)

/-- run an extended history (a replacement returns `.unit`) -/
def runEv (q : Q P) : List (Ev P) → R (Q P × List (Out P))
  | [] => pure (q, [])
  | .op o :: evs => do
    let (q', out) ← step q o
    let (q'', outs) ← runEv q' evs
    pure (q'', out :: outs)
  | .replace r :: evs => do
    let (q'', outs) ← runEv r evs
    pure (q'', .unit :: outs)

/-- a history of operations is an extended history without replacements -/
theorem C01_runEv_ops (ops : List (Op P)) : ∀ (q : Q P), runEv q (ops.map Ev.op) = run q ops := by
  induction ops with
  | nil => intro q; rfl
  | cons op ops ih => intro q; simp only [List.map_cons, runEv, run, ih]

/-- what is demanded of an event: an operation is legal and not a harmful leak; a replacement queue satisfies the
invariant of its kind -/
def Ev.Good : Ev P → Prop
  | .op o => o.Legal ∧ o.isHarmfulLeak = false
  | .replace r => QInv r

/-- **C01/C02, reachability with replacements** (`clone_from`): if every operation of the extended history is legal and
no leaked guard wrote a priority, and every queue the queue under test is replaced by satisfies the invariant of its
kind, the extended history runs without fault and the final queue satisfies the invariant of its kind -/
theorem C01_reach_with_replacements (evs : List (Ev P)) : ∀ {q : Q P}, QInv q → (∀ ev ∈ evs, ev.Good) →
    ∃ q' outs, runEv q evs = .ok (q', outs) ∧ outs.length = evs.length ∧ QInv q' ∧
      (q'.kind = .pq → MaxQ.Inv q'.s) ∧ (q'.kind = .dpq → DQ.Inv q'.s) := by
  induction evs with
  | nil =>
    intro q hq _
    refine ⟨q, [], rfl, rfl, hq, ?_, ?_⟩
    · intro hk; obtain ⟨k, s⟩ := q; cases hk; exact hq
    · intro hk; obtain ⟨k, s⟩ := q; cases hk; exact hq
  | cons ev evs ih =>
    intro q hq hg
    have hg' : ∀ ev' ∈ evs, ev'.Good := fun ev' h' => hg ev' (List.mem_cons_of_mem _ h')
    cases ev with
    | op o =>
      obtain ⟨hl, hn⟩ : o.Legal ∧ o.isHarmfulLeak = false := hg _ List.mem_cons_self
      obtain ⟨q1, out, h1, hq1⟩ := C01_step_inv hq hl hn
      obtain ⟨q2, outs, h2, hlen, hq2, hpq, hdq⟩ := ih hq1 hg'
      refine ⟨q2, out :: outs, ?_, by simp [hlen], hq2, hpq, hdq⟩
      simp only [runEv, h1, h2, bind, Except.bind, pure, Except.pure]
    | replace r =>
      have hr : QInv r := hg _ List.mem_cons_self
      obtain ⟨q2, outs, h2, hlen, hq2, hpq, hdq⟩ := ih hr hg'
      refine ⟨q2, .unit :: outs, ?_, by simp [hlen], hq2, hpq, hdq⟩
      simp only [runEv, h2, bind, Except.bind, pure, Except.pure]

/-- … in particular **`clone_from` from any REACHABLE queue**: each replacement queue is itself the result of a legal
history without harmful leaks from `new()` of some kind (a clone is an equal copy of the store: `Clone` is derived) -/
theorem C01_reach_clone_from (evs : List (Ev P)) {q : Q P} (hq : QInv q)
    (hops : ∀ o, Ev.op o ∈ evs → o.Legal ∧ o.isHarmfulLeak = false)
    (hrep : ∀ r, Ev.replace r ∈ evs → ∃ (k : Kind) (ops : List (Op P)) (outs : List (Out P)),
      (∀ op ∈ ops, op.Legal) ∧ (∀ op ∈ ops, op.isHarmfulLeak = false) ∧ run (Q.new k) ops = .ok (r, outs)) :
    ∃ q' outs, runEv q evs = .ok (q', outs) ∧ outs.length = evs.length ∧ QInv q' ∧
      (q'.kind = .pq → MaxQ.Inv q'.s) ∧ (q'.kind = .dpq → DQ.Inv q'.s) := by
  refine C01_reach_with_replacements evs hq (fun ev hev => ?_)
  cases ev with
  | op o => exact hops o hev
  | replace r =>
    obtain ⟨k, ops, outs, hl, hn, hrun⟩ := hrep r hev
    obtain ⟨q', outs', hrun', hinv, _⟩ := C01_run_inv ops (hist_new_inv k) hl hn
    rw [hrun] at hrun'
    cases hrun'
    exact hinv

/-! ## Non-vacuity -/
section Examples

/-- pushes, then a LEAKED guard that walks over three elements and rewrites two payloads (no priority), then pops -/
private def exOpsA : List (Op Nat) :=
  [.push ⟨1, 0⟩ 5, .push ⟨2, 0⟩ 9, .push ⟨3, 0⟩ 7, .push ⟨4, 0⟩ 1,
   .iterMut true [(.next, ⟨none, some 100⟩), (.next, ⟨none, none⟩), (.next, ⟨none, some 300⟩)],
   .iterMut true [], .popFront, .changePriority 4 8]

-- the hypotheses of `C01_reach_harmless_leaks` / `C02_reach_harmless_leaks`: legal, two leaks, none harmful — and the
-- old exclusion `isLeak` does NOT hold of this history
example : (∀ op ∈ exOpsA, op.Legal) ∧ (∀ op ∈ exOpsA, op.isHarmfulLeak = false) ∧ ¬ (∀ op ∈ exOpsA, op.isLeak = false) := by
  refine ⟨?_, ?_, ?_⟩
  · intro op h
    simp only [exOpsA, List.mem_cons, List.not_mem_nil, or_false] at h
    rcases h with h | h | h | h | h | h | h | h <;> subst h <;> exact trivial
  · intro op h
    simp only [exOpsA, List.mem_cons, List.not_mem_nil, or_false] at h
    rcases h with h | h | h | h | h | h | h | h <;> subst h <;> rfl
  · intro h
    have := h (.iterMut true []) (by simp [exOpsA])
    simp [Op.isLeak] at this
-- … and the conclusion, evaluated: both kinds end ordered, the payload writes are there
example : hist_okR (run (Q.new .pq) exOpsA) (fun r => MaxQ.Inv r.1.s ∧ r.1.s.size = 3 ∧
    r.1.s.abs 1 = some (⟨1, 100⟩, 5) ∧ r.1.s.abs 3 = some (⟨3, 300⟩, 7) ∧ MaxQ.peek r.1.s = some (⟨4, 0⟩, 8)) := by
  decide +kernel
example : hist_okR (run (Q.new .dpq) exOpsA) (fun r => r.1.s.WF ∧ r.1.s.size = 3 ∧
    r.1.s.abs 2 = some (⟨2, 0⟩, 9) ∧ r.1.s.abs 3 = some (⟨3, 300⟩, 7) ∧
    hist_okR (DQ.peekMin r.1.s) (fun e => e = some (⟨1, 100⟩, 5)) ∧
    hist_okR (DQ.peekMax r.1.s) (fun e => e.2 = some (⟨2, 0⟩, 9))) := by decide +kernel

/-- eight pushes, a HARMFUL leak (the maximum gets the smallest priority: the order is broken) -/
private def exPre : List (Op Nat) :=
  [.push ⟨1, 0⟩ 5, .push ⟨2, 0⟩ 9, .push ⟨3, 0⟩ 7, .push ⟨4, 0⟩ 1, .push ⟨5, 0⟩ 3, .push ⟨6, 0⟩ 6, .push ⟨7, 0⟩ 2,
   .push ⟨8, 0⟩ 8, .iterMut true [(.next, ⟨some 100, none⟩), (.next, ⟨some 0, none⟩)]]

/-- seventeen pairs (two of them for stored keys), announced as seventeen: `better_to_rebuild(8, 17)` holds -/
private def exXs : Array (Item × Nat) := (Array.range 17).map (fun i => (⟨i + 7, 1⟩, 10 * i))

-- the hypotheses of `C01_step_extend_rebuild` / `C01_heal_by_extend`: after `exPre` the queue is well-formed but NOT
-- ordered, has length 8, and `better_to_rebuild(8, 17)` is true; the `extend` is legal
example : betterToRebuild 8 17 = true ∧ (Op.extend 17 exXs : Op Nat).Legal :=
  ⟨by decide +kernel, (by decide +kernel : 17 ≤ exXs.size ∧ exXs.size < capLimit)⟩
example : hist_okR (run (Q.new .pq) exPre) (fun r => r.1.s.WF ∧ ¬ MaxQ.Inv r.1.s ∧ r.1.s.size = 8) := by decide +kernel
-- (the `DoublePriorityQueue` is disordered as well: `peek_max` reports the entry whose priority was overwritten by `0`)
example : hist_okR (run (Q.new .dpq) exPre) (fun r => r.1.s.WF ∧ r.1.s.size = 8 ∧ r.1.s.abs 2 = some (⟨2, 0⟩, 0) ∧
    hist_okR (DQ.peekMin r.1.s) (fun e => e = some (⟨4, 0⟩, 1))) := by decide +kernel
-- … and the conclusion, evaluated: the rebuilding `extend` heals both kinds
example : hist_okR (run (Q.new .pq) (exPre ++ [.extend 17 exXs, .popFront])) (fun r => MaxQ.Inv r.1.s ∧
    r.1.s.size = 22 ∧ r.1.s.abs 7 = some (⟨7, 0⟩, 0) ∧ r.1.s.abs 8 = some (⟨8, 0⟩, 10) ∧
    MaxQ.peek r.1.s = some (⟨22, 1⟩, 150)) := by decide +kernel
example : hist_okR (run (Q.new .dpq) (exPre ++ [.extend 17 exXs])) (fun r => r.1.s.WF ∧ r.1.s.size = 23 ∧
    hist_okR (DQ.peekMin r.1.s) (fun e => e = some (⟨2, 0⟩, 0)) ∧
    hist_okR (DQ.peekMax r.1.s) (fun e => e.2 = some (⟨23, 1⟩, 160))) := by decide +kernel
-- the push strategy (`lo = 0`) does NOT heal: `C01_rebuildsAt` is state- and hint-dependent for a reason
example : hist_okR (run (Q.new .pq) (exPre ++ [.extend 0 #[(⟨20, 0⟩, 4)]])) (fun r => r.1.s.WF ∧ ¬ MaxQ.Inv r.1.s) := by
  decide +kernel

/-- an extended history: operations, a `clone_from` of a `DoublePriorityQueue` built elsewhere, more operations -/
private def exEvs : List (Ev Nat) :=
  [.op (.push ⟨1, 0⟩ 5), .op (.push ⟨2, 0⟩ 9), .replace ⟨.dpq, DQ.exQ⟩, .op .popBack, .op (.iterMut true [(.next, ⟨none, some 1⟩)]),
   .op (.push ⟨1, 7⟩ 0)]

example : ∀ ev ∈ exEvs, ev.Good := by
  intro ev h
  simp only [exEvs, List.mem_cons, List.not_mem_nil, or_false] at h
  rcases h with h | h | h | h | h | h <;> subst h <;> first | exact ⟨trivial, rfl⟩ | exact (DQ.exQ_inv : DQ.Inv DQ.exQ)
example : hist_okR (runEv (Q.new .pq) exEvs) (fun r => r.1.kind = .dpq ∧ r.1.s.WF ∧ r.1.s.size = 7 ∧ r.2.length = 6 ∧
    r.1.s.abs 8 = none ∧ hist_okR (DQ.peekMin r.1.s) (fun e => e = some (⟨1, 1⟩, 0))) := by decide +kernel

end Examples

end PQ

#print axioms PQ.C01_step_harmless_leak
#print axioms PQ.C01_step_inv
#print axioms PQ.C01_run_inv
#print axioms PQ.C01_reach_harmless_leaks
#print axioms PQ.C02_reach_harmless_leaks
#print axioms PQ.C01_reach_of_harmless
#print axioms PQ.C01_step_extend_rebuild
#print axioms PQ.C01_step_rebuildAt
#print axioms PQ.C01_heal_by_extend
#print axioms PQ.C01_heal_at
#print axioms PQ.C01_runEv_ops
#print axioms PQ.C01_reach_with_replacements
#print axioms PQ.C01_reach_clone_from
