import PQ.Lemmas.Contents
/-!
# C03 — Contents and return values match a map from item to priority

"At every point of any history a queue of either kind holds exactly one priority per distinct item, namely the last one
assigned to it, and len, is_empty, get, get_priority, get_mut, iter, into_iter and into_vec report exactly that set.
push returns the previous priority or None, change_priority the old priority, change_priority_by whether the item was
present, remove and the pop family the stored (item, priority) pair, and operations naming an absent item change
nothing.  No operation loses, duplicates or alters any element other than the ones it targets."

The abstract state is `AbsQ P = Nat → Option (Item × P)` (item key ↦ stored item and priority), read off a store by
`Store.abs`.  The specification `specStep kind a op o a'` (file `PQ/Lemmas/Contents.lean`) fixes, for each of the 27
public operations of `Ops.lean`, the returned value `o` and the new abstract state `a'`; it is a relation only because
WHICH stored pair the pop family addresses is left open here (C01/C02 say it is an extreme one).

* `C03_step_refines`, `C03_step_total`, `C03_history` — every legal operation / history on a well-formed queue of
  either kind refines the specification.  Only `WF` is assumed (`q.s.WF`, which is what `QWF q` of `History.lean`
  unfolds to): contents do not depend on the heap order, so this also covers the time after a leaked `iter_mut` guard.
* `C03_frame`, `C03_frame_pop`, `C03_frame_history` — no operation alters any element other than the one it targets.
* `C03_assigned` — the priority found after an assignment is the assigned one; with `C03_frame` and
  `C03_one_priority_per_item`: exactly one priority per item, the last one assigned.
* `C03_one_priority_per_item`, `C03_len`, `C03_is_empty`, `C03_card` — the representation: distinct slots hold distinct
  keys, `len` is the number of stored keys.
* `C03_lookups`, `C03_iter_yields` — `get`, `get_priority`, `get_mut`, `iter`/`into_iter`/`into_vec` report exactly the
  abstract state.
* `C03_absent_noop` — operations naming an absent item return `None`/`false` and leave the store EQUAL.
-/
set_option linter.unusedSectionVars false
set_option linter.unusedVariables false
namespace PQ
open Store
variable {P : Type} [LT P] [DecidableLT P] [LE P] [Std.IsLinearPreorder P] [Std.LawfulOrderLT P]

/-- **C03, one operation**: whatever a legal operation on a well-formed queue of either kind returned, the result and
the new contents are the ones the abstract specification prescribes. -/
theorem C03_step_refines {q q' : Q P} {op : Op P} {o : Out P} (hq : q.s.WF) (hl : op.Legal)
    (hs : step q op = .ok (q', o)) : specStep q.kind q.s.abs op o q'.s.abs :=
  (cont_step_refines hq hl hs).2.2

/-- … and it does return: no fault, the queue stays well-formed, the kind changes only by `From<other kind>` -/
theorem C03_step_total {q : Q P} (hq : q.s.WF) (op : Op P) (hl : op.Legal) :
    ∃ q' o, step q op = .ok (q', o) ∧ q'.s.WF ∧ q'.kind = cont_kindAfter q.kind op ∧
      specStep q.kind q.s.abs op o q'.s.abs :=
  cont_step_total' hq op hl

/-- **C03, histories**: every finite history of legal operations, started on any well-formed queue of either kind, runs
to the end and refines the specification step by step (`specRun` is the chain of `specStep`s) -/
theorem C03_history {q : Q P} (hq : q.s.WF) (ops : List (Op P)) (hl : ∀ op ∈ ops, op.Legal) :
    ∃ q' outs, run q ops = .ok (q', outs) ∧ q'.s.WF ∧ specRun q.kind q.s.abs ops outs q'.s.abs :=
  cont_run_total ops hq hl

/-- … in particular every history that starts with `new()`: the empty map is refined all the way -/
theorem C03_history_new (kind : Kind) (ops : List (Op P)) (hl : ∀ op ∈ ops, op.Legal) :
    ∃ q' outs, run (Q.new kind) ops = .ok (q', outs) ∧ q'.s.WF ∧ specRun kind (fun _ => none) ops outs q'.s.abs := by
  obtain ⟨q', outs, h1, h2, h3⟩ := C03_history (q := (Q.new kind : Q P)) wf_empty ops hl
  exact ⟨q', outs, h1, h2, h3⟩

/-- **Frame, single-element operations**: `push`, `push_increase`, `push_decrease`, `change_priority`,
`change_priority_by`, `remove`, `get_mut` leave every key other than the named one exactly as it was -/
theorem C03_frame {q q' : Q P} {op : Op P} {o : Out P} (hq : q.s.WF) (hl : op.Legal) (hs : step q op = .ok (q', o))
    {t : Nat} (ht : cont_target op = some t) : ∀ k, k ≠ t → q'.s.abs k = q.s.abs k :=
  fun _ hk => cont_spec_frame (C03_step_refines hq hl hs) ht hk

/-- **Frame, pop family and `peek_*_mut`**: when a pair is returned, every key other than the returned one is exactly
as it was (the `*_if` predicates may rewrite the returned item, never its key); when `pop`, `pop_min`, `pop_max`,
`peek_mut`, `peek_min_mut`, `peek_max_mut` return `None` nothing changed at all -/
theorem C03_frame_pop {q q' : Q P} {op : Op P} {r : Option (Item × P)} (hq : q.s.WF) (hl : op.Legal)
    (hs : step q op = .ok (q', .entry r))
    (hop : (op = .popFront ∨ op = .popBack ∨ (∃ w, op = .peekFrontMut w) ∨ (∃ w, op = .peekBackMut w)) ∨
      ((∃ f, op = .popFrontIf f) ∨ (∃ f, op = .popBackIf f))) :
    (∀ e, r = some e → ∀ k, k ≠ e.1.key → q'.s.abs k = q.s.abs k) ∧
    (r = none → ¬ ((∃ f, op = .popFrontIf f) ∨ (∃ f, op = .popBackIf f)) → q'.s.abs = q.s.abs) := by
  have hspec := C03_step_refines hq hl hs
  have pop : ∀ {a a' : AbsQ P}, specPop a (.entry r) a' →
      (∀ e, r = some e → ∀ k, k ≠ e.1.key → a' k = a k) ∧ (r = none → a' = a) := by
    intro a a' h
    rcases h with ⟨_, h1, rfl⟩ | ⟨e, _, h1, rfl⟩
    · exact ⟨fun _ _ _ _ => rfl, fun _ => rfl⟩
    · cases h1
      exact ⟨fun e' he k hk => by cases he; exact cont_absRemove_ne hk, fun hn => by cases hn⟩
  have peek : ∀ {w : Item → Item} {a a' : AbsQ P}, specPeekMut w a (.entry r) a' →
      (∀ e, r = some e → ∀ k, k ≠ e.1.key → a' k = a k) ∧ (r = none → a' = a) := by
    intro w a a' h
    rcases h with ⟨_, h1, rfl⟩ | ⟨e, _, h1, rfl⟩
    · exact ⟨fun _ _ _ _ => rfl, fun _ => rfl⟩
    · cases h1
      exact ⟨fun e' he k hk => by cases he; exact cont_absSet_ne hk, fun hn => by cases hn⟩
  have popIf : ∀ {f : Item → P → Bool × Item × P} {a a' : AbsQ P}, (∀ it p, (f it p).2.1.key = it.key) →
      specPopIf f a (.entry r) a' → (∀ e, r = some e → ∀ k, k ≠ e.1.key → a' k = a k) := by
    intro f a a' hf h
    rcases h with ⟨_, h1, rfl⟩ | ⟨e, _, ⟨_, h1, rfl⟩ | ⟨_, h1, rfl⟩⟩
    · exact fun _ _ _ _ => rfl
    · cases h1
      intro e' he k hk
      cases he
      exact cont_absRemove_ne (by rw [hf] at hk; exact hk)
    · cases h1
      intro e' he; cases he
  rcases hop with (rfl | rfl | ⟨w, rfl⟩ | ⟨w, rfl⟩) | ⟨f, rfl⟩ | ⟨f, rfl⟩
  · exact ⟨(pop hspec).1, fun hn _ => (pop hspec).2 hn⟩
  · obtain ⟨kind, s⟩ := q
    cases kind with
    | pq => rw [cont_step_popBack_pq] at hs; cases hs
    | dpq => exact ⟨(pop hspec).1, fun hn _ => (pop hspec).2 hn⟩
  · exact ⟨(peek hspec).1, fun hn _ => (peek hspec).2 hn⟩
  · obtain ⟨kind, s⟩ := q
    cases kind with
    | pq => rw [cont_step_peekBackMut_pq] at hs; cases hs
    | dpq => exact ⟨(peek hspec).1, fun hn _ => (peek hspec).2 hn⟩
  · exact ⟨popIf hl hspec, fun _ hn => absurd (.inl ⟨f, rfl⟩) hn⟩
  · obtain ⟨kind, s⟩ := q
    cases kind with
    | pq => rw [cont_step_popBackIf_pq] at hs; cases hs
    | dpq => exact ⟨popIf hl hspec, fun _ hn => absurd (.inr ⟨f, rfl⟩) hn⟩

/-- **The last priority assigned is the one held**: after `push it p` the item has priority `p`; after
`change_priority k p` / `change_priority_by k g` on a present item it has priority `p` / `g old`; after a
`push_increase` / `push_decrease` it has the offered priority if that moved it in the right direction (or the item was
new) and the old one otherwise.  In each case the stored ITEM is the one that was there (C12). -/
theorem C03_assigned {q q' : Q P} {o : Out P} (hq : q.s.WF) :
    (∀ it p, step q (.push it p) = .ok (q', o) →
      q'.s.abs it.key = some (((q.s.abs it.key).map (·.1)).getD it, p)) ∧
    (∀ k p e, step q (.changePriority k p) = .ok (q', o) → q.s.abs k = some e → q'.s.abs k = some (e.1, p)) ∧
    (∀ k g e, step q (.changePriorityBy k g) = .ok (q', o) → q.s.abs k = some e → q'.s.abs k = some (e.1, g e.2)) ∧
    (∀ it p, step q (.pushIncrease it p) = .ok (q', o) →
      q'.s.abs it.key = match q.s.abs it.key with
        | none => some (it, p)
        | some e => if e.2 < p then some (e.1, p) else some e) ∧
    (∀ it p, step q (.pushDecrease it p) = .ok (q', o) →
      q'.s.abs it.key = match q.s.abs it.key with
        | none => some (it, p)
        | some e => if p < e.2 then some (e.1, p) else some e) := by
  refine ⟨fun it p hs => ?_, fun k p e hs ha => ?_, fun k g e hs ha => ?_, fun it p hs => ?_, fun it p hs => ?_⟩
  · have h := C03_step_refines (op := .push it p) hq trivial hs
    rw [h.2]; exact cont_absPush_self
  · have h := C03_step_refines (op := .changePriority k p) hq trivial hs
    rw [h.2, ha]; exact cont_absSet_self
  · have h := C03_step_refines (op := .changePriorityBy k g) hq trivial hs
    rw [h.2, ha]; exact cont_absSet_self
  · obtain ⟨h0, h1, h2⟩ := C03_step_refines (op := .pushIncrease it p) hq trivial hs
    cases ha : q.s.abs it.key with
    | none => rw [(h0 ha).2, cont_absPush_self, ha]; rfl
    | some e =>
      by_cases hlt : e.2 < p
      · rw [(h1 e ha hlt).2, cont_absPush_self, ha]; simp [hlt]
      · rw [(h2 e ha hlt).2, ha]; simp [hlt]
  · obtain ⟨h0, h1, h2⟩ := C03_step_refines (op := .pushDecrease it p) hq trivial hs
    cases ha : q.s.abs it.key with
    | none => rw [(h0 ha).2, cont_absPush_self, ha]; rfl
    | some e =>
      by_cases hlt : p < e.2
      · rw [(h1 e ha hlt).2, cont_absPush_self, ha]; simp [hlt]
      · rw [(h2 e ha hlt).2, ha]; simp [hlt]

/-- **Frame, histories**: a history of single-element operations none of which names `k` leaves `k` exactly as it was
(item, payload and priority): interleaved operations on other items never alter, lose or duplicate it -/
theorem C03_frame_history {k : Nat} (ops : List (Op P)) : ∀ {q q' : Q P} {outs : List (Out P)}, q.s.WF →
    (∀ op ∈ ops, op.Legal ∧ ∃ t, cont_target op = some t ∧ t ≠ k) → run q ops = .ok (q', outs) →
    q'.s.abs k = q.s.abs k := by
  induction ops with
  | nil => intro q q' outs _ _ hr; rw [cont_run_nil] at hr; cases hr; rfl
  | cons op ops ih =>
    intro q q' outs hq hl hr
    obtain ⟨q1, o, os, h1, h2, rfl⟩ := cont_run_cons_inv hr
    obtain ⟨hl1, t, ht, hne⟩ := hl op List.mem_cons_self
    have hq1 := (cont_step_refines hq hl1 h1).1
    rw [ih hq1 (fun op' hop => hl op' (List.mem_cons_of_mem _ hop)) h2]
    exact C03_frame hq hl1 h1 ht k (fun hk => hne hk.symm)

/-! ## The representation: one slot, hence one priority, per distinct item -/

/-- **one priority per distinct item**: two slots of the map holding the same key are the same slot -/
theorem C03_one_priority_per_item {s : Store P} (h : s.WF) :
    ∀ (i j : Nat) (a b : Item × P), s.map[i]? = some a → s.map[j]? = some b → a.1.key = b.1.key → i = j :=
  h.nodup

/-- `len()` is the number of slots of the map … -/
theorem C03_len {s : Store P} (h : s.WF) : s.len = s.map.size := h.map_size.symm

/-- … which is the number of distinct keys the abstract state holds -/
theorem C03_card {s : Store P} (h : s.WF) :
    ∃ keys : List Nat, keys.Nodup ∧ keys.length = s.len ∧ ∀ k, k ∈ keys ↔ (s.abs k).isSome = true :=
  cont_absCard_of_WF h

/-- `is_empty()` answers whether the abstract state holds nothing -/
theorem C03_is_empty {s : Store P} (h : s.WF) : s.isEmpty = true ↔ ∀ k, s.abs k = none := by
  constructor
  · intro he k
    exact DQ.abs_none_of_size_zero h (by simpa [Store.isEmpty] using he) k
  · intro hn
    obtain ⟨keys, _, hlen, hm⟩ := C03_card h
    cases keys with
    | nil => simp only [List.length_nil] at hlen; simp [Store.isEmpty, Store.len] at hlen ⊢; omega
    | cons k ks =>
      have := (hm k).1 List.mem_cons_self
      rw [hn k] at this; cases this

/-- **Lookups report exactly the abstract state**: `get`, `get_priority`, `get_mut` (which returns the stored pair and
rewrites only the item, through a key-preserving write), and the entries `iter` / `into_iter` / `into_vec` / `drain`
walk over — the slot array of the map — are exactly the pairs of the abstract state, each once -/
theorem C03_lookups {s : Store P} (h : s.WF) :
    (∀ k, s.get k = s.abs k) ∧
    (∀ k, s.getPriority k = (s.abs k).map (·.2)) ∧
    (∀ k w, (∀ it, (w it).key = it.key) → (s.getMutWrite k w).2 = s.abs k ∧
      (s.getMutWrite k w).1.abs = (match s.abs k with | none => s.abs | some e => absSet s.abs k (w e.1, e.2))) ∧
    (∀ e, e ∈ s.map.toList ↔ s.abs e.1.key = some e) ∧
    (s.map.toList.map (·.1.key)).Nodup ∧
    s.map.toList.length = s.len := by
  refine ⟨fun k => get_eq_lookup s k, fun k => getPriority_eq_lookup s k, fun k w hw => ?_, cont_mem_toList_iff h,
    IMap.noDupKeys_iff_nodup.1 h.nodup, by simp [Store.len, h.map_size]⟩
  cases ha : s.abs k with
  | none => rw [getMutWrite_spec_none ha w]; exact ⟨rfl, rfl⟩
  | some e =>
    obtain ⟨s', pos, e1, _, _, _, _, _, _, _, _, e3⟩ := getMutWrite_spec_some h ha w (hw e.1)
    rw [e1]; exact ⟨rfl, funext e3⟩

/-- **`iter` / `into_iter` / `drain` as cursors over the slot array**: whatever calls (`next`, `next_back`, `len`,
`size_hint`) the client makes, the yielded slots are distinct, each holds a pair of the abstract state, and a fully
consumed iterator has yielded every slot exactly once -/
theorem C03_iter_yields {s : Store P} (h : s.WF) (calls : List ICall) :
    (slots (Cursor.run (Cursor.new s.map.size) calls)).Nodup ∧
    (∀ i ∈ slots (Cursor.run (Cursor.new s.map.size) calls), ∃ e, s.map[i]? = some e ∧ s.abs e.1.key = some e) ∧
    (s.map.size ≤ adv calls → (slots (Cursor.run (Cursor.new s.map.size) calls)).Perm (List.range' 0 s.map.size)) := by
  refine ⟨Cursor.slots_nodup _ calls, fun i hi => ?_, fun hadv => ?_⟩
  · have hb := (Cursor.slots_bounds (Cursor.new s.map.size) calls i hi).2
    have hi' : i < s.map.size := hb
    exact ⟨s.map[i], Array.getElem?_eq_getElem hi', IMap.lookup_of_getElem? h.nodup (Array.getElem?_eq_getElem hi')⟩
  · exact Cursor.slots_perm (Cursor.new s.map.size) calls (by simpa [Cursor.new, Cursor.remaining] using hadv)

/-- **Operations naming an absent item change nothing**: `change_priority`, `change_priority_by`, `remove`, `get_mut`
on an absent key return `None` / `false` and the very same store (both kinds; not even the ghost counter moves) -/
theorem C03_absent_noop {kind : Kind} {s : Store P} (h : s.WF) {k : Nat} (ha : s.abs k = none) :
    (∀ p, step ⟨kind, s⟩ (.changePriority k p) = .ok (⟨kind, s⟩, .prio none)) ∧
    (∀ g, step ⟨kind, s⟩ (.changePriorityBy k g) = .ok (⟨kind, s⟩, .bool false)) ∧
    step ⟨kind, s⟩ (.remove k) = .ok (⟨kind, s⟩, .entry none) ∧
    (∀ w, step ⟨kind, s⟩ (.getMut k w) = .ok (⟨kind, s⟩, .entry none)) := by
  refine ⟨fun p => ?_, fun g => ?_, ?_, fun w => ?_⟩
  · obtain ⟨s', e1, _, e3, _⟩ := cont_step_changePriority (kind := kind) h k p
    rw [e1, e3 ha, ha]; rfl
  · obtain ⟨s', e1, _, e3, _⟩ := cont_step_changePriorityBy (kind := kind) h k g
    rw [e1, e3 ha, ha]; rfl
  · obtain ⟨s', e1, _, _, e3⟩ := cont_step_remove (kind := kind) h k
    rw [e1, e3 ha, ha]
  · simp [step, getMutWrite_spec_none ha w, pure, Except.pure]

/-! ## Non-vacuity: concrete queues of both kinds -/
section Examples

private def exOps : List (Op Nat) :=
  [.push ⟨4, 0⟩ 8, .push ⟨6, 60⟩ 2, .changePriority 1 0, .remove 2, .popFront, .getMut 5 (fun it => ⟨it.key, 7⟩),
   .push ⟨2, 21⟩ 4, .pushIncrease ⟨6, 0⟩ 1, .convert, .popBack, .append (Store.fromVec #[(⟨9, 0⟩, 1)])]

-- the hypotheses of `C03_step_refines` / `C03_step_total` / `C03_frame` / `C03_assigned`: a well-formed queue of
-- each kind, a legal operation, a successful step (re-inserting a present item with another payload)
example : (⟨.pq, cont_ex5⟩ : Q Nat).s.WF ∧ (⟨.dpq, cont_exD⟩ : Q Nat).s.WF := by decide +kernel
example : (Op.push ⟨4, 0⟩ 8 : Op Nat).Legal ∧ cont_target (Op.push ⟨4, 0⟩ 8 : Op Nat) = some 4 := ⟨trivial, rfl⟩
example : cont_okR (step ⟨.pq, cont_ex5⟩ (.push ⟨4, 0⟩ 8)) (fun r => cont_outPrio r.2 = some (some 1) ∧
    r.1.s.abs 4 = some (⟨4, 40⟩, 8) ∧ r.1.s.abs 3 = cont_ex5.abs 3) := by decide +kernel
example : cont_okR (step ⟨.dpq, cont_exD⟩ (.push ⟨4, 0⟩ 8)) (fun r => cont_outPrio r.2 = some (some 1) ∧
    r.1.s.abs 4 = some (⟨4, 40⟩, 8) ∧ r.1.s.abs 3 = cont_exD.abs 3) := by decide +kernel
example : cont_okR (step ⟨.pq, cont_ex5⟩ (.changePriority 2 0)) (fun r => cont_outPrio r.2 = some (some 9) ∧
    r.1.s.abs 2 = some (⟨2, 20⟩, 0)) := by decide +kernel
-- `C03_frame_pop`: a pop of each kind returns a stored pair
example : cont_okR (step ⟨.pq, cont_ex5⟩ .popFront) (fun r => cont_outEntry r.2 = some (some (⟨2, 20⟩, 9)) ∧
    r.1.s.abs 2 = none ∧ r.1.s.abs 3 = cont_ex5.abs 3) := by decide +kernel
example : cont_okR (step ⟨.dpq, cont_exD⟩ .popBack) (fun r => cont_outEntry r.2 = some (some (⟨2, 20⟩, 9)) ∧
    r.1.s.abs 2 = none) := by decide +kernel
-- `C03_history`: a history of legal operations on both kinds (with a conversion in the middle)
example : ∀ op ∈ exOps, op.Legal := by
  intro op hop
  simp only [exOps, List.mem_cons, List.not_mem_nil, or_false] at hop
  rcases hop with rfl | rfl | rfl | rfl | rfl | rfl | rfl | rfl | rfl | rfl | rfl <;>
    first | trivial | exact fun _ => rfl | (show Store.WF _; decide +kernel)
example : cont_okR (run ⟨.pq, cont_ex5⟩ exOps) (fun r => r.1.kind = .dpq ∧ r.1.s.WF ∧ r.1.s.len = 5 ∧
    r.1.s.abs 1 = some (⟨1, 10⟩, 0) ∧ r.1.s.abs 2 = some (⟨2, 21⟩, 4) ∧ r.1.s.abs 3 = none ∧ r.1.s.abs 4 = none ∧
    r.1.s.abs 5 = some (⟨5, 7⟩, 3) ∧ r.1.s.abs 6 = some (⟨6, 60⟩, 2) ∧ r.1.s.abs 9 = some (⟨9, 0⟩, 1)) := by decide +kernel
-- `C03_one_priority_per_item`, `C03_len`, `C03_card`, `C03_is_empty`, `C03_lookups`
example : cont_ex5.WF ∧ cont_ex5.len = 5 ∧ cont_ex5.isEmpty = false ∧ cont_ex5.get 4 = some (⟨4, 40⟩, 1) ∧
    cont_ex5.getPriority 4 = some 1 ∧ cont_ex5.get 7 = none := by decide +kernel
-- `C03_frame_history`: a history of single-element operations none of which names key 3
example : cont_okR (run ⟨.dpq, cont_exD⟩ [.push ⟨4, 0⟩ 8, .remove 1, .changePriority 2 0, .push ⟨1, 0⟩ 3, .getMut 5 id])
    (fun r => r.1.s.abs 3 = cont_exD.abs 3 ∧ r.1.s.abs 1 = some (⟨1, 0⟩, 3)) := by decide +kernel
-- `C03_iter_yields`: a fully consumed double-ended walk over the five slots
example : slots (Cursor.run (Cursor.new cont_ex5.map.size) [.next, .nextBack, .len, .next, .next, .nextBack, .next]) =
    [0, 4, 1, 2, 3] := by decide +kernel
-- `C03_absent_noop`: key 7 is absent
example : cont_ex5.WF ∧ cont_ex5.abs 7 = none ∧ cont_exD.WF ∧ cont_exD.abs 7 = none := by decide +kernel

end Examples

end PQ

#print axioms PQ.C03_step_refines
#print axioms PQ.C03_step_total
#print axioms PQ.C03_history
#print axioms PQ.C03_history_new
#print axioms PQ.C03_frame
#print axioms PQ.C03_frame_pop
#print axioms PQ.C03_frame_history
#print axioms PQ.C03_assigned
#print axioms PQ.C03_one_priority_per_item
#print axioms PQ.C03_len
#print axioms PQ.C03_card
#print axioms PQ.C03_is_empty
#print axioms PQ.C03_lookups
#print axioms PQ.C03_iter_yields
#print axioms PQ.C03_absent_noop
