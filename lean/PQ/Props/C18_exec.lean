import PQ.Lemmas.HashExec
import PQ.Props.C04
/-!
# C18 — supplement: a hasher-indexed EXECUTION returns what the hasher-free model returns, for every hasher

`C18_more` shows that a hash-indexed lookup finds the slot the model's linear search finds, on the final state of a history.
The objection to it: "`run` never consults an index: no hasher-indexed execution is ever defined".  This file closes that gap.

`Lemmas/HashExec.lean` defines `stepH ix` / `runH ix`: the operations of the crate with EVERY search by key that they perform
through the IndexMap (`contains_key`, `get_full(_mut)`, `insert_full` / `entry`, `swap_remove_full`; in `push`, `push_increase`,
`push_decrease`, `change_priority(_by)`, `remove`, `get_mut`, `extend` (both strategies), `append` (after the swap of the two
queues), `From<Vec>`, `FromIterator`, `Deserialize`) going through the hash index `ix m` of the current map `m` —
`(ix m).find? m k`: hash the key with the hasher, probe the slots filed under that hash value in the table's probe order,
compare keys with `Eq` — instead of the model's linear search.  The list of re-defined functions is in the header of that
file; the remaining operations reach entries by slot number / heap position only and are shared with `step`.

Proved here: for every family of indices that is `Valid` on maps with unique keys (IndexMap's own invariant), on every
well-formed queue and for every legal operation the indexed execution equals the model's execution — same state (ghost
comparison counter included), same return value, same fault; hence for every legal history; hence two hashers (two index
families) produce EQUAL executions.  That is stronger than the property asks (equality, not "up to ties").

What remains trusted: that IndexMap keeps its table valid (`hv`), i.e. files every stored slot under the hash of its key and
nothing else.  How it does so is not modelled.
-/
namespace PQ
variable {P : Type} [LT P] [DecidableLT P] [LE P] [Std.IsLinearPreorder P] [Std.LawfulOrderLT P]

/-- one operation, any lookup function that agrees with the linear search on maps with unique keys -/
theorem C18_stepL_eq_step {look : Look P} (hk : look.Agrees) {q : Q P} (hq : QWF q) {op : Op P} (hl : op.Legal) :
    stepL look q op = step q op := by
  obtain ⟨k, s⟩ := q
  have h : s.WF := hq
  have hn : s.map.NoDupKeys := h.nodup
  cases op with
  | push it p => cases k <;> simp only [stepL, step, MaxQH.push_eq hk hn, DQH.push_eq hk hn]
  | pushIncrease it p => cases k <;> simp only [stepL, step, MaxQH.pushIncrease_eq hk hn, DQH.pushIncrease_eq hk hn]
  | pushDecrease it p => cases k <;> simp only [stepL, step, MaxQH.pushDecrease_eq hk hn, DQH.pushDecrease_eq hk hn]
  | changePriority key p =>
    cases k <;> simp only [stepL, step, MaxQH.changePriority_eq hk hn, DQH.changePriority_eq hk hn]
  | changePriorityBy key g =>
    cases k <;> simp only [stepL, step, MaxQH.changePriorityBy_eq hk hn, DQH.changePriorityBy_eq hk hn]
  | remove key => cases k <;> simp only [stepL, step, MaxQH.remove_eq hk hn, DQH.remove_eq hk hn]
  | getMut key w => simp only [stepL, step, StoreH.getMutWrite_eq hk hn]
  | extend lo xs => cases k <;> simp only [stepL, step, MaxQH.extend_eq hk h, DQH.extend_eq hk h]
  | append o =>
    have ho : o.WF := hl
    cases k <;> simp only [stepL, step, MaxQH.append_eq hk h ho, DQH.append_eq hk h ho]
  | fromVec xs => cases k <;> simp only [stepL, step, MaxQH.fromVec_eq hk, DQH.fromVec_eq hk]
  | fromIter lo xs => cases k <;> simp only [stepL, step, MaxQH.fromIter_eq hk, DQH.fromIter_eq hk]
  | deserialize hint xs => cases k <;> simp only [stepL, step, MaxQH.deserialize_eq hk, DQH.deserialize_eq hk]
  | popFront | popBack | popFrontIf f | popBackIf f | peekFrontMut w | peekBackMut w | retainMut f | iterMut leak prog
  | convert | clear | drain | capacityOp => rfl

/-- **C18, one operation, executed through the hash index**: for every index family `ix` (hasher + probe orders, one index
per map) that is valid on maps with unique keys, on every well-formed queue and for every legal operation, the execution
that performs all key searches through `ix` equals the model's — same new state, same return value, same fault. -/
theorem C18_stepH_eq_step (ix : IMap P → HIndex) (hv : ∀ m : IMap P, m.NoDupKeys → (ix m).Valid m)
    {q : Q P} (hq : QWF q) {op : Op P} (hl : op.Legal) : stepH ix q op = step q op :=
  C18_stepL_eq_step (HIndex.lookOf_agrees ix hv) hq hl

theorem C18_runL_eq_run {look : Look P} (hk : look.Agrees) : ∀ (ops : List (Op P)) {q : Q P}, QWF q →
    (∀ op ∈ ops, op.Legal) → runL look q ops = run q ops
  | [], _, _, _ => rfl
  | op :: ops, q, hq, hl => by
    have hop : op.Legal := hl op (List.mem_cons_self ..)
    obtain ⟨q1, o, h1, hq1⟩ := hist_step_safe hq hop
    simp only [runL, run, C18_stepL_eq_step hk hq hop, h1, bind, Except.bind]
    rw [C18_runL_eq_run hk ops hq1 (fun op' h' => hl op' (List.mem_cons_of_mem _ h'))]

/-- **C18, every history, executed through the hash index** (from any well-formed queue): the indexed run equals the
model's run — final state, the whole list of return values, or the same fault at the same operation (there is none:
`C04`). -/
theorem C18_runH_eq_run (ix : IMap P → HIndex) (hv : ∀ m : IMap P, m.NoDupKeys → (ix m).Valid m)
    (ops : List (Op P)) {q : Q P} (hq : QWF q) (hl : ∀ op ∈ ops, op.Legal) : runH ix q ops = run q ops :=
  C18_runL_eq_run (HIndex.lookOf_agrees ix hv) ops hq hl

/-- … in particular from `new()` of either kind -/
theorem C18_runH_eq_run_new (ix : IMap P → HIndex) (hv : ∀ m : IMap P, m.NoDupKeys → (ix m).Valid m)
    (ops : List (Op P)) (hl : ∀ op ∈ ops, op.Legal) (k : Kind) : runH ix (Q.new k) ops = run (Q.new k) ops :=
  C18_runH_eq_run ix hv ops (hist_new_wf k) hl

/-- the same when the index family is a different one at every operation (the real table depends on the whole past, not
on the current entries alone) -/
theorem C18_runHv_eq_run (ix : Nat → IMap P → HIndex) (hv : ∀ t (m : IMap P), m.NoDupKeys → (ix t m).Valid m) :
    ∀ (ops : List (Op P)) (t : Nat) {q : Q P}, QWF q → (∀ op ∈ ops, op.Legal) → runHv ix t q ops = run q ops
  | [], _, _, _, _ => rfl
  | op :: ops, t, q, hq, hl => by
    have hop : op.Legal := hl op (List.mem_cons_self ..)
    obtain ⟨q1, o, h1, hq1⟩ := hist_step_safe hq hop
    simp only [runHv, run, C18_stepH_eq_step (ix t) (hv t) hq hop, h1, bind, Except.bind]
    rw [C18_runHv_eq_run ix hv ops (t + 1) hq1 (fun op' h' => hl op' (List.mem_cons_of_mem _ h'))]

/-- **C18: the outputs do not depend on the hasher.**  Two queues instantiated with two hashers — two index families
`ix₁`, `ix₂`, whatever their hash functions (randomly keyed, fixed, `no_std`, constant) and probe orders — and driven by the
same legal history from `new()` execute identically: the same final state and the same sequence of return values
(EXACTLY the same, not only up to the choice among equal priorities). -/
theorem C18_outputs_hasher_independent (ix₁ ix₂ : IMap P → HIndex)
    (hv₁ : ∀ m : IMap P, m.NoDupKeys → (ix₁ m).Valid m) (hv₂ : ∀ m : IMap P, m.NoDupKeys → (ix₂ m).Valid m)
    (ops : List (Op P)) (hl : ∀ op ∈ ops, op.Legal) (k : Kind) :
    runH ix₁ (Q.new k) ops = runH ix₂ (Q.new k) ops := by
  rw [C18_runH_eq_run_new ix₁ hv₁ ops hl k, C18_runH_eq_run_new ix₂ hv₂ ops hl k]

/-- … and both runs do return (no fault), one value per operation, the values of the hasher-free model -/
theorem C18_outputs_hasher_independent_ok (ix₁ ix₂ : IMap P → HIndex)
    (hv₁ : ∀ m : IMap P, m.NoDupKeys → (ix₁ m).Valid m) (hv₂ : ∀ m : IMap P, m.NoDupKeys → (ix₂ m).Valid m)
    (ops : List (Op P)) (hl : ∀ op ∈ ops, op.Legal) (k : Kind) :
    ∃ q' outs, runH ix₁ (Q.new k) ops = .ok (q', outs) ∧ runH ix₂ (Q.new k) ops = .ok (q', outs) ∧
      run (Q.new k) ops = .ok (q', outs) ∧ QWF q' ∧ outs.length = ops.length := by
  obtain ⟨q', outs, h1, hwf, hlen⟩ := hist_run_safe ops (hist_new_wf k) hl
  exact ⟨q', outs, by rw [C18_runH_eq_run_new ix₁ hv₁ ops hl k, h1], by rw [C18_runH_eq_run_new ix₂ hv₂ ops hl k, h1],
    h1, hwf, hlen⟩

/-- from any well-formed queue, and with index families that change from operation to operation -/
theorem C18_outputs_hasher_independent_from (ix₁ ix₂ : Nat → IMap P → HIndex)
    (hv₁ : ∀ t (m : IMap P), m.NoDupKeys → (ix₁ t m).Valid m) (hv₂ : ∀ t (m : IMap P), m.NoDupKeys → (ix₂ t m).Valid m)
    (ops : List (Op P)) {q : Q P} (hq : QWF q) (hl : ∀ op ∈ ops, op.Legal) :
    runHv ix₁ 0 q ops = runHv ix₂ 0 q ops := by
  rw [C18_runHv_eq_run ix₁ hv₁ ops 0 hq hl, C18_runHv_eq_run ix₂ hv₂ ops 0 hq hl]

/-! ## non-vacuity -/
section Examples

/-- the degenerate hasher: every item hashes to 0 (one bucket holds every slot) -/
private def ixDeg : IMap Nat → HIndex := HIndex.family fun _ => 0
/-- an injective hasher (every bucket holds at most one slot) -/
private def ixInj : IMap Nat → HIndex := HIndex.family fun k => k
/-- a hasher with collisions (`k mod 3`) and the reverse probe order inside every bucket -/
private def ixRev : IMap Nat → HIndex := HIndex.familyRev fun k => k % 3
/-- NOT a valid table: nothing is filed (every lookup misses) -/
private def ixBad : IMap Nat → HIndex := fun _ => { hash := fun _ => 0, bucket := fun _ => [] }

-- the hypotheses `hv` of the theorems are satisfiable: the three families are valid on every map
example : ∀ m : IMap Nat, m.NoDupKeys → (ixDeg m).Valid m := fun m _ => HIndex.family_valid _ m
example : ∀ m : IMap Nat, m.NoDupKeys → (ixInj m).Valid m := fun m _ => HIndex.family_valid _ m
example : ∀ m : IMap Nat, m.NoDupKeys → (ixRev m).Valid m := fun m _ => HIndex.familyRev_valid _ m

-- … and they are really different tables: one bucket with every slot / one slot per bucket / two slots in reverse order
private def exM : IMap Nat := #[(⟨1, 0⟩, 5), (⟨2, 0⟩, 3), (⟨4, 0⟩, 7)]
example : (ixDeg exM).bucket 0 = [0, 1, 2] ∧ (ixDeg exM).bucket 1 = [] ∧
    (ixInj exM).bucket 0 = [] ∧ (ixInj exM).bucket 1 = [0] ∧ (ixInj exM).bucket 2 = [1] ∧ (ixInj exM).bucket 4 = [2] ∧
    (ixRev exM).bucket 1 = [2, 0] ∧ (ixRev exM).bucket 2 = [1] := by decide +kernel

/-- another queue with two elements, one of them (key 2) also in the receiver: `append` with a clash -/
private def exOther : Store Nat :=
  match run (Q.new .pq) [.fromVec #[(⟨2, 7⟩, 50), (⟨9, 0⟩, 4)]] with
  | .ok (q, _) => q.s
  | .error _ => Store.empty
/-- a queue LARGER than the receiver will be at that moment (the two are swapped), with a clash on key 6 -/
private def exBig : Store Nat :=
  match run (Q.new .pq) [.fromVec #[(⟨6, 9⟩, 1), (⟨7, 0⟩, 8), (⟨8, 0⟩, 3)]] with
  | .ok (q, _) => q.s
  | .error _ => Store.empty

private def exOps : List (Op Nat) :=
  [.fromVec #[(⟨1, 0⟩, 5), (⟨2, 0⟩, 3), (⟨1, 1⟩, 9), (⟨3, 0⟩, 7)],   -- `From<Vec>` with a repeated item (key 1)
   .push ⟨2, 5⟩ 8,                                                   -- push of an existing key
   .push ⟨4, 0⟩ 1,                                                   -- push of a new key
   .pushIncrease ⟨3, 0⟩ 10, .pushDecrease ⟨4, 0⟩ 0, .pushIncrease ⟨5, 0⟩ 6, .pushDecrease ⟨1, 0⟩ 70,
   .changePriority 1 2, .changePriority 66 2, .changePriorityBy 2 (· + 1),
   .remove 3, .remove 77,                                            -- remove of a present and of an absent key
   .getMut 1 (fun it => ⟨it.key, 42⟩),
   .append exOther,                                                  -- append with a clash (key 2)
   .extend 0 #[(⟨5, 1⟩, 6), (⟨11, 0⟩, 11), (⟨12, 0⟩, 2), (⟨13, 0⟩, 13)],   -- per-element strategy (key 5 present)
   .extend 17 (Array.ofFn (n := 17) fun i => (⟨i.val % 5 + 8, 0⟩, i.val)),  -- rebuild strategy (keys 9, 11, 12 present)
   .popFront,
   .fromIter 2 #[(⟨1, 0⟩, 1), (⟨1, 1⟩, 2)],
   .deserialize (some 3) #[(⟨6, 0⟩, 1), (⟨6, 1⟩, 2)],
   .append exBig,                                                    -- the other queue is larger: swapped; clash on key 6
   .popFront, .popBack]

example : exOther.WF ∧ exBig.WF ∧ exOther.size = 2 ∧ exBig.size = 3 := by decide +kernel
-- the second `extend` runs on eight elements and takes the rebuild strategy; the second `append` meets a one-element queue
example : hist_okR (run (Q.new .pq) (exOps.take 15)) (fun r => r.1.s.size = 8) ∧
    hist_okR (run (Q.new .dpq) (exOps.take 15)) (fun r => r.1.s.size = 8) ∧ Arith.betterToRebuild 8 17 = true ∧
    hist_okR (run (Q.new .pq) (exOps.take 19)) (fun r => r.1.s.size = 1) := by decide +kernel

example : ∀ op ∈ exOps, op.Legal := by
  intro op h
  simp only [exOps, List.mem_cons, List.not_mem_nil, or_false] at h
  rcases h with h | h | h | h | h | h | h | h | h | h | h | h | h | h | h | h | h | h | h | h | h | h <;>
    subst h <;> first | exact trivial | (intro _; rfl) | (show Store.WF _; decide +kernel) |
      (show _ ∧ _ < capLimit; decide +kernel)

/-- what an observer sees of a run (`obs`): the return values, coded as numbers, followed by the whole final state (map
entries, the two tables, size and comparison counter) -/
private def outCode : Out Nat → List Nat
  | .unit => [0]
  | .prio none => [1]
  | .prio (some p) => [1, p]
  | .entry none => [2]
  | .entry (some (it, p)) => [2, it.key, it.payload, p]
  | .bool b => [3, b.toNat]
  | .entries l => 4 :: l.flatMap fun e => [e.1.key, e.1.payload, e.2]
  | .outs l => [5, l.length]
  | .other a b c d => [6, a, b, c, d]
  | .nat n => [7, n]
  | .debug l => [8, l.length]

private def obs (r : R (Q Nat × List (Out Nat))) : Option (List (List Nat)) :=
  match r with
  | .ok (q, outs) =>
    some (outs.map outCode ++ [q.s.map.toList.flatMap (fun e => [e.1.key, e.1.payload, e.2]), q.s.heap.toList, q.s.qp.toList,
      [q.s.size, q.s.ticks]])
  | .error _ => none

-- the three indexed executions and the model run the history to the same end, with the same return values …
example : (obs (run (Q.new .pq) exOps)).isSome ∧
    obs (runH ixDeg (Q.new .pq) exOps) = obs (run (Q.new .pq) exOps) ∧
    obs (runH ixInj (Q.new .pq) exOps) = obs (run (Q.new .pq) exOps) ∧
    obs (runH ixRev (Q.new .pq) exOps) = obs (run (Q.new .pq) exOps) := by decide +kernel
example : (obs (run (Q.new .dpq) exOps)).isSome ∧
    obs (runH ixDeg (Q.new .dpq) exOps) = obs (run (Q.new .dpq) exOps) ∧
    obs (runH ixInj (Q.new .dpq) exOps) = obs (run (Q.new .dpq) exOps) ∧
    obs (runH ixRev (Q.new .dpq) exOps) = obs (run (Q.new .dpq) exOps) := by decide +kernel
-- the return values themselves, under the degenerate hasher (first fourteen operations): `()`, `Some(3)` for the push of
-- the existing key, `None`, …, `Some((3, 10))` / `None` for the two removes, `Some((1, 2))`, and the drained other queue
example : (obs (runH ixDeg (Q.new .pq) (exOps.take 14))).map (·.take 14) =
    some [[0], [1, 3], [1], [1, 7], [1, 1], [1], [1, 70], [1, 5], [1], [3, 1], [2, 3, 0, 10], [2], [2, 1, 0, 2],
      [6, 0, 0, 0, 0]] := by decide +kernel
-- … also when the table changes from operation to operation
example : obs (runHv (fun t => if t % 3 = 0 then ixDeg else if t % 3 = 1 then ixInj else ixRev) 0 (Q.new .dpq) exOps) =
    obs (run (Q.new .dpq) exOps) := by decide +kernel

-- the indexed execution really consults the index: with a table in which nothing is filed every lookup misses, the
-- repeated item of `From<Vec>` is stored twice and the push of the existing key 2 reports "new" — validity is needed
example : (obs (runH ixBad (Q.new .pq) (exOps.take 2))).map (fun l => (l.take 2, (l.getD 2 []).length)) = some ([[0], [1]], 15) ∧
    (obs (run (Q.new .pq) (exOps.take 2))).map (fun l => (l.take 2, (l.getD 2 []).length)) = some ([[0], [1, 3]], 9) := by
  decide +kernel
-- … and so is uniqueness of keys (`QWF`): on a map holding key 1 twice, two valid tables with different probe orders
-- return different entries
private def exDup : Q Nat := ⟨.pq, { map := #[(⟨1, 0⟩, 5), (⟨1, 1⟩, 6)], heap := #[1, 0], qp := #[1, 0], size := 2 }⟩
example : ¬ exDup.s.WF ∧ (HIndex.family (fun _ => 0) exDup.s.map).Valid exDup.s.map ∧
    (HIndex.familyRev (fun _ => 0) exDup.s.map).Valid exDup.s.map :=
  ⟨by decide +kernel, HIndex.family_valid _ _, HIndex.familyRev_valid _ _⟩
example : obs (runH (HIndex.family fun _ => 0) exDup [.getMut 1 id]) ≠
    obs (runH (HIndex.familyRev fun _ => 0) exDup [.getMut 1 id]) := by decide +kernel

end Examples

end PQ

#print axioms PQ.C18_stepL_eq_step
#print axioms PQ.C18_stepH_eq_step
#print axioms PQ.C18_runL_eq_run
#print axioms PQ.C18_runH_eq_run
#print axioms PQ.C18_runH_eq_run_new
#print axioms PQ.C18_runHv_eq_run
#print axioms PQ.C18_outputs_hasher_independent
#print axioms PQ.C18_outputs_hasher_independent_ok
#print axioms PQ.C18_outputs_hasher_independent_from
