import PQ.Lemmas.IterLemmas
import PQ.Lemmas.SortedWF
import PQ.Props.C10
/-!
# C13 — `iter`, `into_iter`, `drain`

> yield each stored element exactly once and then `None` forever; those that can be advanced from the
> back never yield an element from both ends; every iterator type that declares an exact size reports,
> through both `len` and `size_hint`, exactly the number of elements it will still yield at every step.

`Iter`, `IntoIter`, `Drain` delegate `next`, `next_back`, `len`, `size_hint` to the double-ended slice
cursor modelled by `Cursor` (`Cursor.new n` over `n` stored elements).  All theorems hold for **every**
`n` and **every** call list.

Vocabulary (`PQ/Lemmas/IterLemmas.lean`): `slots outs` = emitted slot indices in order,
`adv calls` = number of `.next`/`.nextBack` calls, `slotsOf w calls outs` = slots answered to calls `w`.
-/
namespace PQ

/-- no element is yielded twice — in particular never from both ends — and only stored elements are
yielded -/
theorem C13_cursor_nodup (n : Nat) (calls : List ICall) :
    (slots (Cursor.run (Cursor.new n) calls)).Nodup ∧
    ∀ i ∈ slots (Cursor.run (Cursor.new n) calls), i < n :=
  ⟨Cursor.slots_nodup _ _, fun i hi => (Cursor.slots_bounds _ _ i hi).2⟩

example : slots (Cursor.run (Cursor.new 3) [.nextBack, .next, .len, .next, .nextBack, .next]) = [2, 0, 1] := by
  decide

/-- **state invariant**: after any call list `pre`, with `e` the emitted slots, the cursor
`⟨front, back⟩` satisfies `front ≤ back ≤ n`, `back - front = n - e.length`, and `e` is exactly the set
`{i | i < front ∨ back ≤ i < n}`; the run continues from that state. -/
theorem C13_cursor_inv (n : Nat) (pre : List ICall) :
    let c := (Cursor.new n).exec pre
    let e := slots (Cursor.run (Cursor.new n) pre)
    c.front ≤ c.back ∧ c.back ≤ n ∧ c.back - c.front = n - e.length ∧
    (∀ i, i ∈ e ↔ i < c.front ∨ (c.back ≤ i ∧ i < n)) ∧
    ∀ post, Cursor.run (Cursor.new n) (pre ++ post) = Cursor.run (Cursor.new n) pre ++ Cursor.run c post := by
  have := Cursor.inv (Cursor.new n) (Nat.zero_le _) pre
  simp only [Cursor.new, Nat.zero_le, true_and, Nat.sub_zero] at this ⊢
  exact ⟨this.1, this.2.1, this.2.2.1, this.2.2.2, fun post => Cursor.run_append _ _ _⟩

/-- exact size: the answer of every `len` call is `n - (number of slots emitted before the call)`,
every `size_hint` answers `(that, Some(that))`, and that number is exactly the number of elements still
yielded from then on (`min` with the number of advancing calls still to come). -/
theorem C13_cursor_exact (n : Nat) (calls : List ICall) (j : Nat) :
    let outs := Cursor.run (Cursor.new n) calls
    (∀ k, outs[j]? = some (.len k) →
      k = n - (slots (outs.take j)).length ∧
      (slots (outs.drop j)).length = min k (adv (calls.drop j))) ∧
    (∀ lo hi, outs[j]? = some (.hint lo hi) →
      lo = n - (slots (outs.take j)).length ∧ hi = some (n - (slots (outs.take j)).length) ∧
      (slots (outs.drop j)).length = min lo (adv (calls.drop j))) := by
  refine ⟨fun k hk => ?_, fun lo hi hk => ?_⟩
  · have h1 := (Cursor.exact_at _ _ _ _ hk).1 k rfl
    have h2 := (Cursor.still_yield _ _ _ _ hk).1 k rfl
    simp only [Cursor.new, Cursor.remaining, Nat.sub_zero] at h1
    exact ⟨h1, h2⟩
  · have h1 := (Cursor.exact_at _ _ _ _ hk).2 lo hi rfl
    have h2 := (Cursor.still_yield _ _ _ _ hk).2 lo hi rfl
    simp only [Cursor.new, Cursor.remaining, Nat.sub_zero] at h1
    exact ⟨h1.1, h1.2, h2⟩

example : Cursor.run (Cursor.new 3) [.next, .len, .nextBack, .sizeHint, .next, .len]
    = [.slot (some 0), .len 2, .slot (some 2), .hint 1 (some 1), .slot (some 1), .len 0] := by decide

/-- exhaustion.
(a) the number of elements yielded is `min n (#advancing calls)`;
(b) once `n` slots have been emitted every later `next`/`next_back` answers `None`, forever;
(c) with at least `n` advancing calls every element is yielded exactly once
    (`slots` is a permutation of `0 … n-1`);
(d) `next` yields `0, 1, 2, …` ascending, `next_back` yields `n-1, n-2, …` descending. -/
theorem C13_cursor_exhaust (n : Nat) (calls : List ICall) :
    let outs := Cursor.run (Cursor.new n) calls
    (slots outs).length = min n (adv calls) ∧
    (∀ j, (slots (outs.take j)).length = n → ∀ j', j ≤ j' →
      ((calls[j']? = some .next ∨ calls[j']? = some .nextBack) → outs[j']? = some (.slot none)) ∧
      (∀ s, outs[j']? = some (.slot s) → s = none)) ∧
    (n ≤ adv calls → (slots outs).Perm (List.range n)) ∧
    (∃ m1 m2, m1 + m2 = (slots outs).length ∧
      slotsOf .next calls outs = List.range m1 ∧
      slotsOf .nextBack calls outs = (List.range m2).map (fun j => n - 1 - j)) := by
  refine ⟨?_, fun j hj j' hjj => ?_, fun hn => ?_, ?_⟩
  · simpa [Cursor.new, Cursor.remaining] using Cursor.slots_length (Cursor.new n) calls
  · exact Cursor.none_forever (Cursor.new n) calls j (by simpa [Cursor.new, Cursor.remaining] using hj) j' hjj
  · have := Cursor.slots_perm (Cursor.new n) calls (by simpa [Cursor.new, Cursor.remaining] using hn)
    simpa [Cursor.new, Cursor.remaining, List.range_eq_range'] using this
  · obtain ⟨m1, m2, h0, h1, h2⟩ := Cursor.front_back_order (Cursor.new n) calls
    exact ⟨m1, m2, h0, by simpa [Cursor.new, List.range_eq_range'] using h1, by simpa [Cursor.new] using h2⟩

example :
    let calls : List ICall := [.nextBack, .next, .len, .nextBack, .next, .nextBack]
    let outs := Cursor.run (Cursor.new 3) calls
    outs = [.slot (some 2), .slot (some 0), .len 1, .slot (some 1), .slot none, .slot none] ∧
    3 ≤ adv calls ∧ (slots (outs.take 4)).length = 3 ∧
    slotsOf .next calls outs = [0] ∧ slotsOf .nextBack calls outs = [2, 1] := by decide

/-- `ExactSizeIterator::len` asserts `assert_eq!(upper, Some(lower))` on the `size_hint`: for every hint
`(lo, Some(hi))` produced by the cursor, `lo = hi` (and the upper bound is never `None`). -/
theorem C13_exact_implies_adaptor_len_ok (n : Nat) (calls : List ICall) (j : Nat) :
    (∀ lo hi, (Cursor.run (Cursor.new n) calls)[j]? = some (.hint lo (some hi)) → lo = hi) ∧
    (∀ lo, (Cursor.run (Cursor.new n) calls)[j]? ≠ some (.hint lo none)) := by
  refine ⟨fun lo hi h => ?_, fun lo h => ?_⟩
  · have := (C13_cursor_exact n calls j).2 lo (some hi) h
    have h2 := this.2.1
    rw [← this.1] at h2
    exact (Option.some.inj h2).symm
  · have := (C13_cursor_exact n calls j).2 lo none h
    exact absurd this.2.1 (by simp)

/-- the same for `double_priority_queue::IterMut` -/
theorem C13_exact_implies_adaptor_len_ok_dpq (n : Nat) (calls : List ICall) (outs : List IOut)
    (h : DIterMut.run n (DIterMut.new n) calls = .ok outs) (j : Nat) :
    (∀ lo hi, outs[j]? = some (.hint lo (some hi)) → lo = hi) ∧
    (∀ lo, outs[j]? ≠ some (.hint lo none)) := by
  rw [DIterMut.run_eq_cursor] at h
  cases h
  exact C13_exact_implies_adaptor_len_ok n calls j

/-- `priority_queue::IterMut` declares no exact size; it never produces a hint with an upper bound,
so the assertion is never evaluated on it -/
theorem C13_exact_implies_adaptor_len_ok_pq (n : Nat) (calls : List ICall) (j : Nat) :
    ∀ lo hi, (PIterMut.run n PIterMut.new calls)[j]? = some (.hint lo (some hi)) → lo = hi := by
  intro lo hi h
  have := (PIterMut.no_exact_size n PIterMut.new calls j).2 lo (some hi) h
  exact absurd this.2 (by simp)

example : (Cursor.run (Cursor.new 3) [.next, .sizeHint])[1]? = some (.hint 2 (some 2)) := by decide

/-! ## The sorted iterators on ANY well-formed queue

C06 proves the contracts of `into_sorted_iter` / `into_sorted_vec` together with the *order* of what they yield, from the heap
invariant.  The iterator contracts themselves (each stored element exactly once, `None` forever afterwards, `len` /
`size_hint` exact at every step, the two ends never meet) do not depend on the order: they hold on every **well-formed** store
— in particular on a queue whose `iter_mut` guard was leaked and on a queue that survived a caught panic of `Ord::cmp` at an
arbitrary comparison of an arbitrary operation (C10), where nothing is known about the order. -/
section SortedAnyWF
variable {P : Type} [LT P] [DecidableLT P] [LE P] [Std.IsLinearPreorder P] [Std.LawfulOrderLT P]

/-- **`PriorityQueue::into_sorted_iter` / `into_sorted_vec` on any well-formed queue**: `l` (what `into_sorted_vec` returns)
is a permutation of the stored entries (each exactly once, `len` many, pairwise distinct items); ANY number `n` of `next`
calls never faults, answers the first `min n len` entries of `l` and then `None` forever, and the iterator then holds a
well-formed queue of exactly `len - n` elements (what `len` / `size_hint` report) that will yield the rest of `l` -/
theorem C13_sorted_pq_any_wf {s : Store P} (h : s.WF) :
    ∃ l, MaxQ.intoSortedVec s = .ok l ∧ l.Perm s.map.toList ∧ l.length = s.size ∧ (∀ e, e ∈ l ↔ s.Mem e) ∧
      (l.map (·.1.key)).Nodup ∧
      ∀ n, ∃ s', bp_popCalls n s = .ok ((l.take n).map some ++ List.replicate (n - l.length) none, s') ∧
        s'.WF ∧ s'.size = s.size - n ∧ MaxQ.intoSortedVec s' = .ok (l.drop n) := by
  obtain ⟨l, h1, h2, h3, h4, h5⟩ := swf_pq_sorted_vec h
  obtain ⟨l', h1', h6⟩ := swf_pq_sorted_iter h
  rw [h1] at h1'; cases h1'
  exact ⟨l, h1, h2, h3, h4, h5, h6⟩

/-- **`DoublePriorityQueue::into_sorted_iter` on any well-formed queue**, for EVERY interleaving `calls` of `next` (`false`)
and `next_back` (`true`), calls after exhaustion included: never a fault; the entries handed out have pairwise distinct items
(the two ends never return the same element); handed-out entries plus what is still held are a permutation of what was
stored; before call `j` exactly `len - (entries handed out so far)` elements are held (what `len` / `size_hint` report), call
`j` answers a held entry if that number is positive and `None` — as does every later call — if it is zero -/
theorem C13_sorted_dpq_any_wf {s : Store P} (h : s.WF) (calls : List Bool) :
    ∃ outs s', DQ.sortedCalls calls s = .ok (outs, s') ∧ s'.WF ∧ outs.length = calls.length ∧
      ((outs.filterMap id).map (·.1.key)).Nodup ∧
      (∀ e, some e ∈ outs → s.Mem e ∧ ¬ s'.Mem e) ∧
      ((outs.filterMap id) ++ s'.map.toList).Perm s.map.toList ∧
      s'.size = s.size - (outs.filterMap id).length ∧ (outs.filterMap id).length = min s.size calls.length ∧
      (∀ j, j < calls.length →
        ∃ sj, DQ.sortedCalls (calls.take j) s = .ok (outs.take j, sj) ∧ sj.WF ∧
          sj.size = s.size - ((outs.take j).filterMap id).length ∧
          (sj.size = 0 → ∀ j', j ≤ j' → j' < calls.length → outs[j']? = some none) ∧
          (0 < sj.size → ∃ e, outs[j]? = some (some e) ∧ sj.Mem e)) := by
  obtain ⟨outs, s', h1, h2, h3, h4, h5, h6, _, h8, h9, h10⟩ := swf_dpq_deque h calls
  exact ⟨outs, s', h1, h2, h3, h4, h5, h6, h8, h9, h10⟩

/-- the sorted vectors of a `DoublePriorityQueue` on any well-formed queue: permutations of the stored entries -/
theorem C13_sorted_vecs_dpq_any_wf {s : Store P} (h : s.WF) :
    (∃ l, DQ.intoAscendingSortedVec s = .ok l ∧ l.Perm s.map.toList ∧ l.length = s.size) ∧
    (∃ l, DQ.intoDescendingSortedVec s = .ok l ∧ l.Perm s.map.toList ∧ l.length = s.size) := by
  obtain ⟨l, h1, h2, h3, _⟩ := swf_dpq_ascending h
  obtain ⟨l', h1', h2', h3', _⟩ := swf_dpq_descending h
  exact ⟨⟨l, h1, h2, h3⟩, ⟨l', h1', h2', h3'⟩⟩

/-- **… in particular after any history with caught panics.**  From `new()` of either kind, after ANY sequence of legal
operations each of which may panic at an arbitrary comparison (`runF`, the queue that survives each crash goes on being
used), the queue the caller holds satisfies the sorted-iterator contracts above. -/
theorem C13_sorted_after_any_crash_history (k : Kind) (prog : List (Nat × Op P)) (hl : ∀ x ∈ prog, x.2.Legal) :
    ∃ q n, Crash.runF (Q.new k : Q P) prog = .ok (q, n) ∧
      (∃ l, MaxQ.intoSortedVec q.s = .ok l ∧ l.Perm q.s.map.toList ∧ l.length = q.s.size) ∧
      ∀ calls, ∃ outs s', DQ.sortedCalls calls q.s = .ok (outs, s') ∧
        ((outs.filterMap id).map (·.1.key)).Nodup ∧ ((outs.filterMap id) ++ s'.map.toList).Perm q.s.map.toList ∧
        (outs.filterMap id).length = min q.s.size calls.length := by
  obtain ⟨q, n, h1, h2⟩ := C10_repeated_crashes_new k prog hl
  refine ⟨q, n, h1, ?_, fun calls => ?_⟩
  · obtain ⟨l, a, b, c, _⟩ := C13_sorted_pq_any_wf h2
    exact ⟨l, a, b, c⟩
  · obtain ⟨outs, s', a, _, _, d, _, f, _, g, _⟩ := C13_sorted_dpq_any_wf h2 calls
    exact ⟨outs, s', a, d, f, g⟩

example : swf_exU.WF ∧ ¬ MaxQ.Inv swf_exU := ⟨swf_exU_wf, swf_exU_not_maxHeap⟩

end SortedAnyWF

end PQ

#print axioms PQ.C13_cursor_nodup
#print axioms PQ.C13_cursor_inv
#print axioms PQ.C13_cursor_exact
#print axioms PQ.C13_cursor_exhaust
#print axioms PQ.C13_exact_implies_adaptor_len_ok
#print axioms PQ.C13_exact_implies_adaptor_len_ok_dpq
#print axioms PQ.C13_exact_implies_adaptor_len_ok_pq
#print axioms PQ.C13_sorted_pq_any_wf
#print axioms PQ.C13_sorted_dpq_any_wf
#print axioms PQ.C13_sorted_vecs_dpq_any_wf
#print axioms PQ.C13_sorted_after_any_crash_history
