import PQ.Lemmas.CursorStore
import PQ.Lemmas.SortedIterLemmas
/-!
# C13 — supplement: the cursor as ENTRIES of a store; the sorted iterators WITH their `len` / `size_hint`
-/
namespace PQ
variable {P : Type} [LT P] [DecidableLT P] [LE P] [Std.IsLinearPreorder P] [Std.LawfulOrderLT P]

/-- **`iter` / `into_iter` / `drain` yield each stored element exactly once**, as entries of the store (not just as slot
numbers): for every call sequence the handed-out slots are pairwise distinct stored slots, `min len (#advancing calls)` of
them; with at least `len` advancing calls the handed-out entries are a permutation of the stored entries; on a
well-formed store their keys are pairwise distinct. -/
theorem C13_cursor_yields_store_entries (s : Store P) (calls : List ICall) :
    (slots (Cursor.run (Cursor.new s.map.size) calls)).Nodup ∧
    (∀ i ∈ slots (Cursor.run (Cursor.new s.map.size) calls), i < s.map.size) ∧
    (Cursor.entries s.map calls).length = min s.map.size (adv calls) ∧
    (s.map.size ≤ adv calls → (Cursor.entries s.map calls).Perm s.map.toList) ∧
    (s.WF → ((Cursor.entries s.map calls).map (·.1.key)).Nodup) :=
  ⟨(Cursor.entries_sub s.map calls).1, (Cursor.entries_sub s.map calls).2.1, (Cursor.entries_sub s.map calls).2.2,
    Cursor.entries_perm s.map calls, fun h => Cursor.entries_keys_nodup s.map h.nodup calls⟩

/-- **the `DoublePriorityQueue` sorted iterator (declares `ExactSizeIterator` + `FusedIterator` + `DoubleEndedIterator`)
reports an exact size at every step**, on ANY well-formed queue (no order assumption) and for every interleaving of `next`,
`next_back`, `len`, `size_hint`: the run returns; every `len` answer is the number of elements still held (the stored number
minus the elements handed out before); every `size_hint` answer is `(that number, Some(that number))` — lower = upper =
`len`, which is what std's adaptors (`take`, `skip`, `zip`, `peekable`, `rev`, `enumerate`) assert when asked for their
length; an advancing call answers `None` exactly when nothing is held, and once `None`, always `None`; the entries handed
out are those of `DQ.sortedCalls` on the advancing calls (so `C13_sorted_dpq_any_wf` and `C06_dpq_deque` apply). -/
theorem C13_sorted_dpq_exact_size : type_of% @sit_dpq_exact := @sit_dpq_exact

/-- after any prefix of calls, `size_hint()` then `len()` answer `(n, Some(n))` and `n`, `n` = the number of elements held -/
theorem C13_sorted_dpq_hint_eq_len : type_of% @sit_dpq_hint_eq_len := @sit_dpq_hint_eq_len

/-- every element once through the iterator with `len` / `size_hint` calls interleaved (transfers `C13_sorted_dpq_any_wf`) -/
theorem C13_sorted_dpq_once : type_of% @sit_dpq_once := @sit_dpq_once

/-- **the `PriorityQueue` sorted iterator** (declares neither an exact size nor a back end): `size_hint` is always the
default `(0, None)`, `len` / `next_back` are not offered, and the entries are those of repeated `pop` -/
theorem C13_sorted_pq_shape : type_of% @sit_pq_exact := @sit_pq_exact

end PQ

#print axioms PQ.C13_cursor_yields_store_entries
#print axioms PQ.C13_sorted_dpq_exact_size
#print axioms PQ.C13_sorted_dpq_hint_eq_len
#print axioms PQ.C13_sorted_dpq_once
#print axioms PQ.C13_sorted_pq_shape
