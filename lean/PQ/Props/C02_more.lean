import PQ.Lemmas.PopIfHistory
/-!
# C02 — supplement: the conditional pops and `peek_*_mut` after any history (lemmas in `Lemmas/PopIfHistory.lean`, which
builds on `Props/C02.lean`)
-/
namespace PQ

/-- **the conditional pops and the `peek_*_mut` accessors after any history** (the forms `C01_next_after_history` has for the
max-heap): after every leak-free legal history from `new()` that ends in a `DoublePriorityQueue`, `peek_min` / `peek_max`
report a true minimum / maximum (`none` iff empty), `pop_min_if` / `pop_max_if` show their predicate exactly that entry
(and answer accordingly: removed with the written priority iff the predicate says so), `peek_min_mut` / `peek_max_mut` hand
out exactly that entry; the queue stays ordered and its contents are the prescribed ones. -/
theorem C02_conditional_after_history : type_of% @pih_next_after_history_new := @pih_next_after_history_new

/-- … and an `FnMut` predicate is consulted exactly once, on that entry (never on an empty queue) -/
theorem C02_predicate_called_once : type_of% @pih_calls_after_history := @pih_calls_after_history

end PQ

#print axioms PQ.C02_conditional_after_history
#print axioms PQ.C02_predicate_called_once
