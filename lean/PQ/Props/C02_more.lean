import PQ.Lemmas.PopIfHistory
import PQ.Props.C10
/-!
# C02 — supplement: the conditional pops and `peek_*_mut` after any history (lemmas in `Lemmas/PopIfHistory.lean`, which
builds on `Props/C02.lean`)
-/
namespace PQ

/-- **the conditional pops and the `peek_*_mut` accessors after any history** (the forms `C01_next_after_history` has for the
max-heap): after every leak-free legal history from `new()` that ends in a `DoublePriorityQueue`, `peek_min` / `peek_max`
report a true minimum / maximum (`none` iff empty), `pop_min_if` / `pop_max_if` show their predicate exactly that entry
(and answer accordingly: removed with the written priority iff the predicate says so), `peek_min_mut` / `peek_max_mut` hand
out exactly that entry; the queue stays ordered and its contents are the prescribed ones. -/
theorem C02_conditional_after_history : type_of% @pih_next_after_history_new := @pih_next_after_history_new

/-- … and an `FnMut` predicate is consulted exactly once, on that entry (never on an empty queue) -/
theorem C02_predicate_called_once : type_of% @pih_calls_after_history := @pih_calls_after_history

section OrderFree
open PQ.Crash
variable {P : Type} [LT P] [DecidableLT P] [LE P] [Std.IsLinearPreorder P] [Std.LawfulOrderLT P]

/-- `peek_min` / `peek_max` on ANY well-formed store (ordered or not — after a caught panic or a leaked `iter_mut` guard C10
leaves the order unspecified): both return normally, `None` iff the map is empty, otherwise an entry that IS stored; this is
what the check's judge demands of the post-panic histories of the `post_crash` stream -/
theorem C02_peeks_of_wf {s : Store P} (h : s.WF) :
    ∃ rmin k rmax, DQ.peekMin s = .ok rmin ∧ DQ.peekMax s = .ok (s.tick k, rmax) ∧ k ≤ 1 ∧
      (rmin = none ↔ s.map.size = 0) ∧ (rmax = none ↔ s.map.size = 0) ∧
      (∀ e, rmin = some e → s.abs e.1.key = some e) ∧ (∀ e, rmax = some e → s.abs e.1.key = some e) := by
  obtain ⟨rmin, h1, h1z, h1p⟩ := DQ.peekMin_safe h
  obtain ⟨k, rmax, h2, hk, h2z, h2p⟩ := DQ.peekMax_safe h
  have hm : s.map.size = s.size := h.map_size
  refine ⟨rmin, k, rmax, h1, h2, hk, ⟨fun hn => ?_, fun hz => h1z (by omega)⟩, ⟨fun hn => ?_, fun hz => h2z (by omega)⟩,
    fun e he => ?_, fun e he => ?_⟩
  · rcases Nat.eq_zero_or_pos s.size with hz | hp
    · omega
    · obtain ⟨e, he, _⟩ := h1p hp; rw [hn] at he; cases he
  · rcases Nat.eq_zero_or_pos s.size with hz | hp
    · omega
    · obtain ⟨e, he, _⟩ := h2p hp; rw [hn] at he; cases he
  · rcases Nat.eq_zero_or_pos s.size with hz | hp
    · rw [h1z hz] at he; cases he
    · obtain ⟨e', he', ha⟩ := h1p hp; rw [he] at he'; cases he'; exact ha
  · rcases Nat.eq_zero_or_pos s.size with hz | hp
    · rw [h2z hz] at he; cases he
    · obtain ⟨e', he', ha⟩ := h2p hp; rw [he] at he'; cases he'; exact ha

/-- **after a caught `Ord::cmp` panic at ANY comparison of ANY operation, and after ANY continuation** (leaked guards
included) both peeks answer `None` iff nothing is stored and otherwise report stored entries -/
theorem C02_peeks_after_crash_history (fuse : Nat) {q : Q P} {op : Op P} (hq : QWF q) (hl : op.Legal) (q' : Q P)
    (hc : stepF fuse q op = .error (.crashed q') ∨ (stepF fuse q op = .error .crashedNew ∧ q' = q))
    (ops : List (Op P)) (hops : ∀ o ∈ ops, o.Legal) :
    ∃ q'' outs, run q' ops = .ok (q'', outs) ∧
      ∃ rmin k rmax, DQ.peekMin q''.s = .ok rmin ∧ DQ.peekMax q''.s = .ok (q''.s.tick k, rmax) ∧ k ≤ 1 ∧
        (rmin = none ↔ q''.s.map.size = 0) ∧ (rmax = none ↔ q''.s.map.size = 0) ∧
        (∀ e, rmin = some e → q''.s.abs e.1.key = some e) ∧ (∀ e, rmax = some e → q''.s.abs e.1.key = some e) := by
  obtain ⟨q'', outs, hr, hw⟩ := C10_crash_then_any_history fuse hq hl q' hc ops hops
  exact ⟨q'', outs, hr, C02_peeks_of_wf hw⟩

/-- … and after a panicking setter / predicate / source iterator (which may have written a priority first) -/
theorem C02_peeks_after_callback_crash_history {q : Q P} {op : Op P} (k : Nat) (w : Option P) (hq : QWF q) (q' : Q P)
    (hc : stepCbW k w q op = .error (.crashed q') ∨ (stepCbW k w q op = .error .crashedNew ∧ q' = q))
    (ops : List (Op P)) (hops : ∀ o ∈ ops, o.Legal) :
    ∃ q'' outs, run q' ops = .ok (q'', outs) ∧
      ∃ rmin k rmax, DQ.peekMin q''.s = .ok rmin ∧ DQ.peekMax q''.s = .ok (q''.s.tick k, rmax) ∧ k ≤ 1 ∧
        (rmin = none ↔ q''.s.map.size = 0) ∧ (rmax = none ↔ q''.s.map.size = 0) ∧
        (∀ e, rmin = some e → q''.s.abs e.1.key = some e) ∧ (∀ e, rmax = some e → q''.s.abs e.1.key = some e) := by
  obtain ⟨q'', outs, hr, hw⟩ := (C10_callback_crash_then_any_history k w hq q' hc).1 ops hops
  exact ⟨q'', outs, hr, C02_peeks_of_wf hw⟩

end OrderFree

end PQ

#print axioms PQ.C02_conditional_after_history
#print axioms PQ.C02_predicate_called_once
#print axioms PQ.C02_peeks_of_wf
#print axioms PQ.C02_peeks_after_crash_history
#print axioms PQ.C02_peeks_after_callback_crash_history
