import PQ.Props.C10
/-!
# C10 — supplement: a panicking `Drop` inside `clear()` (defect F9, repaired in `/repo` by `14d71ec`)

`Drop` of an item or priority is user code too.  The only place where the crate drops stored elements *between* two
updates of its own tables is `Store::clear` (`drain` resets tables and size before the map's drain is handed out; the
elements `retain` rejects are dropped inside `IndexMap::retain`, before the crate touches its tables; the clashing pairs of
`append` / `extend` are dropped at iteration boundaries).  `IndexMap::clear` empties the map even when a `Drop` panics
(`Vec::clear` sets the length to zero first and keeps dropping — std's documented behaviour, trusted and exercised by the
harness's `!dr<k>` fuse), so what unwinding leaves is determined by the ORDER of the four statements of `clear`:

* as repaired — tables, then `size = 0`, then `map.clear()` — the crash state IS the result of `clear`: well-formed;
* as originally written — tables, then `map.clear()`, then `size = 0` — the size is stale over empty tables, and the very
  next `peek_min` reads `heap[0]` through `get_unchecked` on an empty vector: `Fault.oob`, undefined behaviour in the real code
  (confirmed on the real crate: abort "unsafe precondition(s) violated: slice::get_unchecked").
-/
namespace PQ
variable {P : Type} [LT P] [DecidableLT P] [LE P] [Std.IsLinearPreorder P] [Std.LawfulOrderLT P]

/-- what a panicking `Drop` inside `clear()` leaves, with the statement order of the repaired code -/
def clearDropCrash (s : Store P) : Store P := { s with heap := #[], qp := #[], size := 0, map := #[] }

/-- … and with the original statement order (`self.size = 0` came last and is never reached) -/
def clearDropCrashOriginal (s : Store P) : Store P := { s with heap := #[], qp := #[], map := #[] }

omit [LT P] [DecidableLT P] [LE P] [Std.IsLinearPreorder P] [Std.LawfulOrderLT P] in
/-- **F9 repaired**: the state a panicking `Drop` leaves is exactly the result of `clear` -/
theorem C10_clear_drop_crash_is_clear (s : Store P) : clearDropCrash s = s.clear := rfl

/-- … hence well-formed, and every continuation (any legal history, leaked guards included) is fault-free -/
theorem C10_clear_drop_crash_then_any_history (k : Kind) (s : Store P) (ops : List (Op P)) (hops : ∀ o ∈ ops, o.Legal) :
    (clearDropCrash s).WF ∧ ∃ q'' outs, run (⟨k, clearDropCrash s⟩ : Q P) ops = .ok (q'', outs) ∧ QWF q'' := by
  have hw : (clearDropCrash s).WF := by rw [C10_clear_drop_crash_is_clear]; exact Store.wf_clear s
  obtain ⟨q'', outs, h1, _, h2⟩ := C04_from_any_wf (q := (⟨k, clearDropCrash s⟩ : Q P)) ops hw hops
  exact ⟨hw, q'', outs, h1, h2⟩

omit [LE P] [Std.IsLinearPreorder P] [Std.LawfulOrderLT P] in
/-- **F9 as found**: with the original statement order, on ANY non-empty queue, the crash state makes the next `peek_min`
perform an out-of-bounds unchecked read (site 327) — whatever the elements and their order -/
theorem C10_original_clear_drop_crash_is_unsafe (s : Store P) (h : 0 < s.size) :
    DQ.peekMin (clearDropCrashOriginal s) = .error (.oob 327) := by
  have hs : (clearDropCrashOriginal s).size ≠ 0 := by simp [clearDropCrashOriginal]; omega
  simp only [DQ.peekMin, DQ.findMin, if_neg hs]
  simp [DQ.entryAt, clearDropCrashOriginal, getU, bind, Except.bind]

end PQ

#print axioms PQ.C10_clear_drop_crash_is_clear
#print axioms PQ.C10_clear_drop_crash_then_any_history
#print axioms PQ.C10_original_clear_drop_crash_is_unsafe
