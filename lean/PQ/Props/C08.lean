import PQ.Lemmas.BulkProps
import PQ.Lemmas.History
/-!
# C08 — In-place bulk mutation applies exactly the requested changes and restores order

> `retain` and `retain_mut` call the predicate exactly once per stored element, keep exactly the elements it accepts,
> and `retain_mut` keeps the priorities it wrote; `iter_mut` visits each element at most once and every priority
> written through it is the element's priority afterwards, however much of the iterator was consumed before it was
> dropped.  The `pop_if` family shows its predicate the current extreme element, removes and returns it with any
> priority the predicate wrote iff the predicate returns true, and otherwise keeps the element with the written
> priority.  After each of these calls the queue is correctly ordered again.

Closures are data: `f : Item → P → Bool × Item × P` returns the verdict together with the item and the priority the
closure left behind through its `&mut` references (`retain` is `retain_mut` with a closure that writes nothing); the
one thing the crate demands of a closure is that it does not change an item's identity, `(f it p).2.1.key = it.key`
(`Op.Legal`).  `IMap.retainStep f e = if (f e.1 e.2).1 then some ((f e.1 e.2).2.1, (f e.1 e.2).2.2) else none`.
An `iter_mut` session is a program `prog : List (ICall × IMWrite P)`: each call is followed by a write through the
reference it yielded (`IMWrite.apply`); `prog` is arbitrary, so every partial consumption is covered; `leak = false`
is "the iterator was dropped" (the rebuild runs).
-/
namespace PQ
open Store
variable {P : Type} [LT P] [DecidableLT P] [LE P] [Std.IsLinearPreorder P] [Std.LawfulOrderLT P]

/-- **`retain_mut` / `retain`** on a well-formed queue (it need not even be ordered), both kinds: never faults; the
result is correctly ordered; the map of the result is `s.map.toList.filterMap (retainStep f)`: the predicate is applied
to the stored entries in slot order, to each exactly once (`filterMap` applies its function once per element; this list
IS the call log), exactly the accepted ones are kept, in order, with the item and priority the predicate wrote; by key:
`k` is kept iff it was stored and its entry was accepted; the length is the number of accepted entries -/
theorem C08_retainMut {s : Store P} (h : s.WF) (f : Item → P → Bool × Item × P)
    (hf : ∀ it p, (f it p).2.1.key = it.key) :
    (∃ s', MaxQ.retainMut s f = .ok s' ∧ MaxQ.Inv s' ∧
      s'.map.toList = s.map.toList.filterMap (IMap.retainStep f) ∧
      (∀ k, s'.abs k = (s.abs k).bind (IMap.retainStep f)) ∧
      s'.size = (s.map.toList.filterMap (IMap.retainStep f)).length) ∧
    (∃ s', DQ.retainMut s f = .ok s' ∧ DQ.Inv s' ∧
      s'.map.toList = s.map.toList.filterMap (IMap.retainStep f) ∧
      (∀ k, s'.abs k = (s.abs k).bind (IMap.retainStep f)) ∧
      s'.size = (s.map.toList.filterMap (IMap.retainStep f)).length) := by
  constructor
  · obtain ⟨s', hrun, hwf, hmap, hsz, hm⟩ := MaxQ.heapBuild_spec (wf_retainMut h hf)
    refine ⟨s', hrun, ⟨hwf, hm⟩, by rw [hmap]; exact toList_retainMut s f, fun k => ?_, ?_⟩
    · show IMap.lookup s'.map k = _
      rw [hmap]; exact lookup_retainMut h hf k
    · rw [hsz, size_retainMut, ← Array.length_toList, IMap.toList_retain']
  · obtain ⟨s', hrun, hinv, habs, hlist, hsz⟩ := DQ.retainMut_spec h f hf
    exact ⟨s', hrun, hinv, hlist, fun k => congrFun habs k, hsz⟩

example : bp_exW.WF ∧ ¬ MaxQ.Inv bp_exW ∧ (∀ it p, (bp_fDrop it p).2.1.key = it.key) ∧
    bp_okR (MaxQ.retainMut bp_exW bp_fDrop) (fun s' => MaxQ.Inv s' ∧ s'.size = 4 ∧ s'.abs 3 = none ∧
      s'.abs 2 = some (⟨2, 21⟩, 10) ∧
      s'.map = #[(⟨1, 11⟩, 5), (⟨2, 21⟩, 10), (⟨4, 41⟩, 9), (⟨5, 51⟩, 7)]) ∧
    bp_okR (DQ.retainMut bp_exW bp_fDrop) (fun s' => s'.size = 4 ∧ s'.abs 3 = none ∧
      s'.abs 2 = some (⟨2, 21⟩, 10)) := by
  refine ⟨bp_exW_wf, by decide +kernel, bp_fDrop_legal, by decide +kernel, by decide +kernel⟩

/-- **`iter_mut`, consumed as far as the client likes and then dropped**, both kinds, from a well-formed queue (the
previous order is irrelevant), for EVERY program: the operation succeeds; the calls are answered by the iterator machine
of the queue kind (`PIterMut` / `DIterMut`, see C09), one answer per call; no slot is yielded twice and only stored
slots are yielded; the slot yielded by call `t` holds afterwards the entry it had with the write of call `t` applied
(priority and payload; the key cannot be written), every slot not yielded is unchanged; the length is unchanged;
looking up the key of the entry that was in slot `j` finds what is in slot `j` now; and the queue is correctly ordered
again (`QInv`) -/
theorem C08_iterMut {q : Q P} (hq : QWF q) (prog : List (ICall × IMWrite P)) :
    ∃ outs s', step q (.iterMut false prog) = .ok ({ q with s := s' }, .outs outs) ∧
      (match q.kind with
        | .pq => outs = PIterMut.run q.s.map.size PIterMut.new (prog.map (·.1))
        | .dpq => DIterMut.run q.s.map.size (DIterMut.new q.s.map.size) (prog.map (·.1)) = .ok outs) ∧
      outs.length = prog.length ∧
      (slots outs).Nodup ∧ (∀ i ∈ slots outs, i < q.s.size) ∧
      iterMutRun q.kind q.s.map.size prog PIterMut.new (DIterMut.new q.s.map.size) q.s.map = .ok (outs, s'.map) ∧
      (∀ (t j : Nat) (w : IMWrite P), outs[t]? = some (IOut.slot (some j)) → (prog[t]?).map (·.2) = some w →
        s'.map[j]? = (q.s.map[j]?).map w.apply) ∧
      (∀ j : Nat, j ∉ slots outs → s'.map[j]? = q.s.map[j]?) ∧
      s'.size = q.s.size ∧
      (∀ (j : Nat) (e : Item × P), q.s.map[j]? = some e → s'.abs e.1.key = s'.map[j]?) ∧
      QInv { q with s := s' } := by
  obtain ⟨kind, s⟩ := q
  have hs : s.WF := hq
  obtain ⟨outs, m', hrun, hmach, hlen, hnd, hlt, hsz, hkeys, hyield, hrest⟩ := hist_iterMutRun_spec kind s.map prog
  have hndk : IMap.NoDupKeys m' := hs.nodup.congr_keys hkeys
  have hwf1 : ({ s with map := m' } : Store P).WF := wf_of_map_update hs hsz hndk
  have hlt' : ∀ i ∈ slots outs, i < s.size := fun i hi => by have := hlt i hi; rw [hs.map_size] at this; exact this
  have hbykey : ∀ (j : Nat) (e : Item × P), s.map[j]? = some e → IMap.lookup m' e.1.key = m'[j]? := by
    intro j e he
    have hk := hkeys j
    rw [he] at hk
    cases he' : m'[j]? with
    | none => rw [he'] at hk; cases hk
    | some e' =>
      rw [he'] at hk
      simp only [Option.map_some, Option.some.injEq] at hk
      rw [← hk]
      exact IMap.lookup_of_getElem? hndk he'
  cases kind with
  | pq =>
    obtain ⟨s', hb, hwf', hmap', hsz', hm'⟩ := MaxQ.heapBuild_spec hwf1
    have hmap'' : s'.map = m' := hmap'
    refine ⟨outs, s', ?_, hmach, hlen, hnd, hlt', by rw [hmap'']; exact hrun, ?_, ?_, hsz', ?_, ?_⟩
    · have hb' : heapBuildK .pq ({ s with map := m' } : Store P) = .ok s' := hb
      simp only [step, hrun, bind, Except.bind, pure, Except.pure, Bool.false_eq_true, if_false, hb']
    · rw [hmap'']; exact hyield
    · rw [hmap'']; exact hrest
    · intro j e he
      show IMap.lookup s'.map _ = _
      rw [hmap'']; exact hbykey j e he
    · exact (⟨hwf', hm'⟩ : MaxQ.Inv s')
  | dpq =>
    obtain ⟨s', hb, hwf', hmap', hsz', hm'⟩ := DQ.heapBuild_spec hwf1
    have hmap'' : s'.map = m' := hmap'
    refine ⟨outs, s', ?_, hmach, hlen, hnd, hlt', by rw [hmap'']; exact hrun, ?_, ?_, hsz', ?_, ?_⟩
    · have hb' : heapBuildK .dpq ({ s with map := m' } : Store P) = .ok s' := hb
      simp only [step, hrun, bind, Except.bind, pure, Except.pure, Bool.false_eq_true, if_false, hb']
    · rw [hmap'']; exact hyield
    · rw [hmap'']; exact hrest
    · intro j e he
      show IMap.lookup s'.map _ = _
      rw [hmap'']; exact hbykey j e he
    · exact (⟨hwf', hm'⟩ : DQ.Inv s')

/-- a partial consumption from both ends with priority and payload writes; the smallest priority is written into the
element that was the maximum -/
example : QWF (⟨.dpq, DQ.exQ⟩ : Q Nat) ∧
    bp_okR (step (⟨.dpq, DQ.exQ⟩ : Q Nat) (.iterMut false
      [(.next, ⟨some 100, none⟩), (.len, ⟨some 0, none⟩), (.nextBack, ⟨some 1, some 7⟩), (.next, ⟨none, some 5⟩)]))
      (fun r => r.1.s.size = 8 ∧ r.1.s.abs 1 = some (⟨1, 0⟩, 100) ∧ r.1.s.abs 8 = some (⟨8, 7⟩, 1) ∧
        r.1.s.abs 2 = some (⟨2, 5⟩, 20) ∧ r.1.s.abs 3 = some (⟨3, 0⟩, 70) ∧
        bp_okR (DQ.peekMin r.1.s) (fun e => e = some (⟨8, 7⟩, 1)) ∧
        bp_okR (DQ.peekMax r.1.s) (fun e => e.2 = some (⟨1, 0⟩, 100))) :=
  ⟨DQ.exQ_inv.1, by decide +kernel⟩

example : QWF (⟨.pq, bp_exW⟩ : Q Nat) ∧
    bp_okR (step (⟨.pq, bp_exW⟩ : Q Nat) (.iterMut false [(.next, ⟨some 100, none⟩), (.next, ⟨none, some 5⟩)]))
      (fun r => MaxQ.Inv r.1.s ∧ r.1.s.abs 1 = some (⟨1, 10⟩, 100) ∧ r.1.s.abs 2 = some (⟨2, 5⟩, 0) ∧
        MaxQ.peek r.1.s = some (⟨1, 10⟩, 100)) := ⟨bp_exW_wf, by decide +kernel⟩

/-- **`PriorityQueue::pop_if`**: on an empty queue nothing happens; otherwise the predicate is applied to exactly the
entry `peek` shows, a maximum; if it answers true the entry — with the item and priority the predicate wrote — is
returned and its key removed (length − 1); if it answers false `None` is returned and the entry stays with the item and
priority the predicate wrote (length unchanged); in every case the queue is correctly ordered afterwards -/
theorem C08_popIf_pq {s : Store P} (h : MaxQ.Inv s) (f : Item → P → Bool × Item × P)
    (hf : ∀ it p, (f it p).2.1.key = it.key) :
    (s.size = 0 → MaxQ.popIf s f = .ok (s, none)) ∧
    (0 < s.size → ∃ e, MaxQ.peek s = some e ∧ s.IsMax e ∧
      ((f e.1 e.2).1 = true → ∃ s', MaxQ.popIf s f = .ok (s', some ((f e.1 e.2).2.1, (f e.1 e.2).2.2)) ∧ MaxQ.Inv s' ∧
          s'.abs = absRemove s.abs e.1.key ∧ s'.size = s.size - 1) ∧
      ((f e.1 e.2).1 = false → ∃ s', MaxQ.popIf s f = .ok (s', none) ∧ MaxQ.Inv s' ∧
          s'.abs = absSet s.abs e.1.key ((f e.1 e.2).2.1, (f e.1 e.2).2.2) ∧ s'.size = s.size)) :=
  MaxQ.popIf_spec h f hf

example : MaxQ.Inv bp_exP ∧ 0 < bp_exP.size ∧ (∀ it p, (bp_fYes it p).2.1.key = it.key) ∧
    bp_okR (MaxQ.popIf bp_exP bp_fYes) (fun r => MaxQ.Inv r.1 ∧ r.2 = some (⟨2, 99⟩, 10) ∧ r.1.size = 4 ∧
      r.1.abs 2 = none) ∧
    bp_okR (MaxQ.popIf bp_exP (fun it p => (false, ⟨it.key, 99⟩, p - 8))) (fun r => MaxQ.Inv r.1 ∧ r.2 = none ∧
      r.1.size = 5 ∧ r.1.abs 2 = some (⟨2, 99⟩, 1) ∧ MaxQ.peek r.1 = some (⟨3, 30⟩, 7)) := by
  refine ⟨bp_exP_inv, by decide, bp_fYes_legal, by decide +kernel, by decide +kernel⟩

/-- **`DoublePriorityQueue::pop_min_if`**: as `pop_if`, the predicate sees exactly the entry `peek_min` shows, a minimum -/
theorem C08_popMinIf {s : Store P} (h : DQ.Inv s) (f : Item → P → Bool × Item × P)
    (hf : ∀ it p, (f it p).2.1.key = it.key) :
    (s.size = 0 → DQ.popMinIf s f = .ok (s, none)) ∧
    (0 < s.size → ∃ e, DQ.peekMin s = .ok (some e) ∧ s.IsMin e ∧
      ((f e.1 e.2).1 = true → ∃ s', DQ.popMinIf s f = .ok (s', some ((f e.1 e.2).2.1, (f e.1 e.2).2.2)) ∧ DQ.Inv s' ∧
          s'.abs = absRemove s.abs e.1.key ∧ s'.size = s.size - 1) ∧
      ((f e.1 e.2).1 = false → ∃ s', DQ.popMinIf s f = .ok (s', none) ∧ DQ.Inv s' ∧
          s'.abs = absSet s.abs e.1.key ((f e.1 e.2).2.1, (f e.1 e.2).2.2) ∧ s'.size = s.size)) :=
  DQ.popMinIf_spec h f hf

example : DQ.Inv DQ.exQ ∧ 0 < DQ.exQ.size ∧ (∀ it p, (DQ.exPred it p).2.1.key = it.key) ∧
    bp_okR (DQ.popMinIf DQ.exQ DQ.exPred) (fun r => r.2 = none ∧ r.1.size = 8 ∧ r.1.abs 4 = some (⟨4, 1⟩, 11)) ∧
    bp_okR (DQ.popMinIf DQ.exQ bp_fYes) (fun r => r.2 = some (⟨4, 99⟩, 11) ∧ r.1.size = 7 ∧ r.1.abs 4 = none) := by
  refine ⟨DQ.exQ_inv, by decide +kernel, fun _ _ => rfl, by decide +kernel, by decide +kernel⟩

/-- **`DoublePriorityQueue::pop_max_if`**: the predicate sees exactly the entry `peek_max` shows, a maximum (`k ≤ 1` is
the one comparison `find_max` may perform) -/
theorem C08_popMaxIf {s : Store P} (h : DQ.Inv s) (f : Item → P → Bool × Item × P)
    (hf : ∀ it p, (f it p).2.1.key = it.key) :
    (s.size = 0 → DQ.popMaxIf s f = .ok (s, none)) ∧
    (0 < s.size → ∃ k e, DQ.peekMax s = .ok (s.tick k, some e) ∧ k ≤ 1 ∧ s.IsMax e ∧
      ((f e.1 e.2).1 = true → ∃ s', DQ.popMaxIf s f = .ok (s', some ((f e.1 e.2).2.1, (f e.1 e.2).2.2)) ∧ DQ.Inv s' ∧
          s'.abs = absRemove s.abs e.1.key ∧ s'.size = s.size - 1) ∧
      ((f e.1 e.2).1 = false → ∃ s', DQ.popMaxIf s f = .ok (s', none) ∧ DQ.Inv s' ∧
          s'.abs = absSet s.abs e.1.key ((f e.1 e.2).2.1, (f e.1 e.2).2.2) ∧ s'.size = s.size)) :=
  DQ.popMaxIf_spec h f hf

example : DQ.Inv DQ.exQ ∧ 0 < DQ.exQ.size ∧
    bp_okR (DQ.popMaxIf DQ.exQ DQ.exPred) (fun r => r.2 = some (⟨8, 1⟩, 81) ∧ r.1.size = 7 ∧ r.1.abs 8 = none) ∧
    bp_okR (DQ.popMaxIf DQ.exQ bp_fNo) (fun r => r.2 = none ∧ r.1.size = 8 ∧ r.1.abs 8 = some (⟨8, 99⟩, 81)) := by
  refine ⟨DQ.exQ_inv, by decide +kernel, by decide +kernel, by decide +kernel⟩

end PQ

#print axioms PQ.C08_retainMut
#print axioms PQ.C08_iterMut
#print axioms PQ.C08_popIf_pq
#print axioms PQ.C08_popMinIf
#print axioms PQ.C08_popMaxIf
