import PQ.Props.C15
import PQ.Lemmas.History
/-!
# C15 (addition) — the round trip stated through an explicit model of `Serialize`

`C15_roundtrip` (Props/C15.lean) is stated about `deserialize hint s.map`: "what `s` serializes to" appears there only as
the argument `s.map`, for every `hint`.  The model has no function for `Serialize`; this file adds one, transcribed from the
source, and states the round trip through it — at store level (`C15_roundtrip_store`, the statement of `C15_roundtrip`
instantiated at the serializer's output) and as the operation `Op.deserialize` of the alphabet, for a queue of either
kind read back as either kind (`C15_roundtrip_serialized`).

```rust
// src/store.rs
impl<I, P, H> Serialize for Store<I, P, H> where I: Serialize, P: Serialize {
    fn serialize<S>(&self, serializer: S) -> Result<S::Ok, S::Error> where S: Serializer {
        let mut map_serializer = serializer.serialize_seq(Some(self.size))?;
        for (k, v) in &self.map {
            map_serializer.serialize_element(&(k, v))?;
        }
        map_serializer.end()
    }
}
// src/priority_queue/mod.rs and src/double_priority_queue/mod.rs: both kinds delegate
fn serialize<S>(&self, serializer: S) -> … { self.store.serialize(serializer) }
```

So the serialized form of a queue of either kind is: the announced length `Some(self.size)` — the counter, NOT
`self.map.len()` — followed by the pairs of the IndexMap in slot order.  Errors of the underlying `Serializer` are outside
the model (the round trip is about a serializer that succeeds and a format that hands back what was written).
-/
namespace PQ
open Store

/-- **model of `impl Serialize for Store`** (both queue kinds serialize their store): the length handed to
`serialize_seq` — `Some(self.size)` — and the elements written, the pairs `(k, v)` of `&self.map` in slot order.  These are
exactly the two arguments of `Op.deserialize` (announced length, pairs present). -/
def Store.serializeM {P : Type} (s : Store P) : Option Nat × Array (Item × P) := (some s.size, s.map)

variable {P : Type} [LT P] [DecidableLT P] [LE P] [Std.IsLinearPreorder P] [Std.LawfulOrderLT P]

omit [LT P] [DecidableLT P] [LE P] [Std.IsLinearPreorder P] [Std.LawfulOrderLT P] in
/-- **the serializer of a well-formed queue announces the true length**: the announced length (the counter `size`) is the
number of pairs written (`map.len()`).  (For a store that is not well-formed the two may differ — the source announces
`self.size`; `C15_hint_never_faults` says a wrong announcement is harmless for the reader anyway.) -/
theorem C15_serialize_len_honest {s : Store P} (h : s.WF) :
    (Store.serializeM s).1 = some (Store.serializeM s).2.size := by
  show some s.size = some s.map.size
  rw [h.map_size]

/-- **round trip through the model serializer** — `C15_roundtrip` at the serializer's output.  For every well-formed store
`s` (in particular a correctly ordered queue of EITHER kind: `MaxQ.Inv s` and `DQ.Inv s` both contain `s.WF`) and BOTH
target kinds: deserializing `serializeM s` (announced length `(serializeM s).1`, pairs `(serializeM s).2`) succeeds and gives
a correctly ordered queue `t` of the target kind with the same map (same entries, payloads included, same slots), the same
contents and length, equal to `s` under the crate's `PartialEq`, both ways round. -/
theorem C15_roundtrip_store [DecidableEq P] {s : Store P} (h : s.WF) :
    (∃ t, MaxQ.deserialize (Store.serializeM s).1 (Store.serializeM s).2 = .ok t ∧ MaxQ.Inv t ∧ t.map = s.map ∧
      t.abs = s.abs ∧ t.size = s.size ∧ Store.eqv s t = true ∧ Store.eqv t s = true) ∧
    (∃ t, DQ.deserialize (Store.serializeM s).1 (Store.serializeM s).2 = .ok t ∧ DQ.Inv t ∧ t.map = s.map ∧
      t.abs = s.abs ∧ t.size = s.size ∧ Store.eqv s t = true ∧ Store.eqv t s = true) :=
  C15_roundtrip h (some s.size)

/-- **round trip as an operation of the alphabet, either kind read back as either kind.**  `q` is a queue of either kind
satisfying the invariant of its kind (`QInv q`); `k` is the kind it is read back as (`step` deserializes into the kind of
the queue it is applied to — whose store `s0` is irrelevant: `Deserialize` builds a fresh queue).  The operation succeeds
(no error, no fault) and returns a queue `⟨k, t⟩` that satisfies the invariant of kind `k`, has the map / the contents /
the length of `q`, and is `eqv` to `q` both ways round. -/
theorem C15_roundtrip_serialized [DecidableEq P] {q : Q P} (hq : QInv q) (k : Kind) (s0 : Store P) :
    ∃ t, step ⟨k, s0⟩ (.deserialize (Store.serializeM q.s).1 (Store.serializeM q.s).2) = .ok (⟨k, t⟩, .unit) ∧
      QInv ⟨k, t⟩ ∧ t.map = q.s.map ∧ t.abs = q.s.abs ∧ t.size = q.s.size ∧
      Store.eqv q.s t = true ∧ Store.eqv t q.s = true := by
  obtain ⟨⟨t1, r1, i1, rest1⟩, ⟨t2, r2, i2, rest2⟩⟩ := C15_roundtrip_store (s := q.s) hq.wf
  cases k
  · refine ⟨t1, ?_, i1, rest1⟩
    simp only [step, r1, bind, Except.bind, pure, Except.pure]
  · refine ⟨t2, ?_, i2, rest2⟩
    simp only [step, r2, bind, Except.bind, pure, Except.pure]

/-- the same from well-formedness alone (`QWF q`: the queue need not be ordered, e.g. after a leaked `iter_mut` guard or a
caught panic): what is read back is nevertheless correctly ordered -/
theorem C15_roundtrip_serialized_wf [DecidableEq P] {q : Q P} (hq : QWF q) (k : Kind) (s0 : Store P) :
    ∃ t, step ⟨k, s0⟩ (.deserialize (Store.serializeM q.s).1 (Store.serializeM q.s).2) = .ok (⟨k, t⟩, .unit) ∧
      QInv ⟨k, t⟩ ∧ t.map = q.s.map ∧ t.abs = q.s.abs ∧ t.size = q.s.size ∧
      Store.eqv q.s t = true ∧ Store.eqv t q.s = true := by
  obtain ⟨⟨t1, r1, i1, rest1⟩, ⟨t2, r2, i2, rest2⟩⟩ := C15_roundtrip_store (s := q.s) hq
  cases k
  · refine ⟨t1, ?_, i1, rest1⟩
    simp only [step, r1, bind, Except.bind, pure, Except.pure]
  · refine ⟨t2, ?_, i2, rest2⟩
    simp only [step, r2, bind, Except.bind, pure, Except.pure]

/-- the name under which the reviewer asked for `C15_roundtrip_serialized` (an alias; the axiom audit at the end of the
file lists the unprimed name, which the check's parser can read) -/
theorem C15_roundtrip' [DecidableEq P] {q : Q P} (hq : QInv q) (k : Kind) (s0 : Store P) :
    ∃ t, step ⟨k, s0⟩ (.deserialize (Store.serializeM q.s).1 (Store.serializeM q.s).2) = .ok (⟨k, t⟩, .unit) ∧
      QInv ⟨k, t⟩ ∧ t.map = q.s.map ∧ t.abs = q.s.abs ∧ t.size = q.s.size ∧
      Store.eqv q.s t = true ∧ Store.eqv t q.s = true := C15_roundtrip_serialized hq k s0

/-! ## Non-vacuity (`P := Nat`)

`bp_exP`: a `PriorityQueue` of 5 elements with payloads, correctly ordered (`bp_exP_inv`), index tables not the identity. -/

example : Store.serializeM bp_exP =
    (some 5, #[(⟨1, 10⟩, 5), (⟨2, 20⟩, 9), (⟨3, 30⟩, 7), (⟨4, 40⟩, 1), (⟨5, 50⟩, 3)]) := by decide +kernel

/-- `C15_roundtrip_store`: hypothesis and both conclusions on the concrete 5-element queue -/
example : MaxQ.Inv bp_exP ∧ bp_exP.heap ≠ Array.range 5 ∧
    bp_okR (MaxQ.deserialize (Store.serializeM bp_exP).1 (Store.serializeM bp_exP).2) (fun t => MaxQ.Inv t ∧
      t.map = bp_exP.map ∧ t.size = 5 ∧ Store.eqv bp_exP t = true ∧ Store.eqv t bp_exP = true ∧
      MaxQ.peek t = some (⟨2, 20⟩, 9)) ∧
    bp_okR (DQ.deserialize (Store.serializeM bp_exP).1 (Store.serializeM bp_exP).2) (fun t => t.WF ∧
      t.map = bp_exP.map ∧ t.size = 5 ∧ Store.eqv bp_exP t = true ∧ Store.eqv t bp_exP = true ∧
      bp_okR (DQ.peekMin t) (fun e => e = some (⟨4, 40⟩, 1)) ∧
      bp_okR (DQ.peekMax t) (fun e => e.2 = some (⟨2, 20⟩, 9))) := by decide +kernel

/-- `C15_roundtrip_serialized`: `QInv` of the concrete queue holds, and the operation read back as either kind (applied to an
unrelated non-empty queue `bp_exO`) returns a queue with `bp_exP`'s map and length; read back as a `DoublePriorityQueue`,
serialized again and read back as a `PriorityQueue`, it is `bp_exP`'s map once more, correctly ordered -/
example : QInv (⟨.pq, bp_exP⟩ : Q Nat) := bp_exP_inv

example :
    bp_okR (step (⟨.pq, bp_exO⟩ : Q Nat) (.deserialize (Store.serializeM bp_exP).1 (Store.serializeM bp_exP).2))
      (fun r => r.1.kind = .pq ∧ MaxQ.Inv r.1.s ∧ r.1.s.map = bp_exP.map ∧ r.1.s.size = 5 ∧
        Store.eqv bp_exP r.1.s = true) ∧
    bp_okR (step (⟨.dpq, bp_exO⟩ : Q Nat) (.deserialize (Store.serializeM bp_exP).1 (Store.serializeM bp_exP).2))
      (fun r => r.1.kind = .dpq ∧ r.1.s.WF ∧ r.1.s.map = bp_exP.map ∧ r.1.s.size = 5 ∧
        Store.eqv bp_exP r.1.s = true ∧ bp_okR (DQ.peekMin r.1.s) (fun e => e = some (⟨4, 40⟩, 1)) ∧
        bp_okR (step (⟨.pq, bp_exO⟩ : Q Nat) (.deserialize (Store.serializeM r.1.s).1 (Store.serializeM r.1.s).2))
          (fun u => MaxQ.Inv u.1.s ∧ u.1.s.map = bp_exP.map ∧ Store.eqv r.1.s u.1.s = true)) := by decide +kernel

/-- `C15_roundtrip_serialized_wf`: a well-formed but disordered queue (`bp_exW`: not a max-heap) is read back ordered -/
example : QWF (⟨.pq, bp_exW⟩ : Q Nat) ∧ ¬ MaxQ.Inv bp_exW ∧
    bp_okR (step (⟨.pq, bp_exO⟩ : Q Nat) (.deserialize (Store.serializeM bp_exW).1 (Store.serializeM bp_exW).2))
      (fun r => MaxQ.Inv r.1.s ∧ r.1.s.map = bp_exW.map ∧ r.1.s.size = 5) := by
  refine ⟨bp_exW_wf, ?_, ?_⟩ <;> decide +kernel

end PQ

#print axioms PQ.C15_serialize_len_honest
#print axioms PQ.C15_roundtrip_store
#print axioms PQ.C15_roundtrip_serialized
#print axioms PQ.C15_roundtrip_serialized_wf

