import PQ.Props.C10
/-!
# C01 — supplement: what `peek` still guarantees on a queue whose ORDER is unspecified

C10 allows the order of a queue to be unspecified after a caught panic inside an operation (and after a leaked
`iter_mut` guard).  What C01 still demands of such a queue — and what the check's judge evaluates on the post-panic
histories of the `post_crash` stream — is independent of the order: `peek` answers `None` exactly when nothing is
stored, and otherwise reports an entry that IS stored (with its current priority).  Both follow from well-formedness
alone (`MaxQ.peek_safe`), which every crash state and every continuation keeps (C10, C04).
-/
namespace PQ
open PQ.Crash
variable {P : Type} [LT P] [DecidableLT P] [LE P] [Std.IsLinearPreorder P] [Std.LawfulOrderLT P]

/-- `peek` on ANY well-formed store (ordered or not): `None` iff the map is empty, otherwise a stored entry -/
theorem C01_peek_of_wf {s : Store P} (h : s.WF) :
    (MaxQ.peek s = none ↔ s.map.size = 0) ∧ (∀ e, MaxQ.peek s = some e → s.abs e.1.key = some e) := by
  obtain ⟨h0, h1⟩ := MaxQ.peek_safe h
  have hm : s.map.size = s.size := h.map_size
  refine ⟨⟨fun hn => ?_, fun hz => h0 (by omega)⟩, fun e he => ?_⟩
  · rcases Nat.eq_zero_or_pos s.size with hz | hp
    · omega
    · obtain ⟨e, he, _⟩ := h1 hp
      rw [hn] at he; cases he
  · rcases Nat.eq_zero_or_pos s.size with hz | hp
    · rw [h0 hz] at he; cases he
    · obtain ⟨e', he', _, _, ha⟩ := h1 hp
      rw [he] at he'; cases he'; exact ha

/-- **after a caught `Ord::cmp` panic at ANY comparison of ANY operation, and after ANY continuation** (leaked guards
included): `peek` is `None` iff nothing is stored, and otherwise reports a stored entry -/
theorem C01_peek_after_crash_history (fuse : Nat) {q : Q P} {op : Op P} (hq : QWF q) (hl : op.Legal) (q' : Q P)
    (hc : stepF fuse q op = .error (.crashed q') ∨ (stepF fuse q op = .error .crashedNew ∧ q' = q))
    (ops : List (Op P)) (hops : ∀ o ∈ ops, o.Legal) :
    ∃ q'' outs, run q' ops = .ok (q'', outs) ∧
      (MaxQ.peek q''.s = none ↔ q''.s.map.size = 0) ∧ (∀ e, MaxQ.peek q''.s = some e → q''.s.abs e.1.key = some e) := by
  obtain ⟨q'', outs, hr, hw⟩ := C10_crash_then_any_history fuse hq hl q' hc ops hops
  exact ⟨q'', outs, hr, C01_peek_of_wf hw⟩

/-- … and after a panicking setter / predicate / source iterator (which may have written a priority first) -/
theorem C01_peek_after_callback_crash_history {q : Q P} {op : Op P} (k : Nat) (w : Option P) (hq : QWF q) (q' : Q P)
    (hc : stepCbW k w q op = .error (.crashed q') ∨ (stepCbW k w q op = .error .crashedNew ∧ q' = q))
    (ops : List (Op P)) (hops : ∀ o ∈ ops, o.Legal) :
    ∃ q'' outs, run q' ops = .ok (q'', outs) ∧
      (MaxQ.peek q''.s = none ↔ q''.s.map.size = 0) ∧ (∀ e, MaxQ.peek q''.s = some e → q''.s.abs e.1.key = some e) := by
  obtain ⟨q'', outs, hr, hw⟩ := (C10_callback_crash_then_any_history k w hq q' hc).1 ops hops
  exact ⟨q'', outs, hr, C01_peek_of_wf hw⟩

end PQ

#print axioms PQ.C01_peek_of_wf
#print axioms PQ.C01_peek_after_crash_history
#print axioms PQ.C01_peek_after_callback_crash_history
