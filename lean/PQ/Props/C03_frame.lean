import PQ.Props.C03_iter
/-!
# C03 — supplement: the frame over ARBITRARY histories

"No operation loses, duplicates or alters any element other than the ones it targets."  `C03_frame_history` proves
this for histories of operations with a NAMED target only (`push`, `change_priority`, `remove`, …).  Here the whole
alphabet is covered.

* `C03_touches k q op out` — the operation `op`, executed on the queue `q` and returning `out`, TOUCHES key `k`:
  - `push` / `push_increase` / `push_decrease` / `change_priority` / `change_priority_by` / `remove` / `get_mut` naming `k`;
  - `pop`, `pop_min`, `pop_max`, `peek_mut`, `peek_min_mut`, `peek_max_mut` whose returned entry has key `k`;
  - `pop_if` / `pop_min_if` / `pop_max_if` whose predicate was SHOWN the entry of `k` and accepted it (then the returned
    entry has key `k`: `C03_popIf_returned`) or refused it but rewrote it;
  - `retain` / `retain_mut` whose closure rejects or rewrites the entry of `k`;
  - `iter_mut` one of whose writes (a priority or a payload) goes through a reference yielded for the entry of `k`;
  - `extend` whose input contains a pair with key `k`; `append` whose other queue holds `k`;
  - `From<Vec>`, `FromIterator`, `Deserialize`, `clear`, `drain`: always (they replace or empty the whole queue);
  - the conversion to the other kind and the capacity operations: never.
  Heap reorderings, removals of OTHER elements, the swap-remove that RELABELS the slot of `k`, a leaked or dropped
  `iter_mut` guard that wrote to other elements, a rebuild: none of them touches `k`.
* `C03_frame_step` — a legal operation on a well-formed queue that does not touch `k` leaves `k` exactly as it was:
  stored with the same entry (item, payload and priority), or still absent.
* `C03_untouchedAlong k q ops` — no operation of the history touches `k` on the queue it is executed on;
  **`C03_frame_any_history`**, `C03_frame_any_history_stored`.
* `C03_untouched_of_target` — the hypothesis of the old `C03_frame_history` is an instance.
* `C03_touches` is decidable when `P` has decidable equality; `C03_untouchedAlongB` is an executable checker.
-/
set_option linter.unusedSimpArgs false
set_option linter.unusedSectionVars false
set_option linter.unusedVariables false
namespace PQ
open Store

/-! ## Definitions -/
section Defs
variable {P : Type}

/-- the key of the entry an operation returned -/
def C03_outKey : Out P → Option Nat
  | .entry (some e) => some e.1.key
  | _ => none

/-- a conditional pop touches `k`: its predicate was shown the entry of `k` and did not leave it exactly as it was
(it accepted it — the entry is removed — or refused but rewrote it) -/
def C03_popIfTouches (k : Nat) (f : Item → P → Bool × Item × P) : Option (Item × P) → Prop
  | some e => e.1.key = k ∧ ¬ ((f e.1 e.2).1 = false ∧ ((f e.1 e.2).2.1, (f e.1 e.2).2.2) = e)
  | none => False

/-- `retain_mut` touches `k`: the closure rejects the entry of `k`, or rewrites it -/
def C03_retainTouches (f : Item → P → Bool × Item × P) : Option (Item × P) → Prop
  | some e => IMap.retainStep f e ≠ some e
  | none => False

/-- `iter_mut` touches `k`: a write that writes something is attached to a call that yielded a reference to the entry
of `k` (`ys`: the keys the calls yielded) -/
def C03_iterTouches (k : Nat) (ys : List (Option Nat)) (prog : List (ICall × IMWrite P)) : Prop :=
  ∃ ycw ∈ ys.zip prog, ycw.1 = some k ∧ (ycw.2.2.prio.isSome = true ∨ ycw.2.2.payload.isSome = true)

variable [LT P] [DecidableLT P]

/-- **`op`, executed on `q` and returning `out`, touches key `k`** -/
def C03_touches (k : Nat) (q : Q P) (op : Op P) (out : Out P) : Prop :=
  match op with
  | .push it _ | .pushIncrease it _ | .pushDecrease it _ => it.key = k
  | .changePriority k' _ | .changePriorityBy k' _ | .remove k' | .getMut k' _ => k' = k
  | .popFront | .popBack | .peekFrontMut _ | .peekBackMut _ => C03_outKey out = some k
  | .popFrontIf f => C03_popIfTouches k f (C03_shown q (.popFrontIf f))
  | .popBackIf f => C03_popIfTouches k f (C03_shown q (.popBackIf f))
  | .retainMut f => C03_retainTouches f (q.s.abs k)
  | .iterMut leak prog => C03_iterTouches k (C03_seen q (.iterMut leak prog) out).yielded prog
  | .extend _ xs => ∃ e ∈ xs.toList, e.1.key = k
  | .append oth => (oth.abs k).isSome = true
  | .fromVec _ | .fromIter _ _ | .deserialize _ _ | .clear | .drain => True
  | .convert | .capacityOp => False

/-- no operation of the history `ops`, run from `q`, touches `k` on the queue it is executed on -/
def C03_untouchedAlong (k : Nat) : Q P → List (Op P) → Prop
  | _, [] => True
  | q, op :: ops => ∀ q1 o, step q op = .ok (q1, o) → ¬ C03_touches k q op o ∧ C03_untouchedAlong k q1 ops

instance [DecidableEq P] (k : Nat) (f : Item → P → Bool × Item × P) (sh : Option (Item × P)) :
    Decidable (C03_popIfTouches k f sh) := by
  unfold C03_popIfTouches; split <;> infer_instance

instance [DecidableEq P] (f : Item → P → Bool × Item × P) (sh : Option (Item × P)) :
    Decidable (C03_retainTouches f sh) := by
  unfold C03_retainTouches; split <;> infer_instance

instance (k : Nat) (ys : List (Option Nat)) (prog : List (ICall × IMWrite P)) : Decidable (C03_iterTouches k ys prog) := by
  unfold C03_iterTouches; infer_instance

instance [DecidableEq P] (k : Nat) (q : Q P) (op : Op P) (out : Out P) : Decidable (C03_touches k q op out) := by
  unfold C03_touches; split <;> infer_instance

/-- an executable form of `C03_untouchedAlong` -/
def C03_untouchedAlongB [DecidableEq P] (k : Nat) : Q P → List (Op P) → Bool
  | _, [] => true
  | q, op :: ops =>
    (match step q op with
     | .ok r => !decide (C03_touches k q op r.2) && C03_untouchedAlongB k r.1 ops
     | .error _ => true)

theorem C03_untouchedAlong_of_B [DecidableEq P] {k : Nat} (ops : List (Op P)) : ∀ {q : Q P},
    C03_untouchedAlongB k q ops = true → C03_untouchedAlong k q ops := by
  induction ops with
  | nil => intro q _; trivial
  | cons op ops ih =>
    intro q h q1 o e1
    simp only [C03_untouchedAlongB, e1, Bool.and_eq_true, Bool.not_eq_true', decide_eq_false_iff_not] at h
    exact ⟨h.1, ih h.2⟩

end Defs

/-! ## Lemmas about the abstract update -/
section Upd
variable {P : Type}

/-- writes that write nothing, or go to other keys, leave the entry of `k` alone -/
theorem C03_writesTo_untouched (k : Nat) (ys : List (Option Nat)) : ∀ (prog : List (ICall × IMWrite P)) (e : Item × P),
    ¬ C03_iterTouches k ys prog → C03_writesTo k ys prog e = e := by
  induction ys with
  | nil => intro prog e _; rfl
  | cons y ys ih =>
    intro prog e hn
    cases prog with
    | nil => rfl
    | cons cw prog =>
      simp only [C03_writesTo]
      have hrest : ¬ C03_iterTouches k ys prog := by
        rintro ⟨ycw, hin, h1, h2⟩
        exact hn ⟨ycw, by simp [List.zip_cons_cons, hin], h1, h2⟩
      have hhead : (if y = some k then cw.2.cont_apply e else e) = e := by
        split
        · rename_i hy
          have h0 : ¬ (cw.2.prio.isSome = true ∨ cw.2.payload.isSome = true) := fun h =>
            hn ⟨(y, cw), by simp [List.zip_cons_cons], hy, h⟩
          have hp : cw.2.prio = none := by
            cases hpr : cw.2.prio with
            | none => rfl
            | some p => exact absurd (Or.inl (by rw [hpr]; rfl)) h0
          have hl : cw.2.payload = none := by
            cases hpl : cw.2.payload with
            | none => rfl
            | some p => exact absurd (Or.inr (by rw [hpl]; rfl)) h0
          unfold IMWrite.cont_apply
          rw [hp, hl]
        · rfl
      rw [hhead]
      exact ih prog e hrest

end Upd

variable {P : Type} [LT P] [DecidableLT P] [LE P] [Std.IsLinearPreorder P] [Std.LawfulOrderLT P]

/-- pushing pairs with other keys leaves `k` alone -/
theorem C03_foldl_absPush_frame (l : List (Item × P)) {k : Nat} (h : ∀ e ∈ l, e.1.key ≠ k) : ∀ (a : AbsQ P),
    l.foldl (fun a e => absPush a e.1 e.2) a k = a k := by
  induction l with
  | nil => intro a; rfl
  | cons e l ih =>
    intro a
    rw [List.foldl_cons, ih (fun e' he' => h e' (List.mem_cons_of_mem _ he'))]
    exact cont_absPush_ne (fun hk => h e List.mem_cons_self hk.symm)

/-- the entry a conditional pop shows its predicate is a stored one -/
theorem C03_shown_stored {q : Q P} (hq : q.s.WF) {op : Op P} {e : Item × P} (h : C03_shown q op = some e) :
    q.s.abs e.1.key = some e := by
  obtain ⟨kind, s⟩ := q
  have hs : s.WF := hq
  cases op <;> first | (cases h; done) | skip
  case popFrontIf f =>
    cases kind with
    | pq =>
      have h' : MaxQ.peek s = some e := h
      rcases Nat.eq_zero_or_pos s.size with hz | hp
      · rw [(MaxQ.peek_safe hs).1 hz] at h'; cases h'
      · obtain ⟨e', he', _, _, ha⟩ := (MaxQ.peek_safe hs).2 hp
        rw [he'] at h'; cases h'; exact ha
    | dpq =>
      obtain ⟨r, hr, h0, h1⟩ := DQ.peekMin_safe hs
      have h' : (match DQ.peekMin s with | .ok r => r | .error _ => none) = some e := h
      rw [hr] at h'
      rcases Nat.eq_zero_or_pos s.size with hz | hp
      · rw [h0 hz] at h'; cases h'
      · obtain ⟨e', he', ha⟩ := h1 hp
        rw [he'] at h'; cases h'; exact ha
  case popBackIf f =>
    cases kind with
    | pq => cases h
    | dpq =>
      obtain ⟨k0, r, hr, _, h0, h1⟩ := DQ.peekMax_safe hs
      have h' : (match DQ.peekMax s with | .ok r => r.2 | .error _ => none) = some e := h
      rw [hr] at h'
      rcases Nat.eq_zero_or_pos s.size with hz | hp
      · have : r = none := h0 hz
        subst this; cases h'
      · obtain ⟨e', he', ha⟩ := h1 hp
        subst he'; cases h'; exact ha

/-- a conditional pop that does not touch `k` -/
theorem C03_popIf_frame {a : AbsQ P} {k : Nat} {f : Item → P → Bool × Item × P} {sh : Option (Item × P)}
    (hst : ∀ e, sh = some e → a e.1.key = some e) (hn : ¬ C03_popIfTouches k f sh) :
    (match sh with
     | none => a
     | some e => if (f e.1 e.2).1 = true then absRemove a e.1.key
                 else absSet a e.1.key ((f e.1 e.2).2.1, (f e.1 e.2).2.2)) k = a k := by
  cases sh with
  | none => rfl
  | some e =>
    show (if (f e.1 e.2).1 = true then absRemove a e.1.key
      else absSet a e.1.key ((f e.1 e.2).2.1, (f e.1 e.2).2.2)) k = a k
    by_cases hk : e.1.key = k
    · have h1 : (f e.1 e.2).1 = false ∧ ((f e.1 e.2).2.1, (f e.1 e.2).2.2) = e :=
        Classical.byContradiction (fun hc => hn ⟨hk, hc⟩)
      rw [if_neg (by rw [h1.1]; exact Bool.false_ne_true), h1.2, ← hk, cont_absSet_self, hst e rfl]
    · split
      · exact cont_absRemove_ne (fun h => hk h.symm)
      · exact cont_absSet_ne (fun h => hk h.symm)

/-! ## One step -/

/-- **the frame of every operation**: a legal operation on a well-formed queue of either kind that does not touch `k`
leaves `k` exactly as it was — stored with the same item, payload and priority, or still absent -/
theorem C03_frame_step {q q' : Q P} {op : Op P} {o : Out P} {k : Nat} (hq : q.s.WF) (hl : op.Legal)
    (hs : step q op = .ok (q', o)) (hn : ¬ C03_touches k q op o) : q'.s.abs k = q.s.abs k := by
  rw [C03_step_exact hq hl hs]
  cases op with
  | push it p => exact cont_absPush_ne (fun h => hn h.symm)
  | pushIncrease it p =>
    have hk : k ≠ it.key := fun h => hn h.symm
    show (match q.s.abs it.key with
      | none => absPush q.s.abs it p
      | some e => if e.2 < p then absPush q.s.abs it p else q.s.abs) k = _
    cases q.s.abs it.key with
    | none => exact cont_absPush_ne hk
    | some e =>
      show (if e.2 < p then absPush q.s.abs it p else q.s.abs) k = _
      split
      · exact cont_absPush_ne hk
      · rfl
  | pushDecrease it p =>
    have hk : k ≠ it.key := fun h => hn h.symm
    show (match q.s.abs it.key with
      | none => absPush q.s.abs it p
      | some e => if p < e.2 then absPush q.s.abs it p else q.s.abs) k = _
    cases q.s.abs it.key with
    | none => exact cont_absPush_ne hk
    | some e =>
      show (if p < e.2 then absPush q.s.abs it p else q.s.abs) k = _
      split
      · exact cont_absPush_ne hk
      · rfl
  | changePriority k' p =>
    have hk : k ≠ k' := fun h => hn h.symm
    show (match q.s.abs k' with | none => q.s.abs | some e => absSet q.s.abs k' (e.1, p)) k = _
    cases q.s.abs k' with
    | none => rfl
    | some e => exact cont_absSet_ne hk
  | changePriorityBy k' g =>
    have hk : k ≠ k' := fun h => hn h.symm
    show (match q.s.abs k' with | none => q.s.abs | some e => absSet q.s.abs k' (e.1, g e.2)) k = _
    cases q.s.abs k' with
    | none => rfl
    | some e => exact cont_absSet_ne hk
  | remove k' => exact cont_absRemove_ne (fun h => hn h.symm)
  | getMut k' w =>
    have hk : k ≠ k' := fun h => hn h.symm
    show (match q.s.abs k' with | none => q.s.abs | some e => absSet q.s.abs k' (w e.1, e.2)) k = _
    cases q.s.abs k' with
    | none => rfl
    | some e => exact cont_absSet_ne hk
  | popFront =>
    show C03_popUpd q.s.abs o k = _
    have hn' : C03_outKey o ≠ some k := hn
    unfold C03_popUpd
    split
    · rename_i e
      exact cont_absRemove_ne (fun h => hn' (by simp [C03_outKey, h]))
    · rfl
  | popBack =>
    show C03_popUpd q.s.abs o k = _
    have hn' : C03_outKey o ≠ some k := hn
    unfold C03_popUpd
    split
    · rename_i e
      exact cont_absRemove_ne (fun h => hn' (by simp [C03_outKey, h]))
    · rfl
  | popFrontIf f => exact C03_popIf_frame (fun e he => C03_shown_stored (op := .popFrontIf f) hq he) hn
  | popBackIf f => exact C03_popIf_frame (fun e he => C03_shown_stored (op := .popBackIf f) hq he) hn
  | peekFrontMut w =>
    show C03_peekMutUpd w q.s.abs o k = _
    have hn' : C03_outKey o ≠ some k := hn
    unfold C03_peekMutUpd
    split
    · rename_i e
      exact cont_absSet_ne (fun h => hn' (by simp [C03_outKey, h]))
    · rfl
  | peekBackMut w =>
    show C03_peekMutUpd w q.s.abs o k = _
    have hn' : C03_outKey o ≠ some k := hn
    unfold C03_peekMutUpd
    split
    · rename_i e
      exact cont_absSet_ne (fun h => hn' (by simp [C03_outKey, h]))
    · rfl
  | retainMut f =>
    show (q.s.abs k).bind (IMap.retainStep f) = _
    have hn' : ¬ C03_retainTouches f (q.s.abs k) := hn
    cases ha : q.s.abs k with
    | none => rfl
    | some e =>
      rw [ha] at hn'
      show IMap.retainStep f e = some e
      exact Classical.byContradiction (fun hc => hn' hc)
  | iterMut leak prog =>
    have hn' : ¬ C03_iterTouches k (C03_seen q (.iterMut leak prog) o).yielded prog := hn
    show (q.s.abs k).map (C03_writesTo k (C03_seen q (.iterMut leak prog) o).yielded prog) = _
    cases q.s.abs k with
    | none => rfl
    | some e => simp only [Option.map_some]; rw [C03_writesTo_untouched k _ prog e hn']
  | extend lo xs =>
    show (xs.foldl (fun a e => absPush a e.1 e.2) q.s.abs) k = _
    rw [← Array.foldl_toList]
    exact C03_foldl_absPush_frame xs.toList (fun e he hk => hn ⟨e, he, hk⟩) _
  | append oth =>
    have hn' : oth.abs k = none := by
      have h0 : ¬ (oth.abs k).isSome = true := hn
      cases h1 : oth.abs k with
      | none => rfl
      | some e => rw [h1] at h0; exact absurd rfl h0
    show (if oth.size > (C03_seen q (.append oth) o).len then (oth.abs k).or (q.s.abs k)
      else (q.s.abs k).or (oth.abs k)) = _
    rw [hn']
    split <;> simp
  | fromVec xs => exact absurd trivial hn
  | fromIter lo xs => exact absurd trivial hn
  | deserialize hint xs => exact absurd trivial hn
  | convert => rfl
  | clear => exact absurd trivial hn
  | drain => exact absurd trivial hn
  | capacityOp => rfl

/-! ## Histories -/

/-- **C03, frame over arbitrary histories**: along any legal history (leaked guards, bulk operations, conversions,
anything) none of whose operations touches `k`, key `k` is at the end exactly as it was at the start — stored with the
same entry, or absent: nothing is lost, duplicated, altered or created except by an operation that targets it -/
theorem C03_frame_any_history {k : Nat} (ops : List (Op P)) : ∀ {q q' : Q P} {outs : List (Out P)}, q.s.WF →
    (∀ op ∈ ops, op.Legal) → C03_untouchedAlong k q ops → run q ops = .ok (q', outs) → q'.s.abs k = q.s.abs k := by
  induction ops with
  | nil => intro q q' outs _ _ _ hr; rw [cont_run_nil] at hr; cases hr; rfl
  | cons op ops ih =>
    intro q q' outs hq hl hu hr
    obtain ⟨q1, o, os, h1, h2, rfl⟩ := cont_run_cons_inv hr
    have hl1 := hl op List.mem_cons_self
    have hq1 := (cont_step_refines hq hl1 h1).1
    obtain ⟨hn, hu1⟩ := hu q1 o h1
    rw [ih hq1 (fun op' hop => hl op' (List.mem_cons_of_mem _ hop)) hu1 h2]
    exact C03_frame_step hq hl1 h1 hn

/-- … in the form "a stored entry stays": if `k` is stored with entry `e` and no operation of the history touches `k`,
`k` is stored with the same entry `e` at the end -/
theorem C03_frame_any_history_stored {k : Nat} {e : Item × P} (ops : List (Op P)) {q q' : Q P} {outs : List (Out P)}
    (hq : q.s.WF) (hl : ∀ op ∈ ops, op.Legal) (hu : C03_untouchedAlong k q ops) (he : q.s.abs k = some e)
    (hr : run q ops = .ok (q', outs)) : q'.s.abs k = some e := by
  rw [C03_frame_any_history ops hq hl hu hr, he]

/-- the prefix form of `C03_untouchedAlong` -/
theorem C03_untouchedAlong_iff {k : Nat} (ops : List (Op P)) : ∀ (q : Q P),
    C03_untouchedAlong k q ops ↔
      ∀ n q1 outs op q2 o, run q (ops.take n) = .ok (q1, outs) → ops[n]? = some op → step q1 op = .ok (q2, o) →
        ¬ C03_touches k q1 op o := by
  induction ops with
  | nil => intro q; simp [C03_untouchedAlong]
  | cons op ops ih =>
    intro q
    simp only [C03_untouchedAlong]
    constructor
    · intro h n q1 outs op' q2 o hr hnth hst
      cases n with
      | zero =>
        rw [List.take_zero, cont_run_nil] at hr
        cases hr
        simp only [List.getElem?_cons_zero, Option.some.injEq] at hnth
        subst hnth
        exact (h q2 o hst).1
      | succ n =>
        rw [List.take_succ_cons] at hr
        obtain ⟨q3, o3, os, e1, e2, _⟩ := cont_run_cons_inv hr
        exact (ih q3).1 (h q3 o3 e1).2 n q1 os op' q2 o e2 (by simpa using hnth) hst
    · intro h q1 o e1
      refine ⟨h 0 q [] op q1 o (cont_run_nil q) (by simp) e1, (ih q1).2 (fun n q2 outs op' q3 o' hr hnth hst => ?_)⟩
      exact h (n + 1) q2 (o :: outs) op' q3 o' (by rw [List.take_succ_cons]; exact cont_run_cons e1 hr)
        (by simpa using hnth) hst

/-- an operation with a named target other than `k` does not touch `k` (whatever the queue and the output) -/
theorem C03_not_touches_of_target {k t : Nat} {q : Q P} {op : Op P} {o : Out P} (ht : cont_target op = some t)
    (hne : t ≠ k) : ¬ C03_touches k q op o := by
  cases op <;> simp only [cont_target, Option.some.injEq, reduceCtorEq] at ht <;> subst ht <;> exact hne

/-- the hypothesis of `C03_frame_history` is an instance of `C03_untouchedAlong`: the new theorem subsumes the old one -/
theorem C03_untouched_of_target {k : Nat} (ops : List (Op P)) : ∀ (q : Q P),
    (∀ op ∈ ops, ∃ t, cont_target op = some t ∧ t ≠ k) → C03_untouchedAlong k q ops := by
  induction ops with
  | nil => intro q _; trivial
  | cons op ops ih =>
    intro q h q1 o _
    obtain ⟨t, ht, hne⟩ := h op List.mem_cons_self
    exact ⟨C03_not_touches_of_target ht hne, ih q1 (fun op' hop => h op' (List.mem_cons_of_mem _ hop))⟩

/-! ## Non-vacuity -/
section Examples

/-- a history over the whole range of NON-targeting operations, seen from key 5 of `cont_ex5` (slot 4, priority 3): pops of
other elements (the first one swap-removes: key 5 is RELABELLED to slot 1), a leaked guard that writes to other elements
and is handed a reference to key 5 without writing through it, a refused conditional pop that rewrites another element,
`retain` dropping another element, `extend` and `append` with other keys, a conversion, a rebuild -/
private def exOps : List (Op Nat) :=
  [.popFront, .push ⟨6, 60⟩ 2, .iterMut true [(.next, ⟨some 0, none⟩), (.next, ⟨none, none⟩), (.next, ⟨none, some 1⟩)],
   .popFrontIf (fun it p => (false, ⟨it.key, 77⟩, p + 1)), .retainMut (fun it p => (it.key != 4, it, p)),
   .extend 0 #[(⟨7, 0⟩, 2), (⟨1, 0⟩, 6)], .append (Store.fromVec #[(⟨9, 0⟩, 1)]), .convert, .popFront, .peekBackMut id,
   .iterMut false [(.nextBack, ⟨some 50, none⟩)], .remove 9, .capacityOp]

example : ∀ op ∈ exOps, op.Legal := by
  intro op hop
  simp only [exOps, List.mem_cons, List.not_mem_nil, or_false] at hop
  rcases hop with rfl | rfl | rfl | rfl | rfl | rfl | rfl | rfl | rfl | rfl | rfl | rfl | rfl <;>
    first | trivial | exact fun _ => rfl | exact fun _ _ => rfl | (show Store.WF _; decide +kernel) |
      (show _ ∧ _ < capLimit; decide +kernel)
-- the hypotheses of `C03_frame_any_history_stored`: well-formed, key 5 stored, untouched along the history …
example : (⟨.pq, cont_ex5⟩ : Q Nat).s.WF ∧ cont_ex5.abs 5 = some (⟨5, 50⟩, 3) := by decide +kernel
example : C03_untouchedAlong 5 (⟨.pq, cont_ex5⟩ : Q Nat) exOps :=
  C03_untouchedAlong_of_B exOps (by decide +kernel)
-- … and the conclusion, evaluated (the slot of key 5 HAS changed; other keys were removed, rewritten, created)
example : cont_okR (run ⟨.pq, cont_ex5⟩ exOps) (fun r => r.1.s.abs 5 = some (⟨5, 50⟩, 3) ∧ r.1.kind = .dpq ∧
    IMap.find? cont_ex5.map 5 = some 4 ∧ IMap.find? r.1.s.map 5 = some 1 ∧ r.1.s.abs 2 = none ∧ r.1.s.abs 4 = none ∧
    r.1.s.abs 3 = some (⟨3, 77⟩, 8) ∧ r.1.s.abs 7 = some (⟨7, 0⟩, 50)) := by decide +kernel
-- `C03_touches` does discriminate: the same history touches key 1 (the leaked guard writes its priority), key 3 (a
-- payload write through the guard; the refusing predicate rewrites it) and key 4 (`retain` drops it)
example : C03_untouchedAlongB 1 (⟨.pq, cont_ex5⟩ : Q Nat) exOps = false ∧
    C03_untouchedAlongB 3 (⟨.pq, cont_ex5⟩ : Q Nat) exOps = false ∧
    C03_untouchedAlongB 4 (⟨.pq, cont_ex5⟩ : Q Nat) exOps = false := by decide +kernel

end Examples

end PQ

#print axioms PQ.C03_frame_step
#print axioms PQ.C03_frame_any_history
#print axioms PQ.C03_frame_any_history_stored
#print axioms PQ.C03_untouchedAlong_iff
#print axioms PQ.C03_untouched_of_target
