import PQ.Lemmas.IterLemmas
/-!
# C09 — "Mutable iteration never hands out the same element twice"

> exhausting it yields every element exactly once and then `None` forever; where it declares an exact
> size, `len` and `size_hint` report exactly the number of elements it will still yield.

The iterators are machines emitting slot indices; handing out two `&mut` to the same element is
"the same slot emitted twice".  `n` is the number of stored elements.  All theorems hold for **every**
`n` and **every** call list (no bound).

* `PIterMut` = `priority_queue::iterators::IterMut` (front cursor only, no exact size);
* `DIterMut` = `double_priority_queue::iterators::IterMut` (two cursors, `ExactSizeIterator`).

Vocabulary (`PQ/Lemmas/IterLemmas.lean`): `slots outs` = emitted slot indices in order,
`adv calls` = number of `.next`/`.nextBack` calls, `slotsOf w calls outs` = slots answered to calls `w`.
-/
namespace PQ

/-! ## `priority_queue::IterMut` -/

/-- exact description of what is handed out: the slots `0, 1, …, min n (#next) - 1`, in order -/
theorem C09_pq_slots (n : Nat) (calls : List ICall) :
    slots (PIterMut.run n PIterMut.new calls) = List.range (min n (calls.count .next)) := by
  rw [PIterMut.slots_eq, List.range_eq_range']; rfl

/-- 1. no element is handed out twice, and only stored elements are handed out -/
theorem C09_pq_nodup (n : Nat) (calls : List ICall) :
    (slots (PIterMut.run n PIterMut.new calls)).Nodup ∧
    ∀ i ∈ slots (PIterMut.run n PIterMut.new calls), i < n := by
  rw [C09_pq_slots]
  refine ⟨List.nodup_range, fun i hi => ?_⟩
  have := List.mem_range.1 hi; omega

example : slots (PIterMut.run 3 PIterMut.new [.next, .sizeHint, .next, .len, .next, .next, .nextBack, .next])
    = [0, 1, 2] := by decide

/-- 2a. exhausting: `n + k` calls of `next` yield slot `0 … n-1` in order and then `None` `k` times -/
theorem C09_pq_exhaust (n k : Nat) :
    PIterMut.run n PIterMut.new (List.replicate (n + k) .next)
      = (List.range n).map (fun i => IOut.slot (some i)) ++ List.replicate k (IOut.slot none) := by
  rw [List.range_eq_range']
  exact PIterMut.run_replicate_next n 0 n k (by omega)

example : PIterMut.run 3 PIterMut.new (List.replicate (3 + 2) .next)
    = [.slot (some 0), .slot (some 1), .slot (some 2), .slot none, .slot none] := by decide

/-- 2b. for any call list the emitted slots are a prefix `0, 1, …, m-1` (`m ≤ n`) in order -/
theorem C09_pq_prefix (n : Nat) (calls : List ICall) :
    ∃ m, m ≤ n ∧ slots (PIterMut.run n PIterMut.new calls) = List.range m :=
  ⟨min n (calls.count .next), Nat.min_le_left _ _, C09_pq_slots n calls⟩

/-- 2c. `None` forever: once a call has answered `None`, every later answer is `None`, in any call list -/
theorem C09_pq_none_forever (n : Nat) (calls : List ICall) (j j' : Nat) (hj : j ≤ j')
    (h : (PIterMut.run n PIterMut.new calls)[j]? = some (.slot none)) :
    ∀ s, (PIterMut.run n PIterMut.new calls)[j']? = some (.slot s) → s = none :=
  PIterMut.none_forever n PIterMut.new calls j j' hj h

example : (PIterMut.run 2 PIterMut.new [.next, .next, .next, .sizeHint, .next])[2]? = some (.slot none) := by
  decide

/-- `priority_queue::IterMut` declares no exact size: never a `len`, `size_hint` is `(0, None)` -/
theorem C09_pq_no_exact_size (n : Nat) (calls : List ICall) (j : Nat) :
    (∀ k, (PIterMut.run n PIterMut.new calls)[j]? ≠ some (.len k)) ∧
    (∀ lo hi, (PIterMut.run n PIterMut.new calls)[j]? = some (.hint lo hi) → lo = 0 ∧ hi = none) :=
  PIterMut.no_exact_size n PIterMut.new calls j

/-! ## `double_priority_queue::IterMut` -/

/-- 3. the checked subtractions in `len`/`size_hint` never underflow: no call list faults -/
theorem C09_dpq_nofault (n : Nat) (calls : List ICall) :
    ∃ outs, DIterMut.run n (DIterMut.new n) calls = .ok outs :=
  ⟨_, DIterMut.run_eq_cursor n calls⟩

example : DIterMut.run 3 (DIterMut.new 3) [.next, .len, .nextBack, .sizeHint, .next, .next, .len, .nextBack]
    = .ok [.slot (some 0), .len 2, .slot (some 2), .hint 1 (some 1), .slot (some 1), .slot none, .len 0,
        .slot none] := by rfl

/-- **state invariant** behind 3–6.  After any call list `pre` the machine has not faulted, and with
`e` the emitted slots its state `⟨pos, back⟩` satisfies `pos ≤ back ≤ n`, `back - pos = n - e.length`,
and `e` is exactly the set `{i | i < pos ∨ back ≤ i < n}`.  (`DIterMut.exec` is the state reached:
see `C09_dpq_inv_continue`.) -/
theorem C09_dpq_inv (n : Nat) (pre : List ICall) :
    ∃ it outs, DIterMut.exec n (DIterMut.new n) pre = .ok it ∧
      DIterMut.run n (DIterMut.new n) pre = .ok outs ∧
      it.pos ≤ it.back ∧ it.back ≤ n ∧ it.back - it.pos = n - (slots outs).length ∧
      ∀ i, i ∈ slots outs ↔ i < it.pos ∨ (it.back ≤ i ∧ i < n) := by
  refine ⟨_, _, DIterMut.exec_eq_cursor n pre, DIterMut.run_eq_cursor n pre, ?_⟩
  have := Cursor.inv (Cursor.new n) (Nat.zero_le _) pre
  simp only [Cursor.new, Nat.zero_le, true_and, Nat.sub_zero] at this ⊢
  exact this

/-- the state of `C09_dpq_inv` is the one from which the run continues -/
theorem C09_dpq_inv_continue (n : Nat) (pre post : List ICall) (it : DIterMut) (outs : List IOut)
    (he : DIterMut.exec n (DIterMut.new n) pre = .ok it)
    (hr : DIterMut.run n (DIterMut.new n) pre = .ok outs) :
    DIterMut.run n (DIterMut.new n) (pre ++ post) = (outs ++ ·) <$> DIterMut.run n it post :=
  DIterMut.run_append_ok n _ it pre post outs he hr

/-- 4. no element is handed out twice (from either end), and only stored elements are handed out -/
theorem C09_dpq_nodup (n : Nat) (calls : List ICall) (outs : List IOut)
    (h : DIterMut.run n (DIterMut.new n) calls = .ok outs) :
    (slots outs).Nodup ∧ ∀ i ∈ slots outs, i < n := by
  rw [DIterMut.run_eq_cursor] at h
  cases h
  exact ⟨Cursor.slots_nodup _ _, fun i hi => (Cursor.slots_bounds _ _ i hi).2⟩

example : ∃ outs, DIterMut.run 3 (DIterMut.new 3) [.nextBack, .next, .next, .nextBack, .next] = .ok outs ∧
    slots outs = [2, 0, 1] :=
  ⟨[.slot (some 2), .slot (some 0), .slot (some 1), .slot none, .slot none], by rfl, by decide⟩

/-- 5. exact size: the answer of every `len` call is `n - (number of slots emitted before the call)`,
and every `size_hint` answers `(that, Some(that))`; moreover that number is exactly the number of
elements still yielded from then on (`min` with the number of advancing calls still to come). -/
theorem C09_dpq_exact (n : Nat) (calls : List ICall) (outs : List IOut)
    (h : DIterMut.run n (DIterMut.new n) calls = .ok outs) (j : Nat) :
    (∀ k, outs[j]? = some (.len k) →
      k = n - (slots (outs.take j)).length ∧
      (slots (outs.drop j)).length = min k (adv (calls.drop j))) ∧
    (∀ lo hi, outs[j]? = some (.hint lo hi) →
      lo = n - (slots (outs.take j)).length ∧ hi = some (n - (slots (outs.take j)).length) ∧
      (slots (outs.drop j)).length = min lo (adv (calls.drop j))) := by
  rw [DIterMut.run_eq_cursor] at h
  cases h
  refine ⟨fun k hk => ?_, fun lo hi hk => ?_⟩
  · have h1 := (Cursor.exact_at _ _ _ _ hk).1 k rfl
    have h2 := (Cursor.still_yield _ _ _ _ hk).1 k rfl
    simp only [Cursor.new, Cursor.remaining, Nat.sub_zero] at h1
    exact ⟨h1, h2⟩
  · have h1 := (Cursor.exact_at _ _ _ _ hk).2 lo hi rfl
    have h2 := (Cursor.still_yield _ _ _ _ hk).2 lo hi rfl
    simp only [Cursor.new, Cursor.remaining, Nat.sub_zero] at h1
    exact ⟨h1.1, h1.2, h2⟩

example : ∃ outs, DIterMut.run 3 (DIterMut.new 3) [.next, .len, .nextBack, .sizeHint] = .ok outs ∧
    outs[1]? = some (.len 2) ∧ outs[3]? = some (.hint 1 (some 1)) :=
  ⟨[.slot (some 0), .len 2, .slot (some 2), .hint 1 (some 1)], by rfl, by decide, by decide⟩

/-- 6. exhaustion.
(a) the number of elements handed out is `min n (#advancing calls)`;
(b) once `n` slots have been emitted every later `next`/`next_back` answers `None`, forever;
(c) with at least `n` advancing calls every element is handed out exactly once
    (`slots outs` is a permutation of `0 … n-1`);
(d) `next` hands out `0, 1, 2, …` ascending, `next_back` hands out `n-1, n-2, …` descending. -/
theorem C09_dpq_exhaust (n : Nat) (calls : List ICall) (outs : List IOut)
    (h : DIterMut.run n (DIterMut.new n) calls = .ok outs) :
    (slots outs).length = min n (adv calls) ∧
    (∀ j, (slots (outs.take j)).length = n → ∀ j', j ≤ j' →
      ((calls[j']? = some .next ∨ calls[j']? = some .nextBack) → outs[j']? = some (.slot none)) ∧
      (∀ s, outs[j']? = some (.slot s) → s = none)) ∧
    (n ≤ adv calls → (slots outs).Perm (List.range n)) ∧
    (∃ m1 m2, m1 + m2 = (slots outs).length ∧
      slotsOf .next calls outs = List.range m1 ∧
      slotsOf .nextBack calls outs = (List.range m2).map (fun j => n - 1 - j)) := by
  rw [DIterMut.run_eq_cursor] at h
  cases h
  refine ⟨?_, fun j hj j' hjj => ?_, fun hn => ?_, ?_⟩
  · simpa [Cursor.new, Cursor.remaining] using Cursor.slots_length (Cursor.new n) calls
  · exact Cursor.none_forever (Cursor.new n) calls j (by simpa [Cursor.new, Cursor.remaining] using hj) j' hjj
  · have := Cursor.slots_perm (Cursor.new n) calls (by simpa [Cursor.new, Cursor.remaining] using hn)
    simpa [Cursor.new, Cursor.remaining, List.range_eq_range'] using this
  · obtain ⟨m1, m2, h0, h1, h2⟩ := Cursor.front_back_order (Cursor.new n) calls
    exact ⟨m1, m2, h0, by simpa [Cursor.new, List.range_eq_range'] using h1, by simpa [Cursor.new] using h2⟩

example : ∃ outs, DIterMut.run 3 (DIterMut.new 3) [.nextBack, .next, .len, .nextBack, .next, .nextBack] = .ok outs ∧
    slots outs = [2, 0, 1] ∧ outs[4]? = some (.slot none) ∧ outs[5]? = some (.slot none) ∧
    slotsOf .next [.nextBack, .next, .len, .nextBack, .next, .nextBack] outs = [0] ∧
    slotsOf .nextBack [.nextBack, .next, .len, .nextBack, .next, .nextBack] outs = [2, 1] :=
  ⟨[.slot (some 2), .slot (some 0), .len 1, .slot (some 1), .slot none, .slot none],
    by rfl, by decide, by decide, by decide, by decide, by decide⟩

/-- `ExactSizeIterator::len` asserts `upper == Some(lower)`: that assertion never fails -/
theorem C09_dpq_adaptor_len_ok (n : Nat) (calls : List ICall) (outs : List IOut)
    (h : DIterMut.run n (DIterMut.new n) calls = .ok outs) (j lo : Nat) (hi : Option Nat)
    (ho : outs[j]? = some (.hint lo hi)) : hi = some lo := by
  have := (C09_dpq_exact n calls outs h j).2 lo hi ho
  rw [this.2.1, ← this.1]

end PQ

#print axioms PQ.C09_pq_slots
#print axioms PQ.C09_pq_nodup
#print axioms PQ.C09_pq_exhaust
#print axioms PQ.C09_pq_prefix
#print axioms PQ.C09_pq_none_forever
#print axioms PQ.C09_pq_no_exact_size
#print axioms PQ.C09_dpq_nofault
#print axioms PQ.C09_dpq_inv
#print axioms PQ.C09_dpq_inv_continue
#print axioms PQ.C09_dpq_nodup
#print axioms PQ.C09_dpq_exact
#print axioms PQ.C09_dpq_exhaust
#print axioms PQ.C09_dpq_adaptor_len_ok
