import PQ.Lemmas.History
/-!
# C01 — "PriorityQueue always yields a maximum-priority element"

> After any sequence of public operations on a `PriorityQueue`, `peek` reports and `pop` removes an element that is
> currently stored and whose priority is greater than or equal to every other stored priority under the priority type's
> `Ord`; an empty queue yields `None`.  `pop` (and the predicate of `pop_if`, and `peek_mut`) address exactly the element
> the immediately preceding `peek` reported.

Quantifier: **all finite histories** `ops : List (Op P)` over the alphabet of `PQ/Model/Ops.lean` (push new/existing,
`change_priority{,_by}` either direction, `push_increase`/`push_decrease`, `remove`, `get_mut`, `pop`, `pop_if`,
`peek_mut`, `retain{,_mut}`, `iter_mut` with a dropped guard, `extend`, `append`, `From<Vec>`/`FromIterator`/
`Deserialize`, the conversion from/to `DoublePriorityQueue`, `clear`/`drain`, the capacity operations), from **any
constructor** (`new`, or — since the bulk constructors are operations of the alphabet and ignore the old state — any of
them as the first operation; more generally from any queue satisfying the invariant), **all items and priorities**
(`P` is any type with a linear preorder: ties are allowed).  Side conditions: closures do not change an item's identity
(`Op.Legal`, the crate's documented requirement) and no `iter_mut` guard is leaked (`Op.isLeak`): the property list itself
sets that case apart — C10 says that after a leaked iterator "the order and even the reported length may be unspecified;
safety may not".  The order is restored by the next rebuilding operation (`hist_run_heal`); everything that needs only
well-formedness holds through leaks as well (C03, C04, C13, C16).  (The crate's own documentation only says that the heap
"will be rebuilt once the `IterMut` goes out of scope".)

`QInv q'` is the invariant of the kind the queue has at the end of the history (`.convert` switches kinds inside a
history); for kind `.pq` it is `MaxQ.Inv q'.s = WF ∧ MaxHeap`.
-/
namespace PQ
variable {P : Type} [LT P] [DecidableLT P] [LE P] [Std.IsLinearPreorder P] [Std.LawfulOrderLT P]

/-! ## Reachability: every history keeps the invariant -/

/-- **C01, reachability.**  From any queue satisfying the invariant of its kind, every history of legal operations
without a leaked guard runs without fault and ends in a queue satisfying the invariant of its final kind; if that kind
is `PriorityQueue`, the store is a well-formed binary max-heap. -/
theorem C01_reach (ops : List (Op P)) {q : Q P} (hq : QInv q) (hl : ∀ op ∈ ops, op.Legal)
    (hn : ∀ op ∈ ops, op.isLeak = false) :
    ∃ q' outs, run q ops = .ok (q', outs) ∧ outs.length = ops.length ∧ QInv q' ∧ (q'.kind = .pq → MaxQ.Inv q'.s) := by
  obtain ⟨q', outs, hrun, hinv, hlen⟩ := hist_run_inv ops hq hl hn
  refine ⟨q', outs, hrun, hlen, hinv, fun hk => ?_⟩
  obtain ⟨k, s⟩ := q'
  cases hk
  exact hinv

/-- … in particular from `new()` of either kind -/
theorem C01_reach_new (ops : List (Op P)) (k : Kind) (hl : ∀ op ∈ ops, op.Legal) (hn : ∀ op ∈ ops, op.isLeak = false) :
    ∃ q' outs, run (Q.new k) ops = .ok (q', outs) ∧ outs.length = ops.length ∧ QInv q' ∧
      (q'.kind = .pq → MaxQ.Inv q'.s) :=
  C01_reach ops (hist_new_inv k) hl hn

/-! ## `peek` reports a stored maximum -/

/-- **C01, `peek`.**  Under the invariant: `None` on the empty queue, otherwise a stored entry no stored priority
exceeds. -/
theorem C01_peek_max {s : Store P} (h : MaxQ.Inv s) :
    (s.size = 0 → MaxQ.peek s = none) ∧
    (0 < s.size → ∃ e, MaxQ.peek s = some e ∧ s.Mem e ∧ ∀ e', s.Mem e' → ¬ e.2 < e'.2) := by
  obtain ⟨h0, h1⟩ := MaxQ.peek_spec h
  refine ⟨h0, fun hn => ?_⟩
  obtain ⟨e, hp, _, hmax⟩ := h1 hn
  exact ⟨e, hp, hmax.1, hmax.2⟩

/-- the same with `≤` of the priority type: every stored priority is `≤` the reported one -/
theorem C01_peek_ge {s : Store P} (h : MaxQ.Inv s) (e : Item × P) (he : MaxQ.peek s = some e) :
    s.Mem e ∧ s.abs e.1.key = some e ∧ ∀ e', s.Mem e' → e'.2 ≤ e.2 := by
  rcases Nat.eq_zero_or_pos s.size with hz | hn
  · rw [(C01_peek_max h).1 hz] at he; cases he
  · obtain ⟨e0, hp, hmem, hmax⟩ := (C01_peek_max h).2 hn
    rw [hp] at he; cases he
    refine ⟨hmem, (DQ.mem_iff_abs h.1).1 hmem, fun e' he' => ?_⟩
    have := hmax e' he'
    grind

/-- `peek` answers `None` exactly on the empty queue -/
theorem C01_peek_none_iff {s : Store P} (h : MaxQ.Inv s) : MaxQ.peek s = none ↔ s.size = 0 := by
  constructor
  · intro hp
    rcases Nat.eq_zero_or_pos s.size with hz | hn
    · exact hz
    · obtain ⟨e, he, _⟩ := (C01_peek_max h).2 hn
      rw [he] at hp; cases hp
  · exact (C01_peek_max h).1

/-- **C01, `peek` after any history**: if the history ends in a `PriorityQueue`, `peek` of the final queue is `None`
iff the queue is empty, and otherwise a stored entry whose priority is `≥` every stored priority. -/
theorem C01_peek_history (ops : List (Op P)) {q : Q P} (hq : QInv q) (hl : ∀ op ∈ ops, op.Legal)
    (hn : ∀ op ∈ ops, op.isLeak = false) :
    ∃ q' outs, run q ops = .ok (q', outs) ∧
      (q'.kind = .pq →
        (MaxQ.peek q'.s = none ↔ q'.s.size = 0) ∧
        (0 < q'.s.size → ∃ e, MaxQ.peek q'.s = some e) ∧
        (∀ e, MaxQ.peek q'.s = some e →
          q'.s.Mem e ∧ (∀ e', q'.s.Mem e' → ¬ e.2 < e'.2) ∧ (∀ e', q'.s.Mem e' → e'.2 ≤ e.2))) := by
  obtain ⟨q', outs, hrun, _, _, hpq⟩ := C01_reach ops hq hl hn
  refine ⟨q', outs, hrun, fun hk => ?_⟩
  have h := hpq hk
  refine ⟨C01_peek_none_iff h, fun hpos => ?_, fun e he => ?_⟩
  · obtain ⟨e, he, _⟩ := (C01_peek_max h).2 hpos
    exact ⟨e, he⟩
  · obtain ⟨h1, _, h3⟩ := C01_peek_ge h e he
    refine ⟨h1, fun e' he' => ?_, h3⟩
    have := h3 e' he'
    grind

/-! ## `pop`, `pop_if`, `peek_mut` address exactly what `peek` reported -/

/-- **C01, `pop`.**  `pop` returns exactly `peek s` — `None` on the empty queue (nothing changes), otherwise the stored
maximum `peek` showed, and exactly its key disappears; the invariant holds afterwards. -/
theorem C01_pop_eq_peek {s : Store P} (h : MaxQ.Inv s) :
    ∃ s', MaxQ.pop s = .ok (s', MaxQ.peek s) ∧ MaxQ.Inv s' ∧
      (MaxQ.peek s = none → s' = s) ∧
      (∀ e, MaxQ.peek s = some e → s.IsMax e ∧ s.abs e.1.key = some e ∧ s'.abs = absRemove s.abs e.1.key ∧
        s'.size = s.size - 1) := by
  obtain ⟨h0, h1⟩ := MaxQ.pop_spec h
  rcases Nat.eq_zero_or_pos s.size with hz | hn
  · have hp := (C01_peek_max h).1 hz
    refine ⟨s, by rw [hp]; exact h0 hz, h, fun _ => rfl, fun e he => ?_⟩
    rw [hp] at he; cases he
  · obtain ⟨s', e, hpop, hpk, hmax, hinv, habs, hsz⟩ := h1 hn
    refine ⟨s', by rw [hpk]; exact hpop, hinv, fun hc => ?_, fun e' he' => ?_⟩
    · rw [hpk] at hc; cases hc
    · rw [hpk] at he'; cases he'
      exact ⟨hmax, (DQ.mem_iff_abs h.1).1 hmax.1, habs, hsz⟩

/-- **C01, `pop_if`.**  The predicate is applied to exactly the entry `peek` reports (a stored maximum) and to nothing
else: the outcome of `pop_if` is determined by `f` on that entry — *yes*: the (possibly rewritten) entry is returned
and its key disappears; *no*: `None`, the (possibly rewritten) entry stays.  On the empty queue the predicate is not
called.  The invariant holds afterwards in every case. -/
theorem C01_popIf_sees_peek {s : Store P} (h : MaxQ.Inv s) (f : Item → P → Bool × Item × P)
    (hf : ∀ it p, (f it p).2.1.key = it.key) :
    (MaxQ.peek s = none → MaxQ.popIf s f = .ok (s, none)) ∧
    (∀ e, MaxQ.peek s = some e → s.IsMax e ∧
      ∃ s', MaxQ.popIf s f =
          .ok (s', if (f e.1 e.2).1 = true then some ((f e.1 e.2).2.1, (f e.1 e.2).2.2) else none) ∧
        MaxQ.Inv s' ∧
        s'.abs = (if (f e.1 e.2).1 = true then absRemove s.abs e.1.key
                  else absSet s.abs e.1.key ((f e.1 e.2).2.1, (f e.1 e.2).2.2)) ∧
        s'.size = (if (f e.1 e.2).1 = true then s.size - 1 else s.size)) := by
  obtain ⟨h0, h1⟩ := MaxQ.popIf_spec h f hf
  refine ⟨fun hp => h0 ((C01_peek_none_iff h).1 hp), fun e he => ?_⟩
  have hn : 0 < s.size := by
    rcases Nat.eq_zero_or_pos s.size with hz | hn
    · rw [(C01_peek_max h).1 hz] at he; cases he
    · exact hn
  obtain ⟨e0, hpk, hmax, ht, hfl⟩ := h1 hn
  rw [hpk] at he; cases he
  refine ⟨hmax, ?_⟩
  cases hr : (f e.1 e.2).1 with
  | true =>
    obtain ⟨s', hp, hinv, habs, hsz⟩ := ht hr
    exact ⟨s', by simpa using hp, hinv, by simpa using habs, by simpa using hsz⟩
  | false =>
    obtain ⟨s', hp, hinv, habs, hsz⟩ := hfl hr
    exact ⟨s', by simpa using hp, hinv, by simpa using habs, by simpa using hsz⟩

/-- **C01, `peek_mut`.**  The reference handed out is to exactly the entry `peek` reports; a key-preserving write to
the item changes only that entry's item and keeps the invariant (the priority is not writable through `peek_mut`). -/
theorem C01_peekMut_eq_peek {s : Store P} (h : MaxQ.Inv s) (w : Item → Item) (hw : ∀ it, (w it).key = it.key) :
    ∃ s', MaxQ.peekMutWrite s w = .ok (s', MaxQ.peek s) ∧ MaxQ.Inv s' ∧ s'.size = s.size ∧
      (MaxQ.peek s = none → s' = s) ∧
      (∀ e, MaxQ.peek s = some e → s.IsMax e ∧ s'.abs = absSet s.abs e.1.key (w e.1, e.2)) := by
  obtain ⟨h0, h1⟩ := MaxQ.peekMutWrite_spec h w hw
  rcases Nat.eq_zero_or_pos s.size with hz | hn
  · have hp := (C01_peek_max h).1 hz
    refine ⟨s, by rw [hp]; exact h0 hz, h, rfl, fun _ => rfl, fun e he => ?_⟩
    rw [hp] at he; cases he
  · obtain ⟨s', e, hrun, hpk, hmax, hinv, hsz, habs⟩ := h1 hn
    refine ⟨s', by rw [hpk]; exact hrun, hinv, hsz, fun hc => ?_, fun e' he' => ?_⟩
    · rw [hpk] at hc; cases hc
    · rw [hpk] at he'; cases he'
      exact ⟨hmax, habs⟩

/-- **C01, history form of "pop addresses what the immediately preceding peek reported"**: after any history ending in
a `PriorityQueue`, the next `pop` / `pop_if f` / `peek_mut` operation of the alphabet returns what `peek` of that state
reports (for `pop_if`: what `f` makes of it), and the invariant continues to hold. -/
theorem C01_next_after_history (ops : List (Op P)) {q : Q P} (hq : QInv q) (hl : ∀ op ∈ ops, op.Legal)
    (hn : ∀ op ∈ ops, op.isLeak = false) :
    ∃ q' outs, run q ops = .ok (q', outs) ∧
      (q'.kind = .pq →
        (∃ q'', step q' .popFront = .ok (q'', .entry (MaxQ.peek q'.s)) ∧ QInv q'') ∧
        (∀ w : Item → Item, (∀ it, (w it).key = it.key) →
          ∃ q'', step q' (.peekFrontMut w) = .ok (q'', .entry (MaxQ.peek q'.s)) ∧ QInv q'') ∧
        (∀ f : Item → P → Bool × Item × P, (∀ it p, (f it p).2.1.key = it.key) →
          ∃ q'', step q' (.popFrontIf f) =
            .ok (q'', .entry ((MaxQ.peek q'.s).bind fun e =>
              if (f e.1 e.2).1 = true then some ((f e.1 e.2).2.1, (f e.1 e.2).2.2) else none)) ∧ QInv q'')) := by
  obtain ⟨q', outs, hrun, _, _, hpq⟩ := C01_reach ops hq hl hn
  refine ⟨q', outs, hrun, fun hk => ?_⟩
  have h := hpq hk
  obtain ⟨k, s⟩ := q'
  cases hk
  refine ⟨?_, fun w hw => ?_, fun f hf => ?_⟩
  · obtain ⟨s', he, hinv, _⟩ := C01_pop_eq_peek h
    simp only [step, he, bind, Except.bind, pure, Except.pure]
    exact ⟨_, rfl, hinv⟩
  · obtain ⟨s', he, hinv, _⟩ := C01_peekMut_eq_peek h w hw
    simp only [step, he, bind, Except.bind, pure, Except.pure]
    exact ⟨_, rfl, hinv⟩
  · obtain ⟨h0, h1⟩ := C01_popIf_sees_peek h f hf
    cases hp : MaxQ.peek s with
    | none =>
      simp only [step, h0 hp, bind, Except.bind, pure, Except.pure, Option.bind_none]
      exact ⟨_, rfl, h⟩
    | some e =>
      obtain ⟨_, s', he, hinv, _⟩ := h1 e hp
      simp only [step, he, bind, Except.bind, pure, Except.pure, Option.bind_some]
      exact ⟨_, rfl, hinv⟩

/-! ## Non-vacuity: concrete histories (ties, both directions of `change_priority`, bulk operations, a conversion) -/
section Examples

/-- every kind of operation once; priorities tie (`7` three times) -/
private def exOps : List (Op Nat) :=
  [.push ⟨1, 0⟩ 7, .push ⟨2, 0⟩ 7, .push ⟨3, 0⟩ 2, .push ⟨2, 5⟩ 1, .changePriority 3 7, .changePriorityBy 1 (· - 3),
   .pushIncrease ⟨4, 0⟩ 6, .pushDecrease ⟨4, 0⟩ 5, .pushIncrease ⟨4, 0⟩ 9, .remove 1, .getMut 2 (fun it => ⟨it.key, 8⟩),
   .extend 0 #[(⟨5, 0⟩, 9), (⟨6, 0⟩, 3)], .append (Store.fromVec #[(⟨7, 0⟩, 4), (⟨5, 1⟩, 0)]),
   .iterMut false [(.next, ⟨some 0, none⟩), (.next, ⟨none, some 1⟩), (.next, ⟨some 12, none⟩)],
   .retainMut (fun it p => (p != 3, it, p)), .popFrontIf (fun it p => (p == 12, it, p)), .capacityOp,
   .peekFrontMut (fun it => ⟨it.key, 99⟩), .convert, .popBack, .convert]

example : (∀ op ∈ exOps, op.Legal) ∧ (∀ op ∈ exOps, op.isLeak = false) := by
  constructor <;> intro op h <;> simp only [exOps, List.mem_cons, List.not_mem_nil, or_false] at h <;>
    rcases h with h | h | h | h | h | h | h | h | h | h | h | h | h | h | h | h | h | h | h | h | h <;> subst h <;>
    first | exact trivial | rfl | (intro _; rfl) | (intro _ _; rfl) | (show Store.WF _; decide +kernel) | (show _ ∧ _ < capLimit; decide +kernel)

-- the history runs, ends as a `PriorityQueue` satisfying the invariant, and `peek` shows a maximum of what is stored
example : hist_okR (run (Q.new .pq) exOps) (fun r => r.1.kind = .pq ∧ MaxQ.Inv r.1.s ∧ r.1.s.size = 3 ∧
    r.2.length = 21 ∧ MaxQ.peek r.1.s = some (⟨7, 0⟩, 4) ∧
    r.1.s.map = #[(⟨4, 0⟩, 0), (⟨2, 1⟩, 1), (⟨7, 0⟩, 4)]) := by decide +kernel
-- `pop` returns what `peek` showed; then the queue shows the next maximum; an emptied queue yields `None`
example : hist_okR (run (Q.new .pq) (exOps ++ [.popFront, .popFront, .popFront, .popFront])) (fun r =>
    r.1.s.size = 0 ∧ MaxQ.peek r.1.s = none ∧
    (r.2.drop 21).map hist_outEntry =
      [some (some (⟨7, 0⟩, 4)), some (some (⟨2, 1⟩, 1)), some (some (⟨4, 0⟩, 0)), some none]) := by decide +kernel
-- ties: three entries of priority 7; `peek`/`pop` address the same one
example : hist_okR (run (Q.new .pq) [.fromVec #[(⟨1, 0⟩, 7), (⟨2, 0⟩, 7), (⟨3, 0⟩, 7), (⟨4, 0⟩, 1)]]) (fun r =>
    MaxQ.Inv r.1.s ∧ hist_okR (MaxQ.pop r.1.s) (fun r' => r'.2 = MaxQ.peek r.1.s ∧ MaxQ.Inv r'.1)) := by decide +kernel

end Examples

end PQ

#print axioms PQ.C01_reach
#print axioms PQ.C01_reach_new
#print axioms PQ.C01_peek_max
#print axioms PQ.C01_peek_ge
#print axioms PQ.C01_peek_none_iff
#print axioms PQ.C01_peek_history
#print axioms PQ.C01_pop_eq_peek
#print axioms PQ.C01_popIf_sees_peek
#print axioms PQ.C01_peekMut_eq_peek
#print axioms PQ.C01_next_after_history
