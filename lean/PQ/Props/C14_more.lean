import PQ.Lemmas.EqvBy
import PQ.Lemmas.PrOrder
import PQ.Props.C14
/-!
# C14 — supplement: equality for a priority type whose `==` is coarser than identity; what the driver's `eq` computes

`Props/C14.lean` is about `IMap.eqv`, which compares priorities with Lean's `=`.  Rust's `PartialEq for Store` compares the
maps with IndexMap's order-insensitive `==`, which uses the PRIORITY TYPE's `PartialEq` — and for a priority whose `Ord` is
only a total preorder (ties between distinguishable values, which is what the other theorems quantify over) `==` is coarser
than identity.  `IMap.eqvBy peq` is the same comparison with the priority's `==` as a parameter.
-/
namespace PQ
variable {P : Type}

/-- **equality depends only on the (item, priority) set, for ANY priority `==`**: two duplicate-free maps are `==` iff they
have the same number of entries and every key is bound on both sides or on neither, to `==`-equal priorities — no reference
to slot order, heap arrangement, history, capacity or hasher; with `peq := (· = ·)` this is `C14_eqv_iff`. -/
theorem C14_eqvBy_iff : type_of% @eqvBy_iff := @eqvBy_iff

/-- `eqvBy` at Lean's equality is the `eqv` of `Props/C14.lean` -/
theorem C14_eqvBy_at_eq [DecidableEq P] : IMap.eqvBy (fun x y : P => decide (x = y)) = IMap.eqv := eqvBy_decide_eq

/-- **reflexive, symmetric and transitive on well-formed queues whenever the priority's `==` is** (Rust: `P: Eq`) -/
theorem C14_eqvBy_equivalence : type_of% @eqvBy_store_equivalence := @eqvBy_store_equivalence

/-- **what the driver's `eq` computes is Rust's `==` for the harness's priority type**: the driver compares the
rank-normalised stores with `Store.eqv`; that equals `Store.eqvBy` at "equal rank", the `PartialEq` of the harness's `Pri`
(`harness/src/types.rs`: `rank(self.0) == rank(o.0)`). -/
theorem C14_driver_eq_is_rank_equality (s t : Store Driver.Pr) :
    Store.eqvBy (fun x y : Driver.Pr => decide (x.rank = y.rank)) s t =
      Store.eqv { s with map := s.map.map fun e => (e.1, e.2.norm) } { t with map := t.map.map fun e => (e.1, e.2.norm) } :=
  eqvBy_store_norm (norm := Driver.Pr.norm) (fun x y => by
    simp only [Driver.Pr.norm]
    by_cases h : x.rank = y.rank
    · simp [h]
    · have : (⟨x.rank⟩ : Driver.Pr) ≠ ⟨y.rank⟩ := fun hc => h (by injection hc)
      simp [h, this]) s t

-- two queues whose priorities differ only in their tags: equal for Rust's `==`, different for Lean's `=`
example :
    let a : Store Driver.Pr := Store.fromVec #[(⟨1, 0⟩, ⟨Driver.tagBase + 8 * 5 + 1⟩), (⟨2, 0⟩, ⟨Driver.tagBase + 8 * 6⟩)]
    let b : Store Driver.Pr := Store.fromVec #[(⟨2, 7⟩, ⟨Driver.tagBase + 8 * 6 + 3⟩), (⟨1, 1⟩, ⟨Driver.tagBase + 8 * 5⟩)]
    Store.eqvBy (fun x y : Driver.Pr => decide (x.rank = y.rank)) a b = true ∧ Store.eqv a b = false := by
  decide +kernel

end PQ

#print axioms PQ.C14_eqvBy_iff
#print axioms PQ.C14_eqvBy_at_eq
#print axioms PQ.C14_eqvBy_equivalence
#print axioms PQ.C14_driver_eq_is_rank_equality
