import PQ.Lemmas.ContentsMore
import PQ.Props.C03
/-!
# C03 — supplement: `iter_mut` exactly, and the contents after any history as an explicit fold

`C03_history` refines the relation `specStep`, whose `iter_mut` clause (`specIterMut`) is deliberately loose: "key set
unchanged, at most as many entries change as slots were yielded".  C03 says more: the queue holds "exactly one priority
per distinct item, namely the LAST ONE ASSIGNED to it".  This file closes the gap.

* `C03_iterMut_exact` — one `iter_mut` step (guard dropped or leaked), from well-formedness alone: every slot `j`
  holds afterwards its old entry rewritten by exactly the writes of the calls that yielded `j`, in call order
  (`cont_writesAt j outs prog`); hence the entry of every stored key `k` (in slot `j`) is `cont_writesAt j outs prog e`;
  the kind, `len`, the key set and even the slot of every key are unchanged.
* `C03_Seen`, `C03_seen` — what the CLIENT observes of one operation: the returned value (`Out`), `len()` before the call,
  for `iter_mut` the KEY behind every yielded reference (the model's `Out.outs` lists slot numbers; the client is handed
  `(&mut I, &mut P)` and sees the item), for the `pop_*_if` family the entry its predicate was shown.
  The task of making the update a function of the model's `Out` alone is not solvable, for three reasons, each of which
  `C03_Seen` repairs with something the real client does observe: (1) `Out.outs` lists SLOT numbers and the abstract map
  does not know which key sits in which slot (swap-removes relabel slots); (2) a REFUSING `pop_*_if` returns `None` like an
  empty queue does, yet may have rewritten the entry it was shown (and with ties not even the heap order determines which
  entry that is); (3) `append` keeps the entry of the LONGER queue on a clash, and a function `key ↦ entry` has no
  computable cardinality.
* `C03_absStep a op seen` — the abstract update of the map `a : key ↦ (item, priority)`, one clause per operation, a
  FUNCTION of the operation and of what the client observed (no choice is left open: the pop family removes the key of
  the entry it returned, a refusing `pop_*_if` stores what its predicate wrote for the entry it was shown, `iter_mut`
  applies to every key the writes that went through the references yielded for it, `append` resolves a clash by the
  two lengths).
* `C03_step_exact` — every legal operation on a well-formed queue of either kind: the contents afterwards are
  `C03_absStep` of the contents before.  `C03_trace`, `C03_run_exact`, **`C03_history_exact`** — for every legal history
  from `new()` (leaked guards included) the final contents are the left fold of `C03_absStep` over the trace, starting
  from the empty map.  The whole alphabet is covered (bulk constructors included): nothing is partial.
-/
set_option linter.unusedSimpArgs false
set_option linter.unusedSectionVars false
set_option linter.unusedVariables false
namespace PQ
open Store

/-! ## Definitions -/
section Defs
variable {P : Type}

/-- the key of the entry behind the reference a call of `iter_mut` yielded on the map `m` (`none`: the call yielded no
reference — it returned `None`, a length, a size hint, or is not offered by the iterator type) -/
def C03_yieldedKey (m : IMap P) (o : IOut) : Option Nat :=
  (c12m_slotOf o).bind (fun j => (m[j]?).map (fun e => e.1.key))

/-- all the writes of the program that went through a reference to the entry of key `k` (the writes attached to the
calls that yielded it), applied in call order; `ys` are the keys the calls yielded -/
def C03_writesTo (k : Nat) : List (Option Nat) → List (ICall × IMWrite P) → Item × P → Item × P
  | y :: ys, cw :: prog, e => C03_writesTo k ys prog (if y = some k then cw.2.cont_apply e else e)
  | [], _, e => e
  | _ :: _, [], e => e

/-- the LAST priority the program assigned through a reference to the entry of key `k` (`none`: it assigned none) -/
def C03_lastPrioTo (k : Nat) : List (Option Nat) → List (ICall × IMWrite P) → Option P
  | y :: ys, cw :: prog => (C03_lastPrioTo k ys prog).or (if y = some k then cw.2.prio else none)
  | [], _ => none
  | _ :: _, [] => none

/-- what the client observes of one operation -/
structure C03_Seen (P : Type) where
  /-- the returned value -/
  out : Out P
  /-- `len()` before the call -/
  len : Nat
  /-- `iter_mut`: the key of the item behind the reference each call yielded (`[]` for every other operation) -/
  yielded : List (Option Nat)
  /-- `pop_if` / `pop_min_if` / `pop_max_if`: the entry the predicate was shown (`none`: it was not called) -/
  shown : Option (Item × P)

/-- the pop family: the key of the returned entry is removed (`None`, or no such method on this kind: nothing changes) -/
def C03_popUpd (a : AbsQ P) : Out P → AbsQ P
  | .entry (some e) => absRemove a e.1.key
  | _ => a

/-- `peek_mut` / `peek_min_mut` / `peek_max_mut` followed by a write to the item: the item of the returned entry is rewritten -/
def C03_peekMutUpd (w : Item → Item) (a : AbsQ P) : Out P → AbsQ P
  | .entry (some e) => absSet a e.1.key (w e.1, e.2)
  | _ => a

/-- **the abstract update**: the contents `key ↦ (item, priority)` after `op`, given the contents before and what the
client observed.  A present item keeps its stored value under `push` / `extend` (`absPush`). -/
def C03_absStep [LT P] [DecidableLT P] (a : AbsQ P) (op : Op P) (sn : C03_Seen P) : AbsQ P :=
  match op with
  | .push it p => absPush a it p
  | .pushIncrease it p =>
    (match a it.key with
     | none => absPush a it p
     | some e => if e.2 < p then absPush a it p else a)
  | .pushDecrease it p =>
    (match a it.key with
     | none => absPush a it p
     | some e => if p < e.2 then absPush a it p else a)
  | .changePriority k p => (match a k with | none => a | some e => absSet a k (e.1, p))
  | .changePriorityBy k g => (match a k with | none => a | some e => absSet a k (e.1, g e.2))
  | .remove k => absRemove a k
  | .getMut k w => (match a k with | none => a | some e => absSet a k (w e.1, e.2))
  | .popFront | .popBack => C03_popUpd a sn.out
  | .popFrontIf f | .popBackIf f =>
    (match sn.shown with
     | none => a
     | some e => if (f e.1 e.2).1 = true then absRemove a e.1.key
                 else absSet a e.1.key ((f e.1 e.2).2.1, (f e.1 e.2).2.2))
  | .peekFrontMut w | .peekBackMut w => C03_peekMutUpd w a sn.out
  | .retainMut f => fun k => (a k).bind (IMap.retainStep f)
  | .iterMut _ prog => fun k => (a k).map (C03_writesTo k sn.yielded prog)
  | .extend _ xs => xs.foldl (fun a e => absPush a e.1 e.2) a
  | .append oth => fun k => if oth.size > sn.len then (oth.abs k).or (a k) else (a k).or (oth.abs k)
  | .fromVec xs => fun k => xs.toList.find? (fun e => e.1.key == k)
  | .fromIter _ xs => fun k => xs.toList.reverse.find? (fun e => e.1.key == k)
  | .deserialize _ xs => xs.foldl (fun a e => absPush a e.1 e.2) (fun _ => none)
  | .convert | .capacityOp => a
  | .clear | .drain => fun _ => none

variable [LT P] [DecidableLT P]

/-- the entry a `pop_*_if` shows its predicate: what the corresponding peek reports -/
def C03_shown (q : Q P) : Op P → Option (Item × P)
  | .popFrontIf _ =>
    (match q.kind with
     | .pq => MaxQ.peek q.s
     | .dpq => (match DQ.peekMin q.s with | .ok r => r | .error _ => none))
  | .popBackIf _ =>
    (match q.kind with
     | .pq => none
     | .dpq => (match DQ.peekMax q.s with | .ok r => r.2 | .error _ => none))
  | _ => none

/-- what the client observes when `op`, executed on `q`, returns `o` (computed from the state before the call) -/
def C03_seen (q : Q P) (op : Op P) (o : Out P) : C03_Seen P where
  out := o
  len := q.s.len
  yielded := (match o with | .outs l => l.map (C03_yieldedKey q.s.map) | _ => [])
  shown := C03_shown q op

/-- the trace of a history: each operation with what the client observed of it (stops where the run stops) -/
def C03_trace (q : Q P) : List (Op P) → List (Op P × C03_Seen P)
  | [] => []
  | op :: ops =>
    (match step q op with
     | .ok r => (op, C03_seen q op r.2) :: C03_trace r.1 ops
     | .error _ => [])

/-- the contents a trace leads to, from the contents `a` -/
def C03_absRun (a : AbsQ P) (tr : List (Op P × C03_Seen P)) : AbsQ P :=
  tr.foldl (fun a t => C03_absStep a t.1 t.2) a

end Defs

/-! ## `iter_mut`: slots and keys -/
section SlotsKeys
variable {P : Type}

/-- on a map without duplicate keys, "the call yielded slot `j`" and "the call yielded (a reference to the entry of) key
`k`" are the same thing when slot `j` holds key `k` -/
theorem C03_yieldedKey_iff {m : IMap P} (hm : IMap.NoDupKeys m) {j k : Nat} {e0 : Item × P} (hj : m[j]? = some e0)
    (hk : e0.1.key = k) (o : IOut) : C03_yieldedKey m o = some k ↔ o = IOut.slot (some j) := by
  constructor
  · intro h
    unfold C03_yieldedKey at h
    cases hs : c12m_slotOf o with
    | none => rw [hs] at h; cases h
    | some j' =>
      rw [hs] at h
      simp only [Option.bind_some] at h
      cases hj' : m[j']? with
      | none => rw [hj'] at h; cases h
      | some e' =>
        rw [hj'] at h
        simp only [Option.map_some, Option.some.injEq] at h
        have : j' = j := hm j' j e' e0 hj' hj (by rw [h, hk])
        subst this
        exact c12m_slotOf_eq_some.1 hs
  · intro h
    subst h
    simp [C03_yieldedKey, c12m_slotOf, hj, hk]

/-- the writes through slot `j` are the writes to the key slot `j` holds -/
theorem C03_writesAt_eq_writesTo {m : IMap P} (hm : IMap.NoDupKeys m) {j k : Nat} {e0 : Item × P} (hj : m[j]? = some e0)
    (hk : e0.1.key = k) (outs : List IOut) : ∀ (prog : List (ICall × IMWrite P)) (e : Item × P),
    cont_writesAt j outs prog e = C03_writesTo k (outs.map (C03_yieldedKey m)) prog e := by
  induction outs with
  | nil => intro prog e; rfl
  | cons o outs ih =>
    intro prog e
    cases prog with
    | nil => rfl
    | cons cw prog =>
      simp only [cont_writesAt, List.map_cons, C03_writesTo]
      rw [ih]
      by_cases ho : o = IOut.slot (some j)
      · rw [if_pos ho, if_pos ((C03_yieldedKey_iff hm hj hk o).2 ho)]
      · rw [if_neg ho, if_neg (fun h => ho ((C03_yieldedKey_iff hm hj hk o).1 h))]

theorem C03_writesTo_key (k : Nat) (ys : List (Option Nat)) : ∀ (prog : List (ICall × IMWrite P)) (e : Item × P),
    (C03_writesTo k ys prog e).1.key = e.1.key := by
  induction ys with
  | nil => intro prog e; rfl
  | cons y ys ih =>
    intro prog e
    cases prog with
    | nil => rfl
    | cons cw prog =>
      simp only [C03_writesTo]
      rw [ih]
      split
      · exact cont_apply_key _ _
      · rfl

/-- the priority after the writes is the last one assigned, or the old one if none was assigned -/
theorem C03_writesTo_prio (k : Nat) (ys : List (Option Nat)) : ∀ (prog : List (ICall × IMWrite P)) (e : Item × P),
    (C03_writesTo k ys prog e).2 = (C03_lastPrioTo k ys prog).getD e.2 := by
  induction ys with
  | nil => intro prog e; rfl
  | cons y ys ih =>
    intro prog e
    cases prog with
    | nil => rfl
    | cons cw prog =>
      simp only [C03_writesTo, C03_lastPrioTo]
      rw [ih]
      cases C03_lastPrioTo k ys prog with
      | some p => rfl
      | none =>
        simp only [Option.none_or, Option.getD_none]
        split
        · unfold IMWrite.cont_apply
          cases cw.2.prio <;> rfl
        · rfl

/-- a key no call yielded is left alone -/
theorem C03_writesTo_not_yielded (k : Nat) (ys : List (Option Nat)) (hk : some k ∉ ys) :
    ∀ (prog : List (ICall × IMWrite P)) (e : Item × P), C03_writesTo k ys prog e = e := by
  induction ys with
  | nil => intro prog e; rfl
  | cons y ys ih =>
    intro prog e
    cases prog with
    | nil => rfl
    | cons cw prog =>
      simp only [C03_writesTo]
      have h1 : y ≠ some k := fun h => hk (by rw [h]; exact List.mem_cons_self)
      rw [if_neg h1]
      exact ih (fun h => hk (List.mem_cons_of_mem _ h)) prog e

end SlotsKeys

variable {P : Type} [LT P] [DecidableLT P] [LE P] [Std.IsLinearPreorder P] [Std.LawfulOrderLT P]

/-! ## One `iter_mut` step, exactly -/

/-- **`iter_mut`, exactly** (guard dropped or leaked, any program of calls and writes, either kind), from
well-formedness alone: the outputs are the iterator machine's (`c12m_iterOuts`), one per call; the kind and `len` are
unchanged and the queue stays well-formed; every slot `j` holds its old entry rewritten by the writes of exactly those
calls that yielded `j`, in call order; every key stays in its slot; hence the key set is unchanged and the entry of a key
`k` stored in slot `j` with entry `e` is `cont_writesAt j outs prog e` — the composition of the writes made through the
references to it (so its priority is the LAST one written through them, or the old one if none was) -/
theorem C03_iterMut_exact {q q' : Q P} {leak : Bool} {prog : List (ICall × IMWrite P)} {o : Out P} (hq : q.s.WF)
    (hs : step q (.iterMut leak prog) = .ok (q', o)) :
    ∃ outs, o = .outs outs ∧ outs = c12m_iterOuts q prog ∧ outs.length = prog.length ∧
      q'.kind = q.kind ∧ q'.s.WF ∧ q'.s.len = q.s.len ∧
      (∀ j, q'.s.map[j]? = (q.s.map[j]?).map (cont_writesAt j outs prog)) ∧
      (∀ k, IMap.find? q'.s.map k = IMap.find? q.s.map k) ∧
      (∀ k, (q'.s.abs k).isSome = (q.s.abs k).isSome) ∧
      (∀ k j e, IMap.find? q.s.map k = some j → q.s.abs k = some e →
        q'.s.abs k = some (cont_writesAt j outs prog e)) := by
  have ho := c12m_step_iterMut_outs hs
  obtain ⟨kind, s⟩ := q
  obtain ⟨s', outs, e1, hwf', hlen, _, hsz, hfacts⟩ := cont_step_iterMut (kind := kind) hq leak prog
  rw [e1] at hs
  cases hs
  have hex := cont_step_iterMut_exact hq e1
  have hkeys : ∀ i : Nat, (s'.map[i]?).map (fun e : Item × P => e.1.key) = (s.map[i]?).map (fun e : Item × P => e.1.key) :=
    fun i => (hfacts i).1
  have hfind : ∀ k, IMap.find? s'.map k = IMap.find? s.map k := fun k => IMap.find?_congr_keys hkeys k
  refine ⟨outs, rfl, Out.outs.inj ho, hlen, rfl, hwf', hsz, hex, hfind, fun k => ?_, fun k j e hj he => ?_⟩
  · have := (cont_iterMut_abs hq hfacts).1 k
    show (s'.abs k).isSome = (s.abs k).isSome
    cases h1 : s'.abs k <;> cases h2 : s.abs k <;> rw [h1, h2] at this <;> simp_all
  · have := cont_step_iterMut_abs hq e1 hj
    rw [this]
    show (s.abs k).map _ = _
    rw [he]; rfl

/-- the abstract form: the entry of EVERY key afterwards, through the keys the calls yielded -/
theorem C03_iterMut_abs {q q' : Q P} {leak : Bool} {prog : List (ICall × IMWrite P)} {outs : List IOut} (hq : q.s.WF)
    (hs : step q (.iterMut leak prog) = .ok (q', .outs outs)) (k : Nat) :
    q'.s.abs k = (q.s.abs k).map (C03_writesTo k (outs.map (C03_yieldedKey q.s.map)) prog) := by
  obtain ⟨outs', ho, _, _, _, _, _, _, _, hsome, hval⟩ := C03_iterMut_exact hq hs
  cases ho
  cases ha : q.s.abs k with
  | none =>
    have := hsome k
    rw [ha] at this
    cases h1 : q'.s.abs k with
    | none => rfl
    | some e => rw [h1] at this; cases this
  | some e =>
    have ha' : IMap.lookup q.s.map k = some e := ha
    obtain ⟨j, hj, hje⟩ := IMap.lookup_eq_some_iff_find?.1 ha'
    rw [hval k j e hj ha, C03_writesAt_eq_writesTo hq.nodup hje (IMap.lookup_key ha')]
    rfl

/-- **"namely the last one assigned"**, for `iter_mut`: afterwards the priority of every stored key is the LAST priority
the program assigned through a reference yielded for it, and its old priority if the program assigned none -/
theorem C03_iterMut_last_assigned {q q' : Q P} {leak : Bool} {prog : List (ICall × IMWrite P)} {outs : List IOut}
    (hq : q.s.WF) (hs : step q (.iterMut leak prog) = .ok (q', .outs outs)) (k : Nat) :
    (q'.s.abs k).map (·.2) = (q.s.abs k).map (fun e =>
      (C03_lastPrioTo k (outs.map (C03_yieldedKey q.s.map)) prog).getD e.2) := by
  rw [C03_iterMut_abs hq hs k]
  cases q.s.abs k with
  | none => rfl
  | some e => simp [C03_writesTo_prio]

/-! ## One step of every operation, exactly -/

theorem C03_absStep_fold_eq (xs : Array (Item × P)) (a : AbsQ P) :
    xs.foldl Store.absStep a = xs.foldl (fun a e => absPush a e.1 e.2) a := by
  congr
  funext a e
  exact cont_absStep_eq_absPush a e

/-- `pop_if` on a `PriorityQueue` -/
theorem C03_step_popIf_pq {s : Store P} {q' : Q P} {o : Out P} (h : s.WF) (f : Item → P → Bool × Item × P)
    (hf : ∀ it p, (f it p).2.1.key = it.key) (hs : step ⟨.pq, s⟩ (.popFrontIf f) = .ok (q', o)) :
    q'.s.abs = C03_absStep s.abs (.popFrontIf f) (C03_seen ⟨.pq, s⟩ (.popFrontIf f) o) := by
  show q'.s.abs = (match MaxQ.peek s with
    | none => s.abs
    | some e => if (f e.1 e.2).1 = true then absRemove s.abs e.1.key
                else absSet s.abs e.1.key ((f e.1 e.2).2.1, (f e.1 e.2).2.2))
  obtain ⟨h0, h1⟩ := MaxQ.popIf_safe h f hf
  rcases Nat.eq_zero_or_pos s.size with hz | hpos
  · have e1 := h0 hz
    simp [step, e1, bind, Except.bind, pure, Except.pure] at hs
    rw [(MaxQ.peek_safe h).1 hz, ← hs.1]
  · obtain ⟨e, hpk, ht, hfl⟩ := h1 hpos
    rw [hpk]
    show _ = (if (f e.1 e.2).1 = true then absRemove s.abs e.1.key
      else absSet s.abs e.1.key ((f e.1 e.2).2.1, (f e.1 e.2).2.2))
    cases hr : (f e.1 e.2).1 with
    | true =>
      obtain ⟨s', e1, _, e3, _⟩ := ht hr
      simp [step, e1, bind, Except.bind, pure, Except.pure] at hs
      rw [← hs.1, if_pos rfl]; exact e3
    | false =>
      obtain ⟨s', e1, _, e3, _⟩ := hfl hr
      simp [step, e1, bind, Except.bind, pure, Except.pure] at hs
      rw [← hs.1, if_neg Bool.false_ne_true]; exact e3

/-- `pop_min_if` on a `DoublePriorityQueue` -/
theorem C03_step_popMinIf {s : Store P} {q' : Q P} {o : Out P} (h : s.WF) (f : Item → P → Bool × Item × P)
    (hf : ∀ it p, (f it p).2.1.key = it.key) (hs : step ⟨.dpq, s⟩ (.popFrontIf f) = .ok (q', o)) :
    q'.s.abs = C03_absStep s.abs (.popFrontIf f) (C03_seen ⟨.dpq, s⟩ (.popFrontIf f) o) := by
  show q'.s.abs = (match (match DQ.peekMin s with | .ok r => r | .error _ => none) with
    | none => s.abs
    | some e => if (f e.1 e.2).1 = true then absRemove s.abs e.1.key
                else absSet s.abs e.1.key ((f e.1 e.2).2.1, (f e.1 e.2).2.2))
  obtain ⟨s', r, e1, _, h0, h1⟩ := DQ.popMinIf_safe h f hf
  simp [step, e1, bind, Except.bind, pure, Except.pure] at hs
  rw [← hs.1]
  show s'.abs = _
  rcases Nat.eq_zero_or_pos s.size with hz | hpos
  · obtain ⟨r0, hp, hr0, _⟩ := DQ.peekMin_safe h
    rw [hp, hr0 hz, (h0 hz).1]
  · obtain ⟨e, hpk, _, ht, hfl⟩ := h1 hpos
    rw [hpk]
    show _ = (if (f e.1 e.2).1 = true then absRemove s.abs e.1.key
      else absSet s.abs e.1.key ((f e.1 e.2).2.1, (f e.1 e.2).2.2))
    cases hr : (f e.1 e.2).1 with
    | true => rw [if_pos rfl]; exact (ht hr).2.1
    | false => rw [if_neg Bool.false_ne_true]; exact (hfl hr).2.1

/-- `pop_max_if` on a `DoublePriorityQueue` -/
theorem C03_step_popMaxIf {s : Store P} {q' : Q P} {o : Out P} (h : s.WF) (f : Item → P → Bool × Item × P)
    (hf : ∀ it p, (f it p).2.1.key = it.key) (hs : step ⟨.dpq, s⟩ (.popBackIf f) = .ok (q', o)) :
    q'.s.abs = C03_absStep s.abs (.popBackIf f) (C03_seen ⟨.dpq, s⟩ (.popBackIf f) o) := by
  show q'.s.abs = (match (match DQ.peekMax s with | .ok r => r.2 | .error _ => none) with
    | none => s.abs
    | some e => if (f e.1 e.2).1 = true then absRemove s.abs e.1.key
                else absSet s.abs e.1.key ((f e.1 e.2).2.1, (f e.1 e.2).2.2))
  obtain ⟨s', r, e1, _, h0, h1⟩ := DQ.popMaxIf_safe h f hf
  simp [step, e1, bind, Except.bind, pure, Except.pure] at hs
  rw [← hs.1]
  show s'.abs = _
  rcases Nat.eq_zero_or_pos s.size with hz | hpos
  · obtain ⟨k0, r0, hp, _, hr0, _⟩ := DQ.peekMax_safe h
    rw [hp, hr0 hz, (h0 hz).1]
  · obtain ⟨k0, e, hpk, _, ht, hfl⟩ := h1 hpos
    rw [hpk]
    show _ = (if (f e.1 e.2).1 = true then absRemove s.abs e.1.key
      else absSet s.abs e.1.key ((f e.1 e.2).2.1, (f e.1 e.2).2.2))
    cases hr : (f e.1 e.2).1 with
    | true => rw [if_pos rfl]; exact (ht hr).2.1
    | false => rw [if_neg Bool.false_ne_true]; exact (hfl hr).2.1

theorem C03_specPop_exact {a a' : AbsQ P} {o : Out P} (h : specPop a o a') :
    a' = C03_popUpd a o := by
  rcases h with ⟨_, rfl, h2⟩ | ⟨e, _, rfl, h2⟩
  · exact h2
  · exact h2

theorem C03_specPeekMut_exact {w : Item → Item} {a a' : AbsQ P} {o : Out P} (h : specPeekMut w a o a') :
    a' = C03_peekMutUpd w a o := by
  rcases h with ⟨_, rfl, h2⟩ | ⟨e, _, rfl, h2⟩
  · exact h2
  · exact h2

/-- **C03, one operation, exactly**: after every legal operation on a well-formed queue of either kind the contents
are `C03_absStep` of the contents before — a function of the operation and of what the client observed -/
theorem C03_step_exact {q q' : Q P} {op : Op P} {o : Out P} (hq : q.s.WF) (hl : op.Legal)
    (hs : step q op = .ok (q', o)) : q'.s.abs = C03_absStep q.s.abs op (C03_seen q op o) := by
  have hspec := (cont_step_refines hq hl hs).2.2
  obtain ⟨kind, s⟩ := q
  cases op with
  | push it p => exact hspec.2
  | pushIncrease it p =>
    obtain ⟨h0, h1, h2⟩ := hspec
    show q'.s.abs = (match s.abs it.key with
      | none => absPush s.abs it p
      | some e => if e.2 < p then absPush s.abs it p else s.abs)
    cases ha : s.abs it.key with
    | none => exact (h0 ha).2
    | some e =>
      by_cases hlt : e.2 < p
      · simp only [if_pos hlt]; exact (h1 e ha hlt).2
      · simp only [if_neg hlt]; exact (h2 e ha hlt).2
  | pushDecrease it p =>
    obtain ⟨h0, h1, h2⟩ := hspec
    show q'.s.abs = (match s.abs it.key with
      | none => absPush s.abs it p
      | some e => if p < e.2 then absPush s.abs it p else s.abs)
    cases ha : s.abs it.key with
    | none => exact (h0 ha).2
    | some e =>
      by_cases hlt : p < e.2
      · simp only [if_pos hlt]; exact (h1 e ha hlt).2
      · simp only [if_neg hlt]; exact (h2 e ha hlt).2
  | changePriority k p => exact hspec.2
  | changePriorityBy k g => exact hspec.2
  | remove k =>
    show q'.s.abs = absRemove s.abs k
    rw [hspec.2]
    cases ha : s.abs k with
    | none => exact (cont_absRemove_absent ha).symm
    | some e => rfl
  | getMut k w => exact hspec.2
  | popFront => exact C03_specPop_exact hspec
  | popBack =>
    cases kind with
    | pq => obtain ⟨rfl, h2⟩ := hspec; exact h2
    | dpq => exact C03_specPop_exact hspec
  | popFrontIf f =>
    cases kind with
    | pq => exact C03_step_popIf_pq hq f hl hs
    | dpq => exact C03_step_popMinIf hq f hl hs
  | popBackIf f =>
    cases kind with
    | pq => obtain ⟨_, h2⟩ := hspec; exact h2
    | dpq => exact C03_step_popMaxIf hq f hl hs
  | peekFrontMut w => exact C03_specPeekMut_exact hspec
  | peekBackMut w =>
    cases kind with
    | pq => obtain ⟨rfl, h2⟩ := hspec; exact h2
    | dpq => exact C03_specPeekMut_exact hspec
  | retainMut f => exact hspec.2
  | iterMut leak prog =>
    obtain ⟨outs, rfl, _⟩ := hspec
    funext k
    exact C03_iterMut_abs hq hs k
  | extend lo xs =>
    show q'.s.abs = xs.foldl (fun a e => absPush a e.1 e.2) s.abs
    rw [hspec.2, C03_absStep_fold_eq]
  | append oth =>
    funext k
    exact hspec.2 s.size (cont_absCard_of_WF hq) k
  | fromVec xs => funext k; exact hspec.2 k
  | fromIter lo xs => funext k; exact hspec.2 k
  | deserialize hint xs =>
    show q'.s.abs = xs.foldl (fun a e => absPush a e.1 e.2) (fun _ => none)
    rw [hspec.2, C03_absStep_fold_eq]
  | convert => exact hspec.2
  | clear => exact hspec.2
  | drain => obtain ⟨es, _, h2, _⟩ := hspec; exact h2
  | capacityOp => exact hspec.2

/-- in the accepting case the key a `pop_*_if` removes IS the key of the entry it returned (the predicate cannot change
an item's identity) -/
theorem C03_popIf_returned {q q' : Q P} {f : Item → P → Bool × Item × P} {op : Op P} {e' : Item × P} (hq : q.s.WF)
    (hop : op = .popFrontIf f ∨ op = .popBackIf f) (hl : op.Legal) (hs : step q op = .ok (q', .entry (some e'))) :
    q'.s.abs = absRemove q.s.abs e'.1.key := by
  have hspec := (cont_step_refines hq hl hs).2.2
  have key : ∀ {a a' : AbsQ P}, (∀ it p, (f it p).2.1.key = it.key) → specPopIf f a (.entry (some e')) a' →
      a' = absRemove a e'.1.key := by
    intro a a' hf h
    rcases h with ⟨_, h1, _⟩ | ⟨e, _, ⟨_, h1, h2⟩ | ⟨_, h1, _⟩⟩
    · cases h1
    · cases h1; rw [h2, hf]
    · cases h1
  obtain ⟨kind, s⟩ := q
  rcases hop with rfl | rfl
  · exact key hl hspec
  · cases kind with
    | pq => rw [cont_step_popBackIf_pq] at hs; cases hs
    | dpq => exact key hl hspec

/-! ## Histories -/

theorem C03_trace_cons {q q1 : Q P} {op : Op P} {o : Out P} (ops : List (Op P)) (h : step q op = .ok (q1, o)) :
    C03_trace q (op :: ops) = (op, C03_seen q op o) :: C03_trace q1 ops := by
  simp only [C03_trace, h]

/-- **histories from any well-formed queue**: if the run of a legal history succeeds (it always does: `C03_history`),
the trace lists exactly the operations and the outputs of the run, and the final contents are the fold of the abstract
update over the trace -/
theorem C03_run_exact (ops : List (Op P)) : ∀ {q q' : Q P} {outs : List (Out P)}, q.s.WF → (∀ op ∈ ops, op.Legal) →
    run q ops = .ok (q', outs) →
    q'.s.abs = C03_absRun q.s.abs (C03_trace q ops) ∧
    (C03_trace q ops).map (·.1) = ops ∧ (C03_trace q ops).map (·.2.out) = outs := by
  induction ops with
  | nil =>
    intro q q' outs _ _ hr
    rw [cont_run_nil] at hr; cases hr
    exact ⟨rfl, rfl, rfl⟩
  | cons op ops ih =>
    intro q q' outs hq hl hr
    obtain ⟨q1, o, os, h1, h2, rfl⟩ := cont_run_cons_inv hr
    have hl1 := hl op List.mem_cons_self
    have hq1 := (cont_step_refines hq hl1 h1).1
    obtain ⟨a1, a2, a3⟩ := ih hq1 (fun op' hop => hl op' (List.mem_cons_of_mem _ hop)) h2
    rw [C03_trace_cons ops h1]
    refine ⟨?_, by simp [a2], by simp [a3, C03_seen]⟩
    rw [a1, C03_step_exact hq hl1 h1]
    rfl

/-- **C03, histories, exactly**: for every legal history from `new()` of either kind (leaked `iter_mut` guards
included, conversions between the kinds included) the run succeeds, and the final contents of the queue are the LEFT FOLD
OF THE ABSTRACT UPDATE `C03_absStep` over the trace of the history, starting from the empty map; the trace lists the
operations of the history, each with what the client observed of it (in particular the outputs of the run) -/
theorem C03_history_exact (kind : Kind) (ops : List (Op P)) (hl : ∀ op ∈ ops, op.Legal) :
    ∃ q' outs, run (Q.new kind) ops = .ok (q', outs) ∧ q'.s.WF ∧
      q'.s.abs = (C03_trace (Q.new kind) ops).foldl (fun a t => C03_absStep a t.1 t.2) (fun _ => none) ∧
      (C03_trace (Q.new kind) ops).map (·.1) = ops ∧ (C03_trace (Q.new kind : Q P) ops).map (·.2.out) = outs := by
  obtain ⟨q', outs, hr, hwf, _⟩ := C03_history (q := (Q.new kind : Q P)) wf_empty ops hl
  obtain ⟨a1, a2, a3⟩ := C03_run_exact ops (q := (Q.new kind : Q P)) wf_empty hl hr
  exact ⟨q', outs, hr, hwf, a1, a2, a3⟩

/-- … and from any well-formed queue (e.g. one left behind by a caught panic) -/
theorem C03_history_exact_from {q : Q P} (hq : q.s.WF) (ops : List (Op P)) (hl : ∀ op ∈ ops, op.Legal) :
    ∃ q' outs, run q ops = .ok (q', outs) ∧ q'.s.WF ∧
      q'.s.abs = (C03_trace q ops).foldl (fun a t => C03_absStep a t.1 t.2) q.s.abs ∧
      (C03_trace q ops).map (·.1) = ops ∧ (C03_trace q ops).map (·.2.out) = outs := by
  obtain ⟨q', outs, hr, hwf, _⟩ := C03_history hq ops hl
  obtain ⟨a1, a2, a3⟩ := C03_run_exact ops hq hl hr
  exact ⟨q', outs, hr, hwf, a1, a2, a3⟩

/-! ## Non-vacuity -/
section Examples

/-- walk from both ends; the third call finds slot 1; priorities and a payload are written -/
private def exProg : List (ICall × IMWrite Nat) :=
  [(.next, ⟨some 100, none⟩), (.nextBack, ⟨none, some 7⟩), (.len, ⟨some 0, some 0⟩), (.next, ⟨some 4, some 21⟩)]

-- `C03_iterMut_exact` / `C03_iterMut_abs`: a well-formed queue of each kind, a successful step; what was yielded, as keys
example : (⟨.dpq, cont_exD⟩ : Q Nat).s.WF ∧ (⟨.pq, cont_ex5⟩ : Q Nat).s.WF := by decide +kernel
example : cont_okR (step ⟨.dpq, cont_exD⟩ (.iterMut true exProg)) (fun r =>
    (C03_seen ⟨.dpq, cont_exD⟩ (.iterMut true exProg) r.2).yielded = [some 1, some 5, none, some 2] ∧
    r.1.s.abs 1 = some (⟨1, 10⟩, 100) ∧ r.1.s.abs 5 = some (⟨5, 7⟩, 3) ∧ r.1.s.abs 2 = some (⟨2, 21⟩, 4) ∧
    r.1.s.abs 3 = cont_exD.abs 3 ∧ r.1.s.len = 5) := by decide +kernel
example : cont_okR (step ⟨.pq, cont_ex5⟩ (.iterMut false exProg)) (fun r =>
    (C03_seen ⟨.pq, cont_ex5⟩ (.iterMut false exProg) r.2).yielded = [some 1, none, none, some 2] ∧
    r.1.s.abs 1 = some (⟨1, 10⟩, 100) ∧ r.1.s.abs 5 = cont_ex5.abs 5 ∧ r.1.s.abs 2 = some (⟨2, 21⟩, 4)) := by
  decide +kernel
-- the abstract update, evaluated on what was observed: key 2 got priority 4 and payload 21, key 3 was not yielded
example : (C03_absStep cont_exD.abs (.iterMut true exProg)
      ⟨.unit, 5, [some 1, some 5, none, some 2], none⟩ 2 = some (⟨2, 21⟩, 4)) ∧
    (C03_absStep cont_exD.abs (.iterMut true exProg) ⟨.unit, 5, [some 1, some 5, none, some 2], none⟩ 3 =
      cont_exD.abs 3) := by decide +kernel

-- `C03_iterMut_last_assigned`: the last priority assigned to key 2 is 4, none was assigned to key 5
example : C03_lastPrioTo 2 [some 1, some 5, none, some 2] exProg = some 4 ∧
    C03_lastPrioTo 5 [some 1, some 5, none, some 2] exProg = none := by decide

-- `C03_popIf_returned` / the `pop_*_if` clauses of `C03_step_exact`: an accepting and a refusing (rewriting) predicate
example : cont_okR (step ⟨.pq, cont_ex5⟩ (.popFrontIf (fun it p => (true, it, p)))) (fun r =>
    cont_outEntry r.2 = some (some (⟨2, 20⟩, 9)) ∧ r.1.s.abs 2 = none ∧
    (C03_seen ⟨.pq, cont_ex5⟩ (.popFrontIf (fun it p => (true, it, p))) r.2).shown = some (⟨2, 20⟩, 9)) := by
  decide +kernel
example : cont_okR (step ⟨.dpq, cont_exD⟩ (.popBackIf (fun it p => (false, ⟨it.key, 1⟩, p - 9)))) (fun r =>
    cont_outEntry r.2 = some none ∧ r.1.s.abs 2 = some (⟨2, 1⟩, 0) ∧
    (C03_seen ⟨.dpq, cont_exD⟩ (.popBackIf (fun it p => (false, ⟨it.key, 1⟩, p - 9))) r.2).shown = some (⟨2, 20⟩, 9)) := by
  decide +kernel

/-- a history over most of the alphabet, with a leaked guard, a refusing and an accepting conditional pop, a conversion -/
private def exOps : List (Op Nat) :=
  [.push ⟨1, 10⟩ 5, .push ⟨2, 20⟩ 9, .push ⟨3, 30⟩ 7, .push ⟨2, 0⟩ 1, .pushIncrease ⟨3, 0⟩ 8, .pushDecrease ⟨3, 0⟩ 9,
   .extend 0 #[(⟨4, 40⟩, 2), (⟨1, 0⟩, 6)], .iterMut true [(.next, ⟨some 0, none⟩), (.next, ⟨none, some 22⟩)],
   .popFrontIf (fun it p => (false, ⟨it.key, 77⟩, p + 1)), .popFrontIf (fun it p => (true, it, p)),
   .changePriorityBy 4 (· + 10), .convert, .popBack, .peekFrontMut (fun it => ⟨it.key, 5⟩),
   .append (Store.fromVec #[(⟨9, 0⟩, 1)]), .retainMut (fun it p => (it.key != 9, it, p)), .remove 7]

example : ∀ op ∈ exOps, op.Legal := by
  intro op hop
  simp only [exOps, List.mem_cons, List.not_mem_nil, or_false] at hop
  rcases hop with rfl | rfl | rfl | rfl | rfl | rfl | rfl | rfl | rfl | rfl | rfl | rfl | rfl | rfl | rfl | rfl | rfl <;>
    first | trivial | exact fun _ => rfl | exact fun _ _ => rfl | (show Store.WF _; decide +kernel) |
      (show _ ∧ _ < capLimit; decide +kernel)
-- `C03_history_exact`, evaluated: the fold of the abstract update over the trace IS the final contents (at the keys
-- that ever occurred), and the trace has one entry per operation
example : cont_okR (run (Q.new .pq) exOps) (fun r =>
    (C03_trace (Q.new .pq) exOps).length = 17 ∧
    ∀ k ∈ [1, 2, 3, 4, 7, 9],
      r.1.s.abs k = (C03_trace (Q.new .pq) exOps).foldl (fun a t => C03_absStep a t.1 t.2) (fun _ => none) k) := by
  decide +kernel
example : cont_okR (run (Q.new .pq) exOps) (fun r => r.1.kind = .dpq ∧ r.1.s.len = 2 ∧
    r.1.s.abs 1 = some (⟨1, 5⟩, 0) ∧ r.1.s.abs 2 = some (⟨2, 22⟩, 1) ∧ r.1.s.abs 3 = none) := by decide +kernel

end Examples

end PQ

#print axioms PQ.C03_iterMut_exact
#print axioms PQ.C03_iterMut_abs
#print axioms PQ.C03_iterMut_last_assigned
#print axioms PQ.C03_step_exact
#print axioms PQ.C03_popIf_returned
#print axioms PQ.C03_run_exact
#print axioms PQ.C03_history_exact
#print axioms PQ.C03_history_exact_from
