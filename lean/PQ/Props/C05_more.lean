import PQ.Lemmas.CrashTicks
import PQ.Props.C05
import PQ.Props.C10
/-!
# C05, continued — the comparison count of an INTERRUPTED call

The correspondence check also compares the number of `Ord::cmp` calls of a call that is *interrupted* by a panicking
comparison: when the `k`-th comparison of an operation panics, the real code has performed exactly `k` comparison calls (the
`k`-th being the one that panics) and none while unwinding; the check's judge holds that count to the bound C05 proves for the
*completed* call.  The justification — "an interrupted call has performed a prefix of the comparisons of the completed call" —
is proved here, for both queue kinds and EVERY operation of the alphabet `Op` (`PQ/Model/Ops.lean`).

Setting (see `PQ/Model/Crash.lean`, `PQ/Props/C10.lean`): `stepF fuse q op` is the fused twin of `step q op`; ordinals are
absolute values of the ghost counter `Store.ticks`; the comparison performed while the current store is `s` has ordinal
`s.ticks + 1`, the one whose ordinal equals `fuse` panics, it is NOT counted in the crash state.

* **(A)** `C05_crash_ticks_exact` — a crash state has counted exactly the comparisons before the panicking one:
  `q'.s.ticks + 1 = fuse`; moreover the fuse lay in the future of the counter the operation numbers its comparisons from,
  `tkBase q op ≤ q'.s.ticks` (so the hypothesis "`q.s.ticks < fuse`" is a *consequence* of the crash, it need not be assumed).
  Neither well-formedness nor legality is needed for (A).

  `tkBase q op` is `q.s.ticks` for every operation except: `append` — `Store::append` first exchanges receiver and argument
  when the argument is larger (`mem::swap`), the ghost counter travels with the store, so the comparisons of the rebuild are
  numbered from the counter of the store that BECOMES the receiver, `(q.s.append o).1.ticks` — and the constructors
  `fromVec / fromIter / deserialize`, which number from `0` (fresh store).  The exact form `q'.s.ticks + 1 = fuse` holds for
  them too (it is a statement about absolute ordinals); what changes is the *number* of comparisons the interrupted call has
  made: `fuse - tkBase q op`, not `fuse - q.s.ticks` (`C05_tkBase`).

* **(B)** `C05_crash_prefix` — if the fused run crashes (`.crashed q'` or `.crashedNew`), the plain run
  `step q op = .ok (q2, out)` (it exists: C04) satisfies `fuse ≤ q2.s.ticks`: the completed call performs the panicking
  comparison as well, and possibly more.  Hence
  `interrupted count = fuse - tkBase q op ≤ q2.s.ticks - tkBase q op = completed count` (`C05_interrupted_le_completed`), and
  every bound of `C05.lean` for the completed call bounds the interrupted call too (`C05_interrupted_bound`, spelled out for
  `push / pop / change_priority / remove / push_increase` of the max-heap and `push / pop_min / pop_max / change_priority /
  remove` of the min-max heap, and for the linear rebuilds `convert`, `fromVec`).

* `C05_crash_iff` — the converse as well: on a well-formed queue a legal operation crashes **iff** the fuse lies in
  `(tkBase q op, q2.s.ticks]`, i.e. iff it is the ordinal of one of the comparisons of the completed call.  So the `k`-th
  comparison of a call can be made to panic exactly for `1 ≤ k ≤ (count of the completed call)`.

* **(C)** non-vacuity: kernel-evaluated examples on 7-element queues of both kinds.
-/
namespace PQ
open PQ.Crash

section Any
variable {P : Type} [LT P] [DecidableLT P]

/-- **(A) the crash state has counted exactly the comparisons before the panicking one** — for every queue (well-formed or
not), every operation (legal or not) and every fuse; and the fuse lay in the future of `tkBase q op` (the counter the operation
numbers its comparisons from: `C05_tkBase`). -/
theorem C05_crash_ticks_exact {fuse : Nat} {q q' : Q P} {op : Op P} (h : stepF fuse q op = .error (.crashed q')) :
    q'.s.ticks + 1 = fuse ∧ tkBase q op ≤ q'.s.ticks :=
  tk_crash_exact h

omit [LT P] [DecidableLT P] in
/-- the counter from which the comparisons of an operation are numbered: the queue's own, except for `append` (the counter of
the store that becomes the receiver: the larger one; the queue's own when the argument is not larger) and the constructors (`0`) -/
theorem C05_tkBase (q : Q P) (op : Op P) :
    (∀ o, op = .append o → tkBase q op = (q.s.append o).1.ticks ∧ (tkBase q op = q.s.ticks ∨ tkBase q op = o.ticks) ∧
        (o.size ≤ q.s.size → tkBase q op = q.s.ticks)) ∧
    ((∃ xs, op = .fromVec xs) ∨ (∃ lo xs, op = .fromIter lo xs) ∨ (∃ h xs, op = .deserialize h xs) → tkBase q op = 0) ∧
    ((∀ o, op ≠ .append o) → (∀ xs, op ≠ .fromVec xs) → (∀ lo xs, op ≠ .fromIter lo xs) →
        (∀ h xs, op ≠ .deserialize h xs) → tkBase q op = q.s.ticks) := by
  refine ⟨fun o e => ?_, fun e => ?_, fun h1 h2 h3 h4 => ?_⟩
  · subst e
    have key : (q.s.append o).1.ticks = if o.size > q.s.size then o.ticks else q.s.ticks := by
      rw [Store.ticks_append_fst]
      unfold Store.appendOrder
      split <;> rfl
    refine ⟨rfl, ?_, fun hle => ?_⟩
    · show (q.s.append o).1.ticks = q.s.ticks ∨ (q.s.append o).1.ticks = o.ticks
      rw [key]; split
      · exact Or.inr rfl
      · exact Or.inl rfl
    · show (q.s.append o).1.ticks = q.s.ticks
      rw [key, if_neg (by omega)]
  · rcases e with ⟨xs, rfl⟩ | ⟨lo, xs, rfl⟩ | ⟨h, xs, rfl⟩ <;> rfl
  · cases op <;> first | rfl | exact absurd rfl (h1 _) | exact absurd rfl (h2 _) | exact absurd rfl (h3 _ _) | exact absurd rfl (h4 _ _)

/-- a constructor that crashes (`crashedNew`) did so at a fuse in the future of its counter (`0`) -/
theorem C05_crashNew_future {fuse : Nat} {q : Q P} {op : Op P} (h : stepF fuse q op = .error .crashedNew) :
    tkBase q op < fuse :=
  tk_crashNew_future h

/-- **(B), hypothesis-free form**: if the fused run crashes, the plain run — whenever it returns — ends with its counter at or
beyond the fuse: the completed call performs the panicking comparison as well. -/
theorem C05_crash_prefix_any {fuse : Nat} {q : Q P} {op : Op P}
    (h : (∃ q', stepF fuse q op = .error (.crashed q')) ∨ stepF fuse q op = .error .crashedNew)
    {q2 : Q P} {out : Out P} (hp : step q op = .ok (q2, out)) : fuse ≤ q2.s.ticks :=
  tk_crash_prefix h hp

/-- a fused run that returns normally although the fuse lay in the future has not reached the fuse -/
theorem C05_ok_beyond {fuse : Nat} {q q2 : Q P} {op : Op P} {out : Out P} (h : stepF fuse q op = .ok (q2, out))
    (hf : tkBase q op < fuse) : q2.s.ticks < fuse :=
  tk_ok_beyond h hf

end Any

section WF
variable {P : Type} [LT P] [DecidableLT P] [LE P] [Std.IsLinearPreorder P] [Std.LawfulOrderLT P]

/-- **(B) an interrupted call has performed a prefix of the comparisons of the completed call.**  On a well-formed queue, for a
legal operation: if the fused run crashes at `fuse`, the plain run exists (C04), is well-formed, and its final counter is at
least `fuse`; the fuse lay in the future (`tkBase q op < fuse`).  In particular a crash state `q'` satisfies
`tkBase q op ≤ q'.s.ticks < q2.s.ticks`. -/
theorem C05_crash_prefix {fuse : Nat} {q : Q P} {op : Op P} (hq : QWF q) (hl : op.Legal)
    (h : (∃ q', stepF fuse q op = .error (.crashed q')) ∨ stepF fuse q op = .error .crashedNew) :
    ∃ q2 out, step q op = .ok (q2, out) ∧ QWF q2 ∧ tkBase q op < fuse ∧ fuse ≤ q2.s.ticks ∧
      ∀ q', stepF fuse q op = .error (.crashed q') → q'.s.ticks + 1 = fuse ∧ q'.s.ticks < q2.s.ticks := by
  obtain ⟨q2, out, hp, hw⟩ := C04_step hq hl
  have hle : fuse ≤ q2.s.ticks := C05_crash_prefix_any h hp
  refine ⟨q2, out, hp, hw, ?_, hle, fun q' hc => ?_⟩
  · rcases h with ⟨q', hc⟩ | hc
    · have := C05_crash_ticks_exact hc; omega
    · exact C05_crashNew_future hc
  · have := C05_crash_ticks_exact hc; omega

/-- **interrupted count ≤ completed count.**  The number of comparison calls of the interrupted call is `fuse - tkBase q op`
(the panicking one included; `= q'.s.ticks + 1 - tkBase q op` when a crash state survives), that of the completed call is
`q2.s.ticks - tkBase q op`; the former is at least `1` and at most the latter. -/
theorem C05_interrupted_le_completed {fuse : Nat} {q : Q P} {op : Op P} (hq : QWF q) (hl : op.Legal)
    (h : (∃ q', stepF fuse q op = .error (.crashed q')) ∨ stepF fuse q op = .error .crashedNew) :
    ∃ q2 out, step q op = .ok (q2, out) ∧ 1 ≤ fuse - tkBase q op ∧ fuse - tkBase q op ≤ q2.s.ticks - tkBase q op := by
  obtain ⟨q2, out, hp, _, h1, h2, _⟩ := C05_crash_prefix hq hl h
  exact ⟨q2, out, hp, by omega, by omega⟩

/-- **every bound of the completed call bounds the interrupted call**: if the completed call makes at most `B` comparisons,
so does the interrupted one (the panicking comparison included). -/
theorem C05_interrupted_bound {fuse B : Nat} {q : Q P} {op : Op P} (hq : QWF q) (hl : op.Legal)
    (hB : ∀ q2 out, step q op = .ok (q2, out) → q2.s.ticks ≤ tkBase q op + B)
    (h : (∃ q', stepF fuse q op = .error (.crashed q')) ∨ stepF fuse q op = .error .crashedNew) :
    1 ≤ fuse - tkBase q op ∧ fuse - tkBase q op ≤ B := by
  obtain ⟨q2, out, hp, _, h1, h2, _⟩ := C05_crash_prefix hq hl h
  have := hB q2 out hp
  exact ⟨by omega, by omega⟩

/-- **the fuse fires iff it is the ordinal of a comparison of the completed call**: on a well-formed queue a legal operation
whose plain run ends with counter `q2.s.ticks` crashes exactly for `tkBase q op < fuse ≤ q2.s.ticks`; for every other fuse the
fused run is the plain run. -/
theorem C05_crash_iff {fuse : Nat} {q q2 : Q P} {op : Op P} {out : Out P} (hq : QWF q) (hl : op.Legal)
    (hp : step q op = .ok (q2, out)) :
    ((∃ q', stepF fuse q op = .error (.crashed q')) ∨ stepF fuse q op = .error .crashedNew) ↔
      (tkBase q op < fuse ∧ fuse ≤ q2.s.ticks) := by
  constructor
  · intro h
    obtain ⟨q3, out3, hp3, _, h1, h2, _⟩ := C05_crash_prefix hq hl h
    rw [hp] at hp3; cases hp3
    exact ⟨h1, h2⟩
  · rintro ⟨h1, h2⟩
    cases hs : stepF fuse q op with
    | ok r =>
      obtain ⟨q3, out3⟩ := r
      have hp3 := C10_ok_is_plain fuse hq hl hs
      rw [hp] at hp3; cases hp3
      have := C05_ok_beyond hs h1
      omega
    | error e =>
      cases e with
      | fault f => exact absurd hs (C10_no_model_fault fuse hq hl f)
      | crashed q' => exact Or.inl ⟨q', rfl⟩
      | crashedNew => exact Or.inr rfl

/-! ## The bounds of `C05.lean` for interrupted calls

`fuse - s.ticks` is the number of comparison calls the interrupted call has made (the panicking one included); it equals
`q'.s.ticks + 1 - s.ticks` for the crash state `q'` (`C05_crash_ticks_exact`).  `n = s.size` before the call. -/

omit [LT P] [DecidableLT P] [LE P] [Std.IsLinearPreorder P] [Std.LawfulOrderLT P] in
/-- the plain `step` of an operation is a store-level function followed by a repackaging -/
theorem C05_step_unpack {α β : Type} {y : R α} {f : α → R β} {r : β}
    (h : (y >>= f) = .ok r) : ∃ a, y = .ok a ∧ f a = .ok r := by
  cases y with
  | error e => cases h
  | ok a => exact ⟨a, rfl, h⟩

/-- interrupted `PriorityQueue::push`: between 1 and `3 * log2 (n + 1)` comparison calls -/
theorem C05_pq_push_interrupted {fuse : Nat} {s : Store P} {it : Item} {p : P} {q' : Q P} (hs : s.WF)
    (h : stepF fuse ⟨.pq, s⟩ (.push it p) = .error (.crashed q')) :
    q'.s.ticks + 1 = fuse ∧ 1 ≤ fuse - s.ticks ∧ fuse - s.ticks ≤ 3 * Nat.log2 (s.size + 1) := by
  refine ⟨(C05_crash_ticks_exact h).1,
    C05_interrupted_bound (q := ⟨.pq, s⟩) (op := .push it p) hs trivial (fun q2 out hp => ?_) (Or.inl ⟨q', h⟩)⟩
  obtain ⟨⟨s', r⟩, ha, hr⟩ := C05_step_unpack (y := MaxQ.push s it p) hp
  cases hr
  have := C05_pq_push hs.qpLt ha
  show s'.ticks ≤ s.ticks + (3 * Nat.log2 (s.size + 1))
  omega

/-- interrupted `PriorityQueue::pop`: between 1 and `2 * log2 n` comparison calls -/
theorem C05_pq_pop_interrupted {fuse : Nat} {s : Store P} {q' : Q P} (hs : s.WF)
    (h : stepF fuse ⟨.pq, s⟩ (.popFront) = .error (.crashed q')) :
    q'.s.ticks + 1 = fuse ∧ 1 ≤ fuse - s.ticks ∧ fuse - s.ticks ≤ 2 * Nat.log2 s.size := by
  refine ⟨(C05_crash_ticks_exact h).1,
    C05_interrupted_bound (q := ⟨.pq, s⟩) (op := .popFront) hs trivial (fun q2 out hp => ?_) (Or.inl ⟨q', h⟩)⟩
  obtain ⟨⟨s', r⟩, ha, hr⟩ := C05_step_unpack (y := MaxQ.pop s) hp
  cases hr
  have := C05_pq_pop ha
  show s'.ticks ≤ s.ticks + (2 * Nat.log2 s.size)
  omega

/-- interrupted `PriorityQueue::change_priority`: between 1 and `3 * log2 n` comparison calls -/
theorem C05_pq_changePriority_interrupted {fuse : Nat} {s : Store P} {k : Nat} {p : P} {q' : Q P} (hs : s.WF)
    (h : stepF fuse ⟨.pq, s⟩ (.changePriority k p) = .error (.crashed q')) :
    q'.s.ticks + 1 = fuse ∧ 1 ≤ fuse - s.ticks ∧ fuse - s.ticks ≤ 3 * Nat.log2 s.size := by
  refine ⟨(C05_crash_ticks_exact h).1,
    C05_interrupted_bound (q := ⟨.pq, s⟩) (op := .changePriority k p) hs trivial (fun q2 out hp => ?_) (Or.inl ⟨q', h⟩)⟩
  obtain ⟨⟨s', r⟩, ha, hr⟩ := C05_step_unpack (y := MaxQ.changePriority s k p) hp
  cases hr
  have := C05_pq_changePriority hs.qpLt ha
  show s'.ticks ≤ s.ticks + (3 * Nat.log2 s.size)
  omega

/-- interrupted `PriorityQueue::remove`: between 1 and `3 * log2 n` comparison calls -/
theorem C05_pq_remove_interrupted {fuse : Nat} {s : Store P} {k : Nat} {q' : Q P} (hs : s.WF)
    (h : stepF fuse ⟨.pq, s⟩ (.remove k) = .error (.crashed q')) :
    q'.s.ticks + 1 = fuse ∧ 1 ≤ fuse - s.ticks ∧ fuse - s.ticks ≤ 3 * Nat.log2 s.size := by
  refine ⟨(C05_crash_ticks_exact h).1,
    C05_interrupted_bound (q := ⟨.pq, s⟩) (op := .remove k) hs trivial (fun q2 out hp => ?_) (Or.inl ⟨q', h⟩)⟩
  obtain ⟨⟨s', r⟩, ha, hr⟩ := C05_step_unpack (y := MaxQ.remove s k) hp
  cases hr
  have := C05_pq_remove ha
  show s'.ticks ≤ s.ticks + (3 * Nat.log2 s.size)
  omega

/-- interrupted `PriorityQueue::push_increase`: between 1 and `3 * log2 (n + 1) + 1` comparison calls (a crash at the first
one, the pre-check, leaves the queue untouched: `Crash.lean`) -/
theorem C05_pq_pushIncrease_interrupted {fuse : Nat} {s : Store P} {it : Item} {p : P} {q' : Q P} (hs : s.WF)
    (h : stepF fuse ⟨.pq, s⟩ (.pushIncrease it p) = .error (.crashed q')) :
    q'.s.ticks + 1 = fuse ∧ 1 ≤ fuse - s.ticks ∧ fuse - s.ticks ≤ 3 * Nat.log2 (s.size + 1) + 1 := by
  refine ⟨(C05_crash_ticks_exact h).1,
    C05_interrupted_bound (q := ⟨.pq, s⟩) (op := .pushIncrease it p) hs trivial (fun q2 out hp => ?_) (Or.inl ⟨q', h⟩)⟩
  obtain ⟨⟨s', r⟩, ha, hr⟩ := C05_step_unpack (y := MaxQ.pushIncrease s it p) hp
  cases hr
  have := C05_pq_pushIncrease hs.qpLt ha
  show s'.ticks ≤ s.ticks + (3 * Nat.log2 (s.size + 1) + 1)
  omega

/-- interrupted `DoublePriorityQueue::push`: between 1 and `8 * log2 (n + 1) + 8` comparison calls -/
theorem C05_dpq_push_interrupted {fuse : Nat} {s : Store P} {it : Item} {p : P} {q' : Q P} (hs : s.WF)
    (h : stepF fuse ⟨.dpq, s⟩ (.push it p) = .error (.crashed q')) :
    q'.s.ticks + 1 = fuse ∧ 1 ≤ fuse - s.ticks ∧ fuse - s.ticks ≤ 8 * Nat.log2 (s.size + 1) + 8 := by
  refine ⟨(C05_crash_ticks_exact h).1,
    C05_interrupted_bound (q := ⟨.dpq, s⟩) (op := .push it p) hs trivial (fun q2 out hp => ?_) (Or.inl ⟨q', h⟩)⟩
  obtain ⟨⟨s', r⟩, ha, hr⟩ := C05_step_unpack (y := DQ.push s it p) hp
  cases hr
  have := C05_dpq_push hs.qpLt ha
  show s'.ticks ≤ s.ticks + (8 * Nat.log2 (s.size + 1) + 8)
  omega

/-- interrupted `DoublePriorityQueue::pop_min`: between 1 and `4 * log2 n + 4` comparison calls -/
theorem C05_dpq_popMin_interrupted {fuse : Nat} {s : Store P} {q' : Q P} (hs : s.WF)
    (h : stepF fuse ⟨.dpq, s⟩ (.popFront) = .error (.crashed q')) :
    q'.s.ticks + 1 = fuse ∧ 1 ≤ fuse - s.ticks ∧ fuse - s.ticks ≤ 4 * Nat.log2 s.size + 4 := by
  refine ⟨(C05_crash_ticks_exact h).1,
    C05_interrupted_bound (q := ⟨.dpq, s⟩) (op := .popFront) hs trivial (fun q2 out hp => ?_) (Or.inl ⟨q', h⟩)⟩
  obtain ⟨⟨s', r⟩, ha, hr⟩ := C05_step_unpack (y := DQ.popMin s) hp
  cases hr
  have := C05_dpq_popMin ha
  show s'.ticks ≤ s.ticks + (4 * Nat.log2 s.size + 4)
  omega

/-- interrupted `DoublePriorityQueue::pop_max`: between 1 and `4 * log2 n + 5` comparison calls (a crash at the first one,
`find_max`, leaves the queue untouched: `Crash.lean`) -/
theorem C05_dpq_popMax_interrupted {fuse : Nat} {s : Store P} {q' : Q P} (hs : s.WF)
    (h : stepF fuse ⟨.dpq, s⟩ (.popBack) = .error (.crashed q')) :
    q'.s.ticks + 1 = fuse ∧ 1 ≤ fuse - s.ticks ∧ fuse - s.ticks ≤ 4 * Nat.log2 s.size + 5 := by
  refine ⟨(C05_crash_ticks_exact h).1,
    C05_interrupted_bound (q := ⟨.dpq, s⟩) (op := .popBack) hs trivial (fun q2 out hp => ?_) (Or.inl ⟨q', h⟩)⟩
  obtain ⟨⟨s', r⟩, ha, hr⟩ := C05_step_unpack (y := DQ.popMax s) hp
  cases hr
  have := C05_dpq_popMax ha
  show s'.ticks ≤ s.ticks + (4 * Nat.log2 s.size + 5)
  omega

/-- interrupted `DoublePriorityQueue::change_priority`: between 1 and `8 * log2 n + 8` comparison calls -/
theorem C05_dpq_changePriority_interrupted {fuse : Nat} {s : Store P} {k : Nat} {p : P} {q' : Q P} (hs : s.WF)
    (h : stepF fuse ⟨.dpq, s⟩ (.changePriority k p) = .error (.crashed q')) :
    q'.s.ticks + 1 = fuse ∧ 1 ≤ fuse - s.ticks ∧ fuse - s.ticks ≤ 8 * Nat.log2 s.size + 8 := by
  refine ⟨(C05_crash_ticks_exact h).1,
    C05_interrupted_bound (q := ⟨.dpq, s⟩) (op := .changePriority k p) hs trivial (fun q2 out hp => ?_) (Or.inl ⟨q', h⟩)⟩
  obtain ⟨⟨s', r⟩, ha, hr⟩ := C05_step_unpack (y := DQ.changePriority s k p) hp
  cases hr
  have := C05_dpq_changePriority hs.qpLt ha
  show s'.ticks ≤ s.ticks + (8 * Nat.log2 s.size + 8)
  omega

/-- interrupted `DoublePriorityQueue::remove`: between 1 and `8 * log2 n + 8` comparison calls -/
theorem C05_dpq_remove_interrupted {fuse : Nat} {s : Store P} {k : Nat} {q' : Q P} (hs : s.WF)
    (h : stepF fuse ⟨.dpq, s⟩ (.remove k) = .error (.crashed q')) :
    q'.s.ticks + 1 = fuse ∧ 1 ≤ fuse - s.ticks ∧ fuse - s.ticks ≤ 8 * Nat.log2 s.size + 8 := by
  refine ⟨(C05_crash_ticks_exact h).1,
    C05_interrupted_bound (q := ⟨.dpq, s⟩) (op := .remove k) hs trivial (fun q2 out hp => ?_) (Or.inl ⟨q', h⟩)⟩
  obtain ⟨⟨s', r⟩, ha, hr⟩ := C05_step_unpack (y := DQ.remove s k) hp
  cases hr
  have := C05_dpq_remove ha
  show s'.ticks ≤ s.ticks + (8 * Nat.log2 s.size + 8)
  omega

/-- interrupted conversions `From<DoublePriorityQueue>` / `From<PriorityQueue>` (linear rebuilds): at most `2 * n` resp.
`7 * n` comparison calls; the crash state is a queue of the target kind -/
theorem C05_convert_interrupted {fuse : Nat} {q q' : Q P} (hq : QWF q)
    (h : stepF fuse q .convert = .error (.crashed q')) :
    q'.s.ticks + 1 = fuse ∧ 1 ≤ fuse - q.s.ticks ∧
      fuse - q.s.ticks ≤ (match q.kind with | .pq => 7 | .dpq => 2) * q.s.size := by
  refine ⟨(C05_crash_ticks_exact h).1, C05_interrupted_bound (op := .convert) hq trivial (fun q2 out hp => ?_) (Or.inl ⟨q', h⟩)⟩
  obtain ⟨k, s⟩ := q
  cases k
  · obtain ⟨a, ha, hr⟩ := C05_step_unpack (y := DQ.ofStore s) hp
    cases hr
    exact C05_dpq_bulk_linear.2.2.2.2.1 s a ha
  · obtain ⟨a, ha, hr⟩ := C05_step_unpack (y := MaxQ.ofStore s) hp
    cases hr
    exact C05_pq_bulk_linear.2.2.2.2.1 s a ha

/-- interrupted `From<Vec>` (a constructor: the fresh queue is dropped, `crashedNew`): between 1 and `2 * len` resp.
`7 * len` comparison calls, counted from `0` -/
theorem C05_fromVec_interrupted {fuse : Nat} {q : Q P} {xs : Array (Item × P)} (hq : QWF q)
    (h : stepF fuse q (.fromVec xs) = .error .crashedNew) :
    1 ≤ fuse ∧ fuse ≤ (match q.kind with | .pq => 2 | .dpq => 7) * xs.size := by
  have := C05_interrupted_bound (op := .fromVec xs) (B := (match q.kind with | .pq => 2 | .dpq => 7) * xs.size) hq trivial
    (fun q2 out hp => ?_) (Or.inr h)
  · exact this
  obtain ⟨k, s⟩ := q
  cases k
  · obtain ⟨a, ha, hr⟩ := C05_step_unpack (y := MaxQ.fromVec xs) hp
    cases hr
    have := (C05_pq_bulk_linear.1 xs a ha).2
    show a.ticks ≤ 0 + 2 * xs.size
    omega
  · obtain ⟨a, ha, hr⟩ := C05_step_unpack (y := DQ.fromVec xs) hp
    cases hr
    have := (C05_dpq_bulk_linear.1 xs a ha).2
    show a.ticks ≤ 0 + 7 * xs.size
    omega

end WF

/-! ## (C) Non-vacuity -/
section Examples

private def it (k : Nat) : Item := ⟨k, 100 + k⟩
private def v7 : Array (Item × Nat) := #[(it 1, 30), (it 2, 10), (it 3, 70), (it 4, 20), (it 5, 60), (it 6, 50), (it 7, 40)]
private def v3 : Array (Item × Nat) := #[(it 8, 65), (it 2, 99), (it 9, 5)]

/-- the queue of kind `k` built from the seven pairs (the stores `m7` / `d7` of `Crash.lean`'s own examples) -/
private def q7 (k : Kind) : Q Nat :=
  match run (Q.new k) [.fromVec v7] with
  | .ok (q, _) => q
  | .error _ => Q.new k

/-- the fused operation crashed into a queue satisfying `p` -/
private def crashedInto (r : CRQ Nat (Q Nat × Out Nat)) (p : Q Nat → Prop) : Prop :=
  match r with
  | .error (.crashed q') => p q'
  | _ => False

private instance (r : CRQ Nat (Q Nat × Out Nat)) (p : Q Nat → Prop) [DecidablePred p] : Decidable (crashedInto r p) := by
  unfold crashedInto; split <;> infer_instance

/-- the plain operation returned a queue whose counter is `n` -/
private def endsAt (r : R (Q Nat × Out Nat)) (n : Nat) : Prop := hist_okR r (fun x => x.1.s.ticks = n)

private instance (r : R (Q Nat × Out Nat)) (n : Nat) : Decidable (endsAt r n) := by unfold endsAt; infer_instance

private def crashedNewB (r : CRQ Nat (Q Nat × Out Nat)) : Bool :=
  match r with
  | .error .crashedNew => true
  | _ => false

private def okB (r : CRQ Nat (Q Nat × Out Nat)) : Bool :=
  match r with
  | .ok _ => true
  | _ => false

private instance (q : Q Nat) : Decidable (QWF q) := inferInstanceAs (Decidable q.s.WF)

-- the hypotheses: well-formed 7-element queues of both kinds whose counters are not zero (8 resp. 11 comparisons were made
-- by the construction)
example : QWF (q7 .pq) ∧ (q7 .pq).s.size = 7 ∧ (q7 .pq).s.ticks = 8 := by decide +kernel
example : QWF (q7 .dpq) ∧ (q7 .dpq).s.size = 7 ∧ (q7 .dpq).s.ticks = 11 := by decide +kernel

-- `push` of a new maximum into the 7-element max-heap: the completed call makes 3 comparisons (counter 8 → 11); with the 2nd
-- one panicking (fuse = ticks + 2) the crash state has counted 1 (counter 9 = fuse - 1), and 2 ≤ 3 ≤ 3 * log2 8 = 9
example : crashedInto (stepF ((q7 .pq).s.ticks + 2) (q7 .pq) (.push (it 8) 99)) (fun q' =>
    q'.s.ticks = (q7 .pq).s.ticks + 1 ∧ q'.s.ticks + 1 = (q7 .pq).s.ticks + 2) ∧
    endsAt (step (q7 .pq) (.push (it 8) 99)) ((q7 .pq).s.ticks + 3) ∧ 3 * Nat.log2 ((q7 .pq).s.size + 1) = 9 := by
  decide +kernel
-- every fuse in (ticks, ticks + 3] crashes, with exactly fuse - 1 counted; fuse = ticks + 4 and fuse = ticks do not
example : (∀ k ∈ [1, 2, 3], crashedInto (stepF ((q7 .pq).s.ticks + k) (q7 .pq) (.push (it 8) 99)) (fun q' =>
    q'.s.ticks + 1 = (q7 .pq).s.ticks + k)) ∧
    okB (stepF ((q7 .pq).s.ticks + 4) (q7 .pq) (.push (it 8) 99)) = true ∧
    okB (stepF ((q7 .pq).s.ticks) (q7 .pq) (.push (it 8) 99)) = true := by decide +kernel
-- the same on the min-max heap: the completed `push` makes 2 comparisons; crash at the 2nd: 1 counted
example : crashedInto (stepF ((q7 .dpq).s.ticks + 2) (q7 .dpq) (.push (it 8) 99)) (fun q' =>
    q'.s.ticks = (q7 .dpq).s.ticks + 1 ∧ q'.s.ticks + 1 = (q7 .dpq).s.ticks + 2) ∧
    endsAt (step (q7 .dpq) (.push (it 8) 99)) ((q7 .dpq).s.ticks + 2) ∧
    okB (stepF ((q7 .dpq).s.ticks + 3) (q7 .dpq) (.push (it 8) 99)) = true := by decide +kernel
-- `pop` / `pop_max` / `change_priority` interrupted at their 2nd comparison
example : crashedInto (stepF ((q7 .pq).s.ticks + 2) (q7 .pq) .popFront) (fun q' => q'.s.ticks = (q7 .pq).s.ticks + 1) ∧
    endsAt (step (q7 .pq) .popFront) ((q7 .pq).s.ticks + 4) := by decide +kernel
example : crashedInto (stepF ((q7 .dpq).s.ticks + 2) (q7 .dpq) .popBack) (fun q' => q'.s.ticks = (q7 .dpq).s.ticks + 1) := by
  decide +kernel
example : crashedInto (stepF ((q7 .dpq).s.ticks + 2) (q7 .dpq) (.changePriority 3 1)) (fun q' =>
    q'.s.ticks = (q7 .dpq).s.ticks + 1) := by decide +kernel
-- `append` of a LARGER queue (counter 8) to a 3-element queue with counter 0: receiver and argument are exchanged, the
-- comparisons of the rebuild are numbered from the counter of the larger store: `tkBase = 8`, not the receiver's `0`; a fuse
-- of `2` — in the future of the receiver's own counter — does not fire, `8 + 2` does, with `8 + 1` counted
private def q3 : Q Nat := ⟨.pq, Store.fromVec v3⟩
example : QWF q3 ∧ q3.s.ticks = 0 ∧ tkBase q3 (.append (q7 .pq).s) = 8 := by decide +kernel
example : (Op.append (q7 .pq).s).Legal := by show (q7 .pq).s.WF; decide +kernel
example : okB (stepF 2 q3 (.append (q7 .pq).s)) = true ∧
    crashedInto (stepF (8 + 2) q3 (.append (q7 .pq).s)) (fun q' => q'.s.ticks = 8 + 1 ∧ q'.s.size = 9) := by decide +kernel
-- a constructor numbers from 0 and drops the fresh queue
example : crashedNewB (stepF 2 (q7 .pq) (.fromVec v7)) = true ∧ endsAt (step (q7 .pq) (.fromVec v7)) 8 ∧
    okB (stepF 9 (q7 .pq) (.fromVec v7)) = true := by decide +kernel

end Examples

end PQ

#print axioms PQ.C05_crash_ticks_exact
#print axioms PQ.C05_tkBase
#print axioms PQ.C05_crashNew_future
#print axioms PQ.C05_crash_prefix_any
#print axioms PQ.C05_ok_beyond
#print axioms PQ.C05_crash_prefix
#print axioms PQ.C05_interrupted_le_completed
#print axioms PQ.C05_interrupted_bound
#print axioms PQ.C05_crash_iff
#print axioms PQ.C05_pq_push_interrupted
#print axioms PQ.C05_pq_pop_interrupted
#print axioms PQ.C05_pq_changePriority_interrupted
#print axioms PQ.C05_pq_remove_interrupted
#print axioms PQ.C05_pq_pushIncrease_interrupted
#print axioms PQ.C05_dpq_push_interrupted
#print axioms PQ.C05_dpq_popMin_interrupted
#print axioms PQ.C05_dpq_popMax_interrupted
#print axioms PQ.C05_dpq_changePriority_interrupted
#print axioms PQ.C05_dpq_remove_interrupted
#print axioms PQ.C05_convert_interrupted
#print axioms PQ.C05_fromVec_interrupted
