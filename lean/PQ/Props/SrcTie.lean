import PQ.Lemmas.SrcEquiv
import PQ.Lemmas.SrcEquivStore
import PQ.Lemmas.SrcEquivDQ
import PQ.Lemmas.SrcEquivOps
import PQ.Lemmas.SrcEquivStore2
import PQ.Lemmas.SrcEquivPush
import PQ.Lemmas.SrcEquivOps2
import PQ.Lemmas.SrcEquivBulk
import PQ.Lemmas.SrcEquivBulkQ
import PQ.Lemmas.SrcEquivExtend
import PQ.Lemmas.SrcEquivPanic
import PQ.Lemmas.SrcEquivPanic2
import PQ.Lemmas.SrcEquivPanicPQ
import PQ.Lemmas.SrcEquivPanicDQ
import PQ.Lemmas.SrcEquivPanicBulk
import PQ.Lemmas.SrcEquivPanicExtend
import PQ.Lemmas.SrcEquivIter
import PQ.Lemmas.SrcEquivSmall
import PQ.Lemmas.SrcEquivCap
/-!
# Source-translated tie: audit file

The Rust functions below are tied to the hand-written model by a PROVED equivalence: `tools/gen_src.py` translates
their source text (from `/repo/src`, on every run) into terms of the IR of `PQ/Model/Src.lean`
(`PQ/Model/SrcGen.lean`, generated), and for every input and every sufficient fuel the interpreter `PQ.Src.run` on the
generated term returns exactly what the hand-written model function returns: the same store (including the
comparison counter `ticks`), the same result value, the same fault with the same site number.

| Rust function                                   | generated term        | model function   | theorem                   |
|--------------------------------------------------|-----------------------|------------------|---------------------------|
| `Store::swap`                                    | `SrcGen.storeSwap`    | `Store.swap`     | `SrcEquiv.storeSwap`      |
| `Store::get_priority_from_position`              | `SrcGen.storePrioAt`  | `Store.prioAt`   | `SrcEquiv.storePrioAt`    |
| `Store::swap_remove` (map part `swap_remove_index`: primitive) | `SrcGen.storeSwapRemove` | `Store.swapRemove` | `SrcEquiv.storeSwapRemove` |
| `Store::remove` (map part `swap_remove_full`: primitive)       | `SrcGen.storeRemove`     | `Store.remove`     | `SrcEquiv.storeRemove`     |
| `PriorityQueue::heapify`                         | `SrcGen.pqHeapify`    | `MaxQ.heapify`   | `SrcEquiv.pqHeapify`      |
| `PriorityQueue::bubble_up` (+ `Hole::{new,index_at,move_from}`, `Drop for Hole`, inlined) | `SrcGen.pqBubbleUp` | `MaxQ.bubbleUp` | `SrcEquiv.pqBubbleUp` |
| `PriorityQueue::up_heapify`                      | `SrcGen.pqUpHeapify`  | `MaxQ.upHeapify` | `SrcEquiv.pqUpHeapify`    |
| `PriorityQueue::heap_build`                      | `SrcGen.pqHeapBuild`  | `MaxQ.heapBuild` | `SrcEquiv.pqHeapBuild`    |
| `DoublePriorityQueue::heapify`                  | `SrcGen.dqHeapify`    | `DQ.heapify`     | `SrcEquiv.dqHeapify`      |
| `DoublePriorityQueue::heapify_min` (candidate selection = IR primitive `firstMinBy`, candidates translated) | `SrcGen.dqHeapifyMin` | `DQ.heapifyMinLoop s.size` | `SrcEquiv.dqHeapifyMin` (for `1 ≤ size`) |
| `DoublePriorityQueue::heapify_max` (`lastMaxBy`)  | `SrcGen.dqHeapifyMax` | `DQ.heapifyMaxLoop s.size` | `SrcEquiv.dqHeapifyMax` (for `1 ≤ size`) |
| `DoublePriorityQueue::bubble_up` (+ `Hole`)      | `SrcGen.dqBubbleUp`   | `DQ.bubbleUp`    | `SrcEquiv.dqBubbleUp`     |
| `DoublePriorityQueue::bubble_up_min`             | `SrcGen.dqBubbleUpMin`| `DQ.bubbleUpMinLoop (pos+1)` | `SrcEquiv.dqBubbleUpMin` |
| `DoublePriorityQueue::bubble_up_max`             | `SrcGen.dqBubbleUpMax`| `DQ.bubbleUpMaxLoop (pos+1)` | `SrcEquiv.dqBubbleUpMax` |
| `DoublePriorityQueue::up_heapify`                | `SrcGen.dqUpHeapify`  | `DQ.upHeapify`   | `SrcEquiv.dqUpHeapify`    |
| `DoublePriorityQueue::heap_build`                | `SrcGen.dqHeapBuild`  | `DQ.heapBuild`   | `SrcEquiv.dqHeapBuild`    |
| `DoublePriorityQueue::find_max`                  | `SrcGen.dqFindMax`    | `DQ.findMax`     | `SrcEquiv.dqFindMax`      |
| `DoublePriorityQueue::find_min`                  | `SrcGen.dqFindMin`    | `DQ.findMin`     | `SrcEquiv.dqFindMin`      |
| `PriorityQueue::pop`                             | `SrcGen.pqPop`        | `MaxQ.pop`       | `SrcEquiv.pqPop`          |
| `PriorityQueue::remove`                          | `SrcGen.pqRemove`     | `MaxQ.remove`    | `SrcEquiv.pqRemove`       |
| `DoublePriorityQueue::pop_min`                   | `SrcGen.dqPopMin`     | `DQ.popMin`      | `SrcEquiv.dqPopMin`       |
| `DoublePriorityQueue::pop_max`                   | `SrcGen.dqPopMax`     | `DQ.popMax`      | `SrcEquiv.dqPopMax`       |
| `DoublePriorityQueue::remove`                    | `SrcGen.dqRemove`     | `DQ.remove`      | `SrcEquiv.dqRemove`       |

| `Store::clear` (+ statement order pinned by `storeClear_order`) | `SrcGen.storeClear` | `Store.clear` | `SrcEquiv.storeClear` |
| `Store::drain` (value carries the tables/size at hand-out: empty) | `SrcGen.storeDrain` | `Store.drain` | `SrcEquiv.storeDrain` |
| `Store::retain_mut`                              | `SrcGen.storeRetainMut` | `Store.retainMut` | `SrcEquiv.storeRetainMut` |
| `Store::append`                                  | `SrcGen.storeAppend`  | `Store.append`   | `SrcEquiv.storeAppend`    |
| `Store::swap_remove_if`                          | `SrcGen.storeSwapRemoveIf` | `Store.swapRemoveIf` | `SrcEquiv.storeSwapRemoveIf` |
| `Store::change_priority`                         | `SrcGen.storeChangePriority` | `Store.changePriority` | `SrcEquiv.storeChangePriority` |
| `Store::change_priority_by`                      | `SrcGen.storeChangePriorityBy` | `Store.changePriorityBy` | `SrcEquiv.storeChangePriorityBy` |
| `PriorityQueue::push` / `DoublePriorityQueue::push` | `SrcGen.pqPush` / `dqPush` | `MaxQ.push` / `DQ.push` | `SrcEquiv.pqPush` / `dqPush` |
| `change_priority`, `change_priority_by` (both)   | `SrcGen.{pq,dq}ChangePriority{,By}` | `{MaxQ,DQ}.changePriority{,By}` | `SrcEquiv.{pq,dq}ChangePriority{,By}` |
| `push_increase`, `push_decrease` (both)          | `SrcGen.{pq,dq}Push{In,De}crease` | `{MaxQ,DQ}.push{In,De}crease` | `SrcEquiv.{pq,dq}Push{In,De}crease` |
| `pop_if`, `pop_min_if`, `pop_max_if`             | `SrcGen.pqPopIf`, `dqPopMinIf`, `dqPopMaxIf` | `MaxQ.popIf`, `DQ.popMinIf`, `DQ.popMaxIf` | `SrcEquiv.pqPopIf`, … |
| `peek`, `peek_min`, `peek_max`                   | `SrcGen.pqPeek`, `dqPeekMin`, `dqPeekMax` | `MaxQ.peek`, `DQ.peekMin`, `DQ.peekMax` | `SrcEquiv.pqPeek`, … |
| `peek_mut`, `peek_min_mut`, `peek_max_mut` (+ the caller's write `w`) | `SrcGen.pqPeekMut`, … | `MaxQ.peekMutWrite`, `DQ.peek{Min,Max}MutWrite` | `SrcEquiv.pqPeekMut`, … |

| `From<Vec<(I,P)>> for Store` (for `vec.len() < capLimit`) | `SrcGen.storeFromVec` | `Store.fromVec` | `SrcEquiv.storeFromVec` |
| `FromIterator for Store`                         | `SrcGen.storeFromIter` | `reserveC lo; Store.fromIter` | `SrcEquiv.storeFromIter` |
| `Extend for Store`                               | `SrcGen.storeExtend`  | `Store.extend`   | `SrcEquiv.storeExtend`    |
| serde `visit_seq` (capped pre-allocation = `Arith.deserPrealloc`) | `SrcGen.storeVisitSeq` | `Store.visitSeq` | `SrcEquiv.storeVisitSeq` |
| `Store::retain`                                  | `SrcGen.storeRetain`  | `Store.retainMut` (read-only predicate) | `SrcEquiv.storeRetain` |
| `retain_mut`, `retain`, `append` (both queues)   | `SrcGen.{pq,dq}{RetainMut,Retain,Append}` | `{MaxQ,DQ}.{retainMut,append}` | `SrcEquiv.{pq,dq}{RetainMut,Retain,Append}` |
| `From<Vec>`, `FromIterator`, `From<other queue>`, `Deserialize` (both queues) | `SrcGen.{pq,dq}From{Vec,Iter,Queue}`, `{pq,dq}Deserialize` | `{MaxQ,DQ}.{fromVec,fromIter,ofStore,deserialize}` | `SrcEquiv.{pq,dq}From…`, `{pq,dq}Deserialize` |

| `Extend` (both queues: `reserve`, `better_to_rebuild`, rebuild or push loop) | `SrcGen.{pq,dq}Extend` | `{MaxQ,DQ}.extend` | `SrcEquiv.{pq,dq}Extend` |

| `priority_queue::IterMut::{new, next}`, `Drop` (no `next_back` / `len` / `size_hint` in the source: checked by the translator) | `SrcGen.pqIterMut{New,Next,Drop}` | `PIterMut.new`, `PIterMut.step … .next`, `MaxQ.heapBuild` | `SrcEquiv.pqIterMut{New,Next,Drop}` |
| `double_priority_queue::IterMut::{new, next, next_back, len, size_hint}`, `Drop` | `SrcGen.dqIterMut{New,Next,NextBack,Len,SizeHint,Drop}` | `DIterMut.new`, `DIterMut.step`, `DQ.heapBuild` | `SrcEquiv.dqIterMut…` |
| `IntoSortedIter` of both queues (`next`; DPQ also `next_back`, `len`, `size_hint`) | `SrcGen.pqSortedNext`, `dqSorted{Next,NextBack,Len,SizeHint}` | `MaxQ.pop`, `DQ.popMin`, `DQ.popMax`, `Store.len` | `SrcEquiv.pqSortedNext`, `dqSorted…` |
| `core_iterators::{Drain, Iter, IntoIter}::{next, next_back, len, size_hint}` (pure delegation) | `SrcGen.{drain,iter,intoIter}{Next,NextBack,Len,SizeHint}` | `Cursor.step` | `SrcEquiv.{drain,iter,intoIter}…` |
| `into_vec` (store and both queues) | `SrcGen.storeIntoVec`, `{pq,dq}IntoVec` | the items of `map.toList` (`Observe.intoVec`) | `SrcEquiv.storeIntoVec`, `{pq,dq}IntoVec` |
| `into_sorted_vec`, `into_ascending_sorted_vec`, `into_descending_sorted_vec` | `SrcGen.pqIntoSortedVec`, `dqInto{Asc,Desc}Vec` | the items of `MaxQ.intoSortedVec`, `DQ.into{Ascending,Descending}SortedVec` | `SrcEquiv.pqIntoSortedVec`, `dqInto{Asc,Desc}Vec` |
| `PartialEq for Store` | `SrcGen.storeEq` | `Store.eqv` | `SrcEquiv.storeEq` |
| `Serialize for Store` | `SrcGen.storeSerialize` | `(Some(size), map)`: the input `Store.visitSeq` reads | `SrcEquiv.storeSerialize` |
| `Store::{reserve, reserve_exact, try_reserve, try_reserve_exact, shrink_to_fit, capacity}` | `SrcGen.cap…` (`PQ/Model/SrcCap.lean`) | `Cap.stepC` for every allocator | `SrcEquivCap.cap…_eq` |

Forwards and helpers CHECKED TOKEN-EXACTLY (no theorem: `tools/src_skeleton.json` freezes the body; a mismatch makes the
translator report EVERY function as unparsed, i.e. the whole tie stale):

| Rust function | frozen body | what relies on it |
|---|---|---|
| `Store::with_capacity_and_hasher` | `Self { map: IndexMap::with_capacity_and_hasher(capacity, hash_builder), heap: Vec::with_capacity(capacity), qp: Vec::with_capacity(capacity), size: 0 }` | `.storeNew` / `.storeNewCap` of the constructors (`Store.empty`) |
| `Store::{default, with_default_hasher, with_capacity_and_default_hasher, with_hasher}`, the same five of both queues, `new`, `with_capacity` | one-line chains ending in `with_capacity_and_hasher` | the constructors, `visit_seq` |
| `Store::get_priority` = `self.map.get(item)`; `{PriorityQueue, DoublePriorityQueue}::get_priority` = `self.store.get_priority(item)` | | `prioMapOrGt/Lt` of `push_increase/decrease` |
| `Store::{get, get_mut, len, is_empty, iter}`, `IntoIterator for Store / &Store` | `self.map.get_full(item).map(…)`, `self.size`, `Iter { iter: self.map.iter() }`, … | `Store.get`, `.len`, the wrappers of `core_iterators.rs` |
| `Deserialize for Store::deserialize` = `deserializer.deserialize_seq(StoreVisitor { marker: PhantomData })`, `visit_unit` = `Ok(Store::with_default_hasher())` | | `storeVisitSeq` being what `Store::deserialize` runs |
| both queues: `clear`, `drain`, `iter`, `iter_mut` (`IterMut::new(self)`), `into_sorted_iter` (`IntoSortedIter { pq: self }`), `into_iter` ×3, `eq` (`self.store == other.store`), `Serialize` (`self.store.serialize(serializer)`), `get`, `get_mut`, `len`, `is_empty` | `self.store.<same name>(…)` | the model's queue-level operations being the store's |
| both queues: `reserve`, `reserve_exact`, `try_reserve`, `try_reserve_exact`, `shrink_to_fit`, `capacity` | `self.store.<same name>(additional)` | `.reserve` of `extend`; `Cap.stepC` |
| `From<StdTryReserveError>` / `From<IndexMapTryReserveError> for TryReserveError` (`src/lib.rs`) | `Self { kind: Std(source) }` / `Self { kind: IndexMap(source) }` | the `?` of the `try_reserve*` forwards |

The same file pins, for every file under `src/`, the ordered list of items (attributes, `use`, `mod`, `struct`, `trait`,
`impl` headers token-exactly, `fn` signatures), the set of files, `Cargo.toml`'s source-selecting parts and the absence of
`build.rs`: see `PQ/Model/SRC_README.md`, "What the translator checks".

Under panics (`PQ/Model/SrcF.lean`: the `fuse`-th comparison panics, frames unwind, the translated `Drop for Hole` runs):

| Rust function | fused twin of `PQ/Model/Crash.lean` | theorem |
|---|---|---|
| `PriorityQueue::bubble_up` | `Crash.MaxQ.bubbleUpF` | `SrcEquivF.pqBubbleUpF` |
| `PriorityQueue::push` of a new item (`size += 1` BEFORE the sift-up) | `Crash.MaxQ.pushF` | `SrcEquivF.pqPushF_new` |
| `DoublePriorityQueue::bubble_up_min` / `bubble_up_max` (seen from the owner of the hole) | `Crash.DQ.bubbleUpMinLoopF` / `bubbleUpMaxLoopF` | `SrcEquivF.call_dqBubbleUpMinF` / `call_dqBubbleUpMaxF` |
| `DoublePriorityQueue::bubble_up` | `Crash.DQ.bubbleUpF` | `SrcEquivF.dqBubbleUpF` |
| `DoublePriorityQueue::push` of a new item | `Crash.DQ.pushF` | `SrcEquivF.dqPushF_new` |
| `PriorityQueue::heapify` (swap-based: the store as it is) | `Crash.MaxQ.heapifyF` | `SrcEquivF.pqHeapifyF` |
| `PriorityQueue::up_heapify`, `heap_build` | `Crash.MaxQ.upHeapifyF`, `heapBuildF` | `SrcEquivF.pqUpHeapifyF`, `pqHeapBuildF` |
| `PriorityQueue::{pop, pop_if, remove, change_priority, change_priority_by}` | `Crash.MaxQ.{popF, popIfF, removeF, changePriorityF, changePriorityByF}` | `SrcEquivF.pq{Pop,PopIf,Remove,ChangePriority,ChangePriorityBy}F` |
| `PriorityQueue::push` (new or present item), `push_increase`, `push_decrease` | `Crash.MaxQ.{pushF, pushIncreaseF, pushDecreaseF}` | `SrcEquivF.pqPushF`, `pqPushIncreaseF`, `pqPushDecreaseF` |
| `DoublePriorityQueue::heapify_min`, `heapify_max`, `heapify` | `Crash.DQ.heapifyMinLoopF`, `heapifyMaxLoopF`, `heapifyF` | `SrcEquivF.dqHeapifyMinF`, `dqHeapifyMaxF`, `dqHeapifyF` |
| `DoublePriorityQueue::up_heapify`, `heap_build`, `find_max` | `Crash.DQ.upHeapifyF`, `heapBuildF`, `findMaxF` | `SrcEquivF.dqUpHeapifyF`, `dqHeapBuildF`, `dqFindMaxF` |
| `DoublePriorityQueue::{peek_max, peek_max_mut (+ the caller's write), pop_min, pop_max, pop_min_if, pop_max_if}` | `Crash.DQ.{peekMaxF, peekMaxMutWriteF, popMinF, popMaxF, popMinIfF, popMaxIfF}` | `SrcEquivF.dq{PeekMax,PeekMaxMut,PopMin,PopMax,PopMinIf,PopMaxIf}F` |
| `DoublePriorityQueue::{remove, change_priority, change_priority_by, push, push_increase, push_decrease}` | `Crash.DQ.{removeF, changePriorityF, changePriorityByF, pushF, pushIncreaseF, pushDecreaseF}` | `SrcEquivF.dq{Remove,ChangePriority,ChangePriorityBy,Push,PushIncrease,PushDecrease}F` |
| `retain_mut`, `retain`, `append`, `From<other queue>` (both queues) | `Crash.{MaxQ,DQ}.{retainMutF, appendF, ofStoreF}` | `SrcEquivF.{pq,dq}{RetainMut,Retain,Append,FromQueue}F` |
| `From<Vec>`, `FromIterator`, `Deserialize` (both queues; the queue under construction is dropped: `asNew`) | `Crash.{MaxQ,DQ}.{fromVecF, fromIterF, deserializeF}` | `SrcEquivF.{pq,dq}{FromVec,FromIter,Deserialize}F` |
| `Extend` (both queues) | `Crash.{MaxQ,DQ}.extendF` | `SrcEquivF.{pq,dq}ExtendF` |
| `Drop for IterMut` (both queues) | `Crash.{MaxQ,DQ}.heapBuildF` | `SrcEquivF.{pq,dq}IterMutDropF` |
| `Store::clear` when dropping an element panics: tables empty, `size = 0` | (no twin: stated directly) | `SrcEquivF.storeClearF` |
| every comparison-free function (the `Store` layer, `find_min`, `peek`, `peek_mut`): the fused interpreter IS the plain one | (the plain model) | `SrcEquivF.execF_noPanic`, `callF_pf` |

NOT tied this way: see `PQ/Model/SRC_README.md`.

Trusted: the Python translator and the interpreter's reading of the primitives (see `PQ/Model/SRC_README.md`).
-/
namespace PQ.SrcTie
open PQ PQ.Src

/-! Non-vacuity: the interpreter really runs the generated terms (kernel evaluation on a concrete store), and the
fuel bounds of the theorems are met by concrete instances. -/

/-- a well-formed three-element store whose root violates the heap order -/
def s3 : Store Nat :=
  { map := #[(⟨10, 0⟩, 1), (⟨11, 0⟩, 5), (⟨12, 0⟩, 3)], heap := #[0, 1, 2], qp := #[0, 1, 2], size := 3 }

/-- Bool-valued observation of an interpreter result: heap table, tick counter, returned position (if any) -/
def obs (r : R (Store Nat × Val Nat)) : Option (Array Nat × Array Nat × Nat × Option Nat) :=
  match r with
  | .ok (s', .nat p) => some (s'.heap, s'.qp, s'.ticks, some p)
  | .ok (s', _) => some (s'.heap, s'.qp, s'.ticks, none)
  | .error _ => none

def obsM (r : R (Store Nat)) : Option (Array Nat × Array Nat × Nat × Option Nat) :=
  match r with
  | .ok s' => some (s'.heap, s'.qp, s'.ticks, none)
  | .error _ => none

def fault {α : Type} (r : R α) : Option Fault :=
  match r with
  | .ok _ => none
  | .error e => some e

example : obs (Src.run SrcGen.prog 5 .pqHeapify s3 [0]) = some (#[1, 0, 2], #[1, 0, 2], 2, none) := by decide
example : obsM (MaxQ.heapify s3 0) = some (#[1, 0, 2], #[1, 0, 2], 2, none) := by decide

/-- sift-up of the last element (priority 3 over the root's 1) -/
example : obs (Src.run SrcGen.prog 4 .pqBubbleUp s3 [2, 2]) = some (#[2, 1, 0], #[2, 1, 0], 1, some 0) := by decide

/-- an out-of-range position faults at the same site in both -/
example : fault (Src.run SrcGen.prog 9 .pqUpHeapify s3 [7]) = some (.oob 207) ∧
    fault (MaxQ.upHeapify s3 7) = some (.oob 207) := by decide

example : obs (Src.run SrcGen.prog 6 .pqHeapBuild s3 []) = some (#[1, 0, 2], #[1, 0, 2], 2, none) := by decide

/-- `swap_remove(0)` on the three-element store: same tables in the interpreter and the model -/
example : obs (Src.run SrcGen.prog 1 .storeSwapRemove s3 [0]) = some (#[0, 1], #[0, 1], 0, none) ∧
    obsM ((s3.swapRemove 0).map (·.1)) = some (#[0, 1], #[0, 1], 0, none) := by decide

/-- the min-max heap: `heap_build` on the three-element store (root 1 is already the minimum) and `find_max` -/
example : obs (Src.run SrcGen.prog 7 .dqHeapBuild s3 []) = obsM (DQ.heapBuild s3) ∧
    (obsM (DQ.heapBuild s3)).isSome := by decide
example : (match Src.run SrcGen.prog 2 .dqFindMax s3 [] with
    | .ok (s', .optNat r) => (s'.ticks, r)
    | _ => (99, none)) = (1, some 1) := by decide

/-- `pop` through the interpreter and through the model: same tables, same tick count -/
example : obs (Src.run SrcGen.prog 6 .pqPop s3 []) = obsM ((MaxQ.pop s3).map (·.1)) ∧
    (obsM ((MaxQ.pop s3).map (·.1))).isSome := by decide
example : obs (Src.run SrcGen.prog 7 .dqPopMax s3 []) = obsM ((DQ.popMax s3).map (·.1)) ∧
    (obsM ((DQ.popMax s3).map (·.1))).isSome := by decide

/-- too little fuel is reported as such, never as a wrong result -/
example : fault (Src.run SrcGen.prog 1 .pqHeapify s3 [0]) = some .fuel := by decide

/-! Under panics: the fused interpreter really crashes where the fuse says, and leaves what the twin leaves. -/

/-- observation of a fused run: `(crashed?, heap, qp, ticks)` -/
def obsF {α : Type} (proj : α → Store Nat) (r : Crash.CR Nat α) : Option (Bool × Array Nat × Array Nat × Nat) :=
  match r with
  | .ok a => some (false, (proj a).heap, (proj a).qp, (proj a).ticks)
  | .error (.crashed s') => some (true, s'.heap, s'.qp, s'.ticks)
  | .error _ => none

/-- `heapify(0)` on the three-element store makes two comparisons; the second one panicking leaves the store untouched
(nothing was swapped yet), with the first comparison counted -/
example : obsF (·.1) (SrcF.runF SrcGen.prog SrcGen.unwind 2 false 5 .pqHeapify s3 [0]) = some (true, #[0, 1, 2], #[0, 1, 2], 1) ∧
    obsF id (Crash.MaxQ.heapifyF 2 s3 0) = some (true, #[0, 1, 2], #[0, 1, 2], 1) := by decide
/-- with the fuse off the fused interpreter gives the plain result -/
example : obsF (·.1) (SrcF.runF SrcGen.prog SrcGen.unwind 0 false 5 .pqHeapify s3 [0]) = some (false, #[1, 0, 2], #[1, 0, 2], 2) := by
  decide
/-- `pop` whose sift-down panics at its first comparison: the removal is complete (two elements left), the entry is lost -/
example : obsF (·.1) (SrcF.runF SrcGen.prog SrcGen.unwind 1 false 6 .pqPop s3 []) = obsF (·.1) (Crash.MaxQ.popF 1 s3) ∧
    (obsF (·.1) (Crash.MaxQ.popF 1 s3)).map (·.1) = some true := by decide

/-! Iterators: the cursor code runs on concrete cursors. -/
example : (match Src.run SrcGen.prog 1 .dqIterMutNextBack s3 [1, 3] with
    | .ok (_, .cursor fs o) => some (fs, o)
    | _ => none) = some ([1, 2], some (.slot (some 2))) := by decide
example : (match Src.run SrcGen.prog 1 .pqIterMutNext s3 [3] with
    | .ok (_, .cursor fs o) => some (fs, o)
    | _ => none) = some ([4], some (.slot none)) := by decide
example : fault (Src.run SrcGen.prog 1 .dqIterMutLen s3 [3, 1]) = some (.arith 401) := by decide

end PQ.SrcTie

#print axioms PQ.SrcEquiv.storeSwap
#print axioms PQ.SrcEquiv.storePrioAt
#print axioms PQ.SrcEquiv.storeSwapRemove
#print axioms PQ.SrcEquiv.storeRemove
#print axioms PQ.SrcEquiv.pqHeapify
#print axioms PQ.SrcEquiv.pqBubbleUp
#print axioms PQ.SrcEquiv.pqUpHeapify
#print axioms PQ.SrcEquiv.pqHeapBuild
#print axioms PQ.SrcEquiv.dqHeapify
#print axioms PQ.SrcEquiv.dqHeapifyMin
#print axioms PQ.SrcEquiv.dqHeapifyMax
#print axioms PQ.SrcEquiv.dqBubbleUp
#print axioms PQ.SrcEquiv.dqBubbleUpMin
#print axioms PQ.SrcEquiv.dqBubbleUpMax
#print axioms PQ.SrcEquiv.dqUpHeapify
#print axioms PQ.SrcEquiv.dqHeapBuild
#print axioms PQ.SrcEquiv.dqFindMax
#print axioms PQ.SrcEquiv.dqFindMin
#print axioms PQ.SrcEquiv.pqPop
#print axioms PQ.SrcEquiv.pqRemove
#print axioms PQ.SrcEquiv.dqPopMin
#print axioms PQ.SrcEquiv.dqPopMax
#print axioms PQ.SrcEquiv.dqRemove
#print axioms PQ.SrcEquiv.storeClear
#print axioms PQ.SrcEquiv.storeClear_order
#print axioms PQ.SrcEquiv.storeDrain
#print axioms PQ.SrcEquiv.storeRetainMut
#print axioms PQ.SrcEquiv.storeAppend
#print axioms PQ.SrcEquiv.storeSwapRemoveIf
#print axioms PQ.SrcEquiv.storeChangePriority
#print axioms PQ.SrcEquiv.storeChangePriorityBy
#print axioms PQ.SrcEquiv.pqPush
#print axioms PQ.SrcEquiv.dqPush
#print axioms PQ.SrcEquiv.pqChangePriority
#print axioms PQ.SrcEquiv.dqChangePriority
#print axioms PQ.SrcEquiv.pqChangePriorityBy
#print axioms PQ.SrcEquiv.dqChangePriorityBy
#print axioms PQ.SrcEquiv.pqPushIncrease
#print axioms PQ.SrcEquiv.pqPushDecrease
#print axioms PQ.SrcEquiv.dqPushIncrease
#print axioms PQ.SrcEquiv.dqPushDecrease
#print axioms PQ.SrcEquiv.pqPopIf
#print axioms PQ.SrcEquiv.dqPopMinIf
#print axioms PQ.SrcEquiv.dqPopMaxIf
#print axioms PQ.SrcEquiv.pqPeek
#print axioms PQ.SrcEquiv.dqPeekMin
#print axioms PQ.SrcEquiv.dqPeekMax
#print axioms PQ.SrcEquiv.pqPeekMut
#print axioms PQ.SrcEquiv.dqPeekMinMut
#print axioms PQ.SrcEquiv.dqPeekMaxMut
#print axioms PQ.SrcEquiv.storeFromVec
#print axioms PQ.SrcEquiv.storeFromIter
#print axioms PQ.SrcEquiv.storeExtend
#print axioms PQ.SrcEquiv.storeVisitSeq
#print axioms PQ.SrcEquiv.storeRetain
#print axioms PQ.SrcEquiv.pqRetainMut
#print axioms PQ.SrcEquiv.pqRetain
#print axioms PQ.SrcEquiv.pqAppend
#print axioms PQ.SrcEquiv.pqFromVec
#print axioms PQ.SrcEquiv.pqFromIter
#print axioms PQ.SrcEquiv.pqFromQueue
#print axioms PQ.SrcEquiv.pqDeserialize
#print axioms PQ.SrcEquiv.dqRetainMut
#print axioms PQ.SrcEquiv.dqRetain
#print axioms PQ.SrcEquiv.dqAppend
#print axioms PQ.SrcEquiv.dqFromVec
#print axioms PQ.SrcEquiv.dqFromIter
#print axioms PQ.SrcEquiv.dqFromQueue
#print axioms PQ.SrcEquiv.dqDeserialize
#print axioms PQ.SrcEquiv.pqExtend
#print axioms PQ.SrcEquiv.dqExtend
#print axioms PQ.SrcEquivF.pqBubbleUpF
#print axioms PQ.SrcEquivF.pqPushF_new
#print axioms PQ.SrcEquivF.storeClearF
#print axioms PQ.SrcEquivF.call_dqBubbleUpMinF
#print axioms PQ.SrcEquivF.call_dqBubbleUpMaxF
#print axioms PQ.SrcEquivF.dqBubbleUpF
#print axioms PQ.SrcEquivF.dqPushF_new
#print axioms PQ.SrcEquivF.pqHeapifyF
#print axioms PQ.SrcEquivF.pqUpHeapifyF
#print axioms PQ.SrcEquivF.pqHeapBuildF
#print axioms PQ.SrcEquivF.pqPopF
#print axioms PQ.SrcEquivF.pqPopIfF
#print axioms PQ.SrcEquivF.pqRemoveF
#print axioms PQ.SrcEquivF.pqChangePriorityF
#print axioms PQ.SrcEquivF.pqChangePriorityByF
#print axioms PQ.SrcEquivF.pqPushF
#print axioms PQ.SrcEquivF.pqPushIncreaseF
#print axioms PQ.SrcEquivF.pqPushDecreaseF
#print axioms PQ.SrcEquivF.dqHeapifyMinF
#print axioms PQ.SrcEquivF.dqHeapifyMaxF
#print axioms PQ.SrcEquivF.dqHeapifyF
#print axioms PQ.SrcEquivF.dqUpHeapifyF
#print axioms PQ.SrcEquivF.dqHeapBuildF
#print axioms PQ.SrcEquivF.dqFindMaxF
#print axioms PQ.SrcEquivF.dqPeekMaxF
#print axioms PQ.SrcEquivF.dqPeekMaxMutF
#print axioms PQ.SrcEquivF.dqPopMinF
#print axioms PQ.SrcEquivF.dqPopMaxF
#print axioms PQ.SrcEquivF.dqRemoveF
#print axioms PQ.SrcEquivF.dqChangePriorityF
#print axioms PQ.SrcEquivF.dqChangePriorityByF
#print axioms PQ.SrcEquivF.dqPushF
#print axioms PQ.SrcEquivF.dqPushIncreaseF
#print axioms PQ.SrcEquivF.dqPushDecreaseF
#print axioms PQ.SrcEquivF.dqPopMinIfF
#print axioms PQ.SrcEquivF.dqPopMaxIfF
#print axioms PQ.SrcEquivF.pqRetainMutF
#print axioms PQ.SrcEquivF.pqRetainF
#print axioms PQ.SrcEquivF.pqAppendF
#print axioms PQ.SrcEquivF.pqFromVecF
#print axioms PQ.SrcEquivF.pqFromIterF
#print axioms PQ.SrcEquivF.pqFromQueueF
#print axioms PQ.SrcEquivF.pqDeserializeF
#print axioms PQ.SrcEquivF.dqRetainMutF
#print axioms PQ.SrcEquivF.dqRetainF
#print axioms PQ.SrcEquivF.dqAppendF
#print axioms PQ.SrcEquivF.dqFromVecF
#print axioms PQ.SrcEquivF.dqFromIterF
#print axioms PQ.SrcEquivF.dqFromQueueF
#print axioms PQ.SrcEquivF.dqDeserializeF
#print axioms PQ.SrcEquivF.pqExtendF
#print axioms PQ.SrcEquivF.dqExtendF
#print axioms PQ.SrcEquivF.execF_noPanic
#print axioms PQ.SrcEquivF.callF_pf
#print axioms PQ.SrcEquivF.pfSet_ok
#print axioms PQ.SrcEquivF.pqIterMutDropF
#print axioms PQ.SrcEquivF.dqIterMutDropF
#print axioms PQ.SrcEquiv.pqIterMutNew
#print axioms PQ.SrcEquiv.pqIterMutNext
#print axioms PQ.SrcEquiv.pqIterMutDrop
#print axioms PQ.SrcEquiv.dqIterMutNew
#print axioms PQ.SrcEquiv.dqIterMutNext
#print axioms PQ.SrcEquiv.dqIterMutNextBack
#print axioms PQ.SrcEquiv.dqIterMutLen
#print axioms PQ.SrcEquiv.dqIterMutSizeHint
#print axioms PQ.SrcEquiv.dqIterMutDrop
#print axioms PQ.SrcEquiv.pqSortedNext
#print axioms PQ.SrcEquiv.dqSortedNext
#print axioms PQ.SrcEquiv.dqSortedNextBack
#print axioms PQ.SrcEquiv.dqSortedLen
#print axioms PQ.SrcEquiv.dqSortedSizeHint
#print axioms PQ.SrcEquiv.drainNext
#print axioms PQ.SrcEquiv.drainNextBack
#print axioms PQ.SrcEquiv.drainLen
#print axioms PQ.SrcEquiv.drainSizeHint
#print axioms PQ.SrcEquiv.iterNext
#print axioms PQ.SrcEquiv.iterNextBack
#print axioms PQ.SrcEquiv.iterLen
#print axioms PQ.SrcEquiv.iterSizeHint
#print axioms PQ.SrcEquiv.intoIterNext
#print axioms PQ.SrcEquiv.intoIterNextBack
#print axioms PQ.SrcEquiv.intoIterLen
#print axioms PQ.SrcEquiv.intoIterSizeHint
#print axioms PQ.SrcEquiv.storeIntoVec
#print axioms PQ.SrcEquiv.pqIntoVec
#print axioms PQ.SrcEquiv.dqIntoVec
#print axioms PQ.SrcEquiv.pqIntoSortedVec
#print axioms PQ.SrcEquiv.dqIntoAscVec
#print axioms PQ.SrcEquiv.dqIntoDescVec
#print axioms PQ.SrcEquiv.storeEq
#print axioms PQ.SrcEquiv.storeSerialize
#print axioms PQ.SrcEquivCap.capReserve_eq
#print axioms PQ.SrcEquivCap.capReserveExact_eq
#print axioms PQ.SrcEquivCap.capTryReserve_eq
#print axioms PQ.SrcEquivCap.capTryReserveExact_eq
#print axioms PQ.SrcEquivCap.capShrinkToFit_eq
#print axioms PQ.SrcEquivCap.capCapacity_eq
