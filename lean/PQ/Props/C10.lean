import PQ.Lemmas.CrashLemmas
import PQ.Lemmas.CrashCbLemmas
import PQ.Props.C04
/-!
# C10 — "A caught panic in user code leaves a queue that is safe to use"

> If user-supplied code (`Ord::cmp`, …) panics at any point inside any operation and the panic is caught
> (`catch_unwind`), then every later use of the queue stays memory safe.

## What is proved here

The crash points that the model can observe are the **priority comparisons**: every comparison-performing function of
the crate has a *fused twin* in `PQ/Model/Crash.lean` (`stepF fuse q op` for a whole public operation).  The comparison
whose ordinal equals `fuse` panics; the twin stops with `StopQ.crashed q'`, where `q'` is the queue **as the real code
leaves it after unwinding** (the `Hole` drop guard of the sift-up loops fills the hole; the swap-based loops leave complete
swaps; the constructors drop the half-built queue: `StopQ.crashedNew`).  `fuse = 0` means "never".

Quantifiers: **every operation** of the alphabet `Op P` (all public operations, both queue kinds), **every crash point**
(`fuse : Nat` arbitrary — in particular every comparison of the operation), **every well-formed starting state** (in
particular every state reachable from `new()` by a legal history, ordered or not, and every state left by an earlier
crash), **every continuation** (`ops : List (Op P)` arbitrary legal operations, leaked `iter_mut` guards included) and
**every sequence of further crashes** (`C10_repeated_crashes`).  "Memory safe" is C04's notion: no `Fault` of the model
(no out-of-bounds unchecked access `Fault.oob`, no panic of the crate's own code) and the index tables stay mutually
inverse bijections that agree with the reported length (`QWF`).

* `C10_crash_then_any_history` — the queue a caller holds after a crash is well-formed, hence (C04) every continuation
  runs without any fault;
* `C10_no_model_fault` — the operation in which the crash happens performs no faulty access itself, before or after the
  fuse fires (unwinding included: the writes of `Drop for Hole` are in range);
* `C10_ok_is_plain`, `C10_fuse_off` — when the fuse does not fire the twin is the plain operation of C04's `step`
  (so the twins describe the same code);
* `C10_reachable` — the same from `new()` after any legal history;
* `C10_repeated_crashes` — a whole sequence of operations each with its own fuse, continuing from the surviving queue
  after each crash.

## Panics inside user callbacks (setter / predicates / source iterators)

`PQ/Model/CrashCb.lean` models the other user code that runs in the middle of an operation: the **setter** of
`change_priority_by`, the **predicate** of `pop_if` / `pop_min_if` / `pop_max_if` and `Iterator::next` of the source of
`extend` / `from_iter`.  `stepCb k q op` is `op` with its `k`-th such callback panicking on entry; `stepCbW k w q op`
lets the panicking setter / predicate first store an arbitrary priority `w = some p` through its `&mut P`
(`stepCb k = stepCbW k none`).

* `C10_callback_crash_state_wf` — every such crash leaves a well-formed queue;
* `C10_callback_write_then_crash_state_wf` — also when the callback wrote a priority before panicking (the priority is in
  the slot, nothing was re-sifted: well-formed, in general not ordered);
* `C10_callback_crash_then_any_history` — from the queue the caller holds after such a crash every legal history (leaked
  guards included) is fault-free, and so is every program of further operations with comparison crashes (`runF`);
* `C10_callback_no_model_fault`, `C10_callback_fuse_off`, `C10_callback_ok_is_plain` — the operation itself performs no
  faulty access; with the fuse off (or beyond the operation's callbacks) `stepCb` is C04's `step`.

## What is NOT covered by these theorems

* Panics in the predicate of **`retain` / `retain_mut`** (it runs inside `IndexMap::retain`: trusted base), in the bodies
  of **`iter_mut` / `get_mut` / `peek_mut`** clients (they run outside the crate's code: the guard's `Drop` is the
  rebuild that `.iterMut false` models, a leak is `.iterMut true`) and in **`Hash` / `Eq`** (inside `IndexMap`).  They are
  covered by the harness's fault injection only.
* **Double drops / leaks** of items or priorities: not expressible in a pure (value-semantics) model.  (E.g. the entry
  removed by a `pop` whose sift-down crashes is lost to the caller — that is a leak, not a safety problem, and it is not
  stated here.)
* The **tie of the twins to the real unwinding behaviour** (that `StopQ.crashed q'` really is the state the Rust code
  leaves) is not a theorem: it is the driver's comparison of post-crash snapshots of the real queue with the twin's
  crash state, for every comparison ordinal of the generated operations.
* The heap **order** after a crash: a crashed queue is well-formed but in general not ordered (like after a leaked
  `iter_mut` guard); C04 (not C01/C02) applies to it until an operation that rebuilds.
-/
namespace PQ
open PQ.Crash
variable {P : Type} [LT P] [DecidableLT P] [LE P] [Std.IsLinearPreorder P] [Std.LawfulOrderLT P]

/-- **C10, the operation itself is fault-free** whatever the crash point: no out-of-bounds unchecked access, no panic of
the crate's own code, before the fuse fires or during unwinding. -/
theorem C10_no_model_fault (fuse : Nat) {q : Q P} {op : Op P} (hq : QWF q) (hl : op.Legal) :
    ∀ f, stepF fuse q op ≠ .error (.fault f) :=
  (cr_stepF_wf fuse hq hl).2.2

/-- **C10, the crash state is well-formed** (every crash point of every operation), and so is the state after a normal
return. -/
theorem C10_crash_state_wf (fuse : Nat) {q : Q P} {op : Op P} (hq : QWF q) (hl : op.Legal) :
    (∀ q', stepF fuse q op = .error (.crashed q') → QWF q') ∧ (∀ q' o, stepF fuse q op = .ok (q', o) → QWF q') :=
  ⟨(cr_stepF_wf fuse hq hl).2.1, (cr_stepF_wf fuse hq hl).1⟩

/-- **C10: every crash point of every operation leaves a well-formed queue, from which every continuation is
fault-free.**  `q'` is the queue the caller holds after the caught panic: the crashed queue, or — when the panic happened
while a *fresh* queue was being built (`From<Vec>`, `FromIterator`, `Deserialize`) — the old queue, untouched. -/
theorem C10_crash_then_any_history (fuse : Nat) {q : Q P} {op : Op P} (hq : QWF q) (hl : op.Legal) :
    ∀ q', (stepF fuse q op = .error (.crashed q') ∨ (stepF fuse q op = .error .crashedNew ∧ q' = q)) →
      ∀ ops, (∀ o ∈ ops, o.Legal) → ∃ q'' outs, run q' ops = .ok (q'', outs) ∧ QWF q'' := by
  intro q' hc ops hops
  have hq' : QWF q' := by
    rcases hc with hc | ⟨_, rfl⟩
    · exact (cr_stepF_wf fuse hq hl).2.1 q' hc
    · exact hq
  obtain ⟨q'', outs, h1, _, h3⟩ := C04_from_any_wf ops hq' hops
  exact ⟨q'', outs, h1, h3⟩

/-- the same with `StopQ.survivor`: however the operation stopped, a queue survives and every continuation from it is
fault-free -/
theorem C10_survivor (fuse : Nat) {q : Q P} {op : Op P} (hq : QWF q) (hl : op.Legal) {e : StopQ P}
    (he : stepF fuse q op = .error e) :
    ∃ q', e.survivor q = some q' ∧ QWF q' ∧
      ∀ ops, (∀ o ∈ ops, o.Legal) → ∃ q'' outs, run q' ops = .ok (q'', outs) ∧ QWF q'' := by
  obtain ⟨q', h1, h2⟩ := cr_survivor_wf fuse hq hl he
  refine ⟨q', h1, h2, fun ops hops => ?_⟩
  obtain ⟨q'', outs, h3, _, h4⟩ := C04_from_any_wf ops h2 hops
  exact ⟨q'', outs, h3, h4⟩

/-- **C10, the twins are the plain operations when the fuse does not fire**: a normal return of the fused operation is the
return of C04's `step`. -/
theorem C10_ok_is_plain (fuse : Nat) {q : Q P} {op : Op P} (hq : QWF q) (hl : op.Legal) {r : Q P × Out P}
    (hr : stepF fuse q op = .ok r) : step q op = .ok r :=
  cr_stepF_ok fuse hq hl hr

omit [LE P] [Std.IsLinearPreorder P] [Std.LawfulOrderLT P] in
/-- **C10, erasure**: with the fuse off (`fuse = 0`) every fused operation IS the plain operation — for every queue
(well-formed or not) and every operation (legal or not), faults included.  (The one textual difference between the twins and
the plain model, `push` bumping `size` before instead of after the sift-up, does not show: `bubble_up` neither reads nor
writes `size`, `cr_pq_bubbleUp_size` / `cr_dq_bubbleUp_size`.) -/
theorem C10_fuse_off (q : Q P) (op : Op P) : stepF 0 q op = liftQ q.kind (liftR (step q op)) :=
  cr_stepF_zero q op

/-- **C10, trichotomy**: the fused operation is the plain one, or it crashed into a well-formed queue, or it crashed while
building a fresh queue -/
theorem C10_trichotomy (fuse : Nat) {q : Q P} {op : Op P} (hq : QWF q) (hl : op.Legal) :
    stepF fuse q op = liftQ q.kind (liftR (step q op)) ∨
      (∃ q', stepF fuse q op = .error (.crashed q') ∧ QWF q') ∨ stepF fuse q op = .error .crashedNew :=
  cr_stepF_out fuse hq hl

/-- **C10 from `new()`**: after ANY legal history (leaked guards included) from `new()` of either kind, an operation that
crashes at ANY point performs no faulty access, and whatever queue survives is well-formed and supports every legal
continuation without fault. -/
theorem C10_reachable (k : Kind) (pre : List (Op P)) (hpre : ∀ o ∈ pre, o.Legal) (fuse : Nat) {op : Op P}
    (hl : op.Legal) :
    ∃ q outs, run (Q.new k) pre = .ok (q, outs) ∧ QWF q ∧ (∀ f, stepF fuse q op ≠ .error (.fault f)) ∧
      ∀ q', (stepF fuse q op = .error (.crashed q') ∨ (stepF fuse q op = .error .crashedNew ∧ q' = q)) →
        QWF q' ∧ ∀ ops, (∀ o ∈ ops, o.Legal) → ∃ q'' outs', run q' ops = .ok (q'', outs') ∧ QWF q'' := by
  obtain ⟨q, outs, h1, _, h3⟩ := C04_from_any_wf pre (hist_new_wf k) hpre
  refine ⟨q, outs, h1, h3, C10_no_model_fault fuse h3 hl, fun q' hc => ⟨?_, C10_crash_then_any_history fuse h3 hl q' hc⟩⟩
  rcases hc with hc | ⟨_, rfl⟩
  · exact (cr_stepF_wf fuse h3 hl).2.1 q' hc
  · exact h3

/-- **C10, repeated crashes.**  A whole sequence of legal operations, the `j`-th run with its own arbitrary fuse
(`prog : List (fuse × op)`), continuing from the surviving queue whenever a fuse fires (`runF`): never a model fault, and
the final queue is well-formed — so crash points, sequences of crashes and continuations are all quantified. -/
theorem C10_repeated_crashes (prog : List (Nat × Op P)) {q : Q P} (hq : QWF q) (hl : ∀ x ∈ prog, x.2.Legal) :
    (∃ q' n, runF q prog = .ok (q', n) ∧ QWF q') ∧ ∀ f, runF q prog ≠ .error f := by
  obtain ⟨q', n, h1, h2⟩ := cr_runF_wf prog hq hl
  refine ⟨⟨q', n, h1, h2⟩, fun f hf => ?_⟩
  rw [h1] at hf; cases hf

/-- … from `new()` of either kind -/
theorem C10_repeated_crashes_new (k : Kind) (prog : List (Nat × Op P)) (hl : ∀ x ∈ prog, x.2.Legal) :
    ∃ q' n, runF (Q.new k : Q P) prog = .ok (q', n) ∧ QWF q' :=
  (C10_repeated_crashes prog (hist_new_wf k) hl).1

/-! ## Crashes inside user callbacks -/

/-- **C10, a panicking callback leaves a well-formed queue.**  `stepCb k q op` is `op` in which the `k`-th user callback
(setter of `change_priority_by`, predicate of `pop_if` / `pop_min_if` / `pop_max_if`, `next` of the iterator feeding
`extend` / `from_iter`) panics on entry; `q'` is the queue the real code leaves after unwinding. -/
theorem C10_callback_crash_state_wf {q q' : Q P} {op : Op P} (k : Nat) (hq : QWF q) (hl : op.Legal) :
    stepCb k q op = .error (.crashed q') → QWF q' :=
  cb_crash_state_wf k hq hl

/-- **C10, write-then-panic.**  The panicking setter / predicate may first store an ARBITRARY priority `p` through the
`&mut P` it was handed (`w = some p`; `w = none` is the panic on entry) and only then panic: the crash state has the
priority overwritten in the entry's slot and no re-sift has happened — it is still well-formed (in general not ordered:
see the example below).  No hypothesis on the operation is needed (no callback returns). -/
theorem C10_callback_write_then_crash_state_wf {q q' : Q P} {op : Op P} (k : Nat) (w : Option P) (hq : QWF q) :
    stepCbW k w q op = .error (.crashed q') → QWF q' :=
  cbw_crash_state_wf k w hq

/-- **C10, the operation whose callback panics performs no faulty access of its own** (before the callback is entered or
while unwinding), whichever callback panics and whatever it wrote before. -/
theorem C10_callback_no_model_fault {q : Q P} {op : Op P} (k : Nat) (w : Option P) (hq : QWF q) (hl : op.Legal) :
    ∀ f, stepCbW k w q op ≠ .error (.fault f) :=
  cbw_no_model_fault k w hq hl

/-- **C10: after a caught callback panic every continuation is fault-free.**  `q'` is the queue the caller holds after the
panic: the crashed queue (with the priority the callback may have written, `w`), or — when the source iterator of
`from_iter` panicked while a fresh queue was being built — the old queue, untouched.  From `q'`, (1) every legal history
`ops` (leaked `iter_mut` guards included) runs without any fault and ends well-formed, and (2) so does every program
`prog` of legal operations each carrying its own comparison-crash fuse (`runF`: further crashes, continuing from the
surviving queue each time). -/
theorem C10_callback_crash_then_any_history {q : Q P} {op : Op P} (k : Nat) (w : Option P) (hq : QWF q) :
    ∀ q', (stepCbW k w q op = .error (.crashed q') ∨ (stepCbW k w q op = .error .crashedNew ∧ q' = q)) →
      (∀ ops, (∀ o ∈ ops, o.Legal) → ∃ q'' outs, run q' ops = .ok (q'', outs) ∧ QWF q'') ∧
      (∀ prog : List (Nat × Op P), (∀ x ∈ prog, x.2.Legal) → ∃ q'' n, runF q' prog = .ok (q'', n) ∧ QWF q'') := by
  intro q' hc
  have hq' : QWF q' := by
    rcases hc with hc | ⟨_, rfl⟩
    · exact cbw_crash_state_wf k w hq hc
    · exact hq
  refine ⟨fun ops hops => ?_, fun prog hprog => (C10_repeated_crashes prog hq' hprog).1⟩
  obtain ⟨q'', outs, h1, _, h3⟩ := C04_from_any_wf ops hq' hops
  exact ⟨q'', outs, h1, h3⟩

omit [LE P] [Std.IsLinearPreorder P] [Std.LawfulOrderLT P] in
/-- **C10, callback twins are the plain operations when the fuse does not fire**: with `k = 0`, or when the operation
performs fewer than `k` callbacks (`cbCount`), `stepCb` IS C04's `step` (for every queue and operation, faults included);
and a normal return of `stepCb` is always the return of `step`. -/
theorem C10_callback_fuse_off {k : Nat} {q : Q P} {op : Op P} (h : cbCount q op < k ∨ k = 0) :
    stepCb k q op = liftStep q op :=
  cb_not_fires h

omit [LE P] [Std.IsLinearPreorder P] [Std.LawfulOrderLT P] in
/-- … and a normal return of `stepCb` is the return of `step` -/
theorem C10_callback_ok_is_plain {k : Nat} {q : Q P} {op : Op P} {r : Q P × Out P} (h : stepCb k q op = .ok r) :
    step q op = .ok r :=
  cb_stepCb_ok h

omit [LE P] [Std.IsLinearPreorder P] [Std.LawfulOrderLT P] in
/-- `crashedNew` (a fresh queue dropped) is reported by `from_iter` only -/
theorem C10_callback_crashedNew_only_ctor {k : Nat} {w : Option P} {q : Q P} {op : Op P}
    (h : stepCbW k w q op = .error .crashedNew) : ∃ lo xs, op = .fromIter lo xs :=
  cbw_crashedNew_only_ctor h

/-! ## Non-vacuity -/
section Examples

private def it (k : Nat) : Item := ⟨k, 100 + k⟩
private def v7 : Array (Item × Nat) := #[(it 1, 30), (it 2, 10), (it 3, 70), (it 4, 20), (it 5, 60), (it 6, 50), (it 7, 40)]

/-- the queue of kind `k` built from the seven pairs -/
private def q7 (k : Kind) : Q Nat :=
  match run (Q.new k) [.fromVec v7] with
  | .ok (q, _) => q
  | .error _ => Q.new k

/-- eight elements -/
private def q8 (k : Kind) : Q Nat :=
  match run (q7 k) [.push (it 8) 35] with
  | .ok (q, _) => q
  | .error _ => Q.new k

/-- seventeen new elements with large priorities -/
private def x17 : Array (Item × Nat) := Array.ofFn (n := 17) fun i => (it (20 + i.val), 100 + i.val)

/-- the operation crashed into a queue satisfying `p` -/
private def crashedInto (r : CRQ Nat (Q Nat × Out Nat)) (p : Q Nat → Prop) : Prop :=
  match r with
  | .error (.crashed q') => p q'
  | _ => False

private instance (r : CRQ Nat (Q Nat × Out Nat)) (p : Q Nat → Prop) [DecidablePred p] : Decidable (crashedInto r p) := by
  unfold crashedInto; split <;> infer_instance

private def crashedNewB (r : CRQ Nat (Q Nat × Out Nat)) : Bool :=
  match r with
  | .error .crashedNew => true
  | _ => false

private instance (q : Q Nat) : Decidable (QWF q) := inferInstanceAs (Decidable q.s.WF)

-- the hypotheses: a concrete well-formed (and ordered) 7-element queue of either kind, non-zero comparison counter
example : QWF (q7 .pq) ∧ (q7 .pq).s.size = 7 ∧ (q7 .pq).s.ticks ≠ 0 := by decide +kernel
example : QWF (q7 .dpq) ∧ (q7 .dpq).s.size = 7 := by decide +kernel

-- `push` of a new maximum into the 7-element max-heap, crashing at its 2nd comparison: the crash state is well-formed, has
-- 8 elements (the new element is in, where the hole was), and a `pop` on it runs fine
example : crashedInto (stepF ((q7 .pq).s.ticks + 2) (q7 .pq) (.push (it 8) 99)) (fun q' =>
    QWF q' ∧ q'.s.size = 8 ∧ q'.s.map.size = 8 ∧ q'.s.heap.size = 8 ∧ q'.s.qp.size = 8 ∧
    hist_okR (run q' [.popFront]) (fun r => QWF r.1 ∧ r.1.s.size = 7)) := by decide +kernel
-- the same on the min-max heap (crash in the grandparent loop of `bubble_up_max`)
example : crashedInto (stepF ((q7 .dpq).s.ticks + 2) (q7 .dpq) (.push (it 8) 99)) (fun q' =>
    QWF q' ∧ q'.s.size = 8 ∧
    hist_okR (run q' [.popBack, .popFront]) (fun r => QWF r.1 ∧ r.1.s.size = 6)) := by decide +kernel
-- a crash in the sift-down of `pop`: the entry is gone, 6 elements, well-formed, and usable
example : crashedInto (stepF ((q7 .pq).s.ticks + 3) (q7 .pq) .popFront) (fun q' =>
    QWF q' ∧ q'.s.size = 6 ∧ hist_okR (run q' [.push (it 9) 5, .popFront, .popFront]) (fun r => QWF r.1)) := by
  decide +kernel
-- a constructor that crashes drops the fresh queue: `crashedNew`, the old queue is the survivor
example : crashedNewB (stepF 2 (q7 .pq) (.fromVec v7)) = true := by decide +kernel
-- `From<other kind>` crashes into a well-formed queue of the target kind
example : crashedInto (stepF ((q7 .pq).s.ticks + 2) (q7 .pq) .convert) (fun q' =>
    QWF q' ∧ q'.kind = .dpq ∧ q'.s.size = 7) := by decide +kernel
-- with the fuse off (or beyond the operation's comparisons) nothing crashes: the plain result
private def sameOk (x : CRQ Nat (Q Nat × Out Nat)) (y : R (Q Nat × Out Nat)) : Prop :=
  match x, y with
  | .ok a, .ok b => a.1.s.map = b.1.s.map ∧ a.1.s.heap = b.1.s.heap ∧ a.1.s.qp = b.1.s.qp ∧ a.1.s.size = b.1.s.size ∧
      a.1.s.ticks = b.1.s.ticks
  | _, _ => False
private instance (x : CRQ Nat (Q Nat × Out Nat)) (y : R (Q Nat × Out Nat)) : Decidable (sameOk x y) := by
  unfold sameOk; split <;> infer_instance
example : sameOk (stepF 0 (q7 .pq) (.push (it 8) 99)) (step (q7 .pq) (.push (it 8) 99)) := by decide +kernel
example : sameOk (stepF ((q7 .dpq).s.ticks + 5) (q7 .dpq) (.push (it 8) 99)) (step (q7 .dpq) (.push (it 8) 99)) := by
  decide +kernel

/-- a sequence with four fuses (push, pop, change_priority, From<Vec>; on the max-heap all four fire) and operations in between -/
private def exProg (q : Q Nat) : List (Nat × Op Nat) :=
  [(q.s.ticks + 2, .push (it 8) 99), (0, .push (it 9) 1), (q.s.ticks + 4, .popFront), (0, .popBack),
   (q.s.ticks + 5, .changePriority 5 1), (3, .fromVec v7), (0, .remove 6), (0, .popFront)]

private def okF (r : Except Fault (Q Nat × Nat)) (p : Q Nat × Nat → Prop) : Prop :=
  match r with
  | .ok x => p x
  | .error _ => False

private instance (r : Except Fault (Q Nat × Nat)) (p : Q Nat × Nat → Prop) [DecidablePred p] : Decidable (okF r p) := by
  unfold okF; split <;> infer_instance

example : ∀ x ∈ exProg (q7 .pq), x.2.Legal := by
  intro x hx
  simp only [exProg, List.mem_cons, List.not_mem_nil, or_false] at hx
  rcases hx with h | h | h | h | h | h | h | h <;> subst h <;> exact trivial
-- `C10_repeated_crashes` on it: four crashes did happen, no fault, well-formed at the end (both kinds)
example : okF (runF (q7 .pq) (exProg (q7 .pq))) (fun r => QWF r.1 ∧ r.2 = 4) := by decide +kernel
example : okF (runF (q7 .dpq) (exProg (q7 .dpq))) (fun r => QWF r.1 ∧ r.2 = 3) := by decide +kernel

/-! ### callback crashes -/

-- `C10_callback_crash_state_wf`: the setter of `change_priority_by` panics on entry (the item is present, so the setter IS
-- called): crashed, the queue is as it was, still ordered
example : crashedInto (stepCb 1 (q7 .pq) (.changePriorityBy 3 (· + 1))) (fun q' =>
    QWF q' ∧ q'.s.size = 7 ∧ q'.s.map = (q7 .pq).s.map ∧ MaxQ.Inv q'.s) := by decide +kernel
-- the source iterator of `extend` panics at its 3rd `next` under the rebuild strategy (an 8-element queue and a source
-- announcing — and yielding — 17 elements): two elements have been absorbed by `Store::extend`, `heap_build` did not run:
-- well-formed, 10 elements, NOT ordered — and usable
example : (q8 .pq).s.size = 8 ∧ Arith.betterToRebuild 8 17 = true ∧ x17.size = 17 := by decide +kernel
example : crashedInto (stepCb 3 (q8 .pq) (.extend 17 x17)) (fun q' =>
    QWF q' ∧ q'.s.size = 10 ∧ ¬ MaxQ.Inv q'.s ∧
    hist_okR (run q' [.popFront, .push (it 11) 3, .popFront]) (fun r => QWF r.1 ∧ r.1.s.size = 9)) := by decide +kernel
-- … and under the push strategy (lower bound 0) on the min-max heap: two complete pushes
example : crashedInto (stepCb 3 (q7 .dpq) (.extend 0 #[(it 8, 99), (it 9, 98), (it 10, 97)])) (fun q' =>
    QWF q' ∧ q'.s.size = 9 ∧ q'.s.getPriority 9 = some 98 ∧ q'.s.getPriority 10 = none) := by decide +kernel
-- `from_iter`: the fresh queue is dropped
example : crashedNewB (stepCb 2 (q7 .pq) (.fromIter 2 #[(it 8, 99), (it 9, 98)])) = true := by decide +kernel
-- an announced lower bound ≥ 2^61 is the capacity panic of the plain operation: the source iterator is never asked, no
-- callback crash can happen
example : (match stepCb 1 (q7 .pq) (.extend (2 ^ 61) #[(it 8, 99)]) with | .error (.fault .capacity) => true | _ => false) = true ∧
    cbCount (q7 .pq) (.extend (2 ^ 61) #[(it 8, 99)]) = 0 := by decide +kernel
-- `C10_callback_write_then_crash_state_wf`: the predicate of `pop_if` stores priority 0 into the maximum and panics: the
-- element is still there, at the root, with priority 0: well-formed, NOT ordered
example : crashedInto (stepCbW 1 (some 0) (q7 .pq) (.popFrontIf (fun i p => (true, i, p)))) (fun q' =>
    QWF q' ∧ q'.s.size = 7 ∧ MaxQ.peek q'.s = some (it 3, 0) ∧ ¬ MaxQ.Inv q'.s) := by decide +kernel
-- the same for `pop_max_if` of the min-max heap (after `find_max`) and for the setter of `change_priority_by`
example : crashedInto (stepCbW 1 (some 0) (q7 .dpq) (.popBackIf (fun i p => (true, i, p)))) (fun q' =>
    QWF q' ∧ q'.s.size = 7 ∧ q'.s.getPriority 3 = some 0 ∧ q'.s.heap = (q7 .dpq).s.heap ∧
    (DQ.peekMax q'.s).toOption.map (·.2) = some (some (it 5, 60))) := by decide +kernel
example : crashedInto (stepCbW 1 (some 1000) (q7 .dpq) (.changePriorityBy 2 id)) (fun q' =>
    QWF q' ∧ q'.s.getPriority 2 = some 1000 ∧ q'.s.heap = (q7 .dpq).s.heap ∧
    (DQ.peekMin q'.s).toOption = some (some (it 2, 1000))) := by decide +kernel
-- `C10_callback_crash_then_any_history`: a history with a leaked guard, and a program with further comparison crashes,
-- both from the disordered queue a write-then-panic predicate left
example : crashedInto (stepCbW 1 (some 0) (q7 .pq) (.popFrontIf (fun i p => (true, i, p)))) (fun q' =>
    hist_okR (run q' [.popFront, .iterMut true [(.next, ⟨some 500, none⟩)], .push (it 8) 5, .popFront, .remove 2])
      (fun r => QWF r.1 ∧ r.1.s.size = 5) ∧
    okF (runF q' (exProg q')) (fun r => QWF r.1 ∧ 0 < r.2)) := by decide +kernel
-- beyond the operation's callbacks the fuse does not fire: the plain result (hypothesis of `C10_callback_fuse_off`)
example : cbCount (q7 .pq) (.changePriorityBy 3 (· + 1)) < 2 := by decide +kernel
example : sameOk (stepCb 2 (q7 .pq) (.changePriorityBy 3 (· + 1))) (step (q7 .pq) (.changePriorityBy 3 (· + 1))) := by
  decide +kernel

end Examples

end PQ

#print axioms PQ.C10_no_model_fault
#print axioms PQ.C10_crash_state_wf
#print axioms PQ.C10_crash_then_any_history
#print axioms PQ.C10_survivor
#print axioms PQ.C10_ok_is_plain
#print axioms PQ.C10_fuse_off
#print axioms PQ.C10_trichotomy
#print axioms PQ.C10_reachable
#print axioms PQ.C10_repeated_crashes
#print axioms PQ.C10_repeated_crashes_new
#print axioms PQ.C10_callback_crash_state_wf
#print axioms PQ.C10_callback_write_then_crash_state_wf
#print axioms PQ.C10_callback_no_model_fault
#print axioms PQ.C10_callback_crash_then_any_history
#print axioms PQ.C10_callback_fuse_off
#print axioms PQ.C10_callback_ok_is_plain
#print axioms PQ.C10_callback_crashedNew_only_ctor
