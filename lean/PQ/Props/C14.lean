import PQ.Lemmas.IMapLemmas
/-!
# C14 — equality of queues is equality of contents

"Two queues of the same kind compare equal iff they hold the same set of (item, priority) pairs,
regardless of the histories that produced them, their internal arrangement, capacity or hasher state;
equality is reflexive, symmetric and transitive."

The crate's `PartialEq` is modelled by `Store.eqv a b = IMap.eqv a.map b.map` (IndexMap equality: same
length and every entry of the left is found *by key* in the right with an equal priority).  Items are
compared by `key` only, exactly like the Rust `Eq` of the items (payloads take no part in `Eq`/`Hash`).
Hence "the same set of (item, priority) pairs" is: every key is bound to the same priority on both sides
(or to none on both sides), which is `∀ k, (lookup a k).map (·.2) = (lookup b k).map (·.2)`;
`C14_eqv_iff_pairs` restates it as equality of the sets `{(key, priority)}` of stored entries.
Neither `heap`, `qp`, `size`, `ticks` (internal arrangement) nor the slot order of the map (history)
appears on the right-hand side; capacity and hasher state do not exist in the model at all.

`NoDupKeys` (part of `Store.WF`) is necessary: see `C14_refl_needs_noDup`.
-/
namespace PQ
open IMap
variable {P : Type}

/-! ## Pigeonhole on duplicate-free lists -/

/-- a duplicate-free list contained in another list is not longer; if the other one is duplicate-free and
not longer either, the two have the same elements -/
theorem C14_aux_pigeonhole {l₁ : List Nat} : ∀ {l₂ : List Nat}, l₁.Nodup → l₁ ⊆ l₂ →
    l₁.length ≤ l₂.length ∧ (l₂.Nodup → l₂.length ≤ l₁.length → l₂ ⊆ l₁) := by
  induction l₁ with
  | nil =>
    intro l₂ _ _
    refine ⟨Nat.zero_le _, ?_⟩
    intro _ hlen
    have : l₂ = [] := List.eq_nil_of_length_eq_zero (Nat.le_zero.1 hlen)
    subst this; exact List.Subset.refl _
  | cons a l ih =>
    intro l₂ hnd hsub
    rw [List.nodup_cons] at hnd
    obtain ⟨hal, hndl⟩ := hnd
    have ha2 : a ∈ l₂ := hsub List.mem_cons_self
    have hsub' : l ⊆ l₂.erase a := by
      intro x hx
      have hxa : x ≠ a := fun h => hal (h ▸ hx)
      exact (List.mem_erase_of_ne hxa).2 (hsub (List.mem_cons_of_mem _ hx))
    have hlen : (l₂.erase a).length = l₂.length - 1 := List.length_erase_of_mem ha2
    have hpos : 0 < l₂.length := List.length_pos_of_mem ha2
    obtain ⟨ih1, ih2⟩ := ih hndl hsub'
    refine ⟨by simp only [List.length_cons]; omega, ?_⟩
    intro hnd2 hlen2
    simp only [List.length_cons] at hlen2
    have := ih2 (hnd2.erase a) (by omega)
    intro x hx
    by_cases hxa : x = a
    · subst hxa; exact List.mem_cons_self
    · exact List.mem_cons_of_mem _ (this ((List.mem_erase_of_ne hxa).2 hx))

/-- the keys of a map, in slot order -/
def IMap.keys (m : IMap P) : List Nat := m.toList.map (·.1.key)

theorem IMap.mem_keys_iff {m : IMap P} {k : Nat} :
    k ∈ IMap.keys m ↔ ∃ (i : Nat) (e : Item × P), m[i]? = some e ∧ e.1.key = k := by
  unfold IMap.keys
  rw [List.mem_map]
  constructor
  · rintro ⟨e, he, hk⟩
    obtain ⟨i, hi⟩ := Array.mem_iff_getElem?.1 (Array.mem_toList_iff.1 he)
    exact ⟨i, e, hi, hk⟩
  · rintro ⟨i, e, hi, hk⟩
    exact ⟨e, Array.mem_toList_iff.2 (Array.mem_iff_getElem?.2 ⟨i, hi⟩), hk⟩

theorem IMap.mem_keys_iff_lookup {m : IMap P} {k : Nat} :
    k ∈ IMap.keys m ↔ (lookup m k).isSome = true := by
  rw [IMap.mem_keys_iff, lookup_isSome_eq_contains, contains_eq_true_iff]

theorem IMap.length_keys (m : IMap P) : (IMap.keys m).length = m.size := by
  unfold IMap.keys; simp

/-! ## What `IMap.eqv` computes -/

/-- `eqv` unfolded: same size, and every entry of the left has its key bound to the same priority on the right -/
theorem IMap.eqv_iff_forall [DecidableEq P] {a b : IMap P} :
    IMap.eqv a b = true ↔
      a.size = b.size ∧
        ∀ (i : Nat) (e : Item × P), a[i]? = some e → (lookup b e.1.key).map (·.2) = some e.2 := by
  unfold IMap.eqv
  rw [Bool.and_eq_true, beq_iff_eq, Array.all_eq_true_iff_forall_mem]
  have hentry : ∀ e : Item × P,
      ((match getFull b e.1.key with
        | some (_, _, q) => decide (e.2 = q)
        | none => false) = true) ↔ (lookup b e.1.key).map (·.2) = some e.2 := by
    intro e
    rw [← getFull_map_eq_lookup]
    cases getFull b e.1.key with
    | none => simp
    | some r =>
      obtain ⟨i, it, q⟩ := r
      simp only [decide_eq_true_eq, Option.map_some, Option.some.injEq]
      exact eq_comm
  constructor
  · rintro ⟨hs, hall⟩
    refine ⟨hs, ?_⟩
    intro i e he
    exact (hentry e).1 (hall e (Array.mem_iff_getElem?.2 ⟨i, he⟩))
  · rintro ⟨hs, hall⟩
    refine ⟨hs, ?_⟩
    intro e he
    obtain ⟨i, hi⟩ := Array.mem_iff_getElem?.1 he
    exact (hentry e).2 (hall i e hi)

/-! ## C14: the main equivalence -/

/-- **C14** (map level): under unique keys, the crate's equality holds iff every key is bound to the same
priority on both sides.  The `→` direction needs the pigeonhole principle (equal sizes + an injection of
the key sets ⇒ equal key sets). -/
theorem C14_eqv_iff [DecidableEq P] {a b : IMap P} (ha : NoDupKeys a) (hb : NoDupKeys b) :
    IMap.eqv a b = true ↔ ∀ k, (lookup a k).map (·.2) = (lookup b k).map (·.2) := by
  rw [IMap.eqv_iff_forall]
  have nda : (IMap.keys a).Nodup := noDupKeys_iff_nodup.1 ha
  have ndb : (IMap.keys b).Nodup := noDupKeys_iff_nodup.1 hb
  constructor
  · rintro ⟨hs, hall⟩ k
    have hsub : IMap.keys a ⊆ IMap.keys b := by
      intro k' hk'
      obtain ⟨i, e, he, hk⟩ := IMap.mem_keys_iff.1 hk'
      rw [IMap.mem_keys_iff_lookup]
      have := hall i e he
      rw [hk] at this
      cases hl : lookup b k' with
      | none => rw [hl] at this; cases this
      | some x => rfl
    have hsub' : IMap.keys b ⊆ IMap.keys a :=
      (C14_aux_pigeonhole nda hsub).2 ndb (by rw [IMap.length_keys, IMap.length_keys, hs]; exact Nat.le_refl _)
    cases hla : lookup a k with
    | some e =>
      obtain ⟨i, he, hk⟩ := (lookup_eq_some_iff ha).1 hla
      have := hall i e he
      rw [hk] at this
      rw [this]; rfl
    | none =>
      cases hlb : lookup b k with
      | none => rfl
      | some x =>
        have : k ∈ IMap.keys b := by rw [IMap.mem_keys_iff_lookup, hlb]; rfl
        have := hsub' this
        rw [IMap.mem_keys_iff_lookup, hla] at this
        cases this
  · intro h
    have hsub : ∀ {x y : IMap P}, (∀ k, (lookup x k).map (·.2) = (lookup y k).map (·.2)) →
        IMap.keys x ⊆ IMap.keys y := by
      intro x y hxy k hk
      rw [IMap.mem_keys_iff_lookup] at hk ⊢
      have := hxy k
      cases hx : lookup x k with
      | none => rw [hx] at hk; cases hk
      | some e =>
        rw [hx] at this
        cases hy : lookup y k with
        | none => rw [hy] at this; cases this
        | some e' => rfl
    have h1 := (C14_aux_pigeonhole nda (hsub h)).1
    have h2 := (C14_aux_pigeonhole ndb (hsub (fun k => (h k).symm))).1
    rw [IMap.length_keys, IMap.length_keys] at h1 h2
    refine ⟨Nat.le_antisymm h1 h2, ?_⟩
    intro i e he
    rw [← h e.1.key, lookup_of_getElem? ha he]; rfl

/-- the priority bound to key `k`, in `getElem?` terms -/
theorem IMap.lookup_prio_eq_some_iff {m : IMap P} (hm : NoDupKeys m) {k : Nat} {p : P} :
    (lookup m k).map (·.2) = some p ↔ ∃ (i : Nat) (e : Item × P), m[i]? = some e ∧ e.1.key = k ∧ e.2 = p := by
  rw [Option.map_eq_some_iff]
  constructor
  · rintro ⟨e, he, hp⟩
    obtain ⟨i, hi, hk⟩ := (lookup_eq_some_iff hm).1 he
    exact ⟨i, e, hi, hk, hp⟩
  · rintro ⟨i, e, hi, hk, hp⟩
    exact ⟨e, (lookup_eq_some_iff hm).2 ⟨i, hi, hk⟩, hp⟩

/-- **C14** (set-of-pairs form): equality holds iff the two maps store the same set of
(key, priority) pairs — slot positions (`i`, `j`) are existentially quantified away on both sides. -/
theorem C14_eqv_iff_pairs [DecidableEq P] {a b : IMap P} (ha : NoDupKeys a) (hb : NoDupKeys b) :
    IMap.eqv a b = true ↔
      ∀ (k : Nat) (p : P),
        (∃ (i : Nat) (e : Item × P), a[i]? = some e ∧ e.1.key = k ∧ e.2 = p) ↔
        (∃ (j : Nat) (e : Item × P), b[j]? = some e ∧ e.1.key = k ∧ e.2 = p) := by
  rw [C14_eqv_iff ha hb]
  constructor
  · intro h k p
    rw [← IMap.lookup_prio_eq_some_iff ha, ← IMap.lookup_prio_eq_some_iff hb, h k]
  · intro h k
    apply Option.ext
    intro p
    rw [IMap.lookup_prio_eq_some_iff ha, IMap.lookup_prio_eq_some_iff hb]
    exact h k p

/-- `Store.eqv` reads nothing but the two maps: heap order, position table, size counter and comparison
counter of either side are irrelevant (definitionally). -/
theorem C14_store_eqv_only_map [DecidableEq P] (s t : Store P)
    (h₁ h₂ q₁ q₂ : Array Nat) (n₁ n₂ c₁ c₂ : Nat) :
    Store.eqv { map := s.map, heap := h₁, qp := q₁, size := n₁, ticks := c₁ }
              { map := t.map, heap := h₂, qp := q₂, size := n₂, ticks := c₂ } = Store.eqv s t := rfl

/-- **C14** for queues, assuming only unique keys in the two maps -/
theorem C14_store_eqv_iff_of_noDup [DecidableEq P] {s t : Store P}
    (hs : NoDupKeys s.map) (ht : NoDupKeys t.map) :
    Store.eqv s t = true ↔ ∀ k, (lookup s.map k).map (·.2) = (lookup t.map k).map (·.2) :=
  C14_eqv_iff hs ht

/-- **C14** for well-formed queues: they compare equal iff every key has the same priority (or none) in
both; `heap`, `qp`, `size`, `ticks` and the slot order of the maps do not occur on the right. -/
theorem C14_store_eqv_iff [DecidableEq P] {s t : Store P} (hs : s.WF) (ht : t.WF) :
    Store.eqv s t = true ↔ ∀ k, (lookup s.map k).map (·.2) = (lookup t.map k).map (·.2) :=
  C14_eqv_iff hs.nodup ht.nodup

/-- **C14** for well-formed queues, set-of-pairs form (`Store.Mem s e` is `∃ i, s.map[i]? = some e`) -/
theorem C14_store_eqv_iff_pairs [DecidableEq P] {s t : Store P} (hs : s.WF) (ht : t.WF) :
    Store.eqv s t = true ↔
      ∀ (k : Nat) (p : P),
        (∃ e, s.Mem e ∧ e.1.key = k ∧ e.2 = p) ↔ (∃ e, t.Mem e ∧ e.1.key = k ∧ e.2 = p) := by
  unfold Store.eqv
  rw [C14_eqv_iff_pairs hs.nodup ht.nodup]
  constructor
  · intro h k p
    constructor
    · rintro ⟨e, ⟨i, hi⟩, hk, hp⟩
      obtain ⟨j, e', hj, hk', hp'⟩ := (h k p).1 ⟨i, e, hi, hk, hp⟩
      exact ⟨e', ⟨j, hj⟩, hk', hp'⟩
    · rintro ⟨e, ⟨i, hi⟩, hk, hp⟩
      obtain ⟨j, e', hj, hk', hp'⟩ := (h k p).2 ⟨i, e, hi, hk, hp⟩
      exact ⟨e', ⟨j, hj⟩, hk', hp'⟩
  · intro h k p
    constructor
    · rintro ⟨i, e, hi, hk, hp⟩
      obtain ⟨e', ⟨j, hj⟩, hk', hp'⟩ := (h k p).1 ⟨e, ⟨i, hi⟩, hk, hp⟩
      exact ⟨j, e', hj, hk', hp'⟩
    · rintro ⟨i, e, hi, hk, hp⟩
      obtain ⟨e', ⟨j, hj⟩, hk', hp'⟩ := (h k p).2 ⟨e, ⟨i, hi⟩, hk, hp⟩
      exact ⟨j, e', hj, hk', hp'⟩

/-! ## Equivalence relation -/

theorem C14_refl [DecidableEq P] {a : IMap P} (ha : NoDupKeys a) : IMap.eqv a a = true :=
  (C14_eqv_iff ha ha).2 fun _ => rfl

theorem C14_symm [DecidableEq P] {a b : IMap P} (ha : NoDupKeys a) (hb : NoDupKeys b)
    (h : IMap.eqv a b = true) : IMap.eqv b a = true :=
  (C14_eqv_iff hb ha).2 fun k => ((C14_eqv_iff ha hb).1 h k).symm

/-- symmetry as an equation between the two Boolean results -/
theorem C14_symm_eq [DecidableEq P] {a b : IMap P} (ha : NoDupKeys a) (hb : NoDupKeys b) :
    IMap.eqv a b = IMap.eqv b a := by
  rw [Bool.eq_iff_iff]
  exact ⟨C14_symm ha hb, C14_symm hb ha⟩

theorem C14_trans [DecidableEq P] {a b c : IMap P} (ha : NoDupKeys a) (hb : NoDupKeys b) (hc : NoDupKeys c)
    (hab : IMap.eqv a b = true) (hbc : IMap.eqv b c = true) : IMap.eqv a c = true :=
  (C14_eqv_iff ha hc).2 fun k => ((C14_eqv_iff ha hb).1 hab k).trans ((C14_eqv_iff hb hc).1 hbc k)

theorem C14_store_refl [DecidableEq P] {s : Store P} (hs : s.WF) : Store.eqv s s = true :=
  C14_refl hs.nodup

theorem C14_store_symm [DecidableEq P] {s t : Store P} (hs : s.WF) (ht : t.WF)
    (h : Store.eqv s t = true) : Store.eqv t s = true :=
  C14_symm hs.nodup ht.nodup h

theorem C14_store_trans [DecidableEq P] {s t u : Store P} (hs : s.WF) (ht : t.WF) (hu : u.WF)
    (hst : Store.eqv s t = true) (htu : Store.eqv t u = true) : Store.eqv s u = true :=
  C14_trans hs.nodup ht.nodup hu.nodup hst htu

/-- Without unique keys even reflexivity fails (so `NoDupKeys`, which `Store.WF` provides, is a necessary
hypothesis and not an artefact of the proof). -/
theorem C14_refl_needs_noDup :
    IMap.eqv (#[(⟨1, 0⟩, 5), (⟨1, 0⟩, 6)] : IMap Nat) #[(⟨1, 0⟩, 5), (⟨1, 0⟩, 6)] = false := by
  decide +kernel

/-! ## Non-vacuity: concrete queues

`qA` and `qB` are produced by the model of the crate's own operations through *different histories*
(different insertion order, different payloads, an extra element pushed and removed again, a priority
changed afterwards).  They end up with different slot orders, different heap arrangements and different
comparison counters, yet compare equal; `qC` differs from `qA` in one priority and compares unequal.
(`decide +kernel`: `find?` is `Array.findIdx?`, defined by well-founded recursion, on which the elaborator's
`decide` gets stuck while the kernel evaluates it; no axiom is involved.) -/
section Examples

private def run (r : R (Store Nat)) : Store Nat :=
  match r with
  | .ok s => s
  | .error _ => Store.empty

private def qA : Store Nat :=
  run (MaxQ.pushAll [(⟨1, 10⟩, 5), (⟨2, 20⟩, 7), (⟨3, 30⟩, 6)] Store.empty)

private def qB : Store Nat := run (do
  let s ← MaxQ.pushAll [(⟨3, 31⟩, 1), (⟨4, 0⟩, 9), (⟨2, 21⟩, 7), (⟨1, 11⟩, 5)] Store.empty
  let (s, _) ← MaxQ.remove s 4
  let (s, _) ← MaxQ.changePriority s 3 6
  pure s)

private def qC : Store Nat :=
  run (MaxQ.pushAll [(⟨1, 10⟩, 5), (⟨2, 20⟩, 8), (⟨3, 30⟩, 6)] Store.empty)

/-- the concrete states (so that the reader sees they are non-trivial and differently arranged) -/
example : qA.map = #[(⟨1, 10⟩, 5), (⟨2, 20⟩, 7), (⟨3, 30⟩, 6)] ∧ qA.heap = #[1, 0, 2] ∧ qA.qp = #[1, 0, 2] ∧
    qA.size = 3 ∧ qA.ticks = 2 := by decide +kernel
example : qB.map = #[(⟨3, 31⟩, 6), (⟨1, 11⟩, 5), (⟨2, 21⟩, 7)] ∧ qB.heap = #[2, 1, 0] ∧ qB.qp = #[2, 1, 0] ∧
    qB.size = 3 ∧ qB.ticks = 7 := by decide +kernel

/-- same contents, different histories / slot orders / heap arrangement / payloads: equal -/
example : Store.eqv qA qB = true ∧ Store.eqv qB qA = true := by decide +kernel
/-- one priority off: unequal (both ways) -/
example : Store.eqv qA qC = false ∧ Store.eqv qC qA = false := by decide +kernel
/-- one element more or less: unequal -/
example : Store.eqv qA (run (do let (s, _) ← MaxQ.pop qB; pure s)) = false := by decide +kernel
/-- the same on two hand-written maps, by plain map-level evaluation -/
example : IMap.eqv (#[(⟨1, 0⟩, 5), (⟨2, 0⟩, 7)] : IMap Nat) #[(⟨2, 9⟩, 7), (⟨1, 9⟩, 5)] = true ∧
    IMap.eqv (#[(⟨1, 0⟩, 5), (⟨2, 0⟩, 7)] : IMap Nat) #[(⟨2, 9⟩, 7), (⟨1, 9⟩, 6)] = false := by decide +kernel

/-- the hypotheses of `C14_eqv_iff`, `C14_refl`, `C14_symm`, `C14_trans` are satisfiable -/
example : NoDupKeys qA.map ∧ NoDupKeys qB.map ∧ NoDupKeys qC.map := by decide +kernel

private theorem wf3 {s : Store Nat} (h0 : s.size = 3) (hm : s.map.size = 3) (hh : s.heap.size = 3)
    (hq : s.qp.size = 3) (hn : NoDupKeys s.map)
    (hhq : (∃ i, s.heap[0]? = some i ∧ s.qp[i]? = some 0) ∧ (∃ i, s.heap[1]? = some i ∧ s.qp[i]? = some 1) ∧
      (∃ i, s.heap[2]? = some i ∧ s.qp[i]? = some 2))
    (hqh : (∃ p, s.qp[0]? = some p ∧ s.heap[p]? = some 0) ∧ (∃ p, s.qp[1]? = some p ∧ s.heap[p]? = some 1) ∧
      (∃ p, s.qp[2]? = some p ∧ s.heap[p]? = some 2)) : s.WF where
  map_size := by omega
  heap_size := by omega
  qp_size := by omega
  nodup := hn
  heap_qp := by
    intro p hp
    have : p = 0 ∨ p = 1 ∨ p = 2 := by omega
    rcases this with rfl | rfl | rfl
    · exact hhq.1
    · exact hhq.2.1
    · exact hhq.2.2
  qp_heap := by
    intro i hi
    have : i = 0 ∨ i = 1 ∨ i = 2 := by omega
    rcases this with rfl | rfl | rfl
    · exact hqh.1
    · exact hqh.2.1
    · exact hqh.2.2

/-- the hypotheses of `C14_store_eqv_iff` and of the `C14_store_*` theorems are satisfiable by these states -/
example : qA.WF ∧ qB.WF := by
  refine ⟨wf3 (by decide +kernel) (by decide +kernel) (by decide +kernel) (by decide +kernel) (by decide +kernel)
      ⟨⟨1, by decide +kernel, by decide +kernel⟩, ⟨0, by decide +kernel, by decide +kernel⟩,
        ⟨2, by decide +kernel, by decide +kernel⟩⟩
      ⟨⟨1, by decide +kernel, by decide +kernel⟩, ⟨0, by decide +kernel, by decide +kernel⟩,
        ⟨2, by decide +kernel, by decide +kernel⟩⟩,
    wf3 (by decide +kernel) (by decide +kernel) (by decide +kernel) (by decide +kernel) (by decide +kernel)
      ⟨⟨2, by decide +kernel, by decide +kernel⟩, ⟨1, by decide +kernel, by decide +kernel⟩,
        ⟨0, by decide +kernel, by decide +kernel⟩⟩
      ⟨⟨2, by decide +kernel, by decide +kernel⟩, ⟨1, by decide +kernel, by decide +kernel⟩,
        ⟨0, by decide +kernel, by decide +kernel⟩⟩⟩

/-- the right-hand side of `C14_eqv_iff` on the concrete states, evaluated key by key -/
example : ∀ k, k < 6 → (lookup qA.map k).map (·.2) = (lookup qB.map k).map (·.2) := by decide +kernel
example : (lookup qA.map 2).map (·.2) ≠ (lookup qC.map 2).map (·.2) := by decide +kernel

end Examples

end PQ

#print axioms PQ.C14_eqv_iff
#print axioms PQ.C14_eqv_iff_pairs
#print axioms PQ.C14_store_eqv_only_map
#print axioms PQ.C14_store_eqv_iff_of_noDup
#print axioms PQ.C14_store_eqv_iff
#print axioms PQ.C14_store_eqv_iff_pairs
#print axioms PQ.C14_refl
#print axioms PQ.C14_symm
#print axioms PQ.C14_symm_eq
#print axioms PQ.C14_trans
#print axioms PQ.C14_store_refl
#print axioms PQ.C14_store_symm
#print axioms PQ.C14_store_trans
#print axioms PQ.C14_refl_needs_noDup
