import PQ.Props.C06
import PQ.Props.C01
import PQ.Props.C02
/-!
# C06, supplement: sorted consumption after EVERY history; the head of the sorted output is what `peek` reports

`PQ/Props/C06.lean` states the sorted consumers for every state satisfying the queue invariant and refers to C01 / C02
for the reachability of that invariant.  This file composes the two, so that the property is one theorem about
histories of public operations, with no invariant in its hypotheses:

* `C06_after_history`: from any queue satisfying the invariant of its kind (in particular `new()`,
  `C06_after_history_new`), after every history of legal operations without a leaked guard — conversions between the
  kinds included — if the queue reached is a `PriorityQueue`, `into_sorted_vec` is a permutation of the stored entries
  in non-increasing priority order and `n` calls of `into_sorted_iter().next()` answer its first `n` entries and then
  `None`, for every `n`; if it is a `DoublePriorityQueue`, the ascending / descending sorted vectors are permutations in
  non-decreasing / non-increasing order and the double-ended sorted iterator satisfies the statement of `C06_dpq_deque`
  for EVERY interleaving of `next` / `next_back`.
* `C06_pq_head_is_peek`: the first entry of `into_sorted_vec` (= the first answer of the sorted iterator) is exactly the
  entry `peek` reports (not merely one of equal priority), `None` for both on the empty queue; so sorted consumption
  starts with the element C01 is about.
* `C06_dpq_ends_are_peeks`: the first entry of `into_ascending_sorted_vec` is the entry `peek_min` reports, the first
  entry of `into_descending_sorted_vec` the entry `peek_max` reports.
-/
namespace PQ
open Store
variable {P : Type} [LT P] [DecidableLT P] [LE P] [Std.IsLinearPreorder P] [Std.LawfulOrderLT P]

/-- **C06 over histories.**  No invariant is assumed of the state consumed: it is whatever a legal, leak-free history of
public operations reaches from a queue satisfying the invariant of its kind. -/
theorem C06_after_history (ops : List (Op P)) {q : Q P} (hq : QInv q) (hl : ∀ op ∈ ops, op.Legal)
    (hn : ∀ op ∈ ops, op.isLeak = false) :
    ∃ q' outs, run q ops = .ok (q', outs) ∧
      (q'.kind = .pq →
        ∃ l, MaxQ.intoSortedVec q'.s = .ok l ∧ l.Perm q'.s.map.toList ∧ l.length = q'.s.size ∧
          (l.map (·.1.key)).Nodup ∧ l.Pairwise (fun a b => ¬ a.2 < b.2) ∧
          ∀ n, ∃ s', bp_popCalls n q'.s = .ok ((l.take n).map some ++ List.replicate (n - l.length) none, s') ∧
            s'.size = q'.s.size - n) ∧
      (q'.kind = .dpq →
        (∃ l, DQ.intoAscendingSortedVec q'.s = .ok l ∧ l.Perm q'.s.map.toList ∧ l.length = q'.s.size ∧
          (l.map (·.1.key)).Nodup ∧ l.Pairwise (fun a b => ¬ b.2 < a.2)) ∧
        (∃ l, DQ.intoDescendingSortedVec q'.s = .ok l ∧ l.Perm q'.s.map.toList ∧ l.length = q'.s.size ∧
          (l.map (·.1.key)).Nodup ∧ l.Pairwise (fun a b => ¬ a.2 < b.2)) ∧
        ∀ calls : List Bool, ∃ outs' s', DQ.sortedCalls calls q'.s = .ok (outs', s') ∧ outs'.length = calls.length ∧
          ((outs'.filterMap id).map (·.1.key)).Nodup ∧
          DQ.SortedRun DQ.ExtremeQ q'.s.abs calls outs' s'.abs ∧
          s'.size = q'.s.size - (outs'.filterMap id).length ∧
          (outs'.filterMap id).length = min q'.s.size calls.length) := by
  obtain ⟨q', outs, hrun, _, _, hpq⟩ := C01_reach ops hq hl hn
  obtain ⟨q'', outs'', hrun', _, _, hdq⟩ := C02_reach ops hq hl hn
  rw [hrun] at hrun'
  cases hrun'
  refine ⟨q', outs, hrun, fun hk => ?_, fun hk => ?_⟩
  · have h := hpq hk
    obtain ⟨l, h1, h2, h3, _, h5, h6⟩ := C06_pq_sorted_vec h
    obtain ⟨l', g1, _, _, g4⟩ := C06_pq_sorted_iter h
    rw [h1] at g1; cases g1
    refine ⟨l, h1, h2, h3, h5, h6, fun n => ?_⟩
    obtain ⟨s', a, _, b, _⟩ := g4 n
    exact ⟨s', a, b⟩
  · have h := hdq hk
    obtain ⟨l, h1, h2, h3, _, h5, h6⟩ := C06_dpq_ascending h
    obtain ⟨l', g1, g2, g3, _, g5, g6⟩ := C06_dpq_descending h
    refine ⟨⟨l, h1, h2, h3, h5, h6⟩, ⟨l', g1, g2, g3, g5, g6⟩, fun calls => ?_⟩
    obtain ⟨o, s', a, _, b, c, _, d, e, f, _⟩ := C06_dpq_deque h calls
    exact ⟨o, s', a, b, c, d, e, f⟩

/-- … in particular from `new()` of either kind -/
theorem C06_after_history_new (ops : List (Op P)) (k : Kind) (hl : ∀ op ∈ ops, op.Legal)
    (hn : ∀ op ∈ ops, op.isLeak = false) :
    ∃ q' outs, run (Q.new k) ops = .ok (q', outs) ∧
      (q'.kind = .pq →
        ∃ l, MaxQ.intoSortedVec q'.s = .ok l ∧ l.Perm q'.s.map.toList ∧ l.Pairwise (fun a b => ¬ a.2 < b.2)) ∧
      (q'.kind = .dpq →
        (∃ l, DQ.intoAscendingSortedVec q'.s = .ok l ∧ l.Perm q'.s.map.toList ∧ l.Pairwise (fun a b => ¬ b.2 < a.2)) ∧
        (∃ l, DQ.intoDescendingSortedVec q'.s = .ok l ∧ l.Perm q'.s.map.toList ∧
          l.Pairwise (fun a b => ¬ a.2 < b.2))) := by
  obtain ⟨q', outs, hrun, hp, hd⟩ := C06_after_history ops (hist_new_inv k) hl hn
  refine ⟨q', outs, hrun, fun hk => ?_, fun hk => ?_⟩
  · obtain ⟨l, a, b, _, _, c, _⟩ := hp hk
    exact ⟨l, a, b, c⟩
  · obtain ⟨⟨l, a, b, _, _, c⟩, ⟨l', a', b', _, _, c'⟩, _⟩ := hd hk
    exact ⟨⟨l, a, b, c⟩, ⟨l', a', b', c'⟩⟩

/-- **C06 / C01: sorted consumption of a `PriorityQueue` starts with exactly the entry `peek` reports** (the same
entry, not merely one of the same priority), and with nothing on the empty queue. -/
theorem C06_pq_head_is_peek {s : Store P} (h : MaxQ.Inv s) :
    ∃ l, MaxQ.intoSortedVec s = .ok l ∧ l.head? = MaxQ.peek s := by
  obtain ⟨l, hl, _, _, hit⟩ := C06_pq_sorted_iter h
  refine ⟨l, hl, ?_⟩
  obtain ⟨s', hrun, _⟩ := hit 1
  obtain ⟨s1, hpop, _⟩ := C01_pop_eq_peek h
  simp only [bp_popCalls, hpop, bind, Except.bind, pure, Except.pure] at hrun
  cases l with
  | nil =>
    simp at hrun
    simpa using hrun.1.symm
  | cons a t =>
    simp at hrun
    simpa using hrun.1.symm

/-- **C06 / C02: the ascending sorted vector of a `DoublePriorityQueue` starts with exactly the entry `peek_min` reports,
the descending one with exactly the entry `peek_max` reports** (`None` / empty on the empty queue). -/
theorem C06_dpq_ends_are_peeks {s : Store P} (h : DQ.Inv s) :
    (∃ l r, DQ.intoAscendingSortedVec s = .ok l ∧ DQ.peekMin s = .ok r ∧ l.head? = r) ∧
    (∃ l r k, DQ.intoDescendingSortedVec s = .ok l ∧ DQ.peekMax s = .ok (s.tick k, r) ∧ l.head? = r) := by
  constructor
  · obtain ⟨l, hl, _⟩ := C06_dpq_ascending h
    obtain ⟨s', r, hpop, hpk, _⟩ := C02_popMin_eq_peekMin h
    refine ⟨l, r, hl, hpk, ?_⟩
    simp only [DQ.intoAscendingSortedVec, DQ.drainAsc, hpop, bind, Except.bind, pure, Except.pure] at hl
    cases r with
    | none => simp at hl; subst hl; rfl
    | some e =>
      simp only at hl
      split at hl
      · cases hl
      · cases hl; rfl
  · obtain ⟨l, hl, _⟩ := C06_dpq_descending h
    obtain ⟨s', r, k, hpop, hpk, _⟩ := C02_popMax_eq_peekMax h
    refine ⟨l, r, k, hl, hpk, ?_⟩
    simp only [DQ.intoDescendingSortedVec, DQ.drainDesc, hpop, bind, Except.bind, pure, Except.pure] at hl
    cases r with
    | none => simp at hl; subst hl; rfl
    | some e =>
      simp only at hl
      split at hl
      · cases hl
      · cases hl; rfl

example : bp_okR (DQ.intoAscendingSortedVec DQ.exQ) (fun l => bp_okR (DQ.peekMin DQ.exQ) (fun r => l.head? = r ∧ r.isSome)) ∧
    bp_okR (MaxQ.intoSortedVec bp_exP) (fun l => l.head? = MaxQ.peek bp_exP ∧ l.head?.isSome) := by decide +kernel

end PQ

#print axioms PQ.C06_after_history
#print axioms PQ.C06_after_history_new
#print axioms PQ.C06_pq_head_is_peek
#print axioms PQ.C06_dpq_ends_are_peeks
