import PQ.Lemmas.FramePopIf
import PQ.Lemmas.CursorStore
/-!
# C03 — supplement: the frame of a refusing conditional pop; what the plain iterators yield, as entries
-/
namespace PQ
variable {P : Type}

/-- **the frame of a conditional pop whose predicate REFUSES** (`C03_frame_pop` speaks about the accepting case): from a
well-formed queue, if `pop_if` / `pop_min_if` / `pop_max_if` answers `None`, then either the queue was empty and nothing
changed, or exactly one stored entry — the one shown to the predicate — now holds what the predicate wrote, under the same
key, and every other key's entry, the size and the kind are unchanged. -/
theorem C03_frame_pop_refused : type_of% @fpi_frame_refused := @fpi_frame_refused

/-- **`iter` / `into_iter` / `drain` report exactly the stored set**: the slice cursor over the map (the model of IndexMap's
iterators the three delegate to), driven by any sequence of `next` / `next_back` / `len` / `size_hint` calls with at least
`len` advancing ones, hands out a permutation of the stored entries — each stored (item, priority) pair exactly once;
with fewer advancing calls, that many entries at pairwise distinct slots. -/
theorem C03_iterators_yield_contents (s : Store P) (calls : List ICall) :
    (s.map.size ≤ adv calls → (Cursor.entries s.map calls).Perm s.map.toList) ∧
    (Cursor.entries s.map calls).length = min s.map.size (adv calls) ∧
    (slots (Cursor.run (Cursor.new s.map.size) calls)).Nodup :=
  ⟨Cursor.entries_perm s.map calls, (Cursor.entries_sub s.map calls).2.2, (Cursor.entries_sub s.map calls).1⟩

-- non-vacuity: three entries, consumed from both ends
example : Cursor.entries (#[(⟨1, 0⟩, 5), (⟨2, 0⟩, 7), (⟨3, 9⟩, 1)] : IMap Nat) [.nextBack, .len, .next, .next, .next] =
    [(⟨3, 9⟩, 1), (⟨1, 0⟩, 5), (⟨2, 0⟩, 7)] := by decide

end PQ

#print axioms PQ.C03_frame_pop_refused
#print axioms PQ.C03_iterators_yield_contents
