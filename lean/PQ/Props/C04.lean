import PQ.Lemmas.History
import PQ.Lemmas.DebugLemmas
/-!
# C04 — "Fault-free use never panics and never touches memory out of bounds"

> Starting from any constructor, no finite sequence of calls to the safe public API with well-behaved user code (a
> total `Ord`, consistent `Hash`/`Eq`, closures that return) panics, aborts or performs an out-of-bounds or otherwise
> undefined memory access, the documented capacity-overflow panics of `reserve` aside.  Equivalently, after every public
> operation the index structures that the unchecked accesses trust are mutually consistent and agree with the reported
> length.

Quantifier: **all finite histories** `ops : List (Op P)` on **either queue kind**, from `new()` — the other
constructors (`From<Vec>`, `FromIterator`, `Deserialize`, `From<the other kind>`, `with_capacity`) are operations of the
alphabet that ignore or keep the old state, so "from any constructor" is "any history" — and more generally from any
well-formed state; **including** the histories that leave the order unspecified (a leaked `iter_mut` guard,
`.iterMut true prog`) and then continue with arbitrary operations.  The only hypothesis is `Op.Legal`: closures do
not change the identity (`Hash`/`Eq`) of an item, which is the crate's documented requirement ("well-behaved user
code"), and the other queue handed to `append` (`Op.append o`: ANY store `o`) is itself a queue, i.e. well-formed (`o.WF`,
e.g. any state reachable by a legal history — it need not be ordered); `P` is any type with a total preorder
(`Std.IsLinearPreorder`, the model of a total `Ord`).

## How the statement reads on the real code

Every way the real code can leave the fault-free path is an explicit `Fault` of the model (`PQ/Model/Basic.lean`), so
"`run` never returns `.error f`" is a theorem about the model and not an artefact of totalised definitions:

* `Fault.oob site` — an **unchecked** access (`get_unchecked{,_mut}`) out of range: undefined behaviour in the real code.
  Every `site` number is listed under `model_sites` of an entry of `/verif/unsafe_inventory.json` (which enumerates all
  `unsafe` blocks/functions of the crate):
  - `101 102` `Store::swap`; `105` `Store::get_priority_from_position`; `109 110 112 113` `Store::swap_remove`;
    `114` `Store::swap_remove_if`; `116` `Store::change_priority`; `117` `Store::change_priority_by`;
    `121–126` `Store::remove` (store.rs);
  - `201 311 320 323` `Store::index_at`, `202 203 312–315 321 322 324 325` `Store::move_from`,
    `205 206 316 317` `Hole::drop` (the `bubble_up` hole of both queues, after the F6 fix);
  - `207` `PriorityQueue::up_heapify`, `209` `PriorityQueue::peek_mut`, `210` `PriorityQueue::push`;
  - `327 328` `DoublePriorityQueue::peek_min/peek_max`, `329 330` `peek_min_mut/peek_max_mut`, `331` `push`.
  The raw-pointer reborrows of the two `IterMut::next{,_back}` have no fault site: they are modelled as "a slot is
  emitted", and their soundness condition (no slot twice, only stored slots) is C09, which `hist_iterMutRun_spec` lifts
  to the `iter_mut` operation of a history.
* `Fault.indexPanic site` (`103 104 107 111 119 120`: `Vec::swap`, `Vec::swap_remove`), `Fault.unwrapNone site`
  (`106 115 204 303 304 308 310 318 319`: `Option::unwrap`), `Fault.arith site` (`108 118 301 306`: `size -= 1`;
  `208 302 305 307 309 326`: `parent(i) = (i - 1) / 2` at `i = 0`; `401 402`: the checked subtraction in
  `IterMut::len/size_hint`) — ordinary panics (with overflow checks on).
* `Fault.fuel` — a loop of the model ran out of fuel (no counterpart in the real code; excluded by the same theorem).
* `Fault.capacity` — the **documented capacity-overflow panic** of `reserve` / `with_capacity`, the one panic the claim
  allows — is produced by `step` **exactly** when `extend` / `from_iter` is handed an iterator whose `size_hint` announces a
  lower bound `≥ capLimit = 2^61` elements (`reserveC`, `PQ/Model/Store.lean`; `C04_capacity_exactly`).  Such a hint is
  never `Op.Legal`: a legal `size_hint` has `lo ≤ xs.size < capLimit` (its lower bound does not exceed what the iterator
  yields).  `Deserialize` never produces it, whatever length the (untrusted) input announces: the pre-allocation is capped
  (C15).  The explicit capacity operations are no-ops of the model (`Op.capacityOp`; capacity is not part of the modelled
  state; their own overflow panic is exercised by the correspondence check only).
* `Fault.userPanic` is **never produced by `step`**: user callbacks are total functions here (closures that panic are the
  subject of C10).

`QWF q` is `q.s.WF = q.s.TWF q.s.size` (`PQ/Lemmas/Defs.lean`): `map`, `heap`, `qp` all have length `size`, `heap` and
`qp` are mutually inverse bijections of `0..size`, and keys are unique — exactly what the unchecked accesses trust.
-/
namespace PQ
variable {P : Type} [LT P] [DecidableLT P] [LE P] [Std.IsLinearPreorder P] [Std.LawfulOrderLT P]

/-- **C04, from any well-formed state** (in particular after an injected fault that left a well-formed state: used by
C10).  Every history of legal operations — leaked `iter_mut` guards allowed anywhere — runs to completion without any
fault, answers every operation, and ends in a well-formed state. -/
theorem C04_from_any_wf (ops : List (Op P)) {q : Q P} (hq : QWF q) (hl : ∀ op ∈ ops, op.Legal) :
    ∃ q' outs, run q ops = .ok (q', outs) ∧ outs.length = ops.length ∧ QWF q' := by
  obtain ⟨q', outs, h1, h2, h3⟩ := hist_run_safe ops hq hl
  exact ⟨q', outs, h1, h3, h2⟩

/-- **C04, no fault.**  From `new()` of either kind, every history of legal operations runs to completion. -/
theorem C04_nofault (ops : List (Op P)) (hl : ∀ op ∈ ops, op.Legal) (k : Kind) :
    ∃ q' outs, run (Q.new k) ops = .ok (q', outs) := by
  obtain ⟨q', outs, h, _⟩ := C04_from_any_wf ops (hist_new_wf k) hl
  exact ⟨q', outs, h⟩

/-- … explicitly: no fault of any sort — no out-of-bounds unchecked access (`Fault.oob`), no panic
(`indexPanic`, `unwrapNone`, `arith`), nothing else -/
theorem C04_nofault_ne (ops : List (Op P)) (hl : ∀ op ∈ ops, op.Legal) (k : Kind) :
    ∀ f, run (Q.new k) ops ≠ .error f := by
  intro f hf
  obtain ⟨q', outs, h⟩ := C04_nofault ops hl k
  rw [h] at hf
  cases hf

/-- **C04, the index structures stay consistent.**  After every history from `new()` the final store is well-formed:
`map`, `heap` and `qp` have exactly `size` entries, `heap` and `qp` are mutually inverse bijections of `0..size`, and no
two slots hold the same key. -/
theorem C04_wf_reach (ops : List (Op P)) (hl : ∀ op ∈ ops, op.Legal) (k : Kind) :
    ∃ q' outs, run (Q.new k) ops = .ok (q', outs) ∧ outs.length = ops.length ∧ q'.s.WF ∧
      q'.s.map.size = q'.s.size ∧ q'.s.heap.size = q'.s.size ∧ q'.s.qp.size = q'.s.size ∧
      (∀ p, p < q'.s.size → ∃ i, q'.s.heap[p]? = some i ∧ q'.s.qp[i]? = some p) ∧
      (∀ i, i < q'.s.size → ∃ p, q'.s.qp[i]? = some p ∧ q'.s.heap[p]? = some i) ∧
      q'.s.map.NoDupKeys := by
  obtain ⟨q', outs, h1, h2, h3⟩ := C04_from_any_wf ops (hist_new_wf k) hl
  have hwf : q'.s.WF := h3
  exact ⟨q', outs, h1, h2, hwf, hwf.map_size, hwf.heap_size, hwf.qp_size, hwf.heap_qp, hwf.qp_heap, hwf.nodup⟩

/-- **C04, "after every public operation"**: the state after EVERY prefix of the history is well-formed (not only the
final one), and the run of the prefix is fault-free. -/
theorem C04_every_prefix (ops : List (Op P)) (hl : ∀ op ∈ ops, op.Legal) (k : Kind) (n : Nat) :
    ∃ q' outs, run (Q.new k) (ops.take n) = .ok (q', outs) ∧ q'.s.WF :=
  let ⟨q', outs, h1, _, h3⟩ := C04_from_any_wf (ops.take n) (hist_new_wf k)
    (fun op h => hl op (List.mem_of_mem_take h))
  ⟨q', outs, h1, h3⟩

/-- **C04, one step** (the inductive core, for every constructor of `Op` and both kinds): a legal operation on a
well-formed queue returns normally and leaves a well-formed queue — whether or not the queue is ordered. -/
theorem C04_step {q : Q P} {op : Op P} (hq : QWF q) (hl : op.Legal) :
    ∃ q' o, step q op = .ok (q', o) ∧ QWF q' :=
  hist_step_safe hq hl

/-- **C04, the one allowed panic, exactly.**  On a well-formed queue, for an operation that is legal except possibly for
the `size_hint` it announces, `step` answers `Fault.capacity` if and only if the operation is `extend` / `from_iter` with an
announced lower bound `lo ≥ capLimit` (then `reserve(lo)` / `with_capacity(lo)` panics with "capacity overflow" before
anything else happens); with every other lower bound — legal or not — it succeeds. -/
theorem C04_capacity_exactly {q : Q P} {op : Op P} (hq : QWF q)
    (hl : op.Legal ∨ ∃ lo xs, op = .extend lo xs ∨ op = .fromIter lo xs) :
    (step q op = .error .capacity ↔ ∃ lo xs, (op = .extend lo xs ∨ op = .fromIter lo xs) ∧ capLimit ≤ lo) ∧
    ((¬ ∃ lo xs, (op = .extend lo xs ∨ op = .fromIter lo xs) ∧ capLimit ≤ lo) → ∃ q' o, step q op = .ok (q', o) ∧ QWF q') := by
  have hcap : ∀ lo xs, capLimit ≤ lo →
      step q (.extend lo xs) = .error .capacity ∧ step q (.fromIter lo xs) = .error .capacity := by
    intro lo xs hlo
    obtain ⟨kind, s⟩ := q
    cases kind <;>
      simp only [step, MaxQ.extend_of_ge xs hlo, DQ.extend_of_ge xs hlo, MaxQ.fromIter_of_ge xs hlo,
        DQ.fromIter_of_ge xs hlo, bind, Except.bind] <;> first | exact ⟨rfl, rfl⟩ | exact ⟨trivial, trivial⟩ | trivial
  have hok : (¬ ∃ lo xs, (op = .extend lo xs ∨ op = .fromIter lo xs) ∧ capLimit ≤ lo) →
      ∃ q' o, step q op = .ok (q', o) ∧ QWF q' := by
    intro hn
    rcases hl with hl | ⟨lo, xs, rfl | rfl⟩
    · exact hist_step_safe hq hl
    · have hlo : lo < capLimit := Nat.lt_of_not_le (fun h => hn ⟨lo, xs, .inl rfl, h⟩)
      obtain ⟨kind, s⟩ := q
      cases kind
      · obtain ⟨s', he, hwf, _⟩ := MaxQ.extend_safe hq lo xs hlo
        refine ⟨⟨Kind.pq, s'⟩, Out.unit, ?_, hwf⟩
        simp only [step, he, bind, Except.bind, pure, Except.pure]
      · obtain ⟨s', he, hwf, _⟩ := DQ.extend_safe hq lo xs hlo
        refine ⟨⟨Kind.dpq, s'⟩, Out.unit, ?_, hwf⟩
        simp only [step, he, bind, Except.bind, pure, Except.pure]
    · have hlo : lo < capLimit := Nat.lt_of_not_le (fun h => hn ⟨lo, xs, .inr rfl, h⟩)
      obtain ⟨kind, s⟩ := q
      cases kind
      · obtain ⟨s', he, hwf, _⟩ := MaxQ.fromIter_safe lo xs hlo
        refine ⟨⟨Kind.pq, s'⟩, Out.unit, ?_, hwf⟩
        simp only [step, he, bind, Except.bind, pure, Except.pure]
      · obtain ⟨s', he, hwf, _⟩ := DQ.fromIter_safe lo xs hlo
        refine ⟨⟨Kind.dpq, s'⟩, Out.unit, ?_, hwf⟩
        simp only [step, he, bind, Except.bind, pure, Except.pure]
  refine ⟨⟨fun h => ?_, ?_⟩, hok⟩
  · apply Classical.byContradiction
    intro hn
    obtain ⟨q', o, h', _⟩ := hok hn
    rw [h'] at h; cases h
  · rintro ⟨lo, xs, rfl | rfl, hlo⟩
    · exact (hcap lo xs hlo).1
    · exact (hcap lo xs hlo).2

/-- **C04, the leaked guard itself**: `iter_mut` with ANY program of calls and writes, guard leaked, from a well-formed
queue of either kind: no fault, every slot is handed out at most once and is a stored slot, the keys of all slots are
unchanged, the result is well-formed. -/
theorem C04_leaked_iterMut {q : Q P} (hq : QWF q) (prog : List (ICall × IMWrite P)) :
    ∃ outs m', step q (.iterMut true prog) = .ok ({ q with s := { q.s with map := m' } }, .outs outs) ∧
      QWF { q with s := { q.s with map := m' } } ∧
      (slots outs).Nodup ∧ (∀ i ∈ slots outs, i < q.s.size) ∧
      (∀ j : Nat, (m'[j]?).map (fun e : Item × P => e.1.key) = (q.s.map[j]?).map (fun e : Item × P => e.1.key)) := by
  have h : q.s.WF := hq
  obtain ⟨outs, m', hrun, _, _, hnd, hlt, hsz, hkeys, _, _⟩ := hist_iterMutRun_spec q.kind q.s.map prog
  refine ⟨outs, m', ?_, Store.wf_of_map_update h hsz (h.nodup.congr_keys hkeys), hnd,
    fun i hi => by have := hlt i hi; rw [h.map_size] at this; exact this, hkeys⟩
  simp only [step, hrun, bind, Except.bind, pure, Except.pure, if_true]

/-- **C04, `Debug`** (`{:?}` of both queue kinds goes through `impl Debug for Store`, which `unwrap`s a map lookup for
every heap position): after every history from `new()` — leaked guards included — formatting does not panic, and what it
lists is, in heap order, every slot exactly once together with the entry stored in that slot. -/
theorem C04_debug_after_history (ops : List (Op P)) (hl : ∀ op ∈ ops, op.Legal) (k : Kind) :
    ∃ q' outs l, run (Q.new k) ops = .ok (q', outs) ∧ q'.s.debugEntries = .ok l ∧
      l.map (·.1) = q'.s.heap.toList ∧ l.length = q'.s.size ∧
      ∀ x ∈ l, q'.s.map[x.1]? = some (x.2.1, x.2.2) := by
  obtain ⟨q', outs, h1, _, h3⟩ := C04_from_any_wf ops (hist_new_wf k) hl
  obtain ⟨l, h4, h5, h6, h7⟩ := debugEntries_wf q'.s h3
  exact ⟨q', outs, l, h1, h4, h5, h6, h7⟩

/-! ## Non-vacuity: histories that leak a guard and continue, on both kinds -/
section Examples

/-- the other queue handed to `append`: built by pushes and then disordered by a leaked guard (well-formed, index tables
not the identity, NOT ordered), twelve elements — longer than the receiver at that point, so the stores are swapped -/
private def exOther : Store Nat :=
  match run (Q.new .pq) [.extend 0 (Array.ofFn (n := 12) fun i => (⟨50 + i.val, 0⟩, (7 * i.val) % 12)),
      .iterMut true [(.next, ⟨some 100, none⟩), (.next, ⟨some 0, none⟩)]] with
  | .ok (q, _) => q.s
  | .error _ => Store.empty

example : exOther.WF ∧ ¬ MaxQ.Inv exOther ∧ exOther.size = 12 ∧ exOther.heap ≠ Array.range 12 := by decide +kernel

/-- forty pairs over two new keys, from an iterator that announces all forty: on the nine-element max-heap this is the
REBUILD strategy of `extend` (`better_to_rebuild 9 40`), on the six-element min-max heap the push strategy -/
private def ex40 : Array (Item × Nat) := Array.ofFn (n := 40) fun i => (⟨32 + i.val % 2, 0⟩, i.val)

/-- pushes, a leaked guard that turns the order upside down (every priority rewritten), then every kind of
order-dependent operation on the disordered queue, a second leak, and more operations -/
private def exOps : List (Op Nat) :=
  [.fromVec (Array.ofFn (n := 9) fun i => (⟨i.val, 0⟩, 3 * i.val)),
   .iterMut true ((List.range 9).map fun i => (ICall.next, (⟨some (40 - 4 * i), none⟩ : IMWrite Nat))),
   .popFront, .push ⟨20, 0⟩ 100, .push ⟨3, 1⟩ 0, .changePriority 5 1, .changePriorityBy 6 (· + 50), .remove 2,
   .popBack, .popFrontIf (fun it p => (true, it, p)), .popBackIf (fun it p => (false, it, p + 9)),
   .peekFrontMut (fun it => ⟨it.key, 5⟩), .peekBackMut (fun it => ⟨it.key, 6⟩), .pushIncrease ⟨7, 0⟩ 99,
   .pushDecrease ⟨8, 0⟩ 0, .getMut 7 (fun it => ⟨it.key, 1⟩), .extend 0 #[(⟨30, 0⟩, 1), (⟨31, 0⟩, 77)],
   .iterMut true [(.nextBack, ⟨some 1000, none⟩), (.next, ⟨some 0, some 4⟩), (.len, ⟨none, none⟩)],
   .popFront, .popBack, .extend 40 ex40, .capacityOp, .popFront, .append exOther, .drain, .popFront,
   .push ⟨1, 1⟩ 1]

example : ∀ op ∈ exOps, op.Legal := by
  intro op h
  simp only [exOps, List.mem_cons, List.not_mem_nil, or_false] at h
  rcases h with h | h | h | h | h | h | h | h | h | h | h | h | h | h | h | h | h | h | h | h | h | h | h | h | h | h | h <;>
    subst h <;> first | exact trivial | (intro _; rfl) | (intro _ _; rfl) | (show Store.WF _; decide +kernel) |
      (show _ ∧ _ < capLimit; decide +kernel)

example : Arith.betterToRebuild 9 40 = true ∧ Arith.betterToRebuild 6 40 = false ∧
    hist_okR (run (Q.new .pq) (exOps.take 20)) (fun r => r.1.s.size = 9) ∧
    hist_okR (run (Q.new .dpq) (exOps.take 20)) (fun r => r.1.s.size = 6) := by decide +kernel
-- both kinds: the history runs to completion; well-formed after the whole history …
example : hist_okR (run (Q.new .pq) exOps) (fun r => r.1.s.WF ∧ r.2.length = 27 ∧ r.1.s.size = 1) := by decide +kernel
example : hist_okR (run (Q.new .dpq) exOps) (fun r => r.1.s.WF ∧ r.2.length = 27 ∧ r.1.s.size = 1) := by decide +kernel
-- … and in the middle, where the queue is well-formed but NOT ordered (so the order-dependent operations that follow
-- really run on a disordered store)
example : hist_okR (run (Q.new .pq) (exOps.take 2)) (fun r => r.1.s.WF ∧ ¬ MaxQ.Inv r.1.s ∧ r.1.s.size = 9) := by
  decide +kernel
example : hist_okR (run (Q.new .pq) (exOps.take 18)) (fun r => r.1.s.WF ∧ ¬ MaxQ.Inv r.1.s) := by decide +kernel
-- the `append` of the (longer, disordered, non-identity) other queue: receiver and other are swapped, the union is
-- rebuilt, the other queue is reported empty
example : hist_okR (run (Q.new .pq) (exOps.take 23)) (fun r => r.1.s.size < 12) ∧
    hist_okR (run (Q.new .pq) (exOps.take 24)) (fun r => MaxQ.Inv r.1.s ∧ 12 ≤ r.1.s.size ∧
      r.1.s.map.extract 0 12 = exOther.map ∧ (r.2.getLast? matches some (.other 0 0 0 0))) := by decide +kernel
-- the one allowed panic: an iterator announcing 2^61 elements (it yields one) — `Fault.capacity`; the hint is not legal
example : ¬ (Op.extend (2 ^ 61) #[((⟨1, 0⟩ : Item), 1)] : Op Nat).Legal := fun h => absurd h.1 (by decide)
example : (match step (Q.new .pq) (.extend (2 ^ 61) #[((⟨1, 0⟩ : Item), 1)] : Op Nat) with
    | .error .capacity => true | _ => false) = true ∧
  (match run (Q.new .dpq) [.push ⟨1, 0⟩ 1, .fromIter (2 ^ 64 - 1) #[((⟨1, 0⟩ : Item), 1)], .popFront] with
    | .error .capacity => true | _ => false) = true := by decide +kernel
-- `Debug` on the disordered queue: nine entries, heap order
example : hist_okR (run (Q.new .dpq) (exOps.take 2))
    (fun r => (match r.1.s.debugEntries with | .ok l => l.length == 9 | .error _ => false) = true) := by decide +kernel
-- and the `unwrap` is real: a table naming a slot the map does not have makes `Debug` panic
example : (match ({ map := #[], heap := #[0], qp := #[0], size := 1 } : Store Nat).debugEntries with
    | .error (.unwrapNone 190) => true | _ => false) = true := by decide
-- the hypothesis `Legal` is needed: a `get_mut` write that changes the identity of an item breaks key uniqueness
example : ¬ (Op.getMut 1 (fun _ => ⟨2, 0⟩) : Op Nat).Legal := fun h => absurd (h ⟨1, 0⟩) (by decide)
example : hist_okR (run (Q.new .pq) [.push ⟨1, 0⟩ 1, .push ⟨2, 0⟩ 2, .getMut 1 (fun _ => ⟨2, 0⟩)])
    (fun r => ¬ r.1.s.WF) := by decide +kernel

end Examples


/-- **C04, the read-only unchecked sites** (`peek_min` 327, `peek_max` 328 — they are observations, not operations of the
history alphabet): after every history from `new()`, leaked guards included (so the queue may be disordered), both peeks
return normally; `peek_max` performs at most one comparison. -/
theorem C04_peeks_after_history (ops : List (Op P)) (hl : ∀ op ∈ ops, op.Legal) (k : Kind) :
    ∃ q' outs, run (Q.new k) ops = .ok (q', outs) ∧
      (∃ r, DQ.peekMin q'.s = .ok r) ∧ (∃ n r, DQ.peekMax q'.s = .ok (q'.s.tick n, r) ∧ n ≤ 1) := by
  obtain ⟨q', outs, h1, _, h3⟩ := C04_from_any_wf ops (hist_new_wf k) hl
  obtain ⟨r, hr, _⟩ := DQ.peekMin_safe (s := q'.s) h3
  obtain ⟨n, r', hr', hn, _⟩ := DQ.peekMax_safe (s := q'.s) h3
  exact ⟨q', outs, h1, ⟨r, hr⟩, ⟨n, r', hr', hn⟩⟩

end PQ

#print axioms PQ.C04_from_any_wf
#print axioms PQ.C04_nofault
#print axioms PQ.C04_nofault_ne
#print axioms PQ.C04_wf_reach
#print axioms PQ.C04_every_prefix
#print axioms PQ.C04_step
#print axioms PQ.C04_capacity_exactly
#print axioms PQ.C04_leaked_iterMut
#print axioms PQ.C04_debug_after_history
#print axioms PQ.C04_peeks_after_history
