import PQ.Lemmas.History
/-!
# C02 — "DoublePriorityQueue always yields a minimum at one end and a maximum at the other"

> After any sequence of public operations on a `DoublePriorityQueue`, `peek_min`/`pop_min` address a stored element
> whose priority is ≤ every stored priority and `peek_max`/`pop_max` one whose priority is ≥ every stored priority, for
> any interleaving of extractions from the two ends.  `pop_min`/`pop_max` (and the predicates of
> `pop_min_if`/`pop_max_if`, and `peek_*_mut`) address exactly the element the corresponding peek reported; an empty
> queue yields `None`.

Quantifier: **all finite histories** over the alphabet of `PQ/Model/Ops.lean`, from any constructor (the bulk
constructors and the conversion from `PriorityQueue` are operations of the alphabet), any starting kind, **all sizes**
(the theorems are not by cases on the size: `1`, `2`, `3`, where `find_max` takes its three branches, and `≥ 16`, five
levels, are instances; see the examples), all items and priorities including ties (`P` is any linear preorder).  Side
conditions as in C01: closures keep an item's identity (`Op.Legal`), no leaked `iter_mut` guard (`Op.isLeak`).

`peek_max` performs at most one priority comparison, hence the model returns the store with the ghost counter advanced:
`peekMax s = .ok (s.tick k, r)`, `k ≤ 1`; `tick` changes nothing but that counter.
-/
namespace PQ
variable {P : Type} [LT P] [DecidableLT P] [LE P] [Std.IsLinearPreorder P] [Std.LawfulOrderLT P]

/-! ## Reachability -/

/-- **C02, reachability.**  From any queue (of either kind) satisfying its invariant, every history of legal
operations without a leaked guard runs without fault and ends in a queue satisfying the invariant of its final kind; if
that kind is `DoublePriorityQueue`, the store is a well-formed min-max heap. -/
theorem C02_reach (ops : List (Op P)) {q : Q P} (hq : QInv q) (hl : ∀ op ∈ ops, op.Legal)
    (hn : ∀ op ∈ ops, op.isLeak = false) :
    ∃ q' outs, run q ops = .ok (q', outs) ∧ outs.length = ops.length ∧ QInv q' ∧ (q'.kind = .dpq → DQ.Inv q'.s) := by
  obtain ⟨q', outs, hrun, hinv, hlen⟩ := hist_run_inv ops hq hl hn
  refine ⟨q', outs, hrun, hlen, hinv, fun hk => ?_⟩
  obtain ⟨k, s⟩ := q'
  cases hk
  exact hinv

/-- … in particular from `new()` of either kind -/
theorem C02_reach_new (ops : List (Op P)) (k : Kind) (hl : ∀ op ∈ ops, op.Legal) (hn : ∀ op ∈ ops, op.isLeak = false) :
    ∃ q' outs, run (Q.new k) ops = .ok (q', outs) ∧ outs.length = ops.length ∧ QInv q' ∧
      (q'.kind = .dpq → DQ.Inv q'.s) :=
  C02_reach ops (hist_new_inv k) hl hn

/-! ## The peeks report stored extremes -/

/-- **C02, `peek_min`.**  `None` on the empty queue, otherwise a stored entry below which no stored priority lies
(`e.2 ≤ e'.2` for every stored `e'`). -/
theorem C02_peekMin_min {s : Store P} (h : DQ.Inv s) :
    (s.size = 0 → DQ.peekMin s = .ok none) ∧
    (0 < s.size → ∃ e, DQ.peekMin s = .ok (some e) ∧ s.Mem e ∧ (∀ e', s.Mem e' → ¬ e'.2 < e.2) ∧
      (∀ e', s.Mem e' → e.2 ≤ e'.2)) := by
  obtain ⟨h0, h1⟩ := DQ.peekMin_inv h
  refine ⟨h0, fun hn => ?_⟩
  obtain ⟨e, hp, hmin⟩ := h1 hn
  refine ⟨e, hp, hmin.1, hmin.2, fun e' he' => ?_⟩
  have := hmin.2 e' he'
  grind

/-- **C02, `peek_max`.**  `None` on the empty queue, otherwise a stored entry above which no stored priority lies
(`e'.2 ≤ e.2` for every stored `e'`). -/
theorem C02_peekMax_max {s : Store P} (h : DQ.Inv s) :
    (s.size = 0 → DQ.peekMax s = .ok (s, none)) ∧
    (0 < s.size → ∃ k e, DQ.peekMax s = .ok (s.tick k, some e) ∧ k ≤ 1 ∧ s.Mem e ∧ (∀ e', s.Mem e' → ¬ e.2 < e'.2) ∧
      (∀ e', s.Mem e' → e'.2 ≤ e.2)) := by
  obtain ⟨h0, h1⟩ := DQ.peekMax_inv h
  refine ⟨h0, fun hn => ?_⟩
  obtain ⟨k, e, hp, hk, hmax⟩ := h1 hn
  refine ⟨k, e, hp, hk, hmax.1, hmax.2, fun e' he' => ?_⟩
  have := hmax.2 e' he'
  grind

/-- **C02, the peeks after any history** ending in a `DoublePriorityQueue`: both peeks succeed; they answer `None`
exactly on the empty queue; what they answer is a stored minimum, respectively maximum. -/
theorem C02_peek_history (ops : List (Op P)) {q : Q P} (hq : QInv q) (hl : ∀ op ∈ ops, op.Legal)
    (hn : ∀ op ∈ ops, op.isLeak = false) :
    ∃ q' outs, run q ops = .ok (q', outs) ∧
      (q'.kind = .dpq →
        ∃ rmin k rmax, DQ.peekMin q'.s = .ok rmin ∧ DQ.peekMax q'.s = .ok (q'.s.tick k, rmax) ∧
          (rmin = none ↔ q'.s.size = 0) ∧ (rmax = none ↔ q'.s.size = 0) ∧
          (∀ e, rmin = some e → q'.s.IsMin e) ∧ (∀ e, rmax = some e → q'.s.IsMax e)) := by
  obtain ⟨q', outs, hrun, _, _, hd⟩ := C02_reach ops hq hl hn
  refine ⟨q', outs, hrun, fun hk => ?_⟩
  have h := hd hk
  obtain ⟨a0, a1⟩ := DQ.peekMin_inv h
  obtain ⟨b0, b1⟩ := DQ.peekMax_inv h
  rcases Nat.eq_zero_or_pos q'.s.size with hz | hpos
  · refine ⟨none, 0, none, a0 hz, b0 hz, ⟨fun _ => hz, fun _ => rfl⟩, ⟨fun _ => hz, fun _ => rfl⟩, ?_, ?_⟩ <;>
      intro e he <;> cases he
  · obtain ⟨e, he, hmin⟩ := a1 hpos
    obtain ⟨k, e', he', _, hmax⟩ := b1 hpos
    refine ⟨some e, k, some e', he, he', ⟨fun hc => (by cases hc), fun hc => by omega⟩,
      ⟨fun hc => (by cases hc), fun hc => by omega⟩, ?_, ?_⟩
    · intro x hx; cases hx; exact hmin
    · intro x hx; cases hx; exact hmax

/-! ## The pops, the conditional pops and the `peek_*_mut` address exactly what the corresponding peek reported -/

/-- **C02, `pop_min`** returns exactly what `peek_min` reports: `None` on the empty queue (nothing changes), otherwise
that stored minimum, and exactly its key disappears; the invariant holds afterwards. -/
theorem C02_popMin_eq_peekMin {s : Store P} (h : DQ.Inv s) :
    ∃ s' r, DQ.popMin s = .ok (s', r) ∧ DQ.peekMin s = .ok r ∧ DQ.Inv s' ∧
      (r = none ↔ s.size = 0) ∧ (r = none → s' = s) ∧
      (∀ e, r = some e → s.IsMin e ∧ s.abs e.1.key = some e ∧ s'.abs = absRemove s.abs e.1.key ∧
        s'.size = s.size - 1) := by
  obtain ⟨h0, h1⟩ := DQ.popMin_spec h
  rcases Nat.eq_zero_or_pos s.size with hz | hn
  · exact ⟨s, none, h0 hz, DQ.peekMin_empty hz, h, ⟨fun _ => hz, fun _ => rfl⟩, fun _ => rfl, fun e he => by cases he⟩
  · obtain ⟨s', e, hpop, hpk, hmin, hinv, habs, hsz⟩ := h1 hn
    refine ⟨s', some e, hpop, hpk, hinv, ⟨fun hc => (by cases hc), fun hc => by omega⟩, fun hc => (by cases hc), ?_⟩
    intro e' he'; cases he'
    exact ⟨hmin, (DQ.mem_iff_abs h.1).1 hmin.1, habs, hsz⟩

/-- **C02, `pop_max`** returns exactly what `peek_max` reports. -/
theorem C02_popMax_eq_peekMax {s : Store P} (h : DQ.Inv s) :
    ∃ s' r k, DQ.popMax s = .ok (s', r) ∧ DQ.peekMax s = .ok (s.tick k, r) ∧ k ≤ 1 ∧ DQ.Inv s' ∧
      (r = none ↔ s.size = 0) ∧ (r = none → s' = s) ∧
      (∀ e, r = some e → s.IsMax e ∧ s.abs e.1.key = some e ∧ s'.abs = absRemove s.abs e.1.key ∧
        s'.size = s.size - 1) := by
  obtain ⟨h0, h1⟩ := DQ.popMax_spec h
  rcases Nat.eq_zero_or_pos s.size with hz | hn
  · exact ⟨s, none, 0, h0 hz, DQ.peekMax_empty hz, Nat.zero_le _, h, ⟨fun _ => hz, fun _ => rfl⟩, fun _ => rfl,
      fun e he => by cases he⟩
  · obtain ⟨k, s', e, hpop, hpk, hk, hmax, hinv, habs, hsz⟩ := h1 hn
    refine ⟨s', some e, k, hpop, hpk, hk, hinv, ⟨fun hc => (by cases hc), fun hc => by omega⟩, fun hc => (by cases hc), ?_⟩
    intro e' he'; cases he'
    exact ⟨hmax, (DQ.mem_iff_abs h.1).1 hmax.1, habs, hsz⟩

/-- **C02, `pop_min_if`.**  The predicate is applied to exactly the entry `peek_min` reports (a stored minimum): the
outcome is determined by `f` on that entry; on the empty queue the predicate is not called. -/
theorem C02_popMinIf_sees_peekMin {s : Store P} (h : DQ.Inv s) (f : Item → P → Bool × Item × P)
    (hf : ∀ it p, (f it p).2.1.key = it.key) :
    (s.size = 0 → DQ.peekMin s = .ok none ∧ DQ.popMinIf s f = .ok (s, none)) ∧
    (0 < s.size → ∃ e, DQ.peekMin s = .ok (some e) ∧ s.IsMin e ∧
      ∃ s', DQ.popMinIf s f =
          .ok (s', if (f e.1 e.2).1 = true then some ((f e.1 e.2).2.1, (f e.1 e.2).2.2) else none) ∧
        DQ.Inv s' ∧
        s'.abs = (if (f e.1 e.2).1 = true then absRemove s.abs e.1.key
                  else absSet s.abs e.1.key ((f e.1 e.2).2.1, (f e.1 e.2).2.2)) ∧
        s'.size = (if (f e.1 e.2).1 = true then s.size - 1 else s.size)) := by
  obtain ⟨h0, h1⟩ := DQ.popMinIf_spec h f hf
  refine ⟨fun hz => ⟨DQ.peekMin_empty hz, h0 hz⟩, fun hn => ?_⟩
  obtain ⟨e, hpk, hmin, ht, hfl⟩ := h1 hn
  refine ⟨e, hpk, hmin, ?_⟩
  cases hr : (f e.1 e.2).1 with
  | true =>
    obtain ⟨s', hp, hinv, habs, hsz⟩ := ht hr
    exact ⟨s', by simpa using hp, hinv, by simpa using habs, by simpa using hsz⟩
  | false =>
    obtain ⟨s', hp, hinv, habs, hsz⟩ := hfl hr
    exact ⟨s', by simpa using hp, hinv, by simpa using habs, by simpa using hsz⟩

/-- **C02, `pop_max_if`.**  The predicate is applied to exactly the entry `peek_max` reports (a stored maximum). -/
theorem C02_popMaxIf_sees_peekMax {s : Store P} (h : DQ.Inv s) (f : Item → P → Bool × Item × P)
    (hf : ∀ it p, (f it p).2.1.key = it.key) :
    (s.size = 0 → DQ.peekMax s = .ok (s, none) ∧ DQ.popMaxIf s f = .ok (s, none)) ∧
    (0 < s.size → ∃ k e, DQ.peekMax s = .ok (s.tick k, some e) ∧ k ≤ 1 ∧ s.IsMax e ∧
      ∃ s', DQ.popMaxIf s f =
          .ok (s', if (f e.1 e.2).1 = true then some ((f e.1 e.2).2.1, (f e.1 e.2).2.2) else none) ∧
        DQ.Inv s' ∧
        s'.abs = (if (f e.1 e.2).1 = true then absRemove s.abs e.1.key
                  else absSet s.abs e.1.key ((f e.1 e.2).2.1, (f e.1 e.2).2.2)) ∧
        s'.size = (if (f e.1 e.2).1 = true then s.size - 1 else s.size)) := by
  obtain ⟨h0, h1⟩ := DQ.popMaxIf_spec h f hf
  refine ⟨fun hz => ⟨DQ.peekMax_empty hz, h0 hz⟩, fun hn => ?_⟩
  obtain ⟨k, e, hpk, hk, hmax, ht, hfl⟩ := h1 hn
  refine ⟨k, e, hpk, hk, hmax, ?_⟩
  cases hr : (f e.1 e.2).1 with
  | true =>
    obtain ⟨s', hp, hinv, habs, hsz⟩ := ht hr
    exact ⟨s', by simpa using hp, hinv, by simpa using habs, by simpa using hsz⟩
  | false =>
    obtain ⟨s', hp, hinv, habs, hsz⟩ := hfl hr
    exact ⟨s', by simpa using hp, hinv, by simpa using habs, by simpa using hsz⟩

/-- **C02, `peek_min_mut`.**  The reference handed out is to exactly the entry `peek_min` reports; a key-preserving
write to the item changes only that entry's item and keeps the invariant. -/
theorem C02_peekMinMut_eq {s : Store P} (h : DQ.Inv s) (w : Item → Item) (hw : ∀ it, (w it).key = it.key) :
    ∃ s' r, DQ.peekMinMutWrite s w = .ok (s', r) ∧ DQ.peekMin s = .ok r ∧ DQ.Inv s' ∧ s'.size = s.size ∧
      (r = none → s' = s) ∧ (∀ e, r = some e → s.IsMin e ∧ s'.abs = absSet s.abs e.1.key (w e.1, e.2)) := by
  obtain ⟨h0, h1⟩ := DQ.peekMinMutWrite_spec h w hw
  rcases Nat.eq_zero_or_pos s.size with hz | hn
  · exact ⟨s, none, h0 hz, DQ.peekMin_empty hz, h, rfl, fun _ => rfl, fun e he => by cases he⟩
  · obtain ⟨s', e, hrun, hpk, hmin, hinv, habs, hsz⟩ := h1 hn
    refine ⟨s', some e, hrun, hpk, hinv, hsz, fun hc => (by cases hc), ?_⟩
    intro e' he'; cases he'
    exact ⟨hmin, habs⟩

/-- **C02, `peek_max_mut`.**  The reference handed out is to exactly the entry `peek_max` reports. -/
theorem C02_peekMaxMut_eq {s : Store P} (h : DQ.Inv s) (w : Item → Item) (hw : ∀ it, (w it).key = it.key) :
    ∃ s' r k, DQ.peekMaxMutWrite s w = .ok (s', r) ∧ DQ.peekMax s = .ok (s.tick k, r) ∧ k ≤ 1 ∧ DQ.Inv s' ∧
      s'.size = s.size ∧ (r = none → s' = s) ∧
      (∀ e, r = some e → s.IsMax e ∧ s'.abs = absSet s.abs e.1.key (w e.1, e.2)) := by
  obtain ⟨h0, h1⟩ := DQ.peekMaxMutWrite_spec h w hw
  rcases Nat.eq_zero_or_pos s.size with hz | hn
  · exact ⟨s, none, 0, h0 hz, DQ.peekMax_empty hz, Nat.zero_le _, h, rfl, fun _ => rfl, fun e he => by cases he⟩
  · obtain ⟨k, s', e, hrun, hpk, hk, hmax, hinv, habs, hsz⟩ := h1 hn
    refine ⟨s', some e, k, hrun, hpk, hk, hinv, hsz, fun hc => (by cases hc), ?_⟩
    intro e' he'; cases he'
    exact ⟨hmax, habs⟩

/-- **C02, history form**: after any history ending in a `DoublePriorityQueue`, the next `pop_min` / `pop_max`
operation of the alphabet returns what `peek_min` / `peek_max` of that state report, and the invariant continues to
hold. -/
theorem C02_next_after_history (ops : List (Op P)) {q : Q P} (hq : QInv q) (hl : ∀ op ∈ ops, op.Legal)
    (hn : ∀ op ∈ ops, op.isLeak = false) :
    ∃ q' outs, run q ops = .ok (q', outs) ∧
      (q'.kind = .dpq →
        (∃ q'' r, step q' .popFront = .ok (q'', .entry r) ∧ DQ.peekMin q'.s = .ok r ∧ QInv q'') ∧
        (∃ q'' r k, step q' .popBack = .ok (q'', .entry r) ∧ DQ.peekMax q'.s = .ok (q'.s.tick k, r) ∧ QInv q'')) := by
  obtain ⟨q', outs, hrun, _, _, hd⟩ := C02_reach ops hq hl hn
  refine ⟨q', outs, hrun, fun hk => ?_⟩
  have h := hd hk
  obtain ⟨k, s⟩ := q'
  cases hk
  constructor
  · obtain ⟨s', r, he, hpk, hinv, _⟩ := C02_popMin_eq_peekMin h
    simp only [step, he, bind, Except.bind, pure, Except.pure]
    exact ⟨_, r, rfl, hpk, hinv⟩
  · obtain ⟨s', r, k, he, hpk, _, hinv, _⟩ := C02_popMax_eq_peekMax h
    simp only [step, he, bind, Except.bind, pure, Except.pure]
    exact ⟨_, r, k, rfl, hpk, hinv⟩

/-! ## Any interleaving of extractions from the two ends -/

/-- **C02, interleaving (global form).**  Any interleaving `calls` of `pop_min` (`false`) and `pop_max` (`true`) — as a
history of operations, or as calls `next`/`next_back` on `into_sorted_iter` — runs without fault.
`SortedRun ExtremeQ s.abs calls outs s'.abs` (unfold with `DQ.sortedRun_cons_some`, `DQ.sortedRun_cons_none`,
`DQ.extremeQ_false`, `DQ.extremeQ_true`) says: each `pop_min` returned a minimum and each `pop_max` a maximum of what was
held *at that moment* and exactly that key was removed; `None` was returned exactly when nothing was held.  The entries
returned have pairwise distinct keys; the invariant holds at the end. -/
theorem C02_interleaved {s : Store P} (h : DQ.Inv s) (calls : List Bool) :
    ∃ outs s', DQ.sortedCalls calls s = .ok (outs, s') ∧
      run ⟨.dpq, s⟩ (calls.map fun b => if b = true then Op.popBack else Op.popFront) =
        .ok (⟨.dpq, s'⟩, outs.map Out.entry) ∧
      DQ.Inv s' ∧ outs.length = calls.length ∧
      DQ.SortedRun DQ.ExtremeQ s.abs calls outs s'.abs ∧
      ((outs.filterMap id).map (·.1.key)).Nodup ∧
      s'.size = s.size - min s.size calls.length := by
  obtain ⟨outs, s', hrun, hinv, hlen, hsr, hnd, hsz⟩ := DQ.sortedCalls_spec h calls
  refine ⟨outs, s', hrun, ?_, hinv, hlen, hsr, hnd, hsz⟩
  rw [hist_run_sortedCalls, hrun]

/-- **C02, interleaving (pointwise form).**  Split any interleaving as `pre ++ b :: post`.  The calls of `pre` lead to
a store `s1` satisfying the invariant, and the answer `r` to the call `b` that follows is: `None` if `s1` is empty,
otherwise a stored minimum of `s1` (for `pop_min`) or a stored maximum of `s1` (for `pop_max`) — whatever was extracted
from either end before, and whatever follows. -/
theorem C02_interleaved_each (pre : List Bool) (b : Bool) (post : List Bool) : ∀ {s : Store P}, DQ.Inv s →
    ∃ outs1 s1 r rest s2, DQ.sortedCalls pre s = .ok (outs1, s1) ∧ DQ.Inv s1 ∧
      DQ.sortedCalls (pre ++ b :: post) s = .ok (outs1 ++ r :: rest, s2) ∧
      (s1.size = 0 → r = none) ∧
      (0 < s1.size → ∃ e, r = some e ∧ if b = true then s1.IsMax e else s1.IsMin e) := by
  induction pre with
  | nil =>
    intro s h
    cases b with
    | false =>
      obtain ⟨s', r, hpop, _, hinv, hiff, _, hsome⟩ := C02_popMin_eq_peekMin h
      obtain ⟨rest, s2, hrest, _⟩ := DQ.sortedCalls_spec hinv post
      refine ⟨[], s, r, rest, s2, rfl, h, ?_, fun hz => hiff.2 hz, fun hn => ?_⟩
      · simp only [List.nil_append, DQ.sortedCalls, hpop, hrest, bind, Except.bind, pure, Except.pure,
          Bool.false_eq_true, if_false]
      · cases r with
        | none => have := hiff.1 rfl; omega
        | some e => exact ⟨e, rfl, by simpa using (hsome e rfl).1⟩
    | true =>
      obtain ⟨s', r, k, hpop, _, _, hinv, hiff, _, hsome⟩ := C02_popMax_eq_peekMax h
      obtain ⟨rest, s2, hrest, _⟩ := DQ.sortedCalls_spec hinv post
      refine ⟨[], s, r, rest, s2, rfl, h, ?_, fun hz => hiff.2 hz, fun hn => ?_⟩
      · simp only [List.nil_append, DQ.sortedCalls, hpop, hrest, bind, Except.bind, pure, Except.pure, if_true]
      · cases r with
        | none => have := hiff.1 rfl; omega
        | some e => exact ⟨e, rfl, by simpa using (hsome e rfl).1⟩
  | cons c pre ih =>
    intro s h
    cases c with
    | false =>
      obtain ⟨s0, r0, hpop, _, hinv0, _⟩ := C02_popMin_eq_peekMin h
      obtain ⟨outs1, s1, r, rest, s2, h1, hinv1, h2, hz, hp⟩ := ih hinv0
      refine ⟨r0 :: outs1, s1, r, rest, s2, ?_, hinv1, ?_, hz, hp⟩
      · simp only [DQ.sortedCalls, hpop, h1, bind, Except.bind, pure, Except.pure, Bool.false_eq_true, if_false]
      · simp only [List.cons_append, DQ.sortedCalls, hpop, h2, bind, Except.bind, pure, Except.pure,
          Bool.false_eq_true, if_false]
    | true =>
      obtain ⟨s0, r0, k, hpop, _, _, hinv0, _⟩ := C02_popMax_eq_peekMax h
      obtain ⟨outs1, s1, r, rest, s2, h1, hinv1, h2, hz, hp⟩ := ih hinv0
      refine ⟨r0 :: outs1, s1, r, rest, s2, ?_, hinv1, ?_, hz, hp⟩
      · simp only [DQ.sortedCalls, hpop, h1, bind, Except.bind, pure, Except.pure, if_true]
      · simp only [List.cons_append, DQ.sortedCalls, hpop, h2, bind, Except.bind, pure, Except.pure, if_true]

/-! ## Non-vacuity: sizes 1, 2, 3 and 17, ties, interleavings, a conversion inside the history -/
section Examples

/-- every kind of operation once on a `DoublePriorityQueue`; priorities tie -/
private def exOps : List (Op Nat) :=
  [.push ⟨1, 0⟩ 7, .push ⟨2, 0⟩ 7, .push ⟨3, 0⟩ 2, .push ⟨2, 5⟩ 1, .changePriority 3 7, .changePriorityBy 1 (· - 3),
   .pushIncrease ⟨4, 0⟩ 6, .pushDecrease ⟨4, 0⟩ 5, .pushIncrease ⟨4, 0⟩ 9, .remove 1, .getMut 2 (fun it => ⟨it.key, 8⟩),
   .extend 0 #[(⟨5, 0⟩, 9), (⟨6, 0⟩, 3)], .append (Store.fromVec #[(⟨7, 0⟩, 4), (⟨5, 1⟩, 0)]),
   .iterMut false [(.nextBack, ⟨some 0, none⟩), (.next, ⟨none, some 1⟩), (.len, ⟨none, none⟩), (.next, ⟨some 12, none⟩)],
   .retainMut (fun it p => (p != 3, it, p)), .popFrontIf (fun it p => (p == 0, it, p + 1)),
   .popBackIf (fun it p => (p == 11, it, p)), .capacityOp, .peekFrontMut (fun it => ⟨it.key, 99⟩),
   .peekBackMut (fun it => ⟨it.key, 98⟩), .convert, .popBack, .convert]

example : (∀ op ∈ exOps, op.Legal) ∧ (∀ op ∈ exOps, op.isLeak = false) := by
  constructor <;> intro op h <;> simp only [exOps, List.mem_cons, List.not_mem_nil, or_false] at h <;>
    rcases h with h | h | h | h | h | h | h | h | h | h | h | h | h | h | h | h | h | h | h | h | h | h | h <;>
    subst h <;> first | exact trivial | rfl | (intro _; rfl) | (intro _ _; rfl) | (show Store.WF _; decide +kernel) | (show _ ∧ _ < capLimit; decide +kernel)

-- the theorem applies to the concrete history …
example : ∃ q' outs, run (Q.new .dpq) exOps = .ok (q', outs) ∧ outs.length = 23 ∧ QInv q' :=
  let ⟨q', outs, h1, h2, h3, _⟩ := C02_reach_new exOps .dpq
    (by
      intro op h; simp only [exOps, List.mem_cons, List.not_mem_nil, or_false] at h
      rcases h with h | h | h | h | h | h | h | h | h | h | h | h | h | h | h | h | h | h | h | h | h | h | h <;>
        subst h <;> first | exact trivial | (intro _; rfl) | (intro _ _; rfl) | (show Store.WF _; decide +kernel) | (show _ ∧ _ < capLimit; decide +kernel))
    (by
      intro op h; simp only [exOps, List.mem_cons, List.not_mem_nil, or_false] at h
      rcases h with h | h | h | h | h | h | h | h | h | h | h | h | h | h | h | h | h | h | h | h | h | h | h <;>
        subst h <;> rfl)
  ⟨q', outs, h1, h2, h3⟩
-- … and the model computes this on it: a `DoublePriorityQueue` whose peeks are the extremes of what is stored
example : hist_okR (run (Q.new .dpq) exOps) (fun r => r.1.kind = .dpq ∧ r.1.s.WF ∧ r.1.s.size = 4 ∧
    r.1.s.map = #[(⟨4, 1⟩, 9), (⟨2, 98⟩, 12), (⟨3, 99⟩, 7), (⟨5, 0⟩, 9)] ∧
    (DQ.peekMin r.1.s).toOption = some (some (⟨3, 99⟩, 7)) ∧
    (DQ.peekMax r.1.s).toOption.map (·.2) = some (some (⟨2, 98⟩, 12))) := by decide +kernel

/-- `n` entries, priorities `(7 * i) % 5` (ties for `n > 5`) -/
private def exN (n : Nat) : Array (Item × Nat) := Array.ofFn (n := n) fun i => (⟨i.val, 0⟩, (7 * i.val) % 5)

-- sizes 1, 2, 3 (the three branches of `find_max`) and 17 (five levels): `pop_min`/`pop_max` interleaved until empty
-- and beyond; each answer is a minimum/maximum of what remained
example : hist_okR (run (Q.new .dpq) [.fromVec (exN 1), .popBack, .popFront]) (fun r =>
    r.2.map (fun o => (hist_outEntry o).map (·.map (·.2))) = [none, some (some 0), some none]) := by decide +kernel
example : hist_okR (run (Q.new .dpq) [.fromVec (exN 2), .popBack, .popBack, .popFront]) (fun r =>
    r.2.map (fun o => (hist_outEntry o).map (·.map (·.2))) = [none, some (some 2), some (some 0), some none]) := by
  decide +kernel
example : hist_okR (run (Q.new .dpq) [.fromVec (exN 3), .popBack, .popFront, .popBack, .popBack]) (fun r =>
    r.2.map (fun o => (hist_outEntry o).map (·.map (·.2))) = [none, some (some 4), some (some 0), some (some 2), some none]) := by
  decide +kernel
example : hist_okR (DQ.fromVec (exN 17)) (fun s => s.size = 17 ∧
    hist_okR (DQ.sortedCalls [false, true, true, false, false, true, false, true, true, false, false, true, false, true,
      true, false, false, true, false] s) (fun r => r.1.map (·.map (·.2)) =
      [some 0, some 4, some 4, some 0, some 0, some 4, some 0, some 3, some 3, some 1, some 1, some 3, some 1, some 2,
       some 2, some 2, some 2, none, none] ∧ r.2.size = 0)) := by decide +kernel

end Examples

end PQ

#print axioms PQ.C02_reach
#print axioms PQ.C02_reach_new
#print axioms PQ.C02_peekMin_min
#print axioms PQ.C02_peekMax_max
#print axioms PQ.C02_peek_history
#print axioms PQ.C02_popMin_eq_peekMin
#print axioms PQ.C02_popMax_eq_peekMax
#print axioms PQ.C02_popMinIf_sees_peekMin
#print axioms PQ.C02_popMaxIf_sees_peekMax
#print axioms PQ.C02_peekMinMut_eq
#print axioms PQ.C02_peekMaxMut_eq
#print axioms PQ.C02_next_after_history
#print axioms PQ.C02_interleaved
#print axioms PQ.C02_interleaved_each
