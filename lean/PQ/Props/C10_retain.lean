import PQ.Lemmas.TablesOnlyPQ
import PQ.Lemmas.TablesOnlyDQ
import PQ.Model.Ops
import PQ.Lemmas.PQSafe
import PQ.Lemmas.History
/-!
# C10 — supplement: a panic of the closure of `retain` / `retain_mut` (or of the `Drop` of a rejected element)

`Store::retain_mut` is

```rust
self.map.retain2(|i, p| f(i, p));                 // (1) user code runs in here
if self.map.len() != self.size { … rebuild heap, qp, size … }   // (2)
```

The closure (and the `Drop` of every element it rejects) runs *inside* `IndexMap::retain` (1), before the crate touches
its own tables (2).  `IndexMap::retain` is `Vec::retain_mut` on the entry vector; when the closure panics at entry `j`,
`Vec::retain_mut`'s drop guard closes the gap: the vector is left holding **the kept images of the entries `0..j`
followed by the unprocessed entries `j..`** (the panicking entry included; a panicking `Drop` of the rejected entry `j`
is the same with `j+1` for `j`).  Statement (2) is never reached, so `heap`, `qp` and `size` are those of the old queue:
the map is SHORTER than the tables say.  This is the one reachable family of states of the crate that is NOT well-formed
(`Store.WF`) — every other panic point leaves a well-formed store (`C10_crash_state_wf`, `C10_callback_crash_state_wf`,
`C10_clear_drop_crash_is_clear`).

What remains true is `Store.TablesOnlyWF` (`PQ/Lemmas/TablesOnly.lean`): the two index tables are mutually inverse
bijections of `0..size`, have length `size`, and the map has AT MOST `size` entries.  This file proves

* (a) `C10_retain_pred_crash_twf` — the crash state satisfies it, whatever the predicate did (it may have rewritten items
  and priorities, changed keys, written to the entry it panicked on: `C10_retain_crash_any_shorter_map`), and it is NOT
  well-formed as soon as one processed entry was rejected (`C10_retain_pred_crash_not_wf`);
* (b) `C10_tables_only_step` / `C10_tables_only_never_oob` — from ANY store with that invariant, EVERY operation of both
  queue kinds either returns a store with that invariant again, or stops with `Fault.unwrapNone` — the crate's own
  `Option::unwrap()` on `map.get_index(..)`, an ordinary panic.  It is never `Fault.oob` (an unchecked access out of
  bounds: undefined behaviour), never `Fault.arith`, `Fault.indexPanic`, `Fault.fuel`, `Fault.capacity`;
* (c) `C10_tables_only_history` — hence for every history of legal operations from such a state, in which the first
  ordinary panic ends the history (the model of `run`): no unchecked access is ever out of bounds.

* `C10_tables_only_retain_repairs` — and calling `retain` again (any key-preserving closure; this part uses a total
  preorder on priorities, like every ordering theorem) returns a queue satisfying its FULL invariant; so do `clear`,
  `drain` and the constructors.  (`From<other kind>` and a dropped `iter_mut` guard rebuild the heap but not the tables:
  they keep the tables-only invariant and do not repair.)

In (a)–(c) no hypothesis on the priorities' order is used (`[LT P] [DecidableLT P]` only: any `Ord`, lawful or not), and of
`Op.Legal` only `o.WF` for the other queue of `append` and the legality of the `size_hint` of `extend` / `from_iter` are
used: the invariant does not mention keys, so closures may even change the identity of items.

Why `Fault.arith` cannot happen: `size -= 1` (sites 108, 118) is reached only behind `size != 0` (`pop*`: the `match` on
`size` / `find_min` / `find_max`) or behind a successful map lookup (`remove`: the map is non-empty, and `map.len() ≤ size`
is part of the invariant — this is where `map_le` is needed); `parent(i)` (sites 208, 302, 305, 307, 309, 326) is reached with
`size ≥ 2` resp. on a grandchild; the `IterMut` length subtractions (401, 402) only depend on the cursors.

Scope: the model's `IMap` is a consistent IndexMap.  After a panic inside `IndexMap::retain` the real IndexMap's *hash
index* is stale too (its rebuild is skipped like the crate's); IndexMap is safe code and the trusted base — its lookups
then panic (bounds-checked) or answer a slot `< map.len()`.  The theorems below do not depend on WHICH slot a lookup answers,
only on its being a slot of the map (`find?_lt_size`), which is why they are stated for an arbitrary shorter map.
-/
set_option linter.unusedSimpArgs false
set_option linter.unusedSectionVars false
set_option linter.unusedVariables false
namespace PQ
open TO
variable {P : Type}

/-! ## (a) the crash state -/

/-- what a panic of the closure of `retain` / `retain_mut` **on entry** `j` leaves: the kept (possibly rewritten) images of
the first `j` entries, then the unprocessed entries `j..`; tables and `size` untouched.  (A panicking `Drop` of the
rejected entry `j` is `retainPredCrash s f (j+1)`.) -/
def retainPredCrash (s : Store P) (f : Item → P → Bool × Item × P) (j : Nat) : Store P :=
  { s with map := IMap.retain (s.map.extract 0 j) f ++ s.map.extract j s.map.size }

/-- … when the closure first wrote through the `&mut I` / `&mut P` it was handed and only then panicked: entry `j` is
left as `e'` -/
def retainPredCrashW (s : Store P) (f : Item → P → Bool × Item × P) (j : Nat) (e' : Item × P) : Store P :=
  { s with map := IMap.retain (s.map.extract 0 j) f ++ #[e'] ++ s.map.extract (j + 1) s.map.size }

/-- the general form: tables and `size` of a well-formed store over ANY map that is not longer -/
theorem C10_retain_crash_any_shorter_map {s : Store P} (h : s.WF) (m' : IMap P) (hm : m'.size ≤ s.map.size) :
    ({ s with map := m' } : Store P).TablesOnlyWF :=
  ⟨h.heap_size, h.qp_size, by show m'.size ≤ s.size; rw [← h.map_size]; exact hm, h.heap_qp, h.qp_heap⟩

theorem retainPredCrash_map_size (s : Store P) (f : Item → P → Bool × Item × P) {j : Nat} (hj : j ≤ s.map.size) :
    (retainPredCrash s f j).map.size = (IMap.retain (s.map.extract 0 j) f).size + (s.map.size - j) := by
  simp [retainPredCrash]

/-- **(a)** the state left by a panic of the `retain` closure at any entry `j`, for any closure `f`, satisfies the
tables-only invariant -/
theorem C10_retain_pred_crash_twf {s : Store P} (h : s.WF) (f : Item → P → Bool × Item × P) {j : Nat}
    (hj : j ≤ s.map.size) : (retainPredCrash s f j).TablesOnlyWF := by
  refine C10_retain_crash_any_shorter_map h _ ?_
  have h1 := IMap.size_retain_le (s.map.extract 0 j) f
  have h2 : (s.map.extract 0 j).size = j := by simp; omega
  simp only [Array.size_append, Array.size_extract]
  omega

/-- … also when the closure wrote to the entry it panicked on -/
theorem C10_retain_pred_crashW_twf {s : Store P} (h : s.WF) (f : Item → P → Bool × Item × P) {j : Nat}
    (hj : j < s.map.size) (e' : Item × P) : (retainPredCrashW s f j e').TablesOnlyWF := by
  refine C10_retain_crash_any_shorter_map h _ ?_
  have h1 := IMap.size_retain_le (s.map.extract 0 j) f
  have h2 : (s.map.extract 0 j).size = j := by simp; omega
  simp only [Array.size_append, Array.size_extract, List.size_toArray, List.length_cons, List.length_nil]
  omega

/-- the crash state is NOT well-formed as soon as one of the processed entries was rejected (the map is strictly shorter
than `size`): the family is genuinely outside the reach of the `WF`-based theorems -/
theorem C10_retain_pred_crash_not_wf {s : Store P} (h : s.WF) (f : Item → P → Bool × Item × P) {j : Nat}
    (hj : j ≤ s.map.size) (hrej : (IMap.retain (s.map.extract 0 j) f).size < j) : ¬ (retainPredCrash s f j).WF := by
  intro hw
  have h1 : (retainPredCrash s f j).map.size = s.size := hw.map_size
  rw [retainPredCrash_map_size s f hj, ← h.map_size] at h1
  omega

/-- nothing was rejected before the panic: the crash state is the old store with rewritten entries, tables included -/
theorem C10_retain_pred_crash_tables (s : Store P) (f : Item → P → Bool × Item × P) (j : Nat) :
    (retainPredCrash s f j).heap = s.heap ∧ (retainPredCrash s f j).qp = s.qp ∧
      (retainPredCrash s f j).size = s.size ∧ (retainPredCrash s f j).ticks = s.ticks := ⟨rfl, rfl, rfl, rfl⟩

theorem to_keys_filterMap_sublist (f : Item → P → Bool × Item × P) (hf : ∀ it p, (f it p).2.1.key = it.key) :
    ∀ l : List (Item × P), ((l.filterMap (IMap.retainStep f)).map (·.1.key)).Sublist (l.map (·.1.key)) := by
  intro l
  induction l with
  | nil => exact List.Sublist.refl _
  | cons e l ih =>
    rw [List.filterMap_cons]
    cases hr : IMap.retainStep f e with
    | none => simp only [List.map_cons]; exact ih.cons _
    | some b =>
      have hb : b.1.key = e.1.key := by
        unfold IMap.retainStep at hr
        dsimp only at hr
        split at hr
        · cases hr; exact hf _ _
        · cases hr
      simp only [List.map_cons, hb]
      exact ih.cons_cons _

/-- with a key-preserving closure the map of the crash state still has unique keys -/
theorem C10_retain_pred_crash_nodup {s : Store P} (h : s.WF) (f : Item → P → Bool × Item × P)
    (hf : ∀ it p, (f it p).2.1.key = it.key) (j : Nat) : (retainPredCrash s f j).map.NoDupKeys := by
  rw [IMap.noDupKeys_iff_nodup]
  have hn := IMap.noDupKeys_iff_nodup.1 h.nodup
  refine List.Nodup.sublist ?_ hn
  have hsplit : s.map.toList = (s.map.extract 0 j).toList ++ (s.map.extract j s.map.size).toList := by
    simp only [Array.toList_extract, List.extract_eq_take_drop, List.drop_zero, Nat.sub_zero]
    rw [List.take_of_length_le (i := s.map.size - j) (l := List.drop j s.map.toList) (by simp), List.take_append_drop]
  rw [hsplit]
  simp only [retainPredCrash, Array.toList_append, List.map_append, IMap.toList_retain']
  exact List.Sublist.append (to_keys_filterMap_sublist f hf _) (List.Sublist.refl _)

/-! ## (b) every operation, both kinds -/

section Step
variable [LT P] [DecidableLT P]

theorem to_size_applyWrite (m : IMap P) (i : Nat) (w : IMWrite P) : (IMap.applyWrite m i w).size = m.size := by
  unfold IMap.applyWrite
  split
  · exact Array.size_setIfInBounds ..
  · rfl

theorem to_dIterMut_step (n : Nat) (it : DIterMut) (c : ICall) (h : it.pos ≤ it.back) :
    SafeR (fun r => r.1.pos ≤ r.1.back) (it.step n c) := by
  cases c <;> simp only [DIterMut.step]
  · split
    · exact SafeR.pure h
    · exact SafeR.pure (by show it.pos + 1 ≤ it.back; omega)
  · split
    · exact SafeR.pure h
    · exact SafeR.pure (by show it.pos ≤ it.back - 1; omega)
  · rw [if_neg (by omega)]; exact SafeR.pure h
  · rw [if_neg (by omega)]; exact SafeR.pure h

theorem to_iterMutRun_cons (kind : Kind) (n : Nat) (c : ICall) (w : IMWrite P) (rest : List (ICall × IMWrite P))
    (pit : PIterMut) (dit : DIterMut) (m : IMap P) :
    iterMutRun kind n ((c, w) :: rest) pit dit m =
      ((match kind with
        | .pq => pure ((pit.step n c).1, dit, (pit.step n c).2)
        | .dpq => dit.step n c >>= fun r => pure (pit, r.1, r.2) : R (PIterMut × DIterMut × IOut)) >>= fun r =>
        iterMutRun kind n rest r.1 r.2.1
            (match r.2.2 with | .slot (some i) => IMap.applyWrite m i w | _ => m) >>= fun r2 =>
          pure (r.2.2 :: r2.1, r2.2)) := by
  cases kind
  · rfl
  · simp only [iterMutRun]
    cases dit.step n c <;> rfl

/-- an `iter_mut` program never faults and keeps the length of the map (no hypothesis on the store at all) -/
theorem to_iterMutRun (kind : Kind) (n : Nat) : ∀ (prog : List (ICall × IMWrite P)) (pit : PIterMut) (dit : DIterMut)
    (m : IMap P), dit.pos ≤ dit.back → SafeR (fun r => r.2.size = m.size) (iterMutRun kind n prog pit dit m) := by
  intro prog
  induction prog with
  | nil => intro pit dit m _; exact SafeR.pure rfl
  | cons cw rest ih =>
    intro pit dit m hd
    obtain ⟨c, w⟩ := cw
    rw [to_iterMutRun_cons]
    refine SafeR.bind (Q := fun r => r.2.1.pos ≤ r.2.1.back) ?_ fun r hr => ?_
    · cases kind
      · exact SafeR.pure hd
      · exact SafeR.bind (to_dIterMut_step n dit c hd) fun r hr => SafeR.pure hr
    · refine SafeR.bind (ih r.1 r.2.1 _ hr) fun r2 hr2 => ?_
      refine SafeR.pure ?_
      show r2.2.size = m.size
      rw [hr2]
      split
      · exact to_size_applyWrite ..
      · rfl

theorem to_heapBuildK {s : Store P} (kind : Kind) (h : s.TablesOnlyWF) :
    SafeR (fun s' => s'.TablesOnlyWF) (heapBuildK kind s) := by
  cases kind
  · exact SafeR.mono (TO.MaxQ.heapBuild_to h) fun _ hs => hs.1
  · exact SafeR.mono (TO.DQ.heapBuild_to h) fun _ hs => hs.1

/-- lift a store-level result to the queue-level one of `step` -/
theorem to_lift {α : Type} {kind : Kind} {x : R (Store P × α)} (g : α → Out P)
    (hx : SafeR (fun r => r.1.TablesOnlyWF) x) :
    SafeR (fun r : Q P × Out P => r.1.s.TablesOnlyWF)
      (x >>= fun r => pure (({ kind := kind, s := r.1 } : Q P), g r.2)) :=
  SafeR.bind hx fun r hr => SafeR.pure hr

theorem to_lift1 {kind : Kind} {x : R (Store P)} (o : Out P) (hx : SafeR (fun s => s.TablesOnlyWF) x) :
    SafeR (fun r : Q P × Out P => r.1.s.TablesOnlyWF)
      (x >>= fun s => pure (({ kind := kind, s := s } : Q P), o)) :=
  SafeR.bind hx fun r hr => SafeR.pure hr

/-- **(b)** from the tables-only invariant, every operation `op` of either queue kind (`Op.Legal` as everywhere: the
other queue of `append` is a queue, the `size_hint` of `extend`/`from_iter` is a legal one) either returns a store with
the tables-only invariant, or stops with the ordinary panic `unwrapNone` -/
theorem C10_tables_only_step {q : Q P} {op : Op P} (h : q.s.TablesOnlyWF) (hl : op.Legal) :
    SafeR (fun r => r.1.s.TablesOnlyWF) (step q op) := by
  obtain ⟨kind, s⟩ := q
  change s.TablesOnlyWF at h
  cases op with
  | push it p =>
    cases kind
    · exact to_lift _ (TO.MaxQ.push_to h it p)
    · exact to_lift _ (TO.DQ.push_to h it p)
  | pushIncrease it p =>
    cases kind
    · exact to_lift _ (TO.MaxQ.pushIncrease_to h it p)
    · exact to_lift _ (TO.DQ.pushIncrease_to h it p)
  | pushDecrease it p =>
    cases kind
    · exact to_lift _ (TO.MaxQ.pushDecrease_to h it p)
    · exact to_lift _ (TO.DQ.pushDecrease_to h it p)
  | changePriority k p =>
    cases kind
    · exact to_lift _ (TO.MaxQ.changePriority_to h k p)
    · exact to_lift _ (TO.DQ.changePriority_to' h k p)
  | changePriorityBy k g =>
    cases kind
    · exact to_lift _ (TO.MaxQ.changePriorityBy_to h k g)
    · exact to_lift _ (TO.DQ.changePriorityBy_to' h k g)
  | remove k =>
    cases kind
    · exact to_lift _ (TO.MaxQ.remove_to h k)
    · exact to_lift _ (TO.DQ.remove_to' h k)
  | getMut k w =>
    have hg := getMutWrite_to s k w
    simp only [step]
    obtain ⟨h1, h2, h3, h4, _⟩ := hg
    exact SafeR.pure (towf_of_tab (n := s.size) ((towf_iff.1 h).1.congr h1 h2) h3 (by rw [h4]; exact h.map_le))
  | popFront =>
    cases kind
    · exact to_lift _ (TO.MaxQ.pop_to h)
    · exact to_lift _ (TO.DQ.popMin_to h)
  | popBack =>
    cases kind
    · exact SafeR.pure h
    · exact to_lift _ (TO.DQ.popMax_to h)
  | popFrontIf f =>
    cases kind
    · exact to_lift _ (TO.MaxQ.popIf_to h f)
    · exact to_lift _ (TO.DQ.popMinIf_to h f)
  | popBackIf f =>
    cases kind
    · exact SafeR.pure h
    · exact to_lift _ (TO.DQ.popMaxIf_to h f)
  | peekFrontMut w =>
    cases kind
    · exact to_lift _ (TO.MaxQ.peekMutWrite_to h w)
    · exact to_lift _ (TO.DQ.peekMinMutWrite_to h w)
  | peekBackMut w =>
    cases kind
    · exact SafeR.pure h
    · exact to_lift _ (TO.DQ.peekMaxMutWrite_to h w)
  | retainMut f =>
    cases kind
    · exact to_lift1 _ (TO.MaxQ.retainMut_to h f)
    · exact to_lift1 _ (TO.DQ.retainMut_to h f)
  | iterMut leak prog =>
    unfold step
    dsimp only
    refine SafeR.bind (to_iterMutRun kind s.map.size prog PIterMut.new (DIterMut.new s.map.size) s.map
      (Nat.zero_le _)) fun r hr => ?_
    obtain ⟨outs, m⟩ := r
    dsimp only at hr ⊢
    have h1 : ({ s with map := m } : Store P).TablesOnlyWF := towf_map_update h (Nat.le_of_eq hr)
    cases leak
    · exact SafeR.bind (to_heapBuildK kind h1) fun s' hs' => SafeR.pure hs'
    · exact SafeR.pure h1
  | extend lo xs =>
    have hlo : lo < capLimit := Nat.lt_of_le_of_lt hl.1 hl.2
    cases kind
    · exact to_lift1 _ (TO.MaxQ.extend_to h hlo xs)
    · exact to_lift1 _ (TO.DQ.extend_to h hlo xs)
  | append o =>
    have ho : o.TablesOnlyWF := towf_of_wf hl
    cases kind
    · exact SafeR.bind (TO.MaxQ.append_to h ho) fun r hr => SafeR.pure hr
    · exact SafeR.bind (TO.DQ.append_to h ho) fun r hr => SafeR.pure hr
  | fromVec xs =>
    have h0 : (Store.fromVec xs).TablesOnlyWF := towf_of_wf (Store.wf_fromVec xs)
    cases kind
    · exact to_lift1 _ (SafeR.mono (TO.MaxQ.heapBuild_to h0) fun _ hs => hs.1)
    · exact to_lift1 _ (SafeR.mono (TO.DQ.heapBuild_to h0) fun _ hs => hs.1)
  | fromIter lo xs =>
    have hlo : lo < capLimit := Nat.lt_of_le_of_lt hl.1 hl.2
    have h0 : (Store.fromIter xs).TablesOnlyWF := towf_of_wf (Store.wf_fromIter xs)
    cases kind
    · refine to_lift1 _ ?_
      rw [PQ.MaxQ.fromIter_of_lt xs hlo]
      exact SafeR.mono (TO.MaxQ.heapBuild_to h0) fun _ hs => hs.1
    · refine to_lift1 _ ?_
      rw [PQ.DQ.fromIter_of_lt xs hlo]
      exact SafeR.mono (TO.DQ.heapBuild_to h0) fun _ hs => hs.1
  | deserialize hint xs =>
    have h0 : (Store.visitSeq xs).TablesOnlyWF := towf_of_wf (Store.wf_visitSeq xs)
    cases kind
    · refine to_lift1 _ ?_
      rw [PQ.MaxQ.deserialize_eq]
      exact SafeR.mono (TO.MaxQ.heapBuild_to h0) fun _ hs => hs.1
    · refine to_lift1 _ ?_
      rw [PQ.DQ.deserialize_eq]
      exact SafeR.mono (TO.DQ.heapBuild_to h0) fun _ hs => hs.1
  | convert =>
    cases kind
    · exact SafeR.bind (TO.DQ.ofStore_to h) fun s' hs' => SafeR.pure hs'
    · exact SafeR.bind (TO.MaxQ.ofStore_to h) fun s' hs' => SafeR.pure hs'
  | clear => exact SafeR.pure (towf_clear s)
  | drain => exact SafeR.pure (towf_drain s)
  | capacityOp => exact SafeR.pure h

/-- **(b), spelled out.**  From the tables-only invariant and for every legal operation of either kind:
no unchecked access is out of bounds (`Fault.oob`, any site), no checked subtraction underflows (`Fault.arith`, any
site), the only fault there can be is `unwrapNone` (so none of `indexPanic`, `fuel`, `capacity`, `userPanic` either), and a
returned store satisfies the tables-only invariant again -/
theorem C10_tables_only_never_oob {q : Q P} {op : Op P} (h : q.s.TablesOnlyWF) (hl : op.Legal) :
    (∀ site, step q op ≠ .error (.oob site)) ∧ (∀ site, step q op ≠ .error (.arith site)) ∧
    (∀ f, step q op = .error f → ∃ site, f = .unwrapNone site) ∧
    (∀ q' o, step q op = .ok (q', o) → q'.s.TablesOnlyWF) :=
  have hs := C10_tables_only_step h hl
  ⟨hs.not_oob, hs.not_arith, fun _ hf => hs.of_error hf, fun _ _ hok => hs.of_ok hok⟩

/-- the operations that do not look at the old tables give back full well-formedness, whatever the state was -/
theorem C10_tables_only_reset_wf (q : Q P) :
    (∃ q', step q .clear = .ok (q', .unit) ∧ q'.s.WF) ∧
    (∃ q', step q .drain = .ok (q', .entries q.s.map.toList) ∧ q'.s.WF) :=
  ⟨⟨_, rfl, Store.wf_clear q.s⟩, ⟨_, rfl, Store.wf_drain q.s⟩⟩

/-! ## (c) histories -/

/-- **(c)** every history of legal operations from a tables-only state — `run` ends the history at the first fault, which
can only be the ordinary panic `unwrapNone` — ends in a tables-only state or in that panic -/
theorem C10_tables_only_history (ops : List (Op P)) : ∀ {q : Q P}, q.s.TablesOnlyWF → (∀ op ∈ ops, op.Legal) →
    SafeR (fun r => r.1.s.TablesOnlyWF) (run q ops) := by
  induction ops with
  | nil => intro q h _; exact SafeR.pure h
  | cons op ops ih =>
    intro q h hl
    unfold run
    refine SafeR.bind (C10_tables_only_step h (hl op (List.mem_cons_self ..))) fun r hr => ?_
    obtain ⟨q', o⟩ := r
    dsimp only at hr ⊢
    refine SafeR.bind (ih hr fun op' hop' => hl op' (List.mem_cons_of_mem _ hop')) fun r2 hr2 => ?_
    exact SafeR.pure hr2

/-- … in particular no history of legal operations from a tables-only state ever performs an out-of-bounds unchecked
access, nor an arithmetic underflow: if it stops, it stops with `unwrapNone` -/
theorem C10_tables_only_history_never_oob (ops : List (Op P)) {q : Q P} (h : q.s.TablesOnlyWF)
    (hl : ∀ op ∈ ops, op.Legal) :
    (∀ site, run q ops ≠ .error (.oob site)) ∧ (∀ site, run q ops ≠ .error (.arith site)) ∧
    (∀ f, run q ops = .error f → ∃ site, f = .unwrapNone site) ∧
    (∀ q' outs, run q ops = .ok (q', outs) → q'.s.TablesOnlyWF) :=
  have hs := C10_tables_only_history ops h hl
  ⟨hs.not_oob, hs.not_arith, fun _ hf => hs.of_error hf, fun _ _ hok => hs.of_ok hok⟩

/-- the whole scenario: a well-formed queue of either kind, `retain` / `retain_mut` with ANY closure panicking at ANY
entry, then ANY history of legal operations: never an out-of-bounds unchecked access -/
theorem C10_retain_pred_crash_then_any_history (k : Kind) {s : Store P} (h : s.WF) (f : Item → P → Bool × Item × P)
    {j : Nat} (hj : j ≤ s.map.size) (ops : List (Op P)) (hl : ∀ op ∈ ops, op.Legal) :
    (∀ site, run (⟨k, retainPredCrash s f j⟩ : Q P) ops ≠ .error (.oob site)) ∧
    (∀ site, run (⟨k, retainPredCrash s f j⟩ : Q P) ops ≠ .error (.arith site)) ∧
    (∀ flt, run (⟨k, retainPredCrash s f j⟩ : Q P) ops = .error flt → ∃ site, flt = .unwrapNone site) ∧
    (∀ q' outs, run (⟨k, retainPredCrash s f j⟩ : Q P) ops = .ok (q', outs) → q'.s.TablesOnlyWF) :=
  C10_tables_only_history_never_oob ops (q := ⟨k, retainPredCrash s f j⟩) (C10_retain_pred_crash_twf h f hj) hl

end Step

/-! ## `retain` repairs the crash state (and `clear`, `drain`, the constructors: `C10_tables_only_reset_wf`) -/
section Repair
variable [LT P] [DecidableLT P] [LE P] [Std.IsLinearPreorder P] [Std.LawfulOrderLT P]

omit [LT P] [DecidableLT P] [LE P] [Std.IsLinearPreorder P] [Std.LawfulOrderLT P] in
/-- the store-level `retain_mut` on a tables-only state with unique keys gives a WELL-FORMED store: the map of such a state
is shorter than `size` (or the state is well-formed already), so the tables are rebuilt from scratch -/
theorem C10_tables_only_retainMut_wf {s : Store P} (h : s.TablesOnlyWF) (hn : s.map.NoDupKeys)
    {g : Item → P → Bool × Item × P} (hg : ∀ it p, (g it p).2.1.key = it.key) : (s.retainMut g).WF := by
  by_cases hm : s.map.size = s.size
  · exact Store.wf_retainMut (wf_iff_towf.2 ⟨h, hm, hn⟩) hg
  · have hlt : (s.map.retain g).size ≠ s.size := by
      have h1 := IMap.size_retain_le s.map g
      have h2 := h.map_le
      omega
    rw [Store.retainMut_of_size_ne hlt]
    exact Store.wf_identity (hn.retain hg) s.ticks

/-- **`retain` repairs.**  On a tables-only state with unique keys, `retain` / `retain_mut` with any key-preserving closure
`g` runs without any fault and returns a queue satisfying the FULL invariant of its kind (well-formed and correctly
ordered) that holds exactly the entries `g` keeps -/
theorem C10_tables_only_retain_repairs {q : Q P} (h : q.s.TablesOnlyWF) (hn : q.s.map.NoDupKeys)
    (g : Item → P → Bool × Item × P) (hg : (Op.retainMut g).Legal) :
    ∃ q', step q (.retainMut g) = .ok (q', .unit) ∧ QInv q' ∧ q'.kind = q.kind ∧ q'.s.map = q.s.map.retain g := by
  obtain ⟨kind, s⟩ := q
  have hw := C10_tables_only_retainMut_wf h hn hg
  cases kind
  · obtain ⟨s', h1, h2, h3, _, h5⟩ := MaxQ.heapBuild_spec hw
    refine ⟨⟨.pq, s'⟩, ?_, ⟨h2, h5⟩, rfl, by show s'.map = _; rw [h3, Store.retainMut_map]⟩
    show (MaxQ.retainMut s g >>= _) = _
    unfold MaxQ.retainMut
    rw [h1]; rfl
  · obtain ⟨s', h1, h2, h3, _, h5⟩ := DQ.heapBuild_spec hw
    refine ⟨⟨.dpq, s'⟩, ?_, ⟨h2, h5⟩, rfl, by show s'.map = _; rw [h3, Store.retainMut_map]⟩
    show (DQ.retainMut s g >>= _) = _
    unfold DQ.retainMut
    rw [h1]; rfl

/-- the scenario: a well-formed queue, `retain` with a key-preserving closure `f` that panics at entry `j`, the panic is
caught, `retain` is called again with any key-preserving closure `g`: no fault, and the queue satisfies its full invariant
again -/
theorem C10_retain_pred_crash_repaired_by_retain (k : Kind) {s : Store P} (h : s.WF) (f : Item → P → Bool × Item × P)
    (hf : ∀ it p, (f it p).2.1.key = it.key) {j : Nat} (hj : j ≤ s.map.size) (g : Item → P → Bool × Item × P)
    (hg : ∀ it p, (g it p).2.1.key = it.key) :
    ∃ q', step (⟨k, retainPredCrash s f j⟩ : Q P) (.retainMut g) = .ok (q', .unit) ∧ QInv q' ∧
      q'.s.map = (retainPredCrash s f j).map.retain g :=
  have ⟨q', h1, h2, _, h4⟩ := C10_tables_only_retain_repairs (q := ⟨k, retainPredCrash s f j⟩)
    (C10_retain_pred_crash_twf h f hj) (C10_retain_pred_crash_nodup h f hf j) g hg
  ⟨q', h1, h2, h4⟩

/-- the constructors do not look at the old state at all: on ANY queue (tables-only or worse) `From<Vec>`,
`FromIterator` (legal `size_hint`) and `Deserialize` (any announced length) run without fault and return a well-formed
queue -/
theorem C10_tables_only_constructors_wf (q : Q P) :
    (∀ xs, ∃ q', step q (.fromVec xs) = .ok (q', .unit) ∧ q'.s.WF) ∧
    (∀ lo xs, (Op.fromIter lo xs : Op P).Legal → ∃ q', step q (.fromIter lo xs) = .ok (q', .unit) ∧ q'.s.WF) ∧
    (∀ hint xs, ∃ q', step q (.deserialize hint xs) = .ok (q', .unit) ∧ q'.s.WF) := by
  obtain ⟨kind, s⟩ := q
  refine ⟨fun xs => ?_, fun lo xs hl => ?_, fun hint xs => ?_⟩
  · cases kind
    · obtain ⟨s', h1, h2, _⟩ := MaxQ.fromVec_safe xs
      exact ⟨⟨.pq, s'⟩, by show (MaxQ.fromVec xs >>= _) = _; rw [h1]; rfl, h2⟩
    · obtain ⟨s', h1, h2, _⟩ := DQ.fromVec_safe xs
      exact ⟨⟨.dpq, s'⟩, by show (DQ.fromVec xs >>= _) = _; rw [h1]; rfl, h2⟩
  · have hlo : lo < capLimit := Nat.lt_of_le_of_lt hl.1 hl.2
    cases kind
    · obtain ⟨s', h1, h2, _⟩ := MaxQ.fromIter_safe lo xs hlo
      exact ⟨⟨.pq, s'⟩, by show (MaxQ.fromIter lo xs >>= _) = _; rw [h1]; rfl, h2⟩
    · obtain ⟨s', h1, h2, _⟩ := DQ.fromIter_safe lo xs hlo
      exact ⟨⟨.dpq, s'⟩, by show (DQ.fromIter lo xs >>= _) = _; rw [h1]; rfl, h2⟩
  · cases kind
    · obtain ⟨s', h1, h2, _⟩ := MaxQ.deserialize_safe hint xs
      exact ⟨⟨.pq, s'⟩, by show (MaxQ.deserialize hint xs >>= _) = _; rw [h1]; rfl, h2⟩
    · obtain ⟨s', h1, h2, _⟩ := DQ.deserialize_safe hint xs
      exact ⟨⟨.dpq, s'⟩, by show (DQ.deserialize hint xs >>= _) = _; rw [h1]; rfl, h2⟩

end Repair

/-! ## Non-vacuity: a five-element queue, a predicate that panics at the third element -/
section Examples

/-- five entries, heap order `9 7 8 1 5` (a max-heap), non-identity tables -/
def rc_s5 : Store Nat :=
  { map := #[(⟨1, 10⟩, 5), (⟨2, 20⟩, 9), (⟨3, 30⟩, 1), (⟨4, 40⟩, 8), (⟨5, 50⟩, 7)],
    heap := #[1, 4, 3, 2, 0], qp := #[4, 0, 3, 2, 1], size := 5 }

/-- keep the entries whose priority is not a multiple of 3, bump the payload; the panic comes at the third entry (`j = 2`) -/
def rc_f : Item → Nat → Bool × Item × Nat := fun it p => (p % 3 != 0, ⟨it.key, it.payload + 1⟩, p)

/-- the crash state: entry 0 kept (rewritten), entry 1 rejected, entries 2.. unprocessed; four entries under tables of five -/
def rc_crash : Store Nat := retainPredCrash rc_s5 rc_f 2

example : rc_s5.WF ∧ MaxQ.Inv rc_s5 := by decide +kernel
example : rc_crash.map = #[(⟨1, 11⟩, 5), (⟨3, 30⟩, 1), (⟨4, 40⟩, 8), (⟨5, 50⟩, 7)] ∧ rc_crash.heap = rc_s5.heap ∧
    rc_crash.qp = rc_s5.qp ∧ rc_crash.size = 5 := by decide +kernel
/-- the crash state satisfies the tables-only invariant and is NOT well-formed -/
example : rc_crash.TablesOnlyWF ∧ ¬ rc_crash.WF := by decide +kernel
example : (IMap.retain (rc_s5.map.extract 0 2) rc_f).size < 2 := by decide +kernel

private def rcNoOob {α : Type} (r : R α) : Bool :=
  match r with
  | .ok _ => true
  | .error (.unwrapNone _) => true
  | .error _ => false

private def rcIsUnwrap {α : Type} (r : R α) : Bool :=
  match r with
  | .error (.unwrapNone _) => true
  | _ => false

private def rcOkTO (r : R (Q Nat × Out Nat)) : Prop :=
  match r with
  | .ok (q', _) => q'.s.TablesOnlyWF
  | .error _ => False

private instance (r : R (Q Nat × Out Nat)) : Decidable (rcOkTO r) := by unfold rcOkTO; split <;> infer_instance

private def rcOkWF (r : R (Q Nat × Out Nat)) (n : Nat) : Prop :=
  match r with
  | .ok (q', _) => q'.s.WF ∧ q'.s.size = n
  | .error _ => False

private instance (r : R (Q Nat × Out Nat)) (n : Nat) : Decidable (rcOkWF r n) := by unfold rcOkWF; split <;> infer_instance

/-- `pop` on the crash state does not fault with `oob`: it stops with the ordinary panic `unwrapNone` (the slot at the root is
slot 1, whose entry is now `(3, 1)`; the sift-down reads slot 4, which the map no longer has) -/
example : rcNoOob (MaxQ.pop rc_crash) = true ∧ rcIsUnwrap (MaxQ.pop rc_crash) = true := by decide +kernel
example : rcNoOob (DQ.popMin rc_crash) = true ∧ rcNoOob (DQ.popMax rc_crash) = true := by decide +kernel
private def rcRunTO (r : R (Q Nat × List (Out Nat))) (m n : Nat) : Prop :=
  match r with
  | .ok (q', _) => q'.s.TablesOnlyWF ∧ q'.s.map.size = m ∧ q'.s.size = n
  | .error _ => False

private instance (r : R (Q Nat × List (Out Nat))) (m n : Nat) : Decidable (rcRunTO r m n) := by
  unfold rcRunTO; split <;> infer_instance

/-- most operations on THIS crash state stop with `unwrapNone` (heap position 1 holds slot 4, which the map no longer has) -/
example : rcIsUnwrap (step ⟨.pq, rc_crash⟩ (.changePriority 3 0)) = true ∧
    rcIsUnwrap (step ⟨.pq, rc_crash⟩ (.push ⟨9, 0⟩ 4)) = true ∧
    rcIsUnwrap (step ⟨.dpq, rc_crash⟩ (.peekBackMut id)) = true ∧
    rcIsUnwrap (step ⟨.dpq, rc_crash⟩ .popBack) = true := by decide +kernel
/-- operations that succeed on the crash state and keep the invariant (the state stays NOT well-formed: 3 entries under
tables of 4, then 2 under 3) -/
example : rcOkTO (step ⟨.pq, rc_crash⟩ (.remove 1)) ∧ rcOkTO (step ⟨.dpq, rc_crash⟩ (.remove 1)) := by decide +kernel
example : rcRunTO (run ⟨.pq, rc_crash⟩ [.remove 1, .getMut 3 id, .iterMut true [], .peekFrontMut id]) 3 4 := by
  decide +kernel
example : rcRunTO (run ⟨.pq, rc_crash⟩ [.remove 1, .remove 4]) 2 3 ∧
    rcRunTO (run ⟨.dpq, rc_crash⟩ [.remove 1, .remove 4]) 2 3 := by decide +kernel
/-- `retain` (any predicate) rebuilds the tables: the queue is well-formed again, and stays so -/
example : rcOkWF (step ⟨.pq, rc_crash⟩ (.retainMut fun it p => (true, it, p))) 4 := by decide +kernel
example : rcOkWF (step ⟨.dpq, rc_crash⟩ (.retainMut fun it p => (true, it, p))) 4 := by decide +kernel
example : rcRunTO (run ⟨.pq, rc_crash⟩ [.remove 1, .retainMut (fun it p => (true, it, p)), .push ⟨9, 0⟩ 4, .popFront])
    3 3 := by decide +kernel
/-- whole histories on the crash state (both kinds) that stop: with `unwrapNone` -/
example : rcIsUnwrap (run ⟨.pq, rc_crash⟩ [.remove 1, .remove 3, .popFront]) = true := by decide +kernel
example : rcIsUnwrap (run ⟨.dpq, rc_crash⟩ [.remove 1, .remove 5, .push ⟨9, 0⟩ 4]) = true := by decide +kernel
/-- the hypotheses of `C10_tables_only_retain_repairs` hold of the crash state (`rc_f` keeps keys) -/
example : rc_crash.TablesOnlyWF ∧ rc_crash.map.NoDupKeys ∧ ∀ it p, (rc_f it p).2.1.key = it.key :=
  ⟨by decide +kernel, by decide +kernel, fun _ _ => rfl⟩
/-- the closure wrote to the entry it panicked on -/
example : (retainPredCrashW rc_s5 rc_f 2 (⟨3, 99⟩, 100)).TablesOnlyWF ∧ ¬ (retainPredCrashW rc_s5 rc_f 2 (⟨3, 99⟩, 100)).WF := by
  decide +kernel
/-- the hypotheses of (b)/(c) are satisfiable by legal operations -/
example : (Op.changePriority 3 0 : Op Nat).Legal ∧ (Op.popFront : Op Nat).Legal := ⟨trivial, trivial⟩

end Examples
end PQ

#print axioms PQ.C10_retain_crash_any_shorter_map
#print axioms PQ.C10_retain_pred_crash_twf
#print axioms PQ.C10_retain_pred_crashW_twf
#print axioms PQ.C10_retain_pred_crash_not_wf
#print axioms PQ.C10_retain_pred_crash_tables
#print axioms PQ.C10_retain_pred_crash_nodup
#print axioms PQ.C10_tables_only_step
#print axioms PQ.C10_tables_only_never_oob
#print axioms PQ.C10_tables_only_reset_wf
#print axioms PQ.C10_tables_only_history
#print axioms PQ.C10_tables_only_history_never_oob
#print axioms PQ.C10_retain_pred_crash_then_any_history
#print axioms PQ.C10_tables_only_retainMut_wf
#print axioms PQ.C10_tables_only_retain_repairs
#print axioms PQ.C10_retain_pred_crash_repaired_by_retain
#print axioms PQ.C10_tables_only_constructors_wf
