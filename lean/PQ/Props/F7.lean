import PQ.Lemmas.Spec
import PQ.Model.Ops
/-!
# Known finding F7 (C01 / C02 / C08): references yielded by `iter_mut` outlive the guard

`iter_mut` hands out `(&'a mut I, &'a mut P)` with the lifetime of the queue borrow and rebuilds the heap when the
*iterator* is dropped.  `Ops.iterMutLate` is what safe client code can therefore do: collect the references, let the guard
drop, write afterwards.  The statements C01 / C02 / C08 are FALSE for histories that contain such a step — of the model and of
the real crate alike (the witness below is replayed on the implementation by the checks of C01, C02 and C08, which print a
`KNOWN-FINDING` line while it reproduces).  The theorems proved in `Props/C01.lean`, `C02.lean`, `C08.lean` are about `Op.iterMut`,
whose writes happen while the guard is alive.
-/
namespace PQ

/-- a 4-element max-queue {0:1, 1:2, 2:3, 3:4} -/
def F7.pq4 : Store Int := match MaxQ.fromVec #[(⟨0, 0⟩, (1 : Int)), (⟨1, 0⟩, 2), (⟨2, 0⟩, 3), (⟨3, 0⟩, 4)] with
  | .ok s => s
  | .error _ => Store.empty

/-- the same contents as a min-max queue -/
def F7.dq4 : Store Int := match DQ.fromVec #[(⟨0, 0⟩, (1 : Int)), (⟨1, 0⟩, 2), (⟨2, 0⟩, 3), (⟨3, 0⟩, 4)] with
  | .ok s => s
  | .error _ => Store.empty

/-- four `next` calls, writing 9, 8, 7, 6 -/
def F7.prog : List (ICall × IMWrite Int) :=
  [(.next, ⟨some 9, none⟩), (.next, ⟨some 8, none⟩), (.next, ⟨some 7, none⟩), (.next, ⟨some 6, none⟩)]

/-- the store after the late writes (`none` if the model faulted, which it does not) -/
def F7.after (kind : Kind) (s : Store Int) : Option (Store Int) :=
  match iterMutLate kind s F7.prog with
  | .ok (s', _) => some s'
  | .error _ => none

def F7.peekMinOf (s : Store Int) : Option (Item × Int) :=
  match DQ.peekMin s with
  | .ok r => r
  | .error _ => none

/-- **negation of C01 for late writes**: after collecting `iter_mut()` and writing 9, 8, 7, 6 afterwards, `peek` reports item 3
with priority 6 although item 0 with priority 9 is stored. -/
theorem F7_pq_counterexample :
    (F7.after .pq F7.pq4).bind MaxQ.peek = some (⟨3, 0⟩, 6) ∧
    (F7.after .pq F7.pq4).bind (fun s => s.map[0]?) = some (⟨0, 0⟩, 9) := by decide +kernel

/-- **negation of C02 for late writes**: `peek_min` reports item 0 with priority 9 although item 3 with priority 6 is stored. -/
theorem F7_dpq_counterexample :
    (F7.after .dpq F7.dq4).bind F7.peekMinOf = some (⟨0, 0⟩, 9) ∧
    (F7.after .dpq F7.dq4).bind (fun s => s.map[3]?) = some (⟨3, 0⟩, 6) := by decide +kernel

/-- while the same writes performed through `Op.iterMut` (guard alive) leave a correctly ordered queue, as C08 proves in general -/
example :
    (match step ⟨.pq, F7.pq4⟩ (.iterMut false F7.prog) with
     | .ok (q, _) => MaxQ.peek q.s
     | .error _ => none) = some (⟨0, 0⟩, 9) := by decide +kernel

end PQ

#print axioms PQ.F7_pq_counterexample
#print axioms PQ.F7_dpq_counterexample
