import PQ.Props.C05
import PQ.Model.Observe
/-!
# C05, supplement: the comparison count of `iter_mut` (dropped / leaked), `clear`, `drain` and of the plain iterators

`PQ/Props/C05.lean` bounds `heap_build` (`C05_pq_heapBuild_linear`: `2 * n`, `C05_dpq_heapBuild_linear`: `7 * n`) and says in
prose that this "is also what dropping `iter_mut` runs".  Here that is a theorem about the OPERATION of the alphabet,
`step q (.iterMut false prog)`, for every program `prog` of calls and writes, on both kinds, and the remaining members of the
C05 list that perform NO comparison are stated at the level of `step` / `observe`:

* `C05_iterMut_drop_linear` — dropping the guard: at most `7 * n` comparisons (`2 * n` on a `PriorityQueue`:
  `C05_iterMut_drop_linear_pq`), `n = len` before the call (the program cannot change `len`).
  **No hypothesis on `q`** (no well-formedness, no order): `heap_build`'s bound is unconditional
  (`MaxQ.heapBuild_cost`, `DQ.heapBuild_cost`), and the iteration itself (`iterMutRun`) works on the map only — it has no
  store in its type, hence no counter to advance.
* `C05_iterMut_leak_free` — a leaked guard (`mem::forget`): no comparison at all.
* `C05_clear_free`, `C05_drain_free` — no comparison.
* `C05_observe_free` — every observation of `PQ/Model/Observe.lean` other than `peek_max` returns the queue it was given
  (so its counter is unchanged), in particular `into_vec()` / `iter().collect()` (`Obs.intoVec`, `C05_intoVec_free`);
  `peek_max` advances it by at most one (`C05_observe_peekMax_le_one`).  (The observing SORTED vectors run on a consumed
  copy: the pops they perform do compare, `O(n log n)`, but the queue observed is returned unchanged; their cost is not the
  subject of C05's "perform none" list.)
* `iter`, `into_iter` (and the iterator handed out by `drain`) are not `Op`s / `Obs`: they are the slice cursor `Cursor` of
  `PQ/Model/Iter.lean`, driven call by call.  `Cursor.step` / `Cursor.run` have no store in their type and are defined
  without `tick`: they trivially perform no comparison.  What can be stated is that they read the store only through
  `map.len()`, which the counter does not influence (`C05_iter_free`); the entries they yield are read from `map`, which the
  counter does not influence either.
-/
namespace PQ
variable {P : Type} [LT P] [DecidableLT P]

/-- what `step q (.iterMut leak prog)` is made of (a successful run): the program run on the map, then — unless leaked —
`heap_build` of the queue's kind on the store with the rewritten map -/
theorem C05_iterMut_unfold {q q' : Q P} {leak : Bool} {prog : List (ICall × IMWrite P)} {o : Out P}
    (h : step q (.iterMut leak prog) = .ok (q', o)) :
    ∃ outs m s, iterMutRun q.kind q.s.map.size prog PIterMut.new (DIterMut.new q.s.map.size) q.s.map = .ok (outs, m) ∧
      (if leak then pure { q.s with map := m } else heapBuildK q.kind { q.s with map := m }) = .ok s ∧
      q' = { q with s := s } ∧ o = .outs outs := by
  cases leak
  · simp only [step, bind, Except.bind, Bool.false_eq_true, if_false] at h
    split at h
    · cases h
    · rename_i r hr
      obtain ⟨outs, m⟩ := r
      split at h
      · cases h
      · rename_i s hs
        simp only [pure, Except.pure, Except.ok.injEq, Prod.mk.injEq] at h
        refine ⟨outs, m, s, hr, ?_, h.1.symm, h.2.symm⟩
        simp only [Bool.false_eq_true, if_false]
        exact hs
  · simp only [step, bind, Except.bind, if_true, pure, Except.pure] at h
    split at h
    · cases h
    · rename_i r hr
      obtain ⟨outs, m⟩ := r
      simp only [Except.ok.injEq, Prod.mk.injEq] at h
      exact ⟨outs, m, _, hr, rfl, h.1.symm, h.2.symm⟩

/-- **dropping `iter_mut` is linear**, on both kinds, for every program of calls and writes, from ANY store (no
well-formedness or order hypothesis): at most `7 * len` comparisons, and `len` is unchanged -/
theorem C05_iterMut_drop_linear {q q' : Q P} {prog : List (ICall × IMWrite P)} {o : Out P}
    (h : step q (.iterMut false prog) = .ok (q', o)) :
    q'.s.ticks ≤ q.s.ticks + 7 * q.s.size := by
  obtain ⟨outs, m, s, _, hs, rfl, _⟩ := C05_iterMut_unfold h
  simp only [Bool.false_eq_true, if_false] at hs
  cases hk : q.kind with
  | pq =>
    rw [hk] at hs
    have := C05_pq_heapBuild_linear (s := { q.s with map := m }) (s' := s) hs
    simp only at this ⊢; omega
  | dpq =>
    rw [hk] at hs
    have := C05_dpq_heapBuild_linear (s := { q.s with map := m }) (s' := s) hs
    simp only at this ⊢; omega

/-- … on a `PriorityQueue`: at most `2 * len` -/
theorem C05_iterMut_drop_linear_pq {q q' : Q P} {prog : List (ICall × IMWrite P)} {o : Out P} (hk : q.kind = .pq)
    (h : step q (.iterMut false prog) = .ok (q', o)) :
    q'.s.ticks ≤ q.s.ticks + 2 * q.s.size := by
  obtain ⟨outs, m, s, _, hs, rfl, _⟩ := C05_iterMut_unfold h
  simp only [Bool.false_eq_true, if_false] at hs
  rw [hk] at hs
  have := C05_pq_heapBuild_linear (s := { q.s with map := m }) (s' := s) hs
  simp only at this ⊢; omega

/-- … and the length is the one before the call (the bound is in terms of either) -/
theorem C05_iterMut_drop_size {q q' : Q P} {prog : List (ICall × IMWrite P)} {o : Out P}
    (h : step q (.iterMut false prog) = .ok (q', o)) : q'.s.size = q.s.size := by
  obtain ⟨outs, m, s, _, hs, rfl, _⟩ := C05_iterMut_unfold h
  simp only [Bool.false_eq_true, if_false] at hs
  cases hk : q.kind with
  | pq => rw [hk] at hs; exact (MaxQ.heapBuild_cost hs).1
  | dpq => rw [hk] at hs; exact (DQ.heapBuild_cost hs).1

/-- **a leaked `iter_mut` guard performs no comparison** (nothing is rebuilt; the iteration and the writes touch the map
only) -/
theorem C05_iterMut_leak_free {q q' : Q P} {prog : List (ICall × IMWrite P)} {o : Out P}
    (h : step q (.iterMut true prog) = .ok (q', o)) :
    q'.s.ticks = q.s.ticks := by
  obtain ⟨outs, m, s, _, hs, rfl, _⟩ := C05_iterMut_unfold h
  simp only [if_true, pure, Except.pure, Except.ok.injEq] at hs
  subst hs; rfl

omit [LT P] [DecidableLT P] in
/-- the iteration itself has no counter: `iterMutRun` maps a map to outputs and a map; run on the store's map it is
independent of the store's counter -/
theorem C05_iterMutRun_free (s : Store P) (k : Nat) (kind : Kind) (prog : List (ICall × IMWrite P)) :
    iterMutRun kind (s.tick k).map.size prog PIterMut.new (DIterMut.new (s.tick k).map.size) (s.tick k).map =
      iterMutRun kind s.map.size prog PIterMut.new (DIterMut.new s.map.size) s.map := rfl

/-- **`clear` performs no comparison** (it always succeeds) -/
theorem C05_clear_free (q : Q P) :
    ∃ q', step q .clear = .ok (q', .unit) ∧ q'.s.ticks = q.s.ticks ∧ q'.s.size = 0 :=
  ⟨{ q with s := q.s.clear }, rfl, rfl, rfl⟩

/-- **`drain` performs no comparison** (it always succeeds and hands out the entries in slot order) -/
theorem C05_drain_free (q : Q P) :
    ∃ q', step q .drain = .ok (q', .entries q.s.map.toList) ∧ q'.s.ticks = q.s.ticks ∧ q'.s.size = 0 :=
  ⟨{ q with s := q.s.drain.2 }, rfl, rfl, rfl⟩

/-- … in the form of the other theorems -/
theorem C05_clear_drain_free {q q' : Q P} {o : Out P} :
    (step q .clear = .ok (q', o) → q'.s.ticks = q.s.ticks) ∧ (step q .drain = .ok (q', o) → q'.s.ticks = q.s.ticks) := by
  constructor
  · intro h
    obtain ⟨q1, h1, ht, _⟩ := C05_clear_free q
    rw [h1] at h
    simp only [Except.ok.injEq, Prod.mk.injEq] at h
    rw [← h.1]; exact ht
  · intro h
    obtain ⟨q1, h1, ht, _⟩ := C05_drain_free q
    rw [h1] at h
    simp only [Except.ok.injEq, Prod.mk.injEq] at h
    rw [← h.1]; exact ht

section Observe
variable [DecidableEq P]

/-- **every observation other than `peek_max` performs no comparison on the queue observed**: it returns the very queue it
was given (`peek`, `peek_min`, `get`, `get_priority`, `len`, `is_empty`, `into_vec` / `iter().collect()`, `{:?}`, `==`;
the three sorted vectors work on a consumed copy) -/
theorem C05_observe_free {q q' : Q P} {ob : Obs P} {o : Out P} (hne : ob ≠ .peekMax)
    (h : observe q ob = .ok (q', o)) : q' = q ∧ q'.s.ticks = q.s.ticks := by
  have key : q' = q := by
    cases ob with
    | peekMax => exact absurd rfl hne
    | peek | get | getPriority | len | isEmpty | intoVec | eqv =>
      simp only [observe, pure, Except.pure, Except.ok.injEq, Prod.mk.injEq] at h
      exact h.1.symm
    | peekMin | intoSortedVec | intoAscVec | intoDescVec | debug =>
      simp only [observe, bind, Except.bind] at h
      split at h
      · cases h
      · simp only [pure, Except.pure, Except.ok.injEq, Prod.mk.injEq] at h
        exact h.1.symm
  exact ⟨key, by rw [key]⟩

/-- **`into_vec()` / `iter().collect()`** as an observation: always succeeds, returns the entries in slot order and the
unchanged queue -/
theorem C05_intoVec_free (q : Q P) : observe q .intoVec = .ok (q, .entries q.s.map.toList) := rfl

/-- `peek_max` as an observation: at most one comparison -/
theorem C05_observe_peekMax_le_one {q q' : Q P} {o : Out P} (h : observe q .peekMax = .ok (q', o)) :
    q'.s.ticks ≤ q.s.ticks + 1 := by
  simp only [observe, bind, Except.bind] at h
  split at h
  · cases h
  · rename_i r hr
    obtain ⟨s, e⟩ := r
    simp only [pure, Except.pure, Except.ok.injEq, Prod.mk.injEq] at h
    rw [← h.1]
    exact (C05_dpq_peekMax_le_one (s := q.s) (s' := s) (r := e)).1 hr

end Observe

omit [LT P] [DecidableLT P] in
/-- **`iter`, `into_iter` (and the iterator of `drain`)**: the slice cursor `Cursor` (no store in its type, defined
without `tick`: no comparison) reads the store only through `map.len()`; neither that nor the map the yielded slots are
read from depends on the counter -/
theorem C05_iter_free (s : Store P) (k : Nat) (calls : List ICall) :
    Cursor.run (Cursor.new (s.tick k).map.size) calls = Cursor.run (Cursor.new s.map.size) calls ∧
    (s.tick k).map = s.map := ⟨rfl, rfl⟩

/-! ## Non-vacuity (`P := Nat`) -/
section Examples
open C05

/-- every priority rewritten (the order turned upside down), one payload write, then the guard is dropped / leaked -/
private def exProg : List (ICall × IMWrite Nat) :=
  (List.range 6).map fun i => (ICall.next, (⟨some (10 * i), if i = 2 then some 7 else none⟩ : IMWrite Nat))

private def okR {α : Type} (r : R α) (p : α → Prop) : Prop :=
  match r with
  | .ok x => p x
  | .error _ => False

private instance {α : Type} (r : R α) (p : α → Prop) [DecidablePred p] : Decidable (okR r p) := by
  unfold okR; split <;> infer_instance

private def ticksQ (r : R (Q Nat × Out Nat)) : Option (Nat × Nat) := r.toOption.map fun x => (x.1.s.ticks, x.1.s.size)

-- dropped guard on the six-element min-max heap `d6` (counter starting at 100): it succeeds with 8 ≤ 7 * 6 comparisons …
example : ticksQ (step ⟨.dpq, d6.tick 100⟩ (.iterMut false exProg)) = some (108, 6) := by decide +kernel
-- … as a `PriorityQueue`: 6 ≤ 2 * 6; on the three-element max-heap `s3`: 2
example : ticksQ (step ⟨.pq, d6.tick 100⟩ (.iterMut false exProg)) = some (106, 6) := by decide +kernel
example : ticksQ (step ⟨.pq, s3⟩ (.iterMut false exProg)) = some (2, 3) := by decide +kernel
-- the rebuild is real: the dropped guard leaves an ordered queue where the leaked one leaves a disordered one
example : okR (step ⟨.dpq, d6⟩ (.iterMut false exProg)) (fun r => r.1.s.map.toList.map (·.2) = [0, 10, 20, 30, 40, 50] ∧
      r.1.s.heap ≠ d6.heap) ∧
    okR (step ⟨.dpq, d6⟩ (.iterMut true exProg)) (fun r => r.1.s.map.toList.map (·.2) = [0, 10, 20, 30, 40, 50] ∧
      r.1.s.heap = d6.heap) := by decide +kernel
-- leaked guard: no comparison
example : ticksQ (step ⟨.dpq, d6.tick 100⟩ (.iterMut true exProg)) = some (100, 6) ∧
    ticksQ (step ⟨.pq, d6.tick 100⟩ (.iterMut true exProg)) = some (100, 6) := by decide +kernel
-- `clear`, `drain`: no comparison, empty afterwards
example : ticksQ (step ⟨.dpq, d6.tick 100⟩ .clear) = some (100, 0) ∧
    ticksQ (step ⟨.pq, d6.tick 100⟩ .drain) = some (100, 0) := by decide +kernel
-- observations: `into_vec` / `len` leave the counter alone, `peek_max` spends one comparison on six elements
example : ticksQ (observe ⟨.dpq, d6.tick 100⟩ .intoVec) = some (100, 6) ∧
    ticksQ (observe ⟨.dpq, d6.tick 100⟩ .len) = some (100, 6) ∧
    ticksQ (observe ⟨.dpq, d6.tick 100⟩ .intoAscVec) = some (100, 6) ∧
    ticksQ (observe ⟨.dpq, d6.tick 100⟩ .peekMax) = some (101, 6) := by decide +kernel
-- `iter()` on `d6`: the cursor yields the six slots from both ends
example : Cursor.run (Cursor.new (d6.tick 100).map.size) [.next, .nextBack, .len, .next] =
    [.slot (some 0), .slot (some 5), .len 4, .slot (some 1)] := by decide

end Examples

end PQ

#print axioms PQ.C05_iterMut_unfold
#print axioms PQ.C05_iterMut_drop_linear
#print axioms PQ.C05_iterMut_drop_linear_pq
#print axioms PQ.C05_iterMut_drop_size
#print axioms PQ.C05_iterMut_leak_free
#print axioms PQ.C05_iterMutRun_free
#print axioms PQ.C05_clear_free
#print axioms PQ.C05_drain_free
#print axioms PQ.C05_clear_drain_free
#print axioms PQ.C05_observe_free
#print axioms PQ.C05_intoVec_free
#print axioms PQ.C05_observe_peekMax_le_one
#print axioms PQ.C05_iter_free
