import PQ.Lemmas.BulkProps
/-!
# C15 — Serialization round-trips; deserializing any pair sequence is total

> With the `serde` feature, serializing a queue of either kind and deserializing the result (as either kind) gives a
> queue equal to the original that is correctly ordered and fully usable.  Deserializing any well-typed sequence of
> (item, priority) pairs, including sequences that repeat an item, either returns an error or returns a correctly
> ordered queue that holds every distinct item of the sequence once with one of the priorities given for it; it never
> panics and never yields a queue whose length disagrees with its contents.

Model: `Serialize` writes the entries of the map in slot order, `s.map` (with the length hint `s.size`, which for a
well-formed queue is `s.map.size`); `Deserialize` is `visit_seq` — insert pair after pair into an IndexMap, growing the
two index tables only for new items — followed by `heap_build` of the target kind:
`MaxQ.deserialize xs = MaxQ.heapBuild (Store.visitSeq xs)`, `DQ.deserialize xs = DQ.heapBuild (Store.visitSeq xs)`.
In the model deserialization never even returns an error.
-/
namespace PQ
open Store
variable {P : Type} [LT P] [DecidableLT P] [LE P] [Std.IsLinearPreorder P] [Std.LawfulOrderLT P]

/-- **deserializing as a `PriorityQueue` is total**: for EVERY pair sequence `xs` (repeated items included) it returns
a correctly ordered queue; its length agrees with its contents (`size = map.size` = number of distinct keys of `xs`);
a key is held iff some pair of `xs` has it; the entry held for a key has a priority given for that key in `xs` and an
item given for that key in `xs` — precisely: the priority of the LAST and the item of the FIRST pair with the key -/
theorem C15_total_pq (xs : Array (Item × P)) :
    ∃ s', MaxQ.deserialize xs = .ok s' ∧ MaxQ.Inv s' ∧
      s'.size = s'.map.size ∧ s'.size = (xs.toList.map (·.1.key)).eraseDups.length ∧
      (∀ k, (s'.abs k).isSome = true ↔ ∃ e, e ∈ xs ∧ e.1.key = k) ∧
      (∀ k it p, s'.abs k = some (it, p) →
        it.key = k ∧ (∃ e, e ∈ xs ∧ e.1.key = k ∧ e.2 = p) ∧ (∃ e, e ∈ xs ∧ e.1.key = k ∧ e.1 = it)) ∧
      (∀ k, s'.abs k =
        match xs.toList.reverse.find? (fun e => e.1.key == k) with
        | none => none
        | some b => some (((xs.toList.find? (fun e => e.1.key == k)).map (·.1)).getD b.1, b.2)) := by
  obtain ⟨s', hrun, hwf, hmap, hsz, hm⟩ := MaxQ.heapBuild_spec (wf_visitSeq xs)
  have habs : ∀ k, s'.abs k = IMap.lookup (visitSeq xs).map k := fun k => by
    show IMap.lookup s'.map k = _
    rw [hmap]
  refine ⟨s', hrun, ⟨hwf, hm⟩, hwf.size_eq_map_size, by rw [hsz, size_visitSeq], fun k => ?_, fun k it p hk => ?_,
    fun k => ?_⟩
  · rw [habs k]; exact (lookup_visitSeq_isSome_iff xs k).symm
  · rw [habs k] at hk
    obtain ⟨h1, h2⟩ := lookup_visitSeq_some hk
    exact ⟨IMap.lookup_key hk, h1, h2⟩
  · rw [habs k]; exact lookup_visitSeq xs k

example : bp_okR (MaxQ.deserialize #[(⟨1, 0⟩, 5), (⟨2, 0⟩, 8), (⟨1, 9⟩, 7), (⟨1, 3⟩, 6)]) (fun s' => MaxQ.Inv s' ∧
    s'.size = 2 ∧ s'.map.size = 2 ∧ s'.abs 1 = some (⟨1, 0⟩, 6) ∧ s'.abs 2 = some (⟨2, 0⟩, 8) ∧ s'.abs 3 = none) := by
  decide +kernel

/-- **deserializing as a `DoublePriorityQueue` is total**: the same for the other kind -/
theorem C15_total_dpq (xs : Array (Item × P)) :
    ∃ s', DQ.deserialize xs = .ok s' ∧ DQ.Inv s' ∧
      s'.size = s'.map.size ∧ s'.size = (xs.toList.map (·.1.key)).eraseDups.length ∧
      (∀ k, (s'.abs k).isSome = true ↔ ∃ e, e ∈ xs ∧ e.1.key = k) ∧
      (∀ k it p, s'.abs k = some (it, p) →
        it.key = k ∧ (∃ e, e ∈ xs ∧ e.1.key = k ∧ e.2 = p) ∧ (∃ e, e ∈ xs ∧ e.1.key = k ∧ e.1 = it)) ∧
      (∀ k, s'.abs k =
        match xs.toList.reverse.find? (fun e => e.1.key == k) with
        | none => none
        | some b => some (((xs.toList.find? (fun e => e.1.key == k)).map (·.1)).getD b.1, b.2)) := by
  obtain ⟨s', hrun, hwf, hmap, hsz, hm⟩ := DQ.heapBuild_spec (wf_visitSeq xs)
  have habs : ∀ k, s'.abs k = IMap.lookup (visitSeq xs).map k := fun k => by
    show IMap.lookup s'.map k = _
    rw [hmap]
  refine ⟨s', hrun, ⟨hwf, hm⟩, hwf.size_eq_map_size, by rw [hsz, size_visitSeq], fun k => ?_, fun k it p hk => ?_,
    fun k => ?_⟩
  · rw [habs k]; exact (lookup_visitSeq_isSome_iff xs k).symm
  · rw [habs k] at hk
    obtain ⟨h1, h2⟩ := lookup_visitSeq_some hk
    exact ⟨IMap.lookup_key hk, h1, h2⟩
  · rw [habs k]; exact lookup_visitSeq xs k

example : bp_okR (DQ.deserialize DQ.exV) (fun s' => s'.size = 8 ∧ s'.map.size = 8 ∧ s'.abs 2 = some (⟨2, 0⟩, 99) ∧
    bp_okR (DQ.peekMin s') (fun e => e = some (⟨4, 0⟩, 10)) ∧
    bp_okR (DQ.peekMax s') (fun e => e.2 = some (⟨2, 0⟩, 99))) := by decide +kernel

/-- **round trip**, for every well-formed store `s` — in particular a correctly ordered queue of EITHER kind
(`MaxQ.Inv s` and `DQ.Inv s` both contain `s.WF`) — and BOTH target kinds: deserializing what `s` serializes to
(its entries in slot order, `s.map`) succeeds and gives a correctly ordered queue `t` of the target kind with exactly
the same map (same entries, payloads included, in the same slots: slot-ordered entries have no duplicate keys, so every
insertion appends), hence the same contents and length; `t` compares equal to `s` with the crate's `PartialEq`, both
ways round -/
theorem C15_roundtrip [DecidableEq P] {s : Store P} (h : s.WF) :
    (∃ t, MaxQ.deserialize s.map = .ok t ∧ MaxQ.Inv t ∧ t.map = s.map ∧ t.abs = s.abs ∧ t.size = s.size ∧
      Store.eqv s t = true ∧ Store.eqv t s = true) ∧
    (∃ t, DQ.deserialize s.map = .ok t ∧ DQ.Inv t ∧ t.map = s.map ∧ t.abs = s.abs ∧ t.size = s.size ∧
      Store.eqv s t = true ∧ Store.eqv t s = true) := by
  have hv : (visitSeq s.map).map = s.map := bp_visitSeq_map h.nodup
  have hvs : (visitSeq s.map).size = s.size := by
    rw [(wf_visitSeq s.map).size_eq_map_size, hv, h.map_size]
  constructor
  · obtain ⟨t, hrun, hwf, hmap, hsz, hm⟩ := MaxQ.heapBuild_spec (wf_visitSeq s.map)
    have hmap' : t.map = s.map := hmap.trans hv
    have habs : t.abs = s.abs := by funext k; show IMap.lookup t.map k = _; rw [hmap']
    have he : Store.eqv s t = true := (C14_store_eqv_iff h hwf).2 (fun k => by rw [hmap'])
    exact ⟨t, hrun, ⟨hwf, hm⟩, hmap', habs, hsz.trans hvs, he, C14_store_symm h hwf he⟩
  · obtain ⟨t, hrun, hwf, hmap, hsz, hm⟩ := DQ.heapBuild_spec (wf_visitSeq s.map)
    have hmap' : t.map = s.map := hmap.trans hv
    have habs : t.abs = s.abs := by funext k; show IMap.lookup t.map k = _; rw [hmap']
    have he : Store.eqv s t = true := (C14_store_eqv_iff h hwf).2 (fun k => by rw [hmap'])
    exact ⟨t, hrun, ⟨hwf, hm⟩, hmap', habs, hsz.trans hvs, he, C14_store_symm h hwf he⟩

/-- a `PriorityQueue` deserialized as a `DoublePriorityQueue` and that one deserialized as a `PriorityQueue` again -/
example : MaxQ.Inv bp_exP ∧ bp_okR (DQ.deserialize bp_exP.map) (fun t => t.map = bp_exP.map ∧ t.size = 5 ∧
    Store.eqv bp_exP t = true ∧
    bp_okR (DQ.peekMin t) (fun e => e = some (⟨4, 40⟩, 1)) ∧
    bp_okR (MaxQ.deserialize t.map) (fun u => MaxQ.Inv u ∧ u.map = bp_exP.map ∧ Store.eqv t u = true ∧
      MaxQ.peek u = some (⟨2, 20⟩, 9))) := by decide +kernel

end PQ

#print axioms PQ.C15_total_pq
#print axioms PQ.C15_total_dpq
#print axioms PQ.C15_roundtrip
