import PQ.Lemmas.BulkProps
/-!
# C15 — Serialization round-trips; deserializing any pair sequence is total

> With the `serde` feature, serializing a queue of either kind and deserializing the result (as either kind) gives a
> queue equal to the original that is correctly ordered and fully usable.  Deserializing any well-typed sequence of
> (item, priority) pairs, including sequences that repeat an item, either returns an error or returns a correctly
> ordered queue that holds every distinct item of the sequence once with one of the priorities given for it; it never
> panics and never yields a queue whose length disagrees with its contents.

Model: `Serialize` writes the entries of the map in slot order, `s.map` (announcing the length `s.size`, which for a
well-formed queue is `s.map.size`); `Deserialize` is `visit_seq` — pre-allocate, then insert pair after pair into an
IndexMap, growing the two index tables only for new items — followed by `heap_build` of the target kind.
`deserialize hint xs`: `xs` are the pairs the input actually contains, `hint : Option Nat` is the length the input
ANNOUNCES (`SeqAccess::size_hint()`): **untrusted input**, any natural number at all (a crafted length prefix of
`2^64 - 1` in a binary format, say), unrelated to `xs.size`.  The code pre-allocates
`with_capacity(min(hint, 4096))` — it never trusts the announced length — so
`MaxQ.deserialize hint xs = reserveC (min h 4096) >> MaxQ.heapBuild (Store.visitSeq xs)` and likewise `DQ.deserialize`.
Every theorem below is stated for EVERY `hint`; `C15_hint_never_faults` says the hint is irrelevant, and
`C15_unbounded_prealloc_would_panic` shows what the cap is for: pre-allocating the announced length itself
(`reserveC h`, the code before the fix) panics with "capacity overflow" on `h = 2^64 - 1`.
In the model deserialization never even returns an error.
-/
namespace PQ
open Store
variable {P : Type} [LT P] [DecidableLT P] [LE P] [Std.IsLinearPreorder P] [Std.LawfulOrderLT P]

/-- **deserializing as a `PriorityQueue` is total**: for EVERY announced length `hint` (untrusted, unrelated to the
input) and EVERY pair sequence `xs` (repeated items included) it returns
a correctly ordered queue; its length agrees with its contents (`size = map.size` = number of distinct keys of `xs`);
a key is held iff some pair of `xs` has it; the entry held for a key has a priority given for that key in `xs` and an
item given for that key in `xs` — precisely: the priority of the LAST and the item of the FIRST pair with the key -/
theorem C15_total_pq (hint : Option Nat) (xs : Array (Item × P)) :
    ∃ s', MaxQ.deserialize hint xs = .ok s' ∧ MaxQ.Inv s' ∧
      s'.size = s'.map.size ∧ s'.size = (xs.toList.map (·.1.key)).eraseDups.length ∧
      (∀ k, (s'.abs k).isSome = true ↔ ∃ e, e ∈ xs ∧ e.1.key = k) ∧
      (∀ k it p, s'.abs k = some (it, p) →
        it.key = k ∧ (∃ e, e ∈ xs ∧ e.1.key = k ∧ e.2 = p) ∧ (∃ e, e ∈ xs ∧ e.1.key = k ∧ e.1 = it)) ∧
      (∀ k, s'.abs k =
        match xs.toList.reverse.find? (fun e => e.1.key == k) with
        | none => none
        | some b => some (((xs.toList.find? (fun e => e.1.key == k)).map (·.1)).getD b.1, b.2)) := by
  obtain ⟨s', hrun, hwf, hmap, hsz, hm⟩ := MaxQ.heapBuild_spec (wf_visitSeq xs)
  rw [← MaxQ.deserialize_eq hint xs] at hrun
  have habs : ∀ k, s'.abs k = IMap.lookup (visitSeq xs).map k := fun k => by
    show IMap.lookup s'.map k = _
    rw [hmap]
  refine ⟨s', hrun, ⟨hwf, hm⟩, hwf.size_eq_map_size, by rw [hsz, size_visitSeq], fun k => ?_, fun k it p hk => ?_,
    fun k => ?_⟩
  · rw [habs k]; exact (lookup_visitSeq_isSome_iff xs k).symm
  · rw [habs k] at hk
    obtain ⟨h1, h2⟩ := lookup_visitSeq_some hk
    exact ⟨IMap.lookup_key hk, h1, h2⟩
  · rw [habs k]; exact lookup_visitSeq xs k

example : bp_okR (MaxQ.deserialize (some 4) #[(⟨1, 0⟩, 5), (⟨2, 0⟩, 8), (⟨1, 9⟩, 7), (⟨1, 3⟩, 6)]) (fun s' => MaxQ.Inv s' ∧
    s'.size = 2 ∧ s'.map.size = 2 ∧ s'.abs 1 = some (⟨1, 0⟩, 6) ∧ s'.abs 2 = some (⟨2, 0⟩, 8) ∧ s'.abs 3 = none) := by
  decide +kernel

/-- **deserializing as a `DoublePriorityQueue` is total**: the same for the other kind (every `hint`, every `xs`) -/
theorem C15_total_dpq (hint : Option Nat) (xs : Array (Item × P)) :
    ∃ s', DQ.deserialize hint xs = .ok s' ∧ DQ.Inv s' ∧
      s'.size = s'.map.size ∧ s'.size = (xs.toList.map (·.1.key)).eraseDups.length ∧
      (∀ k, (s'.abs k).isSome = true ↔ ∃ e, e ∈ xs ∧ e.1.key = k) ∧
      (∀ k it p, s'.abs k = some (it, p) →
        it.key = k ∧ (∃ e, e ∈ xs ∧ e.1.key = k ∧ e.2 = p) ∧ (∃ e, e ∈ xs ∧ e.1.key = k ∧ e.1 = it)) ∧
      (∀ k, s'.abs k =
        match xs.toList.reverse.find? (fun e => e.1.key == k) with
        | none => none
        | some b => some (((xs.toList.find? (fun e => e.1.key == k)).map (·.1)).getD b.1, b.2)) := by
  obtain ⟨s', hrun, hwf, hmap, hsz, hm⟩ := DQ.heapBuild_spec (wf_visitSeq xs)
  rw [← DQ.deserialize_eq hint xs] at hrun
  have habs : ∀ k, s'.abs k = IMap.lookup (visitSeq xs).map k := fun k => by
    show IMap.lookup s'.map k = _
    rw [hmap]
  refine ⟨s', hrun, ⟨hwf, hm⟩, hwf.size_eq_map_size, by rw [hsz, size_visitSeq], fun k => ?_, fun k it p hk => ?_,
    fun k => ?_⟩
  · rw [habs k]; exact (lookup_visitSeq_isSome_iff xs k).symm
  · rw [habs k] at hk
    obtain ⟨h1, h2⟩ := lookup_visitSeq_some hk
    exact ⟨IMap.lookup_key hk, h1, h2⟩
  · rw [habs k]; exact lookup_visitSeq xs k

example : bp_okR (DQ.deserialize none DQ.exV) (fun s' => s'.size = 8 ∧ s'.map.size = 8 ∧ s'.abs 2 = some (⟨2, 0⟩, 99) ∧
    bp_okR (DQ.peekMin s') (fun e => e = some (⟨4, 0⟩, 10)) ∧
    bp_okR (DQ.peekMax s') (fun e => e.2 = some (⟨2, 0⟩, 99))) := by decide +kernel

/-- **round trip**, for every announced length `hint` (a faithful serializer announces `some s.size`, but nothing
depends on it) and every well-formed store `s` — in particular a correctly ordered queue of EITHER kind
(`MaxQ.Inv s` and `DQ.Inv s` both contain `s.WF`) — and BOTH target kinds: deserializing what `s` serializes to
(its entries in slot order, `s.map`) succeeds and gives a correctly ordered queue `t` of the target kind with exactly
the same map (same entries, payloads included, in the same slots: slot-ordered entries have no duplicate keys, so every
insertion appends), hence the same contents and length; `t` compares equal to `s` with the crate's `PartialEq`, both
ways round -/
theorem C15_roundtrip [DecidableEq P] {s : Store P} (h : s.WF) (hint : Option Nat) :
    (∃ t, MaxQ.deserialize hint s.map = .ok t ∧ MaxQ.Inv t ∧ t.map = s.map ∧ t.abs = s.abs ∧ t.size = s.size ∧
      Store.eqv s t = true ∧ Store.eqv t s = true) ∧
    (∃ t, DQ.deserialize hint s.map = .ok t ∧ DQ.Inv t ∧ t.map = s.map ∧ t.abs = s.abs ∧ t.size = s.size ∧
      Store.eqv s t = true ∧ Store.eqv t s = true) := by
  have hv : (visitSeq s.map).map = s.map := bp_visitSeq_map h.nodup
  have hvs : (visitSeq s.map).size = s.size := by
    rw [(wf_visitSeq s.map).size_eq_map_size, hv, h.map_size]
  constructor
  · obtain ⟨t, hrun, hwf, hmap, hsz, hm⟩ := MaxQ.heapBuild_spec (wf_visitSeq s.map)
    rw [← MaxQ.deserialize_eq hint s.map] at hrun
    have hmap' : t.map = s.map := hmap.trans hv
    have habs : t.abs = s.abs := by funext k; show IMap.lookup t.map k = _; rw [hmap']
    have he : Store.eqv s t = true := (C14_store_eqv_iff h hwf).2 (fun k => by rw [hmap'])
    exact ⟨t, hrun, ⟨hwf, hm⟩, hmap', habs, hsz.trans hvs, he, C14_store_symm h hwf he⟩
  · obtain ⟨t, hrun, hwf, hmap, hsz, hm⟩ := DQ.heapBuild_spec (wf_visitSeq s.map)
    rw [← DQ.deserialize_eq hint s.map] at hrun
    have hmap' : t.map = s.map := hmap.trans hv
    have habs : t.abs = s.abs := by funext k; show IMap.lookup t.map k = _; rw [hmap']
    have he : Store.eqv s t = true := (C14_store_eqv_iff h hwf).2 (fun k => by rw [hmap'])
    exact ⟨t, hrun, ⟨hwf, hm⟩, hmap', habs, hsz.trans hvs, he, C14_store_symm h hwf he⟩

/-- a `PriorityQueue` deserialized as a `DoublePriorityQueue` and that one deserialized as a `PriorityQueue` again -/
example : MaxQ.Inv bp_exP ∧ bp_okR (DQ.deserialize (some bp_exP.size) bp_exP.map) (fun t => t.map = bp_exP.map ∧ t.size = 5 ∧
    Store.eqv bp_exP t = true ∧
    bp_okR (DQ.peekMin t) (fun e => e = some (⟨4, 40⟩, 1)) ∧
    bp_okR (MaxQ.deserialize (some t.size) t.map) (fun u => MaxQ.Inv u ∧ u.map = bp_exP.map ∧ Store.eqv t u = true ∧
      MaxQ.peek u = some (⟨2, 20⟩, 9))) := by decide +kernel

/-- **the announced length never makes deserialization fault, and never matters**: for EVERY `hint` (any natural number:
the input is untrusted — e.g. `2^64 - 1`) and EVERY pair sequence, `deserialize hint xs` is not the capacity-overflow
panic `Fault.capacity` (nor any other fault) — for either kind — and it equals `deserialize none xs`, the run with no
announced length at all: the hint influences neither the success nor the resulting queue. -/
theorem C15_hint_never_faults (hint : Option Nat) (xs : Array (Item × P)) :
    (MaxQ.deserialize hint xs ≠ .error .capacity ∧ DQ.deserialize hint xs ≠ .error .capacity) ∧
    (∀ f, MaxQ.deserialize hint xs ≠ .error f ∧ DQ.deserialize hint xs ≠ .error f) ∧
    MaxQ.deserialize hint xs = MaxQ.deserialize none xs ∧ DQ.deserialize hint xs = DQ.deserialize none xs := by
  have e1 : MaxQ.deserialize hint xs = MaxQ.deserialize none xs := by
    rw [MaxQ.deserialize_eq, MaxQ.deserialize_eq]
  have e2 : DQ.deserialize hint xs = DQ.deserialize none xs := by
    rw [DQ.deserialize_eq, DQ.deserialize_eq]
  obtain ⟨s1, h1, _⟩ := C15_total_pq hint xs
  obtain ⟨s2, h2, _⟩ := C15_total_dpq hint xs
  have hall : ∀ f, MaxQ.deserialize hint xs ≠ .error f ∧ DQ.deserialize hint xs ≠ .error f := by
    intro f
    rw [h1, h2]
    exact ⟨fun h => (nomatch h), fun h => (nomatch h)⟩
  exact ⟨hall .capacity, hall, e1, e2⟩

/-- a hostile announced length: `2^64 - 1` elements announced, two pairs present -/
example : bp_okR (MaxQ.deserialize (some (2 ^ 64 - 1)) #[(⟨1, 0⟩, 5), (⟨2, 0⟩, 8)]) (fun s' => MaxQ.Inv s' ∧ s'.size = 2 ∧
      s'.abs 1 = some (⟨1, 0⟩, 5) ∧ s'.abs 2 = some (⟨2, 0⟩, 8)) ∧
    bp_okR (DQ.deserialize (some (2 ^ 64 - 1)) #[(⟨1, 0⟩, 5), (⟨2, 0⟩, 8)]) (fun s' => s'.WF ∧ s'.size = 2 ∧
      bp_okR (DQ.peekMin s') (fun e => e = some (⟨1, 0⟩, 5))) := by decide +kernel

omit [LT P] [DecidableLT P] [LE P] [Std.IsLinearPreorder P] [Std.LawfulOrderLT P] in
/-- **remark: what the cap is for.**  The un-capped variant — pre-allocating the ANNOUNCED length itself,
`with_capacity(h)`, i.e. `reserveC h` in place of `reserveC (min h 4096)`, which is what `visit_seq` did before the fix —
is the capacity-overflow panic for the announced length `h = 2^64 - 1` (indeed for every `h ≥ capLimit = 2^61`),
whatever the input actually contains: a panic (denial of service) caused by untrusted input alone.  The capped request
is always granted. -/
theorem C15_unbounded_prealloc_would_panic :
    reserveC (2 ^ 64 - 1) = .error .capacity ∧ (∀ h, h ≥ capLimit → reserveC h = .error .capacity) ∧
    (∀ h, reserveC (min h 4096) = .ok ()) ∧
    (∀ (x : R (Store P)), (reserveC (2 ^ 64 - 1) >>= fun _ => x) = .error .capacity) :=
  ⟨reserveC_of_ge (by decide), fun _ h => reserveC_of_ge h, reserveC_min_4096,
    fun x => reserveC_bind_of_ge x (by decide)⟩

/-- **the pre-allocation the model assumes is the one the current source performs**: `Arith.deserPrealloc` is regenerated
from `src/store.rs` on every run (`tools/gen_arith.py` reads the argument of the `with_capacity…` call in the `size_hint` arm
of `visit_seq`); the model's `deserialize` requests `min hint 4096`.  If the cap is removed or changed in the source this
theorem stops checking, and with it the tie between `C15_hint_never_faults` and the code. -/
theorem C15_prealloc_matches_source (h : Nat) : Arith.deserPrealloc h = min h 4096 := rfl

/-- … and whatever length the input announces, the request the source makes never overflows a capacity -/
theorem C15_source_prealloc_never_overflows (h : Nat) : reserveC (Arith.deserPrealloc h) = .ok () := by
  rw [C15_prealloc_matches_source]; exact reserveC_min_4096 h

end PQ

#print axioms PQ.C15_total_pq
#print axioms PQ.C15_total_dpq
#print axioms PQ.C15_roundtrip
#print axioms PQ.C15_hint_never_faults
#print axioms PQ.C15_unbounded_prealloc_would_panic
#print axioms PQ.C15_prealloc_matches_source
#print axioms PQ.C15_source_prealloc_never_overflows
