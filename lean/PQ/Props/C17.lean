import PQ.Lemmas.CapacityLemmas
/-!
# C17 — Capacity management is semantically invisible and fails cleanly

The modelled state of a queue is `(map, heap, qp, size)`; capacity is not part of it.  In the real code `reserve`,
`reserve_exact`, `try_reserve`, `try_reserve_exact`, `shrink_to_fit` and `with_capacity` forward to the IndexMap and to
both vectors and touch nothing else (checked on every run by the correspondence: the white-box state after each of these
calls must equal the state before, next to a model in which they are no-ops).  What Lean decides:

* `C17_invisible` — inserting capacity operations anywhere in any history changes neither the final state nor any other
  operation's result (for all histories, both kinds);
* `C17_invisible_any_allocator`, `C17_allocator_independent`, `C17_try_reserve_total`, `C17_contract`,
  `C17_len_le_capacity` — the same for a model that DOES carry the three capacities (`Model/Capacity.lean`), with the
  allocator an arbitrary oracle: invisibility for every allocator and every pattern of failures, `try_reserve*` never
  panic, after `Ok` every collection (hence `capacity()`, which is the map's) has room for `len + additional`, after `Err`
  the queue is the same queue and no capacity shrank (a partial failure — map grown, `heap` refused — is a reachable
  outcome and is covered), `shrink_to_fit` stays at or above the length, `len ≤ capacity` always.

Partial by nature: the allocator, `Vec` and IndexMap themselves are in the trusted base.
-/
namespace PQ
variable {P : Type} [LT P] [DecidableLT P]

/-- is this the capacity pseudo-operation? -/
def Op.isCapacity : Op P → Bool
  | .capacityOp => true
  | _ => false

/-- outputs of a history with the outputs of capacity operations removed -/
def dropCapOuts : List (Op P) → List (Out P) → List (Out P)
  | op :: ops, o :: os => if op.isCapacity then dropCapOuts ops os else o :: dropCapOuts ops os
  | _, _ => []

theorem C17_step_capacity (q : Q P) : step q .capacityOp = .ok (q, .unit) := rfl

/-- **Capacity operations are invisible**: for every history, running it with the capacity operations removed gives the
same final queue and the same results for all other operations. -/
theorem C17_invisible (ops : List (Op P)) : ∀ (q : Q P),
    run q (ops.filter (fun o => !o.isCapacity)) =
      (match run q ops with
       | .ok (q', outs) => .ok (q', dropCapOuts ops outs)
       | .error e => .error e) := by
  induction ops with
  | nil => intro q; rfl
  | cons op ops ih =>
    intro q
    rw [List.filter_cons]
    cases hop : op.isCapacity with
    | true =>
      have : op = .capacityOp := by cases op <;> simp_all [Op.isCapacity]
      subst this
      simp only [Bool.not_true, Bool.false_eq_true, if_false]
      rw [ih q]
      simp only [run, C17_step_capacity, bind, Except.bind]
      cases run q ops with
      | error e => rfl
      | ok r => simp [dropCapOuts, hop, pure, Except.pure]
    | false =>
      simp only [Bool.not_false, if_true, run, bind, Except.bind]
      cases step q op with
      | error e => rfl
      | ok r =>
        obtain ⟨q1, o⟩ := r
        simp only []
        rw [ih q1]
        cases run q1 ops with
        | error e => rfl
        | ok r2 => simp [dropCapOuts, hop, pure, Except.pure]

/-! ## the queue together with its capacities, over an arbitrary allocator

`Model/Capacity.lean` puts the capacities of the three collections next to the queue (`Cap.QC`), adds `reserve`,
`reserve_exact`, `try_reserve`, `try_reserve_exact`, `shrink_to_fit` and `capacity` to the alphabet (`Cap.COp`) and mirrors
`src/store.rs` l.203-293 in `Cap.stepC`: every capacity function forwards to the map, then `heap`, then `qp`; `try_reserve*`
return at the first refusal, leaving what was already grown as it is; `reserve*` panic where `try_reserve*` would report an
error.  The allocator is an oracle (`Cap.Alloc`): per collection and per request it refuses or returns a capacity that fits —
any growth policy, any failure pattern (capacity overflow, out of memory, limits that differ per collection).  Every theorem
below holds for EVERY allocator. -/
open Cap in
/-- **Capacity management is invisible — for every allocator and every pattern of failures.**  If a history that contains
capacity operations anywhere runs to completion under allocator `a`, then the plain history (capacity operations deleted) runs
to completion on the bare queue, ends in the same queue and returns the same results for all other operations.  Since the
plain history does not mention the allocator, contents, order of extraction and every later result are independent of
`with_capacity`, `reserve*`, `try_reserve*` (succeeding or failing) and `shrink_to_fit`. -/
theorem C17_invisible_any_allocator (a : Cap.Alloc) (cops : List (Cap.COp P)) (x x' : Cap.QC P) (outs : List (Cap.COut P))
    (h : Cap.runC a x cops = .ok (x', outs)) :
    run x.q (Cap.plainOps cops) = .ok (x'.q, Cap.plainOuts outs) :=
  Cap.runC_erase a cops x x' outs h

/-- two machines (two allocators — say one that always has memory and one that refuses every `try_reserve`), two different
placements of capacity operations around the same plain operations, two different initial capacities: the same final
queue and the same results -/
theorem C17_allocator_independent (a₁ a₂ : Cap.Alloc) (c₁ c₂ : List (Cap.COp P)) (hp : Cap.plainOps c₁ = Cap.plainOps c₂)
    {x₁ x₂ x₁' x₂' : Cap.QC P} (hq : x₁.q = x₂.q) {o₁ o₂ : List (Cap.COut P)}
    (h₁ : Cap.runC a₁ x₁ c₁ = .ok (x₁', o₁)) (h₂ : Cap.runC a₂ x₂ c₂ = .ok (x₂', o₂)) :
    x₁'.q = x₂'.q ∧ Cap.plainOuts o₁ = Cap.plainOuts o₂ :=
  Cap.runC_allocator_independent a₁ a₂ c₁ c₂ hp hq h₁ h₂

/-- **`try_reserve` / `try_reserve_exact` never panic**: whatever the allocator answers, they return `Ok` or `Err` -/
theorem C17_try_reserve_total (a : Cap.Alloc) (x : Cap.QC P) (n : Nat) :
    (∃ x', Cap.stepC a x (.tryReserve n) = .ok (x', .tryOk) ∨ Cap.stepC a x (.tryReserve n) = .ok (x', .tryErr)) ∧
    (∃ x', Cap.stepC a x (.tryReserveExact n) = .ok (x', .tryOk) ∨ Cap.stepC a x (.tryReserveExact n) = .ok (x', .tryErr)) :=
  Cap.stepC_try_total a x n

/-- **the contract of every capacity operation**, for every allocator, from `len ≤ capacity`:
`len ≤ capacity` is kept (all three collections); every capacity operation leaves the queue untouched — also a failing one;
after `Ok` from any of the four reserving functions each collection, in particular the map whose capacity `capacity()`
reports, has room for `len + n`; after `Err` no capacity shrank (the queue is unchanged and usable: it is the same queue);
after `shrink_to_fit` each capacity lies between the length and its old value; `capacity()` reports the map's capacity. -/
theorem C17_contract (a : Cap.Alloc) {x x' : Cap.QC P} {cop : Cap.COp P} {o : Cap.COut P} (hok : x.CapsOk)
    (h : Cap.stepC a x cop = .ok (x', o)) :
    x'.CapsOk ∧
    (match cop with
     | .plain op => ∃ o', step x.q op = .ok (x'.q, o') ∧ o = .plain o'
     | .reserve n | .reserveExact n =>
        x'.q = x.q ∧ o = .unit ∧ x.q.s.size + n ≤ x'.caps.map ∧ x.q.s.size + n ≤ x'.caps.heap ∧ x.q.s.size + n ≤ x'.caps.qp
     | .tryReserve n | .tryReserveExact n =>
        x'.q = x.q ∧ x.caps.map ≤ x'.caps.map ∧ x.caps.heap ≤ x'.caps.heap ∧ x.caps.qp ≤ x'.caps.qp ∧
          ((o = .tryOk ∧ x.q.s.size + n ≤ x'.caps.map ∧ x.q.s.size + n ≤ x'.caps.heap ∧ x.q.s.size + n ≤ x'.caps.qp) ∨
            o = .tryErr)
     | .shrinkToFit =>
        x'.q = x.q ∧ o = .unit ∧ x'.caps.map ≤ x.caps.map ∧ x'.caps.heap ≤ x.caps.heap ∧ x'.caps.qp ≤ x.caps.qp
     | .capacity => x' = x ∧ o = .cap x.caps.map) :=
  Cap.stepC_spec a hok h

/-- `len() ≤ capacity()` (and the same for both tables) after every history with capacity operations anywhere -/
theorem C17_len_le_capacity (a : Cap.Alloc) (cops : List (Cap.COp P)) (x x' : Cap.QC P) (outs : List (Cap.COut P))
    (hok : x.CapsOk) (h : Cap.runC a x cops = .ok (x', outs)) : x'.CapsOk :=
  Cap.runC_capsOk a cops x x' outs hok h

/-! ## non-vacuity -/
section Examples

/-- doubles on demand; refuses any request that would exceed `limit` elements in that collection -/
private def exAlloc (limit : Cap.Coll → Nat) : Cap.Alloc where
  grant w cap len add := if limit w < len + add then none else some (max cap (2 * (len + add)))
  grant_fits w cap len add c h := by
    split at h
    · cases h
    · cases h; omega
  shrink _ _ len := len
  shrink_fits _ cap len h := by omega
  regrow _ cap len' := max cap (2 * len')
  regrow_fits _ cap len' := by omega

private def roomy : Cap.Alloc := exAlloc (fun _ => 1000)
/-- the heap table's allocation fails although the map's succeeded (the three collections are allocated one after the other) -/
private def tight : Cap.Alloc := exAlloc (fun w => match w with | .map => 1000 | _ => 4)

private def exHist : List (Cap.COp Nat) :=
  [.plain (.push ⟨1, 0⟩ 5), .tryReserve 10, .plain (.push ⟨2, 0⟩ 9), .shrinkToFit, .reserve 1, .capacity, .plain .popFront,
   .tryReserveExact 3, .plain (.push ⟨3, 0⟩ 7), .plain .popFront]

private def showR (r : R (Cap.QC Nat × List (Cap.COut Nat))) : Option (List (Nat × Nat) × Cap.Caps × Nat) :=
  match r with
  | .ok (x, os) => some (x.q.s.map.toList.map (fun e => (e.1.key, e.2)), x.caps,
      (os.filter (fun o => match o with | .tryErr => true | _ => false)).length)
  | .error _ => none

-- under the roomy allocator every reservation succeeds; under the tight one `try_reserve(10)` fails AFTER growing the map …
example : showR (Cap.runC roomy (Cap.QC.new .pq ⟨0, 0, 0⟩) exHist) = some ([(1, 5)], ⟨8, 8, 8⟩, 0) := by decide +kernel
example : showR (Cap.runC tight (Cap.QC.new .pq ⟨0, 0, 0⟩) exHist) = some ([(1, 5)], ⟨8, 8, 8⟩, 1) := by decide +kernel
-- … a partial failure: the map grew, `heap` refused, `qp` was not asked
example : Cap.tryReserve tight ⟨2, 2, 2⟩ 1 10 = (⟨22, 2, 2⟩, false) := by decide
-- and the two runs agree on the queue and on every plain result (an instance of `C17_allocator_independent`)
example : (match Cap.runC roomy (Cap.QC.new .pq ⟨0, 0, 0⟩) exHist, Cap.runC tight (Cap.QC.new .pq ⟨0, 0, 0⟩) exHist with
    | .ok (x, o), .ok (y, o') => x.q.s.map.toList == y.q.s.map.toList && x.q.s.heap == y.q.s.heap &&
        (Cap.plainOuts o).length == (Cap.plainOuts o').length
    | _, _ => false) = true := by decide +kernel
-- `reserve` beyond what the allocator can give is the documented panic
example : (match Cap.stepC tight (Cap.QC.new .pq ⟨0, 0, 0⟩ : Cap.QC Nat) (.reserve 10) with
    | .error .capacity => true | _ => false) = true := by decide

end Examples

end PQ

#print axioms PQ.C17_invisible
#print axioms PQ.C17_step_capacity
#print axioms PQ.C17_invisible_any_allocator
#print axioms PQ.C17_allocator_independent
#print axioms PQ.C17_try_reserve_total
#print axioms PQ.C17_contract
#print axioms PQ.C17_len_le_capacity
