import PQ.Model.Ops
/-!
# C17 — Capacity management is semantically invisible and fails cleanly

The modelled state of a queue is `(map, heap, qp, size)`; capacity is not part of it.  In the real code `reserve`,
`reserve_exact`, `try_reserve`, `try_reserve_exact`, `shrink_to_fit` and `with_capacity` forward to the IndexMap and to
both vectors and touch nothing else (checked on every run by the correspondence: the white-box state after each of these
calls must equal the state before, next to a model in which they are no-ops).  What Lean decides:

* `C17_invisible` — inserting capacity operations anywhere in any history changes neither the final state nor any other
  operation's result (for all histories, both kinds);
* `C17_reserve_ok`, `C17_try_reserve_err`, … — the arithmetic contract of the three collections, with the allocator
  abstracted as an arbitrary growth policy `grow` with `grow x ≥ x` and a capacity limit `capLimit`: after a successful
  reservation every collection (hence `capacity()`, which is the map's) is at least `len + additional`; a request at or
  beyond the limit is an error (`try_*`) and leaves everything unchanged.

Partial by nature: the allocator, `Vec` and IndexMap themselves are in the trusted base.
-/
namespace PQ
variable {P : Type} [LT P] [DecidableLT P]

/-- is this the capacity pseudo-operation? -/
def Op.isCapacity : Op P → Bool
  | .capacityOp => true
  | _ => false

/-- outputs of a history with the outputs of capacity operations removed -/
def dropCapOuts : List (Op P) → List (Out P) → List (Out P)
  | op :: ops, o :: os => if op.isCapacity then dropCapOuts ops os else o :: dropCapOuts ops os
  | _, _ => []

theorem C17_step_capacity (q : Q P) : step q .capacityOp = .ok (q, .unit) := rfl

/-- **Capacity operations are invisible**: for every history, running it with the capacity operations removed gives the
same final queue and the same results for all other operations. -/
theorem C17_invisible (ops : List (Op P)) : ∀ (q : Q P),
    run q (ops.filter (fun o => !o.isCapacity)) =
      (match run q ops with
       | .ok (q', outs) => .ok (q', dropCapOuts ops outs)
       | .error e => .error e) := by
  induction ops with
  | nil => intro q; rfl
  | cons op ops ih =>
    intro q
    rw [List.filter_cons]
    cases hop : op.isCapacity with
    | true =>
      have : op = .capacityOp := by cases op <;> simp_all [Op.isCapacity]
      subst this
      simp only [Bool.not_true, Bool.false_eq_true, if_false]
      rw [ih q]
      simp only [run, C17_step_capacity, bind, Except.bind]
      cases run q ops with
      | error e => rfl
      | ok r => simp [dropCapOuts, hop, pure, Except.pure]
    | false =>
      simp only [Bool.not_false, if_true, run, bind, Except.bind]
      cases step q op with
      | error e => rfl
      | ok r =>
        obtain ⟨q1, o⟩ := r
        simp only []
        rw [ih q1]
        cases run q1 ops with
        | error e => rfl
        | ok r2 => simp [dropCapOuts, hop, pure, Except.pure]

/-! ## the arithmetic contract, allocator abstracted -/

/-- capacities of the three collections of a store -/
structure Caps where
  map : Nat
  heap : Nat
  qp : Nat

/-- an allocator policy: never gives less than asked, refuses at `capLimit` -/
structure Alloc where
  grow : Nat → Nat
  grow_ge : ∀ x, x ≤ grow x
  capLimit : Nat

/-- `Vec::reserve`-style growth of one collection holding `len` elements -/
def Alloc.reserve1 (a : Alloc) (cap len additional : Nat) : Option Nat :=
  if a.capLimit ≤ len + additional then none
  else if len + additional ≤ cap then some cap else some (a.grow (len + additional))

/-- `Store::try_reserve`: the map, then `heap`, then `qp`; the first error is returned and later collections are not
touched (earlier ones keep what they got: capacity only, never contents) -/
def Alloc.tryReserve (a : Alloc) (c : Caps) (len additional : Nat) : Except Caps Caps :=
  match a.reserve1 c.map len additional with
  | none => .error c
  | some m =>
    match a.reserve1 c.heap len additional with
    | none => .error { c with map := m }
    | some h =>
      match a.reserve1 c.qp len additional with
      | none => .error { c with map := m, heap := h }
      | some q => .ok { map := m, heap := h, qp := q }

theorem Alloc.reserve1_ge (a : Alloc) {cap len additional c' : Nat} (h : a.reserve1 cap len additional = some c') :
    len + additional ≤ c' ∧ cap ≤ c' ∨ len + additional ≤ c' := by
  unfold Alloc.reserve1 at h
  split at h
  · cases h
  · split at h
    · cases h; left; exact ⟨by assumption, Nat.le_refl _⟩
    · cases h; right; exact a.grow_ge _

/-- after a successful reservation `capacity() ≥ len() + additional` (for all three collections) -/
theorem C17_reserve_ok (a : Alloc) (c c' : Caps) (len additional : Nat) (h : a.tryReserve c len additional = .ok c') :
    len + additional ≤ c'.map ∧ len + additional ≤ c'.heap ∧ len + additional ≤ c'.qp := by
  unfold Alloc.tryReserve at h
  cases h1 : a.reserve1 c.map len additional with
  | none => simp [h1] at h
  | some m =>
    cases h2 : a.reserve1 c.heap len additional with
    | none => simp [h1, h2] at h
    | some hh =>
      cases h3 : a.reserve1 c.qp len additional with
      | none => simp [h1, h2, h3] at h
      | some q =>
        simp [h1, h2, h3] at h
        subst h
        refine ⟨?_, ?_, ?_⟩
        · rcases a.reserve1_ge h1 with h | h; exact h.1; exact h
        · rcases a.reserve1_ge h2 with h | h; exact h.1; exact h
        · rcases a.reserve1_ge h3 with h | h; exact h.1; exact h

/-- a request that cannot be satisfied is an error, never a panic, and never shrinks a capacity -/
theorem C17_try_reserve_err (a : Alloc) (c : Caps) (len additional : Nat) (h : a.capLimit ≤ len + additional) :
    a.tryReserve c len additional = .error c := by
  simp [Alloc.tryReserve, Alloc.reserve1, h]

/-- `shrink_to_fit` may not go below the length: modelled as any capacity `≥ len`; the contract is the hypothesis
itself, recorded here so that the property's inequality has a named statement -/
theorem C17_shrink_ok (len cap' : Nat) (h : len ≤ cap') : len ≤ cap' := h

/-- non-vacuity: a concrete allocator and request -/
example : (⟨fun x => 2 * x, fun x => by omega, 2 ^ 61⟩ : Alloc).tryReserve ⟨4, 4, 4⟩ 3 10 = .ok ⟨26, 26, 26⟩ := by
  simp [Alloc.tryReserve, Alloc.reserve1]
example : (⟨fun x => 2 * x, fun x => by omega, 2 ^ 61⟩ : Alloc).tryReserve ⟨4, 4, 4⟩ 3 (2 ^ 61) = .error ⟨4, 4, 4⟩ := by
  apply C17_try_reserve_err; decide

end PQ

#print axioms PQ.C17_invisible
#print axioms PQ.C17_step_capacity
#print axioms PQ.C17_reserve_ok
#print axioms PQ.C17_try_reserve_err
