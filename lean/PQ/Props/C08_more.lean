import PQ.Lemmas.StatefulLemmas
import PQ.Props.C08
/-!
# C08 — supplement: "exactly once per element", for `FnMut` closures

In `Props/C08.lean` a user closure is a pure function, so that the crate calls it once per element is visible only in the
shape of the model functions.  `Model/Stateful.lean` gives every closure-taking operation a twin that threads the closure's
own state through each call (`f st item priority = (st', keep, item', priority')`).  The theorems below are about those
twins: with a state-ignoring closure the twin IS the plain operation (so everything in `Props/C08.lean` applies), and the
closure's final state is the fold over exactly the elements the property names, once each, in slot order — whatever the
closure decides, also when it decides differently on every call.
-/
namespace PQ
variable {P σ : Type} [LT P] [DecidableLT P]

/-- **`retain` / `retain_mut` call the predicate exactly once per stored element, in slot order** (both kinds): the closure's
state after the call is the left fold of the closure over the stored entries in slot order — one call per entry, no entry
skipped or revisited, independently of which entries it keeps or how it rewrites them.  With a closure that ignores its
state the twin is the plain `retain_mut`. -/
theorem C08_retain_calls_once_per_element (s : Store P) (f : PredS σ P) (st : σ) :
    (∀ st' s', MaxQ.retainMutS s f st = .ok (st', s') → st' = s.map.toList.foldl (fun a e => (f a e.1 e.2).1) st) ∧
    (∀ st' s', DQ.retainMutS s f st = .ok (st', s') → st' = s.map.toList.foldl (fun a e => (f a e.1 e.2).1) st) ∧
    (∀ g : Item → P → Bool × Item × P,
      MaxQ.retainMutS s (PredS.lift g) st = (MaxQ.retainMut s g).map (fun r => (st, r)) ∧
      DQ.retainMutS s (PredS.lift g) st = (DQ.retainMut s g).map (fun r => (st, r))) :=
  ⟨fun _ _ h => MaxQ.retainMutS_fst h, fun _ _ h => DQ.retainMutS_fst h,
    fun g => ⟨MaxQ.retainMutS_lift s g st, DQ.retainMutS_lift s g st⟩⟩

/-- the call log of a logging predicate IS the list of stored entries in slot order -/
theorem C08_retain_call_log (s : Store P) (g : Item → P → Bool × Item × P) :
    (s.retainMutS (fun (log : List (Item × P)) it p => (log ++ [(it, p)], g it p)) []).1 = s.map.toList :=
  Store.retainMutS_log s g

/-- **the `pop_if` family consults its predicate exactly once, on the element the peek reports, and never on an empty
queue** (for every returning call, every `FnMut` predicate): the predicate's state afterwards is its state after ONE call
on the peeked entry; on an empty queue it is untouched and the answer is `None`. -/
theorem C08_popIf_calls_once {s s' : Store P} {f : PredS σ P} {st st' : σ} {o : Option (Item × P)} :
    (MaxQ.popIfS s f st = .ok (st', s', o) →
      (s.size = 0 → st' = st ∧ o = none) ∧ (0 < s.size → ∃ e, MaxQ.peek s = some e ∧ st' = (f st e.1 e.2).1)) ∧
    (DQ.popMinIfS s f st = .ok (st', s', o) →
      (s.size = 0 → st' = st ∧ o = none) ∧ (0 < s.size → ∃ e, DQ.peekMin s = .ok (some e) ∧ st' = (f st e.1 e.2).1)) ∧
    (DQ.popMaxIfS s f st = .ok (st', s', o) →
      (s.size = 0 → st' = st ∧ o = none) ∧
        (0 < s.size → ∃ s1 e, DQ.peekMax s = .ok (s1, some e) ∧ st' = (f st e.1 e.2).1)) :=
  ⟨MaxQ.popIfS_calls, DQ.popMinIfS_calls, DQ.popMaxIfS_calls⟩

/-- … and with a state-ignoring predicate the twins are the plain operations of `Props/C08.lean` -/
theorem C08_popIf_twins_are_plain (s : Store P) (g : Item → P → Bool × Item × P) (st : σ) :
    MaxQ.popIfS s (PredS.lift g) st = (MaxQ.popIf s g).map (fun r => (st, r.1, r.2)) ∧
    DQ.popMinIfS s (PredS.lift g) st = (DQ.popMinIf s g).map (fun r => (st, r.1, r.2)) ∧
    DQ.popMaxIfS s (PredS.lift g) st = (DQ.popMaxIf s g).map (fun r => (st, r.1, r.2)) :=
  ⟨MaxQ.popIfS_lift s g st, DQ.popMinIfS_lift s g st, DQ.popMaxIfS_lift s g st⟩

/-! ## non-vacuity: a predicate that keeps every SECOND element it is shown (its decision depends on its call count) -/
private def exS : Store Nat := Store.fromVec #[(⟨1, 0⟩, 5), (⟨2, 0⟩, 9), (⟨3, 0⟩, 2), (⟨4, 0⟩, 7), (⟨5, 0⟩, 1)]
private def everySecond : PredS Nat Nat := fun n it p => (n + 1, (n % 2 == 0, it, p))

example : (match MaxQ.retainMutS exS everySecond 0 with
    | .ok (n, s') => n == 5 && s'.map.toList.map (·.1.key) == [1, 3, 5] && s'.size == 3
    | .error _ => false) = true := by decide +kernel
example : (match DQ.retainMutS exS everySecond 0 with
    | .ok (n, s') => n == 5 && s'.map.toList.map (·.1.key) == [1, 3, 5]
    | .error _ => false) = true := by decide +kernel
-- a counting predicate on the pop_if family: exactly one call
example : (match MaxQ.heapBuild exS with
    | .ok s => (match MaxQ.popIfS s everySecond 0 with | .ok (n, _, o) => n == 1 && o.map (·.1.key) == some 2 | .error _ => false)
    | .error _ => false) = true := by decide +kernel

end PQ

#print axioms PQ.C08_retain_calls_once_per_element
#print axioms PQ.C08_retain_call_log
#print axioms PQ.C08_popIf_calls_once
#print axioms PQ.C08_popIf_twins_are_plain
