import PQ.Props.C02
/-!
# C02, supplement (fifth session): the two ends together

`Props/C02.lean` states the two peeks separately.  Here they are stated together — what a client that reads both ends
relies on: on a non-empty `DoublePriorityQueue` both peeks answer stored entries `a` (minimum) and `b` (maximum) with
`a ≤ b`, and EVERY stored priority lies between them (`C02_sandwich`); after every legal leak-free history of public
operations from any queue satisfying its invariant (from `new()`: `C02_sandwich_after_history_new`) that ends in a
`DoublePriorityQueue`, either the queue is empty and both peeks answer `None`, or the sandwich holds
(`C02_sandwich_after_history`).
-/
namespace PQ
open Store
variable {P : Type} [LT P] [DecidableLT P] [LE P] [Std.IsLinearPreorder P] [Std.LawfulOrderLT P]

/-- **C02, both ends at once.**  On a non-empty queue satisfying the invariant `peek_min` and `peek_max` answer stored
entries `a`, `b` with `a ≤ b` and every stored priority between the two; `peek_max` compares at most once. -/
theorem C02_sandwich {s : Store P} (h : DQ.Inv s) (hn : 0 < s.size) :
    ∃ a b k, DQ.peekMin s = .ok (some a) ∧ DQ.peekMax s = .ok (s.tick k, some b) ∧ k ≤ 1 ∧ s.Mem a ∧ s.Mem b ∧
      a.2 ≤ b.2 ∧ ∀ e, s.Mem e → a.2 ≤ e.2 ∧ e.2 ≤ b.2 := by
  obtain ⟨a, ha, hma, _, hmin⟩ := (C02_peekMin_min h).2 hn
  obtain ⟨k, b, hb, hk, hmb, _, hmax⟩ := (C02_peekMax_max h).2 hn
  exact ⟨a, b, k, ha, hb, hk, hma, hmb, hmin b hmb, fun e he => ⟨hmin e he, hmax e he⟩⟩

/-- **C02, both ends after any history** ending in a `DoublePriorityQueue`: both peeks answer `None` on the empty
queue, otherwise the sandwich of `C02_sandwich`. -/
theorem C02_sandwich_after_history (ops : List (Op P)) {q : Q P} (hq : QInv q) (hl : ∀ op ∈ ops, op.Legal)
    (hn : ∀ op ∈ ops, op.isLeak = false) :
    ∃ q' outs, run q ops = .ok (q', outs) ∧
      (q'.kind = .dpq →
        (q'.s.size = 0 ∧ DQ.peekMin q'.s = .ok none ∧ DQ.peekMax q'.s = .ok (q'.s, none)) ∨
        (0 < q'.s.size ∧ ∃ a b k, DQ.peekMin q'.s = .ok (some a) ∧ DQ.peekMax q'.s = .ok (q'.s.tick k, some b) ∧ k ≤ 1 ∧
          q'.s.Mem a ∧ q'.s.Mem b ∧ a.2 ≤ b.2 ∧ ∀ e, q'.s.Mem e → a.2 ≤ e.2 ∧ e.2 ≤ b.2)) := by
  obtain ⟨q', outs, hrun, _, _, hd⟩ := C02_reach ops hq hl hn
  refine ⟨q', outs, hrun, fun hk => ?_⟩
  have h := hd hk
  rcases Nat.eq_zero_or_pos q'.s.size with hz | hp
  · exact .inl ⟨hz, (C02_peekMin_min h).1 hz, (C02_peekMax_max h).1 hz⟩
  · exact .inr ⟨hp, C02_sandwich h hp⟩

/-- … in particular from `new()` of either kind -/
theorem C02_sandwich_after_history_new (ops : List (Op P)) (k : Kind) (hl : ∀ op ∈ ops, op.Legal)
    (hn : ∀ op ∈ ops, op.isLeak = false) :
    ∃ q' outs, run (Q.new k) ops = .ok (q', outs) ∧
      (q'.kind = .dpq →
        (q'.s.size = 0 ∧ DQ.peekMin q'.s = .ok none ∧ DQ.peekMax q'.s = .ok (q'.s, none)) ∨
        (0 < q'.s.size ∧ ∃ a b k, DQ.peekMin q'.s = .ok (some a) ∧ DQ.peekMax q'.s = .ok (q'.s.tick k, some b) ∧ k ≤ 1 ∧
          q'.s.Mem a ∧ q'.s.Mem b ∧ a.2 ≤ b.2 ∧ ∀ e, q'.s.Mem e → a.2 ≤ e.2 ∧ e.2 ≤ b.2)) :=
  C02_sandwich_after_history ops (hist_new_inv k) hl hn

-- the premises are satisfiable: the eight-element example queue satisfies the invariant and is not empty
example : DQ.Inv DQ.exQ ∧ 0 < DQ.exQ.size := ⟨DQ.exQ_inv, by decide +kernel⟩

end PQ

#print axioms PQ.C02_sandwich
#print axioms PQ.C02_sandwich_after_history
#print axioms PQ.C02_sandwich_after_history_new
