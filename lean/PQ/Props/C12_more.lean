import PQ.Props.C12
import PQ.Lemmas.ContentsMore
/-!
# C12 — supplement: the persistence theorems at the strength of the property

"… changes made to such parts through get_mut, peek_mut, peek_min_mut, peek_max_mut or iter_mut persist across all later
lookups, priority updates, reorderings and removals of other elements …"

`C12_payload_persists` / `C12_payload_persists_history` (file `C12.lean`) assume `cont_preservesItem k op` of every
operation, a property of the operation ALONE.  A review found that it forbids more histories than the property does:

1. for `iter_mut` it demands a program without any payload write — but a payload write through the reference yielded
   for a DIFFERENT element does not disturb the item stored for `k` (and a write to `k` itself is a legitimate "change
   made through iter_mut", `C12_iterMut_written`, whose result must then persist);
2. for `append(other)` it demands that `other` does not hold `k` — but the receiver's entry, item included, is kept on
   a clash whenever `other` is NOT longer than the receiver (only a strictly longer `other` is swapped in first).

Here the theorems are restated with the state-dependent predicate `c12m_preservesItem k q op` (file
`ContentsMore.lean`; `q` is the queue the operation is executed on):

* `iter_mut leak prog` — `c12m_iterMutKeeps k q prog`: every write of the program that goes through a reference yielded
  for a slot whose entry has key `k` leaves that entry's ITEM as it is (it may set its priority); writes through the
  references to all other slots are unconstrained;
* `append o` — `o.size ≤ q.s.size ∨ o.abs k = none`;
* every other operation — `cont_preservesItem k op`, as before.

Theorems:

* `C12m_payload_persists` — one step; `C12m_payload_persists_history` — histories, the predicate being required along
  the run (`c12m_preservedThroughout k q ops`, defined by recursion on the history: it holds of the first operation on
  `q` and, for whatever queue that step returns, of the rest).
* `C12m_subsumes_old`, `C12m_subsumes_old_history` — the old hypotheses imply the new ones: the theorems of `C12.lean`
  are instances of these.
* `C12m_iterMut_exact`, `C12m_append_exact` — the two relaxed clauses are not merely sufficient: the stored item
  survives `iter_mut` IFF the composition of the writes made through `k`'s slot returns the item it found, and survives
  `append` IFF `other` is not longer, or does not hold `k`, or happens to hold the very same item value.
* `C12m_iterMut_written_persists` — what `iter_mut` wrote to `k` is what every later history of this kind reads back.

All for both queue kinds and from `Store.WF` only (leaked `iter_mut` guards included).
-/
set_option linter.unusedSectionVars false
set_option linter.unusedVariables false
namespace PQ
open Store
variable {P : Type} [LT P] [DecidableLT P] [LE P] [Std.IsLinearPreorder P] [Std.LawfulOrderLT P]

/-- **The stored item survives every operation that, on the current queue, neither rewrites it nor removes it** (one
step, all operations): in particular an `iter_mut` that writes payloads of OTHER elements (and the priority of `k`), and
an `append` of a queue that holds `k` but is not longer than the receiver -/
theorem C12m_payload_persists {q q' : Q P} {op : Op P} {o : Out P} {k : Nat} (hq : q.s.WF) (hl : op.Legal)
    (hp : c12m_preservesItem k q op) (hs : step q op = .ok (q', o)) (hk : (q'.s.abs k).isSome = true) {it0 : Item}
    (h0 : storedItem q k = some it0) : storedItem q' k = some it0 :=
  c12m_step_item_persists hq hl hp hs hk h0

/-- **… and every history of such operations**, as long as `k` stays in the queue; `c12m_preservedThroughout k q ops`
asks `c12m_preservesItem k q₁ op` of each operation on the queue `q₁` it is executed on -/
theorem C12m_payload_persists_history {q q' : Q P} {ops : List (Op P)} {outs : List (Out P)} {k : Nat} {it0 : Item}
    (hq : q.s.WF) (hl : ∀ op ∈ ops, op.Legal) (hp : c12m_preservedThroughout k q ops)
    (hpres : cont_presentThroughout k q ops) (h0 : storedItem q k = some it0) (hr : run q ops = .ok (q', outs)) :
    storedItem q' k = some it0 :=
  c12m_run_item_persists ops hq hl hp hpres h0 hr

/-- the hypothesis of `C12_payload_persists` implies the one of `C12m_payload_persists`, on every queue -/
theorem C12m_subsumes_old {k : Nat} (q : Q P) {op : Op P} (h : cont_preservesItem k op) : c12m_preservesItem k q op :=
  c12m_preservesItem_of_cont q h

/-- … and the hypothesis of `C12_payload_persists_history` the one of `C12m_payload_persists_history` -/
theorem C12m_subsumes_old_history {k : Nat} (q : Q P) {ops : List (Op P)}
    (h : ∀ op ∈ ops, op.Legal ∧ cont_preservesItem k op) :
    (∀ op ∈ ops, op.Legal) ∧ c12m_preservedThroughout k q ops :=
  ⟨fun op hop => (h op hop).1, c12m_preservedThroughout_of_cont ops q (fun op hop => (h op hop).2)⟩

/-- **`iter_mut`, exactly**: with `k` stored in slot `j`, the stored item of `k` afterwards is the old one IFF the
writes made through the references yielded for slot `j`, composed in order, return the item they found
(`c12m_iterMutKeeps` asks it of each such write separately, which is sufficient: `C12m_payload_persists`) -/
theorem C12m_iterMut_exact {kind : Kind} {s s' : Store P} {leak : Bool} {prog : List (ICall × IMWrite P)}
    {outs : List IOut} (h : s.WF) (hs : step ⟨kind, s⟩ (.iterMut leak prog) = .ok (⟨kind, s'⟩, .outs outs))
    {k j : Nat} (hj : IMap.find? s.map k = some j) {e : Item × P} (ha : s.abs k = some e) :
    storedItem ⟨kind, s'⟩ k = some (cont_writesAt j outs prog e).1 ∧
    (storedItem ⟨kind, s'⟩ k = storedItem ⟨kind, s⟩ k ↔ (cont_writesAt j outs prog e).1 = e.1) := by
  have h1 := (C12_iterMut_written h hs hj).1
  have h2 : storedItem ⟨kind, s'⟩ k = some (cont_writesAt j outs prog e).1 := by
    show (s'.abs k).map (·.1) = _
    rw [h1, ha]; rfl
  have h3 : storedItem ⟨kind, s⟩ k = some e.1 := by
    show (s.abs k).map (·.1) = _
    rw [ha]; rfl
  refine ⟨h2, ?_⟩
  rw [h2, h3, Option.some.injEq]

/-- **`append`, exactly**: the item the receiver stores for `k` survives `append(oth)` IFF `oth` is not longer than the
receiver, or does not hold `k`, or holds for `k` the very same item value -/
theorem C12m_append_exact {q q' : Q P} {oth : Store P} {o : Out P} {k : Nat} (hq : q.s.WF) (hl : oth.WF)
    (hs : step q (.append oth) = .ok (q', o)) {it0 : Item} (h0 : storedItem q k = some it0) :
    storedItem q' k = some it0 ↔
      (oth.size ≤ q.s.size ∨ oth.abs k = none ∨ (oth.abs k).map (·.1) = some it0) := by
  constructor
  · intro h'
    by_cases hsz : oth.size ≤ q.s.size
    · exact .inl hsz
    · cases hx : oth.abs k with
      | none => exact .inr (.inl rfl)
      | some x =>
        have hswap : q'.s.abs k = some x := by
          obtain ⟨kind, s⟩ := q
          obtain ⟨s1, e1, _, e3⟩ := cont_step_append (kind := kind) hq hl
          rw [e1] at hs; cases hs
          show s1.abs k = _
          rw [e3 k, if_pos (by show s.size < oth.size; exact Nat.lt_of_not_le hsz), hx]; rfl
        refine .inr (.inr ?_)
        have : storedItem q' k = some x.1 := by
          show (q'.s.abs k).map (·.1) = _
          rw [hswap]; rfl
        rw [this] at h'
        simpa using h'
  · rintro (hc | hc | hc)
    · exact c12m_step_append_item hq hl (.inl hc) hs h0
    · exact c12m_step_append_item hq hl (.inr hc) hs h0
    · obtain ⟨p0, ha⟩ := cont_storedItem_eq_some.1 h0
      have hspec := (cont_step_refines (op := .append oth) hq hl hs).2.2
      have h1 := hspec.2 q.s.size (cont_absCard_of_WF hq) k
      show (q'.s.abs k).map (·.1) = _
      rw [h1, ha]
      cases hx : oth.abs k with
      | none => split <;> simp
      | some x =>
        rw [hx] at hc
        simp only [Option.map_some, Option.some.injEq] at hc
        split <;> simp [hc]

/-- **What `iter_mut` wrote to `k` is read back after every later history** of operations that do not rewrite it on the
queue they run on — further `iter_mut`s that write the payloads of other elements and `append`s of shorter queues
holding `k` included -/
theorem C12m_iterMut_written_persists {kind : Kind} {s s' : Store P} {leak : Bool} {prog : List (ICall × IMWrite P)}
    {outs : List IOut} (h : s.WF) (hs : step ⟨kind, s⟩ (.iterMut leak prog) = .ok (⟨kind, s'⟩, .outs outs))
    {k j : Nat} (hj : IMap.find? s.map k = some j) {e : Item × P} (ha : s.abs k = some e)
    {q2 : Q P} {ops : List (Op P)} {outs2 : List (Out P)} (hl : ∀ op ∈ ops, op.Legal)
    (hp : c12m_preservedThroughout k ⟨kind, s'⟩ ops) (hpres : cont_presentThroughout k ⟨kind, s'⟩ ops)
    (h2 : run ⟨kind, s'⟩ ops = .ok (q2, outs2)) :
    storedItem q2 k = some (cont_writesAt j outs prog e).1 := by
  have hq1 : s'.WF := (cont_step_refines (q := ⟨kind, s⟩) (op := .iterMut leak prog) h trivial hs).1
  exact C12m_payload_persists_history (q := ⟨kind, s'⟩) hq1 hl hp hpres (C12m_iterMut_exact h hs hj ha).1 h2

/-! ## Non-vacuity: histories the theorems of `C12.lean` do not cover -/
section Examples

private def wr : Item → Item := fun it => ⟨it.key, 77⟩
/-- the queue `other` of the two `append`s: it HOLDS key 4 (with another payload) and is shorter than the receiver -/
private def othA : Store Nat := Store.fromVec #[(⟨4, 0⟩, 100), (⟨9, 90⟩, 2)]
private def othB : Store Nat := Store.fromVec #[(⟨4, 1⟩, 0)]
/-- `iter_mut` on `cont_ex5` (slots 0..4 hold keys 1..5): payload 99 written to key 1, priority 0 to key 2, nothing to
key 3, priority 6 (no payload) to key 4 -/
private def progA : List (ICall × IMWrite Nat) :=
  [(.next, ⟨none, some 99⟩), (.next, ⟨some 0, none⟩), (.next, ⟨none, none⟩), (.next, ⟨some 6, none⟩)]
/-- a history around key 4: `iter_mut` writing the payload of ANOTHER element, `append` of a shorter queue that holds 4,
priority updates of 4 carrying other payloads, a pop, `get_mut` writing the payload of another key, a LEAKED `iter_mut`
writing a payload, the conversion to the double-ended queue, `iter_mut` from both ends writing payloads, a removal,
another `append` -/
private def exOps : List (Op Nat) :=
  [.iterMut false progA, .append othA, .changePriority 4 2, .pushIncrease ⟨4, 5⟩ 3, .popFront, .getMut 1 wr,
   .iterMut true [(.next, ⟨none, some 1⟩)], .convert,
   .iterMut false [(.nextBack, ⟨none, some 8⟩), (.next, ⟨none, some 3⟩)], .remove 2, .append othB]

-- the old predicate REJECTS this history (first two operations): the program writes a payload, `othA` holds key 4
example : ¬ cont_preservesItem 4 (Op.iterMut false progA) := by
  show ¬ ∀ cw ∈ progA, cw.2.payload = none
  decide
example : ¬ cont_preservesItem 4 (Op.append othA) := by
  show ¬ othA.abs 4 = none
  decide +kernel
-- … the new one accepts both on `cont_ex5`: the only write to the slot of key 4 (slot 3) is a priority write; `othA` is shorter
example : cont_ex5.WF ∧ othA.WF ∧ IMap.find? cont_ex5.map 4 = some 3 ∧
    c12m_iterOuts ⟨.pq, cont_ex5⟩ progA = [.slot (some 0), .slot (some 1), .slot (some 2), .slot (some 3)] ∧
    c12m_preservesItem 4 ⟨.pq, cont_ex5⟩ (Op.iterMut false progA) ∧
    othA.abs 4 = some (⟨4, 0⟩, 100) ∧ othA.size ≤ cont_ex5.size ∧
    c12m_preservesItem 4 ⟨.pq, cont_ex5⟩ (Op.append othA) := by
  refine ⟨by decide +kernel, by decide +kernel, by decide +kernel, by decide +kernel, ?_, by decide +kernel,
    by decide +kernel, .inl (by decide +kernel)⟩
  show c12m_iterMutKeeps 4 ⟨.pq, cont_ex5⟩ progA
  decide +kernel
-- `C12m_payload_persists` on these two steps: the stored item of 4 (payload 40) persists, the other writes happened
example : cont_okR (step ⟨.pq, cont_ex5⟩ (.iterMut false progA)) (fun r =>
    storedItem r.1 4 = some ⟨4, 40⟩ ∧ r.1.s.abs 4 = some (⟨4, 40⟩, 6) ∧ r.1.s.abs 1 = some (⟨1, 99⟩, 5) ∧
    cont_okR (step r.1 (.append othA)) (fun r2 =>
      storedItem r2.1 4 = some ⟨4, 40⟩ ∧ r2.1.s.abs 9 = some (⟨9, 90⟩, 2) ∧ r2.1.s.size = 6)) := by decide +kernel
-- a write through `iter_mut` to key 4 itself that changes the payload is (rightly) NOT accepted
example : ¬ c12m_preservesItem 4 ⟨.pq, cont_ex5⟩
    (Op.iterMut false [(.next, ⟨none, none⟩), (.next, ⟨none, none⟩), (.next, ⟨none, none⟩), (.next, ⟨none, some 41⟩)]) := by
  show ¬ c12m_iterMutKeeps 4 ⟨.pq, cont_ex5⟩ _
  decide +kernel
-- … nor is an `append` of a LONGER queue holding 4 (`C12_append_swaps`: its item wins)
example : ¬ c12m_preservesItem 4 ⟨.pq, cont_ex5⟩ (Op.append (Store.fromVec
    #[(⟨4, 0⟩, 100), (⟨9, 90⟩, 2), (⟨10, 0⟩, 3), (⟨11, 0⟩, 4), (⟨12, 0⟩, 5), (⟨13, 0⟩, 6)])) := by
  show ¬ (_ ≤ _ ∨ _ = none)
  decide +kernel

-- the hypotheses of `C12m_payload_persists_history` on the whole history `exOps`
private theorem exOps_legal : ∀ op ∈ exOps, op.Legal := by
  intro op hop
  simp only [exOps, List.mem_cons, List.not_mem_nil, or_false] at hop
  rcases hop with rfl | rfl | rfl | rfl | rfl | rfl | rfl | rfl | rfl | rfl | rfl
  · trivial
  · show othA.WF; decide +kernel
  · trivial
  · trivial
  · trivial
  · exact fun _ => rfl
  · trivial
  · trivial
  · trivial
  · trivial
  · show othB.WF; decide +kernel
private theorem exOps_preserved : c12m_preservedThroughout 4 ⟨.pq, cont_ex5⟩ exOps :=
  c12m_preservedThroughout_of_B exOps (by decide +kernel)
private theorem exOps_present : cont_presentThroughout 4 ⟨.pq, cont_ex5⟩ exOps :=
  c12m_presentThroughout_of_B exOps (by decide +kernel)
-- … so the theorem applies to it:
example {q' : Q Nat} {outs : List (Out Nat)} (hr : run ⟨.pq, cont_ex5⟩ exOps = .ok (q', outs)) :
    storedItem q' 4 = some ⟨4, 40⟩ :=
  C12m_payload_persists_history (by decide +kernel) exOps_legal exOps_preserved exOps_present (by decide +kernel) hr
-- … and the run exists: it ends in a double-ended queue that still stores payload 40 for key 4 (priority 3), while the
-- payloads of keys 1 and 5 were rewritten by `get_mut` / `iter_mut` and key 9 came from `othA`
example : cont_okR (run ⟨.pq, cont_ex5⟩ exOps) (fun r => r.1.kind = .dpq ∧ storedItem r.1 4 = some ⟨4, 40⟩ ∧
    r.1.s.get 4 = some (⟨4, 40⟩, 3) ∧ r.1.s.abs 1 = some (⟨1, 3⟩, 5) ∧ r.1.s.abs 5 = some (⟨5, 8⟩, 3) ∧
    r.1.s.abs 9 = some (⟨9, 90⟩, 2) ∧ r.1.s.abs 2 = none ∧ r.1.s.abs 3 = none ∧ r.1.s.len = 4) := by decide +kernel

-- `C12m_iterMut_written_persists`: `iter_mut` writes payload 41 to key 4 (slot 3, yielded once, by the 4th call); the
-- rest of `exOps` (which writes other payloads through `iter_mut` and appends queues holding 4) reads 41 back
private def progW : List (ICall × IMWrite Nat) :=
  [(.next, ⟨none, none⟩), (.next, ⟨none, none⟩), (.next, ⟨none, none⟩), (.next, ⟨none, some 41⟩)]
example : cont_okR (step ⟨.pq, cont_ex5⟩ (.iterMut false progW)) (fun r1 =>
    r1.1.kind = .pq ∧ storedItem r1.1 4 = some ⟨4, 41⟩ ∧
    c12m_preservedThroughoutB 4 r1.1 exOps.tail = true ∧ c12m_presentThroughoutB 4 r1.1 exOps.tail = true ∧
    cont_okR (run r1.1 exOps.tail) (fun r2 => storedItem r2.1 4 = some ⟨4, 41⟩ ∧ r2.1.s.get 4 = some (⟨4, 41⟩, 3))) := by
  decide +kernel
-- `C12m_iterMut_exact` / `C12m_append_exact`: the composed writes at slot 3
example : (cont_writesAt 3 (c12m_iterOuts ⟨.pq, cont_ex5⟩ progW) progW ((⟨4, 40⟩, 1) : Item × Nat)).1 = ⟨4, 41⟩ ∧
    (cont_writesAt 3 (c12m_iterOuts ⟨.pq, cont_ex5⟩ progA) progA ((⟨4, 40⟩, 1) : Item × Nat)) = (⟨4, 40⟩, 6) := by
  decide +kernel

end Examples

end PQ

#print axioms PQ.C12m_payload_persists
#print axioms PQ.C12m_payload_persists_history
#print axioms PQ.C12m_subsumes_old
#print axioms PQ.C12m_subsumes_old_history
#print axioms PQ.C12m_iterMut_exact
#print axioms PQ.C12m_append_exact
#print axioms PQ.C12m_iterMut_written_persists
