import PQ.Model.Ops
import PQ.Model.Stateful
import PQ.Model.SortedIter
import PQ.Model.Observe
import PQ.Model.Crash
import PQ.Model.CrashCb
/-!
# Line-protocol driver (mirror mode)

Reads a trace written by the Rust harness, one operation per line:

    <op> <args…> => <result tokens> | <snapshot tokens>

re-executes every operation on the model (`P := Pr`, integers ordered by `Pr.rank`), prints the model's own `<result> | <snapshot>` in
the same canonical format and compares the two strings.  A `case <id> <pq|dpq>` line starts a fresh queue.
Output: one `DIFF` line per mismatching line (at most one per case: the rest of a diverged case is skipped),
then a `SUMMARY` line.  No imports outside the model: links natively.

**One dispatcher.**  This file contains parsing and printing only.  A trace line that names a public operation is decoded
into an `Op Pr` (`decodeLine`) and executed by `PQ.step` — the very function the theorems are about; a line that names an
observation is executed by `PQ.observe` (`PQ/Model/Observe.lean`); the crash mirrors run the same decoded `Op` on
`Crash.stepF` / `Crash.stepCb`.  What remains here beside parsing and printing: the call-by-call drivers of the iterator
machines for client calls that are not primitive (`nth`, `last`, `count`: std's default methods, desugared), the
`iter_mut late` client pattern, and the bookkeeping of the comparison counter (`t <n>`).
-/
namespace PQ.Driver
open PQ

/-- The driver's priority type: an integer ordered by `rank`.  Below `tagBase` the rank is the value itself; from `tagBase`
on the three low bits are a tag that takes no part in the order (the harness's `Pri` has exactly this `Ord`/`Eq`): two
priorities can compare equal and still be distinguishable.  `rank` is monotone, so `<` is a strict weak order — an
instance of the total preorders the theorems quantify over. -/
structure Pr where
  v : Int
  deriving DecidableEq, Inhabited

def tagBase : Int := 1099511627776   -- 2^40

def Pr.rank (p : Pr) : Int := if p.v < tagBase then p.v else tagBase + (p.v - tagBase) / 8

instance : LT Pr := ⟨fun a b => a.rank < b.rank⟩
instance : DecidableLT Pr := fun a b => inferInstanceAs (Decidable (a.rank < b.rank))
instance : ToString Pr := ⟨fun p => toString p.v⟩

/-- forget the tag: equality of normalised priorities is the harness's `PartialEq for Pri` -/
def Pr.norm (p : Pr) : Pr := ⟨p.rank⟩

abbrev Entry := Item × Pr

/-- the driver's state is a queue of the model -/
abbrev St := Q Pr

instance : Inhabited St := ⟨⟨.pq, Store.empty⟩⟩

/-! ## token parser -/
abbrev Pm := StateT (List String) (Except String)

def tok : Pm String := do
  match (← get) with
  | [] => throw "unexpected end of line"
  | t :: ts => set ts; pure t

def nat : Pm Nat := do
  let t ← tok
  match t.toNat? with
  | some n => pure n
  | none => throw s!"expected a natural number, got {t}"

def int : Pm Pr := do
  let t ← tok
  match t.toInt? with
  | some n => pure ⟨n⟩
  | none => throw s!"expected an integer, got {t}"

def flag : Pm Bool := do
  let n ← nat
  pure (n != 0)

def entry : Pm Entry := do
  let k ← nat; let pl ← nat; let p ← int
  pure (⟨k, pl⟩, p)

def rep (n : Nat) (p : Pm α) : Pm (Array α) := do
  let mut acc := #[]
  for _ in [0:n] do
    acc := acc.push (← p)
  pure acc

def entries : Pm (Array Entry) := do
  let n ← nat
  rep n entry

def optNat : Pm (Option Nat) := do
  let t ← tok
  if t == "none" then pure none
  else match t.toNat? with
    | some n => pure (some n)
    | none => throw s!"expected none or a number, got {t}"

def kindP : Pm Kind := do
  let t ← tok
  if t == "pq" then pure .pq else if t == "dpq" then pure .dpq else throw s!"bad kind {t}"

/-- a client call: a primitive call, or `nth(k)` / `nth_back(k)`, which std's default methods implement as
`k` discarded advances (stopping at the first `None`) followed by one more advance -/
inductive XCall where
  | prim (c : ICall)
  | nth (back : Bool) (k : Nat)
  /-- `last()`: advance from the front until `None`, report the last element seen; consumes the iterator -/
  | last
  /-- `count()`: advance from the front until `None`, report how many elements were seen; consumes the iterator -/
  | count

def xcall : Pm XCall := do
  let t ← tok
  match t with
  | "f" => pure (.prim .next)
  | "b" => pure (.prim .nextBack)
  | "l" => pure (.prim .len)
  | "h" => pure (.prim .sizeHint)
  | "z" => pure .last
  | "c" => pure .count
  | _ =>
    if t.startsWith "n" then
      match (t.drop 1).toString.toNat? with
      | some k => pure (.nth false k)
      | none => throw s!"bad iterator call {t}"
    else if t.startsWith "m" then
      match (t.drop 1).toString.toNat? with
      | some k => pure (.nth true k)
      | none => throw s!"bad iterator call {t}"
    else throw s!"bad iterator call {t}"

/-- run an extended call on a machine given by its primitive step function -/
def xstep {σ : Type} (step : σ → ICall → R (σ × IOut)) (st : σ) : XCall → R (σ × IOut)
  | .prim c => step st c
  | .nth back k => do
    let adv := if back then ICall.nextBack else ICall.next
    let mut st := st
    for _ in [0:k] do
      let (st', o) ← step st adv
      st := st'
      match o with
      | .slot (some _) => pure ()
      | _ => return (st, .slot none)
    step st adv
  | .last | .count => .error .fuel   -- handled by `xdrain` (they consume the machine)

/-- `last()` / `count()` on a machine: run `next` until it answers `none` (fuel = an upper bound on the remaining length) -/
def xdrain {σ : Type} (step : σ → ICall → R (σ × IOut)) (fuel : Nat) (st : σ) : R (σ × Option Nat × Nat) := do
  let mut st := st
  let mut lastSlot : Option Nat := none
  let mut n := 0
  for _ in [0:fuel + 1] do
    let (st', o) ← step st .next
    st := st'
    match o with
    | .slot (some i) => lastSlot := some i; n := n + 1
    | _ => return (st, lastSlot, n)
  pure (st, lastSlot, n)

/-! ## canonical printing -/
def showOptP : Option Pr → String
  | none => "none"
  | some p => s!"some {p}"

def showE (e : Entry) : String := s!"{e.1.key} {e.1.payload} {e.2}"

def showOptE : Option Entry → String
  | none => "none"
  | some e => s!"some {showE e}"

def showNats (a : Array Nat) : String :=
  a.foldl (fun acc x => acc ++ " " ++ toString x) (toString a.size)

/-- the entry an observation / operation answered with -/
def outEntry : R (Q Pr × Out Pr) → Option (Option Entry)
  | .ok (_, .entry e) => some e
  | _ => none

/-- what the public peeks report in this state -/
def showPeeks (kind : Kind) (s : Store Pr) : String :=
  let q : Q Pr := ⟨kind, s⟩
  match kind with
  | .pq =>
    match outEntry (observe q .peek) with
    | some a => showOptE a
    | none => "panic"
  | .dpq =>
    match outEntry (observe q .peekMin), outEntry (observe q .peekMax) with
    | some a, some b => showOptE a ++ " " ++ showOptE b
    | _, _ => "panic"

def showSnap (kind : Kind) (s : Store Pr) (dt : Nat) : String :=
  let m := s.map.foldl (fun acc e => acc ++ " " ++ showE e) s!"m {s.map.size}"
  s!"{m} h {showNats s.heap} q {showNats s.qp} s {s.size} pk {showPeeks kind s} t {dt}"

def showFault : Fault → String
  | .oob _ => "fault oob"
  | .indexPanic _ => "fault index"
  | .unwrapNone _ => "fault unwrap"
  | .arith _ => "fault arith"
  | .capacity => "fault capacity"
  | .fuel => "fault fuel"
  | .userPanic => "fault user"

def showFaultSite : Fault → String
  | .oob n => s!"oob@{n}"
  | .indexPanic n => s!"index@{n}"
  | .unwrapNone n => s!"unwrap@{n}"
  | .arith n => s!"arith@{n}"
  | .capacity => "capacity"
  | .fuel => "fuel"
  | .userPanic => "user"

def showKeys (l : List Entry) : String :=
  l.foldl (fun acc e => acc ++ s!" {e.1.key} {e.1.payload}") (toString l.length)

def showOut (m : IMap Pr) : IOut → String
  | .slot none => "s none"
  | .slot (some i) => match m[i]? with
    | some e => s!"s some {showE e}"
    | none => s!"s bad {i}"
  | .len n => s!"l {n}"
  | .hint lo none => s!"h {lo} none"
  | .hint lo (some hi) => s!"h {lo} {hi}"
  | .unsupported => "u"

/-! ## snapshot parsing (for `load`) -/
def snapP : Pm (Store Pr) := do
  let t ← tok; if t != "m" then throw "snapshot: expected m"
  let map ← entries
  let t ← tok; if t != "h" then throw "snapshot: expected h"
  let hn ← nat; let heap ← rep hn nat
  let t ← tok; if t != "q" then throw "snapshot: expected q"
  let qn ← nat; let qp ← rep qn nat
  let t ← tok; if t != "s" then throw "snapshot: expected s"
  let size ← nat
  pure { map := map, heap := heap, qp := qp, size := size }

/-! ## closures as data -/
structure PredRow where
  key : Nat
  keep : Bool
  prio : Option Pr
  payload : Option Nat

def predRow : Pm PredRow := do
  let key ← nat; let keep ← flag
  let wp ← flag; let p ← int
  let wpl ← flag; let pl ← nat
  pure ⟨key, keep, if wp then some p else none, if wpl then some pl else none⟩

def predOf (rows : Array PredRow) : Item → Pr → Bool × Item × Pr := fun it p =>
  match rows.find? (fun r => r.key == it.key) with
  | some r =>
    (r.keep, (match r.payload with | some pl => { it with payload := pl } | none => it),
      (match r.prio with | some q => q | none => p))
  | none => (true, it, p)

def writeP : Pm (IMWrite Pr) := do
  let wp ← flag; let p ← int
  let wpl ← flag; let pl ← nat
  pure ⟨if wp then some p else none, if wpl then some pl else none⟩

/-! ## execution

Nothing below dispatches to `MaxQ.*` / `DQ.*`: operations go through `step`, observations through `observe`. -/

/-- result of one line: new state, canonical result string -/
abbrev Res := Except Fault (St × String)

/-- execute an operation of the alphabet on the model and print its answer -/
def viaStep (st : St) (op : Op Pr) (render : Out Pr → String) : Res := do
  let (q, o) ← step st op
  pure (q, render o)

/-- execute an observation on the model and print its answer -/
def viaObserve (st : St) (ob : Obs Pr) (render : Out Pr → String) : Res := do
  let (q, o) ← observe st ob
  pure (q, render o)

/-! ### printing the answers (`Out`) -/

def showOutPrio : Out Pr → String
  | .prio r => showOptP r
  | _ => "?out"

def showOutEntry : Out Pr → String
  | .entry r => showOptE r
  | _ => "?out"

def showOutBool : Out Pr → String
  | .bool b => toString b
  | _ => "?out"

def showOutKeys : Out Pr → String
  | .entries l => showKeys l
  | _ => "?out"

/-- the `olen … omap … oh … oq …` answer of `append`: what is left of the other queue -/
def showOutOther : Out Pr → String
  | .other len map heap qp => s!"olen {len} omap {map} oh {heap} oq {qp}"
  | _ => "?out"

/-- the outputs of an `iter_mut` program of primitive calls, each shown against the map as it was when the call was made
(the writes are replayed alongside) -/
def showIterOuts (m : IMap Pr) (prims : List (ICall × IMWrite Pr)) : Out Pr → String
  | .outs outs => Id.run do
    let mut map := m
    let mut out := ""
    for (o, (_, w)) in outs.zip prims do
      out := out ++ " " ++ showOut map o
      match o with
      | .slot (some i) => map := IMap.applyWrite map i w
      | _ => pure ()
    pure out
  | _ => "?out"

/-- the predicate-call log of `retain` / `retain_mut`: produced by the stateful twin of the operation
(`Model/Stateful.lean`) run with a LOGGING closure — the keys the model function itself showed its predicate, in call order
(`C08_retain_calls_once_per_element`: the stored entries in slot order, once each) -/
def showRetainLog (st : St) (f : Item → Pr → Bool × Item × Pr) : String :=
  let log := (st.s.retainMutS (fun (log : Array Nat) it p => (log.push it.key, f it p)) #[]).1
  log.foldl (fun acc k => acc ++ s!" {k}") s!"{log.size}"

/-- the element a `pop_if` / `pop_min_if` / `pop_max_if` shows its predicate: the state of a RECORDING predicate after the
stateful twin of the operation ran (`C08_popIf_calls_once`: one call, on the element the peek reports; none on an empty
queue); `none` also when the predicate was consulted more than once -/
def shownToPredicate (st : St) (name : String) (f : Item → Pr → Bool × Item × Pr) : Option (Option Entry) :=
  let g : PredS (List Entry) Pr := fun seen it p => (seen ++ [(it, p)], f it p)
  let r : R (List Entry) := match name with
    | "pop_if" => (MaxQ.popIfS st.s g []).map (fun x => x.1)
    | "pop_min_if" => (DQ.popMinIfS st.s g []).map (fun x => x.1)
    | _ => (DQ.popMaxIfS st.s g []).map (fun x => x.1)
  match r with
  | .ok [] => some none
  | .ok [e] => some (some e)
  | _ => none

/-- a plain cursor over the entries `m` in slot order (`iter`, `into_iter`, `drain`), driven call by call -/
def runCursor (m : IMap Pr) (calls : Array XCall) : String := Id.run do
  let mut c := Cursor.new m.size
  let mut out := ""
  let mut gone := false
  for x in calls do
    if gone then
      out := out ++ " gone"
    else
      match x with
      | .last | .count =>
        match xdrain (fun c k => pure (Cursor.step c k)) m.size c with
        | .ok (_, l, k) =>
          gone := true
          out := out ++ (match x with | .last => " " ++ showOut m (.slot l) | _ => s!" l {k}")
        | .error _ => out := out ++ " fault"
      | _ =>
        match xstep (fun c k => pure (Cursor.step c k)) c x with
        | .ok (c', o) =>
          c := c'
          out := out ++ " " ++ showOut m o
        | .error _ => out := out ++ " fault"
  pure out

/-! ### decoding a trace line into an operation of the alphabet -/

/-- the closure of the `pop_if` family as data: an optional write to payload and priority, and the verdict -/
def popPred (w : IMWrite Pr) (ret : Bool) : Item → Pr → Bool × Item × Pr := fun it p =>
  (ret, (match w.payload with | some pl => { it with payload := pl } | none => it),
    (match w.prio with | some q => q | none => p))

/-- `other` of `append` / `eq` as the harness builds it: pushes, in order, into an empty queue of the same kind
(`extend` from an iterator announcing nothing is exactly that) -/
def buildOther (kind : Kind) (xs : Array Entry) : R (Store Pr) := do
  let (q, _) ← step (Q.new kind) (.extend 0 xs)
  pure q.s

/-- the primitive calls of a client program, if it consists of primitive calls only -/
def primsOf (prog : Array (XCall × IMWrite Pr)) : Option (List (ICall × IMWrite Pr)) :=
  let prims := prog.toList.filterMap fun (c, w) => match c with | .prim c => some (c, w) | _ => none
  if prims.length == prog.size then some prims else none

/-- a decoded operation line -/
structure Dec where
  op : Op Pr
  /-- canonical text of the answer (given the queue BEFORE the operation) -/
  render : St → Out Pr → String
  /-- the kind that has this method (`none`: both) -/
  only : Option Kind := none
  /-- measure the comparisons of the operation itself only: both counters start at zero (for `append`, which may swap
  the two stores, and whose other queue was built outside the measured window) -/
  window : Bool := false
  /-- the operation installs a freshly built store: the comparison count of the line is the new store's own counter -/
  fresh : Bool := false

inductive Line where
  /-- an operation of the alphabet -/
  | op (d : Dec)
  /-- `iter_mut` in a form that is not an operation of the alphabet: a program with `nth` / `last` / `count`, or the
  `late` client pattern -/
  | iterMutX (mode : String) (prog : Array (XCall × IMWrite Pr))
  /-- not an operation line (nothing consumed) -/
  | other

/-- decode `<name> <args…>` into an `Op Pr` and the printer of its answer -/
def decodeLine (kind : Kind) (name : String) : Pm Line := do
  let unit : St → Out Pr → String := fun _ _ => "unit"
  match name with
  | "push" =>
    let e ← entry
    pure <| .op { op := .push e.1 e.2, render := fun _ => showOutPrio }
  | "push_increase" =>
    let e ← entry
    pure <| .op { op := .pushIncrease e.1 e.2, render := fun _ => showOutPrio }
  | "push_decrease" =>
    let e ← entry
    pure <| .op { op := .pushDecrease e.1 e.2, render := fun _ => showOutPrio }
  | "change_priority" =>
    let k ← nat; let p ← int
    pure <| .op { op := .changePriority k p, render := fun _ => showOutPrio }
  | "change_priority_by" =>
    let k ← nat; let p ← int
    pure <| .op { op := .changePriorityBy k (fun _ => p), render := fun _ => showOutBool }
  | "remove" =>
    let k ← nat
    pure <| .op { op := .remove k, render := fun _ => showOutEntry }
  | "get_mut" =>
    let k ← nat; let pl ← nat
    pure <| .op { op := .getMut k (fun it => { it with payload := pl }), render := fun _ => showOutEntry }
  | "pop" => pure <| .op { op := .popFront, render := fun _ => showOutEntry, only := some .pq }
  | "pop_min" => pure <| .op { op := .popFront, render := fun _ => showOutEntry, only := some .dpq }
  | "pop_max" => pure <| .op { op := .popBack, render := fun _ => showOutEntry, only := some .dpq }
  | "pop_if" | "pop_min_if" | "pop_max_if" =>
    let w ← writeP; let ret ← flag
    let f := popPred w ret
    -- the element the predicate is shown: what the operation's stateful twin recorded
    let render : St → Out Pr → String := fun st o =>
      match shownToPredicate st name f with
      | some e => s!"seen {showOptE e} ret {showOutEntry o}"
      | none => "?seen"
    pure <| .op { op := if name == "pop_max_if" then .popBackIf f else .popFrontIf f, render := render,
                  only := some (if name == "pop_if" then .pq else .dpq) }
  | "peek_mut" =>
    let pl ← nat
    pure <| .op { op := .peekFrontMut (fun it => { it with payload := pl }), render := fun _ => showOutEntry, only := some .pq }
  | "peek_min_mut" =>
    let pl ← nat
    pure <| .op { op := .peekFrontMut (fun it => { it with payload := pl }), render := fun _ => showOutEntry, only := some .dpq }
  | "peek_max_mut" =>
    let pl ← nat
    pure <| .op { op := .peekBackMut (fun it => { it with payload := pl }), render := fun _ => showOutEntry, only := some .dpq }
  | "retain_mut" | "retain" =>
    let n ← nat; let rows ← rep n predRow
    -- `retain` hands out shared references: the rows' writes are ignored
    let rows := if name == "retain" then rows.map (fun r => { r with prio := none, payload := none }) else rows
    pure <| .op { op := .retainMut (predOf rows), render := fun st _ => showRetainLog st (predOf rows) }
  | "iter_mut" =>
    let mode ← tok
    let n ← nat
    let prog ← rep n (do let c ← xcall; let w ← writeP; pure (c, w))
    match (if mode == "late" then none else primsOf prog) with
    | some prims =>
      -- `drop`: the guard's `Drop` rebuilds; any other mode leaks it
      pure <| .op { op := .iterMut (mode != "drop") prims, render := fun st => showIterOuts st.s.map prims }
    | none => pure <| .iterMutX mode prog
  | "extend" =>
    let lo ← nat; let _hi ← optNat; let xs ← entries
    pure <| .op { op := .extend lo xs, render := unit }
  | "from_iter" =>
    let lo ← nat; let _hi ← optNat; let xs ← entries
    pure <| .op { op := .fromIter lo xs, render := unit, fresh := true }
  | "from_vec" =>
    let xs ← entries
    pure <| .op { op := .fromVec xs, render := unit, fresh := true }
  | "deser" =>
    let xs ← entries
    pure <| .op { op := .deserialize none xs, render := fun _ _ => "ok", fresh := true }
  | "deser_hint" =>
    -- the length the input announces: any natural number (possibly ≥ 2^64 - 1), unrelated to the pairs that follow
    let hint ← nat; let xs ← entries
    pure <| .op { op := .deserialize (some hint) xs, render := fun _ _ => "ok", fresh := true }
  | "deser_unit" => pure <| .op { op := .deserialize none #[], render := fun _ _ => "ok", fresh := true }
  | "append" =>
    let _cap ← nat    -- the other queue's initial capacity: not part of the modelled state
    let xs ← entries
    match buildOther kind xs with
    | .error f => throw s!"model fault {showFaultSite f} while building the other queue"
    | .ok o => pure <| .op { op := .append { o with ticks := 0 }, render := fun _ => showOutOther, window := true }
  | "convert" => pure <| .op { op := .convert, render := unit }
  | "clear" => pure <| .op { op := .clear, render := unit }
  | "drain" =>
    let _mode ← tok
    let n ← nat; let calls ← rep n xcall
    -- the draining iterator is a cursor over the drained entries, whatever is done with it
    pure <| .op { op := .drain, render := fun _ o => match o with
      | .entries es => runCursor es.toArray calls
      | _ => "?out" }
  | "shrink_to_fit" | "capacity" => pure <| .op { op := .capacityOp, render := fun _ _ => "capok" }
  | _ => pure .other

/-- run a decoded operation: `step`, nothing else (plus the counter bookkeeping the line asks for) -/
def runDec (st : St) (d : Dec) : Res := do
  let t0 := st.s.ticks
  let q0 : St := if d.window then { st with s := { st.s with ticks := 0 } } else st
  let (q, o) ← step q0 d.op
  -- the comparisons of a windowed / freshly built store are its own counter: keep the queue's running total monotone
  let q : St := if d.window || d.fresh then { q with s := { q.s with ticks := q.s.ticks + t0 } } else q
  pure (q, d.render st o)

/-! ### client programs that are not operations of the alphabet (desugared call by call) -/

/-- run an `iter_mut` program containing `nth` / `nth_back` / `last` / `count` on the map, call by call on the iterator
machine of the queue kind.  Returns the rewritten store, the outputs, and whether the guard was consumed inside the program
(`last` / `count`). -/
def runIterMut (kind : Kind) (prog : Array (XCall × IMWrite Pr)) (s : Store Pr) : R (Store Pr × String × Bool) := do
  let n := s.map.size
  let mut map := s.map
  let mut out := ""
  let mut pit := PIterMut.new
  let mut dit := DIterMut.new n
  let mut gone := false
  for (c, w) in prog do
    if gone then
      out := out ++ " gone"
    else
      match c with
      | .last | .count =>
        let (lastSlot, cnt) ← match kind with
          | .pq => do
            let (_, l, k) ← xdrain (fun it c => pure (PIterMut.step n it c)) n pit
            pure (l, k)
          | .dpq => do
            let (_, l, k) ← xdrain (DIterMut.step n) n dit
            pure (l, k)
        gone := true
        match c with
        | .last => out := out ++ " " ++ showOut map (.slot lastSlot)
        | _ => out := out ++ s!" l {cnt}"
      | _ =>
        let o ← match kind with
          | .pq => do
            let (it', o) ← xstep (fun it c => pure (PIterMut.step n it c)) pit c
            pit := it'
            pure o
          | .dpq => do
            let (it', o) ← xstep (DIterMut.step n) dit c
            dit := it'
            pure o
        out := out ++ " " ++ showOut map o
        match o with
        | .slot (some i) => map := IMap.applyWrite map i w
        | _ => pure ()
  pure ({ s with map := map }, out, gone)

/-- the `late` mode of the harness: the references are collected, the guard is dropped (heap rebuilt on the UNCHANGED
priorities), and only then the writes are performed — what `iter_mut().collect::<Vec<_>>()` followed by writes does -/
def runIterMutLate (kind : Kind) (prog : Array (XCall × IMWrite Pr)) (s : Store Pr) : R (Store Pr × String) := do
  if let some prims := primsOf prog then
    -- the model's own definition (`Ops.iterMutLate`); outputs are shown against the unwritten map
    let (s', outs) ← iterMutLate kind s prims
    let out := outs.foldl (fun acc o => acc ++ " " ++ showOut s.map o) ""
    return (s', out)
  let nowrite : IMWrite Pr := ⟨none, none⟩
  let (_, out, _) ← runIterMut kind (prog.map fun (c, _) => (c, nowrite)) s
  let s1 ← heapBuildK kind s
  -- now the writes, in yield order, with nobody rebuilding afterwards
  let n := s.map.size
  let mut map := s1.map
  let mut pit := PIterMut.new
  let mut dit := DIterMut.new n
  for (c, w) in prog do
    let o ← match kind with
      | .pq => do
        let (it', o) ← xstep (fun it c => pure (PIterMut.step n it c)) pit c
        pit := it'
        pure o
      | .dpq => do
        let (it', o) ← xstep (DIterMut.step n) dit c
        dit := it'
        pure o
    match o with
    | .slot (some i) => map := IMap.applyWrite map i w
    | _ => pure ()
  pure ({ s1 with map := map }, out)

/-- the sorted iterators are the machines of `Model/SortedIter.lean` (`PQ.sortedStep`: `next` = the front pop of the kind,
`next_back` = `pop_max`, `len` / `size_hint` as the two iterator types (do not) implement them) — the functions
`C13_sorted_dpq_exact_size` / `C13_sorted_pq_shape` are about; the driver only prints their answers -/
abbrev SOut := PQ.SOut Pr

def sortedStep (kind : Kind) (s : Store Pr) : ICall → R (Store Pr × SOut) := PQ.sortedStep kind s

def runSorted (kind : Kind) (calls : Array XCall) (s : Store Pr) : R (String × Nat) := do
  let mut s := s
  let t0 := s.ticks
  let mut out := ""
  let mut gone := false
  for c in calls do
    if gone then
      out := out ++ " gone"
      continue
    let o ← match c with
      | .last | .count => do
        -- pop from the front until empty
        let mut lastE : Option Entry := none
        let mut cnt := 0
        for _ in [0:s.size + 1] do
          let (s', o) ← sortedStep kind s .next
          s := s'
          match o with
          | .item (some e) => lastE := some e; cnt := cnt + 1
          | _ => break
        gone := true
        pure (match c with | .last => PQ.SOut.item lastE | _ => PQ.SOut.len cnt)
      | .prim c => do
        let (s', o) ← sortedStep kind s c
        s := s'
        pure o
      | .nth back k => do
        let adv := if back then ICall.nextBack else ICall.next
        let mut stop := false
        for _ in [0:k] do
          if !stop then
            let (s', o) ← sortedStep kind s adv
            s := s'
            match o with
            | .item (some _) => pure ()
            | _ => stop := true
        if stop then pure (PQ.SOut.item none)
        else do
          let (s', o) ← sortedStep kind s adv
          s := s'
          pure o
    out := out ++ (match o with
      | .item e => " s " ++ showOptE e
      | .len n => s!" l {n}"
      | .hint lo none => s!" h {lo} none"
      | .hint lo (some hi) => s!" h {lo} {hi}"
      | .unsupported => " u")
  pure (out, s.ticks - t0)

/-! ### one line -/

def exec (st : St) (name : String) : Pm Res := do
  match (← decodeLine st.kind name) with
  | .op d =>
    if let some k := d.only then
      if k != st.kind then throw s!"{name} is not a method of this queue kind"
    pure (runDec st d)
  | .iterMutX mode prog =>
    pure <| do
      if mode == "late" then
        let (s, out) ← runIterMutLate st.kind prog st.s
        pure ({ st with s := s }, out)
      else
        let (s, out, gone) ← runIterMut st.kind prog st.s
        -- `last()` / `count()` consume the guard, whose Drop rebuilds, whatever the mode says
        let s ← if mode == "drop" || gone then heapBuildK st.kind s else pure s
        pure ({ st with s := s }, out)
  | .other =>
  match name with
  -- observations
  | "get_priority" =>
    let k ← nat
    pure <| viaObserve st (.getPriority k) showOutPrio
  | "get" =>
    let k ← nat
    pure <| viaObserve st (.get k) showOutEntry
  | "peek" => pure <| viaObserve st .peek showOutEntry
  | "peek_min" => pure <| viaObserve st .peekMin showOutEntry
  | "peek_max" => pure <| viaObserve st .peekMax showOutEntry
  | "len" => pure <| viaObserve st .len (fun o => match o with | .nat n => toString n | _ => "?out")
  | "is_empty" => pure <| viaObserve st .isEmpty showOutBool
  | "into_vec" => pure <| viaObserve st .intoVec showOutKeys
  -- (the comparisons these three spend on the consumed copy: `copyOpTicks`)
  | "into_sorted_vec" => pure <| viaObserve st .intoSortedVec showOutKeys
  | "into_asc_vec" => pure <| viaObserve st .intoAscVec showOutKeys
  | "into_desc_vec" => pure <| viaObserve st .intoDescVec showOutKeys
  | "dbg" =>
    -- `Debug` lists, in heap order, the slot index and the entry stored there (an `unwrap` on `get_index`)
    pure <| viaObserve st .debug (fun o => match o with
      | .debug l => l.foldl (fun acc x => acc ++ s!" {x.1} {showE (x.2.1, x.2.2)}") (toString l.length)
      | _ => "?out")
  | "eq" =>
    let xs ← entries
    pure <| do
      let o ← buildOther st.kind xs
      -- the priority type's `==` looks at the rank only: compare the rank-normalised maps
      let nm (x : Store Pr) : Store Pr := { x with map := x.map.map (fun e => (e.1, e.2.norm)) }
      let (_, r) ← observe { st with s := nm st.s } (.eqv (nm o))
      pure ({ st with s := st.s.tick o.ticks }, showOutBool r)
  -- the iterator machines, driven call by call
  | "iter" | "into_iter" =>
    let n ← nat; let calls ← rep n xcall
    pure <| .ok (st, runCursor st.s.map calls)
  | "into_sorted_iter" =>
    let n ← nat; let calls ← rep n xcall
    pure <| do
      let (out, _) ← runSorted st.kind calls st.s
      pure (st, out)
  -- capacity requests: `reserveC` is the model's capacity check; a granted request is the no-op `Op.capacityOp`
  | "reserve" | "reserve_exact" =>
    let n ← nat
    pure <| do
      reserveC n
      viaStep st .capacityOp (fun _ => "capok")
  | "try_reserve" | "try_reserve_exact" =>
    let n ← nat
    pure <| match reserveC n with
      | .ok _ => viaStep st .capacityOp (fun _ => "capok")
      | .error _ => .ok (st, "err")
  | "try_reserve_oom" =>
    let _exact ← nat; let _n ← nat
    pure <| .ok (st, "capok")     -- or "err": see Main.lean
  | "serde_rt" =>
    -- serialize, then deserialize as kind `k`: the entries in slot order, announced faithfully or not at all
    let k ← kindP
    pure <| runDec { st with kind := k } { op := .deserialize none st.s.map, render := fun _ _ => "ok", fresh := true }
  | "fresh" =>
    let _ctor ← nat; let _cap ← nat
    -- every public constructor gives the empty queue of the model (`Q.new`); capacity is not part of the modelled state
    pure <| .ok (Q.new st.kind, "capok")
  | "deser_bad" =>
    let _v ← nat; let _xs ← entries
    -- an ill-formed / ill-typed input is an error; the queue it was to replace is untouched
    pure <| .ok (st, "err")
  | "ser_fail" =>
    let _k ← nat
    pure <| .ok (st, "err")
  | "clone_swap" => pure <| .ok (st, "unit")
  | "clone_from" =>
    -- `dst.clone_from(&q)`; the queue under test becomes `dst`, which must now be indistinguishable from `q`
    let _keep ← nat; let _xs ← entries
    pure <| .ok (st, "unit")
  | "clone_check" => pure <| .ok (st, "true")
  | "load" =>
    let k ← kindP
    let s' ← snapP
    pure <| .ok ({ kind := k, s := s' }, "ok")
  | _ => throw s!"unknown op {name}"

/-- white-box state without peeks and counter (what the harness can read after an injected fault) -/
def showCore (s : Store Pr) : String :=
  let m := s.map.foldl (fun acc e => acc ++ " " ++ showE e) s!"m {s.map.size}"
  s!"{m} h {showNats s.heap} q {showNats s.qp} s {s.size}"

def kindName : Kind → String
  | .pq => "pq"
  | .dpq => "dpq"

/-- the operations the comparison-crash mirror of the harness injects into -/
def crashOps : List String :=
  ["push", "push_increase", "push_decrease", "change_priority", "change_priority_by", "remove", "pop", "pop_min", "pop_max",
   "pop_if", "pop_min_if", "pop_max_if", "retain_mut", "iter_mut", "extend", "from_vec", "from_iter", "append"]

/-- C10 mirror: run `op` on the crash model (`Crash.stepF`: the fused twin of `step`) with the `k`-th comparison of the
operation panicking; returns the model's post-unwinding state (`none` = the fuse did not fire). -/
def execCrash (st : St) (k : Nat) (name : String) : Pm (Except String (Option (Kind × Store Pr))) := do
  -- the ghost counter is zeroed so that `fuse = k` is the k-th comparison of this operation whichever store ends
  -- up as the receiver (`append` may swap)
  let q0 : Q Pr := { st with s := { st.s with ticks := 0 } }
  let fin {α : Type} (r : Crash.CRQ Pr α) : Except String (Option (Kind × Store Pr)) :=
    match r with
    | .ok _ => .ok none
    | .error (.crashed q') => .ok (some (q'.kind, q'.s))
    | .error .crashedNew => .ok (some (st.kind, st.s))
    | .error (.fault f) => .error s!"model fault {showFaultSite f} inside a fused operation"
  if name == "peek_max" then
    -- an observation that compares: its own fused twin
    return fin (Crash.liftQ st.kind (Crash.DQ.peekMaxF k q0.s))
  if !crashOps.contains name then throw s!"crash mirror: unsupported operation {name}"
  match (← decodeLine st.kind name) with
  | .op d =>
    -- the guard of a crash-mirror `iter_mut` is always dropped (the comparisons are those of its rebuild)
    let op : Op Pr := match d.op with
      | .iterMut _ prog => .iterMut false prog
      | op => op
    pure <| fin (Crash.stepF k q0 op)
  | .iterMutX _ _ => throw "crash mirror: iter_mut programs with nth are not supported"
  | .other => throw s!"crash mirror: unsupported operation {name}"

/-- C10 mirror, callback fuses: run `op` on the callback crash model (`Model/CrashCb.lean`) with the `k`-th user callback
(setter / predicate / source-iterator `next`) of the operation panicking on entry; `none` = the operation performs fewer
callbacks. -/
def execCrashCb (st : St) (k : Nat) (name : String) : Pm (Except String (Option (Kind × Store Pr))) := do
  let fin (r : Crash.CRQ Pr (Q Pr × Out Pr)) : Except String (Option (Kind × Store Pr)) :=
    match r with
    | .ok _ => .ok none
    | .error (.crashed q') => .ok (some (q'.kind, q'.s))
    | .error .crashedNew => .ok (some (st.kind, st.s))
    | .error (.fault f) => .error s!"model fault {showFaultSite f} inside an operation with a panicking callback"
  if !["change_priority_by", "pop_if", "pop_min_if", "pop_max_if", "extend", "from_iter"].contains name then
    throw s!"callback crash mirror: unsupported operation {name}"
  match (← decodeLine st.kind name) with
  | .op d => pure <| fin (Crash.stepCb k st d.op)
  | _ => throw s!"callback crash mirror: unsupported operation {name}"

/-- C10 mirror, `Clone` fuses: a user `Clone` panics inside `clone()` (`clone_swap`) or `dst.clone_from(&q)`.  Both are
the derived implementations (`clone_from` is `*self = source.clone()`): no crate code has touched anything when the panic
unwinds, so the queue the caller holds afterwards is the untouched one — the queue itself for `clone_swap`, the
destination for `clone_from`.  The harness builds that destination from a clone of the queue by popping (`pop` /
`pop_max`) down to `keep` elements and pushing `xs`; the same is done here on the model. -/
def execCrashCl (st : St) (name : String) : Pm (Except String (Option (Kind × Store Pr))) := do
  if name == "clone_swap" then return .ok (some (st.kind, st.s))
  -- `!dr<k> clear`: a `Drop` of a stored element panics inside `map.clear()`; tables and size were reset first and the map is
  -- emptied all the same (`Props/C10_more.lean`: the crash state IS the result of `clear`)
  if name == "clear" then return .ok (some (st.kind, st.s.clear))
  if name != "clone_from" then throw s!"clone crash mirror: unsupported operation {name}"
  let keep ← nat
  let xs ← entries
  let popOp : Op Pr := match st.kind with | .pq => .popFront | .dpq => .popBack
  let rec popDown (fuel : Nat) (q : Q Pr) : Except String (Q Pr) :=
    match fuel with
    | 0 => .ok q
    | fuel + 1 =>
      if q.s.size > keep then
        match step q popOp with
        | .ok (q', _) => popDown fuel q'
        | .error f => .error s!"model fault {showFaultSite f} while building the clone_from destination"
      else .ok q
  match popDown st.s.size { st with } with
  | .error e => return .error e
  | .ok q =>
    let r := xs.foldl (init := (.ok q : Except String (Q Pr))) fun acc e =>
      match acc with
      | .error e => .error e
      | .ok q => match step q (.push e.1 e.2) with
        | .ok (q', _) => .ok q'
        | .error f => .error s!"model fault {showFaultSite f} while building the clone_from destination"
    match r with
    | .error e => return .error e
    | .ok q => return .ok (some (q.kind, q.s))

/-- the comparisons of popping a copy of the queue empty with `op` (`pop` / `pop_min` / `pop_max`) -/
def popAllTicks (q : Q Pr) (op : Op Pr) : Nat :=
  match (do let mut q := q; let t0 := q.s.ticks
            for _ in [0:q.s.size + 1] do
              let (q', _) ← step q op
              q := q'
            pure (q.s.ticks - t0) : R Nat) with
  | .ok n => n | .error _ => 0

/-- ops whose comparisons are performed on a consumed copy: the harness counts them, the model's state does not change -/
def copyOpTicks (st : St) (op : String) (args : List String) : Nat :=
  match op with
  | "into_sorted_vec" | "into_asc_vec" => popAllTicks st .popFront
  | "into_desc_vec" => popAllTicks st .popBack
  | "into_sorted_iter" =>
    match ((rep (args.length - 1) xcall).run (args.drop 1)) with
    | .ok (calls, _) =>
      (match runSorted st.kind calls st.s with
       | .ok (_, n) => n | .error _ => 0)
    | .error _ => 0
  | _ => 0

/-- execute one trace line; returns the new state and the model's canonical output string -/
def runLine (st : St) (lhs : List String) : Except String (St × String) :=
  match lhs with
  | [] => .error "empty line"
  | "ref" :: rest => runLine st rest    -- `(&q).into_iter()` / `(&mut q).into_iter()`: the same iterators
  | op :: args =>
    if (op.startsWith "!cmp" || op.startsWith "!cb" || op.startsWith "!cl" || op.startsWith "!dr") && (match args with | inner :: _ => !inner.startsWith "!" | [] => false) then
      let isCl := op.startsWith "!cl" || op.startsWith "!dr"
      let isCb := op.startsWith "!cb" || isCl     -- (for the comparison count: the model's own ticks, here none)
      match (op.drop (if op.startsWith "!cmp" then 4 else 3)).toString.toNat?, args with
      | some k, inner :: rest =>
        match ((if isCl then execCrashCl st inner else if isCb then execCrashCb st k inner else execCrash st k inner)).run rest with
        | .error e => .error e
        | .ok (r, left) =>
          if !left.isEmpty then .error s!"trailing tokens after {inner}: {left}"
          else match r with
            | .error e => .error e
            | .ok none => runLine st (inner :: rest)   -- the fuse does not fire: the operation runs to completion
            -- the queue survives the caught panic: later lines of the case operate on the model's post-unwinding state
            -- comparison count of the interrupted call: a `!cmp<k>` fuse fires INSIDE the k-th comparison (the real counter has
            -- counted it; nothing may compare while unwinding), a `!cb<k>` fuse after the comparisons the crash model performed
            | .ok (some (k', s')) => .ok ({ st with kind := k', s := s' }, s!"fault user | {kindName k'} {showCore s'} t {if isCl then 0 else if isCb then s'.ticks - st.s.ticks else k}")
      | _, _ => .error s!"bad crash line {op}"
    else
      match (exec st op).run args with
      | .error e => .error e
      | .ok (res, rest) =>
        if !rest.isEmpty then .error s!"trailing tokens after {op}: {rest}"
        else
          match res with
          | .error f => .ok (st, showFault f ++ " | -" ++ " @" ++ showFaultSite f)
          | .ok (st', out) =>
            let dt := (st'.s.ticks - st.s.ticks) + copyOpTicks st op args
            -- `load` installs a snapshot: no comparisons.  (`from_*`, `deser*` replace the store: `runDec` adds the new
            -- store's own count to the running total, so the delta is that count.)
            let dt := match op with
              | "load" => 0
              | _ => dt
            .ok (st', out ++ " | " ++ showSnap st'.kind st'.s dt)

end PQ.Driver
